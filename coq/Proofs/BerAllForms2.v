(* C09: everything the independent reader of the basic encoding rules (Spec/X690.v: parse + interp =
   read) accepts is accepted by the model of the library's BER decoder, with the same abstract value
   and the same unread remainder.  This file supersedes Proofs/BerAllForms.v (same theorem names; it does
   not import it): the fragment now includes CHOICE and ANY.

   1   header level: split_ident / split_length (reference) = dec_ident / dec_len (model) on arbitrary
       octets: long-form tag numbers, over-long length octets (split_ident_dec_ident, split_length_dec_len);
   1b  tree level: what parse_one returns is a well-shaped TLV tree over the model's header functions
       (shape, parse_one_shape);
   2   primitive leaves: contents the reference interprets are decoded to the same value
       (bool_leaf, oid_leaf, bits_leaf, real_leaf; INTEGER is LeafInt.signed_value_is_from_bytes);
   3   running the decoder over one TLV: header, EXPLICIT levels definite or indefinite, the level that
       completes the tag set; sp_ok: a spec (a type, a tag map, or either of them resolving through
       untagged CHOICEs) that resolves to a type T0, wrapping its value and costing fuel;
   4-5 the member loops; strings in any segmentation (octet_string_item, bit_string_item);
   6   the fragment of types (frag); 6b the tagMap of every type of the fragment (tmok_frag), lookups
       (assoc_nodup), positions by type (position_leaf), the specs (sp_ok_sty, sp_ok_map, sp_ok_alt);
   7   one lemma per base type (the item_ lemmas);
   10  SET in any order; SEQUENCE with OPTIONAL / DEFAULT; CHOICE (item_choice, item_exp_choice);
       ANY (any_item, item_any, item_exp_any);
   11  the induction (all_items) and the theorems ber_all_forms_tree, ber_all_forms, ber_all_forms_unconditional.

   Side conditions (see section 11): real_mantissas_present, ascii_strings_ascii, any_without_tag_zero.
   Outside the fragment: character strings whose repertoire the model does not decide (UniversalString,
   BMPString), EXPLICIT UNIVERSAL tags, IMPLICIT tags on CHOICE / ANY (the reference refuses them), an
   untagged ANY as a SET member, CHOICE alternative or next to OPTIONAL components (told by no tag). *)
From Coq Require Import Lia.
From PV Require Import Base.Bytes Model.Tag Model.TableTypes Model.Types Model.Proc Model.Enc Model.Dec Gen.Tables Spec.X690
     Proofs.Bits Proofs.ProcBind Proofs.RunLemmas Proofs.TagOctets Proofs.TagAlgebra Proofs.DecHeader Proofs.DecFrame
     Proofs.DecPrim Proofs.TagsetShape Proofs.Schemaless Proofs.LeafInt.
From PV Require Proofs.RoundTrip1.
Local Open Scope N_scope.

(* ====================================================================== *)
(* 0. octets                                                                *)
(* ====================================================================== *)

Definition octs (b: bytes) : Prop := Forall (fun x => x < 256) b.

Lemma octs_forallb b : octs b -> forallb (fun x => N.ltb x 256) b = true.
Proof.
  intros H. apply forallb_forall. intros x Hx. apply N.ltb_lt.
  unfold octs in H. rewrite Forall_forall in H. apply H. exact Hx.
Qed.

Lemma wf_bytes_octs b : wf_bytes b = true -> octs b.
Proof.
  unfold wf_bytes, octs, wf_byte. intros H. apply Forall_forall. intros x Hx.
  rewrite forallb_forall in H. apply N.ltb_lt. apply H. exact Hx.
Qed.

Lemma octs_app a b : octs (a ++ b) <-> octs a /\ octs b.
Proof. unfold octs. apply Forall_app. Qed.

Lemma octs_cons o r : octs (o :: r) <-> o < 256 /\ octs r.
Proof. unfold octs. split; [intros H; inversion H; subst; split; assumption|intros [H1 H2]; constructor; assumption]. Qed.

Lemma octs_firstn k b : octs b -> octs (firstn k b).
Proof.
  unfold octs. revert b. induction k as [|k IH]; intros b H; [constructor|].
  destruct b as [|x b]; [constructor|]. inversion H; subst. cbn [firstn]. constructor; [assumption|apply IH; assumption].
Qed.

Lemma octs_skipn k b : octs b -> octs (skipn k b).
Proof.
  unfold octs. revert b. induction k as [|k IH]; intros b H; [exact H|].
  destruct b as [|x b]; [constructor|]. inversion H; subst. cbn [skipn]. apply IH; assumption.
Qed.

(* a fact about every octet, decided by running through the 256 of them *)
Lemma byte_cases (P: N -> bool) :
  forallb P (map N.of_nat (seq 0 256)) = true -> forall o, o < 256 -> P o = true.
Proof.
  intros H o Ho. rewrite forallb_forall in H. apply H.
  apply in_map_iff. exists (N.to_nat o). split; [apply N2Nat.id|]. apply in_seq. lia.
Qed.

(* ====================================================================== *)
(* 1. header level                                                          *)
(* ====================================================================== *)

Lemma first_octet_agree o : o < 256 ->
  class_of_no (o / 64) = cls_of_bits o
  /\ N.eqb ((o / 32) mod 2) 1 = negb (N.eqb (N.land o 32) 0)
  /\ o mod 32 = N.land o 31.
Proof.
  intros Ho.
  pose (P := fun o => (match class_of_no (o / 64), cls_of_bits o with
                       | Univ, Univ | Appl, Appl | Ctx, Ctx | Priv, Priv => true | _, _ => false end)
                      && Bool.eqb (N.eqb ((o / 32) mod 2) 1) (negb (N.eqb (N.land o 32) 0))
                      && N.eqb (o mod 32) (N.land o 31)).
  assert (H: P o = true) by (apply byte_cases; [vm_compute; reflexivity|exact Ho]).
  unfold P in H. apply andb_true_iff in H. destruct H as [H H3]. apply andb_true_iff in H. destruct H as [H1 H2].
  split; [|split].
  - destruct (class_of_no (o / 64)), (cls_of_bits o); try discriminate H1; reflexivity.
  - apply Bool.eqb_prop. exact H2.
  - apply N.eqb_eq. exact H3.
Qed.

Lemma cont_octet_agree o : o < 256 ->
  N.ltb o 128 = N.eqb (N.land o 128) 0
  /\ (o < 128 -> N.land o 127 = o) /\ (128 <= o -> N.land o 127 = o - 128).
Proof.
  intros Ho.
  pose (P := fun o => Bool.eqb (N.ltb o 128) (N.eqb (N.land o 128) 0)
                      && (if N.ltb o 128 then N.eqb (N.land o 127) o else N.eqb (N.land o 127) (o - 128))).
  assert (H: P o = true) by (apply byte_cases; [vm_compute; reflexivity|exact Ho]).
  unfold P in H. apply andb_true_iff in H. destruct H as [H1 H2].
  split; [apply Bool.eqb_prop; exact H1|].
  destruct (N.ltb_spec o 128) as [Hs|Hl]; apply N.eqb_eq in H2; split; intros; try lia; exact H2.
Qed.

(* long-form tag number, 8.1.2.4 *)
Lemma long_number_b128 : forall b fuel acc n r, octs b ->
  long_number fuel acc b = Some (n, r) -> dec_b128 acc b = Some (n, r).
Proof.
  induction b as [|o b IH]; intros fuel acc n r Hb H.
  - destruct fuel; discriminate H.
  - destruct fuel as [|f]; [discriminate H|].
    apply octs_cons in Hb. destruct Hb as [Ho Hb].
    cbn [long_number] in H. cbn [dec_b128]. cbv zeta.
    destruct (cont_octet_agree o Ho) as (E1 & E2 & E3). rewrite <- E1.
    destruct (N.ltb_spec o 128) as [Hs|Hl].
    + rewrite (E2 Hs). rewrite lor_shl7 by exact Hs. exact H.
    + rewrite (E3 Hl). rewrite lor_shl7 by lia. apply (IH f _ _ _ Hb H).
Qed.

Theorem split_ident_dec_ident : forall b c pc num r, octs b ->
  split_ident b = Some (c, pc, num, r) -> dec_ident b = Some (mkTag c pc num, r).
Proof.
  intros b c pc num r Hb H. destruct b as [|o b]; [discriminate H|].
  apply octs_cons in Hb. destruct Hb as [Ho Hb].
  cbn [split_ident] in H. cbv zeta in H. cbn [dec_ident]. cbv zeta.
  destruct (first_octet_agree o Ho) as (E1 & E2 & E3). rewrite <- E1, <- E2, <- E3.
  destruct (N.eqb (o mod 32) 31).
  - destruct (long_number (length b) 0 b) as [[n' r']|] eqn:El; [|discriminate H].
    rewrite (long_number_b128 b _ _ _ _ Hb El). inversion H; subst. reflexivity.
  - inversion H; subst. reflexivity.
Qed.

(* length octets in any form, 8.1.3: short, long with any number of leading zero octets, indefinite *)
Theorem split_length_dec_len : forall b ol r, octs b ->
  split_length b = Some (ol, r) -> dec_len b = Some (ol, r).
Proof.
  intros b ol r Hb H. destruct b as [|o b]; [discriminate H|].
  apply octs_cons in Hb. destruct Hb as [Ho Hb].
  cbn [split_length] in H. rewrite dec_len_cons.
  destruct (N.ltb_spec o 128) as [Hs|Hl]; [exact H|].
  destruct (N.eqb o 128); [exact H|].
  destruct (N.eqb o 255); [discriminate H|]. cbv zeta in H. cbv zeta.
  destruct (cont_octet_agree o Ho) as (_ & _ & E3). rewrite (E3 Hl).
  destruct (Nat.ltb (length b) (N.to_nat (o - 128))); [discriminate H|].
  rewrite <- (octets_value_is_be_num (firstn (N.to_nat (o - 128)) b) 0); [exact H|].
  apply octs_forallb. apply octs_firstn. exact Hb.
Qed.

(* the rest returned by the header functions is a suffix; the header does not depend on what follows *)
Definition ident_octets (hb: bytes) (t: tag) : Prop := forall tl, dec_ident (hb ++ tl) = Some (t, tl).
Definition len_octets (lb: bytes) (ol: option N) : Prop := forall tl, dec_len (lb ++ tl) = Some (ol, tl).

Lemma dec_b128_suffix : forall b acc n r, dec_b128 acc b = Some (n, r) ->
  exists hb, b = hb ++ r /\ hb <> [] /\ forall tl, dec_b128 acc (hb ++ tl) = Some (n, tl).
Proof.
  induction b as [|o b IH]; intros acc n r H; [discriminate H|].
  cbn [dec_b128] in H. cbv zeta in H.
  destruct (N.eqb (N.land o 128) 0) eqn:E.
  - inversion H; subst. exists [o]. split; [reflexivity|]. split; [discriminate|].
    intros tl. cbn [app dec_b128]. cbv zeta. rewrite E. reflexivity.
  - destruct (IH _ _ _ H) as (hb & -> & Hne & Hk). exists (o :: hb). split; [reflexivity|]. split; [discriminate|].
    intros tl. cbn [app dec_b128]. cbv zeta. rewrite E. apply Hk.
Qed.

Lemma dec_ident_suffix : forall b t r, dec_ident b = Some (t, r) ->
  exists hb, b = hb ++ r /\ hb <> [] /\ ident_octets hb t.
Proof.
  intros b t r H. destruct b as [|o b]; [discriminate H|].
  cbn [dec_ident] in H. cbv zeta in H.
  destruct (N.eqb (N.land o 31) 31) eqn:E.
  - destruct (dec_b128 0 b) as [[n r']|] eqn:Eb; [|discriminate H]. inversion H; subst.
    destruct (dec_b128_suffix _ _ _ _ Eb) as (hb & -> & _ & Hk).
    exists (o :: hb). split; [reflexivity|]. split; [discriminate|].
    intros tl. cbn [app dec_ident]. cbv zeta. rewrite E, Hk. reflexivity.
  - inversion H; subst. exists [o]. split; [reflexivity|]. split; [discriminate|].
    intros tl. cbn [app dec_ident]. cbv zeta. rewrite E. reflexivity.
Qed.

Lemma dec_len_suffix : forall b ol r, dec_len b = Some (ol, r) ->
  exists lb, b = lb ++ r /\ lb <> [] /\ len_octets lb ol.
Proof.
  intros b ol r H. destruct b as [|o b]; [discriminate H|].
  rewrite dec_len_cons in H.
  destruct (N.ltb o 128) eqn:E1.
  - inversion H; subst. exists [o]. split; [reflexivity|]. split; [discriminate|].
    intros tl. cbn [app]. rewrite dec_len_cons, E1. reflexivity.
  - destruct (N.eqb o 128) eqn:E2.
    + inversion H; subst. exists [o]. split; [reflexivity|]. split; [discriminate|].
      intros tl. cbn [app]. rewrite dec_len_cons, E1, E2. reflexivity.
    + cbv zeta in H. set (k := N.to_nat (N.land o 127)) in *.
      destruct (Nat.ltb_spec (length b) k) as [Hc|Hk]; [discriminate H|]. inversion H; subst.
      exists (o :: firstn k b). split; [cbn [app]; rewrite firstn_skipn; reflexivity|]. split; [discriminate|].
      intros tl. cbn [app]. rewrite dec_len_cons, E1, E2. cbv zeta. fold k.
      assert (Hl: length (firstn k b) = k) by (apply firstn_length_le; exact Hk).
      destruct (Nat.ltb_spec (length (firstn k b ++ tl)) k) as [Hc|_]; [rewrite app_length in Hc; lia|].
      rewrite <- Hl at 1 3. rewrite firstn_app_exact, skipn_app_exact. reflexivity.
Qed.

Example stage1_forms :
  split_ident [191; 129; 128; 5; 7] = Some (Ctx, true, 16389, [7])
  /\ dec_ident [191; 129; 128; 5; 7] = Some (mkTag Ctx true 16389, [7])
  /\ split_length [132; 0; 0; 1; 2; 9] = Some (Some 258, [9])
  /\ dec_len [132; 0; 0; 1; 2; 9] = Some (Some 258, [9]).
Proof. vm_compute. repeat split. Qed.

(* ====================================================================== *)
(* 1b. the tree the reference parses, over the model's header functions     *)
(* ====================================================================== *)

Section node_ind_strong.
  Variable P : node -> Prop.
  Hypothesis HPrim: forall c num contents raw, P (Prim c num contents raw).
  Hypothesis HCons: forall c num i kids raw, Forall P kids -> P (Cons c num i kids raw).
  Fixpoint node_ind' (n: node) : P n :=
    match n with
    | Prim c num contents raw => HPrim c num contents raw
    | Cons c num i kids raw =>
        HCons c num i kids raw ((fix go (l: list node) : Forall P l :=
                                   match l with [] => Forall_nil _ | k :: r => Forall_cons k (node_ind' k) (go r) end) kids)
    end.
End node_ind_strong.

Definition kids_raw (kids: list node) : bytes := concat (map node_raw kids).
Definition eoc_start (b: bytes) : bool := match b with 0 :: 0 :: _ => true | _ => false end.

(* identifier octets, length octets in whatever form, contents; an indefinite-length node ends with
   00 00 and none of its members begins with 00 00 *)
Fixpoint shape (n: node) : Prop :=
  match n with
  | Prim c num contents raw =>
      exists ib lb, ident_octets ib (mkTag c false num) /\ len_octets lb (Some (N.of_nat (length contents)))
                    /\ raw = ib ++ lb ++ contents
  | Cons c num indef kids raw =>
      exists ib lb, ident_octets ib (mkTag c true num)
        /\ len_octets lb (if indef then None else Some (N.of_nat (length (kids_raw kids))))
        /\ raw = ib ++ lb ++ kids_raw kids ++ (if indef then [0; 0] else [])
        /\ (fix all (l: list node) : Prop :=
              match l with
              | [] => True
              | k :: r => (shape k /\ (indef = true -> eoc_start (node_raw k) = false)) /\ all r
              end) kids
  end.

Definition kid_ok (indef: bool) (k: node) : Prop := shape k /\ (indef = true -> eoc_start (node_raw k) = false).

Lemma shape_cons c num indef kids raw :
  shape (Cons c num indef kids raw) <->
  exists ib lb, ident_octets ib (mkTag c true num)
        /\ len_octets lb (if indef then None else Some (N.of_nat (length (kids_raw kids))))
        /\ raw = ib ++ lb ++ kids_raw kids ++ (if indef then [0; 0] else [])
        /\ Forall (kid_ok indef) kids.
Proof.
  cbn [shape].
  assert (E: forall l, (fix all (l: list node) : Prop :=
              match l with
              | [] => True
              | k :: r => (shape k /\ (indef = true -> eoc_start (node_raw k) = false)) /\ all r
              end) l <-> Forall (kid_ok indef) l).
  { induction l as [|k r IH]; [split; [constructor|trivial]|].
    split.
    - intros [Hk Hr]. constructor; [exact Hk|apply IH; exact Hr].
    - intros H. inversion H; subst. split; [assumption|apply IH; assumption]. }
  split; intros (ib & lb & H1 & H2 & H3 & H4); exists ib, lb; (split; [exact H1|split; [exact H2|split; [exact H3|apply E; exact H4]]]).
Qed.

Lemma ident_octets_nonempty hb t : ident_octets hb t -> hb <> [].
Proof. intros H E. subst hb. specialize (H []). discriminate H. Qed.
Lemma len_octets_nonempty lb ol : len_octets lb ol -> lb <> [].
Proof. intros H E. subst lb. specialize (H []). discriminate H. Qed.

(* the two sibling loops of parse_one, named *)
Definition many_def (f: nat) : nat -> bytes -> option (list node) :=
  fix many (k: nat) (cs: bytes) : option (list node) :=
    match k with
    | O => None
    | S k' => match cs with
              | [] => Some []
              | _ => match parse_one f cs with
                     | Some (nd, cs') => match many k' cs' with Some l => Some (nd :: l) | None => None end
                     | None => None
                     end
              end
    end.

Definition many_indef (f: nat) : nat -> bytes -> option (list node * bytes) :=
  fix many (k: nat) (cs: bytes) : option (list node * bytes) :=
    match k with
    | O => None
    | S k' => match cs with
              | 0 :: 0 :: cs' => Some ([], cs')
              | _ => match parse_one f cs with
                     | Some (nd, cs') => match many k' cs' with Some (l, r) => Some (nd :: l, r) | None => None end
                     | None => None
                     end
              end
    end.

Lemma parse_one_S f b :
  parse_one (S f) b =
  match split_ident b with
  | None => None
  | Some (c, pc, num, r1) =>
      match split_length r1 with
      | None => None
      | Some (Some n, r2) =>
          let n' := N.to_nat n in
          if Nat.ltb (length r2) n' then None else
          let contents := firstn n' r2 in
          let rest := skipn n' r2 in
          let raw := firstn (length b - length rest) b in
          if pc then
            match many_def f (S (length contents)) contents with
            | Some kids => Some (Cons c num false kids raw, rest)
            | None => None
            end
          else Some (Prim c num contents raw, rest)
      | Some (None, r2) =>
          if negb pc then None else
          match many_indef f (S (length r2)) r2 with
          | Some (kids, rest) => Some (Cons c num true kids (firstn (length b - length rest) b), rest)
          | None => None
          end
      end
  end.
Proof. reflexivity. Qed.

Definition parse_ok (f: nat) : Prop :=
  forall b n rest, octs b -> parse_one f b = Some (n, rest) -> shape n /\ b = node_raw n ++ rest.

Lemma shape_raw_len n : shape n -> (2 <= length (node_raw n))%nat.
Proof.
  destruct n as [c num contents raw|c num indef kids raw].
  - intros (ib & lb & Hi & Hl & -> & _) || intros (ib & lb & Hi & Hl & ->).
    pose proof (ident_octets_nonempty _ _ Hi). pose proof (len_octets_nonempty _ _ Hl).
    cbn [node_raw]. rewrite !app_length. destruct ib; [congruence|]. destruct lb; [congruence|]. cbn [length]. lia.
  - intros H. apply shape_cons in H. destruct H as (ib & lb & Hi & Hl & -> & _).
    pose proof (ident_octets_nonempty _ _ Hi). pose proof (len_octets_nonempty _ _ Hl).
    cbn [node_raw]. rewrite !app_length. destruct ib; [congruence|]. destruct lb; [congruence|]. cbn [length]. lia.
Qed.

Lemma many_def_shape f : parse_ok f -> forall k cs kids, octs cs ->
  many_def f k cs = Some kids -> cs = kids_raw kids /\ Forall (kid_ok false) kids.
Proof.
  intros IH. induction k as [|k IHk]; intros cs kids Hcs H; [discriminate H|].
  cbn [many_def] in H. destruct cs as [|x cs0].
  - inversion H; subst. split; [reflexivity|constructor].
  - remember (x :: cs0) as cs eqn:Ecs.
    destruct (parse_one f cs) as [[nd cs']|] eqn:Ep; [|discriminate H].
    fold (many_def f) in H.
    destruct (many_def f k cs') as [l|] eqn:Em; [|discriminate H]. inversion H; subst kids.
    destruct (IH cs nd cs' Hcs Ep) as [Hsh Hb].
    assert (Hcs': octs cs') by (rewrite Hb in Hcs; apply octs_app in Hcs; tauto).
    destruct (IHk cs' l Hcs' Em) as [Hr Hall].
    split.
    + unfold kids_raw. cbn [map concat]. fold (kids_raw l). rewrite <- Hr. exact Hb.
    + constructor; [split; [exact Hsh|discriminate]|exact Hall].
Qed.

Lemma eoc_start_app a b : (2 <= length a)%nat -> eoc_start (a ++ b) = eoc_start a.
Proof. intros H. destruct a as [|x [|y a]]; cbn [length] in H; try lia. reflexivity. Qed.

Lemma many_indef_shape f : parse_ok f -> forall k cs kids rest, octs cs ->
  many_indef f k cs = Some (kids, rest) ->
  cs = kids_raw kids ++ [0; 0] ++ rest /\ Forall (kid_ok true) kids.
Proof.
  intros IH. induction k as [|k IHk]; intros cs kids rest Hcs H; [discriminate H|].
  cbn [many_indef] in H. fold (many_indef f) in H.
  destruct (eoc_start cs) eqn:Ee.
  - destruct cs as [|x [|y cs0]]; [discriminate Ee| |].
    { destruct x; discriminate Ee. }
    destruct x; [|discriminate Ee]. destruct y; [|discriminate Ee].
    inversion H; subst. split; [reflexivity|constructor].
  - assert (H': match parse_one f cs with
                | Some (nd, cs') => match many_indef f k cs' with Some (l, r) => Some (nd :: l, r) | None => None end
                | None => None end = Some (kids, rest)).
    { destruct cs as [|x [|y cs0]]; [exact H| |].
      - destruct x; exact H.
      - destruct x; [|exact H]. destruct y; [discriminate Ee|exact H]. }
    clear H.
    destruct (parse_one f cs) as [[nd cs']|] eqn:Ep; [|discriminate H'].
    destruct (many_indef f k cs') as [[l r]|] eqn:Em; [|discriminate H']. inversion H'; subst kids rest.
    destruct (IH cs nd cs' Hcs Ep) as [Hsh Hb].
    assert (Hcs': octs cs') by (rewrite Hb in Hcs; apply octs_app in Hcs; tauto).
    destruct (IHk cs' l r Hcs' Em) as [Hr Hall].
    split.
    + unfold kids_raw. cbn [map concat]. fold (kids_raw l). rewrite <- app_assoc. rewrite <- Hr. exact Hb.
    + constructor; [|exact Hall]. split; [exact Hsh|]. intros _.
      rewrite Hb in Ee. rewrite eoc_start_app in Ee by (apply shape_raw_len; exact Hsh). exact Ee.
Qed.

Lemma firstn_len_sub {X} (a b: list X) : firstn (length (a ++ b) - length b) (a ++ b) = a.
Proof. rewrite app_length. replace (length a + length b - length b)%nat with (length a) by lia. apply firstn_app_exact. Qed.

Theorem parse_one_shape : forall f, parse_ok f.
Proof.
  induction f as [|f IH]; intros b n rest Hb H; [discriminate H|].
  rewrite parse_one_S in H.
  destruct (split_ident b) as [[[[c pc] num] r1]|] eqn:Ei; [|discriminate H].
  pose proof (split_ident_dec_ident b c pc num r1 Hb Ei) as Di.
  destruct (dec_ident_suffix _ _ _ Di) as (ib & Eb & _ & Hib).
  assert (Hr1: octs r1) by (rewrite Eb in Hb; apply octs_app in Hb; tauto).
  destruct (split_length r1) as [[ol r2]|] eqn:El; [|discriminate H].
  pose proof (split_length_dec_len r1 ol r2 Hr1 El) as Dl.
  destruct (dec_len_suffix _ _ _ Dl) as (lb & Er1 & _ & Hlb).
  assert (Hr2: octs r2) by (rewrite Er1 in Hr1; apply octs_app in Hr1; tauto).
  destruct ol as [n0|].
  - cbv zeta in H.
    destruct (Nat.ltb_spec (length r2) (N.to_nat n0)) as [Hc|Hge]; [discriminate H|].
    set (contents := firstn (N.to_nat n0) r2) in *. set (rst := skipn (N.to_nat n0) r2) in *.
    assert (Er2: r2 = contents ++ rst) by (symmetry; apply firstn_skipn).
    assert (Hlenc: N.of_nat (length contents) = n0) by (unfold contents; rewrite firstn_length_le by exact Hge; lia).
    assert (Eraw: firstn (length b - length rst) b = ib ++ lb ++ contents).
    { rewrite Eb, Er1, Er2. rewrite !app_assoc. rewrite firstn_len_sub. reflexivity. }
    assert (Hbb: b = (ib ++ lb ++ contents) ++ rst) by (rewrite Eb, Er1, Er2, <- !app_assoc; reflexivity).
    destruct pc.
    + destruct (many_def f (S (length contents)) contents) as [kids|] eqn:Em; [|discriminate H].
      inversion H; subst n rest. clear H.
      assert (Hcont: octs contents) by (apply octs_firstn; exact Hr2).
      destruct (many_def_shape f IH _ _ _ Hcont Em) as [Ek Hall].
      split.
      * apply shape_cons. exists ib, lb. split; [exact Hib|]. split; [rewrite <- Ek, Hlenc; exact Hlb|].
        split; [rewrite Eraw, Ek, app_nil_r; reflexivity|exact Hall].
      * cbn [node_raw]. rewrite Eraw. exact Hbb.
    + inversion H; subst n rest. clear H. split.
      * cbn [shape]. exists ib, lb. split; [exact Hib|]. split; [rewrite Hlenc; exact Hlb|exact Eraw].
      * cbn [node_raw]. rewrite Eraw. exact Hbb.
  - destruct pc; cbn [negb] in H; [|discriminate H].
    destruct (many_indef f (S (length r2)) r2) as [[kids rst]|] eqn:Em; [|discriminate H].
    inversion H; subst n rest. clear H.
    destruct (many_indef_shape f IH _ _ _ _ Hr2 Em) as [Ek Hall].
    assert (Eraw: firstn (length b - length rst) b = ib ++ lb ++ kids_raw kids ++ [0; 0]).
    { rewrite Eb, Er1, Ek. rewrite !app_assoc. rewrite firstn_len_sub. reflexivity. }
    split.
    + apply shape_cons. exists ib, lb. split; [exact Hib|]. split; [exact Hlb|]. split; [exact Eraw|exact Hall].
    + cbn [node_raw]. rewrite Eraw. rewrite Eb, Er1, Ek, <- !app_assoc. reflexivity.
Qed.

Corollary parse_shape b n rest : octs b -> parse b = Some (n, rest) -> shape n /\ b = node_raw n ++ rest.
Proof. intros Hb H. apply (parse_one_shape _ b n rest Hb H). Qed.

(* ====================================================================== *)
(* 2. primitive leaves: contents octets                                      *)
(* ====================================================================== *)

(* INTEGER / ENUMERATED: LeafInt.signed_value_is_from_bytes.  BOOLEAN: any non-zero octet *)
Lemma bool_leaf o : o < 256 -> negb (Z.eqb (from_bytes_signed [o]) 0) = negb (N.eqb o 0).
Proof.
  intros Ho. unfold from_bytes_signed. cbn [be_num length].
  replace (N.lor (N.shiftl 0 8) o) with o by (rewrite N.shiftl_0_l, N.lor_0_l; reflexivity).
  destruct (N.ltb_spec o 128) as [Hs|Hl].
  - destruct (N.eqb_spec o 0) as [->|Hn]; [reflexivity|].
    destruct (Z.eqb_spec (Z.of_N o) 0) as [E|E]; [lia|reflexivity].
  - destruct (N.eqb_spec o 0) as [->|Hn]; [lia|].
    destruct (Z.eqb_spec (Z.of_N o - 2 ^ (8 * Z.of_nat 1)) 0) as [E|E]; [|reflexivity].
    exfalso. change (2 ^ (8 * Z.of_nat 1))%Z with 256%Z in E. lia.
Qed.

(* OBJECT IDENTIFIER, 8.19 *)
Definition more_gen (k: bytes -> res (list N)) :=
  fix more (fuel2: nat) (acc: N) (next: N) (r: bytes) : res (list N) :=
    match fuel2 with
    | O => Err EOutOfFuel
    | S f2 =>
        if N.leb 128 next then
          match r with
          | [] => Err EUnderrun
          | n' :: r' => more f2 (N.shiftl acc 7 + N.land next 127) n' r'
          end
        else do rest <- k r; Ok ((N.shiftl acc 7 + next) :: rest)
    end.

Lemma more_gen_S k f2 acc next r :
  more_gen k (S f2) acc next r =
  if N.leb 128 next then
    match r with
    | [] => Err EUnderrun
    | n' :: r' => more_gen k f2 (N.shiftl acc 7 + N.land next 127) n' r'
    end
  else do rest <- k r; Ok ((N.shiftl acc 7 + next) :: rest).
Proof. reflexivity. Qed.

Lemma oid_subids_S f s r :
  oid_subids (S f) (s :: r) =
  if N.ltb s 128 then do rest <- oid_subids f r; Ok (s :: rest)
  else if N.eqb s 128 then Err EMalformed
  else more_gen (oid_subids f) (S (length r)) 0 s r.
Proof. reflexivity. Qed.

Lemma subids_nil f acc fresh : subids f acc fresh [] = if fresh then Some [] else None.
Proof. destruct f; reflexivity. Qed.

Lemma subids_S f acc fresh o r :
  subids (S f) acc fresh (o :: r) =
  if (fresh && N.eqb o 128)%bool then None
  else if N.ltb o 128 then opt_bind (subids f 0 true r) (fun l => Some ((acc * 128 + o) :: l))
  else subids f (acc * 128 + (o - 128)) false r.
Proof. reflexivity. Qed.

Lemma oid_inner k : forall r f accm next acc l f2,
  octs r -> 128 <= next -> next < 256 -> acc = accm * 128 + (next - 128) ->
  subids f acc false r = Some l -> (length r < f2)%nat ->
  (forall r' f' l', (length r' < length r)%nat -> octs r' -> subids f' 0 true r' = Some l' -> k r' = Ok l') ->
  more_gen k f2 accm next r = Ok l.
Proof.
  induction r as [|o r IH]; intros f accm next acc l f2 Hr Hn1 Hn2 Eacc H Hf Hk.
  - rewrite subids_nil in H. discriminate H.
  - destruct f as [|f]; [discriminate H|]. rewrite subids_S in H. cbn [andb] in H.
    apply octs_cons in Hr. destruct Hr as [Ho Hr].
    destruct f2 as [|f2]; [lia|]. rewrite more_gen_S.
    destruct (N.leb_spec 128 next) as [_|Hc]; [|lia].
    destruct (cont_octet_agree next Hn2) as (_ & _ & E3). rewrite (E3 Hn1).
    assert (Eacc': N.shiftl accm 7 + (next - 128) = acc) by (rewrite shiftl_mul; change (2 ^ 7) with 128; lia).
    rewrite Eacc'.
    destruct (N.ltb_spec o 128) as [Hs|Hl].
    + destruct (subids f 0 true r) as [l0|] eqn:E0; [|discriminate H]. cbn [opt_bind] in H. inversion H; subst l.
      cbn [length] in Hf. destruct f2 as [|f2]; [lia|]. rewrite more_gen_S.
      destruct (N.leb_spec 128 o) as [Hc|_]; [lia|].
      rewrite (Hk r f l0); [|cbn [length]; lia|exact Hr|exact E0]. cbn [bind].
      rewrite shiftl_mul. change (2 ^ 7) with 128. reflexivity.
    + apply (IH f acc o (acc * 128 + (o - 128)) l f2 Hr Hl Ho eq_refl H); [cbn [length] in Hf; lia|].
      intros r' f' l' Hlen. apply Hk. cbn [length]. lia.
Qed.

Lemma oid_subids_ref : forall m b, (length b <= m)%nat -> octs b -> forall f l,
  subids f 0 true b = Some l -> forall g, (length b < g)%nat -> oid_subids g b = Ok l.
Proof.
  induction m as [|m IH]; intros b Hm Hb f l H g Hg.
  - destruct b; [|cbn [length] in Hm; lia]. rewrite subids_nil in H. inversion H; subst.
    destruct g; [cbn [length] in Hg; lia|]. reflexivity.
  - destruct b as [|s r].
    + rewrite subids_nil in H. inversion H; subst. destruct g; [cbn [length] in Hg; lia|]. reflexivity.
    + destruct f as [|f]; [discriminate H|]. rewrite subids_S in H. cbn [andb] in H.
      apply octs_cons in Hb. destruct Hb as [Hs Hr]. cbn [length] in Hm, Hg.
      destruct g as [|g]; [lia|]. rewrite oid_subids_S.
      destruct (N.eqb_spec s 128) as [E|Hne]; [discriminate H|].
      destruct (N.ltb_spec s 128) as [Hlt|Hge].
      * destruct (subids f 0 true r) as [l0|] eqn:E0; [|discriminate H]. cbn [opt_bind] in H. inversion H; subst l.
        rewrite (IH r ltac:(lia) Hr f l0 E0 g ltac:(lia)). cbn [bind]. reflexivity.
      * apply (oid_inner (oid_subids g) r f 0 s (0 * 128 + (s - 128)) l (S (length r)) Hr Hge Hs eq_refl H); [lia|].
        intros r' f' l' Hlen Hr' H'. apply (IH r' ltac:(lia) Hr' f' l' H'). lia.
Qed.

Theorem oid_leaf : forall c a, octs c -> oid_value c = Some a -> dec_oid c = Ok a.
Proof.
  intros c a Hc H. unfold oid_value in H.
  destruct (subids (S (length c)) 0 true c) as [l|] eqn:E; [|discriminate H].
  destruct l as [|x rest]; [discriminate H|].
  unfold dec_oid. destruct c as [|o c']; [rewrite subids_nil in E; discriminate E|].
  rewrite (oid_subids_ref _ _ (le_n _) Hc _ _ E (S (length (o :: c')))) by lia. cbn [bind].
  destruct (N.ltb_spec x 40) as [H1|H1].
  - destruct (N.leb_spec x 39) as [_|H2]; [|lia]. inversion H; reflexivity.
  - destruct (N.leb_spec x 39) as [H2|_]; [lia|].
    destruct (N.ltb_spec x 80) as [H3|H3].
    + destruct (N.leb_spec x 79) as [_|H4]; [|lia]. inversion H; reflexivity.
    + destruct (N.leb_spec x 79) as [H4|_]; [lia|]. inversion H; reflexivity.
Qed.

(* BIT STRING, 8.6: the bits of the octets *)
Lemma odd_mod2 n : N.odd n = N.eqb (n mod 2) 1.
Proof. rewrite <- N.bit0_odd. apply N.bit0_eqb. Qed.

Lemma N_to_bits_spec : forall k n, N_to_bits k n = bits_of_N k n.
Proof. induction k as [|k IH]; intros n; [reflexivity|]. cbn [N_to_bits bits_of_N]. rewrite IH, odd_mod2. reflexivity. Qed.

Lemma octets_to_bits_spec b : octets_to_bits b = bits_of_octets_spec b.
Proof.
  unfold octets_to_bits, bits_of_octets_spec. f_equal. apply map_ext. intros a. apply N_to_bits_spec.
Qed.

Lemma bits_of_N_length : forall k n, length (bits_of_N k n) = k.
Proof. induction k as [|k IH]; intros n; [reflexivity|]. cbn [bits_of_N]. rewrite app_length, IH. cbn [length]. lia. Qed.

Lemma bits_spec_length b : length (bits_of_octets_spec b) = (8 * length b)%nat.
Proof.
  unfold bits_of_octets_spec. induction b as [|o b IH]; [reflexivity|].
  cbn [map concat]. rewrite app_length, IH, bits_of_N_length. cbn [length]. lia.
Qed.

(* one primitive segment: the reference's (bits, unused) pair read as a whole value by the model *)
Theorem bits_leaf : forall c u bs,
  join_bit_segments [(bits_of_octets_spec c, u)] = Some bs -> bits_of_octets c u = Ok bs.
Proof.
  intros c u bs H. cbn [join_bit_segments] in H. unfold bits_of_octets. cbv zeta.
  rewrite bits_spec_length in H. rewrite octets_to_bits_spec.
  destruct (Nat.ltb (8 * length c) (N.to_nat u)); [discriminate H|]. inversion H. reflexivity.
Qed.

(* a segment with no unused bits contributes all its bits *)
Lemma bits_leaf_full c : bits_of_octets c 0 = Ok (bits_of_octets_spec c).
Proof.
  unfold bits_of_octets. cbv zeta. change (N.to_nat 0) with 0%nat.
  destruct (Nat.ltb_spec (8 * length c) 0) as [Hc|_]; [lia|].
  rewrite Nat.sub_0_r, octets_to_bits_spec, <- bits_spec_length, firstn_all. reflexivity.
Qed.

(* REAL, 8.5: special values and every binary form (base 2/8/16, scaling factor, the four exponent-length
   forms).  SIDE CONDITION: a binary encoding has at least one mantissa octet (the reference reads
   none as mantissa 0, the library refuses: 09 02 80 00) *)
Definition real_general (fo: N) (r: bytes) : option areal :=
  if N.ltb fo 128 then None else
  let neg := N.eqb ((fo / 64) mod 2) 1 in
  let base_bits := (fo / 16) mod 4 in
  let sf := (fo / 4) mod 4 in
  let ef := fo mod 4 in
  let '(elen, r1) := if N.eqb ef 3 then (match r with l :: _ => N.to_nat l | [] => O end, tl r) else (S (N.to_nat ef), r) in
  if (Nat.eqb elen 0 || Nat.ltb (length r1) elen)%bool then None else
  let e := signed_value (firstn elen r1) in
  let m := Z.of_N (octets_value 0 (skipn elen r1)) in
  if N.eqb base_bits 3 then None else
  let e2 := (if N.eqb base_bits 0 then e else if N.eqb base_bits 1 then 3 * e else 4 * e)%Z in
  let mant := ((if neg then -1 else 1) * m * 2 ^ Z.of_N sf)%Z in
  Some (abs_real (RBin mant e2)).

Lemma real_value_general fo r : fo <> 64 -> fo <> 65 -> real_value (fo :: r) = real_general fo r.
Proof.
  intros H1 H2. destruct fo as [|p]; [reflexivity|].
  do 7 (try (destruct p as [p|p|]; try reflexivity)); congruence.
Qed.

Definition real_mant_ok (c: bytes) : bool :=
  match c with
  | [] => true
  | fo :: r =>
      if N.ltb fo 128 then true else
      let ef := fo mod 4 in
      let '(elen, r1) := if N.eqb ef 3 then (match r with l :: _ => N.to_nat l | [] => O end, tl r) else (S (N.to_nat ef), r) in
      match skipn elen r1 with [] => false | _ => true end
  end.

Lemma real_first_octet fo : fo < 256 ->
  N.land fo 3 = fo mod 4 /\ N.land (N.shiftr fo 4) 3 = (fo / 16) mod 4 /\ N.land (N.shiftr fo 2) 3 = (fo / 4) mod 4
  /\ N.eqb (N.land fo 64) 0 = negb (N.eqb ((fo / 64) mod 2) 1) /\ N.eqb (N.land fo 128) 0 = N.ltb fo 128.
Proof.
  intros Ho.
  pose (P := fun fo => N.eqb (N.land fo 3) (fo mod 4) && N.eqb (N.land (N.shiftr fo 4) 3) ((fo / 16) mod 4)
                       && N.eqb (N.land (N.shiftr fo 2) 3) ((fo / 4) mod 4)
                       && Bool.eqb (N.eqb (N.land fo 64) 0) (negb (N.eqb ((fo / 64) mod 2) 1))
                       && Bool.eqb (N.eqb (N.land fo 128) 0) (N.ltb fo 128)).
  assert (H: P fo = true) by (apply byte_cases; [vm_compute; reflexivity|exact Ho]).
  unfold P in H. repeat (apply andb_true_iff in H; destruct H as [H ?]).
  repeat split; try (apply N.eqb_eq; assumption); apply Bool.eqb_prop; assumption.
Qed.

Lemma some_inj {A} (x y: A) : Some x = Some y -> x = y.
Proof. intros H. inversion H. reflexivity. Qed.

Definition dec_real_tail (fo: N) (eo mo: bytes) : res real :=
  match eo, mo with
  | [], _ | _, [] => Err EMalformed
  | _, _ =>
      let e := from_bytes_signed eo in
      let bb := N.land (N.shiftr fo 4) 3 in
      if N.ltb 2 bb then Err EMalformed else
      let e' := if N.eqb bb 1 then (e * 3)%Z else if N.eqb bb 2 then (e * 4)%Z else e in
      let p := Z.of_N (be_num 0 mo) in
      let p' := if negb (N.eqb (N.land fo 64) 0) then (- p)%Z else p in
      let sf := N.land (N.shiftr fo 2) 3 in
      Ok (RBin (p' * 2 ^ Z.of_N sf) e')
  end.

Definition real_ref_tail (fo: N) (elen: nat) (r1: bytes) : option areal :=
  if (Nat.eqb elen 0 || Nat.ltb (length r1) elen)%bool then None else
  let e := signed_value (firstn elen r1) in
  let m := Z.of_N (octets_value 0 (skipn elen r1)) in
  if N.eqb ((fo / 16) mod 4) 3 then None else
  let e2 := (if N.eqb ((fo / 16) mod 4) 0 then e else if N.eqb ((fo / 16) mod 4) 1 then 3 * e else 4 * e)%Z in
  let mant := ((if N.eqb ((fo / 64) mod 2) 1 then -1 else 1) * m * 2 ^ Z.of_N ((fo / 4) mod 4))%Z in
  Some (abs_real (RBin mant e2)).

Lemma real_tail fo elen r1 a : fo < 256 -> octs r1 ->
  real_ref_tail fo elen r1 = Some a -> skipn elen r1 <> [] ->
  exists r, dec_real_tail fo (firstn elen r1) (skipn elen r1) = Ok r /\ abs_real r = a.
Proof.
  intros Hfo Hr1 H Hm. unfold real_ref_tail in H.
  destruct (real_first_octet fo Hfo) as (F1 & F2 & F3 & F4 & F5).
  destruct (Nat.eqb_spec elen 0) as [E0|Hne0]; [discriminate H|].
  destruct (Nat.ltb_spec (length r1) elen) as [Hlt|Hge]; [discriminate H|]. cbn [orb] in H. cbv zeta in H.
  unfold dec_real_tail.
  destruct (firstn elen r1) as [|e0 eo'] eqn:Eeo.
  { exfalso. apply (f_equal (@length _)) in Eeo. rewrite firstn_length_le in Eeo by exact Hge. cbn in Eeo. lia. }
  destruct (skipn elen r1) as [|m0 mo'] eqn:Emo; [congruence|]. cbv zeta.
  rewrite F2, F3, F4.
  set (bb := (fo / 16) mod 4) in *.
  assert (Hbb: bb < 4) by (subst bb; apply N.mod_lt; lia).
  destruct (N.eqb_spec bb 3) as [E3|N3]; [discriminate H|].
  destruct (N.ltb_spec 2 bb) as [Hc|_]; [lia|].
  eexists. split; [reflexivity|]. apply some_inj in H. rewrite <- H. clear H.
  assert (He: signed_value (e0 :: eo') = from_bytes_signed (e0 :: eo')).
  { apply signed_value_is_from_bytes. apply octs_forallb. rewrite <- Eeo. apply octs_firstn. exact Hr1. }
  assert (Hmm: octets_value 0 (m0 :: mo') = be_num 0 (m0 :: mo')).
  { apply octets_value_is_be_num. apply octs_forallb. rewrite <- Emo. apply octs_skipn. exact Hr1. }
  rewrite He, Hmm. f_equal. f_equal.
  + destruct (N.eqb ((fo / 64) mod 2) 1); cbn [negb]; lia.
  + destruct (N.eqb_spec bb 0) as [B0|NB0].
    * destruct (N.eqb_spec bb 1) as [B1|_]; [lia|]. destruct (N.eqb_spec bb 2) as [B2|_]; [lia|]. reflexivity.
    * destruct (N.eqb_spec bb 1) as [B1|NB1]; [lia|]. destruct (N.eqb_spec bb 2) as [B2|NB2]; [lia|lia].
Qed.

Theorem real_leaf : forall c a, octs c -> real_value c = Some a -> real_mant_ok c = true ->
  exists r, dec_real c = Ok r /\ abs_real r = a.
Proof.
  intros c a Hc H Hm. destruct c as [|fo r].
  - cbn in H. inversion H. exists (RDec 0 0). split; reflexivity.
  - apply octs_cons in Hc. destruct Hc as [Hfo Hr].
    destruct (N.eq_dec fo 64) as [->|N64].
    { destruct r as [|x r']; [cbn in H; inversion H; exists RPInf; split; reflexivity|].
      change (real_value (64 :: x :: r')) with (real_general 64 (x :: r')) in H. discriminate H. }
    destruct (N.eq_dec fo 65) as [->|N65].
    { destruct r as [|x r']; [cbn in H; inversion H; exists RNInf; split; reflexivity|].
      change (real_value (65 :: x :: r')) with (real_general 65 (x :: r')) in H. discriminate H. }
    rewrite (real_value_general fo r N64 N65) in H. unfold real_general in H. unfold real_mant_ok in Hm.
    destruct (N.ltb fo 128) eqn:E128; [discriminate H|]. cbv zeta in H, Hm.
    destruct (real_first_octet fo Hfo) as (F1 & F2 & F3 & F4 & F5).
    set (ef := fo mod 4) in *.
    assert (Hef: ef < 4) by (subst ef; apply N.mod_lt; lia).
    destruct r as [|c0 crest].
    { exfalso. destruct (N.eqb ef 3); cbn [tl length] in H; [discriminate H|].
      destruct (Nat.ltb_spec 0 (S (N.to_nat ef))) as [_|Hc]; [|lia]. rewrite orb_true_r in H. discriminate H. }
    destruct (N.eqb_spec ef 3) as [E3|N3].
    + cbn [tl] in H, Hm.
      assert (Hd: dec_real (fo :: c0 :: crest) = dec_real_tail fo (firstn (N.to_nat c0) crest) (skipn (N.to_nat c0) crest)).
      { unfold dec_real. rewrite F5, E128. cbn [negb]. cbv zeta. rewrite F1, E3. reflexivity. }
      rewrite Hd. apply octs_cons in Hr. destruct Hr as [_ Hr].
      apply (real_tail fo (N.to_nat c0) crest a Hfo Hr H). intros E. rewrite E in Hm. discriminate Hm.
    + assert (Hd: dec_real (fo :: c0 :: crest)
                  = dec_real_tail fo (firstn (S (N.to_nat ef)) (c0 :: crest)) (skipn (S (N.to_nat ef)) (c0 :: crest))).
      { unfold dec_real. rewrite F5, E128. cbn [negb]. cbv zeta. rewrite F1.
        destruct (N.eqb_spec (ef + 1) 4) as [E4|_]; [lia|].
        replace (N.to_nat (ef + 1)) with (S (N.to_nat ef)) by lia. reflexivity. }
      rewrite Hd.
      apply (real_tail fo (S (N.to_nat ef)) (c0 :: crest) a Hfo Hr H). intros E. rewrite E in Hm. discriminate Hm.
Qed.

Example stage2_leaves :
  oid_value [42; 134; 72; 128 + 6; 13] = Some [1; 2; 840; 781] /\ dec_oid [42; 134; 72; 128 + 6; 13] = Ok [1; 2; 840; 781]
  /\ signed_value [255; 0; 128] = (-65408)%Z /\ from_bytes_signed [255; 0; 128] = (-65408)%Z.
Proof. vm_compute. repeat split. Qed.

(* ====================================================================== *)
(* 3. running the decoder over one TLV                                       *)
(* ====================================================================== *)

Lemma setpos_back s k : setpos (adv s k) (pos (adv s k) - k) = s.
Proof. destruct s as [a p c m]. unfold adv, setpos. cbn [pos arrived closed mark]. f_equal. lia. Qed.

(* the entry point reads any identifier and length octets and arrives at the dispatch; with allowEoo
   it first looks at two octets and steps back when they are not 00 00 *)
Lemma call_header : forall f sp acc allow sfun ib lb t ol rest s,
  ident_octets ib t -> len_octets lb ol -> avail s = ib ++ lb ++ rest -> (length ib <= S f)%nat ->
  (allow = true -> eoc_start (ib ++ lb) = false) ->
  resume (dec_call BER (S f) sp acc None allow sfun) s =
  resume (dispatch BER (dec_call BER f) f sp (t :: acc) ol sfun) (adv (setmark s (pos s)) (length ib + length lb)).
Proof.
  intros f sp acc allow sfun ib lb t ol rest s Hi Hl Hav Hlen Heoc.
  assert (Hmain: resume (Mark (let! t0 := read_tag f in let! len := read_length BER in
                               dispatch BER (dec_call BER f) f sp (t0 :: acc) len sfun)) s =
                 resume (dispatch BER (dec_call BER f) f sp (t :: acc) ol sfun)
                        (adv (setmark s (pos s)) (length ib + length lb))).
  { cbn [resume]. set (s0 := setmark s (pos s)).
    assert (Hav0: avail s0 = ib ++ lb ++ rest) by exact Hav.
    pose proof (Hi (lb ++ rest)) as Hid.
    assert (Hcons: (length (ib ++ lb ++ rest) - length (lb ++ rest))%nat = length ib) by (rewrite app_length; lia).
    rewrite (resume_read_tag f (ib ++ lb ++ rest) t (lb ++ rest) s0 _ Hid Hav0) by (rewrite Hcons; exact Hlen).
    rewrite Hcons.
    assert (Hav1: avail (adv s0 (length ib)) = lb ++ rest) by (apply (avail_app_adv _ _ _ Hav0)).
    rewrite (resume_read_length BER (lb ++ rest) ol rest _ _ (Hl rest) Hav1) by reflexivity.
    rewrite adv_adv. f_equal. f_equal. rewrite app_length. lia. }
  cbn [dec_call]. unfold dec_body. destruct allow; cbn [andb].
  - change (support_indef BER) with true. cbv iota.
    pose proof (ident_octets_nonempty _ _ Hi) as Hin. pose proof (len_octets_nonempty _ _ Hl) as Hln.
    destruct ib as [|x ib']; [congruence|].
    assert (E2: exists y r2, ib' ++ lb ++ rest = y :: r2 /\ eoc_start (x :: y :: r2) = false).
    { destruct ib' as [|y ib''].
      - destruct lb as [|y lb']; [congruence|]. exists y, (lb' ++ rest). split; [reflexivity|].
        specialize (Heoc eq_refl). cbn [app] in Heoc. destruct x; [|reflexivity]. destruct y; [discriminate Heoc|reflexivity].
      - exists y, (ib'' ++ lb ++ rest). split; [reflexivity|].
        specialize (Heoc eq_refl). cbn [app] in Heoc. destruct x; [|reflexivity]. destruct y; [discriminate Heoc|reflexivity]. }
    destruct E2 as (y & r2 & E2 & Hne).
    assert (Hav2: avail s = [x; y] ++ r2) by (rewrite Hav; cbn [app]; rewrite E2; reflexivity).
    rewrite (resume_readN s 2 [x; y] r2 _ Hav2 eq_refl).
    assert (Hbr: forall (A: Type) (k1 k2: A), match [x; y] with [0; 0] => k1 | _ => k2 end = k2).
    { intros A k1 k2. destruct x; [|reflexivity]. destruct y; [discriminate Hne|reflexivity]. }
    rewrite Hbr. cbn [resume]. rewrite setpos_back. exact Hmain.
  - exact Hmain.
Qed.

(* end-of-contents octets where they are allowed *)
Lemma call_eoo : forall f sp acc sfun s tl, avail s = 0 :: 0 :: tl ->
  resume (dec_call BER (S f) sp acc None true sfun) s = inr (Ok DEoo, adv s 2).
Proof.
  intros f sp acc sfun s tl Hav. cbn [dec_call]. unfold dec_body. cbn [andb].
  change (support_indef BER) with true. cbv iota.
  rewrite (resume_readN s 2 [0; 0] tl _ Hav eq_refl). reflexivity.
Qed.

(* the dispatch when the tags read so far are the type's tag set *)
Lemma dispatch_match_def : forall rec f T ts l sfun cd fl,
  tagset_eqb ts (tagset_of' T) = true -> tm_postponed (tagmap_of T) = false -> by_type BER T = Some (cd, fl) ->
  dispatch BER rec f (STy T) ts (Some l) sfun =
  (let! p0 := tell in let! v := dec_value rec f cd fl (Some T) ts (Some l) sfun in let! p1 := tell in
   if N.eqb (N.of_nat (p1 - p0)) l then Ret v else Raise EMalformed).
Proof. intros rec f T ts l sfun cd fl H1 H2 H3. unfold dispatch. rewrite H1, H2, H3. reflexivity. Qed.

Lemma dispatch_match_indef : forall rec f T ts sfun cd fl,
  tagset_eqb ts (tagset_of' T) = true -> tm_postponed (tagmap_of T) = false -> by_type BER T = Some (cd, fl) ->
  dispatch BER rec f (STy T) ts None sfun = dec_value rec f cd fl (Some T) ts None sfun.
Proof. intros rec f T ts sfun cd fl H1 H2 H3. unfold dispatch. rewrite H1, H2, H3. reflexivity. Qed.

(* the dispatch on a constructed non-universal tag that does not complete the tag set: an EXPLICIT level *)
Lemma dispatch_explicit_def : forall rec f T t acc l,
  tagset_eqb (t :: acc) (tagset_of' T) = false -> tm_contains (tagmap_of T) (t :: acc) = false ->
  tcon t = true -> tcls t <> Univ ->
  dispatch BER rec f (STy T) (t :: acc) (Some l) false =
  (let! p0 := tell in let! v := rec (STy T) (t :: acc) None false false in let! p1 := tell in
   if N.eqb (N.of_nat (p1 - p0)) l then Ret v else Raise EMalformed).
Proof.
  intros rec f T t acc l H1 H2 H3 H4. unfold dispatch. rewrite H1, H2, H3. cbn [orb andb].
  destruct (tcls t); try congruence; reflexivity.
Qed.

Lemma dispatch_explicit_indef : forall rec f T t acc,
  tagset_eqb (t :: acc) (tagset_of' T) = false -> tm_contains (tagmap_of T) (t :: acc) = false ->
  tcon t = true -> tcls t <> Univ ->
  dispatch BER rec f (STy T) (t :: acc) None false = raw_loop rec (STy T) (t :: acc) f DNoValue.
Proof.
  intros rec f T t acc H1 H2 H3 H4. unfold dispatch. rewrite H1, H2, H3. cbn [orb andb].
  destruct (tcls t); try congruence; reflexivity.
Qed.

(* a definite length is checked against what the value decoder consumed *)
Lemma run_value_def (p: proc dval) content v :
  consumes p content v ->
  consumes (let! p0 := tell in let! x := p in let! p1 := tell in
            if N.eqb (N.of_nat (p1 - p0)) (N.of_nat (length content)) then Ret x else Raise EMalformed) content v.
Proof.
  intros Hin s tl Hav. rewrite resume_tell.
  destruct (Hin s tl Hav) as (s2 & Hrun & Hpos & Harr & Hcl).
  rewrite (resume_pbind_done _ _ _ _ _ Hrun). rewrite resume_tell.
  rewrite Hpos. rewrite (Nat.add_comm (pos s)), Nat.add_sub. rewrite N.eqb_refl. cbn [resume].
  exists s2. split; [reflexivity|]. split; [lia|]. split; assumption.
Qed.

(* after the header: the stream stands at the contents *)
Lemma after_header s (hb body tl: bytes) :
  avail s = hb ++ body ++ tl ->
  let s1 := adv (setmark s (pos s)) (length hb) in
  avail s1 = body ++ tl /\ pos s1 = (pos s + length hb)%nat /\ arrived s1 = arrived s /\ closed s1 = closed s.
Proof.
  intros Hav s1. split; [|repeat split].
  subst s1. rewrite avail_adv, avail_setmark, Hav. apply skipn_app_exact.
Qed.

(* a process that consumes the contents, run after the header was consumed *)
Lemma consumes_after_header (p q: proc dval) (hb body: bytes) v :
  (forall s rest, avail s = hb ++ body ++ rest ->
     resume p s = resume q (adv (setmark s (pos s)) (length hb))) ->
  consumes q body v -> consumes p (hb ++ body) v.
Proof.
  intros Hhdr Hq s tl Hav. rewrite <- app_assoc in Hav. rewrite (Hhdr s tl Hav).
  destruct (after_header s hb body tl Hav) as (Hav1 & Hp1 & Ha1 & Hc1).
  destruct (Hq _ tl Hav1) as (s2 & Hrun & Hpos & Harr & Hcl).
  exists s2. split; [exact Hrun|]. rewrite app_length. repeat split; [lia|congruence|congruence].
Qed.

Lemma call_consumes : forall f sp acc allow sfun ib lb t ol body v,
  ident_octets ib t -> len_octets lb ol -> (length ib <= S f)%nat ->
  (allow = true -> eoc_start (ib ++ lb) = false) ->
  consumes (dispatch BER (dec_call BER f) f sp (t :: acc) ol sfun) body v ->
  consumes (dec_call BER (S f) sp acc None allow sfun) ((ib ++ lb) ++ body) v.
Proof.
  intros f sp acc allow sfun ib lb t ol body v Hi Hl Hlen Heoc Hq.
  apply (consumes_after_header _ (dispatch BER (dec_call BER f) f sp (t :: acc) ol sfun) (ib ++ lb) body v); [|exact Hq].
  intros s rest Hav. rewrite app_length.
  apply (call_header f sp acc allow sfun ib lb t ol (body ++ rest) s Hi Hl); [|exact Hlen|exact Heoc].
  rewrite Hav, <- app_assoc. reflexivity.
Qed.

(* ---------- the parts of a node ---------- *)

Definition node_body (n: node) : bytes :=
  match n with
  | Prim _ _ c _ => c
  | Cons _ _ indef kids _ => kids_raw kids ++ (if indef then [0; 0] else [])
  end.
Definition node_len (n: node) : option N :=
  match n with
  | Prim _ _ c _ => Some (N.of_nat (length c))
  | Cons _ _ false kids _ => Some (N.of_nat (length (kids_raw kids)))
  | Cons _ _ true _ _ => None
  end.
Definition node_wire (n: node) : tag :=
  match n with Prim c num _ _ => mkTag c false num | Cons c num _ _ _ => mkTag c true num end.

Lemma shape_split n : shape n ->
  exists ib lb, ident_octets ib (node_wire n) /\ len_octets lb (node_len n) /\ node_raw n = (ib ++ lb) ++ node_body n.
Proof.
  destruct n as [c num contents raw|c num indef kids raw].
  - intros (ib & lb & Hi & Hl & E). exists ib, lb. cbn [node_wire node_len node_raw node_body].
    split; [exact Hi|]. split; [exact Hl|]. rewrite E, <- app_assoc. reflexivity.
  - intros H. apply shape_cons in H. destruct H as (ib & lb & Hi & Hl & E & _). exists ib, lb.
    cbn [node_wire node_raw node_body]. split; [exact Hi|]. split; [destruct indef; exact Hl|].
    rewrite E, <- app_assoc. reflexivity.
Qed.

Lemma node_len_def n l : node_len n = Some l -> l = N.of_nat (length (node_body n)).
Proof.
  destruct n as [c num contents raw|c num [|] kids raw]; cbn [node_len node_body]; intros H; inversion H; try reflexivity.
  rewrite app_nil_r. reflexivity.
Qed.

(* size of a node against fuel and the largest read the library can ask for *)
Definition fitsn (f: nat) (n: node) : Prop :=
  N.of_nat (length (node_raw n)) <= index_max /\ (length (node_raw n) <= f)%nat.

Lemma eoc_start_prefix a b : (2 <= length a)%nat -> eoc_start (a ++ b) = false -> eoc_start a = false.
Proof. intros H E. rewrite eoc_start_app in E by exact H. exact E. Qed.

Lemma hdr_len2 ib lb t ol : ident_octets ib t -> len_octets lb ol -> (2 <= length (ib ++ lb))%nat.
Proof.
  intros Hi Hl. pose proof (ident_octets_nonempty _ _ Hi). pose proof (len_octets_nonempty _ _ Hl).
  rewrite app_length. destruct ib; [congruence|]. destruct lb; [congruence|]. cbn [length]. lia.
Qed.

(* the level at which the tags read complete the type's tag set *)
Lemma item_of_value : forall f T0 acc n allow sfun v cd fl,
  shape n -> fitsn f n -> (allow = true -> eoc_start (node_raw n) = false) ->
  tagset_eqb (node_wire n :: acc) (tagset_of' T0) = true -> tm_postponed (tagmap_of T0) = false ->
  by_type BER T0 = Some (cd, fl) ->
  consumes (dec_value (dec_call BER f) f cd fl (Some T0) (node_wire n :: acc) (node_len n) sfun) (node_body n) v ->
  consumes (dec_call BER (S f) (STy T0) acc None allow sfun) (node_raw n) v.
Proof.
  intros f T0 acc n allow sfun v cd fl Hsh [Hmax Hf] Heoc Heq Hpp Hby Hval.
  destruct (shape_split n Hsh) as (ib & lb & Hi & Hl & Eraw). rewrite Eraw in *.
  apply (call_consumes f (STy T0) acc allow sfun ib lb (node_wire n) (node_len n) (node_body n) v Hi Hl).
  - rewrite !app_length in Hf. lia.
  - intros Ha. apply (eoc_start_prefix _ (node_body n)); [apply (hdr_len2 _ _ _ _ Hi Hl)|apply Heoc; exact Ha].
  - destruct (node_len n) as [l|] eqn:El.
    + rewrite (dispatch_match_def _ _ _ _ _ _ cd fl Heq Hpp Hby).
      rewrite (node_len_def n l El). apply run_value_def. rewrite <- (node_len_def n l El). exact Hval.
    + rewrite (dispatch_match_indef _ _ _ _ _ cd fl Heq Hpp Hby). exact Hval.
Qed.

Definition is_dv (d: dval) : Prop := match d with DV _ _ => True | _ => False end.

(* one EXPLICIT level, definite or indefinite *)
Lemma item_of_explicit : forall f T0 acc c num indef k raw allow v,
  shape (Cons c num indef [k] raw) -> fitsn (S f) (Cons c num indef [k] raw) ->
  (allow = true -> eoc_start raw = false) ->
  tagset_eqb (mkTag c true num :: acc) (tagset_of' T0) = false ->
  tm_contains (tagmap_of T0) (mkTag c true num :: acc) = false -> c <> Univ -> is_dv v ->
  consumes (dec_call BER (S f) (STy T0) (mkTag c true num :: acc) None indef false) (node_raw k) v ->
  consumes (dec_call BER (S (S f)) (STy T0) acc None allow false) raw v.
Proof.
  intros f T0 acc c num indef k raw allow v Hsh [Hmax Hf] Heoc Hne Hnm Hcls Hdv Hin.
  destruct (shape_split _ Hsh) as (ib & lb & Hi & Hl & Eraw).
  cbn [node_raw node_wire node_len node_body] in *. rewrite Eraw in *.
  assert (Ekr: kids_raw [k] = node_raw k) by (unfold kids_raw; cbn [map concat]; apply app_nil_r).
  rewrite Ekr in *.
  apply (call_consumes (S f) (STy T0) acc allow false ib lb (mkTag c true num) _ _ v Hi Hl).
  - rewrite !app_length in Hf. lia.
  - intros Ha. apply (eoc_start_prefix _ (node_raw k ++ (if indef then [0; 0] else []))); [apply (hdr_len2 _ _ _ _ Hi Hl)|apply Heoc; exact Ha].
  - destruct indef.
    + rewrite (dispatch_explicit_indef _ _ _ _ _ Hne Hnm eq_refl Hcls).
      intros s tl Hav. rewrite <- app_assoc in Hav.
      destruct (Hin s ([0; 0] ++ tl) Hav) as (s1 & Hrun & Hp1 & Ha1 & Hc1).
      assert (Hav1: avail s1 = 0 :: 0 :: tl) by (apply (consumes_avail (node_raw k) s _ s1 Hav Hp1 Ha1)).
      cbn [raw_loop]. rewrite (resume_pbind_done _ _ _ _ _ Hrun).
      assert (Estep: resume (match v with DEoo => match DNoValue with DNoValue => Raise EMalformed | _ => Ret DNoValue end
                                     | _ => raw_loop (dec_call BER (S f)) (STy T0) (mkTag c true num :: acc) f v end) s1
                     = resume (raw_loop (dec_call BER (S f)) (STy T0) (mkTag c true num :: acc) f v) s1).
      { destruct v; try contradiction. reflexivity. }
      rewrite Estep. clear Estep.
      destruct f as [|f'].
      { exfalso. pose proof (shape_raw_len k) as Hk2.
        apply shape_cons in Hsh. destruct Hsh as (_ & _ & _ & _ & _ & Hall). inversion Hall as [|? ? [Hk _] _]; subst.
        specialize (Hk2 Hk). pose proof (hdr_len2 _ _ _ _ Hi Hl). rewrite !app_length in Hf. cbn [length] in Hf. lia. }
      cbn [raw_loop]. rewrite (resume_pbind_done _ _ _ _ _ (call_eoo (S f') _ _ _ s1 tl Hav1)).
      destruct v; try contradiction. cbn [resume].
      exists (adv s1 2). split; [reflexivity|]. rewrite app_length. cbn [length].
      rewrite pos_adv. split; [lia|]. split; [rewrite arrived_adv; exact Ha1|rewrite closed_adv; exact Hc1].
    + rewrite app_nil_r in *. rewrite (dispatch_explicit_def _ _ _ _ _ _ Hne Hnm eq_refl Hcls).
      apply run_value_def. exact Hin.
Qed.

(* ---------- tags up to their (class, number) ---------- *)

Definition key (t: tag) : tclass * N := (tcls t, tnum t).
Definition keys (ts: tagset) : list (tclass * N) := map key ts.

Lemma cls_eqb_eq a b : cls_eqb a b = true <-> a = b.
Proof. destruct a, b; cbn; split; intros H; try reflexivity; try discriminate; congruence. Qed.

Lemma tag_eqb_key a b : tag_eqb a b = true <-> key a = key b.
Proof.
  unfold tag_eqb, key. split.
  - intros H. apply andb_true_iff in H. destruct H as [H1 H2]. apply cls_eqb_eq in H1. apply N.eqb_eq in H2. congruence.
  - intros H. inversion H as [[H1 H2]]. rewrite H1, H2. apply andb_true_iff. split; [apply cls_eqb_eq; reflexivity|apply N.eqb_refl].
Qed.

Lemma tagset_eqb_keys : forall a b, tagset_eqb a b = true <-> keys a = keys b.
Proof.
  induction a as [|x a IH]; intros [|y b]; cbn; try (split; [reflexivity|reflexivity]); try (split; discriminate).
  split.
  - intros H. apply andb_true_iff in H. destruct H as [H1 H2]. apply tag_eqb_key in H1. apply IH in H2.
    unfold keys in H2. rewrite H1, H2. reflexivity.
  - intros H. assert (H1: key x = key y) by congruence. assert (H2: keys a = keys b) by (unfold keys; congruence).
    apply andb_true_iff. split; [apply tag_eqb_key; exact H1|apply IH; exact H2].
Qed.

Lemma tagset_eqb_keys_false a b : length a <> length b -> tagset_eqb a b = false.
Proof.
  intros H. destruct (tagset_eqb a b) eqn:E; [|reflexivity]. apply tagset_eqb_keys in E.
  apply (f_equal (@length _)) in E. unfold keys in E. rewrite !map_length in E. congruence.
Qed.

Lemma class_no_inj a b : class_no a = class_no b -> a = b.
Proof. destruct a, b; cbn; intros H; try reflexivity; discriminate H. Qed.

Lemma tag_pair_eqb_eq a b : tag_pair_eqb a b = true -> a = b.
Proof.
  unfold tag_pair_eqb. intros H. apply andb_true_iff in H. destruct H as [H1 H2].
  apply N.eqb_eq in H1, H2. apply class_no_inj in H1. destruct a, b. cbn in *. congruence.
Qed.

Lemma same_tag_key e n : same_tag e n = true -> key (node_wire n) = e.
Proof.
  unfold same_tag. intros H. apply tag_pair_eqb_eq in H. rewrite H. destruct n; reflexivity.
Qed.

(* the (class, number) pairs an encoding of T shows from the base tag outwards, when the outermost
   one has been replaced by e *)
Definition orkey (e: option (tclass * N)) (k: tclass * N) : tclass * N := match e with Some x => x | None => k end.

Fixpoint kets (T: ty) (e: option (tclass * N)) : list (tclass * N) :=
  match T with
  | TImp t x => kets x (Some (orkey e (key t)))
  | TExp t x => kets x None ++ [orkey e (key t)]
  | TChoice _ | TAny => match e with Some k => [k] | None => [] end     (* no tag of its own *)
  | _ => [orkey e (match tagset_of' T with [u] => key u | _ => (Univ, 0) end)]
  end.

(* a type with an outermost tag of its own (IMPLICIT tagging needs one to replace) *)
Fixpoint headed (T: ty) : bool :=
  match T with TChoice _ | TAny => false | TImp _ x => headed x | _ => true end.
Fixpoint impl_ok (T: ty) : bool :=
  match T with TImp _ x => headed x && impl_ok x | TExp _ x => impl_ok x | _ => true end.

Lemma tag_implicitly_keys ts t : ts <> [] ->
  exists ts' last, ts = ts' ++ [last] /\ tag_implicitly ts t = ts' ++ [mkTag (tcls t) (tcon last) (tnum t)].
Proof. intros H. destruct (exists_last H) as (ts' & last & ->). exists ts', last. split; [reflexivity|apply tag_implicitly_spec]. Qed.

Lemma keys_app a b : keys (a ++ b) = keys a ++ keys b. Proof. apply map_app. Qed.

Lemma keys_kets : forall T, wf_tags T = true -> impl_ok T = true ->
  exists ts, tagset_of T = Ok ts /\ keys ts = kets T None
             /\ (headed T = true -> ts <> [] /\ forall t, keys (tag_implicitly ts t) = kets T (Some (key t))).
Proof.
  induction T as [| | | | | | | | n|fs IH|fs IH|t IH|t IH|alts IH| |tg x IH|tg x IH] using ty_ind';
    intros Hw Hp;
    try (eexists; split; [reflexivity|split; [reflexivity|intros _; split; [discriminate|intros t0; reflexivity]]]);
    try (exists []; split; [reflexivity|split; [reflexivity|intros Hh; discriminate Hh]]).
  - (* TImp *)
    cbn [wf_tags] in Hw. apply andb_true_iff in Hw. destruct Hw as [Hcl Hw].
    cbn [impl_ok] in Hp. apply andb_true_iff in Hp. destruct Hp as [Hh Hp].
    destruct (IH Hw Hp) as (ts & Hts & Hk & Hk2). destruct (Hk2 Hh) as [Hne Hk3].
    cbn [tagset_of]. rewrite Hts. cbn [bind]. exists (tag_implicitly ts tg).
    destruct (tag_implicitly_keys ts tg Hne) as (ts' & last & E1 & E2).
    split; [reflexivity|]. split; [cbn [kets orkey]; apply Hk3|]. intros _.
    split; [rewrite E2; destruct ts'; discriminate|].
    intros t0. cbn [kets orkey]. rewrite <- Hk3. rewrite E2, tag_implicitly_spec. rewrite E1, tag_implicitly_spec.
    rewrite !keys_app. reflexivity.
  - (* TExp *)
    cbn [wf_tags] in Hw. apply andb_true_iff in Hw. destruct Hw as [Hcl Hw]. cbn [impl_ok] in Hp.
    destruct (IH Hw Hp) as (ts & Hts & Hk & _).
    cbn [tagset_of]. rewrite Hts. cbn [bind]. unfold tag_explicitly.
    assert (Hnu: tcls tg <> Univ) by (destruct (tcls tg); try discriminate; cbn in Hcl; congruence).
    exists (ts ++ [mkTag (tcls tg) true (tnum tg)]).
    split; [destruct (tcls tg); try reflexivity; congruence|].
    split; [rewrite keys_app, Hk; reflexivity|]. intros _.
    split; [destruct ts; discriminate|].
    intros t0. rewrite tag_implicitly_spec, keys_app, Hk. reflexivity.
Qed.

Lemma kets_nonempty : forall T e, headed T = true -> kets T e <> [].
Proof.
  induction T as [| | | | | | | | n|fs IH|fs IH|t IH|t IH|alts IH| |tg x IH|tg x IH] using ty_ind'; intros e Hh;
    try discriminate.
  - cbn [kets]. apply IH. exact Hh.
  - cbn [kets]. destruct (kets x None); discriminate.
Qed.

(* ---------- what a spec resolves to: leaves of CHOICE types ---------- *)

(* the tag sets an encoding of T can show: one, or those of the alternatives of an untagged CHOICE *)
Fixpoint leaves (T: ty) : list tagset :=
  match T with TChoice alts => flat_map leaves alts | _ => [tagset_of' T] end.

(* how many CHOICE levels the decoded value descends at its head *)
Fixpoint cdv (T: ty) (v: val) {struct v} : nat :=
  match T, v with TChoice alts, VChoice i x => S (cdv (nth i alts TNull) x) | _, _ => O end.

(* effectiveTagSet of the decoded value is one of the leaves *)
Definition ets_ok (T: ty) (v: val) : Prop := forall g, (cdv T v < g)%nat -> In (effective_tagset g T v) (leaves T).

Definition not_choice (T: ty) : Prop := match T with TChoice _ => False | _ => True end.

Lemma ets_plain T v : not_choice T -> ets_ok T v /\ cdv T v = 0%nat.
Proof.
  intros H. split.
  - intros g Hg. destruct g as [|g]; [lia|]. destruct T; try contradiction; cbn [effective_tagset leaves]; try (left; reflexivity);
      destruct v; left; reflexivity.
  - destruct T; try contradiction; destruct v; reflexivity.
Qed.

Lemma ets_choice alts j a v : nth_error alts j = Some a -> ets_ok a v -> ets_ok (TChoice alts) (VChoice j v).
Proof.
  intros Hn He g Hg. cbn [cdv] in Hg. rewrite (nth_error_nth alts j TNull Hn) in Hg.
  destruct g as [|g]; [lia|]. cbn [effective_tagset]. rewrite (nth_error_nth alts j TNull Hn).
  cbn [leaves]. apply in_flat_map. exists a. split; [apply (nth_error_In _ _ Hn)|apply He; lia].
Qed.

(* ---------- the same two levels for any spec that resolves to T0 (a type, or a tag map) ---------- *)

Definition run_def (k: proc dval) (l: N) : proc dval :=
  let! p0 := tell in let! v := k in let! p1 := tell in
  if N.eqb (N.of_nat (p1 - p0)) l then Ret v else Raise EMalformed.

Definition disp_value rec (f: nat) cd fl (T0: ty) (ts: tagset) (len: option N) (sfun: bool) : proc dval :=
  match len with
  | Some l => run_def (dec_value rec f cd fl (Some T0) ts (Some l) sfun) l
  | None => dec_value rec f cd fl (Some T0) ts None sfun
  end.
Definition disp_explicit (rec: spec -> tagset -> option (option N) -> bool -> bool -> proc dval) (f: nat) (sp: spec) (ts: tagset) (len: option N) : proc dval :=
  match len with
  | Some l => run_def (rec sp ts None false false) l
  | None => raw_loop rec sp ts f DNoValue
  end.

Definition len_ok (len: option N) (body: bytes) : Prop :=
  match len with Some l => l = N.of_nat (length body) | None => True end.

(* how the dispatch treats spec sp on the way to type T0: EXPLICIT levels while the tags read are a
   proper outer part of a tag set of T0; once they are all of it, T0's value decoder, run d levels of
   fuel lower (one for every untagged CHOICE the spec goes through), and its value wrapped by W into
   what the spec's own type returns *)
Record sp_ok (sp: spec) (T0: ty) (W: val -> dval) (d: nat) : Prop := {
  so_match : forall f ts len cd fl body v,
     In (keys ts) (map keys (leaves T0)) -> by_type BER T0 = Some (cd, fl) ->
     ets_ok T0 v -> (cdv T0 v <= f)%nat -> len_ok len body ->
     consumes (dec_value (dec_call BER f) f cd fl (Some T0) ts len false) body (DV T0 v) ->
     consumes (dispatch BER (dec_call BER (f + d)) (f + d) sp ts len false) body (W v);
  so_explicit : forall rec f t acc len ls pre, In ls (leaves T0) -> keys ls = pre ++ keys (t :: acc) -> pre <> [] ->
     tcon t = true -> tcls t <> Univ ->
     dispatch BER rec f sp (t :: acc) len false = disp_explicit rec f sp (t :: acc) len;
  so_dv : forall v, is_dv (W v);
  (* an untagged ANY is only ever met under its own type as the spec *)
  so_any : T0 = TAny -> sp = STy TAny /\ d = 0%nat /\ forall v, W v = DV TAny v
}.

Lemma run_def_consumes (p: proc dval) content v l : l = N.of_nat (length content) ->
  consumes p content v -> consumes (run_def p l) content v.
Proof. intros ->. apply run_value_def. Qed.

Lemma disp_value_consumes rec f cd fl T0 ts len body v : len_ok len body ->
  consumes (dec_value rec f cd fl (Some T0) ts len false) body v ->
  consumes (disp_value rec f cd fl T0 ts len false) body v.
Proof.
  intros Hl H. unfold disp_value. destruct len as [l|]; [|exact H]. apply run_def_consumes; [exact Hl|exact H].
Qed.

Lemma node_len_ok n : len_ok (node_len n) (node_body n).
Proof. unfold len_ok. destruct (node_len n) as [l|] eqn:E; [apply (node_len_def n l E)|exact I]. Qed.

Lemma item_of_value_sp : forall f sp T0 W d acc n allow v cd fl,
  shape n -> fitsn f n -> (allow = true -> eoc_start (node_raw n) = false) ->
  sp_ok sp T0 W d -> In (keys (node_wire n :: acc)) (map keys (leaves T0)) -> by_type BER T0 = Some (cd, fl) ->
  ets_ok T0 v -> (cdv T0 v <= f)%nat ->
  consumes (dec_value (dec_call BER f) f cd fl (Some T0) (node_wire n :: acc) (node_len n) false) (node_body n) (DV T0 v) ->
  consumes (dec_call BER (S (f + d)) sp acc None allow false) (node_raw n) (W v).
Proof.
  intros f sp T0 W d acc n allow v cd fl Hsh [Hmax Hf] Heoc Hsp Heq Hby Hets Hcd Hval.
  destruct (shape_split n Hsh) as (ib & lb & Hi & Hl & Eraw). rewrite Eraw in *.
  apply (call_consumes (f + d) sp acc allow false ib lb (node_wire n) (node_len n) (node_body n) (W v) Hi Hl).
  - rewrite !app_length in Hf. lia.
  - intros Ha. apply (eoc_start_prefix _ (node_body n)); [apply (hdr_len2 _ _ _ _ Hi Hl)|apply Heoc; exact Ha].
  - apply (so_match sp T0 W d Hsp f _ _ cd fl _ v Heq Hby Hets Hcd (node_len_ok n) Hval).
Qed.

Lemma item_of_explicit_sp : forall f sp T0 W d acc c num indef k raw allow v ls pre,
  shape (Cons c num indef [k] raw) -> fitsn (S f) (Cons c num indef [k] raw) ->
  (allow = true -> eoc_start raw = false) ->
  sp_ok sp T0 W d -> In ls (leaves T0) -> keys ls = pre ++ keys (mkTag c true num :: acc) -> pre <> [] -> c <> Univ -> is_dv v ->
  consumes (dec_call BER (S f) sp (mkTag c true num :: acc) None indef false) (node_raw k) v ->
  consumes (dec_call BER (S (S f)) sp acc None allow false) raw v.
Proof.
  intros f sp T0 W d acc c num indef k raw allow v ls pre Hsh [Hmax Hf] Heoc Hsp Hls Hk Hpre Hcls Hdv Hin.
  destruct (shape_split _ Hsh) as (ib & lb & Hi & Hl & Eraw).
  cbn [node_raw node_wire node_len node_body] in *. rewrite Eraw in *.
  assert (Ekr: kids_raw [k] = node_raw k) by (unfold kids_raw; cbn [map concat]; apply app_nil_r).
  rewrite Ekr in *.
  apply (call_consumes (S f) sp acc allow false ib lb (mkTag c true num) _ _ v Hi Hl).
  - rewrite !app_length in Hf. lia.
  - intros Ha. apply (eoc_start_prefix _ (node_raw k ++ (if indef then [0; 0] else []))); [apply (hdr_len2 _ _ _ _ Hi Hl)|apply Heoc; exact Ha].
  - rewrite (so_explicit sp T0 W d Hsp _ _ _ _ _ ls pre Hls Hk Hpre eq_refl Hcls). unfold disp_explicit.
    destruct indef.
    + intros s tl Hav. rewrite <- app_assoc in Hav.
      destruct (Hin s ([0; 0] ++ tl) Hav) as (s1 & Hrun & Hp1 & Ha1 & Hc1).
      assert (Hav1: avail s1 = 0 :: 0 :: tl) by (apply (consumes_avail (node_raw k) s _ s1 Hav Hp1 Ha1)).
      cbn [raw_loop]. rewrite (resume_pbind_done _ _ _ _ _ Hrun).
      assert (Estep: resume (match v with DEoo => match DNoValue with DNoValue => Raise EMalformed | _ => Ret DNoValue end
                                     | _ => raw_loop (dec_call BER (S f)) sp (mkTag c true num :: acc) f v end) s1
                     = resume (raw_loop (dec_call BER (S f)) sp (mkTag c true num :: acc) f v) s1).
      { destruct v; try contradiction. reflexivity. }
      rewrite Estep. clear Estep.
      destruct f as [|f'].
      { exfalso. pose proof (shape_raw_len k) as Hk2.
        apply shape_cons in Hsh. destruct Hsh as (_ & _ & _ & _ & _ & Hall). inversion Hall as [|? ? [Hk0 _] _]; subst.
        specialize (Hk2 Hk0). pose proof (hdr_len2 _ _ _ _ Hi Hl). rewrite !app_length in Hf. cbn [length] in Hf. lia. }
      cbn [raw_loop]. rewrite (resume_pbind_done _ _ _ _ _ (call_eoo (S f') _ _ _ s1 tl Hav1)).
      destruct v; try contradiction. cbn [resume].
      exists (adv s1 2). split; [reflexivity|]. rewrite app_length. cbn [length].
      rewrite pos_adv. split; [lia|]. split; [rewrite arrived_adv; exact Ha1|rewrite closed_adv; exact Hc1].
    + rewrite app_nil_r in *. apply run_value_def. exact Hin.
Qed.

(* ====================================================================== *)
(* 4. the member loops: string segments, SEQUENCE OF, SEQUENCE               *)
(* ====================================================================== *)

Definition member (rec : spec -> tagset -> option (option N) -> bool -> bool -> proc dval)
  (sp: spec) (allow sfun: bool) (p: bytes) (d: dval) : Prop :=
  consumes (rec sp [] None allow sfun) p d /\ (0 < length p)%nat.
(* OCTET STRING and character string segments; BIT STRING segments, each decoded as a BIT STRING value;
   members of SEQUENCE OF and SEQUENCE *)
Definition oseg rec (allow: bool) (p: bytes) (bs: bytes) : Prop := member rec (STy TOcts) allow true p (DV TOcts (VOcts bs)).
Definition bseg rec (allow: bool) (p: bytes) (bs: list bool) : Prop := member rec (STy TBits) allow false p (DV TBits (VBits bs)).
Definition elem rec (t: ty) (allow: bool) (p: bytes) (x: val) : Prop := member rec (STy t) allow false p (DV t x).

Section LoopsDef.
  Variable rec : spec -> tagset -> option (option N) -> bool -> bool -> proc dval.

  Lemma octets_loop_run proto sp ts : forall parts bss,
    Forall2 (oseg rec false) parts bss ->
    forall n acc start total s tl,
      (length parts < n)%nat -> avail s = concat parts ++ tl -> (start <= pos s)%nat ->
      (pos s - start + length (concat parts) = total)%nat ->
      exists s', resume (octets_loop rec proto sp ts (N.of_nat total) start n acc) s
                 = resume (create sp proto ts (VOcts (acc ++ concat bss))) s'
        /\ avail s' = tl /\ pos s' = (pos s + length (concat parts))%nat /\ arrived s' = arrived s /\ closed s' = closed s.
  Proof.
    intros parts bss HF. induction HF as [|p bs parts bss [Hp Hpl] HF IH]; intros n acc start total s tl Hn Hav Hst Htot.
    - destruct n as [|n']; [cbn [length] in Hn; lia|].
      cbn [octets_loop]. rewrite resume_tell. cbn [concat length] in Htot.
      destruct (N.ltb_spec (N.of_nat (pos s - start)) (N.of_nat total)) as [Hlt|_]; [lia|].
      exists s. cbn [concat length app] in Hav, Htot |- *. rewrite app_nil_r. repeat split; [exact Hav|lia].
    - destruct n as [|n']; [cbn [length] in Hn; lia|].
      cbn [octets_loop]. rewrite resume_tell.
      cbn [concat] in Htot, Hav. rewrite app_length in Htot.
      destruct (N.ltb_spec (N.of_nat (pos s - start)) (N.of_nat total)) as [_|Hge]; [|lia].
      rewrite <- app_assoc in Hav. unfold fragment.
      destruct (Hp s _ Hav) as (s1 & Hrun & Hpos & Harr & Hcl).
      rewrite (resume_pbind_done _ _ _ _ _ Hrun).
      pose proof (consumes_avail p s _ s1 Hav Hpos Harr) as Hav1.
      cbn [length] in Hn.
      destruct (IH n' (acc ++ bs) start total s1 tl ltac:(lia) Hav1 ltac:(lia) ltac:(lia)) as (s2 & Hrun2 & Hav2 & Hpos2 & Harr2 & Hcl2).
      exists s2. rewrite Hrun2. rewrite <- app_assoc. cbn [concat]. rewrite app_length.
      split; [reflexivity|]. split; [exact Hav2|]. split; [lia|]. split; congruence.
  Qed.

  Lemma bits_loop_run sp ts : forall parts bss,
    Forall2 (bseg rec false) parts bss ->
    forall n acc start total s tl,
      (length parts < n)%nat -> avail s = concat parts ++ tl -> (start <= pos s)%nat ->
      (pos s - start + length (concat parts) = total)%nat ->
      exists s', resume (bits_loop rec sp ts (N.of_nat total) start n acc) s
                 = resume (create sp TBits ts (VBits (acc ++ concat bss))) s'
        /\ avail s' = tl /\ pos s' = (pos s + length (concat parts))%nat /\ arrived s' = arrived s /\ closed s' = closed s.
  Proof.
    intros parts bss HF. induction HF as [|p bs parts bss [Hp Hpl] HF IH]; intros n acc start total s tl Hn Hav Hst Htot.
    - destruct n as [|n']; [cbn [length] in Hn; lia|].
      cbn [bits_loop]. rewrite resume_tell. cbn [concat length] in Htot.
      destruct (N.ltb_spec (N.of_nat (pos s - start)) (N.of_nat total)) as [Hlt|_]; [lia|].
      exists s. cbn [concat length app] in Hav, Htot |- *. rewrite app_nil_r. repeat split; [exact Hav|lia].
    - destruct n as [|n']; [cbn [length] in Hn; lia|].
      cbn [bits_loop]. rewrite resume_tell.
      cbn [concat] in Htot, Hav. rewrite app_length in Htot.
      destruct (N.ltb_spec (N.of_nat (pos s - start)) (N.of_nat total)) as [_|Hge]; [|lia].
      rewrite <- app_assoc in Hav. unfold bits_fragment.
      destruct (Hp s _ Hav) as (s1 & Hrun & Hpos & Harr & Hcl).
      rewrite (resume_pbind_done _ _ _ _ _ Hrun). cbn [add_bits_fragment pbind].
      pose proof (consumes_avail p s _ s1 Hav Hpos Harr) as Hav1.
      cbn [length] in Hn.
      destruct (IH n' (acc ++ bs) start total s1 tl ltac:(lia) Hav1 ltac:(lia) ltac:(lia)) as (s2 & Hrun2 & Hav2 & Hpos2 & Harr2 & Hcl2).
      exists s2. rewrite Hrun2. rewrite <- app_assoc. cbn [concat]. rewrite app_length.
      split; [reflexivity|]. split; [exact Hav2|]. split; [lia|]. split; congruence.
  Qed.

End LoopsDef.

Section LoopsIndef.
  Variable rec : spec -> tagset -> option (option N) -> bool -> bool -> proc dval.
  (* where end-of-contents octets are allowed the recursive entry point reports them *)
  Hypothesis rec_eoo : forall sp acc sfun s tl, avail s = 0 :: 0 :: tl ->
    resume (rec sp acc None true sfun) s = inr (Ok DEoo, adv s 2).

  Lemma octets_indef_loop_run proto sp ts : forall parts bss,
    Forall2 (oseg rec true) parts bss ->
    forall n acc s tl,
      (length parts < n)%nat -> avail s = concat parts ++ [0; 0] ++ tl ->
      exists s', resume (octets_indef_loop rec proto sp ts n acc) s
                 = resume (create sp proto ts (VOcts (acc ++ concat bss))) s'
        /\ avail s' = tl /\ pos s' = (pos s + (length (concat parts) + 2))%nat /\ arrived s' = arrived s /\ closed s' = closed s.
  Proof.
    intros parts bss HF. induction HF as [|p bs parts bss [Hp Hpl] HF IH]; intros n acc s tl Hn Hav.
    - destruct n as [|n']; [cbn [length] in Hn; lia|].
      cbn [octets_indef_loop]. unfold fragment. cbn [concat app] in Hav.
      rewrite (resume_pbind_done _ _ _ _ _ (rec_eoo _ _ _ s tl Hav)).
      exists (adv s 2). cbn [concat app]. rewrite app_nil_r. split; [reflexivity|].
      split; [rewrite avail_adv, Hav; reflexivity|]. repeat split.
    - destruct n as [|n']; [cbn [length] in Hn; lia|].
      cbn [octets_indef_loop]. unfold fragment. cbn [concat] in Hav. rewrite <- app_assoc in Hav.
      destruct (Hp s _ Hav) as (s1 & Hrun & Hpos & Harr & Hcl).
      rewrite (resume_pbind_done _ _ _ _ _ Hrun).
      pose proof (consumes_avail p s _ s1 Hav Hpos Harr) as Hav1.
      cbn [length] in Hn.
      destruct (IH n' (acc ++ bs) s1 tl ltac:(lia) Hav1) as (s2 & Hrun2 & Hav2 & Hpos2 & Harr2 & Hcl2).
      exists s2. rewrite Hrun2. rewrite <- app_assoc. cbn [concat]. rewrite !app_length in *.
      split; [reflexivity|]. split; [exact Hav2|]. split; [lia|]. split; congruence.
  Qed.

  Lemma bits_indef_loop_run sp ts : forall parts bss,
    Forall2 (bseg rec true) parts bss ->
    forall n acc s tl,
      (length parts < n)%nat -> avail s = concat parts ++ [0; 0] ++ tl ->
      exists s', resume (bits_indef_loop rec sp ts n acc) s
                 = resume (create sp TBits ts (VBits (acc ++ concat bss))) s'
        /\ avail s' = tl /\ pos s' = (pos s + (length (concat parts) + 2))%nat /\ arrived s' = arrived s /\ closed s' = closed s.
  Proof.
    intros parts bss HF. induction HF as [|p bs parts bss [Hp Hpl] HF IH]; intros n acc s tl Hn Hav.
    - destruct n as [|n']; [cbn [length] in Hn; lia|].
      cbn [bits_indef_loop]. unfold bits_fragment. cbn [concat app] in Hav.
      rewrite (resume_pbind_done _ _ _ _ _ (rec_eoo _ _ _ s tl Hav)).
      exists (adv s 2). cbn [concat app]. rewrite app_nil_r. split; [reflexivity|].
      split; [rewrite avail_adv, Hav; reflexivity|]. repeat split.
    - destruct n as [|n']; [cbn [length] in Hn; lia|].
      cbn [bits_indef_loop]. unfold bits_fragment. cbn [concat] in Hav. rewrite <- app_assoc in Hav.
      destruct (Hp s _ Hav) as (s1 & Hrun & Hpos & Harr & Hcl).
      rewrite (resume_pbind_done _ _ _ _ _ Hrun). cbn [add_bits_fragment pbind].
      pose proof (consumes_avail p s _ s1 Hav Hpos Harr) as Hav1.
      cbn [length] in Hn.
      destruct (IH n' (acc ++ bs) s1 tl ltac:(lia) Hav1) as (s2 & Hrun2 & Hav2 & Hpos2 & Harr2 & Hcl2).
      exists s2. rewrite Hrun2. rewrite <- app_assoc. cbn [concat]. rewrite !app_length in *.
      split; [reflexivity|]. split; [exact Hav2|]. split; [lia|]. split; congruence.
  Qed.

  Lemma listof_indef_loop_run T t : forall parts xs,
    Forall2 (elem rec t true) parts xs ->
    forall n acc start s tl,
      (length parts < n)%nat -> avail s = concat parts ++ [0; 0] ++ tl ->
      exists s', resume (listof_loop rec T t None start n acc) s = inr (Ok (DV T (VList (acc ++ xs))), s')
        /\ pos s' = (pos s + (length (concat parts) + 2))%nat /\ arrived s' = arrived s /\ closed s' = closed s.
  Proof.
    intros parts xs HF. induction HF as [|p x parts xs [Hp Hpl] HF IH]; intros n acc start s tl Hn Hav.
    - destruct n as [|n']; [cbn [length] in Hn; lia|].
      cbn [listof_loop]. cbv zeta. rewrite resume_tell. cbn [negb]. cbn [concat app] in Hav.
      rewrite (resume_pbind_done _ _ _ _ _ (rec_eoo _ _ _ s tl Hav)). cbn [resume].
      exists (adv s 2). rewrite app_nil_r. cbn [concat app length]. repeat split.
    - destruct n as [|n']; [cbn [length] in Hn; lia|].
      cbn [listof_loop]. cbv zeta. rewrite resume_tell. cbn [negb]. cbn [concat] in Hav. rewrite <- app_assoc in Hav.
      destruct (Hp s _ Hav) as (s1 & Hrun & Hpos & Harr & Hcl).
      rewrite (resume_pbind_done _ _ _ _ _ Hrun).
      pose proof (consumes_avail p s _ s1 Hav Hpos Harr) as Hav1.
      cbn [length] in Hn.
      destruct (IH n' (acc ++ [x]) start s1 tl ltac:(lia) Hav1) as (s2 & Hrun2 & Hpos2 & Harr2 & Hcl2).
      exists s2. rewrite Hrun2. rewrite <- app_assoc. cbn [app concat]. rewrite !app_length in *.
      split; [reflexivity|]. split; [lia|]. split; congruence.
  Qed.
End LoopsIndef.

From PV Require Proofs.RoundTrip2.

Section RecordIndef.
  Variable rec : spec -> tagset -> option (option N) -> bool -> bool -> proc dval.
  Variable lf : nat.
  Hypothesis rec_eoo : forall sp acc sfun s tl, avail s = 0 :: 0 :: tl ->
    resume (rec sp acc None true sfun) s = inr (Ok DEoo, adv s 2).

  Inductive fields_mem (allow: bool) : list (presence * ty) -> list bytes -> list val -> Prop :=
  | fm_nil : fields_mem allow [] [] []
  | fm_cons f p x fs ps xs : elem rec (snd f) allow p x -> fields_mem allow fs ps xs ->
                             fields_mem allow (f :: fs) (p :: ps) (x :: xs).

  Lemma fields_mem_def fs ps xs : fields_mem false fs ps xs -> RoundTrip2.fields_ok rec fs ps xs.
  Proof. intros H. induction H as [|f p x fs ps xs He _ IH]; constructor; [exact He|exact IH]. Qed.

  Lemma record_indef_loop_run T fs :
    forallb (fun f => is_req (fst f)) fs = true ->
    (match fs with [] => true | _ => false end) = false ->
    forall todo parts xs', fields_mem true todo parts xs' ->
    forall done vdone n start s tl,
      fs = done ++ todo -> length vdone = length done ->
      (length todo < n)%nat ->
      avail s = concat parts ++ [0; 0] ++ tl ->
      exists s', resume (record_loop rec lf T fs false None start n (length done)
                                     (map Some vdone ++ map (fun _ => None) todo) 0%nat) s
                 = inr (Ok (DV T (VRec (map Some (vdone ++ xs')))), s')
        /\ pos s' = (pos s + (length (concat parts) + 2))%nat /\ arrived s' = arrived s /\ closed s' = closed s.
  Proof.
    intros Hreq Hne todo parts xs' HF.
    induction HF as [|f p x' todo parts xs' [Hp Hpl] HF IH]; intros done vdone n start s tl Hfs Hvd Hn Hav.
    - destruct n as [|n']; [cbn [length] in Hn; lia|].
      cbn [record_loop]. cbv zeta. rewrite resume_tell. cbn [negb andb]. rewrite Hne.
      rewrite app_nil_r in Hfs. subst done.
      rewrite Nat.leb_refl. cbn [concat app] in Hav.
      rewrite (resume_pbind_done _ _ _ _ _ (rec_eoo _ _ _ s tl Hav)).
      cbn [map]. rewrite !app_nil_r. rewrite RoundTrip2.required_seen_all_some. cbn [resume].
      exists (adv s 2). cbn [concat length]. repeat split.
    - destruct n as [|n']; [cbn [length] in Hn; lia|].
      cbn [record_loop]. cbv zeta. rewrite resume_tell. cbn [negb andb]. rewrite Hne, Hreq.
      assert (Hidx: Nat.leb (length fs) (length done) = false).
      { apply Nat.leb_gt. rewrite Hfs, app_length. cbn [length]. lia. }
      rewrite Hidx. unfold seq_component_spec.
      assert (Hnth: nth_error fs (length done) = Some f) by (rewrite Hfs; apply RoundTrip2.nth_error_app_exact). rewrite Hnth.
      destruct f as [pr ft]. cbn [orb snd] in *.
      cbn [concat] in Hav. rewrite <- app_assoc in Hav.
      destruct (Hp s _ Hav) as (s1 & Hrun & Hpos & Harr & Hcl).
      rewrite (resume_pbind_done _ _ _ _ _ Hrun).
      pose proof (consumes_avail p s _ s1 Hav Hpos Harr) as Hav1.
      unfold seq_position. cbn [lift pbind]. rewrite Hidx.
      cbn [map].
      match goal with |- context [set_nth ?i ?x (?a ++ ?y :: ?b)] =>
        replace (set_nth i x (a ++ y :: b)) with (a ++ x :: b)
          by (symmetry; rewrite <- Hvd, <- (map_length Some vdone); apply RoundTrip2.set_nth_app) end.
      cbn [length] in Hn.
      assert (Hfs': fs = (done ++ [(pr, ft)]) ++ todo) by (rewrite <- app_assoc; exact Hfs).
      assert (Hvd': length (vdone ++ [x']) = length (done ++ [(pr, ft)])) by (rewrite !app_length; cbn [length]; lia).
      destruct (IH (done ++ [(pr, ft)]) (vdone ++ [x']) n' start s1 tl Hfs' Hvd' ltac:(lia) Hav1)
        as (s2 & Hrun2 & Hpos2 & Harr2 & Hcl2).
      rewrite app_length in Hrun2. cbn [length] in Hrun2. rewrite Nat.add_1_r in Hrun2.
      rewrite map_app in Hrun2. cbn [map] in Hrun2. rewrite <- app_assoc in Hrun2. cbn [app] in Hrun2.
      exists s2. rewrite Hrun2. rewrite <- app_assoc. cbn [app concat]. rewrite app_length.
      split; [reflexivity|]. split; [lia|]. split; congruence.
  Qed.

  Lemma dec_record_indef_consumes T fs parts xs' :
    forallb (fun f => is_req (fst f)) fs = true -> fields_mem true fs parts xs' -> (length fs < lf)%nat ->
    consumes (dec_record rec lf T fs false None) (concat parts ++ [0; 0]) (DV T (VRec (map Some xs'))).
  Proof.
    intros Hreq HF Hlf s tl Hav. unfold dec_record. rewrite resume_tell. rewrite <- app_assoc in Hav.
    destruct fs as [|f0 fs0].
    - inversion HF; subst. destruct lf as [|n]; [cbn [length] in Hlf; lia|].
      cbn [record_loop]. cbv zeta. rewrite resume_tell. cbn [negb]. cbn [concat app] in Hav.
      rewrite (resume_pbind_done _ _ _ _ _ (rec_eoo _ _ _ s tl Hav)). cbn [map resume].
      exists (adv s 2). repeat split.
    - destruct (record_indef_loop_run T (f0 :: fs0) Hreq eq_refl (f0 :: fs0) parts xs' HF [] [] lf (pos s)
                  s tl eq_refl eq_refl Hlf Hav) as (s' & Hrun & Hpos & Harr & Hcl).
      exists s'. split; [exact Hrun|]. rewrite app_length. cbn [length]. repeat split; assumption.
  Qed.
End RecordIndef.

(* ====================================================================== *)
(* 5. nodes against fuel; members of a constructed node                      *)
(* ====================================================================== *)

Definition nok (f: nat) (n: node) : Prop := shape n /\ octs (node_raw n) /\ fitsn f n.

Lemma kids_raw_cons k r : kids_raw (k :: r) = node_raw k ++ kids_raw r. Proof. reflexivity. Qed.

Lemma kids_raw_count kids : Forall shape kids -> (2 * length kids <= length (kids_raw kids))%nat.
Proof.
  induction 1 as [|k r Hk _ IH]; [cbn; lia|].
  rewrite kids_raw_cons, app_length. pose proof (shape_raw_len k Hk). cbn [length]. lia.
Qed.

Lemma kid_raw_len k kids : In k kids -> (length (node_raw k) <= length (kids_raw kids))%nat.
Proof.
  induction kids as [|x r IH]; intros H; [contradiction|].
  rewrite kids_raw_cons, app_length. destruct H as [->|H]; [lia|]. specialize (IH H). lia.
Qed.

Lemma kid_raw_octs k kids : octs (kids_raw kids) -> In k kids -> octs (node_raw k).
Proof.
  induction kids as [|x r IH]; intros Ho H; [contradiction|].
  rewrite kids_raw_cons in Ho. apply octs_app in Ho. destruct Ho as [H1 H2].
  destruct H as [->|H]; [exact H1|apply IH; assumption].
Qed.

(* what a constructed node gives its members *)
Lemma nok_kids f c num indef kids raw : nok f (Cons c num indef kids raw) ->
  exists f', f = S (S f') /\ (length kids <= f')%nat
    /\ Forall (fun k => nok f' k /\ (indef = true -> eoc_start (node_raw k) = false) /\ (0 < length (node_raw k))%nat) kids.
Proof.
  intros (Hsh & Ho & Hmax & Hf).
  pose proof Hsh as Hsh0. apply shape_cons in Hsh. destruct Hsh as (ib & lb & Hi & Hl & E & Hall).
  cbn [node_raw] in *. pose proof (hdr_len2 _ _ _ _ Hi Hl) as H2.
  assert (Hshk: Forall shape kids) by (apply Forall_forall; intros k Hk; rewrite Forall_forall in Hall; apply (Hall k Hk)).
  pose proof (kids_raw_count kids Hshk) as Hcnt.
  assert (Hlen: (length (ib ++ lb) + length (kids_raw kids) <= length raw)%nat).
  { rewrite E. rewrite !app_length. lia. }
  assert (Hok: octs (kids_raw kids)).
  { rewrite E in Ho. apply octs_app in Ho. destruct Ho as [_ Ho]. apply octs_app in Ho. destruct Ho as [_ Ho].
    apply octs_app in Ho. tauto. }
  destruct f as [|[|f']]; [lia|lia|]. exists f'. split; [reflexivity|]. split; [lia|].
  apply Forall_forall. intros k Hk. rewrite Forall_forall in Hall. destruct (Hall k Hk) as [Hks Hke].
  pose proof (kid_raw_len k kids Hk) as Hkl. pose proof (shape_raw_len k Hks) as Hk2.
  split; [|split; [exact Hke|lia]].
  split; [exact Hks|]. split; [apply (kid_raw_octs k kids Hok Hk)|]. split; lia.
Qed.

Lemma opt_all_Forall2 {A B} (g: A -> option B) : forall l r, opt_all (map g l) = Some r -> Forall2 (fun a b => g a = Some b) l r.
Proof.
  induction l as [|a l IH]; intros r H.
  - cbn in H. inversion H. constructor.
  - cbn [map opt_all] in H. destruct (g a) as [b|] eqn:Ea; [|discriminate H].
    destruct (opt_all (map g l)) as [r'|] eqn:Er; [|discriminate H]. cbn [opt_bind] in H. inversion H; subst.
    constructor; [exact Ea|apply IH; reflexivity].
Qed.

Lemma dec_call_eoo f : forall sp acc sfun s tl, avail s = 0 :: 0 :: tl ->
  resume (dec_call BER (S f) sp acc None true sfun) s = inr (Ok DEoo, adv s 2).
Proof. intros. apply (call_eoo f sp acc sfun s tl). assumption. Qed.

(* ---------- OCTET STRING and character strings: any segmentation (8.7.3, 8.23.6) ---------- *)

Lemma segments_inv fuel n bs : segments fuel n = Some bs ->
  (exists c raw, n = Prim Univ 4 c raw /\ bs = c)
  \/ (exists i kids raw l fuel', n = Cons Univ 4 i kids raw /\ fuel = S fuel'
        /\ opt_all (map (segments fuel') kids) = Some l /\ bs = concat l).
Proof.
  destruct fuel as [|fuel']; [discriminate|]. cbn [segments].
  destruct n as [c num contents raw|c num i kids raw]; destruct c; try discriminate;
    destruct num as [|[p|[p|[p|p|]|]|]]; try discriminate.
  - intros H. assert (E: contents = bs) by congruence. subst bs. left. exists contents, raw. split; reflexivity.
  - intros H. right. destruct (opt_all (map (segments fuel') kids)) as [l|] eqn:E; [|discriminate H].
    cbn [opt_bind] in H. assert (E2: concat l = bs) by congruence. subst bs.
    exists i, kids, raw, l, fuel'. split; [reflexivity|]. split; [reflexivity|]. split; [exact E|reflexivity].
Qed.

Lemma fits_of_body f n : fitsn f n -> shape n -> DecPrim.fits f (node_body n).
Proof.
  intros [Hmax Hf] Hsh. destruct (shape_split n Hsh) as (ib & lb & _ & _ & E). rewrite E in *.
  rewrite app_length in *. unfold DecPrim.fits. split; lia.
Qed.

Section OctetValue.
  Variables (f: nat) (T0 proto: ty) (fl: dec_flags) (ts: tagset) (sfun: bool).
  (* the octet strings the type accepts (character strings: those of its repertoire) *)
  Variable okb : bytes -> Prop.
  Hypothesis Hcreate : forall b, okb b -> create (Some T0) proto ts (VOcts b) = Ret (DV T0 (VOcts b)).
  Hypothesis Hfl : df_constructed fl = true.

  Lemma octets_prim_value content :
    tag0_simple ts = true -> DecPrim.fits f content -> okb content ->
    consumes (dec_octets (dec_call BER f) f proto fl (Some T0) ts (N.of_nat (length content)) sfun) content (DV T0 (VOcts content)).
  Proof. intros Hts Hfit Hb. unfold dec_octets. rewrite Hts. apply consumes_ret; [exact Hfit|apply Hcreate; exact Hb]. Qed.

  Lemma octets_def_value parts bss :
    tag0_simple ts = false -> Forall2 (oseg (dec_call BER f) false) parts bss -> (length parts < f)%nat ->
    okb (concat bss) ->
    consumes (dec_octets (dec_call BER f) f proto fl (Some T0) ts (N.of_nat (length (concat parts))) sfun) (concat parts)
             (DV T0 (VOcts (concat bss))).
  Proof.
    intros Hts HF Hlf Hb s tl Hav. unfold dec_octets. rewrite Hts, Hfl. cbn [negb]. rewrite resume_tell.
    destruct (octets_loop_run (dec_call BER f) proto (Some T0) ts parts bss HF f [] (pos s) (length (concat parts)) s tl Hlf Hav
                ltac:(lia) ltac:(lia)) as (s' & Hrun & _ & Hpos & Harr & Hcl).
    rewrite Hrun. cbn [app]. rewrite (Hcreate _ Hb). cbn [resume]. exists s'. repeat split; assumption.
  Qed.

  Lemma octets_indef_value f' parts bss :
    f = S f' -> Forall2 (oseg (dec_call BER f) true) parts bss -> (length parts < f)%nat ->
    okb (concat bss) ->
    consumes (dec_octets_indef (dec_call BER f) f proto (Some T0) ts) (concat parts ++ [0; 0]) (DV T0 (VOcts (concat bss))).
  Proof.
    intros Ef HF Hlf Hb s tl Hav. unfold dec_octets_indef. rewrite <- app_assoc in Hav.
    assert (Heoo: forall sp acc sfun0 s0 tl0, avail s0 = 0 :: 0 :: tl0 ->
                  resume (dec_call BER f sp acc None true sfun0) s0 = inr (Ok DEoo, adv s0 2)).
    { rewrite Ef. apply dec_call_eoo. }
    destruct (octets_indef_loop_run (dec_call BER f) Heoo proto (Some T0) ts parts bss HF f [] s tl Hlf Hav)
      as (s' & Hrun & _ & Hpos & Harr & Hcl).
    rewrite Hrun. cbn [app]. rewrite (Hcreate _ Hb). cbn [resume]. exists s'. rewrite app_length. cbn [length].
    repeat split; assumption.
  Qed.
End OctetValue.

Lemma create_octs ts b : create (Some TOcts) TOcts ts (VOcts b) = Ret (DV TOcts (VOcts b)).
Proof. reflexivity. Qed.

Lemma wire_univ_tagset n u acc T0 :
  key (node_wire n) = u -> keys (tagset_of' T0) = u :: keys acc ->
  tagset_eqb (node_wire n :: acc) (tagset_of' T0) = true.
Proof. intros H1 H2. apply tagset_eqb_keys. cbn [keys map]. fold (keys acc). rewrite H1, H2. reflexivity. Qed.

Lemma tag0_simple_wire n acc : tag0_simple (node_wire n :: acc) = match n with Prim _ _ _ _ => true | Cons _ _ _ _ _ => false end.
Proof. destruct n; reflexivity. Qed.

(* segments built from the members' own runs *)
Lemma members_Forall2 {B} (P: node -> Prop) (g: node -> option B) (R: bytes -> B -> Prop) :
  forall kids l, Forall P kids -> Forall2 (fun k b => g k = Some b) kids l ->
  (forall k b, P k -> g k = Some b -> R (node_raw k) b) ->
  Forall2 R (map node_raw kids) l.
Proof.
  intros kids l HP HF Hstep. induction HF as [|k b kids l Hg HF IH]; [constructor|].
  inversion HP; subst. cbn [map]. constructor; [apply Hstep; assumption|apply IH; assumption].
Qed.

Lemma Forall_and {A} (P Q: A -> Prop) l : Forall P l -> Forall Q l -> Forall (fun x => P x /\ Q x) l.
Proof. intros HP HQ. induction HP; inversion HQ; subst; constructor; [split; assumption|auto]. Qed.

Lemma nok_mono f g n : nok f n -> (f <= g)%nat -> nok g n.
Proof. intros (H1 & H2 & H3 & H4) Hle. split; [exact H1|]. split; [exact H2|]. split; [exact H3|lia]. Qed.

(* Stage 4a: an OCTET STRING in any primitive / constructed / nested segmentation, definite or indefinite at
   every level, is read by the decoder (as a fragment or as a value) to the octets the reference joins *)
Theorem octet_string_item : forall n fuel bs f allow sfun,
  nok f n -> (allow = true -> eoc_start (node_raw n) = false) -> segments fuel n = Some bs ->
  consumes (dec_call BER (S f) (STy TOcts) [] None allow sfun) (node_raw n) (DV TOcts (VOcts bs)).
Proof.
  induction n as [c num contents raw|c num indef kids raw IH] using node_ind'; intros fuel bs f allow sfun Hok Heoc Hseg.
  - destruct (segments_inv _ _ _ Hseg) as [(c0 & raw0 & E & ->)|(i & kids & raw0 & l & fuel' & E & _)]; [|discriminate E].
    inversion E; subst c num c0 raw0. destruct Hok as (Hsh & Ho & Hfit).
    apply (item_of_value f TOcts [] _ allow sfun _ DcOcts (mkDecFlags true (Some KOcts)) Hsh Hfit Heoc); try reflexivity.
    cbn [node_len node_body node_wire dec_value base_of].
    apply (octets_prim_value f TOcts TOcts _ _ sfun (fun _ => True) (fun b _ => create_octs _ b)); [reflexivity|apply (fits_of_body f _ Hfit Hsh)|exact I].
  - destruct (segments_inv _ _ _ Hseg) as [(c0 & raw0 & E & _)|(i & kids0 & raw0 & l & fuel' & E & _ & Hall & ->)]; [discriminate E|].
    inversion E; subst c num i kids0 raw0. clear E.
    destruct (nok_kids _ _ _ _ _ _ Hok) as (f' & -> & Hcnt & Hkids).
    destruct Hok as (Hsh & Ho & Hfit).
    apply (item_of_value (S (S f')) TOcts [] _ allow sfun _ DcOcts (mkDecFlags true (Some KOcts)) Hsh Hfit Heoc); try reflexivity.
    assert (HF: Forall2 (oseg (dec_call BER (S (S f'))) indef) (map node_raw kids) l).
    { apply (members_Forall2 _ (segments fuel') _ kids l (Forall_and _ _ _ IH Hkids) (opt_all_Forall2 _ _ _ Hall)).
      intros k b [IHk (Hk & Hke & Hkl)] Hg. split; [|exact Hkl].
      apply (IHk fuel' b (S f') indef true (nok_mono _ _ _ Hk (Nat.le_succ_diag_r f')) Hke Hg). }
    cbn [node_len node_body node_wire dec_value base_of]. unfold kids_raw.
    destruct indef.
    + rewrite <- (map_length node_raw kids) in Hcnt.
      apply (octets_indef_value (S (S f')) TOcts TOcts _ (fun _ => True) (fun b _ => create_octs _ b) (S f') _ _ eq_refl HF); [lia|exact I].
    + rewrite app_nil_r. rewrite <- (map_length node_raw kids) in Hcnt.
      apply (octets_def_value (S (S f')) TOcts TOcts (mkDecFlags true (Some KOcts)) [mkTag Univ true 4] sfun (fun _ => True) (fun b _ => create_octs _ b) eq_refl _ _ eq_refl HF); [lia|exact I].
Qed.

(* ---------- BIT STRING: any segmentation (8.6.4) ---------- *)

(* [safe L n]: the side conditions of the final theorems as a predicate on the TLV tree, relative to a
   list L of marked (class, number) pairs (REAL mantissas, ASCII repertoires). *)
Definition is_nil {A} (l: list A) : bool := match l with [] => true | _ => false end.
(* marked (class, number) pairs: KR = a REAL may be carried under it, KA = a character
   string whose repertoire the library checks (ASCII) *)
Inductive kind := KR | KA | KN.
Definition kind_eqb (a b: kind) : bool := match a, b with KR, KR | KA, KA | KN, KN => true | _, _ => false end.
Definition mkey : Type := (kind * (tclass * N))%type.
Definition mkey_eqb (a b: mkey) : bool := kind_eqb (fst a) (fst b) && tag_pair_eqb (snd a) (snd b).
Definition memk (k: mkey) (L: list mkey) : bool := existsb (mkey_eqb k) L.
Definition ascii (b: bytes) : bool := forallb (fun x => N.ltb x 128) b.
Fixpoint leaves_ascii (n: node) : bool :=
  match n with
  | Prim _ _ contents _ => ascii contents
  | Cons _ _ _ kids _ => forallb leaves_ascii kids
  end.
(* KN marks that an ANY occurs: then no node may carry the reserved tag UNIVERSAL 0 *)
Definition u0_ok (L: list mkey) (c: tclass) (num: N) : bool :=
  negb (memk (KN, (Univ, 0)) L && tag_pair_eqb (c, num) (Univ, 0)).
Fixpoint safe (L: list mkey) (n: node) : bool :=
  match n with
  | Prim c num contents _ =>
      (negb (memk (KR, (c, num)) L) || real_mant_ok contents) && (negb (memk (KA, (c, num)) L) || ascii contents)
      && u0_ok L c num
  | Cons c num indef kids _ =>
      (negb (memk (KA, (c, num)) L) || forallb leaves_ascii kids) && u0_ok L c num
      && forallb (safe L) kids
  end.

Lemma andb3 a b c : a && b && c = true -> a = true /\ b = true /\ c = true.
Proof. destruct a, b, c; intros H; try discriminate H; repeat split. Qed.

Lemma bit_segments_inv fuel n l : bit_segments fuel n = Some l ->
  (exists u c raw, n = Prim Univ 3 (u :: c) raw /\ N.ltb 7 u = false /\ l = [(bits_of_octets_spec c, u)])
  \/ (exists i kids raw ls fuel', n = Cons Univ 3 i kids raw /\ fuel = S fuel'
        /\ opt_all (map (bit_segments fuel') kids) = Some ls /\ l = concat ls).
Proof.
  destruct fuel as [|fuel']; [discriminate|]. cbn [bit_segments].
  destruct n as [c num contents raw|c num i kids raw]; destruct c; try discriminate;
    destruct num as [|[[p|p|]|p|]]; try discriminate.
  - destruct contents as [|u c]; [discriminate|]. destruct (N.ltb 7 u) eqn:E; [discriminate|].
    intros H. assert (E2: [(bits_of_octets_spec c, u)] = l) by congruence. subst l.
    left. exists u, c, raw. split; [reflexivity|]. split; [exact E|reflexivity].
  - intros H. right. destruct (opt_all (map (bit_segments fuel') kids)) as [ls|] eqn:E; [|discriminate H].
    cbn [opt_bind] in H. assert (E2: concat ls = l) by congruence. subst l.
    exists i, kids, raw, ls, fuel'. split; [reflexivity|]. split; [reflexivity|]. split; [exact E|reflexivity].
Qed.

Lemma join_cons2 bs u x r : join_bit_segments ((bs, u) :: x :: r) =
  if N.eqb u 0 then opt_bind (join_bit_segments (x :: r)) (fun y => Some (bs ++ y)) else None.
Proof. reflexivity. Qed.

Lemma join_app : forall l1 l2 bs, join_bit_segments (l1 ++ l2) = Some bs ->
  exists b1 b2, join_bit_segments l1 = Some b1 /\ join_bit_segments l2 = Some b2 /\ bs = b1 ++ b2.
Proof.
  induction l1 as [|[bits u] r IH]; intros l2 bs H.
  - exists [], bs. split; [reflexivity|]. split; [exact H|reflexivity].
  - destruct (r ++ l2) as [|x rest] eqn:Er.
    + apply app_eq_nil in Er. destruct Er as [-> ->]. rewrite app_nil_r in H.
      exists bs, []. split; [exact H|]. split; [reflexivity|rewrite app_nil_r; reflexivity].
    + cbn [app] in H. rewrite Er, join_cons2 in H.
      destruct (N.eqb_spec u 0) as [->|Hne]; [|discriminate H].
      rewrite <- Er in H.
      destruct (join_bit_segments (r ++ l2)) as [y|] eqn:Ey; [|discriminate H]. cbn [opt_bind] in H.
      destruct (IH l2 y Ey) as (b1 & b2 & H1 & H2 & ->).
      exists (bits ++ b1), b2. split; [|split; [exact H2|]].
      * destruct r as [|x' r'].
        -- cbn in H1. inversion H1; subst b1. cbn [join_bit_segments]. change (N.to_nat 0) with 0%nat.
           destruct (Nat.ltb_spec (length bits) 0) as [Hc|_]; [lia|]. rewrite Nat.sub_0_r, firstn_all, app_nil_r. reflexivity.
        -- rewrite join_cons2. cbn [N.eqb]. rewrite H1. reflexivity.
      * rewrite <- app_assoc. congruence.
Qed.

Lemma join_concat : forall ls bs, join_bit_segments (concat ls) = Some bs ->
  exists bss, Forall2 (fun l b => join_bit_segments l = Some b) ls bss /\ bs = concat bss.
Proof.
  induction ls as [|l ls IH]; intros bs H.
  - cbn in H. inversion H. exists []. split; [constructor|reflexivity].
  - cbn [concat] in H. destruct (join_app _ _ _ H) as (b1 & b2 & H1 & H2 & ->).
    destruct (IH b2 H2) as (bss & HF & ->). exists (b1 :: bss). split; [constructor; assumption|reflexivity].
Qed.

Lemma create_bits T0 ts x : create (Some T0) TBits ts (VBits x) = Ret (DV T0 (VBits x)).
Proof. unfold create. destruct (base_of T0); reflexivity. Qed.

Section BitsValue.
  Variables (f: nat) (T0: ty) (fl: dec_flags) (ts: tagset).
  Hypothesis Hfl : df_constructed fl = true.

  Lemma bits_def_value parts bss :
    tag0_simple ts = false -> Forall2 (bseg (dec_call BER f) false) parts bss -> (length parts < f)%nat ->
    consumes (dec_bits (dec_call BER f) f fl (Some T0) ts (N.of_nat (length (concat parts))) false) (concat parts)
             (DV T0 (VBits (concat bss))).
  Proof.
    intros Hts HF Hlf s tl Hav. unfold dec_bits.
    rewrite Hts, Hfl. cbn [negb]. rewrite resume_tell.
    destruct (bits_loop_run (dec_call BER f) (Some T0) ts parts bss HF f [] (pos s) (length (concat parts)) s tl Hlf Hav
                ltac:(lia) ltac:(lia)) as (s' & Hrun & _ & Hpos & Harr & Hcl).
    rewrite Hrun. cbn [app]. rewrite create_bits. cbn [resume]. exists s'. repeat split; assumption.
  Qed.

  Lemma bits_indef_value f' parts bss :
    f = S f' -> Forall2 (bseg (dec_call BER f) true) parts bss -> (length parts < f)%nat ->
    consumes (dec_bits_indef (dec_call BER f) f (Some T0) ts false) (concat parts ++ [0; 0]) (DV T0 (VBits (concat bss))).
  Proof.
    intros Ef HF Hlf s tl Hav. unfold dec_bits_indef. rewrite <- app_assoc in Hav.
    assert (Heoo: forall sp acc sfun0 s0 tl0, avail s0 = 0 :: 0 :: tl0 ->
                  resume (dec_call BER f sp acc None true sfun0) s0 = inr (Ok DEoo, adv s0 2)).
    { rewrite Ef. apply dec_call_eoo. }
    destruct (bits_indef_loop_run (dec_call BER f) Heoo (Some T0) ts parts bss HF f [] s tl Hlf Hav)
      as (s' & Hrun & _ & Hpos & Harr & Hcl).
    rewrite Hrun. cbn [app]. rewrite create_bits. cbn [resume]. exists s'. rewrite app_length. cbn [length].
    repeat split; assumption.
  Qed.
End BitsValue.

Lemma bits_prim_value f T0 fl ts u c bs :
  tag0_simple ts = true -> DecPrim.fits f (u :: c) -> N.ltb 7 u = false ->
  join_bit_segments [(bits_of_octets_spec c, u)] = Some bs ->
  consumes (dec_bits (dec_call BER f) f fl (Some T0) ts (N.of_nat (length (u :: c))) false) (u :: c) (DV T0 (VBits bs)).
Proof.
  intros Hts [Hmax Hf] Hu Hj s tl Hav. unfold dec_bits.
  assert (Hz: N.eqb (N.of_nat (length (u :: c))) 0 = false) by (apply N.eqb_neq; cbn [length]; lia).
  rewrite ?Hz, Hts, ?Hz. rewrite (resume_read1 s u (c ++ tl) _ Hav). rewrite Hu.
  replace (N.of_nat (length (u :: c)) - 1) with (N.of_nat (length c)) by (cbn [length]; lia).
  assert (Hav1: avail (adv s 1) = c ++ tl) by (apply (avail_cons_adv _ _ _ Hav)).
  cbn [length] in Hmax, Hf.
  rewrite (resume_read_len f c tl (adv s 1) _ Hav1) by lia.
  rewrite (bits_leaf c u bs Hj). cbn [lift pbind]. rewrite create_bits. cbn [resume].
  exists (adv (adv s 1) (length c)). rewrite adv_adv. cbn [length]. split; [reflexivity|]. split; [rewrite pos_adv; lia|]. split; reflexivity.
Qed.

Lemma kids_raw_nonempty kids : Forall shape kids -> kids <> [] -> length (kids_raw kids) <> 0%nat.
Proof. intros H Hne. pose proof (kids_raw_count kids H). destruct kids; [congruence|]. cbn [length] in *. lia. Qed.

Lemma safe_kids L c num indef kids raw : safe L (Cons c num indef kids raw) = true -> Forall (fun k => safe L k = true) kids.
Proof.
  cbn [safe]. intros H. apply andb_true_iff in H. destruct H as [_ H]. apply Forall_forall. rewrite forallb_forall in H. exact H.
Qed.

(* Stage 4b: a BIT STRING in any segmentation is read to the bits the reference joins *)
Theorem bit_string_item : forall n fuel l bs f allow,
  nok f n -> (allow = true -> eoc_start (node_raw n) = false) ->
  bit_segments fuel n = Some l -> join_bit_segments l = Some bs ->
  consumes (dec_call BER (S f) (STy TBits) [] None allow false) (node_raw n) (DV TBits (VBits bs)).
Proof.
  induction n as [c num contents raw|c num indef kids raw IH] using node_ind'; intros fuel l bs f allow Hok Heoc Hseg Hjoin.
  - destruct (bit_segments_inv _ _ _ Hseg) as [(u & c0 & raw0 & E & Hu & ->)|(i & kids & raw0 & ls & fuel' & E & _)]; [|discriminate E].
    inversion E; subst c num contents raw0. destruct Hok as (Hsh & Ho & Hfit).
    apply (item_of_value f TBits [] _ allow false _ DcBits (mkDecFlags true (Some KBits)) Hsh Hfit Heoc); try reflexivity.
    cbn [node_len node_body node_wire dec_value].
    apply bits_prim_value; [reflexivity|apply (fits_of_body f _ Hfit Hsh)|exact Hu|exact Hjoin].
  - destruct (bit_segments_inv _ _ _ Hseg) as [(u & c0 & raw0 & E & _)|(i & kids0 & raw0 & ls & fuel' & E & _ & Hall & ->)]; [discriminate E|].
    inversion E; subst c num i kids0 raw0. clear E.
    destruct (nok_kids _ _ _ _ _ _ Hok) as (f' & -> & Hcnt & Hkids).
    destruct Hok as (Hsh & Ho & Hfit).
    destruct (join_concat _ _ Hjoin) as (bss & HJ & ->).
    apply (item_of_value (S (S f')) TBits [] _ allow false _ DcBits (mkDecFlags true (Some KBits)) Hsh Hfit Heoc); try reflexivity.
    assert (HF: Forall2 (bseg (dec_call BER (S (S f'))) indef) (map node_raw kids) bss).
    { pose proof (opt_all_Forall2 _ _ _ Hall) as H1.
      clear Hseg Hall Hjoin Hsh Ho Hfit Heoc Hcnt.
      revert bss HJ. induction H1 as [|k lk kids ls Hk H1 IH1]; intros bss HJ.
      - inversion HJ. constructor.
      - inversion HJ as [|? bk ? bss' Hjk HJ']; subst.
        inversion IH as [|? ? IHk IHr]; subst. inversion Hkids as [|? ? (Hnk & Hke & Hkl) Hkr]; subst.
        cbn [map]. constructor; [|apply IH1; assumption].
        split; [|exact Hkl].
        apply (IHk fuel' lk bk (S f') indef (nok_mono _ _ _ Hnk (Nat.le_succ_diag_r f')) Hke Hk Hjk). }
    cbn [node_len node_body node_wire dec_value]. unfold kids_raw.
    rewrite <- (map_length node_raw kids) in Hcnt.
    destruct indef.
    + apply (bits_indef_value (S (S f')) TBits _ (S f') _ _ eq_refl HF). lia.
    + rewrite app_nil_r.
      apply (bits_def_value (S (S f')) TBits (mkDecFlags true (Some KBits)) [mkTag Univ true 3] eq_refl _ _ eq_refl HF). lia.
Qed.

(* formerly a defect of the library (23 00 was refused), repaired: a constructed BIT STRING without
   segments, also nested, is the empty bit string, in the definite as in the indefinite form *)
Example bits_empty_constructed_bits :
  X690.read TBits [35; 0] = Some (ABits [], [])
  /\ decode BER (Some TBits) [35; 0] = Ok (DV TBits (VBits []), [])
  /\ decode BER (Some TBits) [35; 128; 0; 0] = Ok (DV TBits (VBits []), [])
  /\ X690.read TBits [35; 128; 35; 0; 3; 2; 1; 254; 0; 0] = Some (ABits [true; true; true; true; true; true; true], [])
  /\ decode BER (Some TBits) [35; 128; 35; 0; 3; 2; 1; 254; 0; 0]
     = Ok (DV TBits (VBits [true; true; true; true; true; true; true]), []).
Proof. vm_compute. repeat split. Qed.

(* ====================================================================== *)
(* 6. the fragment of types; what interp accepts, per type                  *)
(* ====================================================================== *)

Definition latin1 (n: N) : bool := existsb (N.eqb n) [20; 21; 25; 27; 7].
(* NumericString, PrintableString, IA5String, VisibleString, GeneralizedTime, UTCTime; UTF8String *)
Definition ascii_str (n: N) : bool := existsb (N.eqb n) [18; 19; 22; 26; 24; 23; 12].
Definition non_univ (t: tag) : bool := negb (cls_eqb (tcls t) Univ).

(* the outermost (class, number) pairs an encoding of T can begin with, as the reference's may_start sees them *)
Definition okeys (T: ty) : list (tclass * N) := match first_tags T with Some l => l | None => [] end.
Definition outer_key (T: ty) : tclass * N := match first_tags T with Some [k] => k | _ => (Univ, 0) end.
Fixpoint nodupb (l: list (tclass * N)) : bool :=
  match l with [] => true | x :: r => negb (existsb (tag_pair_eqb x) r) && nodupb r end.
(* an untagged ANY cannot be told by its tag *)
Definition mapable (T: ty) : bool := match T with TAny => false | _ => true end.

(* THE FRAGMENT: every simple type (character strings: the latin-1 and the ASCII repertoires), SEQUENCE OF,
   SET OF, SEQUENCE (mandatory, OPTIONAL, DEFAULT components; in every run of OPTIONAL/DEFAULT components up
   to the next mandatory one the outermost tags are distinct; an untagged ANY only among mandatory
   components only), SET (components with distinct outermost tags, no untagged ANY), CHOICE (alternatives
   with distinct outermost tags, no untagged ANY), ANY, IMPLICIT tagging of anything that has a tag of its
   own, EXPLICIT tagging of anything, of any class but UNIVERSAL and any number, nested to any depth *)
Fixpoint frag (T: ty) : bool :=
  match T with
  | TBool | TInt | TEnum | TBits | TOcts | TNull | TOid | TReal | TAny => true
  | TStr n => latin1 n || ascii_str n
  | TSeqOf t | TSetOf t => frag t
  | TSeq fs => forallb (fun f => frag (snd f)) fs
                && (forallb (fun f => is_req (fst f)) fs || forallb (fun f => mapable (snd f)) fs)
                && forallb (fun idx => nodupb (flat_map okeys (ambiguous_run (skipn idx fs)))) (seq 0 (length fs))
  | TSet fs => forallb (fun f => frag (snd f) && mapable (snd f)) fs && nodupb (flat_map (fun f => okeys (snd f)) fs)
  | TChoice alts => forallb (fun a => frag a && mapable a) alts && nodupb (flat_map okeys alts)
  | TImp t x => non_univ t && headed x && frag x
  | TExp t x => non_univ t && frag x
  end.

(* the marked (class, number) pairs under which a REAL / an ASCII string can appear in an encoding of T *)
Fixpoint side_keys (T: ty) (e: option (tclass * N)) : list mkey :=
  match T with
  | TReal => [(KR, orkey e (Univ, 9))]
  | TAny => [(KN, (Univ, 0))]
  | TStr n => if ascii_str n then [(KA, orkey e (Univ, n))] else []
  | TImp t x => side_keys x (Some (orkey e (key t)))
  | TExp t x => side_keys x None
  | TSeqOf t | TSetOf t => side_keys t None
  | TSeq fs | TSet fs => flat_map (fun f => side_keys (snd f) None) fs
  | TChoice alts => flat_map (fun a => side_keys a None) alts
  | _ => []
  end.

Lemma frag_facts : forall T, frag T = true -> wf_tags T = true /\ impl_ok T = true.
Proof.
  induction T as [| | | | | | | | n|fs IH|fs IH|t IH|t IH|alts IH| |tg x IH|tg x IH] using ty_ind'; intros H;
    try (split; reflexivity).
  - cbn [frag] in H. apply andb_true_iff in H. destruct H as [Hn Hx]. apply andb_true_iff in Hn. destruct Hn as [Hn Hh].
    destruct (IH Hx) as [Hw Hb].
    cbn [wf_tags impl_ok]. unfold non_univ in Hn. rewrite Hn, Hw, Hh, Hb. split; reflexivity.
  - cbn [frag] in H. apply andb_true_iff in H. destruct H as [Hn Hx]. destruct (IH Hx) as [Hw Hb].
    cbn [wf_tags impl_ok]. unfold non_univ in Hn. rewrite Hn, Hw. split; [reflexivity|exact Hb].
Qed.

Lemma frag_headed T : frag T = true -> mapable T = true -> not_choice T -> headed T = true.
Proof.
  intros Hf Hm Hc. destruct T; try reflexivity; try contradiction; try discriminate Hm.
  cbn [frag] in Hf. apply andb_true_iff in Hf. destruct Hf as [Hf _]. apply andb_true_iff in Hf. destruct Hf as [_ Hh].
  exact Hh.
Qed.

Lemma frag_keys T : frag T = true -> keys (tagset_of' T) = kets T None.
Proof.
  intros Hf. destruct (frag_facts T Hf) as [Hw Hi]. destruct (keys_kets T Hw Hi) as (ts & Hts & Hk & _).
  rewrite (RoundTrip1.tagset_of'_ok T ts Hts). exact Hk.
Qed.

Lemma non_univ_cls t : non_univ t = true -> tcls t <> Univ.
Proof. unfold non_univ. destruct (tcls t); cbn; congruence. Qed.

Definition e_ok (e: option (tclass * N)) : Prop := match e with Some k => fst k <> Univ | None => True end.

Lemma interp_bool e n a : interp TBool e n = Some a ->
  exists c num o raw, n = Prim c num [o] raw /\ same_tag (orkey e (Univ, 1)) n = true /\ a = ABool (negb (N.eqb o 0)).
Proof.
  cbn [interp]. cbv zeta. destruct n as [c num contents raw|]; [|discriminate].
  destruct contents as [|o [|]]; try discriminate.
  change (match e with Some e0 => e0 | None => (Univ, 1) end) with (orkey e (Univ, 1)).
  destruct (same_tag (orkey e (Univ, 1)) (Prim c num [o] raw)) eqn:E; [|discriminate].
  intros H. exists c, num, o, raw. split; [reflexivity|]. split; [reflexivity|congruence].
Qed.

Lemma interp_int e n a : interp TInt e n = Some a ->
  exists c num o cs raw, n = Prim c num (o :: cs) raw /\ same_tag (orkey e (Univ, 2)) n = true /\ a = AInt (signed_value (o :: cs)).
Proof.
  cbn [interp]. cbv zeta. destruct n as [c num contents raw|]; [|discriminate].
  destruct contents as [|o cs]; try discriminate.
  change (match e with Some e0 => e0 | None => (Univ, 2) end) with (orkey e (Univ, 2)).
  destruct (same_tag (orkey e (Univ, 2)) (Prim c num (o :: cs) raw)) eqn:E; [|discriminate].
  intros H. exists c, num, o, cs, raw. split; [reflexivity|]. split; [reflexivity|congruence].
Qed.

Lemma interp_enum e n a : interp TEnum e n = Some a ->
  exists c num o cs raw, n = Prim c num (o :: cs) raw /\ same_tag (orkey e (Univ, 10)) n = true /\ a = AInt (signed_value (o :: cs)).
Proof.
  cbn [interp]. cbv zeta. destruct n as [c num contents raw|]; [|discriminate].
  destruct contents as [|o cs]; try discriminate.
  change (match e with Some e0 => e0 | None => (Univ, 10) end) with (orkey e (Univ, 10)).
  destruct (same_tag (orkey e (Univ, 10)) (Prim c num (o :: cs) raw)) eqn:E; [|discriminate].
  intros H. exists c, num, o, cs, raw. split; [reflexivity|]. split; [reflexivity|congruence].
Qed.

Lemma interp_null e n a : interp TNull e n = Some a ->
  exists c num raw, n = Prim c num [] raw /\ same_tag (orkey e (Univ, 5)) n = true /\ a = ANull.
Proof.
  cbn [interp]. cbv zeta. destruct n as [c num contents raw|]; [|discriminate].
  destruct contents as [|o cs]; try discriminate.
  change (match e with Some e0 => e0 | None => (Univ, 5) end) with (orkey e (Univ, 5)).
  destruct (same_tag (orkey e (Univ, 5)) (Prim c num [] raw)) eqn:E; [|discriminate].
  intros H. exists c, num, raw. split; [reflexivity|]. split; [reflexivity|congruence].
Qed.

Lemma interp_oid e n a : interp TOid e n = Some a ->
  exists c num cs raw arcs, n = Prim c num cs raw /\ same_tag (orkey e (Univ, 6)) n = true
                            /\ oid_value cs = Some arcs /\ a = AOid arcs.
Proof.
  cbn [interp]. cbv zeta. destruct n as [c num contents raw|]; [|discriminate].
  change (match e with Some e0 => e0 | None => (Univ, 6) end) with (orkey e (Univ, 6)).
  destruct (same_tag (orkey e (Univ, 6)) (Prim c num contents raw)) eqn:E; [|discriminate].
  destruct (oid_value contents) as [arcs|] eqn:Eo; [|discriminate]. cbn [opt_bind].
  intros H. exists c, num, contents, raw, arcs. split; [reflexivity|]. split; [reflexivity|]. split; [exact Eo|congruence].
Qed.

Definition as_univ (u: N) (n: node) : node :=
  match n with Prim _ _ c r => Prim Univ u c r | Cons _ _ i k r => Cons Univ u i k r end.

Lemma interp_bits e n a : interp TBits e n = Some a ->
  exists l bs, same_tag (orkey e (Univ, 3)) n = true
               /\ bit_segments (S (length (node_raw n))) (as_univ 3 n) = Some l
               /\ join_bit_segments l = Some bs /\ a = ABits bs.
Proof.
  cbn [interp]. cbv zeta.
  change (match e with Some e0 => e0 | None => (Univ, 3) end) with (orkey e (Univ, 3)).
  destruct (same_tag (orkey e (Univ, 3)) n) eqn:E; [|discriminate]. cbn [negb].
  change (match n with Prim _ _ c0 r0 => Prim Univ 3 c0 r0 | Cons _ _ i0 k0 r1 => Cons Univ 3 i0 k0 r1 end) with (as_univ 3 n).
  destruct (bit_segments (S (length (node_raw n))) (as_univ 3 n)) as [l|] eqn:El; [|discriminate]. cbn [opt_bind].
  destruct (join_bit_segments l) as [bs|] eqn:Ej; [|discriminate]. cbn [opt_bind].
  intros H. exists l, bs. split; [reflexivity|]. split; [reflexivity|]. split; [exact Ej|congruence].
Qed.

Lemma interp_octs e n a : interp TOcts e n = Some a ->
  exists bs, same_tag (orkey e (Univ, 4)) n = true
             /\ segments (S (length (node_raw n))) (as_univ 4 n) = Some bs /\ a = AOcts bs.
Proof.
  cbn [interp]. cbv zeta.
  change (match e with Some e0 => e0 | None => (Univ, 4) end) with (orkey e (Univ, 4)).
  destruct (same_tag (orkey e (Univ, 4)) n) eqn:E; [|discriminate]. cbn [negb].
  change (match n with Prim _ _ c0 r0 => Prim Univ 4 c0 r0 | Cons _ _ i0 k0 r1 => Cons Univ 4 i0 k0 r1 end) with (as_univ 4 n).
  destruct (segments (S (length (node_raw n))) (as_univ 4 n)) as [bs|] eqn:El; [|discriminate]. cbn [opt_bind].
  intros H. exists bs. split; [reflexivity|]. split; [reflexivity|congruence].
Qed.

Lemma interp_str u e n a : interp (TStr u) e n = Some a ->
  exists bs, same_tag (orkey e (Univ, u)) n = true
             /\ segments (S (length (node_raw n))) (as_univ 4 n) = Some bs /\ a = AOcts bs.
Proof.
  cbn [interp]. cbv zeta.
  change (match e with Some e0 => e0 | None => (Univ, u) end) with (orkey e (Univ, u)).
  destruct (same_tag (orkey e (Univ, u)) n) eqn:E; [|discriminate]. cbn [negb].
  change (match n with Prim _ _ c0 r0 => Prim Univ 4 c0 r0 | Cons _ _ i0 k0 r1 => Cons Univ 4 i0 k0 r1 end) with (as_univ 4 n).
  destruct (segments (S (length (node_raw n))) (as_univ 4 n)) as [bs|] eqn:El; [|discriminate]. cbn [opt_bind].
  intros H. exists bs. split; [reflexivity|]. split; [reflexivity|congruence].
Qed.

Lemma interp_imp t x e n : interp (TImp t x) e n = interp x (Some (orkey e (key t))) n.
Proof. cbn [interp]. destruct e; reflexivity. Qed.

Lemma interp_exp t x e n a : interp (TExp t x) e n = Some a ->
  exists c num i k raw, n = Cons c num i [k] raw /\ same_tag (orkey e (key t)) n = true /\ interp x None k = Some a.
Proof.
  cbn [interp]. destruct n as [|c num i kids raw]; [discriminate|].
  destruct kids as [|k [|]]; try discriminate.
  change (match e with Some e0 => e0 | None => (tcls t, tnum t) end) with (orkey e (key t)).
  destruct (same_tag (orkey e (key t)) (Cons c num i [k] raw)) eqn:E; [|discriminate].
  intros H. exists c, num, i, k, raw. split; [reflexivity|]. split; [reflexivity|exact H].
Qed.

Lemma interp_go_map t kids :
  (fix go (l: list node) := match l with [] => [] | k :: r => interp t None k :: go r end) kids = map (interp t None) kids.
Proof. induction kids as [|k r IH]; [reflexivity|]. cbn [map]. rewrite <- IH. reflexivity. Qed.

Lemma interp_seqof t e n a : interp (TSeqOf t) e n = Some a ->
  exists c num i kids raw l, n = Cons c num i kids raw /\ same_tag (orkey e (Univ, 16)) n = true
    /\ opt_all (map (interp t None) kids) = Some l /\ a = AList l.
Proof.
  cbn [interp]. cbv zeta. destruct n as [|c num i kids raw]; [discriminate|].
  change (match e with Some e0 => e0 | None => (Univ, 16) end) with (orkey e (Univ, 16)).
  destruct (same_tag (orkey e (Univ, 16)) (Cons c num i kids raw)) eqn:E; [|discriminate]. cbn [negb].
  rewrite interp_go_map.
  destruct (opt_all (map (interp t None) kids)) as [l|] eqn:El; [|discriminate]. cbn [opt_bind].
  intros H. exists c, num, i, kids, raw, l. split; [reflexivity|]. split; [reflexivity|]. split; [exact El|congruence].
Qed.

Lemma interp_setof t e n a : interp (TSetOf t) e n = Some a ->
  exists c num i kids raw l, n = Cons c num i kids raw /\ same_tag (orkey e (Univ, 17)) n = true
    /\ opt_all (map (interp t None) kids) = Some l /\ a = ABag l.
Proof.
  cbn [interp]. cbv zeta. destruct n as [|c num i kids raw]; [discriminate|].
  change (match e with Some e0 => e0 | None => (Univ, 17) end) with (orkey e (Univ, 17)).
  destruct (same_tag (orkey e (Univ, 17)) (Cons c num i kids raw)) eqn:E; [|discriminate]. cbn [negb].
  rewrite interp_go_map.
  destruct (opt_all (map (interp t None) kids)) as [l|] eqn:El; [|discriminate]. cbn [opt_bind].
  intros H. exists c, num, i, kids, raw, l. split; [reflexivity|]. split; [reflexivity|]. split; [exact El|congruence].
Qed.

(* ====================================================================== *)
(* 6b. tag maps: of a CHOICE, of the components of a SET, of a run of OPTIONAL components *)
(* ====================================================================== *)

Definition lk (ls: tagset) : tclass * N := last (keys ls) (Univ, 0).
Definition entries (fs: list ty) : list (tagset * ty) := flat_map (fun t => map (fun ls => (ls, t)) (leaves t)) fs.
Definition tm_entries (T: ty) : list (tagset * ty) :=
  match T with TChoice alts => entries alts | _ => [(tagset_of' T, T)] end.
(* the tagMap property of the type is just these entries: nothing overridden, postponed, defaulted *)
Definition tmok (T: ty) : Prop := tagmap_of T = mkTmap (tm_entries T) [] None false.

Lemma map_fst_entries fs : map fst (entries fs) = flat_map leaves fs.
Proof.
  unfold entries. induction fs as [|t fs IH]; [reflexivity|]. cbn [flat_map]. rewrite map_app, IH. f_equal.
  rewrite map_map. cbn [fst]. apply map_id.
Qed.

Lemma map_fst_tm_entries T : map fst (tm_entries T) = leaves T.
Proof. destruct T; try reflexivity. cbn [tm_entries leaves]. apply map_fst_entries. Qed.

Lemma NoDup_map_eq {A B} (g: A -> B) (l: list A) x y : NoDup (map g l) -> In x l -> In y l -> g x = g y -> x = y.
Proof.
  induction l as [|a l IH]; intros Hnd Hx Hy E; [contradiction|].
  cbn [map] in Hnd. inversion Hnd as [|? ? Hnin Hnd']; subst.
  destruct Hx as [->|Hx]; destruct Hy as [->|Hy]; try reflexivity.
  - exfalso. apply Hnin. rewrite E. apply in_map. exact Hy.
  - exfalso. apply Hnin. rewrite <- E. apply in_map. exact Hx.
  - apply IH; assumption.
Qed.

Lemma lk_keys a b : keys a = keys b -> lk a = lk b.
Proof. unfold lk. intros ->. reflexivity. Qed.

(* association lists keyed by tag sets with pairwise different outermost tags *)
Lemma assoc_nodup {X} : forall (E: list (tagset * X)) ls x ts, NoDup (map (fun e => lk (fst e)) E) ->
  In (ls, x) E -> keys ts = keys ls -> assoc tagset_eqb ts E = Some x.
Proof.
  induction E as [|[ls0 x0] E IH]; intros ls x ts Hnd Hin Hk; [contradiction|].
  cbn [assoc]. cbn [map fst] in Hnd. inversion Hnd as [|? ? Hnin Hnd']; subst.
  destruct (tagset_eqb ts ls0) eqn:Eq.
  - apply tagset_eqb_keys in Eq. destruct Hin as [Hin|Hin]; [congruence|].
    exfalso. apply Hnin. replace (lk ls0) with (lk ls) by (apply lk_keys; congruence).
    apply (in_map (fun e => lk (fst e)) E (ls, x) Hin).
  - destruct Hin as [Hin|Hin].
    + inversion Hin; subst. apply tagset_eqb_keys in Hk. rewrite Hk in Eq. discriminate Eq.
    + apply (IH ls x ts Hnd' Hin Hk).
Qed.

Lemma assoc_none {X} : forall (E: list (tagset * X)) ts, (forall e, In e E -> keys ts <> keys (fst e)) ->
  assoc tagset_eqb ts E = None.
Proof.
  induction E as [|[ls0 x0] E IH]; intros ts H; [reflexivity|]. cbn [assoc].
  destruct (tagset_eqb ts ls0) eqn:Eq.
  - apply tagset_eqb_keys in Eq. exfalso. apply (H (ls0, x0) (or_introl eq_refl) Eq).
  - apply IH. intros e He. apply H. right. exact He.
Qed.

Lemma filter_id {X} : forall (E: list (tagset * X)) ts, (forall e, In e E -> keys (fst e) <> keys ts) ->
  filter (fun e : tagset * X => negb (tagset_eqb (fst e) ts)) E = E.
Proof.
  induction E as [|[ls0 x0] E IH]; intros ts H; [reflexivity|]. cbn [filter fst].
  destruct (tagset_eqb ls0 ts) eqn:Eq.
  - apply tagset_eqb_keys in Eq. exfalso. apply (H (ls0, x0) (or_introl eq_refl) Eq).
  - cbn [negb]. f_equal. apply IH. intros e He. apply H. right. exact He.
Qed.

Lemma last_app_ne {A} (a b: list A) d : b <> [] -> last (a ++ b) d = last b d.
Proof.
  intros Hb. induction a as [|x a IH]; [reflexivity|]. cbn [app]. destruct (a ++ b) eqn:E.
  - apply app_eq_nil in E. destruct E as [_ E]. congruence.
  - exact IH.
Qed.

(* a key that is a proper outer part of an entry's key is not itself an entry's key *)
Lemma assoc_outer_none {X} (E: list (tagset * X)) ls x t acc pre : NoDup (map (fun e => lk (fst e)) E) ->
  In (ls, x) E -> keys ls = pre ++ keys (t :: acc) -> pre <> [] -> assoc tagset_eqb (t :: acc) E = None.
Proof.
  intros Hnd Hin Hk Hpre. apply assoc_none. intros e He Eq.
  assert (El: lk (fst e) = lk ls).
  { unfold lk. rewrite <- Eq, Hk. symmetry. apply last_app_ne. discriminate. }
  assert (Ee: e = (ls, x)) by (apply (NoDup_map_eq (fun e => lk (fst e)) E e (ls, x) Hnd He Hin El)).
  subst e. cbn [fst] in Eq. rewrite Hk in Eq. apply Hpre.
  apply (f_equal (@length _)) in Eq. rewrite app_length in Eq. destruct pre; [reflexivity|cbn [length] in Eq; lia].
Qed.

Lemma NoDup_app_l {A} (a b: list A) : NoDup (a ++ b) -> NoDup a.
Proof.
  induction a as [|x a IH]; intros H; [constructor|]. cbn [app] in H. inversion H as [|? ? Hn Hr]; subst.
  constructor; [intros Hi; apply Hn; apply in_or_app; left; exact Hi|apply IH; exact Hr].
Qed.

Lemma NoDup_app_disj {A} (a b: list A) : NoDup (a ++ b) -> forall x, In x a -> In x b -> False.
Proof.
  induction a as [|y a IH]; intros H x Ha Hb; [contradiction|]. cbn [app] in H. inversion H as [|? ? Hn Hr]; subst.
  destruct Ha as [->|Ha]; [apply Hn; apply in_or_app; right; exact Hb|apply (IH Hr x Ha Hb)].
Qed.

(* merging the tag maps of component types *)
Lemma fold_entries T : forall (kts: list (tagset * ty)) (P: list (tagset * ty)),
  NoDup (map lk (map fst P ++ map fst kts)) ->
  fold_left (fun p kt => filter (fun e : tagset * ty => negb (tagset_eqb (fst e) (fst kt))) p ++ [(fst kt, T)]) kts P
  = P ++ map (fun kt => (fst kt, T)) kts.
Proof.
  induction kts as [|kt kts IH]; intros P Hnd; [cbn; rewrite app_nil_r; reflexivity|].
  cbn [fold_left map]. rewrite (filter_id P (fst kt)).
  - rewrite (IH (P ++ [(fst kt, T)])).
    + rewrite <- app_assoc. reflexivity.
    + rewrite (map_app fst P). cbn [map fst]. rewrite <- app_assoc. exact Hnd.
  - intros e He Eq. cbn [map] in Hnd. rewrite map_app in Hnd. cbn [map] in Hnd.
    apply NoDup_remove_2 in Hnd. apply Hnd. apply in_or_app. left.
    replace (lk (fst kt)) with (lk (fst e)) by (apply lk_keys; exact Eq). apply in_map. apply in_map. exact He.
Qed.

Lemma dup_none (kts P: list (tagset * ty)) : NoDup (map lk (map fst P ++ map fst kts)) ->
  existsb (fun kt => match tm_find (fst kt) P with Some _ => true | None => false end) kts = false.
Proof.
  intros Hnd. destruct (existsb _ kts) eqn:E; [|reflexivity]. exfalso.
  apply existsb_exists in E. destruct E as (kt & Hkt & Hf).
  destruct (tm_find (fst kt) P) as [x|] eqn:Ef; [|discriminate Hf].
  unfold tm_find in Ef.
  assert (Hex: exists e, In e P /\ keys (fst kt) = keys (fst e)).
  { clear -Ef. induction P as [|[l0 x0] P IH]; [discriminate Ef|]. cbn [assoc] in Ef.
    destruct (tagset_eqb (fst kt) l0) eqn:Eq.
    - exists (l0, x0). split; [left; reflexivity|apply tagset_eqb_keys; exact Eq].
    - destruct (IH Ef) as (e & He & Hk). exists e. split; [right; exact He|exact Hk]. }
  destruct Hex as (e & He & Hk).
  rewrite map_app in Hnd. apply in_split in Hkt. destruct Hkt as (k1 & k2 & ->).
  rewrite !map_app in Hnd. cbn [map] in Hnd. rewrite app_assoc in Hnd. apply NoDup_remove_2 in Hnd. apply Hnd.
  apply in_or_app. left. apply in_or_app. left.
  replace (lk (fst kt)) with (lk (fst e)) by (apply lk_keys; symmetry; exact Hk). apply in_map. apply in_map. exact He.
Qed.

Lemma combine_maps_entries unique : forall fs done,
  (forall t, In t fs -> tmok t) -> NoDup (map lk (flat_map leaves (done ++ fs))) ->
  combine_maps unique (map (fun t => (tagmap_of t, t)) fs) (mkTmap (entries done) [] None false)
  = mkTmap (entries (done ++ fs)) [] None false.
Proof.
  induction fs as [|t fs IH]; intros done Hok Hnd.
  - rewrite app_nil_r. reflexivity.
  - cbn [map combine_maps]. rewrite (Hok t (or_introl eq_refl)).
    cbn [tm_present tm_skip tm_default tm_postponed app].
    assert (Hnd1: NoDup (map lk (map fst (entries done) ++ map fst (tm_entries t)))).
    { rewrite map_fst_entries, map_fst_tm_entries. rewrite flat_map_app in Hnd. cbn [flat_map] in Hnd.
      rewrite app_assoc, map_app in Hnd. apply NoDup_app_l in Hnd. exact Hnd. }
    rewrite (fold_entries t (tm_entries t) (entries done) Hnd1). rewrite (dup_none _ _ Hnd1).
    rewrite !orb_false_r, andb_false_r. cbn [orb].
    replace (entries done ++ map (fun kt => (fst kt, t)) (tm_entries t)) with (entries (done ++ [t])).
    + rewrite (IH (done ++ [t])); rewrite <- ?app_assoc; [reflexivity| |exact Hnd].
      intros t' Ht'. apply Hok. right. exact Ht'.
    + unfold entries. rewrite flat_map_app. cbn [flat_map]. rewrite app_nil_r. f_equal.
      rewrite <- (map_fst_tm_entries t). rewrite map_map. reflexivity.
Qed.

Lemma fields_tagmap_entries unique fs : (forall t, In t fs -> tmok t) -> NoDup (map lk (flat_map leaves fs)) ->
  fields_tagmap unique fs = mkTmap (entries fs) [] None false.
Proof. intros Hok Hnd. unfold fields_tagmap, empty_tmap. apply (combine_maps_entries unique fs [] Hok Hnd). Qed.

Lemma choice_go_map alts :
  (fix go (l: list ty) : list (tmap * ty) := match l with [] => [] | a :: r => (tagmap_of a, a) :: go r end) alts
  = map (fun t => (tagmap_of t, t)) alts.
Proof. induction alts as [|a r IH]; [reflexivity|]. cbn [map]. rewrite <- IH. reflexivity. Qed.

Lemma tmok_choice alts : (forall t, In t alts -> tmok t) -> NoDup (map lk (flat_map leaves alts)) -> tmok (TChoice alts).
Proof.
  intros Hok Hnd. unfold tmok. cbn [tagmap_of tm_entries]. rewrite choice_go_map.
  apply (combine_maps_entries true alts [] Hok Hnd).
Qed.

(* the reference's first_tags are the outermost keys of the leaves *)
Lemma kets_some_last : forall T k, exists pre, kets T (Some k) = pre ++ [k].
Proof.
  induction T as [| | | | | | | | n|fs IH|fs IH|t IH|t IH|alts IH| |tg x IH|tg x IH] using ty_ind'; intros k;
    try (exists []; reflexivity).
  - cbn [kets orkey]. apply IH.
  - cbn [kets orkey]. exists (kets x None). reflexivity.
Qed.

Lemma nodupb_NoDup : forall l, nodupb l = true -> NoDup l.
Proof.
  induction l as [|x r IH]; intros H; [constructor|].
  cbn [nodupb] in H. apply andb_true_iff in H. destruct H as [H1 H2]. constructor; [|apply IH; exact H2].
  intros Hin. apply negb_true_iff in H1. assert (E: existsb (tag_pair_eqb x) r = true); [|congruence].
  apply existsb_exists. exists x. split; [exact Hin|]. unfold tag_pair_eqb. rewrite !N.eqb_refl. reflexivity.
Qed.

Lemma choice_first_tags alts :
  first_tags (TChoice alts) =
  (fix go (alts: list ty) : option (list (tclass * N)) :=
     match alts with
     | [] => Some []
     | a :: r => match first_tags a, go r with Some x, Some y => Some (x ++ y) | _, _ => None end
     end) alts.
Proof. reflexivity. Qed.

Lemma ft_leaves : forall T, frag T = true -> mapable T = true -> first_tags T = Some (map lk (leaves T)).
Proof.
  induction T as [| | | | | | | | n|fs IH|fs IH|t IH|t IH|alts IH| |tg x IH|tg x IH] using ty_ind'; intros Hf Hm;
    try reflexivity; try discriminate Hm.
  - (* CHOICE *)
    cbn [frag] in Hf. apply andb_true_iff in Hf. destruct Hf as [Hf _].
    rewrite choice_first_tags. cbn [leaves]. clear Hm. revert Hf.
    induction IH as [|a alts Ha _ IHa]; intros Hf; [reflexivity|].
    cbn [forallb] in Hf. apply andb_true_iff in Hf. destruct Hf as [H1 H2]. apply andb_true_iff in H1. destruct H1 as [H1a H1b].
    rewrite (Ha H1a H1b). cbn [flat_map]. rewrite (IHa H2). rewrite map_app. reflexivity.
  - (* TImp *)
    cbn [first_tags leaves]. f_equal. cbn [map]. f_equal. unfold lk. rewrite (frag_keys _ Hf). cbn [kets orkey].
    destruct (kets_some_last x (key tg)) as (pre & ->). rewrite last_app_ne by discriminate. reflexivity.
  - (* TExp *)
    cbn [first_tags leaves]. f_equal. cbn [map]. f_equal. unfold lk. rewrite (frag_keys _ Hf). cbn [kets orkey].
    rewrite last_app_ne by discriminate. reflexivity.
Qed.

Lemma okeys_leaves T : frag T = true -> mapable T = true -> okeys T = map lk (leaves T).
Proof. intros Hf Hm. unfold okeys. rewrite (ft_leaves T Hf Hm). reflexivity. Qed.

Lemma nodup_leaves : forall fs, forallb (fun t => frag t && mapable t) fs = true -> nodupb (flat_map okeys fs) = true ->
  NoDup (map lk (flat_map leaves fs)).
Proof.
  intros fs Hf Hnd. apply nodupb_NoDup in Hnd.
  replace (map lk (flat_map leaves fs)) with (flat_map okeys fs); [exact Hnd|]. clear Hnd.
  induction fs as [|t fs IH]; [reflexivity|].
  cbn [forallb] in Hf. apply andb_true_iff in Hf. destruct Hf as [H1 H2]. apply andb_true_iff in H1. destruct H1 as [Ha Hb].
  cbn [flat_map]. rewrite map_app, (okeys_leaves t Ha Hb), (IH H2). reflexivity.
Qed.

(* every type of the fragment that can go into a tag map has the expected tagMap *)
Lemma tmok_frag : forall T, frag T = true -> mapable T = true -> tmok T /\ NoDup (map lk (leaves T)).
Proof.
  induction T as [| | | | | | | | n|fs IH|fs IH|t IH|t IH|alts IH| |tg x IH|tg x IH] using ty_ind'; intros Hf Hm;
    try discriminate Hm; try (split; [reflexivity|repeat constructor; intros []]).
  cbn [frag] in Hf. apply andb_true_iff in Hf. destruct Hf as [Hf Hnd].
  pose proof (nodup_leaves alts Hf Hnd) as HND. split; [|exact HND].
  apply tmok_choice; [|exact HND].
  intros t Ht. rewrite Forall_forall in IH. rewrite forallb_forall in Hf. specialize (Hf t Ht).
  apply andb_true_iff in Hf. destruct Hf as [Ha Hb]. apply (IH t Ht Ha Hb).
Qed.

Lemma leaves_not_choice T : not_choice T -> leaves T = [tagset_of' T].
Proof. destruct T; intros H; try reflexivity; contradiction. Qed.

Lemma leaves_nonempty : forall T, frag T = true -> mapable T = true -> Forall (fun ls => ls <> []) (leaves T).
Proof.
  induction T as [| | | | | | | | n|fs IH|fs IH|t IH|t IH|alts IH| |tg x IH|tg x IH] using ty_ind'; intros Hf Hm;
    try discriminate Hm; try (repeat constructor; discriminate).
  - cbn [frag] in Hf. apply andb_true_iff in Hf. destruct Hf as [Hf _]. cbn [leaves].
    apply Forall_forall. intros ls Hls. apply in_flat_map in Hls. destruct Hls as (a & Ha & Hls).
    rewrite Forall_forall in IH. rewrite forallb_forall in Hf. specialize (Hf a Ha).
    apply andb_true_iff in Hf. destruct Hf as [H1 H2]. specialize (IH a Ha H1 H2). rewrite Forall_forall in IH. apply (IH ls Hls).
  - constructor; [|constructor]. intros E. cbn [leaves] in E.
    pose proof (frag_keys _ Hf) as Hk. rewrite E in Hk. cbn [kets orkey] in Hk.
    destruct (kets_some_last x (key tg)) as (pre & Ep). rewrite Ep in Hk. destruct pre; discriminate Hk.
  - constructor; [|constructor]. intros E. cbn [leaves] in E.
    pose proof (frag_keys _ Hf) as Hk. rewrite E in Hk. cbn [kets orkey] in Hk. destruct (kets x None); discriminate Hk.
Qed.

(* ---------- the specs ---------- *)

Lemma in_entries fs T0 ls : In T0 fs -> In ls (leaves T0) -> In (ls, T0) (entries fs).
Proof. intros H1 H2. unfold entries. apply in_flat_map. exists T0. split; [exact H1|]. apply in_map_iff. exists ls. split; [reflexivity|exact H2]. Qed.

Lemma keys_in_leaves ts T0 : In (keys ts) (map keys (leaves T0)) -> exists ls, In ls (leaves T0) /\ keys ts = keys ls.
Proof. intros H. apply in_map_iff in H. destruct H as (ls & E & Hl). exists ls. split; [exact Hl|symmetry; exact E]. Qed.

(* a type as the spec *)
Lemma sp_ok_sty T0 : tmok T0 -> NoDup (map lk (leaves T0)) -> sp_ok (STy T0) T0 (DV T0) 0.
Proof.
  intros Htm Hnd.
  assert (HndE: NoDup (map (fun e : tagset * ty => lk (fst e)) (tm_entries T0))).
  { rewrite <- (map_map fst lk), map_fst_tm_entries. exact Hnd. }
  split.
  - intros f ts len cd fl body v Hin Hby _ _ Hlen Hval. rewrite Nat.add_0_r.
    destruct (keys_in_leaves _ _ Hin) as (ls & Hls & Hk).
    assert (Hex: exists x, In (ls, x) (tm_entries T0)).
    { rewrite <- map_fst_tm_entries in Hls. apply in_map_iff in Hls. destruct Hls as ([l0 x0] & E & Hi). cbn in E. subst l0. exists x0. exact Hi. }
    destruct Hex as (x & Hx).
    assert (Hd: dispatch BER (dec_call BER f) f (STy T0) ts len false = disp_value (dec_call BER f) f cd fl T0 ts len false).
    { unfold dispatch, tm_contains. rewrite Htm. cbn [tm_present tm_default tm_postponed]. unfold tm_find.
      rewrite (assoc_nodup _ ls x ts HndE Hx Hk). rewrite orb_true_r. rewrite Hby. destruct len; reflexivity. }
    rewrite Hd. apply disp_value_consumes; assumption.
  - intros rec f t acc len ls pre Hls Hk Hpre Hcon Hcls.
    assert (Hex: exists x, In (ls, x) (tm_entries T0)).
    { rewrite <- map_fst_tm_entries in Hls. apply in_map_iff in Hls. destruct Hls as ([l0 x0] & E & Hi). cbn in E. subst l0. exists x0. exact Hi. }
    destruct Hex as (x & Hx).
    assert (Hmis: tagset_eqb (t :: acc) (tagset_of' T0) = false).
    { destruct (tagset_eqb (t :: acc) (tagset_of' T0)) eqn:E; [|reflexivity]. exfalso. apply tagset_eqb_keys in E.
      destruct T0; try (cbn [leaves] in Hls; destruct Hls as [<-|[]]; rewrite Hk in E; apply Hpre;
                        apply (f_equal (@length _)) in E; rewrite app_length in E; destruct pre; [reflexivity|cbn [length] in E; lia]).
      cbn in E. discriminate E. }
    unfold dispatch, tm_contains. rewrite Hmis, Htm. cbn [tm_present tm_default tm_postponed orb]. unfold tm_find.
    rewrite (assoc_outer_none _ ls x t acc pre HndE Hx Hk Hpre). rewrite Hcon. cbn [andb].
    destruct (tcls t); try congruence; destruct len; reflexivity.
  - intros v. exact I.
  - intros ->. repeat split.
Qed.

Lemma tmok_not_any : ~ tmok TAny.
Proof. unfold tmok. cbn. intros H. discriminate H. Qed.

Lemma sp_ok_sty_any : sp_ok (STy TAny) TAny (DV TAny) 0.
Proof.
  split.
  - intros f ts len cd fl body v Hin Hby _ _ Hlen Hval. rewrite Nat.add_0_r.
    cbn [leaves map] in Hin. destruct Hin as [Hin|[]]. destruct ts; [|discriminate Hin].
    assert (Hd: dispatch BER (dec_call BER f) f (STy TAny) [] len false = disp_value (dec_call BER f) f cd fl TAny [] len false).
    { unfold dispatch. change (tagset_eqb [] (tagset_of' TAny)) with true. cbn [orb]. change (tm_postponed (tagmap_of TAny)) with false.
      cbv iota. rewrite Hby. destruct len; reflexivity. }
    rewrite Hd. apply disp_value_consumes; assumption.
  - intros rec f t acc len ls pre Hls Hk. cbn [leaves] in Hls. destruct Hls as [<-|[]]. destruct pre; discriminate Hk.
  - intros v. exact I.
  - intros _. repeat split.
Qed.

(* a tag map of components as the spec: resolves to the component whose tags are read *)
Lemma sp_ok_map unique fs T0 : (forall t, In t fs -> tmok t) -> NoDup (map lk (flat_map leaves fs)) -> In T0 fs ->
  sp_ok (SMap (fields_tagmap unique fs)) T0 (DV T0) 0.
Proof.
  intros Hok Hnd Hin. rewrite (fields_tagmap_entries unique fs Hok Hnd).
  assert (HndE: NoDup (map (fun e : tagset * ty => lk (fst e)) (entries fs))).
  { rewrite <- (map_map fst lk), map_fst_entries. exact Hnd. }
  split.
  - intros f ts len cd fl body v Hi Hby _ _ Hlen Hval. rewrite Nat.add_0_r.
    destruct (keys_in_leaves _ _ Hi) as (ls & Hls & Hk).
    assert (Hd: dispatch BER (dec_call BER f) f (SMap (mkTmap (entries fs) [] None false)) ts len false
                = disp_value (dec_call BER f) f cd fl T0 ts len false).
    { unfold dispatch, tm_get. cbn [tm_postponed tm_present tm_default]. unfold tm_find.
      rewrite (assoc_nodup _ ls T0 ts HndE (in_entries fs T0 ls Hin Hls) Hk). cbn [lift pbind]. rewrite Hby. destruct len; reflexivity. }
    rewrite Hd. apply disp_value_consumes; assumption.
  - intros rec f t acc len ls pre Hls Hk Hpre Hcon Hcls.
    unfold dispatch, tm_get. cbn [tm_postponed tm_present tm_default]. unfold tm_find.
    rewrite (assoc_outer_none _ ls T0 t acc pre HndE (in_entries fs T0 ls Hin Hls) Hk Hpre).
    cbn [lift pbind]. rewrite Hcon. cbn [andb]. destruct (tcls t); try congruence; destruct len; reflexivity.
  - intros v. exact I.
  - intros ->. exfalso. apply tmok_not_any. apply (Hok TAny Hin).
Qed.

(* positions by type *)
Fixpoint numbered (i: nat) (fs: list ty) : list (tagset * nat) :=
  match fs with [] => [] | t :: r => map (fun ls => (ls, i)) (leaves t) ++ numbered (S i) r end.

Lemma numbered_app : forall a b i, numbered i (a ++ b) = numbered i a ++ numbered (i + length a) b.
Proof.
  induction a as [|t a IH]; intros b i; [cbn; rewrite Nat.add_0_r; reflexivity|].
  cbn [app numbered length]. rewrite IH, <- app_assoc. replace (S i + length a)%nat with (i + S (length a))%nat by lia. reflexivity.
Qed.

Lemma map_fst_numbered : forall fs i, map fst (numbered i fs) = flat_map leaves fs.
Proof.
  induction fs as [|t fs IH]; intros i; [reflexivity|]. cbn [numbered flat_map]. rewrite map_app, IH. f_equal.
  rewrite map_map. cbn [fst]. apply map_id.
Qed.

Lemma in_numbered : forall fs i j T0 ls, nth_error fs j = Some T0 -> In ls (leaves T0) -> In (ls, (i + j)%nat) (numbered i fs).
Proof.
  induction fs as [|t fs IH]; intros i j T0 ls Hn Hl; [destruct j; discriminate Hn|].
  cbn [numbered]. apply in_or_app. destruct j as [|j].
  - cbn in Hn. inversion Hn; subst. left. rewrite Nat.add_0_r. apply in_map_iff. exists ls. split; [reflexivity|exact Hl].
  - right. cbn [nth_error] in Hn. replace (i + S j)%nat with (S i + j)%nat by lia. apply (IH (S i) j T0 ls Hn Hl).
Qed.

Lemma tag_to_pos_numbered : forall fs done,
  (forall t, In t fs -> tmok t) -> NoDup (map lk (flat_map leaves (done ++ fs))) ->
  tag_to_pos fs (length done) (numbered 0 done) = Some (numbered 0 (done ++ fs)).
Proof.
  induction fs as [|t fs IH]; intros done Hok Hnd.
  - rewrite app_nil_r. reflexivity.
  - cbn [tag_to_pos]. rewrite (Hok t (or_introl eq_refl)). cbn [tm_postponed tm_present].
    rewrite map_fst_tm_entries.
    assert (Hno: existsb (fun k => match assoc tagset_eqb k (numbered 0 done) with Some _ => true | None => false end) (leaves t) = false).
    { destruct (existsb _ (leaves t)) eqn:E; [|reflexivity]. exfalso. apply existsb_exists in E. destruct E as (ls & Hls & Hf).
      rewrite (assoc_none (numbered 0 done) ls) in Hf; [discriminate Hf|].
      intros e He Eq. rewrite flat_map_app in Hnd. cbn [flat_map] in Hnd. rewrite !map_app in Hnd.
      rewrite app_assoc in Hnd. apply NoDup_app_l in Hnd.
      apply (NoDup_app_disj _ _ Hnd (lk ls)); [|apply in_map; exact Hls].
      replace (lk ls) with (lk (fst e)) by (apply lk_keys; symmetry; exact Eq).
      rewrite <- (map_fst_numbered done 0). apply in_map. apply in_map. exact He. }
    rewrite Hno.
    replace (numbered 0 done ++ map (fun k => (k, length done)) (leaves t)) with (numbered 0 (done ++ [t]))
      by (rewrite numbered_app; cbn [numbered Nat.add]; rewrite app_nil_r; reflexivity).
    replace (S (length done)) with (length (done ++ [t])) by (rewrite app_length; cbn [length]; lia).
    rewrite (IH (done ++ [t])); rewrite <- ?app_assoc; [reflexivity| |exact Hnd].
    intros t' Ht'. apply Hok. right. exact Ht'.
Qed.

Lemma position_leaf fs T0 j ls : (forall t, In t fs -> tmok t) -> NoDup (map lk (flat_map leaves fs)) ->
  nth_error fs j = Some T0 -> In ls (leaves T0) -> position_by_type fs ls = Ok j.
Proof.
  intros Hok Hnd Hn Hls. unfold position_by_type.
  change (tag_to_pos fs 0 []) with (tag_to_pos fs (length (@nil ty)) (numbered 0 [])).
  rewrite (tag_to_pos_numbered fs [] Hok Hnd). cbn [app].
  rewrite (assoc_nodup (numbered 0 fs) ls j ls); [reflexivity| |apply (in_numbered fs 0 j T0 ls Hn Hls)|reflexivity].
  rewrite <- (map_map fst lk), map_fst_numbered. exact Hnd.
Qed.

(* ---------- a spec that resolves to an untagged CHOICE resolves to its alternatives ---------- *)

Lemma consumes_mark (k: proc dval) b v : consumes k b v -> consumes (Mark k) b v.
Proof.
  intros H s tl Hav. cbn [resume]. destruct (H (setmark s (pos s)) tl Hav) as (s' & Hr & Hp & Ha & Hc).
  exists s'. repeat split; assumption.
Qed.

Lemma consumes_bind_pure (p: proc dval) (k: dval -> proc dval) b v1 v2 :
  consumes p b v1 -> k v1 = Ret v2 -> consumes (pbind p k) b v2.
Proof.
  intros H Hk s tl Hav. destruct (H s tl Hav) as (s' & Hr & Hp & Ha & Hc).
  rewrite (resume_pbind_done _ _ _ _ _ Hr), Hk. cbn [resume]. exists s'. repeat split; assumption.
Qed.

Lemma sp_ok_alt sp alts W d j a :
  sp_ok sp (TChoice alts) W d -> nth_error alts j = Some a ->
  (forall t, In t alts -> tmok t) -> NoDup (map lk (flat_map leaves alts)) -> Forall (fun ls => ls <> []) (leaves a) ->
  sp_ok sp a (fun v => W (VChoice j v)) (S d).
Proof.
  intros Hsp Hn Hok Hnd Hne. pose proof (nth_error_In _ _ Hn) as Hin.
  pose proof (sp_ok_map true alts a Hok Hnd Hin) as Hmap.
  split.
  - intros f ts len cd fl body v Hi Hby Hets Hcd Hlen Hval.
    replace (f + S d)%nat with (S f + d)%nat by lia.
    destruct (keys_in_leaves _ _ Hi) as (ls & Hls & Hk).
    assert (Hts: tagset_eqb [] ts = false).
    { destruct ts; [|reflexivity]. rewrite Forall_forall in Hne. specialize (Hne ls Hls). destruct ls; [congruence|discriminate Hk]. }
    apply (so_match sp (TChoice alts) W d Hsp (S f) ts len DcChoice (mkDecFlags true (Some KChoice)) body (VChoice j v)).
    + cbn [leaves]. apply in_map_iff. exists ls. split; [symmetry; exact Hk|]. apply in_flat_map. exists a. split; assumption.
    + reflexivity.
    + apply (ets_choice alts j a v Hn Hets).
    + cbn [cdv]. rewrite (nth_error_nth alts j TNull Hn). lia.
    + exact Hlen.
    + cbn [dec_value base_of]. unfold dec_choice. change (tagset_of' (TChoice alts)) with (@nil tag). rewrite Hts.
      assert (Hinner: forall len', len' = len ->
                consumes (dec_call BER (S f) (SMap (fields_tagmap true alts)) ts (Some len') false false) body (DV a v)).
      { intros len' ->. cbn [dec_call]. unfold dec_body. cbn [andb].
        pose proof (so_match _ a (DV a) 0%nat Hmap f ts len cd fl body v Hi Hby Hets Hcd Hlen Hval) as H0.
        rewrite Nat.add_0_r in H0. exact H0. }
      assert (Hplace: choice_place (S f) (TChoice alts) alts (DV a v) = Ret (DV (TChoice alts) (VChoice j v))).
      { unfold choice_place.
        rewrite (position_leaf alts a j (effective_tagset (S (S f)) a v) Hok Hnd Hn); [reflexivity|].
        apply Hets. lia. }
      destruct len as [l|].
      * apply (consumes_bind_pure _ _ body (DV a v)); [apply Hinner; reflexivity|exact Hplace].
      * cbn [choice_loop]. apply (consumes_bind_pure _ _ body (DV a v)); [apply Hinner; reflexivity|].
        rewrite Hplace. reflexivity.
  - intros rec f t acc len ls pre Hls Hk Hpre Hcon Hcls.
    apply (so_explicit sp (TChoice alts) W d Hsp rec f t acc len ls pre); try assumption.
    cbn [leaves]. apply in_flat_map. exists a. split; assumption.
  - intros v. apply (so_dv sp _ W d Hsp).
  - intros ->. exfalso. apply tmok_not_any. apply (Hok TAny Hin).
Qed.

(* a type of the fragment as the spec *)
Lemma sp_sty t : frag t = true -> sp_ok (STy t) t (DV t) 0.
Proof.
  intros Hf. destruct (mapable t) eqn:Hm.
  - destruct (tmok_frag t Hf Hm) as [H1 H2]. apply (sp_ok_sty t H1 H2).
  - destruct t; try discriminate Hm. apply sp_ok_sty_any.
Qed.



(* ====================================================================== *)
(* 7. one item of each base type                                            *)
(* ====================================================================== *)

Lemma by_type_base' T : by_type BER T = by_type BER (base_of T).
Proof. apply RoundTrip1.by_type_base. Qed.

(* the tags read complete the tag set: hand over to the value decoder of the base type *)
Lemma base_item : forall sp T0 W d acc e u n f allow cd fl v,
  sp_ok sp T0 W d -> by_type BER (base_of T0) = Some (cd, fl) ->
  keys (tagset_of' T0) = [orkey e u] ++ keys acc -> same_tag (orkey e u) n = true ->
  nok f n -> (allow = true -> eoc_start (node_raw n) = false) ->
  consumes (dec_value (dec_call BER f) f cd fl (Some T0) (node_wire n :: acc) (node_len n) false) (node_body n) (DV T0 v) ->
  consumes (dec_call BER (S (f + d)) sp acc None allow false) (node_raw n) (W v).
Proof.
  intros sp T0 W d acc e u n f allow cd fl v Hsp Hby Hkeys Hsame (Hsh & Ho & Hfit) Heoc Hval.
  assert (Hnc: not_choice T0) by (destruct T0; try exact I; discriminate Hkeys).
  destruct (ets_plain T0 v Hnc) as [Hets Hcd].
  apply (item_of_value_sp f sp T0 W d acc n allow v cd fl Hsh Hfit Heoc Hsp).
  - rewrite (leaves_not_choice T0 Hnc). left. cbn [keys map]. fold (keys acc). rewrite (same_tag_key _ _ Hsame), Hkeys. reflexivity.
  - rewrite by_type_base'. exact Hby.
  - exact Hets.
  - rewrite Hcd. lia.
  - exact Hval.
Qed.

Lemma octs_body n : shape n -> octs (node_raw n) -> octs (node_body n).
Proof.
  intros Hsh Ho. destruct (shape_split n Hsh) as (ib & lb & _ & _ & E). rewrite E in Ho. apply octs_app in Ho. tauto.
Qed.

Lemma abs_base T v : abs T v = abs (base_of T) v. Proof. apply abs_wrappers. Qed.

(* what the induction over the type establishes: T is the part of the guiding type T0 still to be
   matched against node n, acc the tags read at the EXPLICIT levels above, e the (class, number) an
   IMPLICIT tag above substitutes for T's own outermost tag;
   sp: the spec in force, which resolves to T0 (sp_ok), wrapping T0's value by W and costing d levels of
   fuel; h: a bound on the octets of n; f: the fuel left for the value decoder *)
(* where we stand: e legitimate; a type without a tag of its own (CHOICE, ANY) is only met as the whole T0 *)
Definition pos_ok (T T0: ty) (acc: tagset) (e: option (tclass * N)) : Prop :=
  e_ok e /\ (headed T = false -> T0 = T /\ acc = []).

Definition item_ok0 (T: ty) : Prop := forall sp T0 W d acc e n a h f allow L,
  sp_ok sp T0 W d -> base_of T0 = base_of T ->
  keys (tagset_of' T0) = kets T e ++ keys acc -> pos_ok T T0 acc e ->
  nok h n -> (h + ty_depth T <= f)%nat -> (allow = true -> eoc_start (node_raw n) = false) ->
  safe L n = true -> (forall k, In k (side_keys T e) -> memk k L = true) ->
  interp T e n = Some a ->
  exists v, consumes (dec_call BER (S (f + d)) sp acc None allow false) (node_raw n) (W v) /\ abs T v = a.

(* the same, and the effective tag set of the value is one of T0's (needed where values are placed by type) *)
Definition item_ok (T: ty) : Prop := forall sp T0 W d acc e n a h f allow L,
  sp_ok sp T0 W d -> base_of T0 = base_of T ->
  keys (tagset_of' T0) = kets T e ++ keys acc -> pos_ok T T0 acc e ->
  nok h n -> (h + ty_depth T <= f)%nat -> (allow = true -> eoc_start (node_raw n) = false) ->
  safe L n = true -> (forall k, In k (side_keys T e) -> memk k L = true) ->
  interp T e n = Some a ->
  exists v, consumes (dec_call BER (S (f + d)) sp acc None allow false) (node_raw n) (W v) /\ abs T v = a
            /\ ets_ok T0 v /\ (cdv T0 v <= ty_depth T0)%nat.

Lemma item_up T : (forall e, kets T e <> []) -> item_ok0 T -> item_ok T.
Proof.
  intros Hne H sp T0 W d acc e n a h f allow L Hsp Hbase Hkeys He Hokh Hfuel Heoc Hsafe HL Hint.
  destruct (H sp T0 W d acc e n a h f allow L Hsp Hbase Hkeys He Hokh Hfuel Heoc Hsafe HL Hint) as (v & Hc & Ha).
  assert (Hnc: not_choice T0).
  { destruct T0; try exact I. cbn in Hkeys. specialize (Hne e). destruct (kets T e); [congruence|discriminate Hkeys]. }
  destruct (ets_plain T0 v Hnc) as [H1 H2]. exists v. split; [exact Hc|]. split; [exact Ha|]. split; [exact H1|rewrite H2; lia].
Qed.

(* one member of a constructed node: decoded under a spec of its own *)
Lemma kid_item t sp (i: bool) h' f' L k a : item_ok t -> frag t = true -> sp_ok sp t (DV t) 0 ->
  (forall k0, In k0 (side_keys t None) -> memk k0 L = true) ->
  nok h' k -> (h' + ty_depth t <= S f')%nat -> (i = true -> eoc_start (node_raw k) = false) -> safe L k = true ->
  interp t None k = Some a ->
  exists v, consumes (dec_call BER (S (S f')) sp [] None i false) (node_raw k) (DV t v) /\ abs t v = a
            /\ ets_ok t v /\ (cdv t v <= ty_depth t)%nat.
Proof.
  intros IH Hfr Hsp HL Hnk Hfu Hke Hs Hint.
  assert (Hkeys: keys (tagset_of' t) = kets t None ++ keys []) by (rewrite (frag_keys t Hfr), app_nil_r; reflexivity).
  destruct (IH sp t (DV t) 0%nat [] None k a h' (S f') i L Hsp eq_refl Hkeys (conj I (fun _ => conj eq_refl eq_refl)) Hnk Hfu Hke Hs HL Hint) as (v & Hc & Ha & He).
  rewrite Nat.add_0_r in Hc. exists v. split; [exact Hc|]. split; [exact Ha|exact He].
Qed.

Lemma item_bool : item_ok0 TBool.
Proof.
  intros sp T0 W d acc e n a h f allow L Hsp Hbase Hkeys He Hokh Hfuel Heoc Hsafe HL Hint.
  pose proof (nok_mono h f n Hokh ltac:(lia)) as Hok.
  destruct (interp_bool _ _ _ Hint) as (c & num & o & raw & -> & Hsame & ->).
  exists (VBool (negb (Z.eqb (from_bytes_signed [o]) 0))). split.
  - apply (base_item sp T0 W d acc e (Univ, 1) _ f allow DcBoolBer (mkDecFlags true (Some KBool)) _ Hsp); try assumption.
    + rewrite Hbase. reflexivity.
    + cbn [dec_value node_len node_body node_wire]. destruct Hok as (Hsh & Ho & Hfit).
      apply consumes_boolean; [reflexivity|apply (fits_of_body f _ Hfit Hsh)|exact Hbase].
  - cbn [abs]. f_equal. apply bool_leaf. destruct Hok as (Hsh & Ho & _).
    pose proof (octs_body _ Hsh Ho) as Hb. cbn [node_body] in Hb. apply octs_cons in Hb. tauto.
Qed.

Lemma item_int : item_ok0 TInt.
Proof.
  intros sp T0 W d acc e n a h f allow L Hsp Hbase Hkeys He Hokh Hfuel Heoc Hsafe HL Hint.
  pose proof (nok_mono h f n Hokh ltac:(lia)) as Hok.
  destruct (interp_int _ _ _ Hint) as (c & num & o & cs & raw & -> & Hsame & ->).
  exists (VInt (from_bytes_signed (o :: cs))). destruct Hok as (Hsh & Ho & Hfit). split.
  - apply (base_item sp T0 W d acc e (Univ, 2) _ f allow DcInt (mkDecFlags true (Some KInt)) _ Hsp); try assumption.
    + rewrite Hbase. reflexivity.
    + split; [exact Hsh|split; assumption].
    + cbn [dec_value node_len node_body node_wire df_proto].
      apply consumes_integer; [reflexivity|apply (fits_of_body f _ Hfit Hsh)|rewrite Hbase; exact I].
  - cbn [abs]. f_equal. symmetry. apply signed_value_is_from_bytes. apply octs_forallb. apply (octs_body _ Hsh Ho).
Qed.

Lemma item_enum : item_ok0 TEnum.
Proof.
  intros sp T0 W d acc e n a h f allow L Hsp Hbase Hkeys He Hokh Hfuel Heoc Hsafe HL Hint.
  pose proof (nok_mono h f n Hokh ltac:(lia)) as Hok.
  destruct (interp_enum _ _ _ Hint) as (c & num & o & cs & raw & -> & Hsame & ->).
  exists (VInt (from_bytes_signed (o :: cs))). destruct Hok as (Hsh & Ho & Hfit). split.
  - apply (base_item sp T0 W d acc e (Univ, 10) _ f allow DcInt (mkDecFlags true (Some KInt)) _ Hsp); try assumption.
    + rewrite Hbase. reflexivity.
    + split; [exact Hsh|split; assumption].
    + cbn [dec_value node_len node_body node_wire df_proto].
      apply consumes_integer; [reflexivity|apply (fits_of_body f _ Hfit Hsh)|rewrite Hbase; exact I].
  - cbn [abs]. f_equal. symmetry. apply signed_value_is_from_bytes. apply octs_forallb. apply (octs_body _ Hsh Ho).
Qed.

Lemma item_null : item_ok0 TNull.
Proof.
  intros sp T0 W d acc e n a h f allow L Hsp Hbase Hkeys He Hokh Hfuel Heoc Hsafe HL Hint.
  pose proof (nok_mono h f n Hokh ltac:(lia)) as Hok.
  destruct (interp_null _ _ _ Hint) as (c & num & raw & -> & Hsame & ->).
  exists VNull. split; [|reflexivity].
  apply (base_item sp T0 W d acc e (Univ, 5) _ f allow DcNull (mkDecFlags true (Some KNull)) _ Hsp); try assumption.
  - rewrite Hbase. reflexivity.
  - cbn [dec_value node_len node_body node_wire length]. change (N.of_nat 0) with 0.
    apply consumes_null; [reflexivity|rewrite Hbase; exact I].
Qed.

Lemma item_oid : item_ok0 TOid.
Proof.
  intros sp T0 W d acc e n a h f allow L Hsp Hbase Hkeys He Hokh Hfuel Heoc Hsafe HL Hint.
  pose proof (nok_mono h f n Hokh ltac:(lia)) as Hok.
  destruct (interp_oid _ _ _ Hint) as (c & num & cs & raw & arcs & -> & Hsame & Hoid & ->).
  exists (VOid arcs). split; [|reflexivity]. destruct Hok as (Hsh & Ho & Hfit).
  apply (base_item sp T0 W d acc e (Univ, 6) _ f allow DcOid (mkDecFlags true (Some KOid)) _ Hsp); try assumption.
  - rewrite Hbase. reflexivity.
  - split; [exact Hsh|split; assumption].
  - cbn [dec_value node_len node_body node_wire].
    apply consumes_oid; [reflexivity|apply (fits_of_body f _ Hfit Hsh)|exact Hbase|].
    apply oid_leaf; [apply (octs_body _ Hsh Ho)|exact Hoid].
Qed.

(* ---------- strings under the guiding type's own tags ---------- *)

Definition proto_str (T0: ty) : ty := match base_of T0 with TStr n => TStr n | _ => TOcts end.

Lemma string_value : forall f T0 cd fl acc n fuel bs,
  (cd = DcOcts \/ cd = DcStr) ->
  (forall ts, create (Some T0) (proto_str T0) ts (VOcts bs) = Ret (DV T0 (VOcts bs))) -> df_constructed fl = true ->
  nok f n -> segments fuel (as_univ 4 n) = Some bs ->
  consumes (dec_value (dec_call BER f) f cd fl (Some T0) (node_wire n :: acc) (node_len n) false) (node_body n) (DV T0 (VOcts bs)).
Proof.
  intros f T0 cd fl acc n fuel bs Hcd Hcreate Hfl Hok Hseg.
  assert (Hdv: forall ts len, dec_value (dec_call BER f) f cd fl (Some T0) ts len false =
            match len with
            | Some l => dec_octets (dec_call BER f) f (proto_str T0) fl (Some T0) ts l false
            | None => dec_octets_indef (dec_call BER f) f (proto_str T0) (Some T0) ts
            end).
  { intros ts len. destruct Hcd as [-> | ->]; destruct len; reflexivity. }
  rewrite Hdv. clear Hdv.
  destruct n as [c num contents raw|c num indef kids raw]; cbn [as_univ] in Hseg.
  - destruct (segments_inv _ _ _ Hseg) as [(c0 & raw0 & E & ->)|(i & kids & raw0 & l & fuel' & E & _)]; [|discriminate E].
    inversion E; subst c0 raw0. destruct Hok as (Hsh & Ho & Hfit).
    cbn [node_len node_body node_wire].
    apply (octets_prim_value f T0 (proto_str T0) fl _ false (fun b => b = contents) (fun b Hb => eq_ind_r (fun x => create (Some T0) (proto_str T0) _ (VOcts x) = Ret (DV T0 (VOcts x))) (Hcreate _) Hb));
      [reflexivity|apply (fits_of_body f _ Hfit Hsh)|reflexivity].
  - destruct (segments_inv _ _ _ Hseg) as [(c0 & raw0 & E & _)|(i & kids0 & raw0 & l & fuel' & E & _ & Hall & ->)]; [discriminate E|].
    inversion E; subst i kids0 raw0. clear E.
    destruct (nok_kids _ _ _ _ _ _ Hok) as (f' & -> & Hcnt & Hkids).
    assert (HF: Forall2 (oseg (dec_call BER (S (S f'))) indef) (map node_raw kids) l).
    { apply (members_Forall2 _ (segments fuel') _ kids l Hkids (opt_all_Forall2 _ _ _ Hall)).
      intros k b (Hk & Hke & Hkl) Hg. split; [|exact Hkl].
      apply (octet_string_item k fuel' b (S f') indef true (nok_mono _ _ _ Hk (Nat.le_succ_diag_r f')) Hke Hg). }
    cbn [node_len node_body node_wire]. unfold kids_raw.
    rewrite <- (map_length node_raw kids) in Hcnt.
    destruct indef.
    + apply (octets_indef_value (S (S f')) T0 (proto_str T0) _ (fun b => b = concat l) (fun b Hb => eq_ind_r (fun x => create (Some T0) (proto_str T0) _ (VOcts x) = Ret (DV T0 (VOcts x))) (Hcreate _) Hb) (S f') _ _ eq_refl HF); [lia|reflexivity].
    + rewrite app_nil_r.
      apply (octets_def_value (S (S f')) T0 (proto_str T0) fl (mkTag c true num :: acc) false (fun b => b = concat l) (fun b Hb => eq_ind_r (fun x => create (Some T0) (proto_str T0) _ (VOcts x) = Ret (DV T0 (VOcts x))) (Hcreate _) Hb) Hfl _ _ eq_refl HF); [lia|reflexivity].
Qed.

Lemma item_octs : item_ok0 TOcts.
Proof.
  intros sp T0 W d acc e n a h f allow L Hsp Hbase Hkeys He Hokh Hfuel Heoc Hsafe HL Hint.
  pose proof (nok_mono h f n Hokh ltac:(lia)) as Hok.
  destruct (interp_octs _ _ _ Hint) as (bs & Hsame & Hseg & ->).
  exists (VOcts bs). split; [|reflexivity].
  apply (base_item sp T0 W d acc e (Univ, 4) _ f allow DcOcts (mkDecFlags true (Some KOcts)) _ Hsp); try assumption.
  - rewrite Hbase. reflexivity.
  - apply (string_value f T0 DcOcts _ acc n (S (length (node_raw n))) bs (or_introl eq_refl)); [|reflexivity|exact Hok|exact Hseg].
    intros ts. unfold proto_str, create. rewrite Hbase. reflexivity.
Qed.

Lemma str_ok_latin1 n b : latin1 n = true -> str_octets_ok n b = Some true.
Proof.
  unfold latin1. cbn [existsb]. intros H.
  repeat (apply orb_true_iff in H; destruct H as [H|H]); try discriminate H; apply N.eqb_eq in H; subst n; reflexivity.
Qed.

Lemma by_type_latin1 n : latin1 n = true -> by_type BER (TStr n) = Some (DcStr, mkDecFlags true (Some (KStr n))).
Proof.
  unfold latin1. cbn [existsb]. intros H.
  repeat (apply orb_true_iff in H; destruct H as [H|H]); try discriminate H; apply N.eqb_eq in H; subst n; reflexivity.
Qed.

Lemma str_ok_ascii n b : ascii_str n = true -> ascii b = true -> str_octets_ok n b = Some true.
Proof.
  unfold ascii_str, ascii. cbn [existsb]. intros H Hb.
  repeat (apply orb_true_iff in H; destruct H as [H|H]); try discriminate H; apply N.eqb_eq in H; subst n;
    unfold str_octets_ok; cbv zeta; rewrite Hb; reflexivity.
Qed.

Lemma by_type_ascii n : ascii_str n = true -> by_type BER (TStr n) = Some (DcStr, mkDecFlags true (Some (KStr n))).
Proof.
  unfold ascii_str. cbn [existsb]. intros H.
  repeat (apply orb_true_iff in H; destruct H as [H|H]); try discriminate H; apply N.eqb_eq in H; subst n; reflexivity.
Qed.

Lemma ascii_app a b : ascii (a ++ b) = ascii a && ascii b.
Proof. apply forallb_app. Qed.

Lemma leaves_ascii_as_univ u n : leaves_ascii (as_univ u n) = leaves_ascii n.
Proof. destruct n; reflexivity. Qed.

(* the octets joined from segments whose primitive leaves are ASCII are ASCII *)
Lemma segments_ascii : forall n fuel bs, segments fuel n = Some bs -> leaves_ascii n = true -> ascii bs = true.
Proof.
  induction n as [c num contents raw|c num indef kids raw IH] using node_ind'; intros fuel bs Hseg Hl.
  - destruct (segments_inv _ _ _ Hseg) as [(c0 & raw0 & E & ->)|(i & kids & raw0 & l & fuel' & E & _)]; [|discriminate E].
    inversion E; subst. exact Hl.
  - destruct (segments_inv _ _ _ Hseg) as [(c0 & raw0 & E & _)|(i & kids0 & raw0 & l & fuel' & E & _ & Hall & ->)]; [discriminate E|].
    inversion E; subst c num i kids0 raw0. clear E Hseg. cbn [leaves_ascii] in Hl.
    pose proof (opt_all_Forall2 _ _ _ Hall) as HF. clear Hall.
    induction HF as [|k b kids l Hk HF IHF]; [reflexivity|].
    inversion IH as [|? ? IHk IHr]; subst. cbn [forallb] in Hl. apply andb_true_iff in Hl. destruct Hl as [Hl1 Hl2].
    cbn [concat]. rewrite ascii_app, (IHk fuel' b Hk Hl1), (IHF IHr Hl2). reflexivity.
Qed.

Lemma safe_ascii L n : safe L n = true -> memk (KA, key (node_wire n)) L = true -> leaves_ascii n = true.
Proof.
  intros Hs Hm. destruct n as [c num contents raw|c num indef kids raw]; unfold key in Hm; cbn [node_wire tcls tnum] in Hm;
    cbn [safe leaves_ascii] in *; rewrite Hm in Hs; cbn [negb orb] in Hs.
  - apply andb3 in Hs. tauto.
  - apply andb3 in Hs. tauto.
Qed.

Lemma item_str u : (latin1 u || ascii_str u)%bool = true -> item_ok0 (TStr u).
Proof.
  intros Hu sp T0 W d acc e n a h f allow L Hsp Hbase Hkeys He Hokh Hfuel Heoc Hsafe HL Hint.
  pose proof (nok_mono h f n Hokh ltac:(lia)) as Hok.
  destruct (interp_str _ _ _ _ Hint) as (bs & Hsame & Hseg & ->).
  exists (VOcts bs). split; [|reflexivity].
  apply (base_item sp T0 W d acc e (Univ, u) _ f allow DcStr (mkDecFlags true (Some (KStr u))) _ Hsp); try assumption.
  - rewrite Hbase. apply orb_true_iff in Hu. destruct Hu as [Hu|Hu]; [apply by_type_latin1|apply by_type_ascii]; exact Hu.
  - apply (string_value f T0 DcStr _ acc n (S (length (node_raw n))) bs (or_intror eq_refl)); [|reflexivity|exact Hok|exact Hseg].
    intros ts. unfold proto_str, create. rewrite Hbase. cbn [base_of].
    destruct (latin1 u) eqn:El.
    + rewrite (str_ok_latin1 u bs El). reflexivity.
    + cbn [orb] in Hu. rewrite (str_ok_ascii u bs Hu); [reflexivity|].
      apply (segments_ascii (as_univ 4 n) _ bs Hseg). rewrite leaves_ascii_as_univ.
      apply (safe_ascii L n Hsafe). rewrite (same_tag_key _ _ Hsame). apply HL.
      cbn [side_keys]. rewrite Hu. left. reflexivity.
Qed.

(* ---------- BIT STRING under the guiding type's own tags ---------- *)

Lemma item_bits : item_ok0 TBits.
Proof.
  intros sp T0 W d acc e n a h f allow L Hsp Hbase Hkeys He Hokh Hfuel Heoc Hsafe HL Hint.
  pose proof (nok_mono h f n Hokh ltac:(lia)) as Hok.
  destruct (interp_bits _ _ _ Hint) as (l & bs & Hsame & Hseg & Hjoin & ->).
  exists (VBits bs). split; [|reflexivity].
  apply (base_item sp T0 W d acc e (Univ, 3) _ f allow DcBits (mkDecFlags true (Some KBits)) _ Hsp); try assumption.
  - rewrite Hbase. reflexivity.
  - destruct n as [c num contents raw|c num indef kids raw]; cbn [as_univ] in Hseg.
    + destruct (bit_segments_inv _ _ _ Hseg) as [(u & c0 & raw0 & E & Hu & ->)|(i & kids & raw0 & ls & fuel' & E & _)]; [|discriminate E].
      inversion E; subst contents raw0. destruct Hok as (Hsh & Ho & Hfit).
      cbn [node_len node_body node_wire dec_value].
      apply bits_prim_value; [reflexivity|apply (fits_of_body f _ Hfit Hsh)|exact Hu|exact Hjoin].
    + destruct (bit_segments_inv _ _ _ Hseg) as [(u & c0 & raw0 & E & _)|(i & kids0 & raw0 & ls & fuel' & E & _ & Hall & ->)]; [discriminate E|].
      inversion E; subst i kids0 raw0. clear E.
      destruct (nok_kids _ _ _ _ _ _ Hok) as (f' & -> & Hcnt & Hkids).
      destruct (join_concat _ _ Hjoin) as (bss & HJ & ->).
      assert (HF: Forall2 (bseg (dec_call BER (S (S f'))) indef) (map node_raw kids) bss).
      { pose proof (opt_all_Forall2 _ _ _ Hall) as H1.
        clear Hseg Hall Hjoin Hok Hokh Hfuel Heoc Hsafe Hcnt Hint Hsame.
        revert bss HJ. induction H1 as [|k lk kids ls Hk H1 IH1]; intros bss HJ.
        - inversion HJ. constructor.
        - inversion HJ as [|? bk ? bss' Hjk HJ']; subst.
          inversion Hkids as [|? ? (Hnk & Hke & Hkl) Hkr]; subst.
          cbn [map]. constructor; [|apply IH1; assumption].
          split; [|exact Hkl].
          apply (bit_string_item k fuel' lk bk (S f') indef (nok_mono _ _ _ Hnk (Nat.le_succ_diag_r f')) Hke Hk Hjk). }
      cbn [node_len node_body node_wire dec_value]. unfold kids_raw.
      rewrite <- (map_length node_raw kids) in Hcnt.
      destruct indef.
      * apply (bits_indef_value (S (S f')) T0 _ (S f') _ _ eq_refl HF). lia.
      * rewrite app_nil_r.
        apply (bits_def_value (S (S f')) T0 (mkDecFlags true (Some KBits)) (mkTag c true num :: acc) eq_refl _ _ eq_refl HF). lia.
Qed.

(* ---------- tagging ---------- *)

Lemma abs_imp t x v : abs (TImp t x) v = abs x v. Proof. destruct v; reflexivity. Qed.
Lemma abs_exp t x v : abs (TExp t x) v = abs x v. Proof. destruct v; reflexivity. Qed.

Lemma item_imp t x : non_univ t = true -> headed x = true -> item_ok x -> item_ok (TImp t x).
Proof.
  intros Ht Hhd IH sp T0 W d acc e n a h f allow L Hsp Hbase Hkeys [He _] Hokh Hfuel Heoc Hsafe HL Hint.
  rewrite interp_imp in Hint. cbn [ty_depth] in Hfuel.
  destruct (IH sp T0 W d acc (Some (orkey e (key t))) n a h f allow L Hsp Hbase Hkeys) as (v & Hc & Ha & Hets); try assumption.
  - split; [|intros Hh; congruence].
    destruct e as [k0|]; [exact He|]. cbn [orkey e_ok key fst]. apply non_univ_cls. exact Ht.
  - lia.
  - exists v. split; [exact Hc|]. split; [rewrite abs_imp; exact Ha|exact Hets].
Qed.

Lemma item_exp t x : non_univ t = true -> headed x = true -> item_ok x -> item_ok (TExp t x).
Proof.
  intros Ht Hhd IH sp T0 W d acc e n a h f allow L Hsp Hbase Hkeys [He _] Hokh Hfuel Heoc Hsafe HL Hint.
  destruct (interp_exp _ _ _ _ _ Hint) as (c & num & i & k & raw & -> & Hsame & Hint').
  destruct (nok_kids _ _ _ _ _ _ Hokh) as (h' & -> & Hcnt & Hkids). cbn [ty_depth] in Hfuel.
  destruct f as [|f1]; [lia|].
  inversion Hkids as [|? ? (Hnk & Hke & Hkl) _]; subst.
  pose proof (safe_kids _ _ _ _ _ _ Hsafe) as Hsk. inversion Hsk as [|? ? Hsk1 _]; subst.
  pose proof (same_tag_key _ _ Hsame) as Hkey. unfold key in Hkey at 1. cbn [node_wire tcls tnum] in Hkey.
  assert (Hc: c <> Univ).
  { destruct e as [k0|]; cbn [orkey] in Hkey.
    - cbn [e_ok] in He. rewrite <- Hkey in He. exact He.
    - unfold key in Hkey. inversion Hkey. apply non_univ_cls. exact Ht. }
  cbn [kets] in Hkeys.
  assert (Hkeys': keys (tagset_of' T0) = kets x None ++ keys (mkTag c true num :: acc)).
  { rewrite Hkeys, <- app_assoc. cbn [keys map app]. unfold key at 2. cbn [tcls tnum]. rewrite Hkey. reflexivity. }
  assert (Hpo: pos_ok x T0 (mkTag c true num :: acc) None) by (split; [exact I|intros Hh; congruence]).
  destruct (IH sp T0 W d (mkTag c true num :: acc) None k a h' f1 i L Hsp Hbase Hkeys' Hpo Hnk ltac:(lia) Hke Hsk1 HL Hint')
    as (v & Hcons & Ha & Hets).
  exists v. split; [|split; [rewrite abs_exp; exact Ha|exact Hets]].
  pose proof (nok_mono _ (S (f1 + d)) _ Hokh ltac:(lia)) as (Hsh & Ho & Hfit).
  assert (Hnc: not_choice T0).
  { destruct T0; try exact I. cbn in Hkeys'. destruct (kets x None); discriminate Hkeys'. }
  cbn [Nat.add].
  apply (item_of_explicit_sp (f1 + d) sp T0 W d acc c num i k raw allow (W v) (tagset_of' T0) (kets x None) Hsh Hfit Heoc Hsp);
    [rewrite (leaves_not_choice T0 Hnc); left; reflexivity|exact Hkeys'|apply (kets_nonempty x None Hhd)|exact Hc
    |apply (so_dv sp T0 W d Hsp)|exact Hcons].
Qed.

(* ---------- SEQUENCE OF / SET OF ---------- *)

Lemma listof_value f' T0 t cd fl acc c num i kids raw xs :
  (cd = DcSeqOf \/ cd = DcSetOf) -> (base_of T0 = TSeqOf t \/ base_of T0 = TSetOf t) ->
  Forall2 (elem (dec_call BER (S f')) t i) (map node_raw kids) xs -> (length kids < S f')%nat ->
  consumes (dec_value (dec_call BER (S f')) (S f') cd fl (Some T0) (mkTag c true num :: acc)
                      (node_len (Cons c num i kids raw)) false)
           (node_body (Cons c num i kids raw)) (DV T0 (VList xs)).
Proof.
  intros Hcd Hb HF Hlen.
  assert (Hdv: forall len, dec_value (dec_call BER (S f')) (S f') cd fl (Some T0) (mkTag c true num :: acc) len false
                           = dec_listof (dec_call BER (S f')) (S f') T0 t len).
  { intros len. destruct Hcd as [-> | ->]; cbn [dec_value tag0_cons tcon negb]; destruct Hb as [-> | ->]; reflexivity. }
  rewrite Hdv. clear Hdv. cbn [node_len node_body]. unfold kids_raw.
  rewrite <- (map_length node_raw kids) in Hlen.
  destruct i.
  - intros s tl Hav. unfold dec_listof. rewrite resume_tell. rewrite <- app_assoc in Hav.
    destruct (listof_indef_loop_run (dec_call BER (S f')) (dec_call_eoo f') T0 t _ _ HF (S f') [] (pos s) s tl Hlen Hav)
      as (s' & Hrun & Hpos & Harr & Hcl).
    exists s'. split; [exact Hrun|]. rewrite app_length. cbn [length]. repeat split; assumption.
  - rewrite app_nil_r. apply (RoundTrip2.dec_listof_consumes (dec_call BER (S f')) (S f') T0 t _ _ HF Hlen).
Qed.

Lemma kids_elems t (i: bool) h' f' L : item_ok t -> frag t = true ->
  (forall k, In k (side_keys t None) -> memk k L = true) -> (h' + ty_depth t <= S f')%nat ->
  forall kids l,
  Forall (fun k => nok h' k /\ (i = true -> eoc_start (node_raw k) = false) /\ (0 < length (node_raw k))%nat) kids ->
  Forall (fun k => safe L k = true) kids ->
  Forall2 (fun k a => interp t None k = Some a) kids l ->
  exists xs, Forall2 (elem (dec_call BER (S (S f'))) t i) (map node_raw kids) xs /\ map (abs t) xs = l.
Proof.
  intros IH Hfr HL Hfu kids l Hkids Hsk HF.
  induction HF as [|k a kids l Hint HF IHF].
  - exists []. split; [constructor|reflexivity].
  - inversion Hkids as [|? ? (Hnk & Hke & Hkl) Hkr]; subst. inversion Hsk as [|? ? Hs1 Hsr]; subst.
    destruct (IHF Hkr Hsr) as (xs & HFx & Hmap).
    destruct (kid_item t (STy t) i h' f' L k a IH Hfr (sp_sty t Hfr) HL Hnk Hfu Hke Hs1 Hint) as (v & Hc & Ha & _).
    exists (v :: xs). split; [|cbn [map]; rewrite Ha, Hmap; reflexivity].
    cbn [map]. constructor; [|exact HFx]. split; [exact Hc|exact Hkl].
Qed.

(* fuel of a constructed node against the bound on its octets *)
Lemma fuel_kids h' D f : (S (S h') + S D <= f)%nat -> exists f', f = S (S f') /\ (h' + D <= f')%nat.
Proof. intros H. destruct f as [|[|f']]; try lia. exists f'. split; [reflexivity|lia]. Qed.

Lemma item_seqof t : frag t = true -> item_ok t -> item_ok0 (TSeqOf t).
Proof.
  intros Hfr IH sp T0 W d acc e n a h f allow L Hsp Hbase Hkeys He Hokh Hfuel Heoc Hsafe HL Hint.
  destruct (interp_seqof _ _ _ _ Hint) as (c & num & i & kids & raw & l & -> & Hsame & Hall & ->).
  destruct (nok_kids _ _ _ _ _ _ Hokh) as (h' & -> & Hcnt & Hkids). cbn [ty_depth] in Hfuel.
  destruct (fuel_kids h' (ty_depth t) f Hfuel) as (f' & -> & Hfu).
  pose proof (nok_mono _ (S (S f')) _ Hokh ltac:(lia)) as Hok.
  destruct (kids_elems t i h' f' L IH Hfr HL ltac:(lia) kids l Hkids (safe_kids _ _ _ _ _ _ Hsafe) (opt_all_Forall2 _ _ _ Hall))
    as (xs & HF & Hmap).
  exists (VList xs). split; [|cbn [abs]; rewrite Hmap; reflexivity].
  apply (base_item sp T0 W d acc e (Univ, 16) _ (S (S f')) allow DcSeqOf (mkDecFlags true (Some KSeqOf)) _ Hsp); try assumption.
  - rewrite Hbase. reflexivity.
  - cbn [node_wire]. apply (listof_value (S f') T0 t DcSeqOf _ acc c num i kids raw xs (or_introl eq_refl) (or_introl Hbase) HF). lia.
Qed.

Lemma item_setof t : frag t = true -> item_ok t -> item_ok0 (TSetOf t).
Proof.
  intros Hfr IH sp T0 W d acc e n a h f allow L Hsp Hbase Hkeys He Hokh Hfuel Heoc Hsafe HL Hint.
  destruct (interp_setof _ _ _ _ Hint) as (c & num & i & kids & raw & l & -> & Hsame & Hall & ->).
  destruct (nok_kids _ _ _ _ _ _ Hokh) as (h' & -> & Hcnt & Hkids). cbn [ty_depth] in Hfuel.
  destruct (fuel_kids h' (ty_depth t) f Hfuel) as (f' & -> & Hfu).
  pose proof (nok_mono _ (S (S f')) _ Hokh ltac:(lia)) as Hok.
  destruct (kids_elems t i h' f' L IH Hfr HL ltac:(lia) kids l Hkids (safe_kids _ _ _ _ _ _ Hsafe) (opt_all_Forall2 _ _ _ Hall))
    as (xs & HF & Hmap).
  exists (VList xs). split; [|cbn [abs]; rewrite Hmap; reflexivity].
  apply (base_item sp T0 W d acc e (Univ, 17) _ (S (S f')) allow DcSetOf (mkDecFlags true (Some KSetOf)) _ Hsp); try assumption.
  - rewrite Hbase. reflexivity.
  - cbn [node_wire]. apply (listof_value (S f') T0 t DcSetOf _ acc c num i kids raw xs (or_intror eq_refl) (or_intror Hbase) HF). lia.
Qed.

(* ---------- SEQUENCE with mandatory components ---------- *)

Definition seq_go (interp_f: ty -> node -> option aval) : list (presence * ty) -> list node -> option (list (option aval)) :=
  fix go (fs: list (presence * ty)) (kids: list node) {struct fs} : option (list (option aval)) :=
    match fs with
    | [] => match kids with [] => Some [] | _ => None end
    | (p, ft) :: fs' =>
        let absent := match p with
                      | Req => None
                      | Opt => opt_bind (go fs' kids) (fun r => Some (None :: r))
                      | Def d => opt_bind (go fs' kids) (fun r => Some (Some (abs ft d) :: r))
                      end in
        match kids with
        | k :: kids' =>
            if may_start ft (node_tag k) then
              match interp_f ft k with
              | Some a => opt_bind (go fs' kids') (fun r => Some (Some a :: r))
              | None => None
              end
            else absent
        | [] => absent
        end
    end.

Lemma interp_seq fs e n a : interp (TSeq fs) e n = Some a ->
  exists c num i kids raw l, n = Cons c num i kids raw /\ same_tag (orkey e (Univ, 16)) n = true
    /\ seq_go (fun ft k => interp ft None k) fs kids = Some l /\ a = ARec l.
Proof.
  cbn [interp]. cbv zeta. destruct n as [|c num i kids raw]; [discriminate|].
  change (match e with Some e0 => e0 | None => (Univ, 16) end) with (orkey e (Univ, 16)).
  destruct (same_tag (orkey e (Univ, 16)) (Cons c num i kids raw)) eqn:E; [|discriminate]. cbn [negb].
  intros H.
  match type of H with opt_bind ?g _ = _ => destruct g as [l|] eqn:El; [|discriminate H] end.
  cbn [opt_bind] in H. exists c, num, i, kids, raw, l. split; [reflexivity|]. split; [reflexivity|]. split; [exact El|congruence].
Qed.

Inductive fields_interp : list (presence * ty) -> list node -> list aval -> Prop :=
| fi_nil : fields_interp [] [] []
| fi_cons p ft fs k kids a az : interp ft None k = Some a -> fields_interp fs kids az ->
                                fields_interp ((p, ft) :: fs) (k :: kids) (a :: az).

Lemma seq_go_req : forall fs kids l, forallb (fun f => is_req (fst f)) fs = true ->
  seq_go (fun ft k => interp ft None k) fs kids = Some l ->
  exists az, l = map Some az /\ fields_interp fs kids az.
Proof.
  induction fs as [|[p ft] fs IH]; intros kids l Hreq H.
  - cbn [seq_go] in H. destruct kids; [|discriminate H]. inversion H. exists []. split; [reflexivity|constructor].
  - cbn [forallb fst] in Hreq. apply andb_true_iff in Hreq. destruct Hreq as [Hp Hreq].
    destruct p; try discriminate Hp. cbn [seq_go] in H. cbv zeta in H.
    destruct kids as [|k kids]; [discriminate H|].
    destruct (may_start ft (node_tag k)); [|discriminate H].
    destruct (interp ft None k) as [a|] eqn:Ea; [|discriminate H].
    fold (seq_go (fun ft k => interp ft None k)) in H.
    destruct (seq_go (fun ft k => interp ft None k) fs kids) as [r|] eqn:Er; [|discriminate H].
    cbn [opt_bind] in H. inversion H; subst l.
    destruct (IH kids r Hreq Er) as (az & -> & Hf). exists (a :: az). split; [reflexivity|constructor; assumption].
Qed.

Definition fields_depth (fs: list (presence * ty)) : nat := fold_right (fun f acc => Nat.max (ty_depth (snd f)) acc) O fs.
Definition alts_depth (alts: list ty) : nat := fold_right (fun a acc => Nat.max (ty_depth a) acc) O alts.

Lemma fields_depth_in fs f0 : In f0 fs -> (ty_depth (snd f0) <= fields_depth fs)%nat.
Proof.
  induction fs as [|x fs IH]; intros H; [contradiction|]. cbn [fields_depth fold_right]. fold (fields_depth fs).
  destruct H as [->|H]; [lia|]. specialize (IH H). lia.
Qed.

Lemma alts_depth_in alts a : In a alts -> (ty_depth a <= alts_depth alts)%nat.
Proof.
  induction alts as [|x alts IH]; intros H; [contradiction|]. cbn [alts_depth fold_right]. fold (alts_depth alts).
  destruct H as [->|H]; [lia|]. specialize (IH H). lia.
Qed.

Lemma fields_elems (i: bool) h' f' L : forall fs kids az,
  Forall (fun f => item_ok (snd f)) fs -> forallb (fun f => frag (snd f)) fs = true ->
  (forall k, In k (flat_map (fun f => side_keys (snd f) None) fs) -> memk k L = true) ->
  (forall f0, In f0 fs -> (h' + ty_depth (snd f0) <= S f')%nat) ->
  Forall (fun k => nok h' k /\ (i = true -> eoc_start (node_raw k) = false) /\ (0 < length (node_raw k))%nat) kids ->
  Forall (fun k => safe L k = true) kids ->
  fields_interp fs kids az ->
  exists xs, fields_mem (dec_call BER (S (S f'))) i fs (map node_raw kids) xs
             /\ RoundTrip2.abs_fields fs (map Some xs) = map Some az.
Proof.
  intros fs kids az HIH Hfr HL Hfu Hkids Hsk HF.
  induction HF as [|p ft fs k kids a az Hint HF IHF].
  - exists []. split; [constructor|reflexivity].
  - inversion HIH as [|? ? IH1 IHr]; subst. cbn [snd] in IH1.
    cbn [forallb snd] in Hfr. apply andb_true_iff in Hfr. destruct Hfr as [Hfr1 Hfrr].
    inversion Hkids as [|? ? (Hnk & Hke & Hkl) Hkr]; subst. inversion Hsk as [|? ? Hs1 Hsr]; subst.
    cbn [flat_map snd] in HL.
    destruct (IHF IHr Hfrr (fun k0 Hk0 => HL k0 (in_or_app _ _ _ (or_intror Hk0)))
                (fun f0 Hf0 => Hfu f0 (or_intror Hf0)) Hkr Hsr) as (xs & HFx & Habs).
    destruct (kid_item ft (STy ft) i h' f' L k a IH1 Hfr1 (sp_sty ft Hfr1)
                (fun k0 Hk0 => HL k0 (in_or_app _ _ _ (or_introl Hk0))) Hnk (Hfu (p, ft) (or_introl eq_refl)) Hke Hs1 Hint) as (v & Hc & Ha & _).
    exists (v :: xs). split.
    + cbn [map]. constructor; [|exact HFx]. split; [exact Hc|exact Hkl].
    + cbn [map RoundTrip2.abs_fields]. fold RoundTrip2.abs_fields. rewrite Ha, Habs. reflexivity.
Qed.

Lemma fields_interp_length fs kids az : fields_interp fs kids az -> length fs = length kids.
Proof. induction 1; [reflexivity|cbn [length]; congruence]. Qed.

Lemma record_value f' T0 fs fl acc c num i kids raw xs :
  base_of T0 = TSeq fs -> forallb (fun f => is_req (fst f)) fs = true ->
  fields_mem (dec_call BER (S f')) i fs (map node_raw kids) xs -> (length fs < S f')%nat ->
  consumes (dec_value (dec_call BER (S f')) (S f') DcSeq fl (Some T0) (mkTag c true num :: acc)
                      (node_len (Cons c num i kids raw)) false)
           (node_body (Cons c num i kids raw)) (DV T0 (VRec (map Some xs))).
Proof.
  intros Hb Hreq HF Hlen.
  assert (Hdv: forall len, dec_value (dec_call BER (S f')) (S f') DcSeq fl (Some T0) (mkTag c true num :: acc) len false
                           = dec_record (dec_call BER (S f')) (S f') T0 fs false len).
  { intros len. cbn [dec_value tag0_cons tcon negb]. rewrite Hb. reflexivity. }
  rewrite Hdv. clear Hdv. cbn [node_len node_body]. unfold kids_raw.
  destruct i.
  - apply (dec_record_indef_consumes (dec_call BER (S f')) (S f') (dec_call_eoo f') T0 fs _ _ Hreq HF Hlen).
  - rewrite app_nil_r.
    apply (RoundTrip2.dec_record_consumes (dec_call BER (S f')) (S f') T0 fs _ _ Hreq (fields_mem_def _ _ _ _ HF) Hlen).
Qed.

Lemma item_seq fs : forallb (fun f => is_req (fst f) && frag (snd f)) fs = true ->
  Forall (fun f => item_ok (snd f)) fs -> item_ok0 (TSeq fs).
Proof.
  intros Hfs IH sp T0 W d acc e n a h f allow L Hsp Hbase Hkeys He Hokh Hfuel Heoc Hsafe HL Hint.
  assert (Hreq: forallb (fun f => is_req (fst f)) fs = true /\ forallb (fun f => frag (snd f)) fs = true).
  { clear -Hfs. induction fs as [|x fs IHf]; [split; reflexivity|].
    cbn [forallb] in *. apply andb_true_iff in Hfs. destruct Hfs as [H1 H2]. apply andb_true_iff in H1. destruct H1 as [Ha Hb].
    destruct (IHf H2) as [H3 H4]. rewrite Ha, Hb, H3, H4. split; reflexivity. }
  destruct Hreq as [Hreq Hfrs].
  destruct (interp_seq _ _ _ _ Hint) as (c & num & i & kids & raw & l & -> & Hsame & Hgo & ->).
  destruct (seq_go_req fs kids l Hreq Hgo) as (az & -> & Hfi).
  destruct (nok_kids _ _ _ _ _ _ Hokh) as (h' & -> & Hcnt & Hkids).
  change (ty_depth (TSeq fs)) with (S (fields_depth fs)) in Hfuel.
  destruct (fuel_kids h' (fields_depth fs) f Hfuel) as (f' & -> & Hfu).
  pose proof (nok_mono _ (S (S f')) _ Hokh ltac:(lia)) as Hok.
  assert (Hfus: forall f0, In f0 fs -> (h' + ty_depth (snd f0) <= S f')%nat).
  { intros f0 Hf0. pose proof (fields_depth_in fs f0 Hf0). lia. }
  destruct (fields_elems i h' f' L fs kids az IH Hfrs HL Hfus
              Hkids (safe_kids _ _ _ _ _ _ Hsafe) Hfi) as (xs & HF & Habs).
  exists (VRec (map Some xs)). split; [|rewrite RoundTrip2.abs_seq, Habs; reflexivity].
  apply (base_item sp T0 W d acc e (Univ, 16) _ (S (S f')) allow DcSeq (mkDecFlags true (Some KSeq)) _ Hsp); try assumption.
  - rewrite Hbase. reflexivity.
  - cbn [node_wire]. apply (record_value (S f') T0 fs _ acc c num i kids raw xs Hbase Hreq HF).
    rewrite (fields_interp_length _ _ _ Hfi). lia.
Qed.

(* ====================================================================== *)
(* 10. SET: members in any order                                            *)
(* ====================================================================== *)

Section SetLoop.
  Variable rec : spec -> tagset -> option (option N) -> bool -> bool -> proc dval.
  Variable lf : nat.
  Variable fs : list (presence * ty).
  Let m := fields_tagmap true (map snd fs).

  (* the members as the decoder meets them: each resolved through the tag map, placed by its type *)
  Inductive set_steps (allow: bool) : list bytes -> list (option val) -> list (option val) -> Prop :=
  | ss_nil vs : set_steps allow [] vs vs
  | ss_cons p parts j ft v vs vs' :
      member rec (SMap m) allow false p (DV ft v) ->
      position_by_type (map snd fs) (effective_tagset (S lf) ft v) = Ok j -> (j < length fs)%nat ->
      set_steps allow parts (set_nth j (Some v) vs) vs' ->
      set_steps allow (p :: parts) vs vs'.

  Hypothesis Hne : (match fs with [] => true | _ => false end) = false.

  Lemma set_loop_run T : forall parts vs vs', set_steps false parts vs vs' ->
    forall n idx start total s tl,
      (length parts < n)%nat -> avail s = concat parts ++ tl -> (start <= pos s)%nat ->
      (pos s - start + length (concat parts) = total)%nat -> required_seen fs vs' = true ->
      exists s', resume (record_loop rec lf T fs true (Some (N.of_nat total)) start n idx vs 0%nat) s
                 = inr (Ok (DV T (VRec vs')), s')
        /\ pos s' = (pos s + length (concat parts))%nat /\ arrived s' = arrived s /\ closed s' = closed s.
  Proof.
    intros parts vs vs' HS.
    induction HS as [vs|p parts j ft v vs vs' [Hp Hpl] Hpos Hj HS IH]; intros n idx start total s tl Hn Hav Hst Htot Hreq.
    - destruct n as [|n']; [cbn [length] in Hn; lia|].
      cbn [record_loop]. cbv zeta. rewrite resume_tell. cbn [concat length] in Htot.
      destruct (N.ltb_spec (N.of_nat (pos s - start)) (N.of_nat total)) as [Hlt|_]; [lia|].
      cbn [negb]. rewrite Hne, Hreq. cbn [resume]. exists s. cbn [concat length]. repeat split. lia.
    - destruct n as [|n']; [cbn [length] in Hn; lia|].
      cbn [record_loop]. cbv zeta. rewrite resume_tell.
      cbn [concat] in Htot, Hav. rewrite app_length in Htot.
      destruct (N.ltb_spec (N.of_nat (pos s - start)) (N.of_nat total)) as [_|Hge]; [|lia].
      cbn [negb andb]. rewrite Hne. fold m.
      rewrite <- app_assoc in Hav.
      destruct (Hp s _ Hav) as (s1 & Hrun & Hps & Harr & Hcl).
      rewrite (resume_pbind_done _ _ _ _ _ Hrun).
      pose proof (consumes_avail p s _ s1 Hav Hps Harr) as Hav1.
      unfold seq_position. cbn [negb andb]. rewrite Hpos. cbn [lift pbind].
      destruct (Nat.leb_spec (length fs) j) as [Hc|_]; [lia|].
      cbn [length] in Hn.
      destruct (IH n' (S j) start total s1 tl ltac:(lia) Hav1 ltac:(lia) ltac:(lia) Hreq) as (s2 & Hrun2 & Hpos2 & Harr2 & Hcl2).
      exists s2. rewrite Hrun2. cbn [concat]. rewrite app_length.
      split; [reflexivity|]. split; [lia|]. split; congruence.
  Qed.

  Hypothesis rec_eoo : forall sp acc sfun s tl, avail s = 0 :: 0 :: tl ->
    resume (rec sp acc None true sfun) s = inr (Ok DEoo, adv s 2).

  Lemma set_indef_loop_run T : forall parts vs vs', set_steps true parts vs vs' ->
    forall n idx start s tl,
      (length parts < n)%nat -> avail s = concat parts ++ [0; 0] ++ tl -> required_seen fs vs' = true ->
      exists s', resume (record_loop rec lf T fs true None start n idx vs 0%nat) s
                 = inr (Ok (DV T (VRec vs')), s')
        /\ pos s' = (pos s + (length (concat parts) + 2))%nat /\ arrived s' = arrived s /\ closed s' = closed s.
  Proof.
    intros parts vs vs' HS.
    induction HS as [vs|p parts j ft v vs vs' [Hp Hpl] Hpos Hj HS IH]; intros n idx start s tl Hn Hav Hreq.
    - destruct n as [|n']; [cbn [length] in Hn; lia|].
      cbn [record_loop]. cbv zeta. rewrite resume_tell. cbn [negb andb]. rewrite Hne. fold m.
      cbn [concat app] in Hav.
      rewrite (resume_pbind_done _ _ _ _ _ (rec_eoo _ _ _ s tl Hav)). rewrite Hreq. cbn [resume].
      exists (adv s 2). cbn [concat length]. repeat split.
    - destruct n as [|n']; [cbn [length] in Hn; lia|].
      cbn [record_loop]. cbv zeta. rewrite resume_tell. cbn [negb andb]. rewrite Hne. fold m.
      cbn [concat] in Hav. rewrite <- app_assoc in Hav.
      destruct (Hp s _ Hav) as (s1 & Hrun & Hps & Harr & Hcl).
      rewrite (resume_pbind_done _ _ _ _ _ Hrun).
      pose proof (consumes_avail p s _ s1 Hav Hps Harr) as Hav1.
      unfold seq_position. cbn [negb andb]. rewrite Hpos. cbn [lift pbind].
      destruct (Nat.leb_spec (length fs) j) as [Hc|_]; [lia|].
      cbn [length] in Hn.
      destruct (IH n' (S j) start s1 tl ltac:(lia) Hav1 Hreq) as (s2 & Hrun2 & Hpos2 & Harr2 & Hcl2).
      exists s2. rewrite Hrun2. cbn [concat]. rewrite app_length.
      split; [reflexivity|]. split; [lia|]. split; congruence.
  Qed.
End SetLoop.

(* the reference's placement of SET members, named *)
Definition set_pick (k: node) (slots: list (option aval)) : list (presence * ty) -> nat -> option (list (option aval)) :=
  fix pick (fs: list (presence * ty)) (i: nat) : option (list (option aval)) :=
    match fs with
    | [] => None
    | (p, ft) :: fs' =>
        if may_start ft (node_tag k) then
          match nth_error slots i with
          | Some None => opt_bind (interp ft None k) (fun a => Some (set_slot i a slots))
          | _ => None
          end
        else pick fs' (S i)
    end.

Definition set_place (fs: list (presence * ty)) : list node -> option (list (option aval)) -> option (list (option aval)) :=
  fix place (kids: list node) (acc: option (list (option aval))) : option (list (option aval)) :=
    match kids with
    | [] => acc
    | k :: kids' => place kids' (opt_bind acc (fun slots => set_pick k slots fs O))
    end.

Definition set_final (ps: (presence * ty) * option aval) : option (option aval) :=
  match fst ps, snd ps with
  | _, Some a => Some (Some a)
  | (Opt, _), None => Some None
  | (Def d, ft), None => Some (Some (abs ft d))
  | (Req, _), None => None
  end.

Lemma interp_set fs e n a : interp (TSet fs) e n = Some a ->
  exists c num i kids raw slots l, n = Cons c num i kids raw /\ same_tag (orkey e (Univ, 17)) n = true
    /\ set_place fs kids (Some (map (fun _ => None) fs)) = Some slots
    /\ opt_all (map set_final (combine fs slots)) = Some l /\ a = ARec l.
Proof.
  cbn [interp]. cbv zeta. destruct n as [|c num i kids raw]; [discriminate|].
  change (match e with Some e0 => e0 | None => (Univ, 17) end) with (orkey e (Univ, 17)).
  destruct (same_tag (orkey e (Univ, 17)) (Cons c num i kids raw)) eqn:E; [|discriminate]. cbn [negb].
  intros H.
  match type of H with opt_bind ?g _ = _ => destruct g as [slots|] eqn:El; [|discriminate H] end.
  cbn [opt_bind] in H.
  match type of H with opt_bind ?g _ = _ => destruct g as [l|] eqn:Ef; [|discriminate H] end.
  cbn [opt_bind] in H.
  exists c, num, i, kids, raw, slots, l. split; [reflexivity|]. split; [reflexivity|]. split; [exact El|]. split; [exact Ef|congruence].
Qed.

Lemma set_place_none fs : forall kids, set_place fs kids None = None.
Proof. induction kids as [|k kids IH]; [reflexivity|]. cbn [set_place opt_bind]. exact IH. Qed.

Lemma set_place_step fs k kids slots r : set_place fs (k :: kids) (Some slots) = Some r ->
  exists slots', set_pick k slots fs O = Some slots' /\ set_place fs kids (Some slots') = Some r.
Proof.
  cbn [set_place opt_bind]. fold (set_place fs). intros H.
  destruct (set_pick k slots fs 0) as [slots'|] eqn:E; [|rewrite set_place_none in H; discriminate H].
  exists slots'. split; [reflexivity|exact H].
Qed.

Lemma set_pick_inv k slots : forall fs i0 slots', set_pick k slots fs i0 = Some slots' ->
  exists j p ft a, nth_error fs j = Some (p, ft) /\ may_start ft (node_tag k) = true
                   /\ interp ft None k = Some a /\ slots' = set_slot (i0 + j) a slots.
Proof.
  induction fs as [|[p ft] fs IH]; intros i0 slots' H; [discriminate H|].
  cbn [set_pick] in H. destruct (may_start ft (node_tag k)) eqn:Em.
  - destruct (nth_error slots i0) as [[|]|]; try discriminate H.
    destruct (interp ft None k) as [a|] eqn:Ea; [|discriminate H]. cbn [opt_bind] in H. inversion H.
    exists 0%nat, p, ft, a. rewrite Nat.add_0_r. repeat split; assumption.
  - fold (set_pick k slots) in H. destruct (IH (S i0) slots' H) as (j & p' & ft' & a & H1 & H2 & H3 & H4).
    exists (S j), p', ft', a. split; [exact H1|]. split; [exact H2|]. split; [exact H3|].
    rewrite H4. f_equal. lia.
Qed.

(* decoded slots against the reference's slots *)
Inductive slots_rel : list (presence * ty) -> list (option val) -> list (option aval) -> Prop :=
| sr_nil : slots_rel [] [] []
| sr_none f fs vs sl : slots_rel fs vs sl -> slots_rel (f :: fs) (None :: vs) (None :: sl)
| sr_some f fs v vs sl : slots_rel fs vs sl -> slots_rel (f :: fs) (Some v :: vs) (Some (abs (snd f) v) :: sl).

Lemma slots_rel_init fs : slots_rel fs (map (fun _ => None) fs) (map (fun _ => None) fs).
Proof. induction fs as [|f fs IH]; [constructor|]. cbn [map]. constructor. exact IH. Qed.

Lemma slots_rel_set : forall fs vs sl j p ft v, slots_rel fs vs sl -> nth_error fs j = Some (p, ft) ->
  slots_rel fs (set_nth j (Some v) vs) (set_slot j (abs ft v) sl).
Proof.
  intros fs vs sl j p ft v H. revert j. induction H as [|f fs vs sl H IH|f fs v0 vs sl H IH]; intros j Hn.
  - destruct j; discriminate Hn.
  - destruct j as [|j]; cbn [nth_error] in Hn.
    + inversion Hn; subst f. cbn [set_nth set_slot]. apply (sr_some (p, ft) fs v vs sl H).
    + cbn [set_nth set_slot]. constructor. apply IH. exact Hn.
  - destruct j as [|j]; cbn [nth_error] in Hn.
    + inversion Hn; subst f. cbn [set_nth set_slot]. apply (sr_some (p, ft) fs v vs sl H).
    + cbn [set_nth set_slot]. constructor. apply IH. exact Hn.
Qed.

Lemma slots_rel_final : forall fs vs sl l, slots_rel fs vs sl ->
  opt_all (map set_final (combine fs sl)) = Some l ->
  required_seen fs vs = true /\ RoundTrip2.abs_fields fs vs = l.
Proof.
  intros fs vs sl l H. revert l. unfold required_seen.
  induction H as [|[p ft] fs vs sl H IH|[p ft] fs v0 vs sl H IH]; intros l Hf.
  - cbn in Hf. inversion Hf. split; reflexivity.
  - cbn [combine map opt_all] in Hf. unfold set_final at 1 in Hf. cbn [fst snd] in Hf.
    destruct p as [| |d]; try discriminate Hf.
    + destruct (opt_all (map set_final (combine fs sl))) as [r|] eqn:Er; [|discriminate Hf]. cbn [opt_bind] in Hf. inversion Hf; subst l.
      destruct (IH r eq_refl) as [H1 H2]. cbn [combine forallb fst snd RoundTrip2.abs_fields]. fold RoundTrip2.abs_fields.
      rewrite H1, H2. split; reflexivity.
    + destruct (opt_all (map set_final (combine fs sl))) as [r|] eqn:Er; [|discriminate Hf]. cbn [opt_bind] in Hf. inversion Hf; subst l.
      destruct (IH r eq_refl) as [H1 H2]. cbn [combine forallb fst snd RoundTrip2.abs_fields]. fold RoundTrip2.abs_fields.
      rewrite H1, H2. split; reflexivity.
  - cbn [combine map opt_all] in Hf. unfold set_final at 1 in Hf. cbn [fst snd] in Hf.
    assert (Hf': opt_bind (opt_all (map set_final (combine fs sl))) (fun r' => Some (Some (abs ft v0) :: r')) = Some l).
    { destruct p; exact Hf. }
    destruct (opt_all (map set_final (combine fs sl))) as [r|] eqn:Er; [|discriminate Hf']. cbn [opt_bind] in Hf'. inversion Hf'; subst l.
    destruct (IH r eq_refl) as [H1 H2]. cbn [combine forallb fst snd RoundTrip2.abs_fields]. fold RoundTrip2.abs_fields.
    rewrite H1, H2. split; [destruct p; reflexivity|reflexivity].
Qed.


Lemma forallb_map_snd {A} (g: ty -> bool) (fs: list (A * ty)) : forallb g (map snd fs) = forallb (fun f => g (snd f)) fs.
Proof. induction fs as [|x fs IH]; [reflexivity|]. cbn [map forallb]. rewrite IH. reflexivity. Qed.

Lemma flat_map_map_snd {A B} (g: ty -> list B) (fs: list (A * ty)) : flat_map g (map snd fs) = flat_map (fun f => g (snd f)) fs.
Proof. induction fs as [|x fs IH]; [reflexivity|]. cbn [map flat_map]. rewrite IH. reflexivity. Qed.

(* the component types of a SET / a run: tag maps as expected, leaves told apart by their outermost tags *)
Lemma comps_ok (fts: list ty) : forallb (fun t => frag t && mapable t) fts = true -> nodupb (flat_map okeys fts) = true ->
  (forall t, In t fts -> tmok t) /\ NoDup (map lk (flat_map leaves fts)).
Proof.
  intros Hf Hnd. split; [|apply (nodup_leaves fts Hf Hnd)].
  intros t Ht. rewrite forallb_forall in Hf. specialize (Hf t Ht). apply andb_true_iff in Hf. destruct Hf as [H1 H2].
  apply (tmok_frag t H1 H2).
Qed.

Lemma set_steps_of_place (i: bool) h' f' L fs :
  Forall (fun f => item_ok (snd f)) fs -> forallb (fun f => frag (snd f)) fs = true ->
  (forall t, In t (map snd fs) -> tmok t) -> NoDup (map lk (flat_map leaves (map snd fs))) ->
  (forall k, In k (flat_map (fun f => side_keys (snd f) None) fs) -> memk k L = true) ->
  (forall f0, In f0 fs -> (h' + ty_depth (snd f0) <= S f')%nat) ->
  forall kids slots slots' vs,
  Forall (fun k => nok h' k /\ (i = true -> eoc_start (node_raw k) = false) /\ (0 < length (node_raw k))%nat) kids ->
  Forall (fun k => safe L k = true) kids ->
  set_place fs kids (Some slots) = Some slots' -> slots_rel fs vs slots ->
  exists vs', set_steps (dec_call BER (S (S f'))) (S (S f')) fs i (map node_raw kids) vs vs' /\ slots_rel fs vs' slots'.
Proof.
  intros HIH Hfrs Hok Hnd HL Hfu.
  induction kids as [|k kids IHk]; intros slots slots' vs Hkids Hsk Hpl Hrel.
  - cbn [set_place] in Hpl. inversion Hpl; subst. exists vs. split; [constructor|exact Hrel].
  - destruct (set_place_step _ _ _ _ _ Hpl) as (slots1 & Hpick & Hpl').
    destruct (set_pick_inv _ _ _ _ _ Hpick) as (j & p & ft & a & Hn & Hms & Hint & ->). cbn [Nat.add] in *.
    inversion Hkids as [|? ? (Hnk & Hke & Hkl) Hkr]; subst. inversion Hsk as [|? ? Hs1 Hsr]; subst.
    pose proof (nth_error_In _ _ Hn) as Hin.
    assert (IH1: item_ok ft) by (rewrite Forall_forall in HIH; apply (HIH (p, ft) Hin)).
    assert (Hnf: nth_error (map snd fs) j = Some ft) by (rewrite (map_nth_error snd j fs Hn); reflexivity).
    pose proof (nth_error_In _ _ Hnf) as Hinf.
    assert (Hfr: frag ft = true) by (rewrite forallb_forall in Hfrs; apply (Hfrs (p, ft) Hin)).
    destruct (kid_item ft (SMap (fields_tagmap true (map snd fs))) i h' f' L k a IH1 Hfr
                (sp_ok_map true (map snd fs) ft Hok Hnd Hinf)
                (fun k0 Hk0 => HL k0 (proj2 (in_flat_map _ _ _) (ex_intro _ (p, ft) (conj Hin Hk0))))
                Hnk (Hfu (p, ft) Hin) Hke Hs1 Hint) as (v & Hc & Ha & Hets & Hcd).
    destruct (IHk (set_slot j a slots) slots' (set_nth j (Some v) vs) Hkr Hsr Hpl') as (vs' & Hst & Hrel').
    { rewrite <- Ha. apply (slots_rel_set fs vs slots j p ft v Hrel Hn). }
    exists vs'. split; [|exact Hrel'].
    cbn [map]. apply (ss_cons _ _ fs i (node_raw k) (map node_raw kids) j ft v vs vs'); [split; [exact Hc|exact Hkl]| | |exact Hst].
    + apply (position_leaf (map snd fs) ft j _ Hok Hnd Hnf). apply Hets. pose proof (Hfu (p, ft) Hin) as Hd. cbn [snd] in Hd. lia.
    + apply nth_error_Some. rewrite Hn. discriminate.
Qed.

Lemma set_value f' T0 fs fl acc c num i kids raw vs' :
  base_of T0 = TSet fs -> (match fs with [] => true | _ => false end) = false ->
  set_steps (dec_call BER (S f')) (S f') fs i (map node_raw kids) (map (fun _ => None) fs) vs' ->
  required_seen fs vs' = true -> (length kids < S f')%nat ->
  consumes (dec_value (dec_call BER (S f')) (S f') DcSet fl (Some T0) (mkTag c true num :: acc)
                      (node_len (Cons c num i kids raw)) false)
           (node_body (Cons c num i kids raw)) (DV T0 (VRec vs')).
Proof.
  intros Hb Hne HS Hreq Hlen.
  assert (Hdv: forall len, dec_value (dec_call BER (S f')) (S f') DcSet fl (Some T0) (mkTag c true num :: acc) len false
                           = dec_record (dec_call BER (S f')) (S f') T0 fs true len).
  { intros len. cbn [dec_value tag0_cons tcon negb]. rewrite Hb. reflexivity. }
  rewrite Hdv. clear Hdv. cbn [node_len node_body]. unfold kids_raw.
  rewrite <- (map_length node_raw kids) in Hlen.
  intros s tl Hav. unfold dec_record. rewrite resume_tell.
  destruct i.
  - rewrite <- app_assoc in Hav.
    destruct (set_indef_loop_run (dec_call BER (S f')) (S f') fs Hne (dec_call_eoo f') T0 _ _ _ HS (S f') 0%nat (pos s) s tl Hlen Hav Hreq)
      as (s' & Hrun & Hpos & Harr & Hcl).
    exists s'. split; [exact Hrun|]. rewrite app_length. cbn [length]. repeat split; assumption.
  - rewrite app_nil_r in *.
    destruct (set_loop_run (dec_call BER (S f')) (S f') fs Hne T0 _ _ _ HS (S f') 0%nat (pos s) (length (concat (map node_raw kids))) s tl
                Hlen Hav ltac:(lia) ltac:(lia) Hreq) as (s' & Hrun & Hpos & Harr & Hcl).
    exists s'. split; [exact Hrun|]. repeat split; assumption.
Qed.

Lemma item_set fs : forallb (fun f => frag (snd f) && mapable (snd f)) fs = true ->
  nodupb (flat_map (fun f => okeys (snd f)) fs) = true ->
  Forall (fun f => item_ok (snd f)) fs -> item_ok0 (TSet fs).
Proof.
  intros Hfrs Hnd IH sp T0 W d acc e n a h f allow L Hsp Hbase Hkeys He Hokh Hfuel Heoc Hsafe HL Hint.
  destruct (interp_set _ _ _ _ Hint) as (c & num & i & kids & raw & slots & l & -> & Hsame & Hpl & Hfin & ->).
  destruct (nok_kids _ _ _ _ _ _ Hokh) as (h' & -> & Hcnt & Hkids).
  change (ty_depth (TSet fs)) with (S (fields_depth fs)) in Hfuel.
  destruct (fuel_kids h' (fields_depth fs) f Hfuel) as (f' & -> & Hfu).
  pose proof (nok_mono _ (S (S f')) _ Hokh ltac:(lia)) as Hok.
  assert (Hfus: forall f0, In f0 fs -> (h' + ty_depth (snd f0) <= S f')%nat).
  { intros f0 Hf0. pose proof (fields_depth_in fs f0 Hf0). lia. }
  destruct (comps_ok (map snd fs)) as [Hcomp HND].
  { rewrite forallb_map_snd. exact Hfrs. }
  { rewrite flat_map_map_snd. exact Hnd. }
  assert (Hfr1: forallb (fun f => frag (snd f)) fs = true).
  { apply forallb_forall. intros x Hx. rewrite forallb_forall in Hfrs. specialize (Hfrs x Hx). apply andb_true_iff in Hfrs. tauto. }
  destruct fs as [|f0 fs0].
  - (* no components: no members *)
    destruct kids as [|k kids]; [|destruct (set_place_step _ _ _ _ _ Hpl) as (s1 & Hp & _); discriminate Hp].
    cbn in Hpl, Hfin. inversion Hpl; subst slots. inversion Hfin; subst l.
    exists (VRec []). split; [|reflexivity].
    apply (base_item sp T0 W d acc e (Univ, 17) _ (S (S f')) allow DcSet (mkDecFlags true (Some KSet)) _ Hsp); try assumption.
    + rewrite Hbase. reflexivity.
    + cbn [node_wire node_len node_body dec_value tag0_cons tcon negb]. rewrite Hbase. cbn [base_of].
      intros s tl Hav. unfold dec_record. rewrite resume_tell. cbn [record_loop]. cbv zeta. rewrite resume_tell.
      destruct i.
      * cbn [negb]. cbn [kids_raw map concat app] in Hav.
        rewrite (resume_pbind_done _ _ _ _ _ (dec_call_eoo (S f') _ _ _ s tl Hav)). cbn [resume map].
        exists (adv s 2). repeat split.
      * cbn [kids_raw map concat length app]. rewrite Nat.sub_diag. cbn [N.of_nat N.ltb N.compare negb resume map].
        exists s. repeat split. lia.
  - destruct (set_steps_of_place i h' f' L (f0 :: fs0) IH Hfr1 Hcomp HND HL Hfus kids _ slots _ Hkids (safe_kids _ _ _ _ _ _ Hsafe) Hpl
                (slots_rel_init (f0 :: fs0))) as (vs' & HS & Hrel).
    destruct (slots_rel_final _ _ _ _ Hrel Hfin) as [Hreq Habs].
    exists (VRec vs'). split; [|change (abs (TSet (f0 :: fs0)) (VRec vs')) with (ARec (RoundTrip2.abs_fields (f0 :: fs0) vs')); rewrite Habs; reflexivity].
    apply (base_item sp T0 W d acc e (Univ, 17) _ (S (S f')) allow DcSet (mkDecFlags true (Some KSet)) _ Hsp); try assumption.
    + rewrite Hbase. reflexivity.
    + cbn [node_wire]. apply (set_value (S f') T0 (f0 :: fs0) _ acc c num i kids raw vs' Hbase eq_refl HS Hreq). lia.
Qed.

(* ====================================================================== *)
(* 10b. SEQUENCE with OPTIONAL and DEFAULT components                        *)
(* ====================================================================== *)

Section SeqLoop.
  Variable rec : spec -> tagset -> option (option N) -> bool -> bool -> proc dval.
  Variable lf : nat.
  Variable fs : list (presence * ty).
  Hypothesis Hnd : forallb (fun f => is_req (fst f)) fs = false.

  (* the members as the decoder meets them: at position idx under the spec of that position (the
     component's type, or the tag map of the run of OPTIONAL components starting there), placed by type *)
  Inductive seq_steps (allow: bool) : nat -> list bytes -> list (option val) -> nat -> list (option val) -> Prop :=
  | sq_nil idx vs : seq_steps allow idx [] vs idx vs
  | sq_cons idx p parts sp ft v j vs idx' vs' :
      seq_component_spec fs false idx = Some sp ->
      member rec sp allow false p (DV ft v) ->
      seq_position lf fs false false idx ft v = Ok j -> (idx < length fs)%nat -> (j < length fs)%nat ->
      seq_steps allow (S j) parts (set_nth j (Some v) vs) idx' vs' ->
      seq_steps allow idx (p :: parts) vs idx' vs'.

  Lemma fs_nonempty : (match fs with [] => true | _ => false end) = false.
  Proof. destruct fs; [discriminate Hnd|reflexivity]. Qed.

  Lemma seq_loop_run T : forall allow idx parts vs idx' vs', seq_steps allow idx parts vs idx' vs' -> allow = false ->
    forall n start total s tl,
      (length parts < n)%nat -> avail s = concat parts ++ tl -> (start <= pos s)%nat ->
      (pos s - start + length (concat parts) = total)%nat -> required_seen fs vs' = true ->
      exists s', resume (record_loop rec lf T fs false (Some (N.of_nat total)) start n idx vs 0%nat) s
                 = inr (Ok (DV T (VRec vs')), s')
        /\ pos s' = (pos s + length (concat parts))%nat /\ arrived s' = arrived s /\ closed s' = closed s.
  Proof.
    intros allow idx parts vs idx' vs' HS.
    induction HS as [idx vs|idx p parts sp ft v j vs idx' vs' Hsp [Hp Hpl] Hpos Hidx Hj HS IH];
      intros Ha n start total s tl Hn Hav Hst Htot Hreq; subst allow.
    - destruct n as [|n']; [cbn [length] in Hn; lia|].
      cbn [record_loop]. cbv zeta. rewrite resume_tell. cbn [concat length] in Htot.
      destruct (N.ltb_spec (N.of_nat (pos s - start)) (N.of_nat total)) as [Hlt|_]; [lia|].
      cbn [negb]. rewrite fs_nonempty, Hreq. cbn [resume]. exists s. cbn [concat length]. repeat split. lia.
    - destruct n as [|n']; [cbn [length] in Hn; lia|].
      cbn [record_loop]. cbv zeta. rewrite resume_tell.
      cbn [concat] in Htot, Hav. rewrite app_length in Htot.
      destruct (N.ltb_spec (N.of_nat (pos s - start)) (N.of_nat total)) as [_|Hge]; [|lia].
      cbn [negb andb]. rewrite fs_nonempty, Hnd, Hsp.
      rewrite <- app_assoc in Hav.
      destruct (Hp s _ Hav) as (s1 & Hrun & Hps & Harr & Hcl).
      rewrite (resume_pbind_done _ _ _ _ _ Hrun).
      pose proof (consumes_avail p s _ s1 Hav Hps Harr) as Hav1.
      destruct (Nat.leb_spec (length fs) idx) as [Hc|_]; [lia|].
      rewrite Hpos. cbn [lift pbind].
      destruct (Nat.leb_spec (length fs) j) as [Hc|_]; [lia|].
      cbn [length] in Hn.
      destruct (IH eq_refl n' start total s1 tl ltac:(lia) Hav1 ltac:(lia) ltac:(lia) Hreq) as (s2 & Hrun2 & Hpos2 & Harr2 & Hcl2).
      exists s2. rewrite Hrun2. cbn [concat]. rewrite app_length.
      split; [reflexivity|]. split; [lia|]. split; congruence.
  Qed.

  Hypothesis rec_eoo : forall sp acc sfun s tl, avail s = 0 :: 0 :: tl ->
    resume (rec sp acc None true sfun) s = inr (Ok DEoo, adv s 2).

  Lemma seq_spec_some idx : exists sp,
    (if Nat.leb (length fs) idx then Some SNone else seq_component_spec fs false idx) = Some sp.
  Proof.
    destruct (Nat.leb_spec (length fs) idx) as [Hc|Hlt]; [exists SNone; reflexivity|].
    unfold seq_component_spec. destruct (nth_error fs idx) as [[p t]|] eqn:E.
    - destruct (false || is_req p); eexists; reflexivity.
    - apply nth_error_None in E. lia.
  Qed.

  Lemma seq_indef_loop_run T : forall allow idx parts vs idx' vs', seq_steps allow idx parts vs idx' vs' -> allow = true ->
    forall n start s tl,
      (length parts < n)%nat -> avail s = concat parts ++ [0; 0] ++ tl -> required_seen fs vs' = true ->
      exists s', resume (record_loop rec lf T fs false None start n idx vs 0%nat) s
                 = inr (Ok (DV T (VRec vs')), s')
        /\ pos s' = (pos s + (length (concat parts) + 2))%nat /\ arrived s' = arrived s /\ closed s' = closed s.
  Proof.
    intros allow idx parts vs idx' vs' HS.
    induction HS as [idx vs|idx p parts sp ft v j vs idx' vs' Hsp [Hp Hpl] Hpos Hidx Hj HS IH];
      intros Ha n start s tl Hn Hav Hreq; subst allow.
    - destruct n as [|n']; [cbn [length] in Hn; lia|].
      cbn [record_loop]. cbv zeta. rewrite resume_tell. cbn [negb andb]. rewrite fs_nonempty, Hnd.
      destruct (seq_spec_some idx) as (sp & Esp). rewrite Esp.
      cbn [concat app] in Hav.
      rewrite (resume_pbind_done _ _ _ _ _ (rec_eoo _ _ _ s tl Hav)). rewrite Hreq. cbn [resume].
      exists (adv s 2). cbn [concat length]. repeat split.
    - destruct n as [|n']; [cbn [length] in Hn; lia|].
      cbn [record_loop]. cbv zeta. rewrite resume_tell. cbn [negb andb]. rewrite fs_nonempty, Hnd.
      destruct (Nat.leb_spec (length fs) idx) as [Hc|_]; [lia|]. rewrite Hsp.
      cbn [concat] in Hav. rewrite <- app_assoc in Hav.
      destruct (Hp s _ Hav) as (s1 & Hrun & Hps & Harr & Hcl).
      rewrite (resume_pbind_done _ _ _ _ _ Hrun).
      pose proof (consumes_avail p s _ s1 Hav Hps Harr) as Hav1.
      rewrite Hpos. cbn [lift pbind].
      destruct (Nat.leb_spec (length fs) j) as [Hc|_]; [lia|].
      cbn [length] in Hn.
      destruct (IH eq_refl n' start s1 tl ltac:(lia) Hav1 Hreq) as (s2 & Hrun2 & Hpos2 & Harr2 & Hcl2).
      exists s2. rewrite Hrun2. cbn [concat]. rewrite app_length.
      split; [reflexivity|]. split; [lia|]. split; congruence.
  Qed.
End SeqLoop.

Definition absent_val (f: presence * ty) : option aval := match fst f with Def d => Some (abs (snd f) d) | _ => None end.
Definition non_req (f: presence * ty) : bool := negb (is_req (fst f)).
Definition nones {A B} (l: list A) : list (option B) := map (fun _ => None) l.

Lemma seq_go_nil_kids : forall todo l, seq_go (fun ft k => interp ft None k) todo [] = Some l ->
  forallb non_req todo = true /\ l = map absent_val todo.
Proof.
  induction todo as [|[p ft] todo IH]; intros l H.
  - cbn in H. inversion H. split; reflexivity.
  - cbn [seq_go] in H. cbv zeta in H. fold (seq_go (fun ft k => interp ft None k)) in H.
    destruct p as [| |d]; [discriminate H| |];
      (destruct (seq_go (fun ft k => interp ft None k) todo []) as [r|] eqn:Er; [|discriminate H]);
      cbn [opt_bind] in H; inversion H; subst l; destruct (IH r eq_refl) as [H1 ->];
      cbn [forallb map]; unfold non_req at 1; cbn [fst is_req negb andb]; (split; [exact H1|reflexivity]).
Qed.

Lemma seq_go_kid : forall todo k kids l, seq_go (fun ft k => interp ft None k) todo (k :: kids) = Some l ->
  exists pre p ft todo' a r, todo = pre ++ (p, ft) :: todo' /\ forallb non_req pre = true
    /\ may_start ft (node_tag k) = true /\ interp ft None k = Some a
    /\ seq_go (fun ft k => interp ft None k) todo' kids = Some r /\ l = map absent_val pre ++ Some a :: r.
Proof.
  induction todo as [|[p ft] todo IH]; intros k kids l H; [discriminate H|].
  cbn [seq_go] in H. cbv zeta in H. fold (seq_go (fun ft k => interp ft None k)) in H.
  destruct (may_start ft (node_tag k)) eqn:Em.
  - destruct (interp ft None k) as [a|] eqn:Ea; [|discriminate H].
    destruct (seq_go (fun ft k => interp ft None k) todo kids) as [r|] eqn:Er; [|discriminate H].
    cbn [opt_bind] in H. inversion H; subst l.
    exists [], p, ft, todo, a, r. repeat split; assumption.
  - destruct p as [| |d]; [discriminate H| |];
      (destruct (seq_go (fun ft k => interp ft None k) todo (k :: kids)) as [r0|] eqn:Er; [|discriminate H]);
      cbn [opt_bind] in H; inversion H; subst l;
      destruct (IH k kids r0 Er) as (pre & p' & ft' & todo' & a & r & -> & Hpre & Hm & Hi & Hgo & ->).
    + exists ((Opt, ft) :: pre), p', ft', todo', a, r. split; [reflexivity|]. split; [cbn [forallb]; rewrite Hpre; reflexivity|].
      split; [exact Hm|]. split; [exact Hi|]. split; [exact Hgo|reflexivity].
    + exists ((Def d, ft) :: pre), p', ft', todo', a, r. split; [reflexivity|]. split; [cbn [forallb]; rewrite Hpre; reflexivity|].
      split; [exact Hm|]. split; [exact Hi|]. split; [exact Hgo|reflexivity].
Qed.

Lemma run_app : forall pre rest, forallb non_req pre = true -> ambiguous_run (pre ++ rest) = map snd pre ++ ambiguous_run rest.
Proof.
  induction pre as [|[p t] pre IH]; intros rest H; [reflexivity|].
  cbn [forallb] in H. apply andb_true_iff in H. destruct H as [H1 H2].
  cbn [app ambiguous_run map snd]. destruct p; [discriminate H1| |]; rewrite (IH rest H2); reflexivity.
Qed.

Lemma run_head p ft rest : exists r, ambiguous_run ((p, ft) :: rest) = ft :: r.
Proof. cbn [ambiguous_run]. destruct p; eexists; reflexivity. Qed.

Lemma run_incl : forall l t, In t (ambiguous_run l) -> In t (map snd l).
Proof.
  induction l as [|[p ft] l IH]; intros t H; [contradiction|].
  cbn [ambiguous_run] in H. cbn [map snd].
  destruct p; destruct H as [->|H]; try (left; reflexivity); try contradiction; right; apply IH; exact H.
Qed.

Lemma abs_fields_nones : forall l, RoundTrip2.abs_fields l (nones l) = map absent_val l.
Proof.
  induction l as [|[p ft] l IH]; [reflexivity|].
  unfold nones in *. cbn [map RoundTrip2.abs_fields]. fold RoundTrip2.abs_fields. rewrite IH.
  unfold absent_val at 2. cbn [fst snd]. destruct p; reflexivity.
Qed.

Lemma abs_fields_app : forall fa va fb vb, length va = length fa ->
  RoundTrip2.abs_fields (fa ++ fb) (va ++ vb) = RoundTrip2.abs_fields fa va ++ RoundTrip2.abs_fields fb vb.
Proof.
  induction fa as [|[p ft] fa IH]; intros va fb vb Hl.
  - destruct va; [|discriminate Hl]. cbn [app]. destruct fb; reflexivity.
  - destruct va as [|ov va]; [discriminate Hl|]. cbn [length] in Hl.
    cbn [app RoundTrip2.abs_fields]. fold RoundTrip2.abs_fields. rewrite IH by lia. reflexivity.
Qed.

Lemma required_seen_app : forall fa va fb vb, length va = length fa ->
  required_seen (fa ++ fb) (va ++ vb) = required_seen fa va && required_seen fb vb.
Proof.
  unfold required_seen. induction fa as [|f fa IH]; intros va fb vb Hl.
  - destruct va; [|discriminate Hl]. reflexivity.
  - destruct va as [|ov va]; [discriminate Hl|]. cbn [length] in Hl.
    cbn [app combine forallb]. rewrite IH by lia. rewrite andb_assoc. reflexivity.
Qed.

Lemma required_seen_nones : forall l, forallb non_req l = true -> required_seen l (nones l) = true.
Proof.
  unfold required_seen, nones. induction l as [|[p ft] l IH]; intros H; [reflexivity|].
  cbn [forallb] in H. apply andb_true_iff in H. destruct H as [H1 H2].
  cbn [map combine forallb fst snd]. rewrite (IH H2). destruct p; [discriminate H1|reflexivity|reflexivity].
Qed.

Lemma nones_length {A B} (l: list A) : length (@nones A B l) = length l.
Proof. apply map_length. Qed.

Lemma nones_app {A B} (a b: list A) : @nones A B (a ++ b) = nones a ++ nones b.
Proof. apply map_app. Qed.

Definition seq_runs_ok (fs: list (presence * ty)) : bool :=
  forallb (fun idx => nodupb (flat_map okeys (ambiguous_run (skipn idx fs)))) (seq 0 (length fs)).

Lemma skipn_app_len {A} (a b: list A) : skipn (length a) (a ++ b) = b.
Proof. apply skipn_app_exact. Qed.

Lemma in_skipn' {A} (x: A) : forall n l, In x (skipn n l) -> In x l.
Proof.
  induction n as [|n IH]; intros l H; [exact H|]. destruct l as [|y l]; [contradiction|].
  cbn [skipn] in H. right. apply IH. exact H.
Qed.

Lemma seq_steps_of_go (i: bool) h' f' L fs :
  forallb (fun f => is_req (fst f)) fs = false ->
  Forall (fun f => item_ok (snd f)) fs -> forallb (fun f => frag (snd f) && mapable (snd f)) fs = true -> seq_runs_ok fs = true ->
  (forall k, In k (flat_map (fun f => side_keys (snd f) None) fs) -> memk k L = true) ->
  (forall f0, In f0 fs -> (h' + ty_depth (snd f0) <= S f')%nat) ->
  forall m todo, (length todo <= m)%nat -> forall done vdone kids l,
  fs = done ++ todo -> length vdone = length done ->
  Forall (fun k => nok h' k /\ (i = true -> eoc_start (node_raw k) = false) /\ (0 < length (node_raw k))%nat) kids ->
  Forall (fun k => safe L k = true) kids ->
  seq_go (fun ft k => interp ft None k) todo kids = Some l ->
  exists vt idx', seq_steps (dec_call BER (S (S f'))) (S (S f')) fs i (length done) (map node_raw kids)
                            (vdone ++ nones todo) idx' (vdone ++ vt)
    /\ length vt = length todo /\ RoundTrip2.abs_fields todo vt = l /\ required_seen todo vt = true.
Proof.
  intros Hnd HIH Hok Hruns HL Hfu.
  induction m as [|m IHm]; intros todo Hm done vdone kids l Hfs Hvd Hkids Hsk Hgo.
  - destruct todo; [|cbn [length] in Hm; lia].
    destruct kids as [|k kids]; [|discriminate Hgo]. cbn in Hgo. inversion Hgo; subst l.
    exists [], (length done). split; [constructor|]. repeat split.
  - destruct kids as [|k kids].
    + destruct (seq_go_nil_kids _ _ Hgo) as [Hnr ->].
      exists (nones todo), (length done). split; [constructor|]. split; [apply nones_length|].
      split; [apply abs_fields_nones|apply required_seen_nones; exact Hnr].
    + destruct (seq_go_kid _ _ _ _ Hgo) as (pre & p & ft & todo' & a & r & -> & Hpre & Hms & Hint & Hgo' & ->).
      inversion Hkids as [|? ? (Hnk & Hke & Hkl) Hkr]; subst. inversion Hsk as [|? ? Hs1 Hsr]; subst.
      set (fs := done ++ pre ++ (p, ft) :: todo') in *.
      set (idx := length done).
      assert (Hin: In (p, ft) fs) by (subst fs; apply in_or_app; right; apply in_or_app; right; left; reflexivity).
      assert (IH1: item_ok ft) by (rewrite Forall_forall in HIH; apply (HIH (p, ft) Hin)).
      assert (Hfr: frag ft = true).
      { rewrite forallb_forall in Hok. specialize (Hok (p, ft) Hin). apply andb_true_iff in Hok. tauto. }
      pose proof (Hfu (p, ft) Hin) as Hfuft. cbn [snd] in Hfuft.
      assert (HLft: forall k0, In k0 (side_keys ft None) -> memk k0 L = true).
      { intros k0 Hk0. apply HL. apply in_flat_map. exists (p, ft). split; [exact Hin|exact Hk0]. }
      assert (Hskip: skipn idx fs = pre ++ (p, ft) :: todo') by (subst fs idx; apply skipn_app_len).
      assert (Hidx: (idx < length fs)%nat) by (subst fs idx; rewrite !app_length; cbn [length]; lia).
      (* the spec at position idx, the decoded member, its position *)
      assert (Hmem: exists sp v, seq_component_spec fs false idx = Some sp
                 /\ consumes (dec_call BER (S (S f')) sp [] None i false) (node_raw k) (DV ft v) /\ abs ft v = a
                 /\ seq_position (S (S f')) fs false false idx ft v = Ok (idx + length pre)%nat).
      { unfold seq_component_spec, seq_position. cbn [orb negb andb].
        assert (Hhd: exists p0 ft0, nth_error fs idx = Some (p0, ft0) /\
                       ((pre = [] /\ p0 = p /\ ft0 = ft) \/ (is_req p0 = false))).
        { subst fs idx. rewrite nth_error_app2 by lia. rewrite Nat.sub_diag.
          destruct pre as [|[p0 ft0] pre'].
          - exists p, ft. split; [reflexivity|]. left. repeat split.
          - exists p0, ft0. split; [reflexivity|]. right. cbn [forallb] in Hpre. apply andb_true_iff in Hpre.
            destruct Hpre as [H1 _]. unfold non_req in H1. cbn [fst] in H1. apply negb_true_iff in H1. exact H1. }
        destruct Hhd as (p0 & ft0 & Hn0 & Hcase). rewrite Hn0.
        destruct (is_req p0) eqn:Er.
        - destruct Hcase as [(-> & -> & ->)|Hc]; [|discriminate Hc].
          destruct (kid_item ft (STy ft) i h' f' L k a IH1 Hfr (sp_sty ft Hfr) HLft Hnk Hfuft Hke Hs1 Hint) as (v & Hc & Ha & _).
          exists (STy ft), v. split; [reflexivity|]. split; [exact Hc|]. split; [exact Ha|].
          cbn [length]. rewrite Nat.add_0_r. reflexivity.
        - rewrite Hskip.
          set (run := ambiguous_run (pre ++ (p, ft) :: todo')).
          assert (Hrn: nth_error run (length pre) = Some ft).
          { subst run. rewrite (run_app pre _ Hpre). destruct (run_head p ft todo') as (r0 & ->).
            rewrite nth_error_app2 by (rewrite map_length; lia). rewrite map_length, Nat.sub_diag. reflexivity. }
          assert (Hrsub: forall t, In t run -> In t (map snd fs)).
          { intros t Ht. subst run. apply run_incl in Ht. rewrite <- Hskip in Ht. apply in_map_iff in Ht.
            destruct Ht as (x & <- & Hx). apply in_map. apply (in_skipn' x idx fs Hx). }
          destruct (comps_ok run) as [Hrok Hrnd].
          { apply forallb_forall. intros t Ht. specialize (Hrsub t Ht). apply in_map_iff in Hrsub. destruct Hrsub as (x & <- & Hx).
            rewrite forallb_forall in Hok. apply (Hok x Hx). }
          { unfold seq_runs_ok in Hruns. rewrite forallb_forall in Hruns.
            specialize (Hruns idx). rewrite Hskip in Hruns. apply Hruns. apply in_seq. lia. }
          pose proof (nth_error_In _ _ Hrn) as Hrin.
          destruct (kid_item ft (SMap (fields_tagmap false run)) i h' f' L k a IH1 Hfr (sp_ok_map false run ft Hrok Hrnd Hrin)
                      HLft Hnk Hfuft Hke Hs1 Hint) as (v & Hc & Ha & Hets & Hcd).
          exists (SMap (fields_tagmap false run)), v. split; [reflexivity|]. split; [exact Hc|]. split; [exact Ha|].
          rewrite (position_leaf run ft (length pre) _ Hrok Hrnd Hrn); [reflexivity|]. apply Hets. lia. }
      destruct Hmem as (sp & v & Hspec & Hcons & Ha & Hposn).
      (* the rest *)
      assert (Hlen': (length todo' <= m)%nat) by (rewrite !app_length in Hm; cbn [length] in Hm; lia).
      destruct (IHm todo' Hlen' (done ++ pre ++ [(p, ft)]) (vdone ++ nones pre ++ [Some v]) kids r) as (vt' & idx' & Hst & Hlvt & Habs & Hreq).
      { subst fs. rewrite <- !app_assoc. reflexivity. }
      { rewrite !app_length, nones_length. cbn [length]. lia. }
      { exact Hkr. } { exact Hsr. } { exact Hgo'. }
      exists (nones pre ++ Some v :: vt'), idx'. split; [|split; [|split]].
      * cbn [map]. apply (sq_cons _ _ fs i idx (node_raw k) (map node_raw kids) sp ft v (idx + length pre)%nat _ idx' _ Hspec
                            (conj Hcons Hkl) Hposn Hidx).
        { subst fs idx. rewrite !app_length. cbn [length]. lia. }
        replace (set_nth (idx + length pre) (Some v) (vdone ++ nones (pre ++ (p, ft) :: todo')))
          with ((vdone ++ nones pre ++ [Some v]) ++ nones todo').
        { replace (S (idx + length pre)) with (length (done ++ pre ++ [(p, ft)])) by (subst idx; rewrite !app_length; cbn [length]; lia).
          replace (vdone ++ nones pre ++ Some v :: vt') with ((vdone ++ nones pre ++ [Some v]) ++ vt') by (rewrite <- !app_assoc; reflexivity).
          exact Hst. }
        { rewrite nones_app. unfold nones at 4. cbn [map]. fold (@nones (presence * ty) val todo').
          rewrite (app_assoc vdone (nones pre) (None :: nones todo')).
          replace (idx + length pre)%nat with (length (vdone ++ nones pre)) by (subst idx; rewrite app_length, nones_length; lia).
          rewrite RoundTrip2.set_nth_app. rewrite <- !app_assoc. reflexivity. }
      * rewrite !app_length, nones_length. cbn [length]. lia.
      * rewrite (abs_fields_app pre (nones pre)) by apply nones_length.
        rewrite abs_fields_nones. cbn [RoundTrip2.abs_fields]. fold RoundTrip2.abs_fields. rewrite Ha, Habs. reflexivity.
      * rewrite (required_seen_app pre (nones pre)) by apply nones_length.
        rewrite (required_seen_nones pre Hpre). unfold required_seen in *. cbn [combine forallb fst snd andb]. rewrite Hreq.
        destruct p; reflexivity.
Qed.

Lemma seq_opt_value f' T0 fs fl acc c num i kids raw vs' idx' :
  base_of T0 = TSeq fs -> forallb (fun f => is_req (fst f)) fs = false ->
  seq_steps (dec_call BER (S f')) (S f') fs i 0%nat (map node_raw kids) (map (fun _ => None) fs) idx' vs' ->
  required_seen fs vs' = true -> (length kids < S f')%nat ->
  consumes (dec_value (dec_call BER (S f')) (S f') DcSeq fl (Some T0) (mkTag c true num :: acc)
                      (node_len (Cons c num i kids raw)) false)
           (node_body (Cons c num i kids raw)) (DV T0 (VRec vs')).
Proof.
  intros Hb Hnd HS Hreq Hlen.
  assert (Hdv: forall len, dec_value (dec_call BER (S f')) (S f') DcSeq fl (Some T0) (mkTag c true num :: acc) len false
                           = dec_record (dec_call BER (S f')) (S f') T0 fs false len).
  { intros len. cbn [dec_value tag0_cons tcon negb]. rewrite Hb. reflexivity. }
  rewrite Hdv. clear Hdv. cbn [node_len node_body]. unfold kids_raw.
  rewrite <- (map_length node_raw kids) in Hlen.
  intros s tl Hav. unfold dec_record. rewrite resume_tell.
  destruct i.
  - rewrite <- app_assoc in Hav.
    destruct (seq_indef_loop_run (dec_call BER (S f')) (S f') fs Hnd (dec_call_eoo f') T0 _ _ _ _ _ _ HS eq_refl (S f') (pos s) s tl Hlen Hav Hreq)
      as (s' & Hrun & Hpos & Harr & Hcl).
    exists s'. split; [exact Hrun|]. rewrite app_length. cbn [length]. repeat split; assumption.
  - rewrite app_nil_r in *.
    destruct (seq_loop_run (dec_call BER (S f')) (S f') fs Hnd T0 _ _ _ _ _ _ HS eq_refl (S f') (pos s) (length (concat (map node_raw kids))) s tl
                Hlen Hav ltac:(lia) ltac:(lia) Hreq) as (s' & Hrun & Hpos & Harr & Hcl).
    exists s'. split; [exact Hrun|]. repeat split; assumption.
Qed.

Lemma item_seq_opt fs : forallb (fun f => is_req (fst f)) fs = false ->
  forallb (fun f => frag (snd f) && mapable (snd f)) fs = true -> seq_runs_ok fs = true ->
  Forall (fun f => item_ok (snd f)) fs -> item_ok0 (TSeq fs).
Proof.
  intros Hnd Hfrs Hruns IH sp T0 W d acc e n a h f allow L Hsp Hbase Hkeys He Hokh Hfuel Heoc Hsafe HL Hint.
  destruct (interp_seq _ _ _ _ Hint) as (c & num & i & kids & raw & l & -> & Hsame & Hgo & ->).
  destruct (nok_kids _ _ _ _ _ _ Hokh) as (h' & -> & Hcnt & Hkids).
  change (ty_depth (TSeq fs)) with (S (fields_depth fs)) in Hfuel.
  destruct (fuel_kids h' (fields_depth fs) f Hfuel) as (f' & -> & Hfu).
  pose proof (nok_mono _ (S (S f')) _ Hokh ltac:(lia)) as Hok.
  assert (Hfus: forall f0, In f0 fs -> (h' + ty_depth (snd f0) <= S f')%nat).
  { intros f0 Hf0. pose proof (fields_depth_in fs f0 Hf0). lia. }
  destruct (seq_steps_of_go i h' f' L fs Hnd IH Hfrs Hruns HL Hfus (length fs) fs (le_n _) [] [] kids l eq_refl eq_refl Hkids
              (safe_kids _ _ _ _ _ _ Hsafe) Hgo) as (vt & idx' & HS & Hlvt & Habs & Hreq).
  cbn [app length] in HS.
  exists (VRec vt). split; [|rewrite RoundTrip2.abs_seq, Habs; reflexivity].
  apply (base_item sp T0 W d acc e (Univ, 16) _ (S (S f')) allow DcSeq (mkDecFlags true (Some KSeq)) _ Hsp); try assumption.
  - rewrite Hbase. reflexivity.
  - cbn [node_wire]. apply (seq_opt_value (S f') T0 fs _ acc c num i kids raw vt idx' Hbase Hnd HS Hreq). lia.
Qed.

(* ---------- REAL ---------- *)

Lemma interp_real e n a : interp TReal e n = Some a ->
  exists c num cs raw r, n = Prim c num cs raw /\ same_tag (orkey e (Univ, 9)) n = true
                         /\ real_value cs = Some r /\ a = AReal r.
Proof.
  cbn [interp]. cbv zeta. destruct n as [c num contents raw|]; [|discriminate].
  change (match e with Some e0 => e0 | None => (Univ, 9) end) with (orkey e (Univ, 9)).
  destruct (same_tag (orkey e (Univ, 9)) (Prim c num contents raw)) eqn:E; [|discriminate].
  destruct (real_value contents) as [r|] eqn:Eo; [|discriminate]. cbn [opt_bind].
  intros H. exists c, num, contents, raw, r. split; [reflexivity|]. split; [reflexivity|]. split; [exact Eo|congruence].
Qed.

Lemma item_real : item_ok0 TReal.
Proof.
  intros sp T0 W d acc e n a h f allow L Hsp Hbase Hkeys He Hokh Hfuel Heoc Hsafe HL Hint.
  pose proof (nok_mono h f n Hokh ltac:(lia)) as Hok.
  destruct (interp_real _ _ _ Hint) as (c & num & cs & raw & ra & -> & Hsame & Hreal & ->).
  destruct Hok as (Hsh & Ho & Hfit).
  assert (Hm: real_mant_ok cs = true).
  { cbn [safe] in Hsafe. pose proof (same_tag_key _ _ Hsame) as Hk. unfold key in Hk. cbn [node_wire tcls tnum] in Hk.
    rewrite Hk in Hsafe. rewrite (HL (KR, orkey e (Univ, 9)) (or_introl eq_refl)) in Hsafe. cbn [negb orb] in Hsafe.
    apply andb3 in Hsafe. tauto. }
  destruct (real_leaf cs ra (octs_body _ Hsh Ho) Hreal Hm) as (r & Hdec & Habs).
  exists (VReal r). split; [|cbn [abs]; rewrite Habs; reflexivity].
  apply (base_item sp T0 W d acc e (Univ, 9) _ f allow DcReal (mkDecFlags true (Some KReal)) _ Hsp); try assumption.
  - rewrite Hbase. reflexivity.
  - split; [exact Hsh|split; assumption].
  - cbn [dec_value node_len node_body node_wire].
    apply consumes_real; [reflexivity|apply (fits_of_body f _ Hfit Hsh)|exact Hbase|exact Hdec].
Qed.

(* ====================================================================== *)
(* 10c. CHOICE                                                               *)
(* ====================================================================== *)

Definition choice_go (n: node) : list ty -> nat -> option aval :=
  fix go (alts: list ty) (i: nat) : option aval :=
    match alts with
    | [] => None
    | a :: r => if may_start a (node_tag n)
                then opt_bind (interp a None n) (fun x => Some (AChoice i x))
                else go r (S i)
    end.

Lemma choice_go_inv n : forall alts i a, choice_go n alts i = Some a ->
  exists j alt x, nth_error alts j = Some alt /\ interp alt None n = Some x /\ a = AChoice (i + j) x.
Proof.
  induction alts as [|alt alts IH]; intros i a H; [discriminate H|].
  cbn [choice_go] in H. destruct (may_start alt (node_tag n)).
  - destruct (interp alt None n) as [x|] eqn:E; [|discriminate H]. cbn [opt_bind] in H. inversion H.
    exists 0%nat, alt, x. rewrite Nat.add_0_r. repeat split; assumption.
  - fold (choice_go n) in H. destruct (IH (S i) a H) as (j & alt' & x & H1 & H2 & H3).
    exists (S j), alt', x. split; [exact H1|]. split; [exact H2|]. rewrite H3. f_equal. lia.
Qed.

Lemma interp_choice alts e n a : interp (TChoice alts) e n = Some a ->
  e = None /\ exists j alt x, nth_error alts j = Some alt /\ interp alt None n = Some x /\ a = AChoice j x.
Proof.
  cbn [interp]. destruct e as [k|]; [discriminate|]. intros H. split; [reflexivity|].
  apply (choice_go_inv n alts 0%nat a H).
Qed.

Lemma abs_choice : forall alts j alt v, nth_error alts j = Some alt -> abs (TChoice alts) (VChoice j v) = AChoice j (abs alt v).
Proof.
  intros alts j alt v Hn. cbn [abs].
  assert (G: forall l k i, nth_error l k = Some alt ->
             (fix go (alts: list ty) (k: nat) : aval :=
                match alts, k with
                | a :: _, O => AChoice i (abs a v)
                | _ :: r, S k' => go r k'
                | [], _ => ABad
                end) l k = AChoice i (abs alt v)).
  { induction l as [|a l IH]; intros k i H; [destruct k; discriminate H|].
    destruct k as [|k]; [cbn in H; inversion H; reflexivity|]. cbn [nth_error] in H. apply (IH k i H). }
  apply (G alts j j Hn).
Qed.

Lemma choice_parts alts : frag (TChoice alts) = true ->
  (forall t, In t alts -> tmok t) /\ NoDup (map lk (flat_map leaves alts))
  /\ (forall t, In t alts -> frag t = true /\ mapable t = true).
Proof.
  intros Hf. cbn [frag] in Hf. apply andb_true_iff in Hf. destruct Hf as [Hf Hnd].
  destruct (comps_ok alts Hf Hnd) as [H1 H2]. split; [exact H1|]. split; [exact H2|].
  intros t Ht. rewrite forallb_forall in Hf. specialize (Hf t Ht). apply andb_true_iff in Hf. exact Hf.
Qed.

(* an untagged CHOICE: whatever spec resolves to it resolves, one level of fuel lower, to its alternatives *)
Lemma item_choice alts : frag (TChoice alts) = true -> Forall item_ok alts -> item_ok (TChoice alts).
Proof.
  intros Hfr IH sp T0 W d acc e n a h f allow L Hsp Hbase Hkeys [He Hun] Hokh Hfuel Heoc Hsafe HL Hint.
  destruct (Hun eq_refl) as [-> ->].
  destruct (interp_choice _ _ _ _ Hint) as (-> & j & alt & x & Hn & Hix & ->).
  destruct (choice_parts alts Hfr) as (Htm & Hnd & Hfa).
  pose proof (nth_error_In _ _ Hn) as Hin. destruct (Hfa alt Hin) as [Hfalt Hmalt].
  change (ty_depth (TChoice alts)) with (S (alts_depth alts)) in Hfuel.
  pose proof (alts_depth_in alts alt Hin) as Hdep.
  destruct f as [|f']; [lia|].
  pose proof (sp_ok_alt sp alts W d j alt Hsp Hn Htm Hnd (leaves_nonempty alt Hfalt Hmalt)) as Hsp'.
  rewrite Forall_forall in IH.
  assert (Hkeys': keys (tagset_of' alt) = kets alt None ++ keys []) by (rewrite (frag_keys alt Hfalt), app_nil_r; reflexivity).
  destruct (IH alt Hin sp alt (fun v => W (VChoice j v)) (S d) [] None n x h f' allow L Hsp' eq_refl Hkeys'
              (conj I (fun _ => conj eq_refl eq_refl)) Hokh ltac:(lia) Heoc Hsafe
              (fun k0 Hk0 => HL k0 (proj2 (in_flat_map _ _ _) (ex_intro _ alt (conj Hin Hk0)))) Hix)
    as (v & Hc & Ha & Hets & Hcd).
  exists (VChoice j v). split; [replace (S f' + d)%nat with (f' + S d)%nat by lia; exact Hc|].
  split; [rewrite (abs_choice alts j alt v Hn), Ha; reflexivity|].
  split; [apply (ets_choice alts j alt v Hn Hets)|].
  cbn [cdv]. rewrite (nth_error_nth alts j TNull Hn). change (ty_depth (TChoice alts)) with (S (alts_depth alts)). lia.
Qed.

(* a CHOICE under an EXPLICIT tag: the tag completes the tag set, the alternative follows with a header of its own *)
Lemma item_exp_choice t alts : non_univ t = true -> frag (TChoice alts) = true -> Forall item_ok alts ->
  item_ok0 (TExp t (TChoice alts)).
Proof.
  intros Ht Hfr IH sp T0 W d acc e n a h f allow L Hsp Hbase Hkeys [He _] Hokh Hfuel Heoc Hsafe HL Hint.
  destruct (interp_exp _ _ _ _ _ Hint) as (c & num & i & k & raw & -> & Hsame & Hint').
  destruct (interp_choice _ _ _ _ Hint') as (_ & j & alt & x & Hn & Hix & ->).
  destruct (choice_parts alts Hfr) as (Htm & Hnd & Hfa).
  pose proof (nth_error_In _ _ Hn) as Hin. destruct (Hfa alt Hin) as [Hfalt Hmalt].
  destruct (nok_kids _ _ _ _ _ _ Hokh) as (h' & -> & Hcnt & Hkids).
  change (ty_depth (TExp t (TChoice alts))) with (S (S (alts_depth alts))) in Hfuel.
  pose proof (alts_depth_in alts alt Hin) as Hdep.
  destruct (fuel_kids h' (S (alts_depth alts)) f Hfuel) as (f' & -> & Hfu).
  pose proof (nok_mono _ (S (S f')) _ Hokh ltac:(lia)) as Hok.
  inversion Hkids as [|? ? (Hnk & Hke & Hkl) _]; subst.
  pose proof (safe_kids _ _ _ _ _ _ Hsafe) as Hsk. inversion Hsk as [|? ? Hsk1 _]; subst.
  rewrite Forall_forall in IH.
  destruct (kid_item alt (SMap (fields_tagmap true alts)) i h' f' L k x (IH alt Hin) Hfalt (sp_ok_map true alts alt Htm Hnd Hin)
              (fun k0 Hk0 => HL k0 (proj2 (in_flat_map _ _ _) (ex_intro _ alt (conj Hin Hk0)))) Hnk ltac:(lia) Hke Hsk1 Hix)
    as (v & Hc & Ha & Hets & Hcd).
  exists (VChoice j v). split; [|rewrite abs_exp, (abs_choice alts j alt v Hn), Ha; reflexivity].
  cbn [kets app] in Hkeys.
  apply (base_item sp T0 W d acc e (key t) _ (S (S f')) allow DcChoice (mkDecFlags true (Some KChoice)) _ Hsp); try assumption.
  - rewrite Hbase. reflexivity.
  - assert (Hplace: choice_place (S (S f')) T0 alts (DV alt v) = Ret (DV T0 (VChoice j v))).
    { unfold choice_place. rewrite (position_leaf alts alt j (effective_tagset (S (S (S f'))) alt v) Htm Hnd Hn); [reflexivity|].
      apply Hets. lia. }
    assert (Htag: tagset_eqb (tagset_of' T0) (node_wire (Cons c num i [k] raw) :: acc) = true).
    { apply tagset_eqb_keys. rewrite Hkeys. cbn [keys map]. fold (keys acc). rewrite (same_tag_key _ _ Hsame). reflexivity. }
    cbn [dec_value]. rewrite Hbase. cbn [base_of]. unfold dec_choice. rewrite Htag.
    cbn [node_len node_body node_wire] in *. unfold kids_raw. cbn [map concat]. rewrite app_nil_r.
    destruct i.
    + (* indefinite: the alternative, then end-of-contents *)
      intros s tl Hav. rewrite <- app_assoc in Hav. cbn [choice_loop].
      destruct (Hc s ([0; 0] ++ tl) Hav) as (s1 & Hrun & Hp1 & Ha1 & Hc1).
      assert (Hav1: avail s1 = 0 :: 0 :: tl) by (apply (consumes_avail (node_raw k) s _ s1 Hav Hp1 Ha1)).
      rewrite (resume_pbind_done _ _ _ _ _ Hrun). rewrite Hplace. cbn [pbind choice_loop].
      rewrite (resume_pbind_done _ _ _ _ _ (dec_call_eoo (S f') _ _ _ s1 tl Hav1)). cbn [resume].
      exists (adv s1 2). split; [reflexivity|]. rewrite app_length. cbn [length].
      rewrite pos_adv. split; [lia|]. split; [rewrite arrived_adv; exact Ha1|rewrite closed_adv; exact Hc1].
    + rewrite ?app_nil_r. apply (consumes_bind_pure _ _ _ (DV alt v)); [exact Hc|exact Hplace].
Qed.

(* ====================================================================== *)
(* 10d. ANY                                                                  *)
(* ====================================================================== *)

Lemma interp_any e n a : interp TAny e n = Some a -> e = None /\ a = AAny (node_raw n).
Proof. cbn [interp]. destruct e; [discriminate|]. intros H. inversion H. split; reflexivity. Qed.

Fixpoint u0_free (n: node) : bool :=
  match n with
  | Prim c num _ _ => negb (tag_pair_eqb (c, num) (Univ, 0))
  | Cons c num _ kids _ => negb (tag_pair_eqb (c, num) (Univ, 0)) && forallb u0_free kids
  end.

Lemma safe_u0 L : memk (KN, (Univ, 0)) L = true -> forall n, safe L n = true -> u0_free n = true.
Proof.
  intros HL. induction n as [c num contents raw|c num indef kids raw IH] using node_ind'; intros Hs.
  - cbn [safe u0_free] in *. apply andb3 in Hs. destruct Hs as (_ & _ & Hu). unfold u0_ok in Hu. rewrite HL in Hu. exact Hu.
  - cbn [safe u0_free] in *. apply andb3 in Hs. destruct Hs as (_ & Hu & Hk). unfold u0_ok in Hu. rewrite HL in Hu.
    cbn [andb] in Hu. rewrite Hu. cbn [andb]. apply forallb_forall. intros k Hk0. rewrite Forall_forall in IH.
    rewrite forallb_forall in Hk. apply (IH k Hk0 (Hk k Hk0)).
Qed.

Lemma u0_wire n : u0_free n = true -> tag_eqb (node_wire n) (utag false 0) = false.
Proof.
  intros H. assert (Hk: tag_pair_eqb (key (node_wire n)) (Univ, 0) = false).
  { destruct n; cbn [u0_free] in H; [|apply andb_true_iff in H; destruct H as [H _]]; apply negb_true_iff in H; exact H. }
  unfold tag_pair_eqb, key in Hk. cbn [fst snd] in Hk. unfold tag_eqb, utag. cbn [tcls tnum].
  destruct (tcls (node_wire n)); cbn [cls_eqb class_no andb N.eqb] in *; try reflexivity. exact Hk.
Qed.

(* the dispatch of an untagged ANY: any tag but UNIVERSAL 0 *)
Lemma dispatch_any rec f t len sfun : tag_eqb t (utag false 0) = false ->
  dispatch BER rec f (STy TAny) [t] len sfun =
  match len with
  | Some l => run_def (dec_any f (Some TAny) [t] l sfun) l
  | None => dec_any_indef rec f (Some TAny) [t] sfun
  end.
Proof.
  intros Ht. unfold dispatch, tm_contains, tm_find, tm_mem, eoo_tagset.
  change (tagset_of' TAny) with (@nil tag). change (tagmap_of TAny) with (mkTmap [([], TAny)] [[utag false 0]] (Some TAny) false).
  cbn [tm_present tm_default tm_skip tm_postponed assoc tagset_eqb list_eqb existsb orb]. unfold tagset_eqb. cbn [list_eqb].
  rewrite Ht. cbn [andb orb negb]. destruct len; reflexivity.
Qed.

Definition any_result (sfun: bool) (raw: bytes) : dval := if sfun then DRaw raw else DV TAny (VAny raw).

Section AnyLoop.
  Variable rec : spec -> tagset -> option (option N) -> bool -> bool -> proc dval.
  Hypothesis rec_eoo : forall sp acc sfun s tl, avail s = 0 :: 0 :: tl ->
    resume (rec sp acc None true sfun) s = inr (Ok DEoo, adv s 2).

  Lemma any_indef_loop_run sp ts (sfun tagged: bool) : forall parts,
    Forall (fun p => consumes (rec (STy TAny) [] None true true) p (DRaw p)) parts ->
    forall n acc s tl, (length parts < n)%nat -> avail s = concat parts ++ [0; 0] ++ tl ->
    exists s', resume (any_indef_loop rec sp ts sfun tagged n acc) s
               = resume (let whole := acc ++ concat parts ++ (if tagged then [] else [0; 0]) in
                         if sfun then Ret (DRaw whole) else create sp TAny ts (VAny whole)) s'
      /\ pos s' = (pos s + (length (concat parts) + 2))%nat /\ arrived s' = arrived s /\ closed s' = closed s /\ mark s' = mark s' .
  Proof.
    intros parts HF. induction HF as [|p parts Hp HF IH]; intros n acc s tl Hn Hav.
    - destruct n as [|n']; [cbn [length] in Hn; lia|].
      cbn [any_indef_loop]. unfold fragment. cbn [concat app] in Hav.
      rewrite (resume_pbind_done _ _ _ _ _ (rec_eoo _ _ _ s tl Hav)). cbv zeta. cbn [concat app].
      exists (adv s 2). split; [reflexivity|]. repeat split.
    - destruct n as [|n']; [cbn [length] in Hn; lia|].
      cbn [any_indef_loop]. unfold fragment. cbn [concat] in Hav. rewrite <- app_assoc in Hav.
      destruct (Hp s _ Hav) as (s1 & Hrun & Hpos & Harr & Hcl).
      rewrite (resume_pbind_done _ _ _ _ _ Hrun).
      pose proof (consumes_avail p s _ s1 Hav Hpos Harr) as Hav1.
      cbn [length] in Hn.
      destruct (IH n' (acc ++ p) s1 tl ltac:(lia) Hav1) as (s2 & Hrun2 & Hpos2 & Harr2 & Hcl2 & _).
      exists s2. rewrite Hrun2. cbv zeta. rewrite <- !app_assoc. cbn [concat]. rewrite <- !app_assoc.
      split; [reflexivity|]. rewrite app_length. split; [lia|]. split; [congruence|]. split; [congruence|reflexivity].
  Qed.
End AnyLoop.

Lemma create_any T0 ts b : base_of T0 = TAny -> create (Some T0) TAny ts (VAny b) = Ret (DV T0 (VAny b)).
Proof. intros H. unfold create. rewrite H. reflexivity. Qed.

(* an untagged ANY: the whole TLV, in any form, as a value or as a fragment of an enclosing ANY *)
Theorem any_item : forall n f allow sfun,
  nok f n -> u0_free n = true -> (allow = true -> eoc_start (node_raw n) = false) ->
  consumes (dec_call BER (S f) (STy TAny) [] None allow sfun) (node_raw n) (any_result sfun (node_raw n)).
Proof.
  induction n as [c num contents raw|c num indef kids raw IH] using node_ind'; intros f allow sfun Hok Hu0 Heoc.
  - (* primitive: definite *)
    destruct Hok as (Hsh & Ho & Hmax & Hf). pose proof (u0_wire _ Hu0) as Ht.
    destruct (shape_split _ Hsh) as (ib & lb & Hi & Hl & Eraw). cbn [node_raw node_wire node_len node_body] in *.
    intros s tl Hav. rewrite Eraw in Hav. rewrite <- !app_assoc in Hav.
    rewrite (call_header f (STy TAny) [] allow sfun ib lb _ _ (contents ++ tl) s Hi Hl Hav).
    2:{ rewrite Eraw, !app_length in Hf. lia. }
    2:{ intros Ha. apply (eoc_start_prefix _ contents); [apply (hdr_len2 _ _ _ _ Hi Hl)|rewrite <- Eraw; apply Heoc; exact Ha]. }
    rewrite (dispatch_any _ _ _ _ _ Ht). unfold run_def, dec_any.
    change (tagset_of' TAny) with (@nil tag). unfold tagset_eqb. cbn [list_eqb negb].
    set (hl := (length ib + length lb)%nat). set (s1 := adv (setmark s (pos s)) hl).
    unfold getmark, tell. cbn [pbind]. cbn [resume].
    replace (pos s1 - mark s1)%nat with hl by (subst s1; cbn [pos mark adv setpos setmark]; lia).
    assert (Es2: setpos s1 (pos s1 - hl) = setmark s (pos s)).
    { subst s1. apply setpos_back. }
    rewrite Es2.
    assert (Hlen: N.of_nat (length contents) + N.of_nat hl = N.of_nat (length raw)).
    { rewrite Eraw, !app_length. subst hl. lia. }
    rewrite Hlen. unfold read_len.
    destruct (N.ltb_spec index_max (N.of_nat (length raw))) as [Hc|_]; [lia|].
    replace (N.to_nat (N.min (N.of_nat (length raw)) (N.of_nat (S f)))) with (length raw) by lia.
    unfold readN. cbn [pbind resume].
    rewrite (attempt_enough (setmark s (pos s)) (length raw) raw tl).
    2:{ rewrite avail_setmark, Hav, Eraw, <- !app_assoc. reflexivity. }
    2:{ reflexivity. }
    assert (Hfin: forall k : dval -> proc dval, (if sfun then Ret (DRaw raw) else create (Some TAny) TAny [mkTag c false num] (VAny raw))
                  = Ret (any_result sfun raw)).
    { intros _. destruct sfun; reflexivity. }
    rewrite (Hfin (fun x => Ret x)). cbn [pbind resume].
    replace (pos (adv (setmark s (pos s)) (length raw)) - pos s1)%nat with (length contents)
      by (subst s1 hl; cbn [pos adv setpos setmark]; rewrite Eraw, !app_length; lia).
    rewrite N.eqb_refl. cbn [resume].
    eexists. split; [reflexivity|]. cbn [pos arrived closed adv setpos setmark]. repeat split.
  - (* constructed *)
    pose proof Hok as (Hsh & Ho & Hmax & Hf). pose proof (u0_wire _ Hu0) as Ht.
    destruct (nok_kids _ _ _ _ _ _ Hok) as (f' & -> & Hcnt & Hkids).
    destruct (shape_split _ Hsh) as (ib & lb & Hi & Hl & Eraw). cbn [node_raw node_wire node_len node_body] in *.
    cbn [u0_free] in Hu0. apply andb_true_iff in Hu0. destruct Hu0 as [_ Hu0k].
    intros s tl Hav. rewrite Eraw in Hav. rewrite <- !app_assoc in Hav.
    rewrite (call_header (S (S f')) (STy TAny) [] allow sfun ib lb _ _ _ s Hi Hl Hav).
    2:{ rewrite Eraw, !app_length in Hf. lia. }
    2:{ intros Ha. apply (eoc_start_prefix _ (kids_raw kids ++ (if indef then [0; 0] else []))); [apply (hdr_len2 _ _ _ _ Hi Hl)|rewrite <- Eraw; apply Heoc; exact Ha]. }
    rewrite (dispatch_any _ _ _ _ _ Ht).
    set (hl := (length ib + length lb)%nat). set (s1 := adv (setmark s (pos s)) hl).
    destruct indef.
    + (* indefinite: the header again, then the members as raw fragments *)
      unfold dec_any_indef. change (tagset_of' TAny) with (@nil tag). unfold tagset_eqb. cbn [list_eqb].
      unfold getmark, tell. cbn [pbind]. cbn [resume].
      replace (pos s1 - mark s1)%nat with hl by (subst s1; cbn [pos mark adv setpos setmark]; lia).
      assert (Es2: setpos s1 (pos s1 - hl) = setmark s (pos s)) by (subst s1; apply setpos_back).
      rewrite Es2. unfold readN. cbn [pbind resume].
      rewrite (attempt_enough (setmark s (pos s)) hl (ib ++ lb) (kids_raw kids ++ [0; 0] ++ tl)).
      2:{ rewrite avail_setmark, Hav, <- !app_assoc. reflexivity. }
      2:{ subst hl. apply app_length. }
      fold s1.
      assert (Hparts: Forall (fun p => consumes (dec_call BER (S (S f')) (STy TAny) [] None true true) p (DRaw p)) (map node_raw kids)).
      { apply Forall_forall. intros p Hp. apply in_map_iff in Hp. destruct Hp as (k & <- & Hk).
        rewrite Forall_forall in IH, Hkids. destruct (Hkids k Hk) as (Hnk & Hke & _).
        rewrite forallb_forall in Hu0k.
        apply (IH k Hk (S f') true true (nok_mono _ _ _ Hnk (Nat.le_succ_diag_r f')) (Hu0k k Hk) Hke). }
      assert (Hav1: avail s1 = concat (map node_raw kids) ++ [0; 0] ++ tl).
      { subst s1 hl. rewrite avail_adv, avail_setmark, Hav. rewrite app_assoc, <- app_length. rewrite skipn_app_exact. reflexivity. }
      destruct (any_indef_loop_run (dec_call BER (S (S f'))) (dec_call_eoo (S f')) (Some TAny) [mkTag c true num] sfun false
                  (map node_raw kids) Hparts (S (S f')) (ib ++ lb) s1 tl ltac:(rewrite map_length; lia) Hav1)
        as (s2 & Hrun & Hpos & Harr & Hcl & _).
      rewrite Hrun. cbv zeta. fold (kids_raw kids).
      replace ((ib ++ lb) ++ kids_raw kids ++ [0; 0]) with raw by (rewrite Eraw, <- !app_assoc; reflexivity).
      assert (Hfin: (if sfun then Ret (DRaw raw) else create (Some TAny) TAny [mkTag c true num] (VAny raw)) = Ret (any_result sfun raw))
        by (destruct sfun; reflexivity).
      rewrite Hfin. cbn [resume]. exists s2. split; [reflexivity|].
      fold (kids_raw kids) in Hpos. rewrite Hpos, Harr, Hcl. subst s1 hl. cbn [pos arrived closed adv setpos setmark].
      rewrite Eraw, !app_length. cbn [length]. repeat split. lia.
    + (* definite *)
      rewrite app_nil_r in *. unfold run_def, dec_any.
      change (tagset_of' TAny) with (@nil tag). unfold tagset_eqb. cbn [list_eqb negb].
      unfold getmark, tell. cbn [pbind]. cbn [resume].
      replace (pos s1 - mark s1)%nat with hl by (subst s1; cbn [pos mark adv setpos setmark]; lia).
      assert (Es2: setpos s1 (pos s1 - hl) = setmark s (pos s)) by (subst s1; apply setpos_back).
      rewrite Es2.
      assert (Hlen: N.of_nat (length (kids_raw kids)) + N.of_nat hl = N.of_nat (length raw)).
      { rewrite Eraw, !app_length. subst hl. lia. }
      rewrite Hlen. unfold read_len.
      destruct (N.ltb_spec index_max (N.of_nat (length raw))) as [Hc|_]; [lia|].
      replace (N.to_nat (N.min (N.of_nat (length raw)) (N.of_nat (S (S (S f')))))) with (length raw) by lia.
      unfold readN. cbn [pbind resume].
      rewrite (attempt_enough (setmark s (pos s)) (length raw) raw tl).
      2:{ rewrite avail_setmark, Hav, Eraw, <- !app_assoc. reflexivity. }
      2:{ reflexivity. }
      assert (Hfin: (if sfun then Ret (DRaw raw) else create (Some TAny) TAny [mkTag c true num] (VAny raw)) = Ret (any_result sfun raw))
        by (destruct sfun; reflexivity).
      rewrite Hfin. cbn [pbind resume].
      replace (pos (adv (setmark s (pos s)) (length raw)) - pos s1)%nat with (length (kids_raw kids))
        by (subst s1 hl; cbn [pos adv setpos setmark]; rewrite Eraw, !app_length; lia).
      rewrite N.eqb_refl. cbn [resume].
      eexists. split; [reflexivity|]. cbn [pos arrived closed adv setpos setmark]. repeat split.
Qed.

(* ====================================================================== *)
(* 10e. ANY as a value, under its own type or under EXPLICIT tags             *)
(* ====================================================================== *)

Lemma item_any : item_ok TAny.
Proof.
  intros sp T0 W d acc e n a h f allow L Hsp Hbase Hkeys [He Hun] Hokh Hfuel Heoc Hsafe HL Hint.
  destruct (Hun eq_refl) as [-> ->]. destruct (so_any sp TAny W d Hsp eq_refl) as (-> & -> & HW).
  destruct (interp_any _ _ _ Hint) as [-> ->].
  pose proof (nok_mono h f n Hokh ltac:(lia)) as Hok.
  exists (VAny (node_raw n)). split; [|split; [reflexivity|]].
  - rewrite Nat.add_0_r, HW.
    apply (any_item n f allow false Hok (safe_u0 L (HL (KN, (Univ, 0)) (or_introl eq_refl)) n Hsafe) Heoc).
  - destruct (ets_plain TAny (VAny (node_raw n)) I) as [H1 H2]. split; [exact H1|rewrite H2; lia].
Qed.

Lemma item_exp_any t : non_univ t = true -> item_ok0 (TExp t TAny).
Proof.
  intros Ht sp T0 W d acc e n a h f allow L Hsp Hbase Hkeys [He _] Hokh Hfuel Heoc Hsafe HL Hint.
  destruct (interp_exp _ _ _ _ _ Hint) as (c & num & i & k & raw & -> & Hsame & Hint').
  destruct (interp_any _ _ _ Hint') as [_ ->].
  destruct (nok_kids _ _ _ _ _ _ Hokh) as (h' & -> & Hcnt & Hkids).
  change (ty_depth (TExp t TAny)) with 2%nat in Hfuel.
  destruct (fuel_kids h' 1 f Hfuel) as (f' & -> & Hfu).
  pose proof (nok_mono _ (S (S f')) _ Hokh ltac:(lia)) as Hok.
  inversion Hkids as [|? ? (Hnk & Hke & Hkl) _]; subst.
  pose proof (safe_kids _ _ _ _ _ _ Hsafe) as Hsk. inversion Hsk as [|? ? Hsk1 _]; subst.
  exists (VAny (node_raw k)). split; [|rewrite abs_exp; reflexivity].
  cbn [kets app] in Hkeys.
  assert (HbT: base_of T0 = TAny) by (rewrite Hbase; reflexivity).
  apply (base_item sp T0 W d acc e (key t) _ (S (S f')) allow DcAny (mkDecFlags true (Some KAny)) _ Hsp); try assumption.
  - rewrite HbT. reflexivity.
  - assert (Htag: tagset_eqb (node_wire (Cons c num i [k] raw) :: acc) (tagset_of' T0) = true).
    { apply tagset_eqb_keys. rewrite Hkeys. cbn [keys map]. fold (keys acc). rewrite (same_tag_key _ _ Hsame). reflexivity. }
    destruct Hok as (Hsh & Ho & Hfit). pose proof (fits_of_body _ _ Hfit Hsh) as Hfb.
    cbn [node_len node_body node_wire] in *. unfold kids_raw in *. cbn [map concat] in *. rewrite app_nil_r in *.
    destruct i; cbn [dec_value].
    + (* indefinite: one raw fragment, then end-of-contents *)
      unfold dec_any_indef. rewrite Htag. cbn [pbind].
      assert (Hparts: Forall (fun p => consumes (dec_call BER (S (S f')) (STy TAny) [] None true true) p (DRaw p)) [node_raw k]).
      { constructor; [|constructor].
        apply (any_item k (S f') true true (nok_mono h' (S f') k Hnk ltac:(lia))
                 (safe_u0 L (HL (KN, (Univ, 0)) (or_introl eq_refl)) k Hsk1) Hke). }
      intros s tl Hav. rewrite <- app_assoc in Hav.
      destruct (any_indef_loop_run (dec_call BER (S (S f'))) (dec_call_eoo (S f')) (Some T0) (mkTag c true num :: acc) false true
                  [node_raw k] Hparts (S (S f')) [] s tl ltac:(cbn [length]; lia)
                  ltac:(cbn [concat]; rewrite app_nil_r; exact Hav)) as (s2 & Hrun & Hpos & Harr & Hcl & _).
      rewrite Hrun. cbv zeta. cbn [concat app]. rewrite !app_nil_r. rewrite (create_any T0 _ _ HbT). cbn [resume].
      exists s2. split; [reflexivity|]. cbn [concat] in Hpos. rewrite app_nil_r in Hpos. rewrite app_length. cbn [length].
      repeat split; assumption.
    + rewrite ?app_nil_r in *. unfold dec_any. rewrite Htag. cbn [negb pbind].
      apply consumes_ret; [exact Hfb|apply (create_any T0 _ _ HbT)].
Qed.

(* ====================================================================== *)
(* 11. every type of the fragment                                            *)
(* ====================================================================== *)

Lemma base_kets_ne T : (match T with TImp _ _ | TExp _ _ | TChoice _ | TAny => False | _ => True end) -> forall e, kets T e <> [].
Proof. intros H e. destruct T; try contradiction; discriminate. Qed.

Theorem all_items_strong : forall T, frag T = true ->
  item_ok T /\ match T with TChoice alts => Forall item_ok alts | _ => True end.
Proof.
  induction T as [| | | | | | | | n|fs IH|fs IH|t IH|t IH|alts IH| |tg x IH|tg x IH] using ty_ind'; intros Hfr;
    try (split; [|exact I]).
  - apply item_up; [apply base_kets_ne; exact I|exact item_bool].
  - apply item_up; [apply base_kets_ne; exact I|exact item_int].
  - apply item_up; [apply base_kets_ne; exact I|exact item_enum].
  - apply item_up; [apply base_kets_ne; exact I|exact item_bits].
  - apply item_up; [apply base_kets_ne; exact I|exact item_octs].
  - apply item_up; [apply base_kets_ne; exact I|exact item_null].
  - apply item_up; [apply base_kets_ne; exact I|exact item_oid].
  - apply item_up; [apply base_kets_ne; exact I|exact item_real].
  - apply item_up; [apply base_kets_ne; exact I|apply item_str; exact Hfr].
  - apply item_up; [apply base_kets_ne; exact I|].
    cbn [frag] in Hfr. apply andb_true_iff in Hfr. destruct Hfr as [Hfr Hruns]. apply andb_true_iff in Hfr. destruct Hfr as [Hfrs Hmap].
    assert (HIH: Forall (fun f => item_ok (snd f)) fs).
    { clear -IH Hfrs. induction IH as [|x fs Hx _ IHf]; [constructor|].
      cbn [forallb] in Hfrs. apply andb_true_iff in Hfrs. destruct Hfrs as [H1 H2].
      constructor; [apply Hx; exact H1|apply IHf; exact H2]. }
    destruct (forallb (fun f => is_req (fst f)) fs) eqn:Ereq.
    + apply item_seq; [|exact HIH].
      clear -Ereq Hfrs. induction fs as [|x fs IHf]; [reflexivity|].
      cbn [forallb] in *. apply andb_true_iff in Ereq. destruct Ereq as [E1 E2]. apply andb_true_iff in Hfrs. destruct Hfrs as [H1 H2].
      rewrite E1, H1, (IHf H2 E2). reflexivity.
    + cbn [orb] in Hmap. apply item_seq_opt; try assumption.
      apply forallb_forall. intros x Hx. rewrite forallb_forall in Hfrs, Hmap. rewrite (Hfrs x Hx), (Hmap x Hx). reflexivity.
  - apply item_up; [apply base_kets_ne; exact I|].
    cbn [frag] in Hfr. apply andb_true_iff in Hfr. destruct Hfr as [Hfrs Hnd]. apply item_set; [exact Hfrs|exact Hnd|].
    clear -IH Hfrs. induction IH as [|x fs Hx _ IHf]; [constructor|].
    cbn [forallb] in Hfrs. apply andb_true_iff in Hfrs. destruct Hfrs as [H1 H2]. apply andb_true_iff in H1. destruct H1 as [H1 _].
    constructor; [apply Hx; exact H1|apply IHf; exact H2].
  - apply item_up; [apply base_kets_ne; exact I|]. apply item_seqof; [exact Hfr|apply IH; exact Hfr].
  - apply item_up; [apply base_kets_ne; exact I|]. apply item_setof; [exact Hfr|apply IH; exact Hfr].
  - (* CHOICE *)
    assert (HIH: Forall item_ok alts).
    { pose proof Hfr as Hf. cbn [frag] in Hf. apply andb_true_iff in Hf. destruct Hf as [Hf _].
      clear -IH Hf. induction IH as [|x alts Hx _ IHf]; [constructor|].
      cbn [forallb] in Hf. apply andb_true_iff in Hf. destruct Hf as [H1 H2]. apply andb_true_iff in H1. destruct H1 as [H1 _].
      constructor; [apply Hx; exact H1|apply IHf; exact H2]. }
    split; [apply item_choice; assumption|exact HIH].
  - exact item_any.
  - cbn [frag] in Hfr. apply andb_true_iff in Hfr. destruct Hfr as [H1 H2]. apply andb_true_iff in H1. destruct H1 as [H1 Hh].
    apply item_imp; [exact H1|exact Hh|apply IH; exact H2].
  - cbn [frag] in Hfr. apply andb_true_iff in Hfr. destruct Hfr as [H1 H2].
    destruct x; try (apply item_exp; [exact H1|apply (frag_headed _ H2 eq_refl I)|apply IH; exact H2]).
    + apply item_up; [intros e; cbn [kets]; discriminate|]. apply item_exp_choice; [exact H1|exact H2|apply (IH H2)].
    + apply item_up; [intros e; cbn [kets]; discriminate|]. apply item_exp_any. exact H1.
Qed.

Theorem all_items : forall T, frag T = true -> item_ok T.
Proof. intros T H. apply (all_items_strong T H). Qed.

Lemma decode_is_decode_with c sp b : decode c sp b = decode_with c (dec_fuel sp b) sp b.
Proof. reflexivity. Qed.

Lemma mkey_eqb_refl k : mkey_eqb k k = true.
Proof. unfold mkey_eqb, tag_pair_eqb. rewrite !N.eqb_refl. destruct (fst k); reflexivity. Qed.

Lemma memk_in k L : In k L -> memk k L = true.
Proof. intros H. apply existsb_exists. exists k. split; [exact H|apply mkey_eqb_refl]. Qed.

Definition of_kind (q: kind) (L: list mkey) : list mkey := filter (fun x : mkey => kind_eqb (fst x) q) L.

Lemma memk_of_kind q k : forall L, memk (q, k) (of_kind q L) = memk (q, k) L.
Proof.
  induction L as [|[q0 k0] L IH]; [reflexivity|]. unfold of_kind in *. cbn [filter fst].
  destruct (kind_eqb q0 q) eqn:E.
  - unfold memk in *. cbn [existsb]. rewrite IH. reflexivity.
  - unfold memk in *. cbn [existsb]. rewrite IH. unfold mkey_eqb at 2. cbn [fst].
    replace (kind_eqb q q0) with false by (destruct q, q0; try reflexivity; discriminate E). reflexivity.
Qed.

Lemma memk_other_kind q q' k : q <> q' -> forall L, memk (q, k) (of_kind q' L) = false.
Proof.
  intros Hne. induction L as [|[q0 k0] L IH]; [reflexivity|]. unfold of_kind in *. cbn [filter fst].
  destruct (kind_eqb q0 q') eqn:E; [|exact IH].
  unfold memk in *. cbn [existsb]. rewrite IH. unfold mkey_eqb. cbn [fst].
  replace (kind_eqb q q0) with false by (destruct q, q0, q'; try reflexivity; try discriminate E; congruence). reflexivity.
Qed.

(* SIDE CONDITION 1: every primitive node under a (class, number) a REAL of T can carry has, if it is a
   binary encoding, at least one mantissa octet *)
Definition real_mantissas_present (T: ty) (n: node) : bool := safe (of_kind KR (side_keys T None)) n.
(* SIDE CONDITION 2: under a (class, number) that a character string of T with an ASCII repertoire
   (NumericString, PrintableString, IA5String, VisibleString, the time types, UTF8String) can carry,
   every octet of every primitive leaf is below 128 (the library checks the repertoire, X.690 does not) *)
Definition ascii_strings_ascii (T: ty) (n: node) : bool := safe (of_kind KA (side_keys T None)) n.
(* SIDE CONDITION 3: if an ANY occurs in T, no node carries the reserved tag UNIVERSAL 0 (the library
   keeps that tag for the end-of-contents octets and never takes it for an ANY value) *)
Definition any_without_tag_zero (T: ty) (n: node) : bool := safe (of_kind KN (side_keys T None)) n.

Lemma u0_ok_of_kind L c num : u0_ok (of_kind KN L) c num = u0_ok L c num.
Proof. unfold u0_ok. rewrite memk_of_kind. reflexivity. Qed.
Lemma u0_ok_other q L c num : q <> KN -> u0_ok (of_kind q L) c num = true.
Proof. intros H. unfold u0_ok. rewrite (memk_other_kind KN q) by congruence. reflexivity. Qed.

Lemma safe_split L : forall n, safe (of_kind KR L) n = true -> safe (of_kind KA L) n = true -> safe (of_kind KN L) n = true ->
  safe L n = true.
Proof.
  induction n as [c num contents raw|c num indef kids raw IH] using node_ind'; intros H2 H3 H4.
  - cbn [safe] in *. rewrite memk_of_kind in H2, H3. rewrite u0_ok_of_kind in H4.
    apply andb3 in H2. apply andb3 in H3. apply andb3 in H4.
    destruct H2 as (H2 & _ & _). destruct H3 as (_ & H3 & _). destruct H4 as (_ & _ & H4). rewrite H2, H3, H4. reflexivity.
  - cbn [safe] in *. rewrite memk_of_kind in H3. rewrite u0_ok_of_kind in H4.
    apply andb3 in H2. apply andb3 in H3. apply andb3 in H4.
    destruct H2 as (_ & _ & H2b). destruct H3 as (H3a & _ & H3b). destruct H4 as (_ & H4a & H4b).
    rewrite H3a, H4a. cbn [andb]. apply forallb_forall. intros k Hk. rewrite Forall_forall in IH.
    rewrite forallb_forall in H2b, H3b, H4b. apply (IH k Hk (H2b k Hk) (H3b k Hk) (H4b k Hk)).
Qed.

(* C09, tree form: whatever TLV tree the reference parses off the front of b and interprets under T as
   the abstract value a, the library's decoder returns a value of T with that abstract value and leaves
   the same remainder *)
Theorem ber_all_forms_tree : forall T b n a tl,
  frag T = true -> wf_bytes b = true -> N.of_nat (length b) <= index_max ->
  parse b = Some (n, tl) -> interp T None n = Some a ->
  real_mantissas_present T n = true -> ascii_strings_ascii T n = true -> any_without_tag_zero T n = true ->
  exists v, decode BER (Some T) b = Ok (DV T v, tl) /\ abs T v = a.
Proof.
  intros T b n a tl Hfr Hwf Hmax Hparse Hint Hsafe2 Hsafe3 Hsafe4.
  pose proof (safe_split (side_keys T None) n Hsafe2 Hsafe3 Hsafe4) as Hsafe.
  pose proof (wf_bytes_octs b Hwf) as Hb.
  destruct (parse_shape b n tl Hb Hparse) as [Hsh Eb].
  assert (Hkeys: keys (tagset_of' T) = kets T None ++ keys []) by (rewrite (frag_keys T Hfr), app_nil_r; reflexivity).
  set (f := (2 * length b + 2 * ty_depth T + 5)%nat).
  assert (Hok: nok (length b) n).
  { split; [exact Hsh|]. split; [rewrite Eb in Hb; apply octs_app in Hb; tauto|].
    assert (Hl: (length (node_raw n) <= length b)%nat) by (rewrite Eb, app_length; lia).
    split; lia. }
  destruct (all_items T Hfr (STy T) T (DV T) 0%nat [] None n a (length b) f false (side_keys T None) (sp_sty T Hfr) eq_refl Hkeys
              (conj I (fun _ => conj eq_refl eq_refl)) Hok ltac:(subst f; lia) ltac:(discriminate) Hsafe
              (fun k Hk0 => memk_in k _ Hk0) Hint) as (v & Hc & Ha & _).
  exists v. split; [|exact Ha].
  rewrite decode_is_decode_with. rewrite Eb at 2.
  apply RoundTrip1.consumes_decode_with. unfold dec_item, dec_fuel.
  replace (2 * length b + 2 * ty_depth T + 6)%nat with (S (f + 0)) by (subst f; lia). exact Hc.
Qed.

(* C09 in the shape of the property: read = parse + interp *)
Theorem ber_all_forms : forall T b a tl,
  frag T = true -> wf_bytes b = true -> N.of_nat (length b) <= index_max ->
  X690.read T b = Some (a, tl) ->
  (forall n r, parse b = Some (n, r) ->
     real_mantissas_present T n = true /\ ascii_strings_ascii T n = true /\ any_without_tag_zero T n = true) ->
  exists v, decode BER (Some T) b = Ok (DV T v, tl) /\ abs T v = a.
Proof.
  intros T b a tl Hfr Hwf Hmax Hread Hsafe. unfold X690.read in Hread.
  destruct (parse b) as [[n rest]|] eqn:Hp; [|discriminate Hread].
  destruct (interp T None n) as [a'|] eqn:Hi; [|discriminate Hread]. cbn [opt_bind] in Hread.
  inversion Hread; subst a' rest.
  destruct (Hsafe n tl eq_refl) as (H2 & H3 & H4).
  apply (ber_all_forms_tree T b n a tl Hfr Hwf Hmax Hp Hi H2 H3 H4).
Qed.

(* types in which no REAL, no ASCII-repertoire string and no ANY occurs need no side condition *)
Lemma safe_nil : forall n, safe [] n = true.
Proof.
  induction n as [c num contents raw|c num indef kids raw IH] using node_ind'; [reflexivity|].
  cbn [safe memk existsb u0_ok]. cbn [negb andb orb]. apply forallb_forall. intros k Hk.
  rewrite Forall_forall in IH. apply IH. exact Hk.
Qed.

Theorem ber_all_forms_unconditional : forall T b a tl,
  frag T = true -> side_keys T None = [] -> wf_bytes b = true -> N.of_nat (length b) <= index_max ->
  X690.read T b = Some (a, tl) ->
  exists v, decode BER (Some T) b = Ok (DV T v, tl) /\ abs T v = a.
Proof.
  intros T b a tl Hfr Hnb Hwf Hmax Hread. apply (ber_all_forms T b a tl Hfr Hwf Hmax Hread).
  intros n r _. unfold real_mantissas_present, ascii_strings_ascii, any_without_tag_zero. rewrite Hnb.
  unfold of_kind. cbn [filter]. repeat split; apply safe_nil.
Qed.

(* the hypotheses are satisfiable on an input that uses the liberties of the basic rules: indefinite
   and definite lengths mixed, a long-form length for one octet, over-long length octets, a long-form
   tag number, a segmented BIT STRING with a nested constructed segment under an IMPLICIT tag, a
   constructed IA5String, an OPTIONAL and a DEFAULT component absent, an OPTIONAL untagged CHOICE whose
   alternative is an EXPLICITly tagged CHOICE holding a segmented OCTET STRING, SET members out of order
   (REAL, BOOLEAN, OID; the DEFAULT member absent), TRUE as 07, a binary REAL, an untagged ANY holding an
   indefinite-length SEQUENCE, an EXPLICITly tagged ANY, octets left unread *)
Definition ex_T : ty :=
  TSeq [(Req, TExp (mkTag Ctx false 0) TInt); (Opt, TNull); (Def (VBool true), TBool);
        (Req, TImp (mkTag Appl false 40) TBits); (Req, TSeqOf (TStr 22));
        (Opt, TChoice [TStr 12; TExp (mkTag Ctx false 3) (TChoice [TInt; TOcts]); TChoice [TEnum; TImp (mkTag Ctx false 4) TNull]]);
        (Req, TSet [(Req, TBool); (Opt, TOid); (Def (VInt 7%Z), TImp (mkTag Ctx false 2) TInt); (Req, TReal)]);
        (Req, TSeq [(Req, TAny); (Req, TExp (mkTag Ctx false 6) TAny)])].
Definition ex_b : bytes :=
  [48; 128;  160; 128; 2; 129; 1; 5; 0; 0;   127; 40; 128; 3; 2; 0; 170; 35; 4; 3; 2; 4; 240; 0; 0;
   48; 131; 0; 0; 5; 54; 3; 4; 1; 72;
   163; 128; 36; 128; 4; 1; 9; 0; 0; 0; 0;
   49; 12;  9; 3; 128; 255; 5;   1; 1; 7;   6; 2; 42; 3;
   48; 128;  48; 128; 5; 0; 0; 0;  166; 3; 4; 1; 7;  0; 0;
   0; 0;  9; 9].
Definition ex_bits : list bool := [true; false; true; false; true; false; true; false; true; true; true; true].

Example ber_all_forms_nonvacuous :
  frag ex_T = true /\ wf_bytes ex_b = true /\ N.of_nat (length ex_b) <= index_max
  /\ X690.read ex_T ex_b
     = Some (ARec [Some (AInt 5); None; Some (ABool true); Some (ABits ex_bits); Some (AList [AOcts [72]]);
                   Some (AChoice 1 (AChoice 1 (AOcts [9])));
                   Some (ARec [Some (ABool true); Some (AOid [1; 2; 3]); Some (AInt 7); Some (AReal (ABin 5 (-1)))]);
                   Some (ARec [Some (AAny [48; 128; 5; 0; 0; 0]); Some (AAny [4; 1; 7])])], [9; 9])
  /\ (forall n r, parse ex_b = Some (n, r) ->
        real_mantissas_present ex_T n = true /\ ascii_strings_ascii ex_T n = true /\ any_without_tag_zero ex_T n = true)
  /\ decode BER (Some ex_T) ex_b
     = Ok (DV ex_T (VRec [Some (VInt 5); None; None; Some (VBits ex_bits); Some (VList [VOcts [72]]);
                          Some (VChoice 1 (VChoice 1 (VOcts [9])));
                          Some (VRec [Some (VBool true); Some (VOid [1; 2; 3]); None; Some (VReal (RBin 5 (-1)))]);
                          Some (VRec [Some (VAny [48; 128; 5; 0; 0; 0]); Some (VAny [4; 1; 7])])]), [9; 9]).
Proof.
  split; [vm_compute; reflexivity|]. split; [vm_compute; reflexivity|]. split; [vm_compute; discriminate|].
  split; [vm_compute; reflexivity|]. split; [|vm_compute; reflexivity].
  intros n r H. assert (E: parse ex_b <> None) by (rewrite H; discriminate).
  revert H. destruct (parse ex_b) as [[n0 r0]|] eqn:Hp; [|congruence].
  intros H. inversion H; subst n0 r0. clear H E.
  assert (Hc: match parse ex_b with
              | Some (n1, _) => real_mantissas_present ex_T n1 && (ascii_strings_ascii ex_T n1 && any_without_tag_zero ex_T n1)
              | None => false end = true)
    by (vm_compute; reflexivity).
  rewrite Hp in Hc. apply andb_true_iff in Hc. destruct Hc as [H1 H2]. apply andb_true_iff in H2. tauto.
Qed.

(* the first side condition is needed as the reference stands *)
Example real_refuted_empty_mantissa :
  X690.read TReal [9; 2; 128; 0] = Some (AReal AZero, []) /\ decode BER (Some TReal) [9; 2; 128; 0] = Err EMalformed.
Proof. vm_compute. split; reflexivity. Qed.

(* the second side condition reflects a check the library makes and X.690 does not *)
Example ascii_refuted_high_octet :
  X690.read (TStr 22) [22; 1; 200] = Some (AOcts [200], []) /\ decode BER (Some (TStr 22)) [22; 1; 200] = Err EUnicode
  /\ X690.read (TStr 22) [54; 128; 4; 1; 72; 36; 3; 4; 1; 105; 0; 0] = Some (AOcts [72; 105], [])
  /\ decode BER (Some (TStr 22)) [54; 128; 4; 1; 72; 36; 3; 4; 1; 105; 0; 0] = Ok (DV (TStr 22) (VOcts [72; 105]), []).
Proof. vm_compute. repeat split. Qed.

(* the third side condition: an ANY value tagged UNIVERSAL 0 is read by the reference, not by the library *)
Example any_refuted_tag_zero :
  X690.read TAny [0; 1; 7] = Some (AAny [0; 1; 7], []) /\ decode BER (Some TAny) [0; 1; 7] = Err EMalformed
  /\ X690.read TAny [36; 128; 4; 1; 7; 0; 0; 5] = Some (AAny [36; 128; 4; 1; 7; 0; 0], [5])
  /\ decode BER (Some TAny) [36; 128; 4; 1; 7; 0; 0; 5] = Ok (DV TAny (VAny [36; 128; 4; 1; 7; 0; 0]), [5]).
Proof. vm_compute. repeat split. Qed.

(* outside the fragment (an untagged ANY as alternative of an untagged CHOICE is chosen by the tag map's
   default, not by a tag), but in agreement since the library keeps the marked position on re-entry
   (formerly the identifier and length octets were lost: VAny [7]): the whole TLV, in either length form *)
Example choice_any_alternative_whole_tlv :
  X690.read (TChoice [TInt; TAny]) [4; 1; 7] = Some (AChoice 1 (AAny [4; 1; 7]), [])
  /\ decode BER (Some (TChoice [TInt; TAny])) [4; 1; 7] = Ok (DV (TChoice [TInt; TAny]) (VChoice 1 (VAny [4; 1; 7])), [])
  /\ X690.read (TChoice [TInt; TAny]) [36; 128; 4; 1; 7; 0; 0; 9] = Some (AChoice 1 (AAny [36; 128; 4; 1; 7; 0; 0]), [9])
  /\ decode BER (Some (TChoice [TInt; TAny])) [36; 128; 4; 1; 7; 0; 0; 9]
     = Ok (DV (TChoice [TInt; TAny]) (VChoice 1 (VAny [36; 128; 4; 1; 7; 0; 0])), [9])
  /\ decode BER (Some (TSeq [(Opt, TInt); (Req, TAny)])) [48; 3; 4; 1; 7]
     = Ok (DV (TSeq [(Opt, TInt); (Req, TAny)]) (VRec [None; Some (VAny [4; 1; 7])]), []).
Proof. vm_compute. repeat split. Qed.

Print Assumptions split_ident_dec_ident.
Print Assumptions split_length_dec_len.
Print Assumptions parse_one_shape.
Print Assumptions oid_leaf.
Print Assumptions real_leaf.
Print Assumptions octet_string_item.
Print Assumptions bit_string_item.
Print Assumptions any_item.
Print Assumptions all_items.
Print Assumptions ber_all_forms_tree.
Print Assumptions ber_all_forms.
Print Assumptions ber_all_forms_unconditional.

(* former name *)
Definition ber_all_forms_no_bits := ber_all_forms_unconditional.


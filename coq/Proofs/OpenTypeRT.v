(* C18 without premises: the open-type theorems of Proofs/OpenType.v carry the round trip of the enclosing
   record (and of the inner value) as a premise ([roundtrips]: for EVERY value, which no codec theorem gives -
   the codec theorems speak of the values of the type).  Here the premise is discharged with the round-trip
   theorems of the whole type universe (Proofs/RoundTrip3e.v [stage3_generic], Proofs/RoundTripModes3.v
   [modes3_decode]) and the statements are unconditional: for every record type of the stage-3 universe with an
   open member, every governing value, every inner type of the universe and every inner value. *)
From Coq Require Import Lia Permutation.
From PV Require Import Base.Bytes Model.Tag Model.TableTypes Model.Types Model.Proc Model.Enc Model.Dec Model.Obs Gen.Tables
     Model.OpenType Model.OpenTypeDef Proofs.OpenType Proofs.OpenTypeDef
     Proofs.TagOctets Proofs.TagAlgebra Proofs.DecFrame Proofs.TagsetShape
     Proofs.RoundTrip1 Proofs.RoundTrip2 Proofs.RoundTrip3 Proofs.RoundTrip3b Proofs.RoundTrip3c Proofs.RoundTrip3e Proofs.RoundTrip3f
     Proofs.RoundTripModesC Proofs.RoundTripModes Proofs.RoundTripModes3b Proofs.RoundTripModes3c Proofs.RoundTripModes3f Proofs.RoundTripModes3.
Local Open Scope N_scope.

(* ====================================================================================================== *)
(* Part 1.  What the first pass fixes, from a round trip stated with [aeq] (equality of abstract contents up
   to the order of SET OF elements; plain equality is the special case [aeq_refl]).  Proofs/OpenType.v has
   this for the boolean comparison [aval_eqb], which is not reflexive (float REALs) and so cannot be fed
   from an equality. *)

Lemma aeq_to_leaf a b : aeq a b -> aleaf b -> a = b.
Proof. intros H Hl. apply aeq_sym in H. exact (aeq_leaf_inv b a H Hl). Qed.

Lemma aeq_to_rec a ys : aeq a (ARec ys) -> exists xs, a = ARec xs /\ Forall2 (RoundTrip3.opt_rel aeq) xs ys.
Proof.
  intros H. apply aeq_sym in H. destruct (aeq_rec_inv ys a H) as (xs & -> & HF).
  exists xs. split; [reflexivity|].
  clear H. induction HF as [|x y l1 l2 Hxy HF IH]; constructor; [|exact IH].
  destruct Hxy as [|x y Hxy]; [apply RoundTrip3.opt_rel_none|apply RoundTrip3.opt_rel_some; apply aeq_sym; exact Hxy].
Qed.

Lemma abs_is_rec T fs v l : rec_fields T = Some fs -> abs T v = ARec l -> exists vs, v = VRec vs.
Proof.
  intros H E. rewrite abs_base in E. unfold rec_fields in H.
  destruct (base_of T); try discriminate H; destruct v; cbn [abs] in E; try discriminate E; eauto.
Qed.

Lemma opt_rel_nth (l1 l2: list (option aval)) : Forall2 (RoundTrip3.opt_rel aeq) l1 l2 ->
  forall i a, nth i l2 None = Some a -> exists a', nth i l1 None = Some a' /\ aeq a' a.
Proof.
  induction 1 as [|x y l1 l2 Hxy HF IH]; intros i a Hn.
  - destruct i; discriminate Hn.
  - destruct i as [|i]; cbn [nth] in *.
    + subst y. inversion Hxy; subst. eauto.
    + exact (IH i a Hn).
Qed.

Lemma abs_any_octets_eq ft v b : is_any ft = true -> abs ft v = AAny b -> octets_of v = Some b.
Proof.
  intros Ha E. apply (abs_any_octets ft v b Ha). rewrite E. cbn [aval_eqb]. apply bytes_eqb_refl.
Qed.

Lemma abs_gov_eq gT g g' : gov_ok gT g = true -> abs gT g' = abs gT g -> g' = g.
Proof.
  intros Hok E. rewrite (abs_base gT g'), (abs_base gT g) in E. unfold gov_ok in Hok.
  destruct (base_of gT); destruct g; try discriminate Hok; destruct g'; cbn [abs] in E; try discriminate E;
    inversion E; reflexivity.
Qed.

Lemma gov_leaf gT g : gov_ok gT g = true -> aleaf (abs gT g).
Proof.
  intros Hok. rewrite (abs_base gT g). unfold gov_ok in Hok.
  destruct (base_of gT); destruct g; try discriminate Hok; exact I.
Qed.

Section ScalarA.
  Variables (c: codec) (T: ty) (fs: list (presence * ty)) (gi oi: nat).
  Variables (p: presence) (ft gT: ty) (pg: presence).
  Hypothesis Hrec : rec_fields T = Some fs.
  Hypothesis Hoi : nth_error fs oi = Some (p, ft).
  Hypothesis Hgi : nth_error fs gi = Some (pg, gT).
  Hypothesis Hany : is_any ft = true.
  Hypothesis Hp : not_def p.
  Hypothesis Hpg : not_def pg.
  Variables (vs: list (option val)) (g: val) (chunk: bytes).
  Hypothesis Hg : nth gi vs None = Some g.
  Hypothesis Hgok : gov_ok gT g = true.
  Hypothesis Hne : gi <> oi.
  Hypothesis Hlen : (oi < length vs)%nat.

  Let sent := VRec (set_nth oi (Some (VAny chunk)) vs).

  Lemma first_pass_facts_a : forall v',
    aeq (abs T v') (abs T sent) ->
    exists vs', v' = VRec vs' /\
      (exists fv, nth oi vs' None = Some fv /\ octets_of fv = Some chunk) /\
      nth gi vs' None = Some g.
  Proof.
    intros v' E. unfold sent in E. rewrite (abs_record T fs _ Hrec) in E.
    destruct (aeq_to_rec _ _ E) as (xs & Hx & HF).
    destruct (abs_is_rec T fs v' xs Hrec Hx) as [vs' ->].
    rewrite (abs_record T fs _ Hrec) in Hx. inversion Hx; subst xs; clear Hx.
    exists vs'. split; [reflexivity|]. split.
    - assert (Hn: nth oi (abs_fields fs (set_nth oi (Some (VAny chunk)) vs)) None = Some (abs ft (VAny chunk)))
        by (eapply abs_fields_nth_set; eauto).
      destruct (opt_rel_nth _ _ HF _ _ Hn) as [a' [Ha' Ea']].
      rewrite (abs_any_VAny ft chunk Hany) in Ea'.
      apply aeq_to_leaf in Ea'; [|exact I]. subst a'.
      destruct (nth oi vs' None) as [fv|] eqn:Hfv.
      + exists fv. split; [reflexivity|].
        rewrite (abs_fields_nth fs vs' oi p ft fv Hoi Hfv) in Ha'. inversion Ha' as [Ha2].
        exact (abs_any_octets_eq ft fv chunk Hany Ha2).
      + rewrite (abs_fields_nth_none fs vs' oi p ft Hoi Hp Hfv) in Ha'. discriminate.
    - assert (Hgs: nth gi (set_nth oi (Some (VAny chunk)) vs) None = Some g)
        by (rewrite nth_set_nth_other; auto).
      pose proof (abs_fields_nth fs _ gi pg gT g Hgi Hgs) as Hn.
      destruct (opt_rel_nth _ _ HF _ _ Hn) as [a' [Ha' Ea']].
      apply aeq_to_leaf in Ea'; [|exact (gov_leaf gT g Hgok)]. subst a'.
      destruct (nth gi vs' None) as [g'|] eqn:Hg'.
      + rewrite (abs_fields_nth fs vs' gi pg gT g' Hgi Hg') in Ha'. inversion Ha' as [Ha2].
        f_equal. exact (abs_gov_eq gT g g' Hgok Ha2).
      + rewrite (abs_fields_nth_none fs vs' gi pg gT Hgi Hpg Hg') in Ha'. discriminate.
  Qed.

  Variables (dflt override: omap) (dot: bool) (wire: bytes).
  Variable v' : val.
  Hypothesis Hfirst : decode c (Some T) wire = Ok (DV T v', []).
  Hypothesis Hobs : aeq (abs T v') (abs T sent).

  (* resolution off, or the governing value in neither map: the member holds exactly [chunk] *)
  Lemma raw_a :
    (dot = false /\ override = []) \/ resolve_type override dflt g = None ->
    exists vs' fv, v' = VRec vs' /\ dec_open c T gi oi dflt override dot wire = Ok (DV T (VRec vs'), [])
                   /\ nth oi vs' None = Some fv /\ octets_of fv = Some chunk.
  Proof.
    intros Hoff. destruct (first_pass_facts_a v' Hobs) as [vs' [-> [[fv [Hfv Ho]] Hg']]].
    exists vs', fv. split; [reflexivity|]. split; [|split; assumption].
    unfold dec_open, dec_open_after. rewrite Hfirst. cbn [bind].
    destruct Hoff as [[-> ->] | Hun]; [reflexivity|].
    destruct (negb (dot || match override with [] => false | _ :: _ => true end)); [reflexivity|].
    rewrite Hrec. unfold second_pass. rewrite Hoi, Hfv, Hg', Hun. reflexivity.
  Qed.

  (* resolution on, governing value mapped to E, [chunk] decodes as E to w: the member becomes w *)
  Lemma resolved_a : forall E w,
    (dot = true \/ override <> []) ->
    resolve_type override dflt g = Some E ->
    no_eoo_prefix chunk = true ->
    decode c (Some E) chunk = Ok (DV E w, []) ->
    exists vs', v' = VRec vs' /\ nth gi vs' None = Some g /\
      dec_open c T gi oi dflt override dot wire
        = Ok (DV (subst_field T oi E) (VRec (set_nth oi (Some w) vs')), []).
  Proof.
    intros E w Hon Hmap Hpre Hin. destruct (first_pass_facts_a v' Hobs) as [vs' [-> [[fv [Hfv Ho]] Hg']]].
    exists vs'. split; [reflexivity|]. split; [exact Hg'|].
    unfold dec_open, dec_open_after. rewrite Hfirst. cbn [bind].
    assert (Hr: (dot || match override with [] => false | _ :: _ => true end) = true).
    { destruct Hon as [-> | Hov]; [reflexivity|]. destruct override; [congruence|]. apply Bool.orb_true_r. }
    rewrite Hr. cbn [negb]. cbv iota. rewrite Hrec.
    unfold second_pass. rewrite Hoi, Hfv, Hg', Hmap, (list_elem_any ft Hany), Ho.
    rewrite (decode_eoo_any c _ (Some E) chunk Hpre), Hin. reflexivity.
  Qed.
End ScalarA.

(* ---------- SEQUENCE OF / SET OF ANY members ---------- *)

Lemma aeq_to_list a ys : aeq a (AList ys) -> exists xs, a = AList xs /\ Forall2 aeq ys xs.
Proof. intros H. apply aeq_sym in H. destruct (aeq_list_inv ys a H) as (xs & -> & HF). eauto. Qed.

Lemma aeq_to_bag a ys : aeq a (ABag ys) -> exists xs zs, a = ABag xs /\ Permutation ys zs /\ Forall2 aeq zs xs.
Proof. intros H. apply aeq_sym in H. destruct (aeq_bag_inv ys a H) as (xs & zs & -> & Hp & HF). eauto. Qed.

Lemma Forall2_in_right {A B} (R: A -> B -> Prop) l1 l2 : Forall2 R l1 l2 ->
  forall b, In b l2 -> exists a, In a l1 /\ R a b.
Proof.
  induction 1 as [|x y l1 l2 Hxy HF IH]; intros b Hin; [destruct Hin|].
  destruct Hin as [<-|Hin]; [exists x; split; [left; reflexivity|exact Hxy]|].
  destruct (IH b Hin) as (a & Ha & Hr). exists a. split; [right; exact Ha|exact Hr].
Qed.

Lemma Forall2_len_eq {A B} (R: A -> B -> Prop) l1 l2 : Forall2 R l1 l2 -> length l1 = length l2.
Proof. induction 1; cbn [length]; congruence. Qed.

(* every element of a decoded list member that reads like the list of wrapped chunks holds one of them *)
Lemma list_member_facts_a ft t fv chunks :
  list_elem ft = Some t -> is_any t = true ->
  aeq (abs ft fv) (abs ft (VList (map VAny chunks))) ->
  exists ys, fv = VList ys /\ length ys = length chunks /\
    Forall (fun y => exists ch, In ch chunks /\ octets_of y = Some ch) ys.
Proof.
  intros Hl Ht E. rewrite (abs_base ft fv), (abs_base ft (VList _)) in E. unfold list_elem in Hl.
  assert (Hel: forall zs y, (forall z, In z zs -> In z (map (abs t) (map VAny chunks))) ->
             forall a, In a zs -> aeq a (abs t y) -> exists ch, In ch chunks /\ octets_of y = Some ch).
  { intros zs y Hsub a Ha Ey. specialize (Hsub a Ha). rewrite map_map in Hsub. apply in_map_iff in Hsub.
    destruct Hsub as [ch [<- Hch]]. exists ch. split; [exact Hch|].
    rewrite (abs_any_VAny t ch Ht) in Ey. apply aeq_sym in Ey. apply aeq_to_leaf in Ey; [|exact I].
    exact (abs_any_octets_eq t y ch Ht Ey). }
  destruct (base_of ft); try discriminate Hl; inversion Hl; subst; cbn [abs] in E.
  - apply aeq_to_list in E. destruct E as (xs & Hx & HF).
    destruct fv; cbn [abs] in Hx; try discriminate Hx. inversion Hx; subst xs; clear Hx.
    exists xs0. split; [reflexivity|]. split.
    + pose proof (Forall2_len_eq _ _ _ HF) as HL. rewrite !map_length in HL. symmetry. exact HL.
    + apply Forall_forall. intros y Hy.
      destruct (Forall2_in_right _ _ _ HF (abs t y) (in_map _ _ _ Hy)) as (a & Ha & Ra).
      exact (Hel _ y (fun z Hz => Hz) a Ha Ra).
  - apply aeq_to_bag in E. destruct E as (xs & zs & Hx & Hperm & HF).
    destruct fv; cbn [abs] in Hx; try discriminate Hx. inversion Hx; subst xs; clear Hx.
    exists xs0. split; [reflexivity|]. split.
    + pose proof (Forall2_len_eq _ _ _ HF) as HL. rewrite <- (Permutation_length Hperm) in HL.
      rewrite !map_length in HL. symmetry. exact HL.
    + apply Forall_forall. intros y Hy.
      destruct (Forall2_in_right _ _ _ HF (abs t y) (in_map _ _ _ Hy)) as (a & Ha & Ra).
      refine (Hel zs y _ a Ha Ra).
      intros z Hz. exact (Permutation_in z (Permutation_sym Hperm) Hz).
Qed.

Section ListA.
  Variables (c: codec) (T: ty) (fs: list (presence * ty)) (gi oi: nat).
  Variables (p: presence) (ft t gT: ty) (pg: presence).
  Hypothesis Hrec : rec_fields T = Some fs.
  Hypothesis Hoi : nth_error fs oi = Some (p, ft).
  Hypothesis Hgi : nth_error fs gi = Some (pg, gT).
  Hypothesis Hlist : list_elem ft = Some t.
  Hypothesis Hany : is_any t = true.
  Hypothesis Hp : not_def p.
  Hypothesis Hpg : not_def pg.
  Variables (vs: list (option val)) (g: val) (chunks: list bytes).
  Hypothesis Hg : nth gi vs None = Some g.
  Hypothesis Hgok : gov_ok gT g = true.
  Hypothesis Hne : gi <> oi.
  Hypothesis Hlen : (oi < length vs)%nat.

  Let sent := VRec (set_nth oi (Some (VList (map VAny chunks))) vs).

  Lemma first_pass_facts_list_a : forall v',
    aeq (abs T v') (abs T sent) ->
    exists vs' ys, v' = VRec vs' /\ nth oi vs' None = Some (VList ys) /\ length ys = length chunks /\
      Forall (fun y => exists ch, In ch chunks /\ octets_of y = Some ch) ys /\
      nth gi vs' None = Some g.
  Proof.
    intros v' E. unfold sent in E. rewrite (abs_record T fs _ Hrec) in E.
    destruct (aeq_to_rec _ _ E) as (xs & Hx & HF).
    destruct (abs_is_rec T fs v' xs Hrec Hx) as [vs' ->].
    rewrite (abs_record T fs _ Hrec) in Hx. inversion Hx; subst xs; clear Hx.
    assert (Hn: nth oi (abs_fields fs (set_nth oi (Some (VList (map VAny chunks))) vs)) None
                = Some (abs ft (VList (map VAny chunks)))) by (eapply abs_fields_nth_set; eauto).
    destruct (opt_rel_nth _ _ HF _ _ Hn) as [a' [Ha' Ea']].
    destruct (nth oi vs' None) as [fv|] eqn:Hfv;
      [|rewrite (abs_fields_nth_none fs vs' oi p ft Hoi Hp Hfv) in Ha'; discriminate].
    rewrite (abs_fields_nth fs vs' oi p ft fv Hoi Hfv) in Ha'. inversion Ha'; subst a'.
    destruct (list_member_facts_a ft t fv chunks Hlist Hany Ea') as [ys [-> [HL HFy]]].
    exists vs', ys. split; [reflexivity|]. split; [exact Hfv|]. split; [exact HL|]. split; [exact HFy|].
    assert (Hgs: nth gi (set_nth oi (Some (VList (map VAny chunks))) vs) None = Some g)
      by (rewrite nth_set_nth_other; auto).
    pose proof (abs_fields_nth fs _ gi pg gT g Hgi Hgs) as Hn2.
    destruct (opt_rel_nth _ _ HF _ _ Hn2) as [a2 [Ha2 Ea2]].
    apply aeq_to_leaf in Ea2; [|exact (gov_leaf gT g Hgok)]. subst a2.
    destruct (nth gi vs' None) as [g'|] eqn:Hg'.
    - rewrite (abs_fields_nth fs vs' gi pg gT g' Hgi Hg') in Ha2. inversion Ha2 as [Ha3].
      f_equal. exact (abs_gov_eq gT g g' Hgok Ha3).
    - rewrite (abs_fields_nth_none fs vs' gi pg gT Hgi Hpg Hg') in Ha2. discriminate.
  Qed.

  Variables (dflt override: omap) (dot: bool) (wire: bytes).
  Variable v' : val.
  Hypothesis Hfirst : decode c (Some T) wire = Ok (DV T v', []).
  Hypothesis Hobs : aeq (abs T v') (abs T sent).

  Lemma raw_list_a :
    (dot = false /\ override = []) \/ resolve_type override dflt g = None ->
    exists vs' ys, dec_open c T gi oi dflt override dot wire = Ok (DV T (VRec vs'), [])
      /\ nth oi vs' None = Some (VList ys) /\ length ys = length chunks
      /\ Forall (fun y => exists ch, In ch chunks /\ octets_of y = Some ch) ys.
  Proof.
    intros Hoff. destruct (first_pass_facts_list_a v' Hobs) as [vs' [ys [-> [Hfv [HL [HF Hg']]]]]].
    exists vs', ys. split; [|auto].
    unfold dec_open, dec_open_after. rewrite Hfirst. cbn [bind].
    destruct Hoff as [[-> ->] | Hun]; [reflexivity|].
    destruct (negb (dot || match override with [] => false | _ :: _ => true end)); [reflexivity|].
    rewrite Hrec. unfold second_pass. rewrite Hoi, Hfv, Hg', Hun. reflexivity.
  Qed.

  Lemma resolved_list_a : forall E (P: bytes -> val -> Prop),
    (dot = true \/ override <> []) ->
    resolve_type override dflt g = Some E ->
    (forall ch, In ch chunks -> no_eoo_prefix ch = true /\ exists w, decode c (Some E) ch = Ok (DV E w, []) /\ P ch w) ->
    exists vs' ys ws, v' = VRec vs' /\ nth oi vs' None = Some (VList ys) /\ length ys = length chunks /\
      nth gi vs' None = Some g /\
      dec_open c T gi oi dflt override dot wire
        = Ok (DV (subst_field T oi (retype_list ft E)) (VRec (set_nth oi (Some (VList ws)) vs')), []) /\
      Forall2 (fun y w => exists ch, In ch chunks /\ octets_of y = Some ch /\ P ch w) ys ws.
  Proof.
    intros E P Hon Hmap Hin. destruct (first_pass_facts_list_a v' Hobs) as [vs' [ys [-> [Hfv [HL [HF Hg']]]]]].
    set (allow := own_len_indef (length (tagset_of' T) - 1) wire).
    destruct (resolve_elems_spec c allow E P chunks ys Hin HF) as [ws [Hws HF2]].
    exists vs', ys, ws. split; [reflexivity|]. split; [exact Hfv|]. split; [exact HL|]. split; [exact Hg'|].
    split; [|exact HF2].
    unfold dec_open, dec_open_after. rewrite Hfirst. cbn [bind].
    assert (Hr: (dot || match override with [] => false | _ :: _ => true end) = true).
    { destruct Hon as [-> | Hov]; [reflexivity|]. destruct override; [congruence|]. apply Bool.orb_true_r. }
    rewrite Hr. cbn [negb]. cbv iota. rewrite Hrec.
    unfold second_pass. rewrite Hoi, Hfv, Hg', Hmap, Hlist. fold allow. rewrite Hws. reflexivity.
  Qed.
End ListA.

(* ====================================================================================================== *)
(* Part 2.  The codec round trip, in the shape the open-type theorems need. *)

(* the encoder/decoder modes the codec theorems cover:
   - the BER or DER encoder, definite lengths, unsegmented, read by any decoder (RoundTrip3e.v);
   - any encoder in options its fixed options leave alone - BER with any defMode/maxChunkSize, CER with
     (False, 1000), DER with (True, 0) - read by the BER or the CER decoder (RoundTripModes3.v) *)
Inductive mode_ok (ce cd: codec) (d: bool) (k: N) : Prop :=
| mode_def : enc_ok ce -> d = true -> k = 0 -> mode_ok ce cd d k
| mode_any : stable ce d k -> dec_ok cd -> mode_ok ce cd d k.

Lemma mode_stable ce cd d k : mode_ok ce cd d k -> stable ce d k.
Proof. intros [[-> | ->] -> -> | H _]; [reflexivity|reflexivity|exact H]. Qed.

(* [srt = false]: no SET OF under an encoder that sorts its elements, abstract contents come back equal;
   [srt = true]: they come back equal up to the order of SET OF elements *)
Theorem codec_rt ce cd d k srt : mode_ok ce cd d k -> forall T v b,
  stage3_ty srt ce T = true -> (d = false -> no_f01 T = true) ->
  stage3_val ce cd T v = true -> (d = false -> anys_ok T v = true) ->
  encode ce d k T v = Ok b -> N.of_nat (length b) <= index_max ->
  exists v', decode cd (Some T) b = Ok (DV T v', []) /\ aeq (abs T v') (abs T v) /\ (srt = false -> abs T v' = abs T v).
Proof.
  intros Hm T v b Hty Hf Hv Ha He Hmax. destruct srt.
  - assert (H: exists v', decode cd (Some T) (b ++ []) = Ok (DV T v', []) /\ aeq (abs T v') (abs T v)).
    { destruct Hm as [Hce -> -> | Hst Hcd].
      - exact (stage3_generic ce cd aeq true Hce rel_ok_aeq T v b [] Hty Hv He Hmax).
      - exact (modes3_decode ce cd d k Hst Hcd aeq true rel_ok_aeq T v b [] Hty Hf Hv Ha He Hmax). }
    rewrite app_nil_r in H. destruct H as (v' & H1 & H2). exists v'. split; [exact H1|]. split; [exact H2|discriminate].
  - assert (H: exists v', decode cd (Some T) (b ++ []) = Ok (DV T v', []) /\ abs T v' = abs T v).
    { destruct Hm as [Hce -> -> | Hst Hcd].
      - exact (stage3_generic ce cd eq false Hce rel_ok_eq T v b [] Hty Hv He Hmax).
      - exact (modes3_decode ce cd d k Hst Hcd eq false rel_ok_eq T v b [] Hty Hf Hv Ha He Hmax). }
    rewrite app_nil_r in H. destruct H as (v' & H1 & H2). exists v'. split; [exact H1|].
    split; [rewrite H2; apply aeq_refl|intros _; exact H2].
Qed.

(* ====================================================================================================== *)
(* Part 3.  The value of the enclosing record: every member but the open one (whose slot [enc_open]
   overwrites) is a value of its type in the sense of the codec theorems. *)

Definition field_ok (ce cd: codec) (p: presence) (ft: ty) (ov: option val) : bool :=
  match p, ov with
  | Req, Some x => stage3_val ce cd ft x
  | Req, None => false
  | Opt, None | Def _, None => true
  | Opt, Some x => stage3_val ce cd ft x && (negb (omits ce) || nonempty_enc ce ft x)
  | Def _, Some x => stage3_val ce cd ft x
  end.

Lemma sv3_fields_cons ce cd p ft fs ov vs :
  sv3_fields ce cd ((p, ft) :: fs) (ov :: vs) = (field_ok ce cd p ft ov && sv3_fields ce cd fs vs)%bool.
Proof. reflexivity. Qed.

Fixpoint sv3_hole (ce cd: codec) (oi: nat) (fs: list (presence * ty)) (vs: list (option val)) : bool :=
  match fs, vs with
  | (p, ft) :: fs', ov :: vs' =>
      match oi with
      | O => sv3_fields ce cd fs' vs'
      | S j => field_ok ce cd p ft ov && sv3_hole ce cd j fs' vs'
      end
  | _, _ => false
  end.

Lemma sv3_fill ce cd : forall oi fs vs p ft y,
  sv3_hole ce cd oi fs vs = true -> nth_error fs oi = Some (p, ft) -> field_ok ce cd p ft (Some y) = true ->
  sv3_fields ce cd fs (set_nth oi (Some y) vs) = true.
Proof.
  induction oi as [|j IH]; intros fs vs p ft y Hh Hn Hy; destruct fs as [|[q gt] fs]; try discriminate Hn;
    destruct vs as [|ov vs]; try discriminate Hh; cbn [nth_error] in Hn; cbn [sv3_hole] in Hh; cbn [set_nth].
  - inversion Hn; subst q gt. rewrite sv3_fields_cons, Hy, Hh. reflexivity.
  - apply Bool.andb_true_iff in Hh. destruct Hh as [H0 Hh]. rewrite sv3_fields_cons, H0. cbn [andb].
    exact (IH fs vs p ft y Hh Hn Hy).
Qed.

Lemma sv3_hole_length ce cd : forall oi fs vs, sv3_hole ce cd oi fs vs = true -> (oi < length vs)%nat.
Proof.
  induction oi as [|j IH]; intros fs vs Hh; destruct fs as [|[q gt] fs]; try discriminate Hh;
    destruct vs as [|ov vs]; try discriminate Hh; cbn [sv3_hole] in Hh; cbn [length]; [lia|].
  apply Bool.andb_true_iff in Hh. specialize (IH fs vs (proj2 Hh)). lia.
Qed.

(* indefinite lengths: the octets of the other tagged ANYs *)
Lemma anys_fields_cons p ft fs ov vs :
  anys_fields ((p, ft) :: fs) (ov :: vs) = ((match ov with Some x => anys_ok ft x | None => true end) && anys_fields fs vs)%bool.
Proof. destruct ov; reflexivity. Qed.

Fixpoint anys_hole (oi: nat) (fs: list (presence * ty)) (vs: list (option val)) : bool :=
  match fs, vs with
  | (p, ft) :: fs', ov :: vs' =>
      match oi with
      | O => anys_fields fs' vs'
      | S j => (match ov with Some x => anys_ok ft x | None => true end) && anys_hole j fs' vs'
      end
  | _, _ => true
  end.

Lemma anys_fill : forall oi fs vs p ft y,
  anys_hole oi fs vs = true -> nth_error fs oi = Some (p, ft) -> anys_ok ft y = true ->
  anys_fields fs (set_nth oi (Some y) vs) = true.
Proof.
  induction oi as [|j IH]; intros fs vs p ft y Hh Hn Hy; destruct fs as [|[q gt] fs]; try discriminate Hn;
    destruct vs as [|ov vs]; try reflexivity; cbn [nth_error] in Hn; cbn [anys_hole] in Hh; cbn [set_nth].
  - inversion Hn; subst q gt. rewrite anys_fields_cons, Hy, Hh. reflexivity.
  - apply Bool.andb_true_iff in Hh. destruct Hh as [H0 Hh]. rewrite anys_fields_cons, H0. cbn [andb].
    exact (IH fs vs p ft y Hh Hn Hy).
Qed.

(* the well-formedness of the enclosing record value, computable: [d] = definite lengths *)
Definition hole_val (ce cd: codec) (d: bool) (T: ty) (oi: nat) (vs: list (option val)) : bool :=
  match rec_fields T with
  | Some fs => sv3_hole ce cd oi fs vs && (d || anys_hole oi fs vs)
  | None => false
  end.

Lemma rec_fields_base T fs : rec_fields T = Some fs -> base_of T = TSeq fs \/ base_of T = TSet fs.
Proof. unfold rec_fields. destruct (base_of T); intros H; try discriminate H; inversion H; auto. Qed.

Lemma hole_filled ce cd d T fs oi vs p ft y :
  rec_fields T = Some fs -> nth_error fs oi = Some (p, ft) -> hole_val ce cd d T oi vs = true ->
  field_ok ce cd p ft (Some y) = true -> (d = false -> anys_ok ft y = true) ->
  stage3_val ce cd T (VRec (set_nth oi (Some y) vs)) = true
  /\ (d = false -> anys_ok T (VRec (set_nth oi (Some y) vs)) = true).
Proof.
  intros Hrec Hoi Hh Hy Ha. unfold hole_val in Hh. rewrite Hrec in Hh.
  apply Bool.andb_true_iff in Hh. destruct Hh as [H1 H2].
  assert (Hna: base_of T <> TAny) by (destruct (rec_fields_base T fs Hrec) as [E|E]; rewrite E; discriminate).
  split.
  - rewrite (stage3_val_base ce cd T _ Hna).
    rewrite (stage3_val_rec ce cd (base_of T) fs _ (rec_fields_base T fs Hrec)).
    exact (sv3_fill ce cd oi fs vs p ft y H1 Hoi Hy).
  - intros Hd. rewrite Hd in H2. cbn [orb] in H2.
    rewrite (anys_ok_base T _ Hna). rewrite (anys_ok_rec (base_of T) fs _ (rec_fields_base T fs Hrec)).
    exact (anys_fill oi fs vs p ft y H2 Hoi (Ha Hd)).
Qed.

(* ====================================================================================================== *)
(* Part 4.  The wrapped inner encoding as the value of the ANY member. *)

Lemma is_any_cases ft : is_any ft = true -> ft = TAny \/ (base_of ft = TAny /\ is_wrapped ft = true).
Proof.
  unfold is_any. intros H. destruct ft; cbn [base_of] in H; try discriminate H; auto.
  - right. split; [|reflexivity]. cbn [base_of]. destruct (base_of ft); try discriminate H; reflexivity.
  - right. split; [|reflexivity]. cbn [base_of]. destruct (base_of ft); try discriminate H; reflexivity.
Qed.

Lemma any_fill_val ce cd ft chunk : is_any ft = true -> tlv_ok chunk = true -> stage3_val ce cd ft (VAny chunk) = true.
Proof.
  intros Ha Ht. destruct (is_any_cases ft Ha) as [-> | [Hb Hw]]; [exact Ht|].
  rewrite (stage3_val_tagged_any ce cd ft _ Hb Hw). reflexivity.
Qed.

(* a tagged ANY takes any octets (definite lengths) *)
Lemma any_fill_val_tagged ce cd ft chunk : is_any ft = true -> ft <> TAny -> stage3_val ce cd ft (VAny chunk) = true.
Proof.
  intros Ha Hn. destruct (is_any_cases ft Ha) as [-> | [Hb Hw]]; [congruence|].
  rewrite (stage3_val_tagged_any ce cd ft _ Hb Hw). reflexivity.
Qed.

Lemma tlv_any_payload b : tlv_ok b = true -> any_payload_ok b = true.
Proof.
  intros H. destruct (tlv_ok_inv b H) as (t & r1 & r2 & Hid & Hdl & Hne).
  pose proof (dec_ident_len _ _ _ Hid) as L1. pose proof (dec_len_len _ _ _ Hdl) as L2.
  unfold any_payload_ok. destruct b as [|o b']; [discriminate Hid|].
  cbn [tlvs_ok]. rewrite Hid, Hdl. cbv zeta. rewrite Nat2N.id.
  replace (length (o :: b') - length r2 + length r2)%nat with (length (o :: b')) by lia.
  rewrite firstn_all, skipn_all, H. destruct (length (o :: b')); reflexivity.
Qed.

Lemma any_fill_anys ft chunk : is_any ft = true -> tlv_ok chunk = true -> anys_ok ft (VAny chunk) = true.
Proof.
  intros Ha Ht. destruct (is_any_cases ft Ha) as [-> | [Hb Hw]]; [reflexivity|].
  rewrite (anys_ok_tagged_any ft _ Hb Hw). exact (tlv_any_payload chunk Ht).
Qed.

(* nothing the frame writes is empty unless the contents are *)
Lemma frame_outer_ne : forall r c d si sub b, frame_outer r c d si sub = Ok b -> sub <> [] -> b <> [].
Proof.
  induction r as [|t r IH]; intros c d si sub b H Hne; cbn [frame_outer] in H.
  - inversion H; subst. exact Hne.
  - destruct (frame_one t c d si sub) as [s1|e] eqn:E1; cbn [bind] in H; [|discriminate].
    apply (IH _ _ _ _ _ H). unfold frame_one in E1.
    destruct (enc_len (N.of_nat (length sub)) (negb d && si)) as [l|e]; cbn [bind] in E1; [|discriminate].
    inversion E1; subst. pose proof (enc_tag_nonempty t c). destruct (enc_tag t c); [cbn in *; lia|discriminate].
Qed.

Lemma frame_ne ts content cns o si b : frame ts content cns o si = Ok b -> content <> [] -> b <> [].
Proof.
  intros H Hne. destruct ts as [|t0 r]; cbn [frame] in H; [inversion H; subst; exact Hne|].
  destruct content as [|x content]; [congruence|]. cbn [andb] in H.
  destruct (frame_one t0 cns (if cns then o_def o else true) si (x :: content)) as [s0|e] eqn:E0; cbn [bind] in H; [|discriminate].
  apply (frame_outer_ne _ _ _ _ _ _ H). unfold frame_one in E0.
  destruct (enc_len _ _) as [l|e]; cbn [bind] in E0; [|discriminate].
  inversion E0; subst. pose proof (enc_tag_nonempty t0 cns). destruct (enc_tag t0 cns); [cbn in *; lia|discriminate].
Qed.

(* the encoding of an ANY holding octets, under any options: never emptied by ifNotEmpty *)
Lemma any_enc_ne ce ft o chunk b : is_any ft = true -> chunk <> [] ->
  enc_with ce (enc_content ce) ft o (VAny chunk) = Ok b -> b <> [].
Proof.
  intros Ha Hne H. unfold enc_with in H.
  destruct (concrete_encoder ce ft) as [[ec fl]|e]; cbn [bind] in H; [|discriminate].
  destruct (tagset_of ft) as [ts|e]; cbn [bind] in H; [|discriminate].
  rewrite enc_content_base in H. unfold is_any in Ha. destruct (base_of ft); try discriminate Ha.
  cbn [enc_content] in H. destruct ec; cbn [bind] in H; try discriminate H.
  cbn [octets_of bind] in H. exact (frame_ne _ _ _ _ _ _ H Hne).
Qed.

Lemma any_fill_nonempty ce ft chunk : is_any ft = true -> chunk <> [] -> nonempty_enc ce ft (VAny chunk) = true.
Proof.
  intros Ha Hne. unfold nonempty_enc, encw.
  destruct (enc_with ce (enc_content ce) ft ifne_opts (VAny chunk)) as [b|e] eqn:E; [|reflexivity].
  pose proof (any_enc_ne ce ft _ chunk b Ha Hne E). destruct b; [congruence|reflexivity].
Qed.

Lemma tlv_ne b : tlv_ok b = true -> b <> [].
Proof. intros H. destruct (tlv_ok_facts b H) as [Hl _]. destruct b; [cbn in Hl; lia|discriminate]. Qed.

Lemma tlv_no_eoo_prefix b : tlv_ok b = true -> no_eoo_prefix b = true.
Proof.
  intros H. destruct (tlv_ok_facts b H) as [Hl Hh]. destruct b as [|x [|y r]]; try (cbn in Hl; lia).
  cbn [hd] in Hh. cbn [no_eoo_prefix]. destruct (N.eqb_spec x 0); [congruence|reflexivity].
Qed.

(* the open member holding [VAny chunk] is a good member value *)
Lemma any_fill_field ce cd p ft chunk : is_any ft = true -> tlv_ok chunk = true -> not_def p ->
  field_ok ce cd p ft (Some (VAny chunk)) = true.
Proof.
  intros Ha Ht Hp. pose proof (any_fill_val ce cd ft chunk Ha Ht) as Hv.
  destruct p as [| |dv]; cbn [field_ok]; [exact Hv| |contradiction].
  rewrite Hv, (any_fill_nonempty ce ft chunk Ha (tlv_ne chunk Ht)). apply Bool.orb_true_r.
Qed.

(* a tagged ANY member, definite lengths: any non-empty octets *)
Lemma any_fill_field_tagged ce cd p ft chunk : is_any ft = true -> ft <> TAny -> chunk <> [] -> not_def p ->
  field_ok ce cd p ft (Some (VAny chunk)) = true.
Proof.
  intros Ha Hn Hne Hp. pose proof (any_fill_val_tagged ce cd ft chunk Ha Hn) as Hv.
  destruct p as [| |dv]; cbn [field_ok]; [exact Hv| |contradiction].
  rewrite Hv, (any_fill_nonempty ce ft chunk Ha Hne). apply Bool.orb_true_r.
Qed.

(* ====================================================================================================== *)
(* Part 5.  With definite lengths, the encoding of a value of the universe is one complete TLV of definite
   length, not the end-of-octets marker: what an untagged ANY may hold. *)

Definition eoo_tag (t: tag) : bool := cls_eqb (tcls t) Univ && N.eqb (tnum t) 0.

Lemma frame_one_tlv t c si sub b : frame_one t c true si sub = Ok b -> eoo_tag t = false -> tlv_ok b = true.
Proof.
  unfold frame_one. cbn [negb andb]. intros H Ht.
  destruct (enc_len (N.of_nat (length sub)) false) as [l|e] eqn:El; cbn [bind] in H; [|discriminate].
  inversion H; subst b; clear H. rewrite app_nil_r. unfold tlv_ok.
  rewrite dec_enc_tag. rewrite (dec_enc_len _ l sub El). rewrite N.eqb_refl. cbn [tcls tnum andb].
  unfold eoo_tag in Ht. rewrite Ht. reflexivity.
Qed.

Lemma frame_outer_tlv : forall r c si sub b, frame_outer r c true si sub = Ok b ->
  tlv_ok sub = true -> Forall (fun t => eoo_tag t = false) r -> tlv_ok b = true.
Proof.
  induction r as [|t r IH]; intros c si sub b H Hs HF; cbn [frame_outer] in H.
  - inversion H; subst. exact Hs.
  - destruct (frame_one t c true si sub) as [s1|e] eqn:E1; cbn [bind] in H; [|discriminate].
    inversion HF as [|? ? Ht HF']; subst.
    exact (IH _ _ _ _ H (frame_one_tlv _ _ _ _ _ E1 Ht) HF').
Qed.

Lemma frame_def_tlv t0 r content cns k si b : frame (t0 :: r) content cns (mo true k) si = Ok b ->
  Forall (fun t => eoo_tag t = false) (t0 :: r) -> tlv_ok b = true.
Proof.
  cbn [frame]. rewrite Bool.andb_false_r. cbn [o_def mo]. intros H HF.
  assert (Hd: (if cns then true else true) = true) by (destruct cns; reflexivity). rewrite Hd in H. clear Hd.
  destruct (frame_one t0 cns true si content) as [s0|e] eqn:E0; cbn [bind] in H; [|discriminate].
  inversion HF as [|? ? Ht HF']; subst.
  exact (frame_outer_tlv _ _ _ _ _ H (frame_one_tlv _ _ _ _ _ E0 Ht) HF').
Qed.

(* no tag of the tag set is the end-of-octets tag, provided the base tag is not *)
Lemma tagset_no_eoo : forall T ts, wf_tags T = true -> tagset_of T = Ok ts ->
  (forall t, tagset_of (base_of T) = Ok [t] -> eoo_tag t = false) ->
  Forall (fun t => eoo_tag t = false) ts.
Proof.
  induction T as [| | | | | | | | n|fs IH|fs IH|t IH|t IH|alts IH| |tg x IH|tg x IH] using ty_ind';
    intros ts Hw Hts Hb;
    try (cbn [tagset_of] in Hts; inversion Hts; subst ts; constructor; [apply Hb; reflexivity|constructor]);
    try (cbn [tagset_of] in Hts; inversion Hts; subst ts; constructor).
  - (* TImp *)
    cbn [wf_tags] in Hw. apply Bool.andb_true_iff in Hw. destruct Hw as [Hcl Hw].
    cbn [tagset_of] in Hts. destruct (tagset_of x) as [ts'|e] eqn:Ex; cbn [bind] in Hts; [|discriminate].
    inversion Hts; subst ts; clear Hts. specialize (IH ts' Hw eq_refl Hb).
    assert (Hnew: forall cf, eoo_tag (mkTag (tcls tg) cf (tnum tg)) = false).
    { intros cf. unfold eoo_tag. cbn [tcls tnum]. destruct (cls_eqb (tcls tg) Univ); [discriminate Hcl|reflexivity]. }
    unfold tag_implicitly. destruct (rev ts') as [|lastt r'] eqn:Er.
    + constructor; [|constructor]. destruct tg as [cl cf nm]. exact (Hnew cf).
    + apply Forall_app. split; [|constructor; [apply Hnew|constructor]].
      apply Forall_rev. apply Forall_rev in IH. rewrite Er in IH. inversion IH; assumption.
  - (* TExp *)
    cbn [wf_tags] in Hw. apply Bool.andb_true_iff in Hw. destruct Hw as [Hcl Hw].
    cbn [tagset_of] in Hts. destruct (tagset_of x) as [ts'|e] eqn:Ex; cbn [bind] in Hts; [|discriminate].
    specialize (IH ts' Hw eq_refl Hb). unfold tag_explicitly in Hts.
    assert (Hnew: eoo_tag (mkTag (tcls tg) true (tnum tg)) = false).
    { unfold eoo_tag. cbn [tcls tnum]. destruct (cls_eqb (tcls tg) Univ); [discriminate Hcl|reflexivity]. }
    destruct (tcls tg); inversion Hts; subst ts; (apply Forall_app; split; [exact IH|constructor; [exact Hnew|constructor]]).
Qed.

Lemma known_string_nonzero ce cd n : known_string ce cd n = true -> n <> 0.
Proof. intros H ->. destruct ce, cd; vm_compute in H; discriminate H. Qed.

Lemma base_not_wrapped : forall T, is_wrapped (base_of T) = false.
Proof. induction T; try reflexivity; assumption. Qed.

(* the base tag of a type that has a value in the universe *)
Lemma base_tag_no_eoo ce cd T v : stage3_val ce cd T v = true ->
  forall tg0, tagset_of (base_of T) = Ok [tg0] -> eoo_tag tg0 = false.
Proof.
  intros Hv tg0 Ht.
  assert (Hna: base_of T <> TAny) by (intros E; rewrite E in Ht; discriminate Ht).
  rewrite (stage3_val_base ce cd T v Hna) in Hv. pose proof (base_not_wrapped T) as Hnw.
  destruct (base_of T) as [| | | | | | | | n|fs|fs|t|t|alts| |tg x|tg x]; try discriminate Hnw;
    cbn [tagset_of] in Ht; try discriminate Ht; inversion Ht; subst tg0; try reflexivity.
  cbn [stage3_val] in Hv. unfold stage1_val in Hv. cbn [base_of] in Hv.
  destruct v; try discriminate Hv. apply Bool.andb_true_iff in Hv. destruct Hv as [Hk _].
  pose proof (known_string_nonzero ce cd n Hk) as Hn. unfold eoo_tag, utag. cbn [tcls tnum cls_eqb andb].
  destruct (N.eqb_spec n 0); [congruence|reflexivity].
Qed.

Lemma encode_unfold ce d k T v : encode ce d k T v = enc_with ce (enc_content ce) T (mo d k) v.
Proof. reflexivity. Qed.

Theorem definite_encoding_is_tlv ce cd srt k : stable ce true k -> forall T v b,
  stage3_ty srt ce T = true -> stage3_val ce cd T v = true ->
  encode ce true k T v = Ok b -> tlv_ok b = true.
Proof.
  intros Hst.
  induction T as [| | | | | | | | n|fs IH|fs IH|t IH|t IH|alts IH| |tg x IH|tg x IH] using ty_ind';
    intros v b Hty Hv He; rewrite encode_unfold in He.
  14: { (* untagged CHOICE: the encoding of the alternative *)
    destruct (RoundTripModesC.enc_with_inv_g ce _ true k v b Hst He) as (ec & fl & ts & content & cns & Hcenc & Hts & Hcont & Hfr).
    cbn [tagset_of] in Hts. inversion Hts; try subst ts. cbn [frame] in Hfr. inversion Hfr; subst content; clear Hfr.
    destruct v as [bb|z|bs|bo|cs| |arcs|r|vfs|xs|i x|ab]; try discriminate Hv.
    rewrite stage3_val_choice in Hv. cbn [stage3_ty] in Hty. apply Bool.andb_true_iff in Hty. destruct Hty as [Halts _].
    cbn [enc_content] in Hcont. destruct ec; try discriminate Hcont.
    clear Hcenc He. revert i Hv Hcont. rewrite forallb_forall in Halts.
    induction alts as [|a alts IHa]; intros i Hv Hcont; [destruct i; discriminate Hcont|].
    inversion IH as [|? ? IH0 IH']; subst.
    destruct i as [|i]; cbn [nth_error] in Hv; cbv beta iota fix in Hcont; fold enc_content in Hcont.
    - destruct (enc_with ce (enc_content ce) a (mo true k) x) as [pb|e] eqn:Ea;
        cbn [bind] in Hcont; [|discriminate]. inversion Hcont; subst pb.
      exact (IH0 x b (Halts a (or_introl eq_refl)) Hv Ea).
    - apply (IHa IH' (fun y Hy => Halts y (or_intror Hy)) i Hv Hcont). }
  14: { (* untagged ANY: the octets themselves *)
    destruct (RoundTripModesC.enc_with_inv_g ce _ true k v b Hst He) as (ec & fl & ts & content & cns & Hcenc & Hts & Hcont & Hfr).
    cbn [tagset_of] in Hts. inversion Hts; try subst ts. cbn [frame] in Hfr. inversion Hfr; subst content; clear Hfr.
    cbn [enc_content] in Hcont. destruct ec; try discriminate Hcont.
    cbn [stage3_val] in Hv. destruct v; try discriminate Hv; cbn [octets_of] in Hcont; inversion Hcont; subst; exact Hv. }
  all: destruct (RoundTripModesC.enc_with_inv_g ce _ true k v b Hst He) as (ec & fl & ts & content & cns & Hcenc & Hts & Hcont & Hfr);
    destruct (stage3_ty_base srt ce _ Hty) as [Hw _];
    pose proof (tagset_no_eoo _ ts Hw Hts (base_tag_no_eoo ce cd _ v Hv)) as HF;
    (destruct ts as [|t0 r]; [|exact (frame_def_tlv _ _ _ _ _ _ _ Hfr HF)]).
  (* the tag set of a tagged type is not empty *)
  all: try (cbn [tagset_of] in Hts; discriminate Hts).
  - (* TImp *)
    cbn [tagset_of] in Hts. destruct (tagset_of x) as [ts'|e]; cbn [bind] in Hts; [|discriminate].
    inversion Hts as [Hi]. unfold tag_implicitly in Hi. destruct (rev ts'); [discriminate Hi|].
    destruct (rev l); discriminate Hi.
  - (* TExp *)
    cbn [tagset_of] in Hts. destruct (tagset_of x) as [ts'|e]; cbn [bind] in Hts; [|discriminate].
    unfold tag_explicitly in Hts. destruct (tcls tg); inversion Hts as [Hi]; destruct ts'; discriminate Hi.
Qed.

(* ====================================================================================================== *)
(* Part 6.  The record encoders and the options of the open member. *)

Lemma rec_encoder ce T fs : rec_fields T = Some fs ->
  exists ec fl, concrete_encoder ce T = Ok (ec, fl) /\ (omit_flag ec fl = true -> omits ce = true)
    /\ (sorts_members ec = true -> ce <> BER /\ base_of T = TSet fs).
Proof.
  intros H. rewrite concrete_encoder_base.
  destruct (rec_fields_base T fs H) as [-> | ->]; destruct ce; eexists; eexists;
    (split; [vm_compute; reflexivity|]); split; intros E; try discriminate E; try reflexivity;
    split; try reflexivity; discriminate.
Qed.

(* the members of the record are not re-ordered by the encoder: a SEQUENCE, or any record under BER *)
Definition keeps_order (ce: codec) (T: ty) : Prop := ce = BER \/ exists fs, base_of T = TSeq fs.

Lemma keeps_order_plain ce T fs ec : rec_fields T = Some fs -> keeps_order ce T ->
  concrete_encoder ce T = Ok ec -> sorts_members (fst ec) = false.
Proof.
  intros Hrec Hk Hc. destruct (rec_encoder ce T fs Hrec) as (ec' & fl & Hc' & _ & Hs).
  rewrite Hc in Hc'. inversion Hc'; subst ec. cbn [fst].
  destruct (sorts_members ec') eqn:E; [|reflexivity]. destruct (Hs eq_refl) as [Hnb Hset].
  destruct Hk as [-> | [fs' Hseq]]; [congruence|]. rewrite Hseq in Hset. discriminate Hset.
Qed.

(* the F24 class for the inner value of an OPTIONAL open member: under the encoders that omit empty OPTIONAL
   components the member's encode call gets ifNotEmpty, which must not empty the inner encoding *)
Definition inner_kept (ce: codec) (p: presence) (Ti: ty) (xi: val) : Prop :=
  is_opt p = true -> omits ce = true -> nonempty_enc ce Ti xi = true.

(* the wrapped chunk is the complete encoding of the inner value *)
Lemma member_chunk ce d k T fs p Ti xi mo' chunk : stable ce d k -> rec_fields T = Some fs ->
  member_opts ce d k T p = Ok mo' -> enc ce Ti mo' xi = Ok chunk -> inner_kept ce p Ti xi ->
  encode ce d k Ti xi = Ok chunk.
Proof.
  intros Hst Hrec Hmo Hch Hk. unfold member_opts in Hmo.
  destruct (rec_encoder ce T fs Hrec) as (ec & fl & Hc & Hom & _). rewrite Hc in Hmo. cbn [bind fst snd] in Hmo.
  change (mkOpts d k false) with (mo d k) in Hmo. unfold stable in Hst. rewrite Hst in Hmo. cbn [o_def o_chunk mo] in Hmo.
  inversion Hmo; subst mo'; clear Hmo.
  destruct (omit_flag ec fl && is_opt p)%bool eqn:E; [|exact Hch].
  apply Bool.andb_true_iff in E. destruct E as [E1 E2]. specialize (Hk E2 (Hom E1)).
  assert (Hne: chunk <> []).
  { intros ->. unfold nonempty_enc in Hk. unfold enc in Hch.
    rewrite (omits_ifne_opts ce Ti d k xi (Hom E1) Hst) in Hch. rewrite Hch in Hk. discriminate Hk. }
  exact (encm_ifne ce d k Hst Ti xi chunk Hch Hne).
Qed.

(* the inner encoding is not longer than sys.maxsize *)
Definition inner_fits (ce: codec) (d: bool) (k: N) (Ti: ty) (xi: val) : Prop :=
  forall chunk, encode ce d k Ti xi = Ok chunk -> N.of_nat (length chunk) <= index_max.

(* the inner encoding has a definite length (always so with definite lengths) *)
Definition inner_definite (ce: codec) (d: bool) (k: N) (Ti: ty) (xi: val) : Prop :=
  forall chunk, encode ce d k Ti xi = Ok chunk -> tlv_ok chunk = true.

Lemma inner_definite_def ce cd srt k Ti xi : stable ce true k ->
  stage3_ty srt ce Ti = true -> stage3_val ce cd Ti xi = true -> inner_definite ce true k Ti xi.
Proof. intros Hst Hty Hv chunk He. exact (definite_encoding_is_tlv ce cd srt k Hst Ti xi chunk Hty Hv He). Qed.

(* ====================================================================================================== *)
(* Part 7.  The scalar open member (ANY DEFINED BY; the ANY untagged or tagged): unconditional theorems. *)

Section OpenScalar.
  Variables (ce cd: codec) (d: bool) (k: N) (srt: bool).
  Hypothesis Hmode : mode_ok ce cd d k.
  (* the record type: in the stage-3 universe, an ANY member governed by an INTEGER/ENUMERATED/OID member *)
  Variables (T: ty) (fs: list (presence * ty)) (gi oi: nat) (p: presence) (ft: ty) (pg: presence) (gT: ty).
  Hypothesis Hty : stage3_ty srt ce T = true.
  Hypothesis Hf01 : d = false -> no_f01 T = true.
  Hypothesis Hrec : rec_fields T = Some fs.
  Hypothesis Hoi : nth_error fs oi = Some (p, ft).
  Hypothesis Hgi : nth_error fs gi = Some (pg, gT).
  Hypothesis Hany : is_any ft = true.
  Hypothesis Hp : not_def p.
  Hypothesis Hpg : not_def pg.
  Hypothesis Hne : gi <> oi.
  Hypothesis Hkeep : keeps_order ce T.
  (* the record value: the other members are values of their types; the governing member holds g *)
  Variables (vs: list (option val)) (g: val).
  Hypothesis Hvs : hole_val ce cd d T oi vs = true.
  Hypothesis Hg : nth gi vs None = Some g.
  Hypothesis Hgok : gov_ok gT g = true.
  (* the inner type and value: of the universe; not already a value of the wrapping ANY type *)
  Variables (Ti: ty) (xi: val).
  Hypothesis Hti : stage3_ty srt ce Ti = true.
  Hypothesis Hxi : stage3_val ce cd Ti xi = true.
  Hypothesis Hblob : holds_blob ft Ti = false.
  Hypothesis Hkept : inner_kept ce p Ti xi.
  Hypothesis Hidef : d = false -> inner_definite ce d k Ti xi.
  Variable wire : bytes.
  Hypothesis Henc : enc_open ce d k T oi (VRec vs) true [(Ti, xi)] = Ok wire.
  Hypothesis Hmax : N.of_nat (length wire) <= index_max.

  Lemma hole_len : (oi < length vs)%nat.
  Proof.
    unfold hole_val in Hvs. rewrite Hrec in Hvs. apply Bool.andb_true_iff in Hvs.
    exact (sv3_hole_length ce cd oi fs vs (proj1 Hvs)).
  Qed.

  (* the first pass: the plain decoder reads the record with the complete inner encoding in the ANY *)
  Lemma open_first_pass :
    exists chunk v', encode ce d k Ti xi = Ok chunk /\ tlv_ok chunk = true /\
      encode ce d k T (VRec (set_nth oi (Some (VAny chunk)) vs)) = Ok wire /\
      decode cd (Some T) wire = Ok (DV T v', []) /\
      aeq (abs T v') (abs T (VRec (set_nth oi (Some (VAny chunk)) vs))) /\
      (srt = false -> abs T v' = abs T (VRec (set_nth oi (Some (VAny chunk)) vs))).
  Proof.
    pose proof (mode_stable ce cd d k Hmode) as Hst.
    destruct (rec_encoder ce T fs Hrec) as (ec & fl & Hc & _ & _).
    destruct (enc_open_plain ce d k T fs oi p ft vs Ti xi (ec, fl) wire Hrec Hoi Hany Hc
                (keeps_order_plain ce T fs (ec, fl) Hrec Hkeep Hc) Hblob Henc) as (mo' & chunk & Hmo & Hch & Hplain).
    pose proof (member_chunk ce d k T fs p Ti xi mo' chunk Hst Hrec Hmo Hch Hkept) as Hchunk.
    assert (Htlv: tlv_ok chunk = true).
    { destruct d eqn:Ed.
      - exact (inner_definite_def ce cd srt k Ti xi Hst Hti Hxi chunk Hchunk).
      - exact (Hidef eq_refl chunk Hchunk). }
    destruct (hole_filled ce cd d T fs oi vs p ft (VAny chunk) Hrec Hoi Hvs
                (any_fill_field ce cd p ft chunk Hany Htlv Hp) (fun _ => any_fill_anys ft chunk Hany Htlv)) as [Hsv Hsa].
    destruct (codec_rt ce cd d k srt Hmode T _ wire Hty Hf01 Hsv Hsa Hplain Hmax) as (v' & Hdec & Haeq & Heq).
    exists chunk, v'. repeat (split; [assumption|]). exact Heq.
  Qed.

  (* (1) resolution off, or the governing value in neither map: the member holds exactly the complete
         encoding of the inner value; the rest of the record is what was sent *)
  Theorem open_raw : forall dflt override dot,
    (dot = false /\ override = []) \/ resolve_type override dflt g = None ->
    exists chunk vs' fv,
      encode ce d k Ti xi = Ok chunk /\
      dec_open cd T gi oi dflt override dot wire = Ok (DV T (VRec vs'), []) /\
      nth oi vs' None = Some fv /\ octets_of fv = Some chunk /\
      aeq (abs T (VRec vs')) (abs T (VRec (set_nth oi (Some (VAny chunk)) vs))) /\
      (srt = false -> abs T (VRec vs') = abs T (VRec (set_nth oi (Some (VAny chunk)) vs))).
  Proof.
    intros dflt override dot Hoff.
    destruct open_first_pass as (chunk & v' & Hchunk & Htlv & _ & Hdec & Haeq & Heq).
    destruct (raw_a cd T fs gi oi p ft gT pg Hrec Hoi Hgi Hany Hp Hpg vs g chunk Hg Hgok Hne hole_len
                dflt override dot wire v' Hdec Haeq Hoff) as (vs' & fv & -> & Hd & Hn & Ho).
    exists chunk, vs', fv. repeat (split; [assumption|]). exact Heq.
  Qed.

  (* (2) resolution on (decodeOpenTypes, or a caller's map) and the governing value mapped to the inner type:
         the member comes back as the inner value - same abstract content - read against the mapped type *)
  Hypothesis Hif01 : d = false -> no_f01 Ti = true.
  Hypothesis Hianys : d = false -> anys_ok Ti xi = true.
  Hypothesis Hifits : inner_fits ce d k Ti xi.

  Theorem open_resolved : forall dflt override dot,
    (dot = true \/ override <> []) -> resolve_type override dflt g = Some Ti ->
    exists chunk w vs',
      encode ce d k Ti xi = Ok chunk /\
      dec_open cd T gi oi dflt override dot wire
        = Ok (DV (subst_field T oi Ti) (VRec (set_nth oi (Some w) vs')), []) /\
      aeq (abs Ti w) (abs Ti xi) /\ (srt = false -> abs Ti w = abs Ti xi) /\
      nth gi vs' None = Some g /\
      aeq (abs T (VRec vs')) (abs T (VRec (set_nth oi (Some (VAny chunk)) vs))) /\
      (srt = false -> abs T (VRec vs') = abs T (VRec (set_nth oi (Some (VAny chunk)) vs))).
  Proof.
    intros dflt override dot Hon Hmap.
    destruct open_first_pass as (chunk & v' & Hchunk & Htlv & Hplain & Hdec & Haeq & Heq).
    pose proof (Hifits chunk Hchunk) as Hcmax.
    destruct (codec_rt ce cd d k srt Hmode Ti xi chunk Hti Hif01 Hxi Hianys Hchunk Hcmax) as (w & Hdw & Haw & Hew).
    destruct (resolved_a cd T fs gi oi p ft gT pg Hrec Hoi Hgi Hany Hp Hpg vs g chunk Hg Hgok Hne hole_len
                dflt override dot wire v' Hdec Haeq Ti w Hon Hmap (tlv_no_eoo_prefix chunk Htlv) Hdw) as (vs' & -> & Hg' & Hd).
    exists chunk, w, vs'. repeat (split; [assumption|]). exact Heq.
  Qed.

  (* (3) the caller's map wins over the type's own map, whatever that says, and switches resolution on by
         itself (no decodeOpenTypes needed) *)
  Theorem open_override_wins : forall dflt override dot,
    omap_find g override = Some Ti ->
    exists chunk w vs',
      encode ce d k Ti xi = Ok chunk /\
      dec_open cd T gi oi dflt override dot wire
        = Ok (DV (subst_field T oi Ti) (VRec (set_nth oi (Some w) vs')), []) /\
      aeq (abs Ti w) (abs Ti xi) /\ (srt = false -> abs Ti w = abs Ti xi) /\
      nth gi vs' None = Some g /\
      aeq (abs T (VRec vs')) (abs T (VRec (set_nth oi (Some (VAny chunk)) vs))) /\
      (srt = false -> abs T (VRec vs') = abs T (VRec (set_nth oi (Some (VAny chunk)) vs))).
  Proof.
    intros dflt override dot Hov. apply open_resolved.
    - right. destruct override; [discriminate Hov|discriminate].
    - apply override_wins. exact Hov.
  Qed.
End OpenScalar.

(* ====================================================================================================== *)
(* Part 8.  SEQUENCE OF / SET OF ANY open members: every element. *)

Lemma list_elem_base ft t : list_elem ft = Some t -> base_of ft = TSeqOf t \/ base_of ft = TSetOf t.
Proof. unfold list_elem. destruct (base_of ft); intros H; try discriminate H; inversion H; auto. Qed.

Lemma list_fill_val ce cd ft t chunks : list_elem ft = Some t -> is_any t = true ->
  Forall (fun ch => tlv_ok ch = true) chunks -> stage3_val ce cd ft (VList (map VAny chunks)) = true.
Proof.
  intros Hl Ha HF. pose proof (list_elem_base ft t Hl) as Hb.
  assert (Hna: base_of ft <> TAny) by (destruct Hb as [E|E]; rewrite E; discriminate).
  rewrite (stage3_val_base ce cd ft _ Hna).
  assert (H: forallb (stage3_val ce cd t) (map VAny chunks) = true).
  { apply forallb_forall. intros x Hx. apply in_map_iff in Hx. destruct Hx as (ch & <- & Hc).
    rewrite Forall_forall in HF. exact (any_fill_val ce cd t ch Ha (HF ch Hc)). }
  destruct Hb as [-> | ->]; exact H.
Qed.

Lemma list_fill_anys ft t chunks : list_elem ft = Some t -> is_any t = true ->
  Forall (fun ch => tlv_ok ch = true) chunks -> anys_ok ft (VList (map VAny chunks)) = true.
Proof.
  intros Hl Ha HF. pose proof (list_elem_base ft t Hl) as Hb.
  assert (Hna: base_of ft <> TAny) by (destruct Hb as [E|E]; rewrite E; discriminate).
  rewrite (anys_ok_base ft _ Hna). rewrite (anys_ok_list (base_of ft) t _ Hb).
  apply forallb_forall. intros x Hx. apply in_map_iff in Hx. destruct Hx as (ch & <- & Hc).
  rewrite Forall_forall in HF. exact (any_fill_anys t ch Ha (HF ch Hc)).
Qed.

Lemma enc_elems_ne ce t o : is_any t = true -> forall chunks parts,
  Forall (fun ch => ch <> []) chunks -> RoundTrip3.enc_elems_g ce t o (map VAny chunks) = Ok parts ->
  length parts = length chunks /\ Forall (fun pb => pb <> []) parts.
Proof.
  intros Ha. induction chunks as [|ch chunks IH]; intros parts HF H; cbn [map RoundTrip3.enc_elems_g] in H.
  - inversion H; subst. split; [reflexivity|constructor].
  - fold (RoundTrip3.enc_elems_g ce t o) in H. inversion HF as [|? ? Hne HF']; subst. unfold encw in H.
    destruct (enc_with ce (enc_content ce) t o (VAny ch)) as [pb|e] eqn:Ep; cbn [bind] in H; [|discriminate].
    destruct (RoundTrip3.enc_elems_g ce t o (map VAny chunks)) as [ps|e] eqn:Eps; cbn [bind] in H; [|discriminate].
    inversion H; subst parts. destruct (IH ps HF' eq_refl) as [HL HP]. split; [cbn [length]; congruence|].
    constructor; [exact (any_enc_ne ce t o ch pb Ha Hne Ep)|exact HP].
Qed.

Lemma concat_ne (parts: list bytes) : parts <> [] -> Forall (fun pb => pb <> []) parts -> (0 < length (concat parts))%nat.
Proof.
  intros Hne HF. destruct parts as [|pb ps]; [congruence|]. inversion HF as [|? ? Hp _]; subst.
  cbn [concat]. rewrite app_length. destruct pb; [congruence|cbn [length]; lia].
Qed.

(* a non-empty list of ANYs holding octets is never emptied by ifNotEmpty (the F24 class) *)
Lemma list_fill_nonempty ce ft t chunks : list_elem ft = Some t -> is_any t = true ->
  chunks <> [] -> Forall (fun ch => ch <> []) chunks -> nonempty_enc ce ft (VList (map VAny chunks)) = true.
Proof.
  intros Hl Ha Hne HF. pose proof (list_elem_base ft t Hl) as Hb. unfold nonempty_enc, encw.
  destruct (enc_with ce (enc_content ce) ft ifne_opts (VList (map VAny chunks))) as [b|e] eqn:E; [|reflexivity].
  assert (Hb0: b <> []); [|destruct b; [congruence|reflexivity]].
  unfold enc_with in E.
  destruct (concrete_encoder ce ft) as [[ec fl]|e]; cbn [bind] in E; [|discriminate].
  destruct (tagset_of ft) as [ts|e]; cbn [bind] in E; [|discriminate].
  rewrite enc_content_base in E. rewrite (enc_content_listof ce (base_of ft) t ec fl _ _ Hb) in E.
  set (o1 := mkOpts (o_def (fix_opts ce ifne_opts)) (o_chunk (fix_opts ce ifne_opts)) false) in E.
  destruct (RoundTrip3.enc_elems_g ce t o1 (map VAny chunks)) as [parts|e] eqn:Ep; cbn [bind] in E; [|discriminate].
  destruct (enc_elems_ne ce t o1 Ha chunks parts HF Ep) as [HL HP].
  assert (Hpne: parts <> []) by (destruct parts; [destruct chunks; [congruence|discriminate HL]|discriminate]).
  pose proof (concat_ne parts Hpne HP) as Hc.
  assert (Hgo: forall content cns, (0 < length content)%nat ->
            frame ts content cns (fix_opts ce ifne_opts) (ef_indef fl) = Ok b -> b <> []).
  { intros content cns Hlen Hfr. apply (frame_ne _ _ _ _ _ _ Hfr). destruct content; [cbn in Hlen; lia|discriminate]. }
  destruct ec; try discriminate E; cbn [bind] in E.
  - exact (Hgo _ _ Hc E).
  - exact (Hgo _ _ Hc E).
  - apply (Hgo _ _ ltac:(rewrite <- (concat_perm_length _ _ (sort_setof_perm_self parts)); exact Hc) E).
Qed.

(* the well-formedness of the inner values *)
Definition inner_ok (ce cd: codec) (srt d: bool) (k: N) (t: ty) (i: ty * val) : Prop :=
  stage3_ty srt ce (fst i) = true /\ stage3_val ce cd (fst i) (snd i) = true /\ holds_blob t (fst i) = false
  /\ (d = false -> inner_definite ce d k (fst i) (snd i)).

Section OpenList.
  Variables (ce cd: codec) (d: bool) (k: N) (srt: bool).
  Hypothesis Hmode : mode_ok ce cd d k.
  Variables (T: ty) (fs: list (presence * ty)) (gi oi: nat) (p: presence) (ft t: ty) (pg: presence) (gT: ty).
  Hypothesis Hty : stage3_ty srt ce T = true.
  Hypothesis Hf01 : d = false -> no_f01 T = true.
  Hypothesis Hrec : rec_fields T = Some fs.
  Hypothesis Hoi : nth_error fs oi = Some (p, ft).
  Hypothesis Hgi : nth_error fs gi = Some (pg, gT).
  Hypothesis Hlist : list_elem ft = Some t.
  Hypothesis Hany : is_any t = true.
  Hypothesis Hp : not_def p.
  Hypothesis Hpg : not_def pg.
  Hypothesis Hne : gi <> oi.
  Variables (vs: list (option val)) (g: val).
  Hypothesis Hvs : hole_val ce cd d T oi vs = true.
  Hypothesis Hg : nth gi vs None = Some g.
  Hypothesis Hgok : gov_ok gT g = true.
  Variable inners : list (ty * val).
  Hypothesis Hinners : Forall (inner_ok ce cd srt d k t) inners.
  (* an OPTIONAL list member with no element is left out by the CER/DER encoders (the F24 class) *)
  Hypothesis Hkept : is_opt p = true -> omits ce = true -> inners <> [].
  Variable wire : bytes.
  Hypothesis Henc : enc_open ce d k T oi (VRec vs) true inners = Ok wire.
  Hypothesis Hmax : N.of_nat (length wire) <= index_max.

  Lemma hole_len_l : (oi < length vs)%nat.
  Proof.
    unfold hole_val in Hvs. rewrite Hrec in Hvs. apply Bool.andb_true_iff in Hvs.
    exact (sv3_hole_length ce cd oi fs vs (proj1 Hvs)).
  Qed.

  Lemma open_first_pass_list :
    exists chunks v', Forall2 (fun i ch => encode ce d k (fst i) (snd i) = Ok ch) inners chunks /\
      Forall (fun ch => tlv_ok ch = true) chunks /\
      decode cd (Some T) wire = Ok (DV T v', []) /\
      aeq (abs T v') (abs T (VRec (set_nth oi (Some (VList (map VAny chunks))) vs))) /\
      (srt = false -> abs T v' = abs T (VRec (set_nth oi (Some (VList (map VAny chunks))) vs))).
  Proof.
    pose proof (mode_stable ce cd d k Hmode) as Hst.
    assert (HFb: Forall (fun i : ty * val => holds_blob t (fst i) = false) inners).
    { eapply Forall_impl; [|exact Hinners]. intros i (_ & _ & H & _). exact H. }
    destruct (enc_open_plain_list ce d k T fs oi p ft t vs inners wire Hrec Hoi Hlist Hany HFb Henc) as (chunks & HF2 & Hplain).
    assert (Htlv: Forall (fun ch => tlv_ok ch = true) chunks).
    { clear - HF2 Hinners Hst. induction HF2 as [|i ch inners chunks Hi HF2 IH]; [constructor|].
      inversion Hinners as [|? ? (H1 & H2 & _ & H4) Hin']; subst. constructor; [|exact (IH Hin')].
      destruct d eqn:Ed.
      - exact (definite_encoding_is_tlv ce cd srt k Hst (fst i) (snd i) ch H1 H2 Hi).
      - exact (H4 eq_refl ch Hi). }
    assert (Hfield: field_ok ce cd p ft (Some (VList (map VAny chunks))) = true).
    { pose proof (list_fill_val ce cd ft t chunks Hlist Hany Htlv) as Hv.
      destruct p as [| |dv]; cbn [field_ok]; [exact Hv| |contradiction].
      rewrite Hv. cbn [andb]. destruct (omits ce) eqn:Eo; [|reflexivity]. cbn [negb orb].
      apply (list_fill_nonempty ce ft t chunks Hlist Hany).
      - intros ->. inversion HF2; subst. exact (Hkept eq_refl eq_refl eq_refl).
      - eapply Forall_impl; [|exact Htlv]. intros ch Hc. exact (tlv_ne ch Hc). }
    destruct (hole_filled ce cd d T fs oi vs p ft _ Hrec Hoi Hvs Hfield
                (fun _ => list_fill_anys ft t chunks Hlist Hany Htlv)) as [Hsv Hsa].
    destruct (codec_rt ce cd d k srt Hmode T _ wire Hty Hf01 Hsv Hsa Hplain Hmax) as (v' & Hdec & Haeq & Heq).
    exists chunks, v'. repeat (split; [assumption|]). exact Heq.
  Qed.

  (* (1) resolution off or the governing value unmapped: every element holds exactly the complete encoding of
         an inner value (SET OF: in the order the encoder wrote them) *)
  Theorem open_raw_list : forall dflt override dot,
    (dot = false /\ override = []) \/ resolve_type override dflt g = None ->
    exists vs' ys,
      dec_open cd T gi oi dflt override dot wire = Ok (DV T (VRec vs'), []) /\
      nth oi vs' None = Some (VList ys) /\ length ys = length inners /\
      Forall (fun y => exists Ti xi ch, In (Ti, xi) inners /\ encode ce d k Ti xi = Ok ch /\ octets_of y = Some ch) ys.
  Proof.
    intros dflt override dot Hoff.
    destruct open_first_pass_list as (chunks & v' & HF2 & Htlv & Hdec & Haeq & _).
    destruct (raw_list_a cd T fs gi oi p ft t gT pg Hrec Hoi Hgi Hlist Hany Hp Hpg vs g chunks Hg Hgok Hne hole_len_l
                dflt override dot wire v' Hdec Haeq Hoff) as (vs' & ys & Hd & Hn & HL & HFy).
    exists vs', ys. split; [exact Hd|]. split; [exact Hn|]. split.
    - rewrite HL. symmetry. exact (Forall2_len_eq _ _ _ HF2).
    - eapply Forall_impl; [|exact HFy]. intros y (ch & Hc & Ho).
      destruct (Forall2_in_right _ _ _ HF2 ch Hc) as ([Ti xi] & Hi & He). cbn [fst snd] in He.
      exists Ti, xi, ch. auto.
  Qed.
  (* (2) resolution on and the governing value mapped to E, all inner values of type E: every element comes back
         as one of the inner values (same abstract content), read against the mapped type *)
  Variables (E: ty) (xs: list val).
  Hypothesis Hsame : inners = map (fun x => (E, x)) xs.
  Hypothesis Hif01 : d = false -> no_f01 E = true.
  Hypothesis Hianys : d = false -> forall x, In x xs -> anys_ok E x = true.
  Hypothesis Hifits : forall x, In x xs -> inner_fits ce d k E x.

  Theorem open_resolved_list : forall dflt override dot,
    (dot = true \/ override <> []) -> resolve_type override dflt g = Some E ->
    exists vs' ws,
      dec_open cd T gi oi dflt override dot wire
        = Ok (DV (subst_field T oi (retype_list ft E)) (VRec (set_nth oi (Some (VList ws)) vs')), []) /\
      length ws = length xs /\
      Forall (fun w => exists x, In x xs /\ aeq (abs E w) (abs E x) /\ (srt = false -> abs E w = abs E x)) ws /\
      nth gi vs' None = Some g.
  Proof.
    intros dflt override dot Hon Hmap.
    destruct open_first_pass_list as (chunks & v' & HF2 & Htlv & Hdec & Haeq & _).
    set (P := fun (ch: bytes) (w: val) => exists x, In x xs /\ aeq (abs E w) (abs E x) /\ (srt = false -> abs E w = abs E x)).
    assert (Hin: forall ch, In ch chunks ->
               no_eoo_prefix ch = true /\ exists w, decode cd (Some E) ch = Ok (DV E w, []) /\ P ch w).
    { intros ch Hc. rewrite Forall_forall in Htlv. split; [exact (tlv_no_eoo_prefix ch (Htlv ch Hc))|].
      destruct (Forall2_in_right _ _ _ HF2 ch Hc) as ([Ti x] & Hi & He). cbn [fst snd] in He.
      rewrite Forall_forall in Hinners. destruct (Hinners _ Hi) as (H1 & H2 & _ & _). cbn [fst snd] in H1, H2.
      rewrite Hsame in Hi. apply in_map_iff in Hi. destruct Hi as (x' & Heq & Hx). inversion Heq; subst Ti x'.
      destruct (codec_rt ce cd d k srt Hmode E x ch H1 Hif01 H2 (fun Hd => Hianys Hd x Hx) He (Hifits x Hx ch He))
        as (w & Hdw & Haw & Hew).
      exists w. split; [exact Hdw|]. exists x. auto. }
    destruct (resolved_list_a cd T fs gi oi p ft t gT pg Hrec Hoi Hgi Hlist Hany Hp Hpg vs g chunks Hg Hgok Hne hole_len_l
                dflt override dot wire v' Hdec Haeq E P Hon Hmap Hin) as (vs' & ys & ws & _ & _ & HL & Hg' & Hd & HF3).
    exists vs', ws. split; [exact Hd|]. split; [|split; [|exact Hg']].
    - rewrite <- (Forall2_len_eq _ _ _ HF3), HL, <- (Forall2_len_eq _ _ _ HF2), Hsame. apply map_length.
    - clear - HF3. induction HF3 as [|y w ys ws (ch & _ & _ & Hp) _ IH]; constructor; auto.
  Qed.

  Theorem open_override_wins_list : forall dflt override dot,
    omap_find g override = Some E ->
    exists vs' ws,
      dec_open cd T gi oi dflt override dot wire
        = Ok (DV (subst_field T oi (retype_list ft E)) (VRec (set_nth oi (Some (VList ws)) vs')), []) /\
      length ws = length xs /\
      Forall (fun w => exists x, In x xs /\ aeq (abs E w) (abs E x) /\ (srt = false -> abs E w = abs E x)) ws /\
      nth gi vs' None = Some g.
  Proof.
    intros dflt override dot Hov. apply open_resolved_list.
    - right. destruct override; [discriminate Hov|discriminate].
    - apply override_wins. exact Hov.
  Qed.
End OpenList.

Print Assumptions codec_rt.
Print Assumptions definite_encoding_is_tlv.
Print Assumptions open_raw.
Print Assumptions open_resolved.
Print Assumptions open_override_wins.
Print Assumptions open_raw_list.
Print Assumptions open_resolved_list.
Print Assumptions open_override_wins_list.


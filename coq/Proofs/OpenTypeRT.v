(* C18 without premises: the open-type theorems of Proofs/OpenType.v carry the round trip of the enclosing
   record (and of the inner value) as a premise ([roundtrips]: for EVERY value, which no codec theorem gives -
   the codec theorems speak of the values of the type).  Here the premise is discharged with the round-trip
   theorems of the whole type universe (Proofs/RoundTrip3e.v [stage3_generic], Proofs/RoundTripModes3.v
   [modes3_decode]) and the statements are unconditional: for every record type of the stage-3 universe with an
   open member, every governing value, every inner type of the universe and every inner value. *)
From Coq Require Import Lia Permutation.
From PV Require Import Base.Bytes Model.Tag Model.TableTypes Model.Types Model.Proc Model.Enc Model.Dec Model.Obs Gen.Tables
     Model.OpenType Model.OpenTypeDef Proofs.OpenType Proofs.OpenTypeDef
     Proofs.ProcBind Proofs.RunLemmas Proofs.RoundTrip3a Proofs.RoundTrip3d Proofs.TagOctets Proofs.TagAlgebra Proofs.DecFrame Proofs.TagsetShape
     Proofs.ContainerCodecSort Proofs.RoundTrip1 Proofs.RoundTrip2 Proofs.RoundTrip3 Proofs.RoundTrip3b Proofs.RoundTrip3c Proofs.RoundTrip3e Proofs.RoundTrip3f
     Proofs.AcceptedWellFormed Proofs.RoundTripModesC Proofs.RoundTripModes Proofs.RoundTripModes3b Proofs.RoundTripModes3c Proofs.RoundTripModes3f Proofs.RoundTripModes3.
Local Open Scope N_scope.

(* ====================================================================================================== *)
(* Part 1.  What the first pass fixes, from a round trip stated with [aeq] (equality of abstract contents up
   to the order of SET OF elements; plain equality is the special case [aeq_refl]).  Proofs/OpenType.v has
   this for the boolean comparison [aval_eqb], which is not reflexive (float REALs) and so cannot be fed
   from an equality. *)

Lemma aeq_to_leaf a b : aeq a b -> aleaf b -> a = b.
Proof. intros H Hl. apply aeq_sym in H. exact (aeq_leaf_inv b a H Hl). Qed.

Lemma aeq_to_rec a ys : aeq a (ARec ys) -> exists xs, a = ARec xs /\ Forall2 (RoundTrip3.opt_rel aeq) xs ys.
Proof.
  intros H. apply aeq_sym in H. destruct (aeq_rec_inv ys a H) as (xs & -> & HF).
  exists xs. split; [reflexivity|].
  clear H. induction HF as [|x y l1 l2 Hxy HF IH]; constructor; [|exact IH].
  destruct Hxy as [|x y Hxy]; [apply RoundTrip3.opt_rel_none|apply RoundTrip3.opt_rel_some; apply aeq_sym; exact Hxy].
Qed.

Lemma abs_is_rec T fs v l : rec_fields T = Some fs -> abs T v = ARec l -> exists vs, v = VRec vs.
Proof.
  intros H E. rewrite abs_base in E. unfold rec_fields in H.
  destruct (base_of T); try discriminate H; destruct v; cbn [abs] in E; try discriminate E; eauto.
Qed.

Lemma opt_rel_nth (l1 l2: list (option aval)) : Forall2 (RoundTrip3.opt_rel aeq) l1 l2 ->
  forall i a, nth i l2 None = Some a -> exists a', nth i l1 None = Some a' /\ aeq a' a.
Proof.
  induction 1 as [|x y l1 l2 Hxy HF IH]; intros i a Hn.
  - destruct i; discriminate Hn.
  - destruct i as [|i]; cbn [nth] in *.
    + subst y. inversion Hxy; subst. eauto.
    + exact (IH i a Hn).
Qed.

Lemma abs_any_octets_eq ft v b : is_any ft = true -> abs ft v = AAny b -> octets_of v = Some b.
Proof.
  intros Ha E. apply (abs_any_octets ft v b Ha). rewrite E. cbn [aval_eqb]. apply bytes_eqb_refl.
Qed.

Lemma abs_gov_eq gT g g' : gov_ok gT g = true -> abs gT g' = abs gT g -> g' = g.
Proof.
  intros Hok E. rewrite (abs_base gT g'), (abs_base gT g) in E. unfold gov_ok in Hok.
  destruct (base_of gT); destruct g; try discriminate Hok; destruct g'; cbn [abs] in E; try discriminate E;
    inversion E; reflexivity.
Qed.

Lemma gov_leaf gT g : gov_ok gT g = true -> aleaf (abs gT g).
Proof.
  intros Hok. rewrite (abs_base gT g). unfold gov_ok in Hok.
  destruct (base_of gT); destruct g; try discriminate Hok; exact I.
Qed.

Section ScalarA.
  Variables (c: codec) (T: ty) (fs: list (presence * ty)) (gi oi: nat).
  Variables (p: presence) (ft gT: ty) (pg: presence).
  Hypothesis Hrec : rec_fields T = Some fs.
  Hypothesis Hoi : nth_error fs oi = Some (p, ft).
  Hypothesis Hgi : nth_error fs gi = Some (pg, gT).
  Hypothesis Hany : is_any ft = true.
  Hypothesis Hp : not_def p.
  Hypothesis Hpg : not_def pg.
  Variables (vs: list (option val)) (g: val) (chunk: bytes).
  Hypothesis Hg : nth gi vs None = Some g.
  Hypothesis Hgok : gov_ok gT g = true.
  Hypothesis Hne : gi <> oi.
  Hypothesis Hlen : (oi < length vs)%nat.

  Let sent := VRec (set_nth oi (Some (VAny chunk)) vs).

  Lemma first_pass_facts_a : forall v',
    aeq (abs T v') (abs T sent) ->
    exists vs', v' = VRec vs' /\
      (exists fv, nth oi vs' None = Some fv /\ octets_of fv = Some chunk) /\
      nth gi vs' None = Some g.
  Proof.
    intros v' E. unfold sent in E. rewrite (abs_record T fs _ Hrec) in E.
    destruct (aeq_to_rec _ _ E) as (xs & Hx & HF).
    destruct (abs_is_rec T fs v' xs Hrec Hx) as [vs' ->].
    rewrite (abs_record T fs _ Hrec) in Hx. inversion Hx; subst xs; clear Hx.
    exists vs'. split; [reflexivity|]. split.
    - assert (Hn: nth oi (abs_fields fs (set_nth oi (Some (VAny chunk)) vs)) None = Some (abs ft (VAny chunk)))
        by (eapply abs_fields_nth_set; eauto).
      destruct (opt_rel_nth _ _ HF _ _ Hn) as [a' [Ha' Ea']].
      rewrite (abs_any_VAny ft chunk Hany) in Ea'.
      apply aeq_to_leaf in Ea'; [|exact I]. subst a'.
      destruct (nth oi vs' None) as [fv|] eqn:Hfv.
      + exists fv. split; [reflexivity|].
        rewrite (abs_fields_nth fs vs' oi p ft fv Hoi Hfv) in Ha'. inversion Ha' as [Ha2].
        exact (abs_any_octets_eq ft fv chunk Hany Ha2).
      + rewrite (abs_fields_nth_none fs vs' oi p ft Hoi Hp Hfv) in Ha'. discriminate.
    - assert (Hgs: nth gi (set_nth oi (Some (VAny chunk)) vs) None = Some g)
        by (rewrite nth_set_nth_other; auto).
      pose proof (abs_fields_nth fs _ gi pg gT g Hgi Hgs) as Hn.
      destruct (opt_rel_nth _ _ HF _ _ Hn) as [a' [Ha' Ea']].
      apply aeq_to_leaf in Ea'; [|exact (gov_leaf gT g Hgok)]. subst a'.
      destruct (nth gi vs' None) as [g'|] eqn:Hg'.
      + rewrite (abs_fields_nth fs vs' gi pg gT g' Hgi Hg') in Ha'. inversion Ha' as [Ha2].
        f_equal. exact (abs_gov_eq gT g g' Hgok Ha2).
      + rewrite (abs_fields_nth_none fs vs' gi pg gT Hgi Hpg Hg') in Ha'. discriminate.
  Qed.

  Variables (dflt override: omap) (dot: bool) (wire: bytes).
  Variable v' : val.
  Hypothesis Hfirst : decode c (Some T) wire = Ok (DV T v', []).
  Hypothesis Hobs : aeq (abs T v') (abs T sent).

  (* resolution off, or the governing value in neither map: the member holds exactly [chunk] *)
  Lemma raw_a :
    (dot = false /\ override = []) \/ resolve_type override dflt g = None ->
    exists vs' fv, v' = VRec vs' /\ dec_open c T gi oi dflt override dot wire = Ok (DV T (VRec vs'), [])
                   /\ nth oi vs' None = Some fv /\ octets_of fv = Some chunk.
  Proof.
    intros Hoff. destruct (first_pass_facts_a v' Hobs) as [vs' [-> [[fv [Hfv Ho]] Hg']]].
    exists vs', fv. split; [reflexivity|]. split; [|split; assumption].
    unfold dec_open, dec_open_after. rewrite Hfirst. cbn [bind].
    destruct Hoff as [[-> ->] | Hun]; [reflexivity|].
    destruct (negb (dot || match override with [] => false | _ :: _ => true end)); [reflexivity|].
    rewrite Hrec. unfold second_pass. rewrite Hoi, Hfv, Hg', Hun. reflexivity.
  Qed.

  (* resolution on, governing value mapped to E, [chunk] decodes as E to w: the member becomes w *)
  Lemma resolved_a : forall E w,
    (dot = true \/ override <> []) ->
    resolve_type override dflt g = Some E ->
    no_eoo_prefix chunk = true ->
    decode c (Some E) chunk = Ok (DV E w, []) ->
    exists vs', v' = VRec vs' /\ nth gi vs' None = Some g /\
      dec_open c T gi oi dflt override dot wire
        = Ok (DV (subst_field T oi E) (VRec (set_nth oi (Some w) vs')), []).
  Proof.
    intros E w Hon Hmap Hpre Hin. destruct (first_pass_facts_a v' Hobs) as [vs' [-> [[fv [Hfv Ho]] Hg']]].
    exists vs'. split; [reflexivity|]. split; [exact Hg'|].
    unfold dec_open, dec_open_after. rewrite Hfirst. cbn [bind].
    assert (Hr: (dot || match override with [] => false | _ :: _ => true end) = true).
    { destruct Hon as [-> | Hov]; [reflexivity|]. destruct override; [congruence|]. apply Bool.orb_true_r. }
    rewrite Hr. cbn [negb]. cbv iota. rewrite Hrec.
    unfold second_pass. rewrite Hoi, Hfv, Hg', Hmap, (list_elem_any ft Hany), Ho.
    rewrite (decode_eoo_any c _ (Some E) chunk Hpre), Hin. reflexivity.
  Qed.
End ScalarA.

(* ---------- SEQUENCE OF / SET OF ANY members ---------- *)

Lemma aeq_to_list a ys : aeq a (AList ys) -> exists xs, a = AList xs /\ Forall2 aeq ys xs.
Proof. intros H. apply aeq_sym in H. destruct (aeq_list_inv ys a H) as (xs & -> & HF). eauto. Qed.

Lemma aeq_to_bag a ys : aeq a (ABag ys) -> exists xs zs, a = ABag xs /\ Permutation ys zs /\ Forall2 aeq zs xs.
Proof. intros H. apply aeq_sym in H. destruct (aeq_bag_inv ys a H) as (xs & zs & -> & Hp & HF). eauto. Qed.

Lemma Forall2_in_right {A B} (R: A -> B -> Prop) l1 l2 : Forall2 R l1 l2 ->
  forall b, In b l2 -> exists a, In a l1 /\ R a b.
Proof.
  induction 1 as [|x y l1 l2 Hxy HF IH]; intros b Hin; [destruct Hin|].
  destruct Hin as [<-|Hin]; [exists x; split; [left; reflexivity|exact Hxy]|].
  destruct (IH b Hin) as (a & Ha & Hr). exists a. split; [right; exact Ha|exact Hr].
Qed.

Lemma Forall2_len_eq {A B} (R: A -> B -> Prop) l1 l2 : Forall2 R l1 l2 -> length l1 = length l2.
Proof. induction 1; cbn [length]; congruence. Qed.

(* every element of a decoded list member that reads like the list of wrapped chunks holds one of them *)
Lemma list_member_facts_a ft t fv chunks :
  list_elem ft = Some t -> is_any t = true ->
  aeq (abs ft fv) (abs ft (VList (map VAny chunks))) ->
  exists ys, fv = VList ys /\ length ys = length chunks /\
    Forall (fun y => exists ch, In ch chunks /\ octets_of y = Some ch) ys.
Proof.
  intros Hl Ht E. rewrite (abs_base ft fv), (abs_base ft (VList _)) in E. unfold list_elem in Hl.
  assert (Hel: forall zs y, (forall z, In z zs -> In z (map (abs t) (map VAny chunks))) ->
             forall a, In a zs -> aeq a (abs t y) -> exists ch, In ch chunks /\ octets_of y = Some ch).
  { intros zs y Hsub a Ha Ey. specialize (Hsub a Ha). rewrite map_map in Hsub. apply in_map_iff in Hsub.
    destruct Hsub as [ch [<- Hch]]. exists ch. split; [exact Hch|].
    rewrite (abs_any_VAny t ch Ht) in Ey. apply aeq_sym in Ey. apply aeq_to_leaf in Ey; [|exact I].
    exact (abs_any_octets_eq t y ch Ht Ey). }
  destruct (base_of ft); try discriminate Hl; inversion Hl; subst; cbn [abs] in E.
  - apply aeq_to_list in E. destruct E as (xs & Hx & HF).
    destruct fv; cbn [abs] in Hx; try discriminate Hx. inversion Hx; subst xs; clear Hx.
    exists xs0. split; [reflexivity|]. split.
    + pose proof (Forall2_len_eq _ _ _ HF) as HL. rewrite !map_length in HL. symmetry. exact HL.
    + apply Forall_forall. intros y Hy.
      destruct (Forall2_in_right _ _ _ HF (abs t y) (in_map _ _ _ Hy)) as (a & Ha & Ra).
      exact (Hel _ y (fun z Hz => Hz) a Ha Ra).
  - apply aeq_to_bag in E. destruct E as (xs & zs & Hx & Hperm & HF).
    destruct fv; cbn [abs] in Hx; try discriminate Hx. inversion Hx; subst xs; clear Hx.
    exists xs0. split; [reflexivity|]. split.
    + pose proof (Forall2_len_eq _ _ _ HF) as HL. rewrite <- (Permutation_length Hperm) in HL.
      rewrite !map_length in HL. symmetry. exact HL.
    + apply Forall_forall. intros y Hy.
      destruct (Forall2_in_right _ _ _ HF (abs t y) (in_map _ _ _ Hy)) as (a & Ha & Ra).
      refine (Hel zs y _ a Ha Ra).
      intros z Hz. exact (Permutation_in z (Permutation_sym Hperm) Hz).
Qed.

Section ListA.
  Variables (c: codec) (T: ty) (fs: list (presence * ty)) (gi oi: nat).
  Variables (p: presence) (ft t gT: ty) (pg: presence).
  Hypothesis Hrec : rec_fields T = Some fs.
  Hypothesis Hoi : nth_error fs oi = Some (p, ft).
  Hypothesis Hgi : nth_error fs gi = Some (pg, gT).
  Hypothesis Hlist : list_elem ft = Some t.
  Hypothesis Hany : is_any t = true.
  Hypothesis Hp : not_def p.
  Hypothesis Hpg : not_def pg.
  Variables (vs: list (option val)) (g: val) (chunks: list bytes).
  Hypothesis Hg : nth gi vs None = Some g.
  Hypothesis Hgok : gov_ok gT g = true.
  Hypothesis Hne : gi <> oi.
  Hypothesis Hlen : (oi < length vs)%nat.

  Let sent := VRec (set_nth oi (Some (VList (map VAny chunks))) vs).

  Lemma first_pass_facts_list_a : forall v',
    aeq (abs T v') (abs T sent) ->
    exists vs' ys, v' = VRec vs' /\ nth oi vs' None = Some (VList ys) /\ length ys = length chunks /\
      Forall (fun y => exists ch, In ch chunks /\ octets_of y = Some ch) ys /\
      nth gi vs' None = Some g.
  Proof.
    intros v' E. unfold sent in E. rewrite (abs_record T fs _ Hrec) in E.
    destruct (aeq_to_rec _ _ E) as (xs & Hx & HF).
    destruct (abs_is_rec T fs v' xs Hrec Hx) as [vs' ->].
    rewrite (abs_record T fs _ Hrec) in Hx. inversion Hx; subst xs; clear Hx.
    assert (Hn: nth oi (abs_fields fs (set_nth oi (Some (VList (map VAny chunks))) vs)) None
                = Some (abs ft (VList (map VAny chunks)))) by (eapply abs_fields_nth_set; eauto).
    destruct (opt_rel_nth _ _ HF _ _ Hn) as [a' [Ha' Ea']].
    destruct (nth oi vs' None) as [fv|] eqn:Hfv;
      [|rewrite (abs_fields_nth_none fs vs' oi p ft Hoi Hp Hfv) in Ha'; discriminate].
    rewrite (abs_fields_nth fs vs' oi p ft fv Hoi Hfv) in Ha'. inversion Ha'; subst a'.
    destruct (list_member_facts_a ft t fv chunks Hlist Hany Ea') as [ys [-> [HL HFy]]].
    exists vs', ys. split; [reflexivity|]. split; [exact Hfv|]. split; [exact HL|]. split; [exact HFy|].
    assert (Hgs: nth gi (set_nth oi (Some (VList (map VAny chunks))) vs) None = Some g)
      by (rewrite nth_set_nth_other; auto).
    pose proof (abs_fields_nth fs _ gi pg gT g Hgi Hgs) as Hn2.
    destruct (opt_rel_nth _ _ HF _ _ Hn2) as [a2 [Ha2 Ea2]].
    apply aeq_to_leaf in Ea2; [|exact (gov_leaf gT g Hgok)]. subst a2.
    destruct (nth gi vs' None) as [g'|] eqn:Hg'.
    - rewrite (abs_fields_nth fs vs' gi pg gT g' Hgi Hg') in Ha2. inversion Ha2 as [Ha3].
      f_equal. exact (abs_gov_eq gT g g' Hgok Ha3).
    - rewrite (abs_fields_nth_none fs vs' gi pg gT Hgi Hpg Hg') in Ha2. discriminate.
  Qed.

  Variables (dflt override: omap) (dot: bool) (wire: bytes).
  Variable v' : val.
  Hypothesis Hfirst : decode c (Some T) wire = Ok (DV T v', []).
  Hypothesis Hobs : aeq (abs T v') (abs T sent).

  Lemma raw_list_a :
    (dot = false /\ override = []) \/ resolve_type override dflt g = None ->
    exists vs' ys, dec_open c T gi oi dflt override dot wire = Ok (DV T (VRec vs'), [])
      /\ nth oi vs' None = Some (VList ys) /\ length ys = length chunks
      /\ Forall (fun y => exists ch, In ch chunks /\ octets_of y = Some ch) ys.
  Proof.
    intros Hoff. destruct (first_pass_facts_list_a v' Hobs) as [vs' [ys [-> [Hfv [HL [HF Hg']]]]]].
    exists vs', ys. split; [|auto].
    unfold dec_open, dec_open_after. rewrite Hfirst. cbn [bind].
    destruct Hoff as [[-> ->] | Hun]; [reflexivity|].
    destruct (negb (dot || match override with [] => false | _ :: _ => true end)); [reflexivity|].
    rewrite Hrec. unfold second_pass. rewrite Hoi, Hfv, Hg', Hun. reflexivity.
  Qed.

  Lemma resolved_list_a : forall E (P: bytes -> val -> Prop),
    (dot = true \/ override <> []) ->
    resolve_type override dflt g = Some E ->
    (forall ch, In ch chunks -> no_eoo_prefix ch = true /\ exists w, decode c (Some E) ch = Ok (DV E w, []) /\ P ch w) ->
    exists vs' ys ws, v' = VRec vs' /\ nth oi vs' None = Some (VList ys) /\ length ys = length chunks /\
      nth gi vs' None = Some g /\
      dec_open c T gi oi dflt override dot wire
        = Ok (DV (subst_field T oi (retype_list ft E)) (VRec (set_nth oi (Some (VList ws)) vs')), []) /\
      Forall2 (fun y w => exists ch, In ch chunks /\ octets_of y = Some ch /\ P ch w) ys ws.
  Proof.
    intros E P Hon Hmap Hin. destruct (first_pass_facts_list_a v' Hobs) as [vs' [ys [-> [Hfv [HL [HF Hg']]]]]].
    set (allow := own_len_indef (length (tagset_of' T) - 1) wire).
    destruct (resolve_elems_spec c allow E P chunks ys Hin HF) as [ws [Hws HF2]].
    exists vs', ys, ws. split; [reflexivity|]. split; [exact Hfv|]. split; [exact HL|]. split; [exact Hg'|].
    split; [|exact HF2].
    unfold dec_open, dec_open_after. rewrite Hfirst. cbn [bind].
    assert (Hr: (dot || match override with [] => false | _ :: _ => true end) = true).
    { destruct Hon as [-> | Hov]; [reflexivity|]. destruct override; [congruence|]. apply Bool.orb_true_r. }
    rewrite Hr. cbn [negb]. cbv iota. rewrite Hrec.
    unfold second_pass. rewrite Hoi, Hfv, Hg', Hmap, Hlist. fold allow. rewrite Hws. reflexivity.
  Qed.
End ListA.

(* ====================================================================================================== *)
(* Part 2.  The codec round trip, in the shape the open-type theorems need. *)

(* the encoder/decoder modes the codec theorems cover:
   - the BER or DER encoder, definite lengths, unsegmented, read by any decoder (RoundTrip3e.v);
   - any encoder in options its fixed options leave alone - BER with any defMode/maxChunkSize, CER with
     (False, 1000), DER with (True, 0) - read by the BER or the CER decoder (RoundTripModes3.v) *)
Inductive mode_ok (ce cd: codec) (d: bool) (k: N) : Prop :=
| mode_def : enc_ok ce -> d = true -> k = 0 -> mode_ok ce cd d k
| mode_any : stable ce d k -> dec_ok cd -> mode_ok ce cd d k.

Lemma mode_stable ce cd d k : mode_ok ce cd d k -> stable ce d k.
Proof. intros [[-> | ->] -> -> | H _]; [reflexivity|reflexivity|exact H]. Qed.

(* [srt = false]: no SET OF under an encoder that sorts its elements, abstract contents come back equal;
   [srt = true]: they come back equal up to the order of SET OF elements *)
Theorem codec_rt ce cd d k srt : mode_ok ce cd d k -> forall T v b,
  stage3_ty srt ce T = true -> (d = false -> no_f01 T = true) ->
  stage3_val ce cd T v = true -> (d = false -> anys_ok T v = true) ->
  encode ce d k T v = Ok b -> N.of_nat (length b) <= index_max ->
  exists v', decode cd (Some T) b = Ok (DV T v', []) /\ aeq (abs T v') (abs T v) /\ (srt = false -> abs T v' = abs T v).
Proof.
  intros Hm T v b Hty Hf Hv Ha He Hmax. destruct srt.
  - assert (H: exists v', decode cd (Some T) (b ++ []) = Ok (DV T v', []) /\ aeq (abs T v') (abs T v)).
    { destruct Hm as [Hce -> -> | Hst Hcd].
      - exact (stage3_generic ce cd aeq true Hce rel_ok_aeq T v b [] Hty Hv He Hmax).
      - exact (modes3_decode ce cd d k Hst Hcd aeq true rel_ok_aeq T v b [] Hty Hf Hv Ha He Hmax). }
    rewrite app_nil_r in H. destruct H as (v' & H1 & H2). exists v'. split; [exact H1|]. split; [exact H2|discriminate].
  - assert (H: exists v', decode cd (Some T) (b ++ []) = Ok (DV T v', []) /\ abs T v' = abs T v).
    { destruct Hm as [Hce -> -> | Hst Hcd].
      - exact (stage3_generic ce cd eq false Hce rel_ok_eq T v b [] Hty Hv He Hmax).
      - exact (modes3_decode ce cd d k Hst Hcd eq false rel_ok_eq T v b [] Hty Hf Hv Ha He Hmax). }
    rewrite app_nil_r in H. destruct H as (v' & H1 & H2). exists v'. split; [exact H1|].
    split; [rewrite H2; apply aeq_refl|intros _; exact H2].
Qed.

(* ====================================================================================================== *)
(* Part 3.  The value of the enclosing record: every member but the open one (whose slot [enc_open]
   overwrites) is a value of its type in the sense of the codec theorems. *)

Definition field_ok (ce cd: codec) (p: presence) (ft: ty) (ov: option val) : bool :=
  match p, ov with
  | Req, Some x => stage3_val ce cd ft x
  | Req, None => false
  | Opt, None | Def _, None => true
  | Opt, Some x => stage3_val ce cd ft x && (negb (omits ce) || nonempty_enc ce ft x)
  | Def _, Some x => stage3_val ce cd ft x
  end.

Lemma sv3_fields_cons ce cd p ft fs ov vs :
  sv3_fields ce cd ((p, ft) :: fs) (ov :: vs) = (field_ok ce cd p ft ov && sv3_fields ce cd fs vs)%bool.
Proof. reflexivity. Qed.

Fixpoint sv3_hole (ce cd: codec) (oi: nat) (fs: list (presence * ty)) (vs: list (option val)) : bool :=
  match fs, vs with
  | (p, ft) :: fs', ov :: vs' =>
      match oi with
      | O => sv3_fields ce cd fs' vs'
      | S j => field_ok ce cd p ft ov && sv3_hole ce cd j fs' vs'
      end
  | _, _ => false
  end.

Lemma sv3_fill ce cd : forall oi fs vs p ft y,
  sv3_hole ce cd oi fs vs = true -> nth_error fs oi = Some (p, ft) -> field_ok ce cd p ft (Some y) = true ->
  sv3_fields ce cd fs (set_nth oi (Some y) vs) = true.
Proof.
  induction oi as [|j IH]; intros fs vs p ft y Hh Hn Hy; destruct fs as [|[q gt] fs]; try discriminate Hn;
    destruct vs as [|ov vs]; try discriminate Hh; cbn [nth_error] in Hn; cbn [sv3_hole] in Hh; cbn [set_nth].
  - inversion Hn; subst q gt. rewrite sv3_fields_cons, Hy, Hh. reflexivity.
  - apply Bool.andb_true_iff in Hh. destruct Hh as [H0 Hh]. rewrite sv3_fields_cons, H0. cbn [andb].
    exact (IH fs vs p ft y Hh Hn Hy).
Qed.

Lemma sv3_hole_length ce cd : forall oi fs vs, sv3_hole ce cd oi fs vs = true -> (oi < length vs)%nat.
Proof.
  induction oi as [|j IH]; intros fs vs Hh; destruct fs as [|[q gt] fs]; try discriminate Hh;
    destruct vs as [|ov vs]; try discriminate Hh; cbn [sv3_hole] in Hh; cbn [length]; [lia|].
  apply Bool.andb_true_iff in Hh. specialize (IH fs vs (proj2 Hh)). lia.
Qed.

(* indefinite lengths: the octets of the other tagged ANYs *)
Lemma anys_fields_cons p ft fs ov vs :
  anys_fields ((p, ft) :: fs) (ov :: vs) = ((match ov with Some x => anys_ok ft x | None => true end) && anys_fields fs vs)%bool.
Proof. destruct ov; reflexivity. Qed.

Fixpoint anys_hole (oi: nat) (fs: list (presence * ty)) (vs: list (option val)) : bool :=
  match fs, vs with
  | (p, ft) :: fs', ov :: vs' =>
      match oi with
      | O => anys_fields fs' vs'
      | S j => (match ov with Some x => anys_ok ft x | None => true end) && anys_hole j fs' vs'
      end
  | _, _ => true
  end.

Lemma anys_fill : forall oi fs vs p ft y,
  anys_hole oi fs vs = true -> nth_error fs oi = Some (p, ft) -> anys_ok ft y = true ->
  anys_fields fs (set_nth oi (Some y) vs) = true.
Proof.
  induction oi as [|j IH]; intros fs vs p ft y Hh Hn Hy; destruct fs as [|[q gt] fs]; try discriminate Hn;
    destruct vs as [|ov vs]; try reflexivity; cbn [nth_error] in Hn; cbn [anys_hole] in Hh; cbn [set_nth].
  - inversion Hn; subst q gt. rewrite anys_fields_cons, Hy, Hh. reflexivity.
  - apply Bool.andb_true_iff in Hh. destruct Hh as [H0 Hh]. rewrite anys_fields_cons, H0. cbn [andb].
    exact (IH fs vs p ft y Hh Hn Hy).
Qed.

(* the well-formedness of the enclosing record value, computable: [d] = definite lengths *)
Definition hole_val (ce cd: codec) (d: bool) (T: ty) (oi: nat) (vs: list (option val)) : bool :=
  match rec_fields T with
  | Some fs => sv3_hole ce cd oi fs vs && (d || anys_hole oi fs vs)
  | None => false
  end.

Lemma rec_fields_base T fs : rec_fields T = Some fs -> base_of T = TSeq fs \/ base_of T = TSet fs.
Proof. unfold rec_fields. destruct (base_of T); intros H; try discriminate H; inversion H; auto. Qed.

Lemma list_elem_base ft t : list_elem ft = Some t -> base_of ft = TSeqOf t \/ base_of ft = TSetOf t.
Proof. unfold list_elem. destruct (base_of ft); intros H; try discriminate H; inversion H; auto. Qed.

Lemma hole_filled ce cd d T fs oi vs p ft y :
  rec_fields T = Some fs -> nth_error fs oi = Some (p, ft) -> hole_val ce cd d T oi vs = true ->
  field_ok ce cd p ft (Some y) = true -> (d = false -> anys_ok ft y = true) ->
  stage3_val ce cd T (VRec (set_nth oi (Some y) vs)) = true
  /\ (d = false -> anys_ok T (VRec (set_nth oi (Some y) vs)) = true).
Proof.
  intros Hrec Hoi Hh Hy Ha. unfold hole_val in Hh. rewrite Hrec in Hh.
  apply Bool.andb_true_iff in Hh. destruct Hh as [H1 H2].
  assert (Hna: base_of T <> TAny) by (destruct (rec_fields_base T fs Hrec) as [E|E]; rewrite E; discriminate).
  split.
  - rewrite (stage3_val_base ce cd T _ Hna).
    rewrite (stage3_val_rec ce cd (base_of T) fs _ (rec_fields_base T fs Hrec)).
    exact (sv3_fill ce cd oi fs vs p ft y H1 Hoi Hy).
  - intros Hd. rewrite Hd in H2. cbn [orb] in H2.
    rewrite (anys_ok_base T _ Hna). rewrite (anys_ok_rec (base_of T) fs _ (rec_fields_base T fs Hrec)).
    exact (anys_fill oi fs vs p ft y H2 Hoi (Ha Hd)).
Qed.

(* ====================================================================================================== *)
(* Part 4.  The wrapped inner encoding as the value of the ANY member. *)

Lemma is_any_cases ft : is_any ft = true -> ft = TAny \/ (base_of ft = TAny /\ is_wrapped ft = true).
Proof.
  unfold is_any. intros H. destruct ft; cbn [base_of] in H; try discriminate H; auto.
  - right. split; [|reflexivity]. cbn [base_of]. destruct (base_of ft); try discriminate H; reflexivity.
  - right. split; [|reflexivity]. cbn [base_of]. destruct (base_of ft); try discriminate H; reflexivity.
Qed.

Lemma any_fill_val ce cd ft chunk : is_any ft = true -> tlv_ok chunk = true -> stage3_val ce cd ft (VAny chunk) = true.
Proof.
  intros Ha Ht. destruct (is_any_cases ft Ha) as [-> | [Hb Hw]]; [exact Ht|].
  rewrite (stage3_val_tagged_any ce cd ft _ Hb Hw). reflexivity.
Qed.

(* a tagged ANY takes any octets (definite lengths) *)
Lemma any_fill_val_tagged ce cd ft chunk : is_any ft = true -> ft <> TAny -> stage3_val ce cd ft (VAny chunk) = true.
Proof.
  intros Ha Hn. destruct (is_any_cases ft Ha) as [-> | [Hb Hw]]; [congruence|].
  rewrite (stage3_val_tagged_any ce cd ft _ Hb Hw). reflexivity.
Qed.

Lemma tlv_any_payload b : tlv_ok b = true -> any_payload_ok b = true.
Proof.
  intros H. destruct (tlv_ok_inv b H) as (t & r1 & r2 & Hid & Hdl & Hne).
  pose proof (dec_ident_len _ _ _ Hid) as L1. pose proof (dec_len_len _ _ _ Hdl) as L2.
  unfold any_payload_ok. destruct b as [|o b']; [discriminate Hid|].
  cbn [tlvs_ok]. rewrite Hid, Hdl. cbv zeta. rewrite Nat2N.id.
  replace (length (o :: b') - length r2 + length r2)%nat with (length (o :: b')) by lia.
  rewrite firstn_all, skipn_all, H. destruct (length (o :: b')); reflexivity.
Qed.

Lemma any_fill_anys ft chunk : is_any ft = true -> tlv_ok chunk = true -> anys_ok ft (VAny chunk) = true.
Proof.
  intros Ha Ht. destruct (is_any_cases ft Ha) as [-> | [Hb Hw]]; [reflexivity|].
  rewrite (anys_ok_tagged_any ft _ Hb Hw). exact (tlv_any_payload chunk Ht).
Qed.

(* nothing the frame writes is empty unless the contents are *)
Lemma frame_outer_ne : forall r c d si sub b, frame_outer r c d si sub = Ok b -> sub <> [] -> b <> [].
Proof.
  induction r as [|t r IH]; intros c d si sub b H Hne; cbn [frame_outer] in H.
  - inversion H; subst. exact Hne.
  - destruct (frame_one t c d si sub) as [s1|e] eqn:E1; cbn [bind] in H; [|discriminate].
    apply (IH _ _ _ _ _ H). unfold frame_one in E1.
    destruct (enc_len (N.of_nat (length sub)) (negb d && si)) as [l|e]; cbn [bind] in E1; [|discriminate].
    inversion E1; subst. pose proof (enc_tag_nonempty t c). destruct (enc_tag t c); [cbn in *; lia|discriminate].
Qed.

Lemma frame_ne ts content cns o si b : frame ts content cns o si = Ok b -> content <> [] -> b <> [].
Proof.
  intros H Hne. destruct ts as [|t0 r]; cbn [frame] in H; [inversion H; subst; exact Hne|].
  destruct content as [|x content]; [congruence|]. cbn [andb] in H.
  destruct (frame_one t0 cns (if cns then o_def o else true) si (x :: content)) as [s0|e] eqn:E0; cbn [bind] in H; [|discriminate].
  apply (frame_outer_ne _ _ _ _ _ _ H). unfold frame_one in E0.
  destruct (enc_len _ _) as [l|e]; cbn [bind] in E0; [|discriminate].
  inversion E0; subst. pose proof (enc_tag_nonempty t0 cns). destruct (enc_tag t0 cns); [cbn in *; lia|discriminate].
Qed.

(* the encoding of an ANY holding octets, under any options: never emptied by ifNotEmpty *)
Lemma any_enc_ne ce ft o chunk b : is_any ft = true -> chunk <> [] ->
  enc_with ce (enc_content ce) ft o (VAny chunk) = Ok b -> b <> [].
Proof.
  intros Ha Hne H. unfold enc_with in H.
  destruct (concrete_encoder ce ft) as [[ec fl]|e]; cbn [bind] in H; [|discriminate].
  destruct (tagset_of ft) as [ts|e]; cbn [bind] in H; [|discriminate].
  rewrite enc_content_base in H. unfold is_any in Ha. destruct (base_of ft); try discriminate Ha.
  cbn [enc_content] in H. destruct ec; cbn [bind] in H; try discriminate H.
  cbn [octets_of bind] in H. exact (frame_ne _ _ _ _ _ _ H Hne).
Qed.

Lemma any_fill_nonempty ce ft chunk : is_any ft = true -> chunk <> [] -> nonempty_enc ce ft (VAny chunk) = true.
Proof.
  intros Ha Hne. unfold nonempty_enc, encw.
  destruct (enc_with ce (enc_content ce) ft ifne_opts (VAny chunk)) as [b|e] eqn:E; [|reflexivity].
  pose proof (any_enc_ne ce ft _ chunk b Ha Hne E). destruct b; [congruence|reflexivity].
Qed.

Lemma tlv_ne b : tlv_ok b = true -> b <> [].
Proof. intros H. destruct (tlv_ok_facts b H) as [Hl _]. destruct b; [cbn in Hl; lia|discriminate]. Qed.

Lemma tlv_no_eoo_prefix b : tlv_ok b = true -> no_eoo_prefix b = true.
Proof.
  intros H. destruct (tlv_ok_facts b H) as [Hl Hh]. destruct b as [|x [|y r]]; try (cbn in Hl; lia).
  cbn [hd] in Hh. cbn [no_eoo_prefix]. destruct (N.eqb_spec x 0); [congruence|reflexivity].
Qed.

(* the open member holding [VAny chunk] is a good member value *)
Lemma any_fill_field ce cd p ft chunk : is_any ft = true -> tlv_ok chunk = true -> not_def p ->
  field_ok ce cd p ft (Some (VAny chunk)) = true.
Proof.
  intros Ha Ht Hp. pose proof (any_fill_val ce cd ft chunk Ha Ht) as Hv.
  destruct p as [| |dv]; cbn [field_ok]; [exact Hv| |contradiction].
  rewrite Hv, (any_fill_nonempty ce ft chunk Ha (tlv_ne chunk Ht)). apply Bool.orb_true_r.
Qed.

(* a tagged ANY member, definite lengths: any non-empty octets *)
Lemma any_fill_field_tagged ce cd p ft chunk : is_any ft = true -> ft <> TAny -> chunk <> [] -> not_def p ->
  field_ok ce cd p ft (Some (VAny chunk)) = true.
Proof.
  intros Ha Hn Hne Hp. pose proof (any_fill_val_tagged ce cd ft chunk Ha Hn) as Hv.
  destruct p as [| |dv]; cbn [field_ok]; [exact Hv| |contradiction].
  rewrite Hv, (any_fill_nonempty ce ft chunk Ha Hne). apply Bool.orb_true_r.
Qed.

(* ====================================================================================================== *)
(* Part 5.  With definite lengths, the encoding of a value of the universe is one complete TLV of definite
   length, not the end-of-octets marker: what an untagged ANY may hold. *)

Definition eoo_tag (t: tag) : bool := cls_eqb (tcls t) Univ && N.eqb (tnum t) 0.

Lemma frame_one_tlv t c si sub b : frame_one t c true si sub = Ok b -> eoo_tag t = false -> tlv_ok b = true.
Proof.
  unfold frame_one. cbn [negb andb]. intros H Ht.
  destruct (enc_len (N.of_nat (length sub)) false) as [l|e] eqn:El; cbn [bind] in H; [|discriminate].
  inversion H; subst b; clear H. rewrite app_nil_r. unfold tlv_ok.
  rewrite dec_enc_tag. rewrite (dec_enc_len _ l sub El). rewrite N.eqb_refl. cbn [tcls tnum andb].
  unfold eoo_tag in Ht. rewrite Ht. reflexivity.
Qed.

Lemma frame_outer_tlv : forall r c si sub b, frame_outer r c true si sub = Ok b ->
  tlv_ok sub = true -> Forall (fun t => eoo_tag t = false) r -> tlv_ok b = true.
Proof.
  induction r as [|t r IH]; intros c si sub b H Hs HF; cbn [frame_outer] in H.
  - inversion H; subst. exact Hs.
  - destruct (frame_one t c true si sub) as [s1|e] eqn:E1; cbn [bind] in H; [|discriminate].
    inversion HF as [|? ? Ht HF']; subst.
    exact (IH _ _ _ _ H (frame_one_tlv _ _ _ _ _ E1 Ht) HF').
Qed.

Lemma frame_def_tlv t0 r content cns k si b : frame (t0 :: r) content cns (mo true k) si = Ok b ->
  Forall (fun t => eoo_tag t = false) (t0 :: r) -> tlv_ok b = true.
Proof.
  cbn [frame]. rewrite Bool.andb_false_r. cbn [o_def mo]. intros H HF.
  assert (Hd: (if cns then true else true) = true) by (destruct cns; reflexivity). rewrite Hd in H. clear Hd.
  destruct (frame_one t0 cns true si content) as [s0|e] eqn:E0; cbn [bind] in H; [|discriminate].
  inversion HF as [|? ? Ht HF']; subst.
  exact (frame_outer_tlv _ _ _ _ _ H (frame_one_tlv _ _ _ _ _ E0 Ht) HF').
Qed.

(* no tag of the tag set is the end-of-octets tag, provided the base tag is not *)
Lemma tagset_no_eoo : forall T ts, wf_tags T = true -> tagset_of T = Ok ts ->
  (forall t, tagset_of (base_of T) = Ok [t] -> eoo_tag t = false) ->
  Forall (fun t => eoo_tag t = false) ts.
Proof.
  induction T as [| | | | | | | | n|fs IH|fs IH|t IH|t IH|alts IH| |tg x IH|tg x IH] using ty_ind';
    intros ts Hw Hts Hb;
    try (cbn [tagset_of] in Hts; inversion Hts; subst ts; constructor; [apply Hb; reflexivity|constructor]);
    try (cbn [tagset_of] in Hts; inversion Hts; subst ts; constructor).
  - (* TImp *)
    cbn [wf_tags] in Hw. apply Bool.andb_true_iff in Hw. destruct Hw as [Hcl Hw].
    cbn [tagset_of] in Hts. destruct (tagset_of x) as [ts'|e] eqn:Ex; cbn [bind] in Hts; [|discriminate].
    inversion Hts; subst ts; clear Hts. specialize (IH ts' Hw eq_refl Hb).
    assert (Hnew: forall cf, eoo_tag (mkTag (tcls tg) cf (tnum tg)) = false).
    { intros cf. unfold eoo_tag. cbn [tcls tnum]. destruct (cls_eqb (tcls tg) Univ); [discriminate Hcl|reflexivity]. }
    unfold tag_implicitly. destruct (rev ts') as [|lastt r'] eqn:Er.
    + constructor; [|constructor]. destruct tg as [cl cf nm]. exact (Hnew cf).
    + apply Forall_app. split; [|constructor; [apply Hnew|constructor]].
      apply Forall_rev. apply Forall_rev in IH. rewrite Er in IH. inversion IH; assumption.
  - (* TExp *)
    cbn [wf_tags] in Hw. apply Bool.andb_true_iff in Hw. destruct Hw as [Hcl Hw].
    cbn [tagset_of] in Hts. destruct (tagset_of x) as [ts'|e] eqn:Ex; cbn [bind] in Hts; [|discriminate].
    specialize (IH ts' Hw eq_refl Hb). unfold tag_explicitly in Hts.
    assert (Hnew: eoo_tag (mkTag (tcls tg) true (tnum tg)) = false).
    { unfold eoo_tag. cbn [tcls tnum]. destruct (cls_eqb (tcls tg) Univ); [discriminate Hcl|reflexivity]. }
    destruct (tcls tg); inversion Hts; subst ts; (apply Forall_app; split; [exact IH|constructor; [exact Hnew|constructor]]).
Qed.

Lemma known_string_nonzero ce cd n : known_string ce cd n = true -> n <> 0.
Proof. intros H ->. destruct ce, cd; vm_compute in H; discriminate H. Qed.

Lemma base_not_wrapped : forall T, is_wrapped (base_of T) = false.
Proof. induction T; try reflexivity; assumption. Qed.

(* the base tag of a type that has a value in the universe *)
Lemma base_tag_no_eoo ce cd T v : stage3_val ce cd T v = true ->
  forall tg0, tagset_of (base_of T) = Ok [tg0] -> eoo_tag tg0 = false.
Proof.
  intros Hv tg0 Ht.
  assert (Hna: base_of T <> TAny) by (intros E; rewrite E in Ht; discriminate Ht).
  rewrite (stage3_val_base ce cd T v Hna) in Hv. pose proof (base_not_wrapped T) as Hnw.
  destruct (base_of T) as [| | | | | | | | n|fs|fs|t|t|alts| |tg x|tg x]; try discriminate Hnw;
    cbn [tagset_of] in Ht; try discriminate Ht; inversion Ht; subst tg0; try reflexivity.
  cbn [stage3_val] in Hv. unfold stage1_val in Hv. cbn [base_of] in Hv.
  destruct v; try discriminate Hv. apply Bool.andb_true_iff in Hv. destruct Hv as [Hk _].
  pose proof (known_string_nonzero ce cd n Hk) as Hn. unfold eoo_tag, utag. cbn [tcls tnum cls_eqb andb].
  destruct (N.eqb_spec n 0); [congruence|reflexivity].
Qed.

Lemma encode_unfold ce d k T v : encode ce d k T v = enc_with ce (enc_content ce) T (mo d k) v.
Proof. reflexivity. Qed.

Theorem definite_encoding_is_tlv ce cd srt k : stable ce true k -> forall T v b,
  stage3_ty srt ce T = true -> stage3_val ce cd T v = true ->
  encode ce true k T v = Ok b -> tlv_ok b = true.
Proof.
  intros Hst.
  induction T as [| | | | | | | | n|fs IH|fs IH|t IH|t IH|alts IH| |tg x IH|tg x IH] using ty_ind';
    intros v b Hty Hv He; rewrite encode_unfold in He.
  14: { (* untagged CHOICE: the encoding of the alternative *)
    destruct (RoundTripModesC.enc_with_inv_g ce _ true k v b Hst He) as (ec & fl & ts & content & cns & Hcenc & Hts & Hcont & Hfr).
    cbn [tagset_of] in Hts. inversion Hts; try subst ts. cbn [frame] in Hfr. inversion Hfr; subst content; clear Hfr.
    destruct v as [bb|z|bs|bo|cs| |arcs|r|vfs|xs|i x|ab]; try discriminate Hv.
    rewrite stage3_val_choice in Hv. cbn [stage3_ty] in Hty. apply Bool.andb_true_iff in Hty. destruct Hty as [Halts _].
    cbn [enc_content] in Hcont. destruct ec; try discriminate Hcont.
    clear Hcenc He. revert i Hv Hcont. rewrite forallb_forall in Halts.
    induction alts as [|a alts IHa]; intros i Hv Hcont; [destruct i; discriminate Hcont|].
    inversion IH as [|? ? IH0 IH']; subst.
    destruct i as [|i]; cbn [nth_error] in Hv; cbv beta iota fix in Hcont; fold enc_content in Hcont.
    - destruct (enc_with ce (enc_content ce) a (mo true k) x) as [pb|e] eqn:Ea;
        cbn [bind] in Hcont; [|discriminate]. inversion Hcont; subst pb.
      exact (IH0 x b (Halts a (or_introl eq_refl)) Hv Ea).
    - apply (IHa IH' (fun y Hy => Halts y (or_intror Hy)) i Hv Hcont). }
  14: { (* untagged ANY: the octets themselves *)
    destruct (RoundTripModesC.enc_with_inv_g ce _ true k v b Hst He) as (ec & fl & ts & content & cns & Hcenc & Hts & Hcont & Hfr).
    cbn [tagset_of] in Hts. inversion Hts; try subst ts. cbn [frame] in Hfr. inversion Hfr; subst content; clear Hfr.
    cbn [enc_content] in Hcont. destruct ec; try discriminate Hcont.
    cbn [stage3_val] in Hv. destruct v; try discriminate Hv; cbn [octets_of] in Hcont; inversion Hcont; subst; exact Hv. }
  all: destruct (RoundTripModesC.enc_with_inv_g ce _ true k v b Hst He) as (ec & fl & ts & content & cns & Hcenc & Hts & Hcont & Hfr);
    destruct (stage3_ty_base srt ce _ Hty) as [Hw _];
    pose proof (tagset_no_eoo _ ts Hw Hts (base_tag_no_eoo ce cd _ v Hv)) as HF;
    (destruct ts as [|t0 r]; [|exact (frame_def_tlv _ _ _ _ _ _ _ Hfr HF)]).
  (* the tag set of a tagged type is not empty *)
  all: try (cbn [tagset_of] in Hts; discriminate Hts).
  - (* TImp *)
    cbn [tagset_of] in Hts. destruct (tagset_of x) as [ts'|e]; cbn [bind] in Hts; [|discriminate].
    inversion Hts as [Hi]. unfold tag_implicitly in Hi. destruct (rev ts'); [discriminate Hi|].
    destruct (rev l); discriminate Hi.
  - (* TExp *)
    cbn [tagset_of] in Hts. destruct (tagset_of x) as [ts'|e]; cbn [bind] in Hts; [|discriminate].
    unfold tag_explicitly in Hts. destruct (tcls tg); inversion Hts as [Hi]; destruct ts'; discriminate Hi.
Qed.

(* ====================================================================================================== *)
(* Part 6.  The record encoders and the options of the open member. *)

Lemma rec_encoder ce T fs : rec_fields T = Some fs ->
  exists ec fl, concrete_encoder ce T = Ok (ec, fl) /\ (omit_flag ec fl = true -> omits ce = true)
    /\ (sorts_members ec = true -> ce <> BER /\ base_of T = TSet fs).
Proof.
  intros H. rewrite concrete_encoder_base.
  destruct (rec_fields_base T fs H) as [-> | ->]; destruct ce; eexists; eexists;
    (split; [vm_compute; reflexivity|]); split; intros E; try discriminate E; try reflexivity;
    split; try reflexivity; discriminate.
Qed.

(* the members of the record are not re-ordered by the encoder: a SEQUENCE, or any record under BER *)
Definition keeps_order (ce: codec) (T: ty) : Prop := ce = BER \/ exists fs, base_of T = TSeq fs.

Lemma keeps_order_plain ce T fs ec : rec_fields T = Some fs -> keeps_order ce T ->
  concrete_encoder ce T = Ok ec -> sorts_members (fst ec) = false.
Proof.
  intros Hrec Hk Hc. destruct (rec_encoder ce T fs Hrec) as (ec' & fl & Hc' & _ & Hs).
  rewrite Hc in Hc'. inversion Hc'; subst ec. cbn [fst].
  destruct (sorts_members ec') eqn:E; [|reflexivity]. destruct (Hs eq_refl) as [Hnb Hset].
  destruct Hk as [-> | [fs' Hseq]]; [congruence|]. rewrite Hseq in Hset. discriminate Hset.
Qed.

(* the F24 class for the inner value of an OPTIONAL open member: under the encoders that omit empty OPTIONAL
   components the member's encode call gets ifNotEmpty, which must not empty the inner encoding *)
Definition inner_kept (ce: codec) (p: presence) (Ti: ty) (xi: val) : Prop :=
  is_opt p = true -> omits ce = true -> nonempty_enc ce Ti xi = true.

(* the wrapped chunk is the complete encoding of the inner value *)
Lemma member_chunk ce d k T fs p Ti xi mo' chunk : stable ce d k -> rec_fields T = Some fs ->
  member_opts ce d k T p = Ok mo' -> enc ce Ti mo' xi = Ok chunk -> inner_kept ce p Ti xi ->
  encode ce d k Ti xi = Ok chunk.
Proof.
  intros Hst Hrec Hmo Hch Hk. unfold member_opts in Hmo.
  destruct (rec_encoder ce T fs Hrec) as (ec & fl & Hc & Hom & _). rewrite Hc in Hmo. cbn [bind fst snd] in Hmo.
  change (mkOpts d k false) with (mo d k) in Hmo. unfold stable in Hst. rewrite Hst in Hmo. cbn [o_def o_chunk mo] in Hmo.
  inversion Hmo; subst mo'; clear Hmo.
  destruct (omit_flag ec fl && is_opt p)%bool eqn:E; [|exact Hch].
  apply Bool.andb_true_iff in E. destruct E as [E1 E2]. specialize (Hk E2 (Hom E1)).
  assert (Hne: chunk <> []).
  { intros ->. unfold nonempty_enc in Hk. unfold enc in Hch.
    rewrite (omits_ifne_opts ce Ti d k xi (Hom E1) Hst) in Hch. rewrite Hch in Hk. discriminate Hk. }
  exact (encm_ifne ce d k Hst Ti xi chunk Hch Hne).
Qed.

(* the inner encoding has a definite length (always so with definite lengths) *)
Definition inner_definite (ce: codec) (d: bool) (k: N) (Ti: ty) (xi: val) : Prop :=
  forall chunk, encode ce d k Ti xi = Ok chunk -> tlv_ok chunk = true.

Lemma inner_definite_def ce cd srt k Ti xi : stable ce true k ->
  stage3_ty srt ce Ti = true -> stage3_val ce cd Ti xi = true -> inner_definite ce true k Ti xi.
Proof. intros Hst Hty Hv chunk He. exact (definite_encoding_is_tlv ce cd srt k Hst Ti xi chunk Hty Hv He). Qed.

(* ====================================================================================================== *)
(* Part 6b.  The encoding of a member is not longer than the encoding of the record: the size limit on the
   wire covers the inner encoding. *)

Lemma frame_one_len t c d si sub b : frame_one t c d si sub = Ok b -> (length sub <= length b)%nat.
Proof.
  unfold frame_one. intros H. destruct (enc_len _ _) as [l|e]; cbn [bind] in H; [|discriminate].
  inversion H; subst. rewrite !app_length. lia.
Qed.

Lemma frame_outer_len : forall r c d si sub b, frame_outer r c d si sub = Ok b -> (length sub <= length b)%nat.
Proof.
  induction r as [|t r IH]; intros c d si sub b H; cbn [frame_outer] in H.
  - inversion H; subst. lia.
  - destruct (frame_one t c d si sub) as [s1|e] eqn:E1; cbn [bind] in H; [|discriminate].
    pose proof (frame_one_len _ _ _ _ _ _ E1). pose proof (IH _ _ _ _ _ H). lia.
Qed.

Lemma frame_len ts content cns o si b : frame ts content cns o si = Ok b -> (length content <= length b \/ content = [])%nat.
Proof.
  intros H. destruct ts as [|t0 r]; cbn [frame] in H; [inversion H; subst; left; lia|].
  destruct content as [|x content]; [right; reflexivity|]. cbn [andb] in H.
  destruct (frame_one t0 cns (if cns then o_def o else true) si (x :: content)) as [s0|e] eqn:E0; cbn [bind] in H; [|discriminate].
  pose proof (frame_one_len _ _ _ _ _ _ E0). pose proof (frame_outer_len _ _ _ _ _ _ H). left. lia.
Qed.

Lemma any_enc_len ce ft o chunk b : is_any ft = true ->
  enc_with ce (enc_content ce) ft o (VAny chunk) = Ok b -> (length chunk <= length b)%nat.
Proof.
  intros Ha H. unfold enc_with in H.
  destruct (concrete_encoder ce ft) as [[ec fl]|e]; cbn [bind] in H; [|discriminate].
  destruct (tagset_of ft) as [ts|e]; cbn [bind] in H; [|discriminate].
  rewrite enc_content_base in H. unfold is_any in Ha. destruct (base_of ft); try discriminate Ha.
  cbn [enc_content] in H. destruct ec; cbn [bind] in H; try discriminate H.
  cbn [octets_of bind] in H. destruct (frame_len _ _ _ _ _ _ H) as [Hl | ->]; [exact Hl|cbn [length]; lia].
Qed.

Lemma in_concat_len (pb: bytes) (l: list bytes) : In pb l -> (length pb <= length (concat l))%nat.
Proof.
  induction l as [|x l IH]; intros Hin; [destruct Hin|]. cbn [concat]. rewrite app_length.
  destruct Hin as [->|Hin]; [lia|]. specialize (IH Hin). lia.
Qed.

(* the part written for the member at [oi] is among the parts of the record *)
Lemma rec_parts_member ce ec omit o : forall fs oi vs p ft y parts,
  nth_error fs oi = Some (p, ft) -> not_def p -> (oi < length vs)%nat ->
  RoundTrip3b.enc_rec_fields_g ce ec omit o fs (set_nth oi (Some y) vs) = Ok parts ->
  exists o' pb, enc_with ce (enc_content ce) ft o' y = Ok pb /\ In pb (map snd parts).
Proof.
  induction fs as [|[q gt] fs IH]; intros oi vs p ft y parts Hn Hp Hl He; [destruct oi; discriminate Hn|].
  destruct vs as [|ov vs]; [cbn [length] in Hl; lia|].
  destruct oi as [|j]; cbn [nth_error] in Hn; cbn [set_nth] in He;
    cbn [RoundTrip3b.enc_rec_fields_g] in He; fold (RoundTrip3b.enc_rec_fields_g ce ec omit o) in He; unfold encw in He.
  - inversion Hn; subst q gt. clear Hn.
    set (o' := if omit then mkOpts (o_def o) (o_chunk o) (match p with Opt => true | _ => false end) else o) in *.
    assert (Hemit: (do b <- enc_with ce (enc_content ce) ft o' y; do rest <- RoundTrip3b.enc_rec_fields_g ce ec omit o fs vs;
                    Ok ((set_sort_key (match ec with EcSetDer => true | _ => false end) ft y, b) :: rest)) = Ok parts).
    { destruct p; [exact He|exact He|contradiction]. }
    destruct (enc_with ce (enc_content ce) ft o' y) as [b|e] eqn:Eb; cbn [bind] in Hemit; [|discriminate].
    destruct (RoundTrip3b.enc_rec_fields_g ce ec omit o fs vs) as [rest|e]; cbn [bind] in Hemit; [|discriminate].
    inversion Hemit; subst parts. exists o', b. split; [exact Eb|left; reflexivity].
  - cbn [length] in Hl.
    assert (Hrest: exists rest, RoundTrip3b.enc_rec_fields_g ce ec omit o fs (set_nth j (Some y) vs) = Ok rest /\
              forall pb, In pb (map snd rest) -> In pb (map snd parts)).
    { set (go := RoundTrip3b.enc_rec_fields_g ce ec omit o fs (set_nth j (Some y) vs)) in *.
      set (o' := if omit then mkOpts (o_def o) (o_chunk o) (match q with Opt => true | _ => false end) else o) in *.
      assert (Hemit: forall x, (do b <- enc_with ce (enc_content ce) gt o' x; do rest <- go;
                    Ok ((set_sort_key (match ec with EcSetDer => true | _ => false end) gt x, b) :: rest)) = Ok parts ->
                exists rest, go = Ok rest /\ forall pb, In pb (map snd rest) -> In pb (map snd parts)).
      { intros x Hx. destruct (enc_with ce (enc_content ce) gt o' x) as [b|e]; cbn [bind] in Hx; [|discriminate].
        destruct go as [rest|e]; cbn [bind] in Hx; [|discriminate]. inversion Hx; subst parts.
        exists rest. split; [reflexivity|]. intros pb Hin. right. exact Hin. }
      assert (Hskip: go = Ok parts -> exists rest, go = Ok rest /\ forall pb, In pb (map snd rest) -> In pb (map snd parts)).
      { intros Hg. exists parts. split; [exact Hg|auto]. }
      destruct q as [| |dv]; destruct ov as [x|].
      - exact (Hemit x He).
      - destruct (all_optional_container gt); [exact (Hemit _ He)|discriminate He].
      - exact (Hemit x He).
      - exact (Hskip He).
      - destruct (val_py_eq x dv) as [[|]|]; [exact (Hskip He)|exact (Hemit x He)|discriminate He].
      - exact (Hskip He). }
    destruct Hrest as (rest & Hr & Hsub).
    destruct (IH j vs p ft y rest Hn Hp ltac:(lia) Hr) as (o' & pb & Hpb & Hin).
    exists o', pb. split; [exact Hpb|exact (Hsub pb Hin)].
Qed.

Lemma member_in_wire ce d k T fs oi p ft vs y wire : stable ce d k ->
  rec_fields T = Some fs -> nth_error fs oi = Some (p, ft) -> not_def p -> (oi < length vs)%nat ->
  encode ce d k T (VRec (set_nth oi (Some y) vs)) = Ok wire ->
  exists o' pb, enc_with ce (enc_content ce) ft o' y = Ok pb /\ (length pb <= length wire)%nat.
Proof.
  intros Hst Hrec Hoi Hp Hl He. rewrite encode_unfold in He.
  destruct (RoundTripModesC.enc_with_inv_g ce T d k _ wire Hst He) as (ec & fl & ts & content & cns & _ & _ & Hcont & Hfr).
  rewrite enc_content_base in Hcont.
  rewrite (enc_content_rec ce (base_of T) fs ec fl _ _ (rec_fields_base T fs Hrec)) in Hcont.
  set (om := match ec with EcSeq => ef_omit_empty fl | EcSetCer | EcSetDer => true | _ => false end) in Hcont.
  destruct (RoundTrip3b.enc_rec_fields_g ce ec om (mo d k) fs (set_nth oi (Some y) vs)) as [parts|e] eqn:Ep; cbn [bind] in Hcont; [|discriminate].
  destruct (rec_parts_member ce ec om (mo d k) fs oi vs p ft y parts Hoi Hp Hl Ep) as (o' & pb & Hpb & Hin).
  exists o', pb. split; [exact Hpb|].
  assert (H2: (length pb <= length content)%nat).
  { destruct ec; try discriminate Hcont; inversion Hcont; subst content.
    - exact (in_concat_len pb _ Hin).
    - apply in_concat_len. apply (Permutation_in pb (Permutation_map snd (sort_by_perm_self tagset_ltb fst parts))). exact Hin.
    - apply in_concat_len. apply (Permutation_in pb (Permutation_map snd (sort_by_perm_self tagset_ltb fst parts))). exact Hin. }
  destruct (frame_len _ _ _ _ _ _ Hfr) as [H3 | H3]; [lia|]. rewrite H3 in H2. cbn [length] in H2. lia.
Qed.

Theorem chunk_in_wire ce d k T fs oi p ft vs chunk wire : stable ce d k ->
  rec_fields T = Some fs -> nth_error fs oi = Some (p, ft) -> not_def p -> is_any ft = true -> (oi < length vs)%nat ->
  encode ce d k T (VRec (set_nth oi (Some (VAny chunk)) vs)) = Ok wire -> (length chunk <= length wire)%nat.
Proof.
  intros Hst Hrec Hoi Hp Ha Hl He.
  destruct (member_in_wire ce d k T fs oi p ft vs _ wire Hst Hrec Hoi Hp Hl He) as (o' & pb & Hpb & Hle).
  pose proof (any_enc_len ce ft o' chunk pb Ha Hpb). lia.
Qed.

Lemma enc_elems_len ce t o : is_any t = true -> forall chunks parts,
  RoundTrip3.enc_elems_g ce t o (map VAny chunks) = Ok parts ->
  forall ch, In ch chunks -> (length ch <= length (concat parts))%nat.
Proof.
  intros Ha. induction chunks as [|c0 chunks IH]; intros parts H ch Hin; [destruct Hin|].
  cbn [map RoundTrip3.enc_elems_g] in H. fold (RoundTrip3.enc_elems_g ce t o) in H. unfold encw in H.
  destruct (enc_with ce (enc_content ce) t o (VAny c0)) as [pb|e] eqn:Ep; cbn [bind] in H; [|discriminate].
  destruct (RoundTrip3.enc_elems_g ce t o (map VAny chunks)) as [ps|e] eqn:Eps; cbn [bind] in H; [|discriminate].
  inversion H; subst parts. cbn [concat]. rewrite app_length. destruct Hin as [<-|Hin].
  - pose proof (any_enc_len ce t o c0 pb Ha Ep). lia.
  - specialize (IH ps eq_refl ch Hin). lia.
Qed.

Theorem chunks_in_wire ce d k T fs oi p ft t vs chunks wire : stable ce d k ->
  rec_fields T = Some fs -> nth_error fs oi = Some (p, ft) -> not_def p -> list_elem ft = Some t -> is_any t = true ->
  (oi < length vs)%nat ->
  encode ce d k T (VRec (set_nth oi (Some (VList (map VAny chunks))) vs)) = Ok wire ->
  forall ch, In ch chunks -> (length ch <= length wire)%nat.
Proof.
  intros Hst Hrec Hoi Hp Hle Ha Hl He ch Hin.
  destruct (member_in_wire ce d k T fs oi p ft vs _ wire Hst Hrec Hoi Hp Hl He) as (o' & pb & Hpb & Hlen).
  enough (length ch <= length pb)%nat by lia. clear - Hpb Hle Ha Hin.
  pose proof (list_elem_base ft t Hle) as Hb. unfold enc_with in Hpb.
  destruct (concrete_encoder ce ft) as [[ec fl]|e]; cbn [bind] in Hpb; [|discriminate].
  destruct (tagset_of ft) as [ts|e]; cbn [bind] in Hpb; [|discriminate].
  rewrite enc_content_base in Hpb. rewrite (enc_content_listof ce (base_of ft) t ec fl _ _ Hb) in Hpb.
  set (o1 := mkOpts (o_def (fix_opts ce o')) (o_chunk (fix_opts ce o')) false) in Hpb.
  destruct (RoundTrip3.enc_elems_g ce t o1 (map VAny chunks)) as [parts|e] eqn:Ep; cbn [bind] in Hpb; [|discriminate].
  pose proof (enc_elems_len ce t o1 Ha chunks parts Ep ch Hin) as H1.
  assert (Hgo: forall content cns, (length ch <= length content)%nat ->
            frame ts content cns (fix_opts ce o') (ef_indef fl) = Ok pb -> (length ch <= length pb)%nat).
  { intros content cns Hc Hfr. destruct (frame_len _ _ _ _ _ _ Hfr) as [H3 | H3]; [lia|]. rewrite H3 in Hc. cbn [length] in Hc. lia. }
  destruct ec; try discriminate Hpb; cbn [bind] in Hpb.
  - exact (Hgo _ _ H1 Hpb).
  - exact (Hgo _ _ H1 Hpb).
  - apply (Hgo _ _ ltac:(rewrite <- (concat_perm_length _ _ (sort_setof_perm_self parts)); exact H1) Hpb).
Qed.

(* ====================================================================================================== *)
(* Part 6c.  The abstract content of the resolved record: the record that was sent, with the typed inner value
   in the open member, read against the type whose open member has the mapped type. *)

Lemma base_subst_field : forall T oi X, base_of (subst_field T oi X) = subst_field (base_of T) oi X.
Proof. induction T; intros oi X; try reflexivity; cbn [subst_field base_of]; auto. Qed.

Lemma rec_fields_subst T fs oi p ft X : rec_fields T = Some fs -> nth_error fs oi = Some (p, ft) ->
  rec_fields (subst_field T oi X) = Some (set_nth oi (p, X) fs).
Proof.
  intros Hrec Hoi. unfold rec_fields. rewrite base_subst_field.
  destruct (rec_fields_base T fs Hrec) as [-> | ->]; cbn [subst_field]; unfold set_field; rewrite Hoi; reflexivity.
Qed.

Lemma abs_fields_cons2 p ft fs ov vs :
  OpenType.abs_fields ((p, ft) :: fs) (ov :: vs)
  = (match ov, p with Some x, _ => Some (abs ft x) | None, Def dv => Some (abs ft dv) | None, _ => None end)
    :: OpenType.abs_fields fs vs.
Proof. reflexivity. Qed.

Lemma abs_fields_subst (R: aval -> aval -> Prop) X w xi : R (abs X w) (abs X xi) ->
  forall oi fs vs' vs p ft a,
  nth_error fs oi = Some (p, ft) -> (oi < length vs')%nat -> (oi < length vs)%nat ->
  Forall2 (RoundTrip3.opt_rel R) (OpenType.abs_fields fs vs') (OpenType.abs_fields fs (set_nth oi (Some a) vs)) ->
  Forall2 (RoundTrip3.opt_rel R) (OpenType.abs_fields (set_nth oi (p, X) fs) (set_nth oi (Some w) vs'))
                                 (OpenType.abs_fields (set_nth oi (p, X) fs) (set_nth oi (Some xi) vs)).
Proof.
  intros HR. induction oi as [|j IH]; intros fs vs' vs p ft a Hn Hl' Hl HF;
    destruct fs as [|[q gt] fs]; try discriminate Hn; destruct vs' as [|ov' vs']; try (cbn [length] in Hl'; lia);
    destruct vs as [|ov vs]; try (cbn [length] in Hl; lia); cbn [nth_error] in Hn; cbn [set_nth] in *;
    rewrite !abs_fields_cons2 in *; inversion HF as [|? ? ? ? H0 HF']; subst.
  - constructor; [apply RoundTrip3.opt_rel_some; exact HR|exact HF'].
  - constructor; [exact H0|]. cbn [length] in Hl', Hl. exact (IH fs vs' vs p ft a Hn ltac:(lia) ltac:(lia) HF').
Qed.

Lemma Forall2_opt_eq (l1 l2: list (option aval)) : Forall2 (RoundTrip3.opt_rel eq) l1 l2 -> l1 = l2.
Proof. induction 1 as [|x y l1 l2 Hxy HF IH]; [reflexivity|]. destruct Hxy; subst; reflexivity. Qed.

Lemma opt_eq_Forall2 (l: list (option aval)) : Forall2 (RoundTrip3.opt_rel eq) l l.
Proof. induction l as [|[x|] l IH]; constructor; try exact IH; constructor. reflexivity. Qed.

Lemma nth_some_lt {A} (l: list (option A)) i x : nth i l None = Some x -> (i < length l)%nat.
Proof.
  intros H. destruct (Nat.lt_ge_cases i (length l)) as [Hlt|Hge]; [exact Hlt|].
  rewrite (nth_overflow l None Hge) in H. discriminate H.
Qed.

Lemma record_subst_aeq T fs oi p ft vs' vs a X w xi :
  rec_fields T = Some fs -> nth_error fs oi = Some (p, ft) -> (oi < length vs')%nat -> (oi < length vs)%nat ->
  aeq (abs T (VRec vs')) (abs T (VRec (set_nth oi (Some a) vs))) -> aeq (abs X w) (abs X xi) ->
  aeq (abs (subst_field T oi X) (VRec (set_nth oi (Some w) vs')))
      (abs (subst_field T oi X) (VRec (set_nth oi (Some xi) vs))).
Proof.
  intros Hrec Hoi Hl' Hl Ha Hw. pose proof (rec_fields_subst T fs oi p ft X Hrec Hoi) as Hrec'.
  rewrite !(abs_record _ _ _ Hrec'). rewrite !(abs_record T fs _ Hrec) in Ha.
  destruct (aeq_to_rec _ _ Ha) as (l & Hl1 & HF). inversion Hl1; subst l; clear Hl1.
  apply aeq_rec. exact (abs_fields_subst aeq X w xi Hw oi fs vs' vs p ft a Hoi Hl' Hl HF).
Qed.

Lemma record_subst_eq T fs oi p ft vs' vs a X w xi :
  rec_fields T = Some fs -> nth_error fs oi = Some (p, ft) -> (oi < length vs')%nat -> (oi < length vs)%nat ->
  abs T (VRec vs') = abs T (VRec (set_nth oi (Some a) vs)) -> abs X w = abs X xi ->
  abs (subst_field T oi X) (VRec (set_nth oi (Some w) vs'))
  = abs (subst_field T oi X) (VRec (set_nth oi (Some xi) vs)).
Proof.
  intros Hrec Hoi Hl' Hl Ha Hw. pose proof (rec_fields_subst T fs oi p ft X Hrec Hoi) as Hrec'.
  rewrite !(abs_record _ _ _ Hrec'). rewrite !(abs_record T fs _ Hrec) in Ha. inversion Ha as [Ha'].
  f_equal. apply Forall2_opt_eq. apply (abs_fields_subst eq X w xi Hw oi fs vs' vs p ft a Hoi Hl' Hl).
  rewrite Ha'. apply opt_eq_Forall2.
Qed.

(* ====================================================================================================== *)
(* Part 6d.  The CER/DER SET encoder with a scalar open member orders the members by the tag of the typed inner
   value, not of the ANY that wraps it: the bytes are not those of the plain record encoder, but a re-ordering
   of the same member encodings - and the SET decoder takes the members in any order.  Definite lengths (the
   DER encoder), any decoder. *)

Section SetAnyOrder.
  Variables ce cd : codec.
  Hypothesis Hce : enc_ok ce.
  Variable R : aval -> aval -> Prop.
  Variable srt : bool.
  Hypothesis HR : rel_ok R srt.

  (* RoundTrip3d.set_val for the member encodings in ANY order (there: in the order the encoder wrote them) *)
  Lemma set_any_order (Pv: ty -> val -> Prop) T' fs : base_of T' = TSet fs -> wf_tags T' = true ->
    keys_ok (flat_map ckeys (map snd fs)) = true ->
    Forall (comp_ok ce cd R Pv) fs ->
    forall vs, comp_vals ce Pv fs vs ->
    forall ec omit parts wbytes ts b',
      (omit = true -> omits ce = true) ->
      RoundTrip3b.enc_rec_fields_g ce ec omit def_opts fs vs = Ok parts ->
      Permutation wbytes (map snd parts) ->
      tagset_of T' = Ok ts -> frame ts (concat wbytes) true def_opts true = Ok b' ->
      N.of_nat (length b') <= index_max ->
      exists ds, R (abs T' (VRec ds)) (abs T' (VRec vs)) /\
        forall sp, resolves sp T' (VRec vs) -> item_dec cd sp T' b' (VRec ds).
  Proof.
    intros Hb Hw HK Hcomp vs HCV ec omit parts wbytes ts b' Homit Eparts Hperm Hts Hfr Hmax.
    assert (Htb: tagged_base T' = true) by (unfold tagged_base; rewrite Hb; reflexivity).
    destruct (tagset_shape T' Htb Hw) as (t0 & r & b0 & Hb0 & Hts' & Hc0 & Hex & Hd).
    rewrite Hts in Hts'. inversion Hts'; subst ts; clear Hts'.
    assert (Hcon: tcon t0 = true).
    { rewrite Hc0. rewrite Hb in Hb0; inversion Hb0; reflexivity. }
    assert (Hdep: ty_depth (base_of T') = S (max_depth fs)) by (rewrite Hb; reflexivity).
    assert (Hnc: match T' with TChoice _ => False | _ => True end).
    { destruct T'; try exact I. discriminate Hb. }
    pose proof (frame_len_r _ _ _ _ _ _ Hfr) as Hlen.
    assert (Hcl: length (concat (map snd parts)) = length (concat wbytes)).
    { apply concat_perm_length. apply Permutation_sym. exact Hperm. }
    destruct (fields_plan ce cd Hce R srt HR Pv ec omit Homit fs Hcomp vs parts HCV Eparts ltac:(lia)) as (ds & Habs & Hplan).
    set (items := mk_items 0 ds (map snd parts)).
    set (bound := (length (concat (map snd parts)) + max_depth fs)%nat).
    assert (Hitems: forall f, (bound <= f)%nat ->
              Forall (sitem_ok (dec_call cd f) f fs) items /\ map sbytes items = map snd parts
              /\ place items (map (fun _ => None) fs) = ds /\ required_seen fs ds = true).
    { intros f Hf. destruct (fplan_items (dec_call cd f) f fs HK fs vs (map snd parts) ds (Hplan f Hf) [] eq_refl) as (I1 & I2 & I3 & I4).
      split; [exact I1|]. split; [exact I2|]. split; [exact (I3 [] eq_refl)|exact I4]. }
    destruct (Hitems bound (le_n _)) as (_ & Hbytes & Hplace & Hseen).
    assert (Hbytes': map sbytes items = map (fun x : bytes => x) (map snd parts)) by (rewrite map_id; exact Hbytes).
    destruct (align_perm (fun x : bytes => x) sbytes wbytes (map snd parts) Hperm items Hbytes') as (witems & Hpi & Hwbytes).
    rewrite map_id in Hwbytes.
    exists ds. split.
    { rewrite (abs_wrappers T' (VRec ds)), (abs_wrappers T' (VRec vs)), Hb. rewrite !RoundTrip3d.abs_set.
      apply (r_rec _ _ HR). exact Habs. }
    intros sp [Hhit Hmiss].
    assert (Hwt: wire_tags T' (VRec vs) = t0 :: r).
    { rewrite (wire_tags_plain T' _ Hnc). apply tagset_of'_ok. exact Hts. }
    rewrite Hwt in Hhit, Hmiss. cbn [tl] in Hmiss. split; [lia|].
    intros f Hfu. unfold fuel_ok in Hfu.
    assert (Hby: by_type cd T' = Some (DcSet, mkDecFlags true (Some KSet))).
    { rewrite by_type_base, Hb. destruct cd; vm_compute; reflexivity. }
    assert (Hfr': frame (t0 :: r) (concat wbytes) (tcon t0) def_opts true = Ok b') by (rewrite Hcon; exact Hfr).
    replace f with (S (f - 1 - length r) + length r)%nat by lia.
    apply (framed_consumes_sp cd sp T' t0 r true (concat wbytes) b' (f - 1 - length r) _ _ _ Hex Hhit Hmiss Hby Hfr'); [lia|].
    set (f0 := (f - 1 - length r)%nat).
    assert (Hf0: (length b' + ty_depth T' <= S f0 + length r)%nat) by (subst f0; lia). clearbody f0.
    cbn [dec_value tag0_cons]. rewrite Hcon. cbn [negb]. rewrite Hb.
    destruct (Hitems f0 ltac:(subst bound; lia)) as (Hok & _).
    assert (Hwok: Forall (sitem_ok (dec_call cd f0) f0 fs) witems).
    { rewrite Forall_forall in *. intros it Hin. apply Hok. eapply Permutation_in; [apply Permutation_sym; exact Hpi|exact Hin]. }
    assert (Hpw: place witems (map (fun _ => None) fs) = ds).
    { rewrite <- (place_perm items witems Hpi (mk_items_nodup ds 0 (map snd parts))). exact Hplace. }
    intros s tl Hav. unfold dec_record. rewrite resume_tell.
    rewrite <- Hwbytes in Hav |- *.
    destruct fs as [|f1 fs0] eqn:Efs.
    - assert (Hw0: witems = []).
      { assert (Hi0: items = []) by (subst items; destruct ds; [reflexivity|pose proof (Hplan bound (le_n _)) as HP; inversion HP]).
        rewrite Hi0 in Hpi. apply Permutation_nil in Hpi. exact Hpi. }
      rewrite Hw0 in *. cbn [map concat length app] in *.
      destruct f0 as [|n]; [lia|].
      cbn [record_loop]. cbv zeta. rewrite resume_tell. rewrite Nat.sub_diag.
      cbn [N.of_nat N.ltb N.compare negb map resume].
      assert (Hds: ds = []) by (pose proof (Hplan bound (le_n _)) as HP; inversion HP; reflexivity).
      rewrite Hds. exists s. repeat split. lia.
    - rewrite <- Efs in *.
      assert (Hne: (match fs with [] => true | _ => false end) = false) by (rewrite Efs; reflexivity).
      assert (Hcnt: (length witems <= length (concat (map sbytes witems)))%nat).
      { clear - Hwok. induction Hwok as [|it l (ft & _ & Hl & _) _ IH]; [cbn; lia|]. cbn [length map concat]. rewrite app_length. lia. }
      destruct (set_loop (dec_call cd f0) f0 T' fs Hne witems Hwok (map (fun _ => None) fs) 0%nat f0 (pos s)
                  (length (concat (map sbytes witems))) s tl) as (s' & Hrun & Hpos & Harr & Hcl2).
      + rewrite Hwbytes in Hcnt. unfold bytes in *. lia.
      + exact Hav.
      + lia.
      + lia.
      + rewrite Hpw. exact Hseen.
      + rewrite Hpw in Hrun. exists s'. split; [exact Hrun|]. repeat split; assumption.
  Qed.
End SetAnyOrder.

(* sorted(comps, key=...) rearranges *)
Lemma ins_stable_perm {A K} (ltb: K -> K -> bool) (key: A -> K) x : forall l, Permutation (x :: l) (ins_stable ltb key x l).
Proof.
  induction l as [|y l IH]; cbn [ins_stable]; [apply Permutation_refl|].
  destruct (ltb (key x) (key y)); [apply Permutation_refl|].
  eapply perm_trans; [apply perm_swap|]. apply perm_skip. exact IH.
Qed.

Lemma sort_stable_perm {A K} (ltb: K -> K -> bool) (key: A -> K) (l: list A) : Permutation l (sort_stable ltb key l).
Proof.
  unfold sort_stable.
  assert (H: forall l acc, Permutation (l ++ acc) (fold_left (fun acc x => ins_stable ltb key x acc) l acc)).
  { induction l0 as [|x l0 IH]; intros acc; cbn [fold_left app]; [apply Permutation_refl|].
    eapply perm_trans; [|apply IH]. eapply perm_trans; [apply Permutation_middle|].
    apply Permutation_app_head. apply ins_stable_perm. }
  specialize (H l []). rewrite app_nil_r in H. exact H.
Qed.

(* the parts of the CER/DER SET encoder with an open member and those of the plain record encoder on the record
   with the wrapped chunk in the member: the same member encodings in the same (declaration) order *)
Section SetParts.
  Variables (c: codec) (dyn: bool) (o: eopts) (ec: enc_codec).

  Lemma set_parts_after oi part : forall fs i vs sparts, (oi < i)%nat ->
    set_parts c dyn o oi part i fs vs = Ok sparts ->
    exists pparts, RoundTrip3b.enc_rec_fields_g c ec true o fs vs = Ok pparts /\ map snd pparts = map snd sparts.
  Proof.
    induction fs as [|[q gt] fs IH]; intros i vs sparts Hi H.
    - cbn [set_parts] in H. inversion H; subst. exists []. split; reflexivity.
    - cbn [set_parts] in H. cbn [RoundTrip3b.enc_rec_fields_g]. fold (RoundTrip3b.enc_rec_fields_g c ec true o).
      assert (Hneq: Nat.eqb i oi = false) by (apply Nat.eqb_neq; lia). rewrite Hneq in H. unfold encw.
      set (ov := match vs with x :: _ => x | [] => None end) in *.
      set (vs' := match vs with _ :: r => r | [] => [] end) in *.
      assert (Hskip: set_parts c dyn o oi part (S i) fs vs' = Ok sparts ->
                exists pparts, RoundTrip3b.enc_rec_fields_g c ec true o fs vs' = Ok pparts /\ map snd pparts = map snd sparts).
      { intros H0. exact (IH (S i) vs' sparts ltac:(lia) H0). }
      assert (Hemit: forall x,
                (do b <- enc c gt (mkOpts (o_def o) (o_chunk o) (is_opt q)) x;
                 do rest <- set_parts c dyn o oi part (S i) fs vs'; Ok ((set_sort_key dyn gt x, b) :: rest)) = Ok sparts ->
                exists pparts,
                  (do b <- enc_with c (enc_content c) gt (mkOpts (o_def o) (o_chunk o) (match q with Opt => true | _ => false end)) x;
                   do rest <- RoundTrip3b.enc_rec_fields_g c ec true o fs vs';
                   Ok ((set_sort_key (match ec with EcSetDer => true | _ => false end) gt x, b) :: rest)) = Ok pparts
                  /\ map snd pparts = map snd sparts).
      { intros x H0. change (is_opt q) with (match q with Opt => true | _ => false end) in H0. unfold enc in H0.
        destruct (enc_with c (enc_content c) gt _ x) as [b|e]; cbn [bind] in *; [|discriminate].
        destruct (set_parts c dyn o oi part (S i) fs vs') as [rest|e] eqn:Er; cbn [bind] in H0; [|discriminate].
        inversion H0; subst sparts. destruct (IH (S i) vs' rest ltac:(lia) Er) as (pr & Hpr & Hm).
        rewrite Hpr. cbn [bind]. eexists. split; [reflexivity|]. cbn [map snd]. rewrite Hm. reflexivity. }
      destruct q as [| |dv]; destruct ov as [x|].
      + exact (Hemit x H).
      + discriminate H.
      + exact (Hemit x H).
      + exact (Hskip H).
      + destruct (val_py_eq x dv) as [[|]|]; [exact (Hskip H)|exact (Hemit x H)|discriminate H].
      + exact (Hskip H).
  Qed.

  Lemma set_parts_at kx bo w : forall j fs i vs sparts p ft,
    nth_error fs j = Some (p, ft) -> not_def p -> (j < length vs)%nat ->
    set_parts c dyn o (i + j) (Some (kx, bo)) i fs vs = Ok sparts ->
    enc c ft (mkOpts (o_def o) (o_chunk o) (is_opt p)) w = Ok bo ->
    exists pparts, RoundTrip3b.enc_rec_fields_g c ec true o fs (set_nth j (Some w) vs) = Ok pparts
                   /\ map snd pparts = map snd sparts.
  Proof.
    induction j as [|j IH]; intros fs i vs sparts p ft Hn Hp Hl H Hbo; destruct fs as [|[q gt] fs]; try discriminate Hn;
      destruct vs as [|ov vs]; try (cbn [length] in Hl; lia); cbn [nth_error] in Hn; cbn [set_nth];
      cbn [set_parts] in H; cbn [RoundTrip3b.enc_rec_fields_g]; fold (RoundTrip3b.enc_rec_fields_g c ec true o); unfold encw.
    - inversion Hn; subst q gt. rewrite Nat.add_0_r, Nat.eqb_refl in H.
      destruct (set_parts c dyn o i (Some (kx, bo)) (S i) fs vs) as [rest|e] eqn:Er; cbn [bind] in H; [|discriminate].
      inversion H; subst sparts.
      destruct (set_parts_after i (Some (kx, bo)) fs (S i) vs rest ltac:(lia) Er) as (pr & Hpr & Hm).
      change (is_opt p) with (match p with Opt => true | _ => false end) in Hbo. unfold enc in Hbo.
      assert (Hemit: (do b <- enc_with c (enc_content c) ft (mkOpts (o_def o) (o_chunk o) (match p with Opt => true | _ => false end)) w;
                      do rest0 <- RoundTrip3b.enc_rec_fields_g c ec true o fs vs;
                      Ok ((set_sort_key (match ec with EcSetDer => true | _ => false end) ft w, b) :: rest0))
                     = Ok ((set_sort_key (match ec with EcSetDer => true | _ => false end) ft w, bo) :: pr)).
      { rewrite Hbo, Hpr. reflexivity. }
      eexists. split; [destruct p; [exact Hemit|exact Hemit|contradiction]|]. cbn [map snd]. rewrite Hm. reflexivity.
    - assert (Hneq: Nat.eqb i (i + S j) = false) by (apply Nat.eqb_neq; lia). rewrite Hneq in H.
      cbn [length] in Hl.
      assert (Hrec: forall sp, set_parts c dyn o (i + S j) (Some (kx, bo)) (S i) fs vs = Ok sp ->
                exists pparts, RoundTrip3b.enc_rec_fields_g c ec true o fs (set_nth j (Some w) vs) = Ok pparts /\ map snd pparts = map snd sp).
      { intros sp H0. replace (i + S j)%nat with (S i + j)%nat in H0 by lia.
        exact (IH fs (S i) vs sp p ft Hn Hp ltac:(lia) H0 Hbo). }
      assert (Hemit: forall x,
                (do b <- enc c gt (mkOpts (o_def o) (o_chunk o) (is_opt q)) x;
                 do rest <- set_parts c dyn o (i + S j) (Some (kx, bo)) (S i) fs vs; Ok ((set_sort_key dyn gt x, b) :: rest)) = Ok sparts ->
                exists pparts,
                  (do b <- enc_with c (enc_content c) gt (mkOpts (o_def o) (o_chunk o) (match q with Opt => true | _ => false end)) x;
                   do rest <- RoundTrip3b.enc_rec_fields_g c ec true o fs (set_nth j (Some w) vs);
                   Ok ((set_sort_key (match ec with EcSetDer => true | _ => false end) gt x, b) :: rest)) = Ok pparts
                  /\ map snd pparts = map snd sparts).
      { intros x H0. change (is_opt q) with (match q with Opt => true | _ => false end) in H0. unfold enc in H0.
        destruct (enc_with c (enc_content c) gt _ x) as [b|e]; cbn [bind] in *; [|discriminate].
        destruct (set_parts c dyn o (i + S j) (Some (kx, bo)) (S i) fs vs) as [rest|e] eqn:Er; cbn [bind] in H0; [|discriminate].
        inversion H0; subst sparts. destruct (Hrec rest eq_refl) as (pr & Hpr & Hm).
        rewrite Hpr. cbn [bind]. eexists. split; [reflexivity|]. cbn [map snd]. rewrite Hm. reflexivity. }
      destruct q as [| |dv]; destruct ov as [x|].
      + exact (Hemit x H).
      + discriminate H.
      + exact (Hemit x H).
      + exact (Hrec sparts H).
      + destruct (val_py_eq x dv) as [[|]|]; [exact (Hrec sparts H)|exact (Hemit x H)|discriminate H].
      + exact (Hrec sparts H).
  Qed.
End SetParts.

Lemma mode_der cd d k : mode_ok DER cd d k -> d = true /\ k = 0.
Proof.
  intros [_ -> -> | Hst _]; [split; reflexivity|].
  unfold stable, fix_opts, mo in Hst. cbn in Hst. inversion Hst. split; reflexivity.
Qed.

(* the first pass on the bytes of the DER SET encoder with a scalar open member *)
Lemma sorted_first_pass cd srt T fs oi p ft vs Ti xi wire :
  stage3_ty srt DER T = true -> rec_fields T = Some fs -> base_of T = TSet fs ->
  nth_error fs oi = Some (p, ft) -> is_any ft = true -> not_def p ->
  hole_val DER cd true T oi vs = true ->
  stage3_ty srt DER Ti = true -> stage3_val DER cd Ti xi = true -> holds_blob ft Ti = false ->
  inner_kept DER p Ti xi ->
  enc_open DER true 0 T oi (VRec vs) true [(Ti, xi)] = Ok wire -> N.of_nat (length wire) <= index_max ->
  exists chunk v', encode DER true 0 Ti xi = Ok chunk /\ tlv_ok chunk = true /\ (length chunk <= length wire)%nat /\
    decode cd (Some T) wire = Ok (DV T v', []) /\
    aeq (abs T v') (abs T (VRec (set_nth oi (Some (VAny chunk)) vs))) /\
    (srt = false -> abs T v' = abs T (VRec (set_nth oi (Some (VAny chunk)) vs))).
Proof.
  intros Hty Hrec Hb Hoi Hany Hp Hvs Hti Hxi Hblob Hkept Henc Hmax.
  assert (Hce: enc_ok DER) by (right; reflexivity).
  assert (Hlen: (oi < length vs)%nat).
  { unfold hole_val in Hvs. rewrite Hrec in Hvs. apply Bool.andb_true_iff in Hvs. exact (sv3_hole_length DER cd oi fs vs (proj1 Hvs)). }
  (* the encoder *)
  assert (Hcenc: exists fl, concrete_encoder DER T = Ok (EcSetDer, fl) /\ ef_indef fl = true).
  { rewrite concrete_encoder_base, Hb. eexists. split; [vm_compute; reflexivity|reflexivity]. }
  destruct Hcenc as (fl & Hcenc & Hsi).
  unfold enc_open in Henc. rewrite Hrec, Hoi in Henc. cbn [negb] in Henc. cbv iota in Henc.
  rewrite Hcenc in Henc. cbn [bind fst sorts_members] in Henc. rewrite (list_elem_any ft Hany) in Henc. cbn [andb] in Henc.
  rewrite Hany in Henc. cbn [negb] in Henc. cbv iota in Henc.
  unfold enc_sorted_set in Henc. rewrite Hcenc in Henc. cbn [bind] in Henc.
  destruct (tagset_of T) as [ts|e] eqn:Hts; cbn [bind] in Henc; [|discriminate].
  destruct (member_opts DER true 0 T p) as [mo'|e] eqn:Hmo; cbn [bind] in Henc; [|discriminate].
  unfold wrap_inner in Henc. rewrite Hblob in Henc.
  destruct (enc DER Ti mo' xi) as [chunk|e] eqn:Hch; cbn [bind] in Henc; [|discriminate].
  destruct (enc DER ft mo' (VAny chunk)) as [bo|e] eqn:Hbo; cbn [bind] in Henc; [|discriminate].
  change (fix_opts DER (mkOpts true 0 false)) with def_opts in Henc.
  destruct (set_parts DER true def_opts oi (Some (set_sort_key true Ti xi, bo)) 0 fs vs) as [sparts|e] eqn:Esp; cbn [bind] in Henc; [|discriminate].
  rewrite Hsi in Henc.
  pose proof (member_chunk DER true 0 T fs p Ti xi mo' chunk stable_der Hrec Hmo Hch Hkept) as Hchunk.
  pose proof (definite_encoding_is_tlv DER cd srt 0 stable_der Ti xi chunk Hti Hxi Hchunk) as Htlv.
  assert (Hmo': mo' = mkOpts (o_def def_opts) (o_chunk def_opts) (is_opt p)).
  { unfold member_opts in Hmo. rewrite Hcenc in Hmo. cbn [bind fst snd omit_flag andb] in Hmo. inversion Hmo. reflexivity. }
  rewrite Hmo' in Hbo.
  destruct (set_parts_at DER true def_opts EcSetDer (set_sort_key true Ti xi) bo (VAny chunk) oi fs 0%nat vs sparts p ft
              Hoi Hp Hlen Esp Hbo) as (pparts & Hpp & Hmap).
  set (sentvs := set_nth oi (Some (VAny chunk)) vs) in *.
  set (wbytes := map snd (sort_stable tagset_ltb fst sparts)) in *.
  assert (Hperm: Permutation wbytes (map snd pparts)).
  { rewrite Hmap. subst wbytes. apply Permutation_map. apply Permutation_sym. apply sort_stable_perm. }
  (* the value of the record *)
  destruct (hole_filled DER cd true T fs oi vs p ft (VAny chunk) Hrec Hoi Hvs
              (any_fill_field DER cd p ft chunk Hany Htlv Hp) (fun E => match Bool.diff_true_false E with end)) as [Hsv _].
  fold sentvs in Hsv.
  assert (Hna: base_of T <> TAny) by (rewrite Hb; discriminate).
  destruct (stage3_ty_base srt DER T Hty) as [Hw Htb]. rewrite Hb in Htb. cbn [stage3_ty] in Htb.
  apply Bool.andb_true_iff in Htb. destruct Htb as [Hfs HK]. rewrite forallb_forall in Hfs.
  assert (HCV: comp_vals DER (Pv3 DER cd) fs sentvs).
  { rewrite (stage3_val_base DER cd T _ Hna), Hb in Hsv. rewrite (stage3_val_rec DER cd (TSet fs) fs sentvs (or_intror eq_refl)) in Hsv.
    apply (comp_vals_of_bool DER cd fs); [|exact Hsv]. apply forallb_forall. intros f Hin.
    specialize (Hfs f Hin). apply Bool.andb_true_iff in Hfs. exact (proj2 Hfs). }
  assert (Hlenw: (length chunk <= length wire)%nat).
  { destruct (rec_parts_member DER EcSetDer true def_opts fs oi vs p ft (VAny chunk) pparts Hoi Hp Hlen Hpp) as (o' & pb & Hpb & Hin).
    pose proof (any_enc_len DER ft o' chunk pb Hany Hpb) as H1.
    pose proof (in_concat_len pb wbytes (Permutation_in pb (Permutation_sym Hperm) Hin)) as H2.
    destruct (frame_len _ _ _ _ _ _ Henc) as [H3 | H3]; [lia|]. rewrite H3 in H2. cbn [length] in H2. lia. }
  assert (Hgen: forall R srt0, rel_ok R srt0 -> stage3_ty srt0 DER T = true ->
            (forall f, In f fs -> stage3_ty srt0 DER (snd f) = true) ->
            exists v', decode cd (Some T) wire = Ok (DV T v', []) /\ R (abs T v') (abs T (VRec sentvs))).
  { intros R srt0 HR Hty0 Hfs0.
    assert (Hcomp: Forall (comp_ok DER cd R (Pv3 DER cd)) fs).
    { apply Forall_forall. intros f Hin.
      assert (HKf: keys_ok (ckeys (snd f)) = true).
      { apply (keys_ok_sub (snd f) (map snd fs)); [apply in_map; exact Hin|exact HK]. }
      split; [intros _; exact HKf|]. intros x Hx.
      assert (Hval: val_ok DER cd R (snd f) x).
      { apply (stage3_val_ok DER cd Hce R srt0 HR true true
                 (fun _ T' fs' => set_val DER cd Hce R srt0 HR (Pv3 DER cd) T' fs')
                 (fun _ y Hy => any_item DER cd Hce R srt0 HR y Hy)
                 (fun _ T' Hb' Hwr Hty' y Hy => any_val_tagged DER cd Hce R srt0 HR srt0 T' Hb' Hwr Hty' y Hy)
                 (snd f) (snd f) eq_refl (Hfs0 f Hin) (frag_all _) (keys_not_any _ HKf) x Hx). }
      split; [intros _; exact Hval|]. intros _.
      apply (item_sty_of_val DER cd R); [exact Hval|].
      apply resolves_sty; [exact HKf|exact (wire_nonempty DER cd (snd f) x HKf Hx)]. }
    destruct (set_any_order DER cd Hce R srt0 HR (Pv3 DER cd) T fs Hb Hw HK Hcomp sentvs HCV EcSetDer true pparts wbytes ts wire
                (fun _ => eq_refl) Hpp Hperm Hts Henc Hmax) as (ds & HRd & Hit).
    assert (HKT: keys_ok (ckeys T) = true).
    { apply (top_keys DER srt0 T Hty0). intros E. rewrite E in Hb. discriminate Hb. }
    destruct (Hit (STy T) (resolves_sty T _ HKT (wire_nonempty DER cd T _ HKT Hsv))) as [_ Hc].
    exists (VRec ds). split; [|exact HRd]. unfold decode.
    assert (Hf: fuel_ok T wire (dec_fuel (Some T) (wire ++ []))).
    { unfold fuel_ok, dec_fuel. rewrite app_length. cbn [length]. lia. }
    pose proof (consumes_decode_with cd _ (Some T) wire [] (DV T (VRec ds)) (Hc _ Hf)) as Hdw.
    rewrite app_nil_r in Hdw. unfold decode_with in Hdw. rewrite app_nil_r in Hf. exact Hdw. }
  assert (Hfs': forall f, In f fs -> stage3_ty srt DER (snd f) = true).
  { intros f Hin. specialize (Hfs f Hin). apply Bool.andb_true_iff in Hfs. exact (proj1 Hfs). }
  destruct srt.
  - destruct (Hgen aeq true rel_ok_aeq Hty Hfs') as (v' & Hd & Ha).
    exists chunk, v'. repeat (split; [assumption|]). discriminate.
  - destruct (Hgen eq false rel_ok_eq Hty Hfs') as (v' & Hd & Ha).
    exists chunk, v'. repeat (split; [assumption|]). split; [rewrite Ha; apply aeq_refl|intros _; exact Ha].
Qed.

(* ====================================================================================================== *)
(* Part 7.  The scalar open member (ANY DEFINED BY; the ANY untagged or tagged): unconditional theorems. *)

Section OpenScalar.
  Variables (ce cd: codec) (d: bool) (k: N) (srt: bool).
  Hypothesis Hmode : mode_ok ce cd d k.
  (* the record type: in the stage-3 universe, an ANY member governed by an INTEGER/ENUMERATED/OID member *)
  Variables (T: ty) (fs: list (presence * ty)) (gi oi: nat) (p: presence) (ft: ty) (pg: presence) (gT: ty).
  Hypothesis Hty : stage3_ty srt ce T = true.
  Hypothesis Hf01 : d = false -> no_f01 T = true.
  Hypothesis Hrec : rec_fields T = Some fs.
  Hypothesis Hoi : nth_error fs oi = Some (p, ft).
  Hypothesis Hgi : nth_error fs gi = Some (pg, gT).
  Hypothesis Hany : is_any ft = true.
  Hypothesis Hp : not_def p.
  Hypothesis Hpg : not_def pg.
  Hypothesis Hne : gi <> oi.
  (* the encoder does not re-order the members - or it is the DER encoder, whose re-ordering is covered *)
  Hypothesis Hkeep : keeps_order ce T \/ ce = DER.
  (* the record value: the other members are values of their types; the governing member holds g *)
  Variables (vs: list (option val)) (g: val).
  Hypothesis Hvs : hole_val ce cd d T oi vs = true.
  Hypothesis Hg : nth gi vs None = Some g.
  Hypothesis Hgok : gov_ok gT g = true.
  (* the inner type and value: of the universe; not already a value of the wrapping ANY type *)
  Variables (Ti: ty) (xi: val).
  Hypothesis Hti : stage3_ty srt ce Ti = true.
  Hypothesis Hxi : stage3_val ce cd Ti xi = true.
  Hypothesis Hblob : holds_blob ft Ti = false.
  Hypothesis Hkept : inner_kept ce p Ti xi.
  Hypothesis Hidef : d = false -> inner_definite ce d k Ti xi.
  Variable wire : bytes.
  Hypothesis Henc : enc_open ce d k T oi (VRec vs) true [(Ti, xi)] = Ok wire.
  Hypothesis Hmax : N.of_nat (length wire) <= index_max.

  Lemma hole_len : (oi < length vs)%nat.
  Proof.
    unfold hole_val in Hvs. rewrite Hrec in Hvs. apply Bool.andb_true_iff in Hvs.
    exact (sv3_hole_length ce cd oi fs vs (proj1 Hvs)).
  Qed.

  (* the first pass: the plain decoder reads the record with the complete inner encoding in the ANY *)
  Lemma open_first_pass :
    exists chunk v', encode ce d k Ti xi = Ok chunk /\ tlv_ok chunk = true /\ (length chunk <= length wire)%nat /\
      decode cd (Some T) wire = Ok (DV T v', []) /\
      aeq (abs T v') (abs T (VRec (set_nth oi (Some (VAny chunk)) vs))) /\
      (srt = false -> abs T v' = abs T (VRec (set_nth oi (Some (VAny chunk)) vs))).
  Proof.
    pose proof (mode_stable ce cd d k Hmode) as Hst.
    assert (Hcase: keeps_order ce T \/ (ce = DER /\ base_of T = TSet fs)).
    { destruct Hkeep as [H|H]; [left; exact H|]. destruct (rec_fields_base T fs Hrec) as [E|E]; [left; right; eauto|right; auto]. }
    destruct Hcase as [Hko | [Hder Hset]].
    - destruct (rec_encoder ce T fs Hrec) as (ec & fl & Hc & _ & _).
      destruct (enc_open_plain ce d k T fs oi p ft vs Ti xi (ec, fl) wire Hrec Hoi Hany Hc
                  (keeps_order_plain ce T fs (ec, fl) Hrec Hko Hc) Hblob Henc) as (mo' & chunk & Hmo & Hch & Hplain).
      pose proof (member_chunk ce d k T fs p Ti xi mo' chunk Hst Hrec Hmo Hch Hkept) as Hchunk.
      assert (Htlv: tlv_ok chunk = true).
      { destruct d eqn:Ed.
        - exact (inner_definite_def ce cd srt k Ti xi Hst Hti Hxi chunk Hchunk).
        - exact (Hidef eq_refl chunk Hchunk). }
      destruct (hole_filled ce cd d T fs oi vs p ft (VAny chunk) Hrec Hoi Hvs
                  (any_fill_field ce cd p ft chunk Hany Htlv Hp) (fun _ => any_fill_anys ft chunk Hany Htlv)) as [Hsv Hsa].
      destruct (codec_rt ce cd d k srt Hmode T _ wire Hty Hf01 Hsv Hsa Hplain Hmax) as (v' & Hdec & Haeq & Heq).
      pose proof (chunk_in_wire ce d k T fs oi p ft vs chunk wire Hst Hrec Hoi Hp Hany hole_len Hplain) as Hcw.
      exists chunk, v'. repeat (split; [assumption|]). exact Heq.
    - subst ce. destruct (mode_der cd d k Hmode) as [-> ->].
      exact (sorted_first_pass cd srt T fs oi p ft vs Ti xi wire Hty Hrec Hset Hoi Hany Hp Hvs Hti Hxi Hblob Hkept Henc Hmax).
  Qed.

  (* (1) resolution off, or the governing value in neither map: the member holds exactly the complete
         encoding of the inner value; the rest of the record is what was sent *)
  Theorem open_raw : forall dflt override dot,
    (dot = false /\ override = []) \/ resolve_type override dflt g = None ->
    exists chunk vs' fv,
      encode ce d k Ti xi = Ok chunk /\
      dec_open cd T gi oi dflt override dot wire = Ok (DV T (VRec vs'), []) /\
      nth oi vs' None = Some fv /\ octets_of fv = Some chunk /\
      aeq (abs T (VRec vs')) (abs T (VRec (set_nth oi (Some (VAny chunk)) vs))) /\
      (srt = false -> abs T (VRec vs') = abs T (VRec (set_nth oi (Some (VAny chunk)) vs))).
  Proof.
    intros dflt override dot Hoff.
    destruct open_first_pass as (chunk & v' & Hchunk & Htlv & _ & Hdec & Haeq & Heq).
    destruct (raw_a cd T fs gi oi p ft gT pg Hrec Hoi Hgi Hany Hp Hpg vs g chunk Hg Hgok Hne hole_len
                dflt override dot wire v' Hdec Haeq Hoff) as (vs' & fv & -> & Hd & Hn & Ho).
    exists chunk, vs', fv. repeat (split; [assumption|]). exact Heq.
  Qed.

  (* (2) resolution on (decodeOpenTypes, or a caller's map) and the governing value mapped to the inner type:
         the member comes back as the inner value - same abstract content - read against the mapped type *)
  Hypothesis Hif01 : d = false -> no_f01 Ti = true.
  Hypothesis Hianys : d = false -> anys_ok Ti xi = true.

  Theorem open_resolved : forall dflt override dot,
    (dot = true \/ override <> []) -> resolve_type override dflt g = Some Ti ->
    exists chunk w vs',
      encode ce d k Ti xi = Ok chunk /\
      dec_open cd T gi oi dflt override dot wire
        = Ok (DV (subst_field T oi Ti) (VRec (set_nth oi (Some w) vs')), []) /\
      aeq (abs Ti w) (abs Ti xi) /\ (srt = false -> abs Ti w = abs Ti xi) /\
      nth gi vs' None = Some g /\
      aeq (abs T (VRec vs')) (abs T (VRec (set_nth oi (Some (VAny chunk)) vs))) /\
      (srt = false -> abs T (VRec vs') = abs T (VRec (set_nth oi (Some (VAny chunk)) vs))).
  Proof.
    intros dflt override dot Hon Hmap.
    destruct open_first_pass as (chunk & v' & Hchunk & Htlv & Hcw & Hdec & Haeq & Heq).
    assert (Hcmax: N.of_nat (length chunk) <= index_max) by lia.
    destruct (codec_rt ce cd d k srt Hmode Ti xi chunk Hti Hif01 Hxi Hianys Hchunk Hcmax) as (w & Hdw & Haw & Hew).
    destruct (resolved_a cd T fs gi oi p ft gT pg Hrec Hoi Hgi Hany Hp Hpg vs g chunk Hg Hgok Hne hole_len
                dflt override dot wire v' Hdec Haeq Ti w Hon Hmap (tlv_no_eoo_prefix chunk Htlv) Hdw) as (vs' & -> & Hg' & Hd).
    exists chunk, w, vs'. repeat (split; [assumption|]). exact Heq.
  Qed.

  (* (3) the caller's map wins over the type's own map, whatever that says, and switches resolution on by
         itself (no decodeOpenTypes needed) *)
  Theorem open_override_wins : forall dflt override dot,
    omap_find g override = Some Ti ->
    exists chunk w vs',
      encode ce d k Ti xi = Ok chunk /\
      dec_open cd T gi oi dflt override dot wire
        = Ok (DV (subst_field T oi Ti) (VRec (set_nth oi (Some w) vs')), []) /\
      aeq (abs Ti w) (abs Ti xi) /\ (srt = false -> abs Ti w = abs Ti xi) /\
      nth gi vs' None = Some g /\
      aeq (abs T (VRec vs')) (abs T (VRec (set_nth oi (Some (VAny chunk)) vs))) /\
      (srt = false -> abs T (VRec vs') = abs T (VRec (set_nth oi (Some (VAny chunk)) vs))).
  Proof.
    intros dflt override dot Hov. apply open_resolved.
    - right. destruct override; [discriminate Hov|discriminate].
    - apply override_wins. exact Hov.
  Qed.
  (* (2') the same in one statement: decoding returns - read against the type whose open member has the mapped
          type - the record that was sent with the typed inner value in the open member *)
  Theorem open_resolved_record : forall dflt override dot,
    (dot = true \/ override <> []) -> resolve_type override dflt g = Some Ti ->
    exists rv,
      dec_open cd T gi oi dflt override dot wire = Ok (DV (subst_field T oi Ti) rv, []) /\
      aeq (abs (subst_field T oi Ti) rv) (abs (subst_field T oi Ti) (VRec (set_nth oi (Some xi) vs))) /\
      (srt = false -> abs (subst_field T oi Ti) rv = abs (subst_field T oi Ti) (VRec (set_nth oi (Some xi) vs))).
  Proof.
    intros dflt override dot Hon Hmap.
    destruct (open_resolved dflt override dot Hon Hmap) as (chunk & w & vs' & _ & Hd & Haw & Hew & _ & Har & Her).
    destruct (first_pass_facts_a T fs gi oi p ft gT pg Hrec Hoi Hgi Hany Hp Hpg vs g chunk Hg Hgok Hne hole_len
                (VRec vs') Har) as (vs2 & Hv2 & (fv & Hfv & _) & _).
    inversion Hv2; subst vs2. pose proof (nth_some_lt vs' oi fv Hfv) as Hl'.
    exists (VRec (set_nth oi (Some w) vs')). split; [exact Hd|]. split.
    - exact (record_subst_aeq T fs oi p ft vs' vs (VAny chunk) Ti w xi Hrec Hoi Hl' hole_len Har Haw).
    - intros Hs. exact (record_subst_eq T fs oi p ft vs' vs (VAny chunk) Ti w xi Hrec Hoi Hl' hole_len (Her Hs) (Hew Hs)).
  Qed.

  Theorem open_override_wins_record : forall dflt override dot,
    omap_find g override = Some Ti ->
    exists rv,
      dec_open cd T gi oi dflt override dot wire = Ok (DV (subst_field T oi Ti) rv, []) /\
      aeq (abs (subst_field T oi Ti) rv) (abs (subst_field T oi Ti) (VRec (set_nth oi (Some xi) vs))) /\
      (srt = false -> abs (subst_field T oi Ti) rv = abs (subst_field T oi Ti) (VRec (set_nth oi (Some xi) vs))).
  Proof.
    intros dflt override dot Hov. apply open_resolved_record.
    - right. destruct override; [discriminate Hov|discriminate].
    - apply override_wins. exact Hov.
  Qed.
End OpenScalar.

(* ====================================================================================================== *)
(* Part 8.  SEQUENCE OF / SET OF ANY open members: every element. *)

Lemma list_fill_val ce cd ft t chunks : list_elem ft = Some t -> is_any t = true ->
  Forall (fun ch => tlv_ok ch = true) chunks -> stage3_val ce cd ft (VList (map VAny chunks)) = true.
Proof.
  intros Hl Ha HF. pose proof (list_elem_base ft t Hl) as Hb.
  assert (Hna: base_of ft <> TAny) by (destruct Hb as [E|E]; rewrite E; discriminate).
  rewrite (stage3_val_base ce cd ft _ Hna).
  assert (H: forallb (stage3_val ce cd t) (map VAny chunks) = true).
  { apply forallb_forall. intros x Hx. apply in_map_iff in Hx. destruct Hx as (ch & <- & Hc).
    rewrite Forall_forall in HF. exact (any_fill_val ce cd t ch Ha (HF ch Hc)). }
  destruct Hb as [-> | ->]; exact H.
Qed.

Lemma list_fill_anys ft t chunks : list_elem ft = Some t -> is_any t = true ->
  Forall (fun ch => tlv_ok ch = true) chunks -> anys_ok ft (VList (map VAny chunks)) = true.
Proof.
  intros Hl Ha HF. pose proof (list_elem_base ft t Hl) as Hb.
  assert (Hna: base_of ft <> TAny) by (destruct Hb as [E|E]; rewrite E; discriminate).
  rewrite (anys_ok_base ft _ Hna). rewrite (anys_ok_list (base_of ft) t _ Hb).
  apply forallb_forall. intros x Hx. apply in_map_iff in Hx. destruct Hx as (ch & <- & Hc).
  rewrite Forall_forall in HF. exact (any_fill_anys t ch Ha (HF ch Hc)).
Qed.

Lemma enc_elems_ne ce t o : is_any t = true -> forall chunks parts,
  Forall (fun ch => ch <> []) chunks -> RoundTrip3.enc_elems_g ce t o (map VAny chunks) = Ok parts ->
  length parts = length chunks /\ Forall (fun pb => pb <> []) parts.
Proof.
  intros Ha. induction chunks as [|ch chunks IH]; intros parts HF H; cbn [map RoundTrip3.enc_elems_g] in H.
  - inversion H; subst. split; [reflexivity|constructor].
  - fold (RoundTrip3.enc_elems_g ce t o) in H. inversion HF as [|? ? Hne HF']; subst. unfold encw in H.
    destruct (enc_with ce (enc_content ce) t o (VAny ch)) as [pb|e] eqn:Ep; cbn [bind] in H; [|discriminate].
    destruct (RoundTrip3.enc_elems_g ce t o (map VAny chunks)) as [ps|e] eqn:Eps; cbn [bind] in H; [|discriminate].
    inversion H; subst parts. destruct (IH ps HF' eq_refl) as [HL HP]. split; [cbn [length]; congruence|].
    constructor; [exact (any_enc_ne ce t o ch pb Ha Hne Ep)|exact HP].
Qed.

Lemma concat_ne (parts: list bytes) : parts <> [] -> Forall (fun pb => pb <> []) parts -> (0 < length (concat parts))%nat.
Proof.
  intros Hne HF. destruct parts as [|pb ps]; [congruence|]. inversion HF as [|? ? Hp _]; subst.
  cbn [concat]. rewrite app_length. destruct pb; [congruence|cbn [length]; lia].
Qed.

(* a non-empty list of ANYs holding octets is never emptied by ifNotEmpty (the F24 class) *)
Lemma list_fill_nonempty ce ft t chunks : list_elem ft = Some t -> is_any t = true ->
  chunks <> [] -> Forall (fun ch => ch <> []) chunks -> nonempty_enc ce ft (VList (map VAny chunks)) = true.
Proof.
  intros Hl Ha Hne HF. pose proof (list_elem_base ft t Hl) as Hb. unfold nonempty_enc, encw.
  destruct (enc_with ce (enc_content ce) ft ifne_opts (VList (map VAny chunks))) as [b|e] eqn:E; [|reflexivity].
  assert (Hb0: b <> []); [|destruct b; [congruence|reflexivity]].
  unfold enc_with in E.
  destruct (concrete_encoder ce ft) as [[ec fl]|e]; cbn [bind] in E; [|discriminate].
  destruct (tagset_of ft) as [ts|e]; cbn [bind] in E; [|discriminate].
  rewrite enc_content_base in E. rewrite (enc_content_listof ce (base_of ft) t ec fl _ _ Hb) in E.
  set (o1 := mkOpts (o_def (fix_opts ce ifne_opts)) (o_chunk (fix_opts ce ifne_opts)) false) in E.
  destruct (RoundTrip3.enc_elems_g ce t o1 (map VAny chunks)) as [parts|e] eqn:Ep; cbn [bind] in E; [|discriminate].
  destruct (enc_elems_ne ce t o1 Ha chunks parts HF Ep) as [HL HP].
  assert (Hpne: parts <> []) by (destruct parts; [destruct chunks; [congruence|discriminate HL]|discriminate]).
  pose proof (concat_ne parts Hpne HP) as Hc.
  assert (Hgo: forall content cns, (0 < length content)%nat ->
            frame ts content cns (fix_opts ce ifne_opts) (ef_indef fl) = Ok b -> b <> []).
  { intros content cns Hlen Hfr. apply (frame_ne _ _ _ _ _ _ Hfr). destruct content; [cbn in Hlen; lia|discriminate]. }
  destruct ec; try discriminate E; cbn [bind] in E.
  - exact (Hgo _ _ Hc E).
  - exact (Hgo _ _ Hc E).
  - apply (Hgo _ _ ltac:(rewrite <- (concat_perm_length _ _ (sort_setof_perm_self parts)); exact Hc) E).
Qed.

(* the well-formedness of the inner values *)
Definition inner_ok (ce cd: codec) (srt d: bool) (k: N) (t: ty) (i: ty * val) : Prop :=
  stage3_ty srt ce (fst i) = true /\ stage3_val ce cd (fst i) (snd i) = true /\ holds_blob t (fst i) = false
  /\ (d = false -> inner_definite ce d k (fst i) (snd i)).

Section OpenList.
  Variables (ce cd: codec) (d: bool) (k: N) (srt: bool).
  Hypothesis Hmode : mode_ok ce cd d k.
  Variables (T: ty) (fs: list (presence * ty)) (gi oi: nat) (p: presence) (ft t: ty) (pg: presence) (gT: ty).
  Hypothesis Hty : stage3_ty srt ce T = true.
  Hypothesis Hf01 : d = false -> no_f01 T = true.
  Hypothesis Hrec : rec_fields T = Some fs.
  Hypothesis Hoi : nth_error fs oi = Some (p, ft).
  Hypothesis Hgi : nth_error fs gi = Some (pg, gT).
  Hypothesis Hlist : list_elem ft = Some t.
  Hypothesis Hany : is_any t = true.
  Hypothesis Hp : not_def p.
  Hypothesis Hpg : not_def pg.
  Hypothesis Hne : gi <> oi.
  Variables (vs: list (option val)) (g: val).
  Hypothesis Hvs : hole_val ce cd d T oi vs = true.
  Hypothesis Hg : nth gi vs None = Some g.
  Hypothesis Hgok : gov_ok gT g = true.
  Variable inners : list (ty * val).
  Hypothesis Hinners : Forall (inner_ok ce cd srt d k t) inners.
  (* an OPTIONAL list member with no element is left out by the CER/DER encoders (the F24 class) *)
  Hypothesis Hkept : is_opt p = true -> omits ce = true -> inners <> [].
  Variable wire : bytes.
  Hypothesis Henc : enc_open ce d k T oi (VRec vs) true inners = Ok wire.
  Hypothesis Hmax : N.of_nat (length wire) <= index_max.

  Lemma hole_len_l : (oi < length vs)%nat.
  Proof.
    unfold hole_val in Hvs. rewrite Hrec in Hvs. apply Bool.andb_true_iff in Hvs.
    exact (sv3_hole_length ce cd oi fs vs (proj1 Hvs)).
  Qed.

  Lemma open_first_pass_list :
    exists chunks v', Forall2 (fun i ch => encode ce d k (fst i) (snd i) = Ok ch) inners chunks /\
      Forall (fun ch => tlv_ok ch = true) chunks /\
      encode ce d k T (VRec (set_nth oi (Some (VList (map VAny chunks))) vs)) = Ok wire /\
      decode cd (Some T) wire = Ok (DV T v', []) /\
      aeq (abs T v') (abs T (VRec (set_nth oi (Some (VList (map VAny chunks))) vs))) /\
      (srt = false -> abs T v' = abs T (VRec (set_nth oi (Some (VList (map VAny chunks))) vs))).
  Proof.
    pose proof (mode_stable ce cd d k Hmode) as Hst.
    assert (HFb: Forall (fun i : ty * val => holds_blob t (fst i) = false) inners).
    { eapply Forall_impl; [|exact Hinners]. intros i (_ & _ & H & _). exact H. }
    destruct (enc_open_plain_list ce d k T fs oi p ft t vs inners wire Hrec Hoi Hlist Hany HFb Henc) as (chunks & HF2 & Hplain).
    assert (Htlv: Forall (fun ch => tlv_ok ch = true) chunks).
    { clear - HF2 Hinners Hst. induction HF2 as [|i ch inners chunks Hi HF2 IH]; [constructor|].
      inversion Hinners as [|? ? (H1 & H2 & _ & H4) Hin']; subst. constructor; [|exact (IH Hin')].
      destruct d eqn:Ed.
      - exact (definite_encoding_is_tlv ce cd srt k Hst (fst i) (snd i) ch H1 H2 Hi).
      - exact (H4 eq_refl ch Hi). }
    assert (Hfield: field_ok ce cd p ft (Some (VList (map VAny chunks))) = true).
    { pose proof (list_fill_val ce cd ft t chunks Hlist Hany Htlv) as Hv.
      destruct p as [| |dv]; cbn [field_ok]; [exact Hv| |contradiction].
      rewrite Hv. cbn [andb]. destruct (omits ce) eqn:Eo; [|reflexivity]. cbn [negb orb].
      apply (list_fill_nonempty ce ft t chunks Hlist Hany).
      - intros ->. inversion HF2; subst. exact (Hkept eq_refl eq_refl eq_refl).
      - eapply Forall_impl; [|exact Htlv]. intros ch Hc. exact (tlv_ne ch Hc). }
    destruct (hole_filled ce cd d T fs oi vs p ft _ Hrec Hoi Hvs Hfield
                (fun _ => list_fill_anys ft t chunks Hlist Hany Htlv)) as [Hsv Hsa].
    destruct (codec_rt ce cd d k srt Hmode T _ wire Hty Hf01 Hsv Hsa Hplain Hmax) as (v' & Hdec & Haeq & Heq).
    exists chunks, v'. repeat (split; [assumption|]). exact Heq.
  Qed.

  (* (1) resolution off or the governing value unmapped: every element holds exactly the complete encoding of
         an inner value (SET OF: in the order the encoder wrote them) *)
  Theorem open_raw_list : forall dflt override dot,
    (dot = false /\ override = []) \/ resolve_type override dflt g = None ->
    exists vs' ys,
      dec_open cd T gi oi dflt override dot wire = Ok (DV T (VRec vs'), []) /\
      nth oi vs' None = Some (VList ys) /\ length ys = length inners /\
      Forall (fun y => exists Ti xi ch, In (Ti, xi) inners /\ encode ce d k Ti xi = Ok ch /\ octets_of y = Some ch) ys.
  Proof.
    intros dflt override dot Hoff.
    destruct open_first_pass_list as (chunks & v' & HF2 & Htlv & _ & Hdec & Haeq & _).
    destruct (raw_list_a cd T fs gi oi p ft t gT pg Hrec Hoi Hgi Hlist Hany Hp Hpg vs g chunks Hg Hgok Hne hole_len_l
                dflt override dot wire v' Hdec Haeq Hoff) as (vs' & ys & Hd & Hn & HL & HFy).
    exists vs', ys. split; [exact Hd|]. split; [exact Hn|]. split.
    - rewrite HL. symmetry. exact (Forall2_len_eq _ _ _ HF2).
    - eapply Forall_impl; [|exact HFy]. intros y (ch & Hc & Ho).
      destruct (Forall2_in_right _ _ _ HF2 ch Hc) as ([Ti xi] & Hi & He). cbn [fst snd] in He.
      exists Ti, xi, ch. auto.
  Qed.
  (* (2) resolution on and the governing value mapped to E, all inner values of type E: every element comes back
         as one of the inner values (same abstract content), read against the mapped type *)
  Variables (E: ty) (xs: list val).
  Hypothesis Hsame : inners = map (fun x => (E, x)) xs.
  Hypothesis Hif01 : d = false -> no_f01 E = true.
  Hypothesis Hianys : d = false -> forall x, In x xs -> anys_ok E x = true.

  Theorem open_resolved_list : forall dflt override dot,
    (dot = true \/ override <> []) -> resolve_type override dflt g = Some E ->
    exists vs' ws,
      dec_open cd T gi oi dflt override dot wire
        = Ok (DV (subst_field T oi (retype_list ft E)) (VRec (set_nth oi (Some (VList ws)) vs')), []) /\
      length ws = length xs /\
      Forall (fun w => exists x, In x xs /\ aeq (abs E w) (abs E x) /\ (srt = false -> abs E w = abs E x)) ws /\
      nth gi vs' None = Some g.
  Proof.
    intros dflt override dot Hon Hmap.
    destruct open_first_pass_list as (chunks & v' & HF2 & Htlv & Hplain & Hdec & Haeq & _).
    set (P := fun (ch: bytes) (w: val) => exists x, In x xs /\ aeq (abs E w) (abs E x) /\ (srt = false -> abs E w = abs E x)).
    assert (Hin: forall ch, In ch chunks ->
               no_eoo_prefix ch = true /\ exists w, decode cd (Some E) ch = Ok (DV E w, []) /\ P ch w).
    { intros ch Hc. rewrite Forall_forall in Htlv. split; [exact (tlv_no_eoo_prefix ch (Htlv ch Hc))|].
      destruct (Forall2_in_right _ _ _ HF2 ch Hc) as ([Ti x] & Hi & He). cbn [fst snd] in He.
      rewrite Forall_forall in Hinners. destruct (Hinners _ Hi) as (H1 & H2 & _ & _). cbn [fst snd] in H1, H2.
      rewrite Hsame in Hi. apply in_map_iff in Hi. destruct Hi as (x' & Heq & Hx). inversion Heq; subst Ti x'.
      assert (Hcmax: N.of_nat (length ch) <= index_max).
      { pose proof (chunks_in_wire ce d k T fs oi p ft t vs chunks wire (mode_stable ce cd d k Hmode) Hrec Hoi Hp Hlist Hany
                      hole_len_l Hplain ch Hc). lia. }
      destruct (codec_rt ce cd d k srt Hmode E x ch H1 Hif01 H2 (fun Hd => Hianys Hd x Hx) He Hcmax)
        as (w & Hdw & Haw & Hew).
      exists w. split; [exact Hdw|]. exists x. auto. }
    destruct (resolved_list_a cd T fs gi oi p ft t gT pg Hrec Hoi Hgi Hlist Hany Hp Hpg vs g chunks Hg Hgok Hne hole_len_l
                dflt override dot wire v' Hdec Haeq E P Hon Hmap Hin) as (vs' & ys & ws & _ & _ & HL & Hg' & Hd & HF3).
    exists vs', ws. split; [exact Hd|]. split; [|split; [|exact Hg']].
    - rewrite <- (Forall2_len_eq _ _ _ HF3), HL, <- (Forall2_len_eq _ _ _ HF2), Hsame. apply map_length.
    - clear - HF3. induction HF3 as [|y w ys ws (ch & _ & _ & Hp) _ IH]; constructor; auto.
  Qed.

  Theorem open_override_wins_list : forall dflt override dot,
    omap_find g override = Some E ->
    exists vs' ws,
      dec_open cd T gi oi dflt override dot wire
        = Ok (DV (subst_field T oi (retype_list ft E)) (VRec (set_nth oi (Some (VList ws)) vs')), []) /\
      length ws = length xs /\
      Forall (fun w => exists x, In x xs /\ aeq (abs E w) (abs E x) /\ (srt = false -> abs E w = abs E x)) ws /\
      nth gi vs' None = Some g.
  Proof.
    intros dflt override dot Hov. apply open_resolved_list.
    - right. destruct override; [discriminate Hov|discriminate].
    - apply override_wins. exact Hov.
  Qed.
End OpenList.

(* ====================================================================================================== *)
(* Part 8a.  The list member in one statement: the resolved record is the record that was sent with the typed
   inner values in the open member (SEQUENCE OF: in order; SET OF: as a multiset). *)

Lemma Forall2_map_both {A B C D} (R: C -> D -> Prop) (f: A -> C) (g: B -> D) : forall l1 l2,
  Forall2 R (map f l1) (map g l2) -> Forall2 (fun a b => R (f a) (g b)) l1 l2.
Proof.
  induction l1 as [|a l1 IH]; intros [|b l2] H; cbn [map] in H; inversion H; subst; constructor; auto.
Qed.

Lemma Forall2_map_both' {A B C D} (R: C -> D -> Prop) (f: A -> C) (g: B -> D) : forall l1 l2,
  Forall2 (fun a b => R (f a) (g b)) l1 l2 -> Forall2 R (map f l1) (map g l2).
Proof. induction 1; cbn [map]; constructor; auto. Qed.

Lemma retype_list_base : forall ft t E, list_elem ft = Some t ->
  (base_of ft = TSeqOf t -> base_of (retype_list ft E) = TSeqOf E) /\
  (base_of ft = TSetOf t -> base_of (retype_list ft E) = TSetOf E).
Proof.
  unfold list_elem. induction ft; intros t0 E Hl; cbn [base_of retype_list] in *; try discriminate Hl;
    try (split; intros H; try discriminate H; reflexivity).
  - exact (IHft t0 E Hl).
  - exact (IHft t0 E Hl).
Qed.

(* the decoded list member, element by element against the chunks (SET OF: against a rearrangement of them) *)
Lemma list_member_pos ft t fv chunks :
  list_elem ft = Some t -> is_any t = true ->
  aeq (abs ft fv) (abs ft (VList (map VAny chunks))) ->
  exists ys chunks', fv = VList ys /\ Permutation chunks chunks' /\ (base_of ft = TSeqOf t -> chunks' = chunks) /\
    Forall2 (fun ch y => octets_of y = Some ch) chunks' ys.
Proof.
  intros Hl Ht E. rewrite (abs_base ft fv), (abs_base ft (VList _)) in E.
  assert (Hpos: forall cs ys, Forall2 aeq (map (abs t) (map VAny cs)) (map (abs t) ys) ->
             Forall2 (fun ch y => octets_of y = Some ch) cs ys).
  { intros cs ys H. rewrite map_map in H. apply Forall2_map_both in H.
    eapply Forall2_imp; [|exact H]. intros ch y Hy. cbn beta in Hy.
    rewrite (abs_any_VAny t ch Ht) in Hy. apply aeq_sym in Hy. apply aeq_to_leaf in Hy; [|exact I].
    exact (abs_any_octets_eq t y ch Ht Hy). }
  destruct (list_elem_base ft t Hl) as [Hb|Hb]; rewrite Hb in E; cbn [abs] in E.
  - apply aeq_to_list in E. destruct E as (xs & Hx & HF).
    destruct fv; cbn [abs] in Hx; try discriminate Hx. inversion Hx; subst xs; clear Hx.
    exists xs0, chunks. split; [reflexivity|]. split; [apply Permutation_refl|]. split; [reflexivity|]. exact (Hpos chunks xs0 HF).
  - apply aeq_to_bag in E. destruct E as (xs & zs & Hx & Hperm & HF).
    destruct fv; cbn [abs] in Hx; try discriminate Hx. inversion Hx; subst xs; clear Hx.
    rewrite map_map in Hperm. apply Permutation_sym in Hperm.
    destruct (Permutation_map_inv _ _ Hperm) as (chunks' & Hz & Hp'). subst zs.
    exists xs0, chunks'. split; [reflexivity|]. split; [exact Hp'|]. split; [intros Hc; rewrite Hc in Hb; discriminate Hb|].
    apply Hpos. rewrite map_map. exact HF.
Qed.

Lemma list_member_pos_eq ft t fv chunks :
  list_elem ft = Some t -> is_any t = true ->
  abs ft fv = abs ft (VList (map VAny chunks)) ->
  exists ys, fv = VList ys /\ Forall2 (fun ch y => octets_of y = Some ch) chunks ys.
Proof.
  intros Hl Ht E. rewrite (abs_base ft fv), (abs_base ft (VList _)) in E.
  assert (Hpos: forall ys, map (abs t) ys = map (abs t) (map VAny chunks) ->
             Forall2 (fun ch y => octets_of y = Some ch) chunks ys).
  { intros ys H. rewrite map_map in H.
    assert (HF: Forall2 eq (map (fun ch => abs t (VAny ch)) chunks) (map (abs t) ys)) by (rewrite H; apply Forall2_refl; reflexivity).
    apply Forall2_map_both in HF. eapply Forall2_imp; [|exact HF]. intros ch y Hy. cbn beta in Hy.
    rewrite (abs_any_VAny t ch Ht) in Hy. exact (abs_any_octets_eq t y ch Ht (eq_sym Hy)). }
  destruct (list_elem_base ft t Hl) as [Hb|Hb]; rewrite Hb in E; cbn [abs] in E;
    destruct fv; cbn [abs] in E; try discriminate E; inversion E as [E']; exists xs; split; try reflexivity; exact (Hpos xs E').
Qed.

Lemma resolve_elems_pos c allow E : forall chunks ys ws,
  Forall2 (fun ch y => octets_of y = Some ch) chunks ys ->
  Forall (fun ch => no_eoo_prefix ch = true) chunks ->
  Forall2 (fun ch w => decode c (Some E) ch = Ok (DV E w, [])) chunks ws ->
  resolve_elems c allow E ys = Ok ws.
Proof.
  induction chunks as [|ch chunks IH]; intros ys ws H1 H2 H3; inversion H1; subst; inversion H3; subst; [reflexivity|].
  inversion H2; subst. cbn [resolve_elems].
  match goal with Ho: octets_of _ = Some ch |- _ => rewrite Ho end.
  rewrite (decode_eoo_any c allow (Some E) ch) by assumption.
  match goal with Hd: decode c (Some E) ch = _ |- _ => rewrite Hd end. cbn [bind fst].
  rewrite (IH _ _ ltac:(eassumption) ltac:(eassumption) ltac:(eassumption)). reflexivity.
Qed.

(* the member of the first-pass record, against the member that was sent *)
Lemma first_pass_member T fs oi p ft vs y v' :
  rec_fields T = Some fs -> nth_error fs oi = Some (p, ft) -> not_def p -> (oi < length vs)%nat ->
  aeq (abs T v') (abs T (VRec (set_nth oi (Some y) vs))) ->
  exists vs' fv, v' = VRec vs' /\ nth oi vs' None = Some fv /\ aeq (abs ft fv) (abs ft y) /\
    (abs T v' = abs T (VRec (set_nth oi (Some y) vs)) -> abs ft fv = abs ft y).
Proof.
  intros Hrec Hoi Hp Hlen E. rewrite (abs_record T fs _ Hrec) in E.
  destruct (aeq_to_rec _ _ E) as (xs & Hx & HF).
  destruct (abs_is_rec T fs v' xs Hrec Hx) as [vs' ->].
  rewrite (abs_record T fs _ Hrec) in Hx. inversion Hx; subst xs; clear Hx.
  assert (Hn: nth oi (OpenType.abs_fields fs (set_nth oi (Some y) vs)) None = Some (abs ft y))
    by (eapply abs_fields_nth_set; eauto).
  destruct (opt_rel_nth _ _ HF _ _ Hn) as [a' [Ha' Ea']].
  destruct (nth oi vs' None) as [fv|] eqn:Hfv;
    [|rewrite (abs_fields_nth_none fs vs' oi p ft Hoi Hp Hfv) in Ha'; discriminate].
  rewrite (abs_fields_nth fs vs' oi p ft fv Hoi Hfv) in Ha'. inversion Ha'; subst a'.
  exists vs', fv. split; [reflexivity|]. split; [exact Hfv|]. split; [exact Ea'|].
  intros Heq. rewrite !(abs_record T fs _ Hrec) in Heq. inversion Heq as [Heq'].
  pose proof (abs_fields_nth fs vs' oi p ft fv Hoi Hfv) as H1. rewrite Heq', Hn in H1. inversion H1. reflexivity.
Qed.

Lemma build_ws {X} (P: bytes -> val -> Prop) (Q: val -> X -> Prop) (enc1: X -> bytes -> Prop) : forall xs chunks,
  Forall2 enc1 xs chunks ->
  (forall x ch, In x xs -> enc1 x ch -> exists w, P ch w /\ Q w x) ->
  exists ws0, Forall2 P chunks ws0 /\ Forall2 Q ws0 xs.
Proof.
  induction 1 as [|x ch xs chunks Hx HF IH]; intros Hall; [exists []; split; constructor|].
  destruct (Hall x ch (or_introl eq_refl) Hx) as (w & Hp & Hq).
  destruct (IH (fun x0 ch0 Hin He => Hall x0 ch0 (or_intror Hin) He)) as (ws0 & H1 & H2).
  exists (w :: ws0). split; constructor; assumption.
Qed.

Section OpenListRecord.
  Variables (ce cd: codec) (d: bool) (k: N) (srt: bool).
  Hypothesis Hmode : mode_ok ce cd d k.
  Variables (T: ty) (fs: list (presence * ty)) (gi oi: nat) (p: presence) (ft t: ty) (pg: presence) (gT: ty).
  Hypothesis Hty : stage3_ty srt ce T = true.
  Hypothesis Hf01 : d = false -> no_f01 T = true.
  Hypothesis Hrec : rec_fields T = Some fs.
  Hypothesis Hoi : nth_error fs oi = Some (p, ft).
  Hypothesis Hgi : nth_error fs gi = Some (pg, gT).
  Hypothesis Hlist : list_elem ft = Some t.
  Hypothesis Hany : is_any t = true.
  Hypothesis Hp : not_def p.
  Hypothesis Hpg : not_def pg.
  Hypothesis Hne : gi <> oi.
  Variables (vs: list (option val)) (g: val).
  Hypothesis Hvs : hole_val ce cd d T oi vs = true.
  Hypothesis Hg : nth gi vs None = Some g.
  Hypothesis Hgok : gov_ok gT g = true.
  Variables (E: ty) (xs: list val).
  Hypothesis Hinners : Forall (inner_ok ce cd srt d k t) (map (fun x => (E, x)) xs).
  Hypothesis Hkept : is_opt p = true -> omits ce = true -> xs <> [].
  Hypothesis Hif01 : d = false -> no_f01 E = true.
  Hypothesis Hianys : d = false -> forall x, In x xs -> anys_ok E x = true.
  Variable wire : bytes.
  Hypothesis Henc : enc_open ce d k T oi (VRec vs) true (map (fun x => (E, x)) xs) = Ok wire.
  Hypothesis Hmax : N.of_nat (length wire) <= index_max.

  Theorem open_resolved_list_record : forall dflt override dot,
    (dot = true \/ override <> []) -> resolve_type override dflt g = Some E ->
    exists rv,
      dec_open cd T gi oi dflt override dot wire = Ok (DV (subst_field T oi (retype_list ft E)) rv, []) /\
      aeq (abs (subst_field T oi (retype_list ft E)) rv)
          (abs (subst_field T oi (retype_list ft E)) (VRec (set_nth oi (Some (VList xs)) vs))) /\
      (srt = false -> abs (subst_field T oi (retype_list ft E)) rv
                      = abs (subst_field T oi (retype_list ft E)) (VRec (set_nth oi (Some (VList xs)) vs))).
  Proof.
    intros dflt override dot Hon Hmap.
    pose proof (hole_len_l ce cd d T fs oi Hrec vs Hvs) as Hlen.
    assert (Hkept': is_opt p = true -> omits ce = true -> map (fun x => (E, x)) xs <> []).
    { intros H1 H2 H3. apply (Hkept H1 H2). destruct xs; [reflexivity|discriminate H3]. }
    destruct (open_first_pass_list ce cd d k srt Hmode T fs oi p ft t Hty Hf01 Hrec Hoi Hlist Hany Hp vs Hvs _ Hinners Hkept' wire Henc Hmax)
      as (chunks & v' & HF2 & Htlv & Hplain & Hdec & Haeq & Heq).
    (* the inner values against the chunks *)
    assert (HF2': Forall2 (fun x ch => encode ce d k E x = Ok ch) xs chunks).
    { rewrite <- (map_id chunks) in HF2. apply Forall2_map_both in HF2. exact HF2. }
    destruct (build_ws (fun ch w => decode cd (Some E) ch = Ok (DV E w, []))
                (fun w x => aeq (abs E w) (abs E x) /\ (srt = false -> abs E w = abs E x))
                (fun x ch => encode ce d k E x = Ok ch) xs chunks HF2') as (ws0 & Hdec0 & Hrel0).
    { intros x ch Hx He. rewrite Forall_forall in Hinners.
      destruct (Hinners (E, x) (in_map _ _ _ Hx)) as (H1 & H2 & _ & _). cbn [fst snd] in H1, H2.
      assert (Hc: In ch chunks).
      { clear - HF2' Hx He. induction HF2' as [|x0 c0 l1 l2 H0 HF IH]; [destruct Hx|].
        destruct Hx as [->|Hx]; [left; congruence|right; exact (IH Hx)]. }
      assert (Hcmax: N.of_nat (length ch) <= index_max).
      { pose proof (chunks_in_wire ce d k T fs oi p ft t vs chunks wire (mode_stable ce cd d k Hmode) Hrec Hoi Hp Hlist Hany
                      Hlen Hplain ch Hc). lia. }
      destruct (codec_rt ce cd d k srt Hmode E x ch H1 Hif01 H2 (fun Hd => Hianys Hd x Hx) He Hcmax) as (w & Hdw & Haw & Hew).
      exists w. auto. }
    (* the first-pass record *)
    destruct (first_pass_facts_list_a T fs gi oi p ft t gT pg Hrec Hoi Hgi Hlist Hany Hp Hpg vs g chunks Hg Hgok Hne Hlen v' Haeq)
      as (vs' & ys & -> & Hfv & _ & _ & Hg').
    destruct (first_pass_member T fs oi p ft vs (VList (map VAny chunks)) (VRec vs') Hrec Hoi Hp Hlen Haeq)
      as (vs2 & fv & Hv2 & Hfv2 & Hma & Hme).
    inversion Hv2; subst vs2. rewrite Hfv in Hfv2. inversion Hfv2; subst fv. clear Hv2 Hfv2.
    pose proof (nth_some_lt vs' oi _ Hfv) as Hl'.
    (* the elements, positionally *)
    assert (Hpos: exists chunks', Permutation chunks chunks' /\ Forall2 (fun ch y => octets_of y = Some ch) chunks' ys /\
              ((base_of ft = TSeqOf t \/ srt = false) -> chunks' = chunks)).
    { destruct srt eqn:Es.
      - destruct (list_member_pos ft t (VList ys) chunks Hlist Hany Hma) as (ys2 & chunks' & Hy & Hp' & Hseq & Hpo).
        inversion Hy; subst ys2. exists chunks'. split; [exact Hp'|]. split; [exact Hpo|].
        intros [H|H]; [exact (Hseq H)|discriminate H].
      - destruct (list_member_pos_eq ft t (VList ys) chunks Hlist Hany (Hme (Heq eq_refl))) as (ys2 & Hy & Hpo).
        inversion Hy; subst ys2. exists chunks. split; [apply Permutation_refl|]. split; [exact Hpo|]. intros _. reflexivity. }
    destruct Hpos as (chunks' & Hperm & Hpo & Hsame).
    destruct (Forall2_perm_left _ _ _ Hperm ws0 Hdec0) as (ws & Hpw & Hdecw).
    assert (Hpre: Forall (fun ch => no_eoo_prefix ch = true) chunks').
    { apply Forall_forall. intros ch Hc. rewrite Forall_forall in Htlv.
      exact (tlv_no_eoo_prefix ch (Htlv ch (Permutation_in ch (Permutation_sym Hperm) Hc))). }
    set (allow := own_len_indef (length (tagset_of' T) - 1) wire).
    pose proof (resolve_elems_pos cd allow E chunks' ys ws Hpo Hpre Hdecw) as Hres.
    exists (VRec (set_nth oi (Some (VList ws)) vs')).
    assert (Hd: dec_open cd T gi oi dflt override dot wire
                = Ok (DV (subst_field T oi (retype_list ft E)) (VRec (set_nth oi (Some (VList ws)) vs')), [])).
    { unfold dec_open, dec_open_after. rewrite Hdec. cbn [bind].
      assert (Hr: (dot || match override with [] => false | _ :: _ => true end) = true).
      { destruct Hon as [-> | Hov]; [reflexivity|]. destruct override; [congruence|]. apply Bool.orb_true_r. }
      rewrite Hr. cbn [negb]. cbv iota. rewrite Hrec.
      unfold second_pass. rewrite Hoi, Hfv, Hg', Hmap, Hlist. fold allow. rewrite Hres. reflexivity. }
    split; [exact Hd|].
    (* the abstract content of the resolved member *)
    set (X := retype_list ft E).
    assert (Hrel: aeq (abs X (VList ws)) (abs X (VList xs)) /\ (srt = false -> abs X (VList ws) = abs X (VList xs))).
    { destruct (retype_list_base ft t E Hlist) as [Hq1 Hq2].
      assert (Ha0: Forall2 aeq (map (abs E) ws0) (map (abs E) xs)).
      { apply Forall2_map_both'. eapply Forall2_imp; [|exact Hrel0]. intros w x [H _]. exact H. }
      assert (He0: srt = false -> map (abs E) ws0 = map (abs E) xs).
      { intros Hs. clear - Hrel0 Hs. induction Hrel0 as [|w x l1 l2 [_ H] _ IH]; [reflexivity|]. cbn [map]. rewrite (H Hs), IH. reflexivity. }
      rewrite (abs_base X (VList ws)), (abs_base X (VList xs)).
      destruct (list_elem_base ft t Hlist) as [Hb|Hb].
      - (* SEQUENCE OF: in order *)
        assert (Hws: ws = ws0).
        { rewrite (Hsame (or_introl Hb)) in Hdecw. clear - Hdecw Hdec0. revert ws Hdecw.
          induction Hdec0 as [|ch w l1 l2 H0 _ IH]; intros ws Hw; inversion Hw; subst; [reflexivity|].
          f_equal; [congruence|]. apply IH. assumption. }
        subst ws. unfold X. rewrite (Hq1 Hb). cbn [abs]. split; [apply aeq_list; exact Ha0|].
        intros Hs. rewrite (He0 Hs). reflexivity.
      - (* SET OF: as a multiset *)
        unfold X. rewrite (Hq2 Hb). cbn [abs]. split.
        + apply (aeq_bag _ _ (map (abs E) ws0)); [apply Permutation_map; apply Permutation_sym; exact Hpw|exact Ha0].
        + intros Hs.
          assert (Hws: ws = ws0).
          { rewrite (Hsame (or_intror Hs)) in Hdecw. clear - Hdecw Hdec0. revert ws Hdecw.
            induction Hdec0 as [|ch w l1 l2 H0 _ IH]; intros ws Hw; inversion Hw; subst; [reflexivity|].
            f_equal; [congruence|]. apply IH. assumption. }
          subst ws. rewrite (He0 Hs). reflexivity. }
    destruct Hrel as [Hra Hre]. split.
    - exact (record_subst_aeq T fs oi p ft vs' vs _ X (VList ws) (VList xs) Hrec Hoi Hl' Hlen Haeq Hra).
    - intros Hs. exact (record_subst_eq T fs oi p ft vs' vs _ X (VList ws) (VList xs) Hrec Hoi Hl' Hlen (Heq Hs) (Hre Hs)).
  Qed.
End OpenListRecord.

(* ====================================================================================================== *)
(* Part 8b.  The governing member declared DEFAULT (or OPTIONAL): the decoder of Model/OpenTypeDef.v
   ([dec_open_d]: resolves by the declared default when the governing member is not in the encoding - every
   encoder leaves it out when its value equals the default).  [g] is the governing value of the
   specification: the explicit one, else the default ([effective_gov]). *)

Lemma abs_fields_nth_def : forall fs vs i dv ft,
  nth_error fs i = Some (Def dv, ft) -> nth i vs None = None ->
  nth i (OpenType.abs_fields fs vs) None = Some (abs ft dv).
Proof.
  induction fs as [|[q gt] fs IH]; intros vs i dv ft Hf Hv.
  - destruct i; discriminate.
  - destruct vs as [|ov vs].
    + destruct i as [|i]; cbn [nth_error] in Hf; cbn [OpenType.abs_fields nth].
      * inversion Hf; subst. reflexivity.
      * apply IH; [exact Hf|destruct i; reflexivity].
    + destruct i as [|i]; cbn [nth_error nth] in *; cbn [OpenType.abs_fields nth].
      * inversion Hf; subst. reflexivity.
      * apply IH; assumption.
Qed.

Lemma val_of_rec_length T fs vs : rec_fields T = Some fs -> val_of T (VRec vs) = true -> length vs = length fs.
Proof.
  intros Hrec Hv. rewrite val_of_base in Hv.
  assert (H: forall fs vs,
            (fix go (fs: list (presence * ty)) (vs: list (option val)) : bool :=
               match fs, vs with
               | [], [] => true
               | (p, t) :: fs', ov :: vs' =>
                   (match ov with Some x => val_of t x | None => match p with Req => false | _ => true end end) && go fs' vs'
               | _, _ => false
               end) fs vs = true -> length vs = length fs).
  { induction fs0 as [|[q gt] fs0 IH]; intros [|ov vs0] H; try discriminate H; [reflexivity|].
    apply Bool.andb_true_iff in H. cbn [length]. f_equal. exact (IH vs0 (proj2 H)). }
  destruct (rec_fields_base T fs Hrec) as [E|E]; rewrite E in Hv; exact (H fs vs Hv).
Qed.

(* storing the governing value the decoder read (explicit, or the default) does not change the abstract content *)
Lemma abs_fields_store_gov : forall gi fs vs pg gT g,
  nth_error fs gi = Some (pg, gT) -> gov_value fs gi vs = Ok g -> (gi < length vs)%nat ->
  OpenType.abs_fields fs (set_nth gi (Some g) vs) = OpenType.abs_fields fs vs.
Proof.
  unfold gov_value.
  induction gi as [|j IH]; intros fs0 vs0 pg gT g Hgi0 Hgv0 Hgl0; destruct fs0 as [|[q t0] fs0]; try discriminate Hgi0;
    destruct vs0 as [|ov vs0]; try (cbn [length] in Hgl0; lia); cbn [nth_error nth] in *; cbn [set_nth];
    rewrite !abs_fields_cons2.
  - inversion Hgi0; subst q t0. destruct ov as [g0|].
    + inversion Hgv0; subst g0. reflexivity.
    + destruct pg; try discriminate Hgv0. inversion Hgv0; subst. reflexivity.
  - f_equal. cbn [length] in Hgl0. apply (IH fs0 vs0 pg gT g Hgi0 Hgv0). lia.
Qed.

Section ScalarD.
  Variables (c: codec) (T: ty) (fs: list (presence * ty)) (gi oi: nat).
  Variables (p: presence) (ft gT: ty) (pg: presence).
  Hypothesis Hrec : rec_fields T = Some fs.
  Hypothesis Hoi : nth_error fs oi = Some (p, ft).
  Hypothesis Hgi : nth_error fs gi = Some (pg, gT).
  Hypothesis Hany : is_any ft = true.
  Hypothesis Hp : not_def p.
  Hypothesis Hfrag : frag T = true.
  Variables (vs: list (option val)) (g: val) (chunk: bytes).
  Hypothesis Hg : effective_gov pg (nth gi vs None) = Some g.
  Hypothesis Hgok : gov_ok gT g = true.
  Hypothesis Hne : gi <> oi.
  Hypothesis Hlen : (oi < length vs)%nat.

  Let sent := VRec (set_nth oi (Some (VAny chunk)) vs).

  Variables (wire: bytes) (v': val).
  Hypothesis Hfirst : decode c (Some T) wire = Ok (DV T v', []).
  Hypothesis Hobs : aeq (abs T v') (abs T sent).

  Lemma first_pass_facts_d :
    exists vs', v' = VRec vs' /\ length vs' = length fs /\
      (exists fv, nth oi vs' None = Some fv /\ octets_of fv = Some chunk) /\
      gov_value fs gi vs' = Ok g.
  Proof.
    pose proof Hobs as E. unfold sent in E. rewrite (abs_record T fs _ Hrec) in E.
    destruct (aeq_to_rec _ _ E) as (xs & Hx & HF).
    destruct (abs_is_rec T fs v' xs Hrec Hx) as [vs' ->].
    rewrite (abs_record T fs _ Hrec) in Hx. inversion Hx; subst xs; clear Hx.
    exists vs'. split; [reflexivity|]. split.
    { destruct (accepted_is_well_formed_decode c T wire _ [] Hfrag Hfirst) as (v0 & Hv0 & Hval & _).
      inversion Hv0; subst v0. exact (val_of_rec_length T fs vs' Hrec Hval). }
    split.
    - assert (Hn: nth oi (OpenType.abs_fields fs (set_nth oi (Some (VAny chunk)) vs)) None = Some (abs ft (VAny chunk)))
        by (eapply abs_fields_nth_set; eauto).
      destruct (opt_rel_nth _ _ HF _ _ Hn) as [a' [Ha' Ea']].
      rewrite (abs_any_VAny ft chunk Hany) in Ea'.
      apply aeq_to_leaf in Ea'; [|exact I]. subst a'.
      destruct (nth oi vs' None) as [fv|] eqn:Hfv.
      + exists fv. split; [reflexivity|].
        rewrite (abs_fields_nth fs vs' oi p ft fv Hoi Hfv) in Ha'. inversion Ha' as [Ha2].
        exact (abs_any_octets_eq ft fv chunk Hany Ha2).
      + rewrite (abs_fields_nth_none fs vs' oi p ft Hoi Hp Hfv) in Ha'. discriminate.
    - assert (Hgs: nth gi (set_nth oi (Some (VAny chunk)) vs) None = nth gi vs None)
        by (rewrite nth_set_nth_other; auto).
      assert (Hn: nth gi (OpenType.abs_fields fs (set_nth oi (Some (VAny chunk)) vs)) None = Some (abs gT g)).
      { unfold effective_gov in Hg. destruct (nth gi vs None) as [g0|] eqn:Eg.
        - inversion Hg; subst g0. apply (abs_fields_nth fs _ gi pg gT g Hgi). rewrite Hgs. reflexivity.
        - destruct pg as [| |dv]; try discriminate Hg. inversion Hg; subst dv.
          apply (abs_fields_nth_def fs _ gi g gT Hgi). exact Hgs. }
      destruct (opt_rel_nth _ _ HF _ _ Hn) as [a' [Ha' Ea']].
      apply aeq_to_leaf in Ea'; [|exact (gov_leaf gT g Hgok)]. subst a'.
      unfold gov_value. destruct (nth gi vs' None) as [g'|] eqn:Hg'.
      + rewrite (abs_fields_nth fs vs' gi pg gT g' Hgi Hg') in Ha'. inversion Ha' as [Ha2].
        f_equal. exact (abs_gov_eq gT g g' Hgok Ha2).
      + rewrite Hgi. destruct pg as [| |dv].
        * rewrite (abs_fields_nth_none fs vs' gi Req gT Hgi I Hg') in Ha'. discriminate.
        * rewrite (abs_fields_nth_none fs vs' gi Opt gT Hgi I Hg') in Ha'. discriminate.
        * rewrite (abs_fields_nth_def fs vs' gi dv gT Hgi Hg') in Ha'. inversion Ha' as [Ha2].
          f_equal. exact (abs_gov_eq gT g dv Hgok Ha2).
  Qed.

  Variables (dflt override: omap) (dot: bool).

  (* the record the second pass works on: the governing value read (and stored) *)
  Lemma raw_d :
    (dot = false /\ override = []) \/ resolve_type override dflt g = None ->
    exists vs' fv, abs T (VRec vs') = abs T v' /\
                   dec_open_d c T gi oi dflt override dot wire = Ok (DV T (VRec vs'), [])
                   /\ nth oi vs' None = Some fv /\ octets_of fv = Some chunk.
  Proof.
    intros Hoff. destruct first_pass_facts_d as (vs' & -> & Hlen' & (fv & Hfv & Ho) & Hgv).
    assert (Hgl: (gi < length vs')%nat).
    { rewrite Hlen'. apply nth_error_Some. rewrite Hgi. discriminate. }
    unfold dec_open_d, dec_open_after_d. rewrite Hfirst. cbn [bind].
    destruct (negb (dot || match override with [] => false | _ :: _ => true end)) eqn:Eres.
    - exists vs', fv. auto.
    - destruct Hoff as [[-> ->] | Hun]; [discriminate Eres|].
      rewrite Hrec. unfold second_pass_d. rewrite Hoi, Hfv, Hgv. cbn [bind].
      unfold second_pass. rewrite Hoi, (nth_set_nth_other _ vs' oi gi (Some g) None (fun E => Hne (eq_sym E))), Hfv.
      rewrite (nth_set_nth_same _ vs' gi (Some g) None Hgl), Hun. cbn [bind fst snd].
      exists (set_nth gi (Some g) vs'), fv. split; [|split; [reflexivity|split; [|exact Ho]]].
      + rewrite !(abs_record T fs _ Hrec), (abs_fields_store_gov gi fs vs' pg gT g Hgi Hgv Hgl). reflexivity.
      + rewrite nth_set_nth_other; [exact Hfv|]. intros E. apply Hne. symmetry. exact E.
  Qed.

  Lemma resolved_d : forall E w,
    (dot = true \/ override <> []) ->
    resolve_type override dflt g = Some E ->
    no_eoo_prefix chunk = true ->
    decode c (Some E) chunk = Ok (DV E w, []) ->
    exists vs', abs T (VRec vs') = abs T v' /\ (oi < length vs')%nat /\
      dec_open_d c T gi oi dflt override dot wire
        = Ok (DV (subst_field T oi E) (VRec (set_nth oi (Some w) vs')), []).
  Proof.
    intros E w Hon Hmap Hpre Hin.
    destruct first_pass_facts_d as (vs' & -> & Hlen' & (fv & Hfv & Ho) & Hgv).
    assert (Hgl: (gi < length vs')%nat).
    { rewrite Hlen'. apply nth_error_Some. rewrite Hgi. discriminate. }
    pose proof (abs_fields_store_gov gi fs vs' pg gT g Hgi Hgv Hgl) as Habs.
    exists (set_nth gi (Some g) vs'). split; [|split].
    - rewrite !(abs_record T fs _ Hrec), Habs. reflexivity.
    - rewrite RoundTrip3d.set_nth_length. exact (nth_some_lt vs' oi fv Hfv).
    - unfold dec_open_d, dec_open_after_d. rewrite Hfirst. cbn [bind].
      assert (Hr: (dot || match override with [] => false | _ :: _ => true end) = true).
      { destruct Hon as [-> | Hov]; [reflexivity|]. destruct override; [congruence|]. apply Bool.orb_true_r. }
      rewrite Hr. cbn [negb]. cbv iota. rewrite Hrec.
      unfold second_pass_d. rewrite Hoi, Hfv, Hgv. cbn [bind].
      unfold second_pass. rewrite Hoi, (nth_set_nth_other _ vs' oi gi (Some g) None (fun E0 => Hne (eq_sym E0))), Hfv.
      rewrite (nth_set_nth_same _ vs' gi (Some g) None Hgl), Hmap, (list_elem_any ft Hany), Ho.
      rewrite (decode_eoo_any c _ (Some E) chunk Hpre), Hin. reflexivity.
  Qed.
End ScalarD.


Section OpenScalarD.
  Variables (ce cd: codec) (d: bool) (k: N) (srt: bool).
  Hypothesis Hmode : mode_ok ce cd d k.
  Variables (T: ty) (fs: list (presence * ty)) (gi oi: nat) (p: presence) (ft: ty) (pg: presence) (gT: ty).
  Hypothesis Hty : stage3_ty srt ce T = true.
  Hypothesis Hfrag : frag T = true.
  Hypothesis Hf01 : d = false -> no_f01 T = true.
  Hypothesis Hrec : rec_fields T = Some fs.
  Hypothesis Hoi : nth_error fs oi = Some (p, ft).
  Hypothesis Hgi : nth_error fs gi = Some (pg, gT).
  Hypothesis Hany : is_any ft = true.
  Hypothesis Hp : not_def p.
  Hypothesis Hne : gi <> oi.
  Hypothesis Hkeep : keeps_order ce T \/ ce = DER.
  Variables (vs: list (option val)) (g: val).
  Hypothesis Hvs : hole_val ce cd d T oi vs = true.
  (* the governing value: the one in the record, else the declared default *)
  Hypothesis Hg : effective_gov pg (nth gi vs None) = Some g.
  Hypothesis Hgok : gov_ok gT g = true.
  Variables (Ti: ty) (xi: val).
  Hypothesis Hti : stage3_ty srt ce Ti = true.
  Hypothesis Hxi : stage3_val ce cd Ti xi = true.
  Hypothesis Hblob : holds_blob ft Ti = false.
  Hypothesis Hkept : inner_kept ce p Ti xi.
  Hypothesis Hidef : d = false -> inner_definite ce d k Ti xi.
  Variable wire : bytes.
  Hypothesis Henc : enc_open ce d k T oi (VRec vs) true [(Ti, xi)] = Ok wire.
  Hypothesis Hmax : N.of_nat (length wire) <= index_max.

  Theorem open_raw_d : forall dflt override dot,
    (dot = false /\ override = []) \/ resolve_type override dflt g = None ->
    exists chunk vs' fv,
      encode ce d k Ti xi = Ok chunk /\
      dec_open_d cd T gi oi dflt override dot wire = Ok (DV T (VRec vs'), []) /\
      nth oi vs' None = Some fv /\ octets_of fv = Some chunk /\
      aeq (abs T (VRec vs')) (abs T (VRec (set_nth oi (Some (VAny chunk)) vs))) /\
      (srt = false -> abs T (VRec vs') = abs T (VRec (set_nth oi (Some (VAny chunk)) vs))).
  Proof.
    intros dflt override dot Hoff.
    destruct (open_first_pass ce cd d k srt Hmode T fs oi p ft Hty Hf01 Hrec Hoi Hany Hp Hkeep vs Hvs Ti xi Hti Hxi Hblob
                Hkept Hidef wire Henc Hmax) as (chunk & v' & Hchunk & Htlv & _ & Hdec & Haeq & Heq).
    destruct (raw_d cd T fs gi oi p ft gT pg Hrec Hoi Hgi Hany Hp Hfrag vs g chunk Hg Hgok Hne
                (hole_len ce cd d T fs oi Hrec vs Hvs) wire v' Hdec Haeq dflt override dot Hoff) as (vs' & fv & Habs & Hd & Hn & Ho).
    exists chunk, vs', fv. repeat (split; [assumption|]). split; [rewrite Habs; exact Haeq|].
    intros Hs. rewrite Habs. exact (Heq Hs).
  Qed.

  Hypothesis Hif01 : d = false -> no_f01 Ti = true.
  Hypothesis Hianys : d = false -> anys_ok Ti xi = true.

  Theorem open_resolved_d : forall dflt override dot,
    (dot = true \/ override <> []) -> resolve_type override dflt g = Some Ti ->
    exists rv,
      dec_open_d cd T gi oi dflt override dot wire = Ok (DV (subst_field T oi Ti) rv, []) /\
      aeq (abs (subst_field T oi Ti) rv) (abs (subst_field T oi Ti) (VRec (set_nth oi (Some xi) vs))) /\
      (srt = false -> abs (subst_field T oi Ti) rv = abs (subst_field T oi Ti) (VRec (set_nth oi (Some xi) vs))).
  Proof.
    intros dflt override dot Hon Hmap.
    pose proof (hole_len ce cd d T fs oi Hrec vs Hvs) as Hlen.
    destruct (open_first_pass ce cd d k srt Hmode T fs oi p ft Hty Hf01 Hrec Hoi Hany Hp Hkeep vs Hvs Ti xi Hti Hxi Hblob
                Hkept Hidef wire Henc Hmax) as (chunk & v' & Hchunk & Htlv & Hcw & Hdec & Haeq & Heq).
    assert (Hcmax: N.of_nat (length chunk) <= index_max) by lia.
    destruct (codec_rt ce cd d k srt Hmode Ti xi chunk Hti Hif01 Hxi Hianys Hchunk Hcmax) as (w & Hdw & Haw & Hew).
    destruct (resolved_d cd T fs gi oi p ft gT pg Hrec Hoi Hgi Hany Hp Hfrag vs g chunk Hg Hgok Hne Hlen wire v' Hdec Haeq
                dflt override dot Ti w Hon Hmap (tlv_no_eoo_prefix chunk Htlv) Hdw) as (vs' & Habs & Hl' & Hd).
    exists (VRec (set_nth oi (Some w) vs')). split; [exact Hd|]. split.
    - apply (record_subst_aeq T fs oi p ft vs' vs (VAny chunk) Ti w xi Hrec Hoi Hl' Hlen); [rewrite Habs; exact Haeq|exact Haw].
    - intros Hs. apply (record_subst_eq T fs oi p ft vs' vs (VAny chunk) Ti w xi Hrec Hoi Hl' Hlen); [rewrite Habs; exact (Heq Hs)|exact (Hew Hs)].
  Qed.
End OpenScalarD.

(* ====================================================================================================== *)
(* Part 8c.  The OPTIONAL open member left out ([present] = false): nothing to resolve - the second pass leaves the
   record alone whatever the maps say. *)

Lemma sv3_fill_none ce cd : forall oi fs vs ft,
  sv3_hole ce cd oi fs vs = true -> nth_error fs oi = Some (Opt, ft) ->
  sv3_fields ce cd fs (set_nth oi None vs) = true.
Proof.
  induction oi as [|j IH]; intros fs vs ft Hh Hn; destruct fs as [|[q gt] fs]; try discriminate Hn;
    destruct vs as [|ov vs]; try discriminate Hh; cbn [nth_error] in Hn; cbn [sv3_hole] in Hh; cbn [set_nth].
  - inversion Hn; subst q gt. rewrite sv3_fields_cons, Hh. reflexivity.
  - apply Bool.andb_true_iff in Hh. destruct Hh as [H0 Hh]. rewrite sv3_fields_cons, H0. cbn [andb].
    exact (IH fs vs ft Hh Hn).
Qed.

Lemma anys_fill_none : forall oi fs vs p ft,
  anys_hole oi fs vs = true -> nth_error fs oi = Some (p, ft) -> anys_fields fs (set_nth oi None vs) = true.
Proof.
  induction oi as [|j IH]; intros fs vs p ft Hh Hn; destruct fs as [|[q gt] fs]; try discriminate Hn;
    destruct vs as [|ov vs]; try reflexivity; cbn [nth_error] in Hn; cbn [anys_hole] in Hh; cbn [set_nth].
  - rewrite anys_fields_cons, Hh. reflexivity.
  - apply Bool.andb_true_iff in Hh. destruct Hh as [H0 Hh]. rewrite anys_fields_cons, H0. cbn [andb].
    exact (IH fs vs p ft Hh Hn).
Qed.

Lemma opt_rel_nth_none (l1 l2: list (option aval)) : Forall2 (RoundTrip3.opt_rel aeq) l1 l2 ->
  forall i, nth i l2 None = None -> nth i l1 None = None.
Proof.
  induction 1 as [|x y l1 l2 Hxy HF IH]; intros i Hn; [destruct i; reflexivity|].
  destruct i as [|i]; cbn [nth] in *; [subst y; inversion Hxy; reflexivity|exact (IH i Hn)].
Qed.

Theorem open_absent ce cd d k srt T fs gi oi ft vs inners wire dflt override dot :
  mode_ok ce cd d k -> stage3_ty srt ce T = true -> (d = false -> no_f01 T = true) ->
  rec_fields T = Some fs -> nth_error fs oi = Some (Opt, ft) ->
  hole_val ce cd d T oi vs = true ->
  enc_open ce d k T oi (VRec vs) false inners = Ok wire -> N.of_nat (length wire) <= index_max ->
  exists vs', dec_open cd T gi oi dflt override dot wire = Ok (DV T (VRec vs'), []) /\ nth oi vs' None = None /\
    aeq (abs T (VRec vs')) (abs T (VRec (set_nth oi None vs))) /\
    (srt = false -> abs T (VRec vs') = abs T (VRec (set_nth oi None vs))).
Proof.
  intros Hmode Hty Hf01 Hrec Hoi Hvs Henc Hmax.
  unfold enc_open in Henc. rewrite Hrec, Hoi in Henc. cbn [negb] in Henc. cbv iota in Henc.
  assert (Hna: base_of T <> TAny) by (destruct (rec_fields_base T fs Hrec) as [E|E]; rewrite E; discriminate).
  unfold hole_val in Hvs. rewrite Hrec in Hvs. apply Bool.andb_true_iff in Hvs. destruct Hvs as [H1 H2].
  pose proof (sv3_hole_length ce cd oi fs vs H1) as Hlen.
  assert (Hsv: stage3_val ce cd T (VRec (set_nth oi None vs)) = true).
  { rewrite (stage3_val_base ce cd T _ Hna). rewrite (stage3_val_rec ce cd (base_of T) fs _ (rec_fields_base T fs Hrec)).
    exact (sv3_fill_none ce cd oi fs vs ft H1 Hoi). }
  assert (Hsa: d = false -> anys_ok T (VRec (set_nth oi None vs)) = true).
  { intros Hd. rewrite Hd in H2. cbn [orb] in H2. rewrite (anys_ok_base T _ Hna).
    rewrite (anys_ok_rec (base_of T) fs _ (rec_fields_base T fs Hrec)). exact (anys_fill_none oi fs vs Opt ft H2 Hoi). }
  destruct (codec_rt ce cd d k srt Hmode T _ wire Hty Hf01 Hsv Hsa Henc Hmax) as (v' & Hdec & Haeq & Heq).
  pose proof Haeq as E. rewrite (abs_record T fs _ Hrec) in E.
  destruct (aeq_to_rec _ _ E) as (xs & Hx & HF).
  destruct (abs_is_rec T fs v' xs Hrec Hx) as [vs' ->].
  rewrite (abs_record T fs _ Hrec) in Hx. inversion Hx; subst xs; clear Hx.
  assert (Hnone: nth oi vs' None = None).
  { destruct (nth oi vs' None) as [fv|] eqn:Hfv; [|reflexivity]. exfalso.
    pose proof (abs_fields_nth fs vs' oi Opt ft fv Hoi Hfv) as Hn.
    assert (Hsn: nth oi (OpenType.abs_fields fs (set_nth oi None vs)) None = None).
    { apply (abs_fields_nth_none fs _ oi Opt ft Hoi I). apply nth_set_nth_same. exact Hlen. }
    rewrite (opt_rel_nth_none _ _ HF oi Hsn) in Hn. discriminate Hn. }
  exists vs'. split; [|split; [exact Hnone|split; [exact Haeq|exact Heq]]].
  unfold dec_open, dec_open_after. rewrite Hdec. cbn [bind].
  destruct (negb (dot || match override with [] => false | _ :: _ => true end)); [reflexivity|].
  rewrite Hrec. unfold second_pass. rewrite Hoi, Hnone. reflexivity.
Qed.

(* the CER and DER encoders fix their options: whatever defMode / maxChunkSize the caller passes, the open record
   is written as with (False, 1000) resp. (True, 0) - the modes of [mode_ok] *)
Lemma enc_open_der_fixed d k T oi v pr inners : enc_open DER d k T oi v pr inners = enc_open DER true 0 T oi v pr inners.
Proof. reflexivity. Qed.
Lemma enc_open_cer_fixed d k T oi v pr inners : enc_open CER d k T oi v pr inners = enc_open CER false 1000 T oi v pr inners.
Proof. reflexivity. Qed.

Print Assumptions codec_rt.
Print Assumptions definite_encoding_is_tlv.
Print Assumptions open_raw.
Print Assumptions open_resolved.
Print Assumptions open_override_wins.
Print Assumptions open_raw_list.
Print Assumptions open_resolved_list.
Print Assumptions open_override_wins_list.
Print Assumptions open_resolved_record.
Print Assumptions open_override_wins_record.
Print Assumptions open_absent.
Print Assumptions open_resolved_list_record.
Print Assumptions sorted_first_pass.
Print Assumptions open_raw_d.
Print Assumptions open_resolved_d.
Print Assumptions chunk_in_wire.

(* ====================================================================================================== *)
(* Part 9.  The hypotheses are satisfiable: the theorems applied to concrete records. *)

Ltac vmc := match goal with |- _ = _ => vm_compute; reflexivity end.

(* (A) DER encoder, BER decoder; [APPLICATION 3] EXPLICIT SEQUENCE { id OBJECT IDENTIFIER, flag BOOLEAN OPTIONAL,
       value [0] EXPLICIT ANY DEFINED BY id OPTIONAL }; the inner value is a SEQUENCE { INTEGER, BOOLEAN } *)
Definition exA_ty : ty :=
  TExp (mkTag Appl false 3) (TSeq [(Req, TOid); (Opt, TBool); (Opt, TExp (mkTag Ctx false 0) TAny)]).
Definition exA_in : ty := TSeq [(Req, TInt); (Req, TBool)].
Definition exA_map : omap := [(VOid [1;3;6;1;1], TStr 12); (VOid [1;3;6;1;2], exA_in)].
Definition exA_wire : bytes := [99;18;48;16;6;4;43;6;1;2;160;8;48;6;2;1;5;1;1;255].

Example exA_wire_ok :
  enc_open DER true 0 exA_ty 2 (VRec [Some (VOid [1;3;6;1;2]); None; None]) true [(exA_in, VRec [Some (VInt 5); Some (VBool true)])]
  = Ok exA_wire.
Proof. vmc. Qed.

Example open_resolved_nonvacuous_A :
  exists chunk w vs',
    encode DER true 0 exA_in (VRec [Some (VInt 5); Some (VBool true)]) = Ok chunk /\
    dec_open BER exA_ty 0 2 exA_map [] true exA_wire
      = Ok (DV (subst_field exA_ty 2 exA_in) (VRec (set_nth 2 (Some w) vs')), []) /\
    aeq (abs exA_in w) (abs exA_in (VRec [Some (VInt 5); Some (VBool true)])) /\
    (false = false -> abs exA_in w = abs exA_in (VRec [Some (VInt 5); Some (VBool true)])) /\
    nth 0 vs' None = Some (VOid [1;3;6;1;2]) /\
    aeq (abs exA_ty (VRec vs')) (abs exA_ty (VRec (set_nth 2 (Some (VAny chunk)) [Some (VOid [1;3;6;1;2]); None; None]))) /\
    (false = false -> abs exA_ty (VRec vs') = abs exA_ty (VRec (set_nth 2 (Some (VAny chunk)) [Some (VOid [1;3;6;1;2]); None; None]))).
Proof.
  apply (open_resolved DER BER true 0 false (mode_def DER BER true 0 (or_intror eq_refl) eq_refl eq_refl)
           exA_ty [(Req, TOid); (Opt, TBool); (Opt, TExp (mkTag Ctx false 0) TAny)] 0%nat 2%nat Opt (TExp (mkTag Ctx false 0) TAny) Req TOid);
    try vmc; try exact I; try (intros E; discriminate E).
  - left. right. exists [(Req, TOid); (Opt, TBool); (Opt, TExp (mkTag Ctx false 0) TAny)]. reflexivity.
  - intros _ _. vmc.
  - left. reflexivity.
Qed.

(* with decodeOpenTypes off, and with an unmapped governing value, the same record keeps the complete encoding *)
Example open_raw_nonvacuous_A :
  exists chunk vs' fv,
    encode DER true 0 exA_in (VRec [Some (VInt 5); Some (VBool true)]) = Ok chunk /\
    dec_open BER exA_ty 0 2 exA_map [] false exA_wire = Ok (DV exA_ty (VRec vs'), []) /\
    nth 2 vs' None = Some fv /\ octets_of fv = Some chunk /\
    aeq (abs exA_ty (VRec vs')) (abs exA_ty (VRec (set_nth 2 (Some (VAny chunk)) [Some (VOid [1;3;6;1;2]); None; None]))) /\
    (false = false -> abs exA_ty (VRec vs') = abs exA_ty (VRec (set_nth 2 (Some (VAny chunk)) [Some (VOid [1;3;6;1;2]); None; None]))).
Proof.
  apply (open_raw DER BER true 0 false (mode_def DER BER true 0 (or_intror eq_refl) eq_refl eq_refl)
           exA_ty [(Req, TOid); (Opt, TBool); (Opt, TExp (mkTag Ctx false 0) TAny)] 0%nat 2%nat Opt (TExp (mkTag Ctx false 0) TAny) Req TOid)
    with (g := VOid [1;3;6;1;2]);
    try vmc; try exact I; try (intros E; discriminate E).
  - left. right. exists [(Req, TOid); (Opt, TBool); (Opt, TExp (mkTag Ctx false 0) TAny)]. reflexivity.
  - intros _ _. vmc.
  - left. split; reflexivity.
Qed.

(* (B) the documented example, BER: SEQUENCE { id INTEGER, blob ANY DEFINED BY id } - the ANY untagged; the caller's
       map re-maps id 1 to OCTET STRING though the type's own map says INTEGER *)
Definition exB_ty : ty := TSeq [(Req, TInt); (Req, TAny)].
Definition exB_map : omap := [(VInt 1, TInt); (VInt 2, TOcts)].

Example open_override_wins_nonvacuous_B :
  exists chunk w vs',
    encode BER true 0 TOcts (VOcts [104; 105]) = Ok chunk /\
    dec_open CER exB_ty 0 1 exB_map [(VInt 1, TOcts)] false [48; 7; 2; 1; 1; 4; 2; 104; 105]
      = Ok (DV (subst_field exB_ty 1 TOcts) (VRec (set_nth 1 (Some w) vs')), []) /\
    aeq (abs TOcts w) (abs TOcts (VOcts [104; 105])) /\
    (false = false -> abs TOcts w = abs TOcts (VOcts [104; 105])) /\
    nth 0 vs' None = Some (VInt 1) /\
    aeq (abs exB_ty (VRec vs')) (abs exB_ty (VRec (set_nth 1 (Some (VAny chunk)) [Some (VInt 1); None]))) /\
    (false = false -> abs exB_ty (VRec vs') = abs exB_ty (VRec (set_nth 1 (Some (VAny chunk)) [Some (VInt 1); None]))).
Proof.
  apply (open_override_wins BER CER true 0 false (mode_def BER CER true 0 (or_introl eq_refl) eq_refl eq_refl)
           exB_ty [(Req, TInt); (Req, TAny)] 0%nat 1%nat Req TAny Req TInt);
    try vmc; try exact I; try (intros E; discriminate E).
  - left. left. reflexivity.
Qed.

(* (C) the CER encoder (indefinite lengths) read by the BER decoder: SET { id ENUMERATED, value [1] EXPLICIT ANY DEFINED BY id }
       under BER rules would keep the order; here a SEQUENCE; the inner value is primitive, so its encoding has a
       definite length, which is what [inner_definite] asks for where lengths are indefinite *)
Definition exC_ty : ty := TSeq [(Req, TEnum); (Req, TExp (mkTag Ctx false 1) TAny)].
Definition exC_map : omap := [(VInt 7, TOid)].

Example open_resolved_nonvacuous_C :
  enc_open CER false 1000 exC_ty 1 (VRec [Some (VInt 7); None]) true [(TOid, VOid [1; 3; 6; 1])]
    = Ok [48; 128; 10; 1; 7; 161; 128; 6; 3; 43; 6; 1; 0; 0; 0; 0] /\
  exists chunk w vs',
    encode CER false 1000 TOid (VOid [1; 3; 6; 1]) = Ok chunk /\
    dec_open BER exC_ty 0 1 exC_map [] true [48; 128; 10; 1; 7; 161; 128; 6; 3; 43; 6; 1; 0; 0; 0; 0]
      = Ok (DV (subst_field exC_ty 1 TOid) (VRec (set_nth 1 (Some w) vs')), []) /\
    aeq (abs TOid w) (abs TOid (VOid [1; 3; 6; 1])) /\
    (false = false -> abs TOid w = abs TOid (VOid [1; 3; 6; 1])) /\
    nth 0 vs' None = Some (VInt 7) /\
    aeq (abs exC_ty (VRec vs')) (abs exC_ty (VRec (set_nth 1 (Some (VAny chunk)) [Some (VInt 7); None]))) /\
    (false = false -> abs exC_ty (VRec vs') = abs exC_ty (VRec (set_nth 1 (Some (VAny chunk)) [Some (VInt 7); None]))).
Proof.
  split; [vmc|].
  apply (open_resolved CER BER false 1000 false (mode_any CER BER false 1000 stable_cer (or_introl eq_refl))
           exC_ty [(Req, TEnum); (Req, TExp (mkTag Ctx false 1) TAny)] 0%nat 1%nat Req (TExp (mkTag Ctx false 1) TAny) Req TEnum);
    try vmc; try exact I; try (intros _; vmc); try (intros E; discriminate E).
  - left. right. exists [(Req, TEnum); (Req, TExp (mkTag Ctx false 1) TAny)]. reflexivity.
  - intros _ chunk H. vm_compute in H. inversion H; subst. vmc.
  - left. reflexivity.
Qed.

(* (D) a SET OF [3] EXPLICIT ANY member in a SET under the DER encoder (members and elements sorted), DER decoder:
       [srt = true], abstract contents equal up to the order of the SET OF elements *)
Definition exD_ty : ty := TSet [(Req, TInt); (Opt, TSetOf (TExp (mkTag Ctx false 3) TAny))].
Definition exD_map : omap := [(VInt 1, TInt)].
Definition exD_wire : bytes := [49; 16; 2; 1; 1; 49; 11; 163; 3; 2; 1; 1; 163; 4; 2; 2; 1; 0].

Example open_resolved_list_nonvacuous_D :
  enc_open DER true 0 exD_ty 1 (VRec [Some (VInt 1); None]) true [(TInt, VInt 256); (TInt, VInt 1)] = Ok exD_wire /\
  exists vs' ws,
    dec_open DER exD_ty 0 1 exD_map [] true exD_wire
      = Ok (DV (subst_field exD_ty 1 (retype_list (TSetOf (TExp (mkTag Ctx false 3) TAny)) TInt))
               (VRec (set_nth 1 (Some (VList ws)) vs')), []) /\
    length ws = length [VInt 256; VInt 1] /\
    Forall (fun w => exists x, In x [VInt 256; VInt 1] /\ aeq (abs TInt w) (abs TInt x) /\ (true = false -> abs TInt w = abs TInt x)) ws /\
    nth 0 vs' None = Some (VInt 1).
Proof.
  split; [vmc|].
  apply (open_resolved_list DER DER true 0 true (mode_def DER DER true 0 (or_intror eq_refl) eq_refl eq_refl)
           exD_ty [(Req, TInt); (Opt, TSetOf (TExp (mkTag Ctx false 3) TAny))] 0%nat 1%nat Opt
           (TSetOf (TExp (mkTag Ctx false 3) TAny)) (TExp (mkTag Ctx false 3) TAny) Req TInt)
    with (inners := [(TInt, VInt 256); (TInt, VInt 1)]) (E := TInt) (xs := [VInt 256; VInt 1])
         (vs := [Some (VInt 1); None]);
    try vmc; try exact I; try (intros E; discriminate E).
  - repeat constructor; try vmc; intros E; discriminate E.
  - intros _ _ E. discriminate E.
  - left. reflexivity.
Qed.

Example open_raw_list_nonvacuous_D :
  exists vs' ys,
    dec_open DER exD_ty 0 1 exD_map [] false exD_wire = Ok (DV exD_ty (VRec vs'), []) /\
    nth 1 vs' None = Some (VList ys) /\ length ys = length [(TInt, VInt 256); (TInt, VInt 1)] /\
    Forall (fun y => exists Ti xi ch, In (Ti, xi) [(TInt, VInt 256); (TInt, VInt 1)] /\ encode DER true 0 Ti xi = Ok ch /\ octets_of y = Some ch) ys.
Proof.
  apply (open_raw_list DER DER true 0 true (mode_def DER DER true 0 (or_intror eq_refl) eq_refl eq_refl)
           exD_ty [(Req, TInt); (Opt, TSetOf (TExp (mkTag Ctx false 3) TAny))] 0%nat 1%nat Opt
           (TSetOf (TExp (mkTag Ctx false 3) TAny)) (TExp (mkTag Ctx false 3) TAny) Req TInt)
    with (g := VInt 1) (vs := [Some (VInt 1); None]) (inners := [(TInt, VInt 256); (TInt, VInt 1)]); try vmc; try exact I; try (intros E; discriminate E).
  - repeat constructor; try vmc; intros E; discriminate E.
  - intros _ _ E. discriminate E.
  - left. split; reflexivity.
Qed.

(* (A') the same record in one statement: what comes back is the record with the typed inner value *)
Example open_resolved_record_nonvacuous_A :
  exists rv,
    dec_open BER exA_ty 0 2 exA_map [] true exA_wire = Ok (DV (subst_field exA_ty 2 exA_in) rv, []) /\
    aeq (abs (subst_field exA_ty 2 exA_in) rv)
        (abs (subst_field exA_ty 2 exA_in)
             (VRec (set_nth 2 (Some (VRec [Some (VInt 5); Some (VBool true)])) [Some (VOid [1;3;6;1;2]); None; None]))) /\
    (false = false -> abs (subst_field exA_ty 2 exA_in) rv
                      = abs (subst_field exA_ty 2 exA_in)
                            (VRec (set_nth 2 (Some (VRec [Some (VInt 5); Some (VBool true)])) [Some (VOid [1;3;6;1;2]); None; None]))).
Proof.
  apply (open_resolved_record DER BER true 0 false (mode_def DER BER true 0 (or_intror eq_refl) eq_refl eq_refl)
           exA_ty [(Req, TOid); (Opt, TBool); (Opt, TExp (mkTag Ctx false 0) TAny)] 0%nat 2%nat Opt (TExp (mkTag Ctx false 0) TAny) Req TOid)
    with (g := VOid [1;3;6;1;2]);
    try vmc; try exact I; try (intros E; discriminate E).
  - left. right. exists [(Req, TOid); (Opt, TBool); (Opt, TExp (mkTag Ctx false 0) TAny)]. reflexivity.
  - intros _ _. vmc.
  - left. reflexivity.
Qed.

(* (E) the governing member declared DEFAULT and left out of the encoding (its value is the default): BER,
       SEQUENCE { kind INTEGER DEFAULT 1, body [0] EXPLICIT ANY DEFINED BY kind }, decoder of Model/OpenTypeDef.v *)
Definition exE_ty : ty := TSeq [(Def (VInt 1), TInt); (Req, TExp (mkTag Ctx false 0) TAny)].
Definition exE_in : ty := TSeq [(Req, TInt); (Req, TInt)].
Definition exE_map : omap := [(VInt 1, exE_in); (VInt 2, TOcts)].

Example open_resolved_d_nonvacuous_E :
  enc_open BER true 0 exE_ty 1 (VRec [None; None]) true [(exE_in, VRec [Some (VInt 3); Some (VInt (-4))])]
    = Ok [48; 10; 160; 8; 48; 6; 2; 1; 3; 2; 1; 252] /\
  exists rv,
    dec_open_d BER exE_ty 0 1 exE_map [] true [48; 10; 160; 8; 48; 6; 2; 1; 3; 2; 1; 252] = Ok (DV (subst_field exE_ty 1 exE_in) rv, []) /\
    aeq (abs (subst_field exE_ty 1 exE_in) rv)
        (abs (subst_field exE_ty 1 exE_in) (VRec (set_nth 1 (Some (VRec [Some (VInt 3); Some (VInt (-4))])) [None; None]))) /\
    (false = false -> abs (subst_field exE_ty 1 exE_in) rv
                      = abs (subst_field exE_ty 1 exE_in) (VRec (set_nth 1 (Some (VRec [Some (VInt 3); Some (VInt (-4))])) [None; None]))).
Proof.
  split; [vmc|].
  apply (open_resolved_d BER BER true 0 false (mode_def BER BER true 0 (or_introl eq_refl) eq_refl eq_refl)
           exE_ty [(Def (VInt 1), TInt); (Req, TExp (mkTag Ctx false 0) TAny)] 0%nat 1%nat Req (TExp (mkTag Ctx false 0) TAny) (Def (VInt 1)) TInt)
    with (g := VInt 1);
    try vmc; try exact I; try (intros E; discriminate E).
  - left. left. reflexivity.
  - left. reflexivity.
Qed.

Example open_raw_d_nonvacuous_E :
  exists chunk vs' fv,
    encode BER true 0 exE_in (VRec [Some (VInt 3); Some (VInt (-4))]) = Ok chunk /\
    dec_open_d BER exE_ty 0 1 exE_map [] false [48; 10; 160; 8; 48; 6; 2; 1; 3; 2; 1; 252] = Ok (DV exE_ty (VRec vs'), []) /\
    nth 1 vs' None = Some fv /\ octets_of fv = Some chunk /\
    aeq (abs exE_ty (VRec vs')) (abs exE_ty (VRec (set_nth 1 (Some (VAny chunk)) [None; None]))) /\
    (false = false -> abs exE_ty (VRec vs') = abs exE_ty (VRec (set_nth 1 (Some (VAny chunk)) [None; None]))).
Proof.
  apply (open_raw_d BER BER true 0 false (mode_def BER BER true 0 (or_introl eq_refl) eq_refl eq_refl)
           exE_ty [(Def (VInt 1), TInt); (Req, TExp (mkTag Ctx false 0) TAny)] 0%nat 1%nat Req (TExp (mkTag Ctx false 0) TAny) (Def (VInt 1)) TInt)
    with (g := VInt 1);
    try vmc; try exact I; try (intros E; discriminate E).
  - left. left. reflexivity.
  - left. split; reflexivity.
Qed.

(* (F) a SET with an EXPLICITly tagged ANY member under the DER encoder: the SET encoder orders the members by the
       tag of the typed inner value (BOOLEAN before INTEGER), so the bytes are not those of the plain record
       encoder (which would put [3] after INTEGER); the theorems cover them all the same *)
Definition exF_ty : ty := TSet [(Req, TInt); (Req, TExp (mkTag Ctx false 3) TAny)].

Example open_resolved_record_nonvacuous_F :
  enc_open DER true 0 exF_ty 1 (VRec [Some (VInt 1); None]) true [(TBool, VBool true)] = Ok [49; 8; 163; 3; 1; 1; 255; 2; 1; 1] /\
  encode DER true 0 exF_ty (VRec [Some (VInt 1); Some (VAny [1; 1; 255])]) = Ok [49; 8; 2; 1; 1; 163; 3; 1; 1; 255] /\
  exists rv,
    dec_open CER exF_ty 0 1 [(VInt 1, TBool)] [] true [49; 8; 163; 3; 1; 1; 255; 2; 1; 1] = Ok (DV (subst_field exF_ty 1 TBool) rv, []) /\
    aeq (abs (subst_field exF_ty 1 TBool) rv) (abs (subst_field exF_ty 1 TBool) (VRec (set_nth 1 (Some (VBool true)) [Some (VInt 1); None]))) /\
    (false = false -> abs (subst_field exF_ty 1 TBool) rv
                      = abs (subst_field exF_ty 1 TBool) (VRec (set_nth 1 (Some (VBool true)) [Some (VInt 1); None]))).
Proof.
  split; [vmc|]. split; [vmc|].
  apply (open_resolved_record DER CER true 0 false (mode_def DER CER true 0 (or_intror eq_refl) eq_refl eq_refl)
           exF_ty [(Req, TInt); (Req, TExp (mkTag Ctx false 3) TAny)] 0%nat 1%nat Req (TExp (mkTag Ctx false 3) TAny) Req TInt)
    with (g := VInt 1);
    try vmc; try exact I; try (intros E; discriminate E).
  - right. reflexivity.
  - left. reflexivity.
Qed.

(* (D') the SET OF member in one statement (DER: the elements re-ordered; contents equal as multisets) *)
Example open_resolved_list_record_nonvacuous_D :
  exists rv,
    dec_open DER exD_ty 0 1 exD_map [] true exD_wire
      = Ok (DV (subst_field exD_ty 1 (retype_list (TSetOf (TExp (mkTag Ctx false 3) TAny)) TInt)) rv, []) /\
    aeq (abs (subst_field exD_ty 1 (retype_list (TSetOf (TExp (mkTag Ctx false 3) TAny)) TInt)) rv)
        (abs (subst_field exD_ty 1 (retype_list (TSetOf (TExp (mkTag Ctx false 3) TAny)) TInt))
             (VRec (set_nth 1 (Some (VList [VInt 256; VInt 1])) [Some (VInt 1); None]))) /\
    (true = false -> abs (subst_field exD_ty 1 (retype_list (TSetOf (TExp (mkTag Ctx false 3) TAny)) TInt)) rv
                     = abs (subst_field exD_ty 1 (retype_list (TSetOf (TExp (mkTag Ctx false 3) TAny)) TInt))
                           (VRec (set_nth 1 (Some (VList [VInt 256; VInt 1])) [Some (VInt 1); None]))).
Proof.
  apply (open_resolved_list_record DER DER true 0 true (mode_def DER DER true 0 (or_intror eq_refl) eq_refl eq_refl)
           exD_ty [(Req, TInt); (Opt, TSetOf (TExp (mkTag Ctx false 3) TAny))] 0%nat 1%nat Opt
           (TSetOf (TExp (mkTag Ctx false 3) TAny)) (TExp (mkTag Ctx false 3) TAny) Req TInt)
    with (g := VInt 1);
    try vmc; try exact I; try (intros E; discriminate E).
  - repeat constructor; try vmc; intros E; discriminate E.
  - intros _ _ E. discriminate E.
  - left. reflexivity.
Qed.

(* ---------- what the conditions exclude is false of the model ---------- *)

(* [inner_kept] (the F24 class showing through an open type): under the DER (and CER) encoder the encode call of an
   OPTIONAL open member gets ifNotEmpty, and hands it on to the inner value: an empty SEQUENCE OF is written as NO
   octets at all - the member holds nothing instead of the complete encoding 30 00, and resolution fails *)
Example inner_kept_needed :
  let T := TSeq [(Req, TInt); (Opt, TExp (mkTag Ctx false 0) TAny)] in
  stage3_ty false DER T = true /\ hole_val DER DER true T 1 [Some (VInt 1); None] = true
  /\ stage3_ty false DER (TSeqOf TInt) = true /\ stage3_val DER DER (TSeqOf TInt) (VList []) = true
  /\ nonempty_enc DER (TSeqOf TInt) (VList []) = false
  /\ encode DER true 0 (TSeqOf TInt) (VList []) = Ok [48; 0]
  /\ enc_open DER true 0 T 1 (VRec [Some (VInt 1); None]) true [(TSeqOf TInt, VList [])] = Ok [48; 5; 2; 1; 1; 160; 0]
  /\ dec_open DER T 0 1 [(VInt 1, TSeqOf TInt)] [] false [48; 5; 2; 1; 1; 160; 0]
     = Ok (DV T (VRec [Some (VInt 1); Some (VAny [])]), [])
  /\ dec_open DER T 0 1 [(VInt 1, TSeqOf TInt)] [] true [48; 5; 2; 1; 1; 160; 0] = Err EEndOfStream
  /\ (* the BER encoder does not pass ifNotEmpty *)
     enc_open BER true 0 T 1 (VRec [Some (VInt 1); None]) true [(TSeqOf TInt, VList [])] = Ok [48; 7; 2; 1; 1; 160; 2; 48; 0].
Proof. vm_compute. repeat split; reflexivity. Qed.

(* [inner_definite] is a limit of the codec theorem (RoundTripModes3.v asks for definite-length TLVs inside an ANY
   where lengths are indefinite), not of the model: a constructed inner value under indefinite lengths resolves *)
Example inner_definite_not_necessary :
  let Tin := TSeq [(Req, TInt); (Req, TBool)] in
  let vin := VRec [Some (VInt 5); Some (VBool true)] in
  encode BER false 0 Tin vin = Ok [48; 128; 2; 1; 5; 1; 1; 1; 0; 0]
  /\ tlv_ok [48; 128; 2; 1; 5; 1; 1; 1; 0; 0] = false
  /\ enc_open BER false 0 exC_ty 1 (VRec [Some (VInt 7); None]) true [(Tin, vin)]
     = Ok [48; 128; 10; 1; 7; 161; 128; 48; 128; 2; 1; 5; 1; 1; 1; 0; 0; 0; 0; 0; 0]
  /\ dec_open BER exC_ty 0 1 [(VInt 7, Tin)] [] true [48; 128; 10; 1; 7; 161; 128; 48; 128; 2; 1; 5; 1; 1; 1; 0; 0; 0; 0; 0; 0]
     = Ok (DV (subst_field exC_ty 1 Tin) (VRec [Some (VInt 7); Some vin]), []).
Proof. vm_compute. repeat split; reflexivity. Qed.

(* the OPTIONAL open member left out *)
Example open_absent_nonvacuous_A :
  enc_open DER true 0 exA_ty 2 (VRec [Some (VOid [1;3;6;1;2]); Some (VBool true); None]) false [] = Ok [99; 11; 48; 9; 6; 4; 43; 6; 1; 2; 1; 1; 255] /\
  exists vs', dec_open BER exA_ty 0 2 exA_map [] true [99; 11; 48; 9; 6; 4; 43; 6; 1; 2; 1; 1; 255] = Ok (DV exA_ty (VRec vs'), []) /\
    nth 2 vs' None = None /\
    aeq (abs exA_ty (VRec vs')) (abs exA_ty (VRec (set_nth 2 None [Some (VOid [1;3;6;1;2]); Some (VBool true); None]))) /\
    (false = false -> abs exA_ty (VRec vs') = abs exA_ty (VRec (set_nth 2 None [Some (VOid [1;3;6;1;2]); Some (VBool true); None]))).
Proof.
  split; [vmc|].
  apply (open_absent DER BER true 0 false exA_ty [(Req, TOid); (Opt, TBool); (Opt, TExp (mkTag Ctx false 0) TAny)] 0%nat 2%nat
           (TExp (mkTag Ctx false 0) TAny) _ [] _ exA_map [] true (mode_def DER BER true 0 (or_intror eq_refl) eq_refl eq_refl));
    try vmc; try (intros E; discriminate E).
Qed.

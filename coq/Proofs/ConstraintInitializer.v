(* C14, "cannot be bypassed", for initializers that are value objects.
   In the model every entry point (constructor, clone, subtype) hands the initializer's payload to
   the result type's constructor, whatever type the initializer object belonged to.  These
   statements say why nothing weaker will do: the relation isSuperTypeOf computes is syntactic
   (_valueMap membership, and == on _values that ignores the constraint class), so "the initializer's
   type is a subtype of mine" does not imply "its payload is within my constraints". *)
From PV Require Import Model.Constraint Spec.SetTheory Proofs.ConstraintInd Proofs.ConstraintDenote
  Proofs.ConstraintSubtype.
Local Open Scope Z_scope.

(* whatever type S produced the payload, what T's constructor / clone / subtype returns for it is
   an error or a value T's own constraints accept *)
Theorem initializer_object_checked : forall S T v x,
  construct S v = Ok x -> checked_by T (op_clone T x) /\ checked_by T (construct T x).
Proof. intros S T v x _. split; apply checked_construct. Qed.
Print Assumptions initializer_object_checked.

(* a payload accepted on behalf of a value object is in the denotation of the receiving type *)
Theorem initializer_object_in_denotation : forall S T v x y,
  construct S v = Ok x -> op_clone T x = Ok y ->
  wf (sp_constr (st_spec T)) = true -> typed (sp_constr (st_spec T)) None (VS y) = true ->
  admits T (VS y).
Proof.
  intros S T v x y _ H Hw Ht. unfold op_clone in H. apply construct_checked in H.
  destruct H as [_ H]. unfold admits. apply (ceval_iff_denote _ _ _ Hw Ht). exact H.
Qed.
Print Assumptions initializer_object_in_denotation.

(* isSuperTypeOf is not inclusion of value sets.
   (1) Q ::= INTEGER (P | 255) mentions P's constraint inside a union: P "is a supertype of" Q,
       yet Q admits 255 and P ::= INTEGER (0..100) does not.
   (2) constraint == ignores the class: ConstraintsExclusion(2..4) "is a supertype of"
       ConstraintsUnion(2..4), whose values are exactly the ones it excludes. *)
Theorem is_super_is_not_inclusion :
  (exists P Q v,
     spec_is_super (st_spec P) (st_spec Q) = true
     /\ construct Q v = Ok v /\ construct P v = Err EConstraint)
  /\ (exists P Q v,
        spec_is_super (st_spec P) (st_spec Q) = true /\ spec_is_super (st_spec Q) (st_spec P) = true
        /\ construct Q v = Ok v /\ construct P v = Err EConstraint).
Proof.
  split.
  - exists (mkSType [mkTag Univ false 2] (spec_of [CRange 0 100])),
           (mkSType [mkTag Univ false 2] (spec_of [COr [CAnd [CRange 0 100]; CSingle [SInt 255]]])),
           (SInt 255).
    vm_compute. repeat split.
  - exists (mkSType [mkTag Univ false 2] (spec_of [CExcl [CRange 2 4]])),
           (mkSType [mkTag Univ false 2] (spec_of [COr [CRange 2 4]])),
           (SInt 3).
    vm_compute. repeat split.
Qed.
Print Assumptions is_super_is_not_inclusion.

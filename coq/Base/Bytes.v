(* Bytes, results and error classes shared by every layer.  Definitions only. *)
From Coq Require Export List NArith ZArith Bool.
Export ListNotations.

Definition byte := N.
Definition bytes := list N.

(* Python built-in exception kinds that escape where the code performs an unguarded
   partial operation; kept distinct so "only library errors escape" is a real statement. *)
Inductive crash := IndexError | AttributeError | TypeError | ValueError | OverflowError
                 | RecursionError | RuntimeError | KeyError.

Inductive err :=
| EUnderrun        (* error.SubstrateUnderrunError *)
| EEndOfStream     (* error.EndOfStreamError (a subclass of the former) *)
| EMalformed       (* any other error.PyAsn1Error *)
| EConstraint      (* error.ValueConstraintError *)
| EUnicode         (* error.PyAsn1UnicodeError family *)
| EUnsupported     (* error.UnsupportedSubstrateError *)
| ECrash (k: crash)
| EUnclean         (* marker: a run touched a stream primitive that observes the end of input *)
| EUnmodelled      (* the model declines to predict (counted and reported, never compared) *)
| EOutOfFuel.      (* structural fuel exhausted; excluded by every theorem statement *)

Inductive res (A:Type) := Ok (a:A) | Err (e:err).
Arguments Ok {A}. Arguments Err {A}.

Definition bind {A B} (r: res A) (f: A -> res B) : res B :=
  match r with Ok a => f a | Err e => Err e end.
Notation "'do' x <- r ; k" := (bind r (fun x => k)) (at level 200, x pattern, r at level 100, k at level 200).

Definition crash_eqb (a b: crash) : bool :=
  match a, b with
  | IndexError, IndexError | AttributeError, AttributeError | TypeError, TypeError
  | ValueError, ValueError | OverflowError, OverflowError | RecursionError, RecursionError
  | RuntimeError, RuntimeError | KeyError, KeyError => true
  | _, _ => false end.

Definition err_eqb (a b: err) : bool :=
  match a, b with
  | EUnderrun, EUnderrun | EEndOfStream, EEndOfStream | EMalformed, EMalformed
  | EConstraint, EConstraint | EUnicode, EUnicode | EUnsupported, EUnsupported
  | EUnmodelled, EUnmodelled | EOutOfFuel, EOutOfFuel | EUnclean, EUnclean => true
  | ECrash x, ECrash y => crash_eqb x y
  | _, _ => false end.

(* errors derived from the library's base class PyAsn1Error *)
Definition is_library (e: err) : bool :=
  match e with
  | EUnderrun | EEndOfStream | EMalformed | EConstraint | EUnicode | EUnsupported => true
  | _ => false end.

(* [eqb] is bound outside the fix so that nested recursive definitions may pass themselves *)
Definition list_eqb {A} (eqb: A -> A -> bool) : list A -> list A -> bool :=
  fix go (x y: list A) : bool :=
  match x, y with
  | [], [] => true
  | a :: x', b :: y' => eqb a b && go x' y'
  | _, _ => false end.

Definition bytes_eqb : bytes -> bytes -> bool := list_eqb N.eqb.

Definition wf_byte (b: N) : bool := N.ltb b 256.
Definition wf_bytes (b: bytes) : bool := forallb wf_byte b.

(* run-length literals used by the correspondence harness for long strings *)
Inductive seg := Lit (b: bytes) | Rep (n: N) (b: N).
Fixpoint repn (n: nat) (b: N) : bytes := match n with O => [] | S k => b :: repn k b end.
Fixpoint unseg (l: list seg) : bytes :=
  match l with [] => [] | Lit b :: r => b ++ unseg r | Rep n b :: r => repn (N.to_nat n) b ++ unseg r end.

(* indices (from 0) of the false entries; what a correspondence file prints *)
Fixpoint failing_from (i: nat) (l: list bool) : list nat :=
  match l with [] => [] | b :: r => if b then failing_from (S i) r else i :: failing_from (S i) r end.
Definition failing (l: list bool) : list nat := failing_from 0 l.

(* three-valued outcomes of a correspondence case: 0 = agree, 1 = disagree, 2 = model declines *)
Fixpoint nonzero_from (i: nat) (l: list N) : list (nat * N) :=
  match l with [] => [] | 0%N :: r => nonzero_from (S i) r | c :: r => (i, c) :: nonzero_from (S i) r end.
Definition nonzero (l: list N) : list (nat * N) := nonzero_from 0 l.
Definition code_of_bool (b: bool) : N := if b then 0%N else 1%N.

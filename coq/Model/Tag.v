(* pyasn1/type/tag.py and the identifier/length octet functions of
   pyasn1/codec/ber/encoder.py (AbstractItemEncoder.encodeTag / encodeLength).
   Definitions only; proofs are in Proofs/. *)
From PV Require Export Base.Bytes.
Local Open Scope N_scope.

Inductive tclass := Univ | Appl | Ctx | Priv.
Record tag := mkTag { tcls: tclass; tcon: bool; tnum: N }.

Definition cls_bits (c: tclass) : N :=
  match c with Univ => 0 | Appl => 64 | Ctx => 128 | Priv => 192 end.
Definition cls_eqb (a b: tclass) : bool :=
  match a, b with Univ, Univ | Appl, Appl | Ctx, Ctx | Priv, Priv => true | _, _ => false end.

(* Tag.__eq__ compares (tagClass, tagId) only: the format bit does not take part *)
Definition tag_eqb (a b: tag) : bool := cls_eqb (tcls a) (tcls b) && N.eqb (tnum a) (tnum b).
(* Tag.__lt__ : lexicographic on (tagClass, tagId) *)
Definition tag_ltb (a b: tag) : bool :=
  N.ltb (cls_bits (tcls a)) (cls_bits (tcls b))
  || (N.eqb (cls_bits (tcls a)) (cls_bits (tcls b)) && N.ltb (tnum a) (tnum b)).

(* TagSet.superTags: innermost (base) tag first, outermost explicit tag last.
   The empty list is the untagged tag set of CHOICE and ANY. *)
Definition tagset := list tag.
Definition tagset_eqb : tagset -> tagset -> bool := list_eqb tag_eqb.
(* tuple comparison of TagSet.__lt__ *)
Fixpoint tagset_ltb (a b: tagset) : bool :=
  match a, b with
  | [], [] => false
  | [], _ :: _ => true
  | _ :: _, [] => false
  | x :: a', y :: b' => tag_ltb x y || (tag_eqb x y && tagset_ltb a' b')
  end.

(* TagSet.tagExplicitly: refuses UNIVERSAL, forces the constructed format, appends *)
Definition tag_explicitly (ts: tagset) (t: tag) : res tagset :=
  match tcls t with
  | Univ => Err EMalformed
  | _ => Ok (ts ++ [mkTag (tcls t) true (tnum t)])
  end.

(* TagSet.tagImplicitly: replaces the last (outermost) tag, keeping its format;
   on an untagged set the given tag is taken as it is *)
Definition tag_implicitly (ts: tagset) (t: tag) : tagset :=
  match rev ts with
  | [] => [t]
  | last :: r => rev r ++ [mkTag (tcls t) (tcon last) (tnum t)]
  end.

(* isSuperTagSetOf *)
Fixpoint is_prefix_tags (a b: tagset) : bool :=
  match a, b with
  | [], _ => true
  | x :: a', y :: b' => tag_eqb x y && is_prefix_tags a' b'
  | _ :: _, [] => false
  end.
Definition is_super_tagset (self other: tagset) : bool := is_prefix_tags self other.

(* ---- identifier octets: encodeTag ---- *)

(* the continuation digits of the base-128 form, most significant first:
   while tagId: substrate = (0x80 | (tagId & 0x7f),) + substrate; tagId >>= 7 *)
Fixpoint b128_hi (fuel: nat) (n: N) (acc: bytes) : bytes :=
  match fuel with
  | O => acc
  | S f => if N.eqb n 0 then acc
           else b128_hi f (N.shiftr n 7) (N.lor 128 (N.land n 127) :: acc)
  end.
Definition b128 (n: N) : bytes := b128_hi (N.size_nat n) (N.shiftr n 7) [N.land n 127].

Definition enc_tag (t: tag) (constructed: bool) : bytes :=
  let first := N.lor (cls_bits (tcls t)) (if tcon t || constructed then 32 else 0) in
  if N.ltb (tnum t) 31 then [N.lor first (tnum t)]
  else N.lor first 31 :: b128 (tnum t).

(* ---- length octets: encodeLength ---- *)

Fixpoint b256_hi (fuel: nat) (n: N) (acc: bytes) : bytes :=
  match fuel with
  | O => acc
  | S f => if N.eqb n 0 then acc else b256_hi f (N.shiftr n 8) (N.land n 255 :: acc)
  end.
Definition b256 (n: N) : bytes := b256_hi (N.size_nat n) n [].

(* [indef] is [not defMode and supportIndefLenMode] *)
Definition enc_len (len: N) (indef: bool) : res bytes :=
  if indef then Ok [128]
  else if N.ltb len 128 then Ok [len]
  else let s := b256 len in
       if Nat.ltb 126%nat (length s) then Err EMalformed
       else Ok (N.lor 128 (N.of_nat (length s)) :: s).

(* ---- the decoder's view of the same octets (pure list versions; the streaming
        decoder in Model/Dec.v performs the same computation one read at a time) ---- *)

Definition cls_of_bits (b: N) : tclass :=
  let c := N.land b 192 in
  if N.eqb c 0 then Univ else if N.eqb c 64 then Appl else if N.eqb c 128 then Ctx else Priv.

(* long-form tag number: tagId <<= 7; tagId |= (octet & 0x7F); stop at an octet without 0x80 *)
Fixpoint dec_b128 (acc: N) (b: bytes) : option (N * bytes) :=
  match b with
  | [] => None
  | o :: r => let acc' := N.lor (N.shiftl acc 7) (N.land o 127) in
              if N.eqb (N.land o 128) 0 then Some (acc', r) else dec_b128 acc' r
  end.

Definition dec_ident (b: bytes) : option (tag * bytes) :=
  match b with
  | [] => None
  | o :: r =>
      let c := cls_of_bits o in
      let f := negb (N.eqb (N.land o 32) 0) in
      let n := N.land o 31 in
      if N.eqb n 31 then
        match dec_b128 0 r with
        | Some (num, r') => Some (mkTag c f num, r')
        | None => None
        end
      else Some (mkTag c f n, r)
  end.

Fixpoint be_num (acc: N) (b: bytes) : N :=
  match b with [] => acc | o :: r => be_num (N.lor (N.shiftl acc 8) o) r end.

(* None = not enough octets; Some (None, r) = indefinite; Some (Some n, r) = definite n *)
Definition dec_len (b: bytes) : option (option N * bytes) :=
  match b with
  | [] => None
  | o :: r =>
      if N.ltb o 128 then Some (Some o, r)
      else if N.eqb o 128 then Some (None, r)
      else let k := N.to_nat (N.land o 127) in
           if Nat.ltb (length r) k then None
           else Some (Some (be_num 0 (firstn k r)), skipn k r)
  end.

(* Decoders as interaction trees over the stream primitives pyasn1 actually uses
   (pyasn1/codec/streaming.py), and their interpretation over a byte stream.  Definitions only. *)
From PV Require Export Base.Bytes.
From Coq Require Export Arith.

Inductive proc (A: Type) : Type :=
| Ret (a: A)
| Raise (e: err)
| ReadN (n: nat) (k: bytes -> proc A)     (* readFromStream(substrate, n): all n octets, or suspend and retry *)
| Tell (k: nat -> proc A)                 (* substrate.tell() *)
| SeekBack (d: nat) (k: proc A)           (* substrate.seek(-d, os.SEEK_CUR) *)
| Mark (k: proc A)                        (* substrate.markedPosition = substrate.tell() *)
| GetMark (k: nat -> proc A)              (* substrate.markedPosition *)
| AtEOS (k: bool -> proc A)               (* isEndOfStream(substrate) *)
| ReadAll (k: bytes -> proc A).           (* readFromStream(substrate) with size -1 *)
Arguments Ret {A}. Arguments Raise {A}. Arguments ReadN {A}. Arguments Tell {A}.
Arguments SeekBack {A}. Arguments Mark {A}. Arguments GetMark {A}. Arguments AtEOS {A}. Arguments ReadAll {A}.

Fixpoint pbind {A B} (p: proc A) (f: A -> proc B) : proc B :=
  match p with
  | Ret a => f a
  | Raise e => Raise e
  | ReadN n k => ReadN n (fun b => pbind (k b) f)
  | Tell k => Tell (fun p => pbind (k p) f)
  | SeekBack d k => SeekBack d (pbind k f)
  | Mark k => Mark (pbind k f)
  | GetMark k => GetMark (fun p => pbind (k p) f)
  | AtEOS k => AtEOS (fun b => pbind (k b) f)
  | ReadAll k => ReadAll (fun b => pbind (k b) f)
  end.
Notation "'let!' x ':=' p 'in' q" := (pbind p (fun x => q)) (at level 200, x name, p at level 100, q at level 200).

Definition readn {A} : nat -> (bytes -> proc A) -> proc A := ReadN.
Definition readN (n: nat) : proc bytes := ReadN n Ret.
Definition tell : proc nat := Tell Ret.
Definition getmark : proc nat := GetMark Ret.
Definition ateos : proc bool := AtEOS Ret.
Definition readall : proc bytes := ReadAll Ret.


Definition lift {A} (r: res A) : proc A := match r with Ok a => Ret a | Err e => Raise e end.

(* a seekable, possibly still growing, non-blocking stream *)
Record stream := mkStream { arrived: bytes; pos: nat; closed: bool; mark: nat }.

Definition avail (s: stream) : bytes := skipn (pos s) (arrived s).
Definition setpos (s: stream) (p: nat) : stream := mkStream (arrived s) p (closed s) (mark s).
Definition setmark (s: stream) (m: nat) : stream := mkStream (arrived s) (pos s) (closed s) m.

Inductive att := Got (c: bytes) | Under | EOS.

(* one pass of the loop in readFromStream on a non-blocking seekable stream: read(n) returns
   None (nothing yet, open), b'' (nothing, closed) or up to n octets; after a short non-empty
   read one more octet is asked for: b'' means the stream has ended (end-of-stream error),
   otherwise everything is seeked back and an underrun is reported *)
Definition attempt (s: stream) (n: nat) : att * stream :=
  if Nat.eqb n 0 then (Got [], s)
  else if Nat.ltb (length (avail s)) n then ((if closed s then EOS else Under), s)
  else (Got (firstn n (avail s)), setpos s (pos s + n)).

(* run until the decoder must suspend (inl: the continuation to retry) or finishes (inr) *)
Fixpoint resume {A} (p: proc A) (s: stream) : (proc A * stream) + (res A * stream) :=
  match p with
  | Ret a => inr (Ok a, s)
  | Raise e => inr (Err e, s)
  | ReadN n k =>
      match attempt s n with
      | (Got c, s') => resume (k c) s'
      | (Under, s') => inl (ReadN n k, s')
      | (EOS, s') => inr (Err EEndOfStream, s')
      end
  | Tell k => resume (k (pos s)) s
  | SeekBack d k => resume k (setpos s (pos s - d))
  | Mark k => resume k (setmark s (pos s))
  | GetMark k => resume (k (mark s)) s
  | AtEOS k =>
      (* non-BytesIO branch: read(1): None -> suspend; b'' -> True; else seek back, False *)
      if Nat.eqb (length (avail s)) 0 then
        (if closed s then resume (k true) s else inl (AtEOS k, s))
      else resume (k false) s
  | ReadAll k =>
      if Nat.eqb (length (avail s)) 0 then
        (if closed s then inr (Err EEndOfStream, s) else inl (ReadAll k, s))
      else resume (k (avail s)) (setpos s (length (arrived s)))
  end.

(* the whole input present and the stream closed: what one-shot decoding sees *)
Definition run_complete {A} (p: proc A) (b: bytes) : (proc A * stream) + (res A * stream) :=
  resume p (mkStream b 0 true 0).

(* environment events between two resumptions of a suspended decoder *)
Inductive envev := Arrive (b: bytes) | Close | Poll.
Definition apply_ev (e: envev) (s: stream) : stream :=
  match e with
  | Arrive b => mkStream (arrived s ++ b) (pos s) (closed s) (mark s)
  | Close => mkStream (arrived s) (pos s) true (mark s)
  | Poll => s
  end.

Inductive out (A: Type) := OUnder | ODone (r: res A) (p: nat).
Arguments OUnder {A}. Arguments ODone {A}.

Fixpoint drive {A} (sched: list envev) (p: proc A) (s: stream) : list (out A) :=
  match resume p s with
  | inr (r, s') => [ODone r (pos s')]
  | inl (p', s') =>
      OUnder :: match sched with
                | [] => []
                | e :: rest => drive rest p' (apply_ev e s')
                end
  end.

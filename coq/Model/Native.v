(* pyasn1/codec/native/encoder.py, pyasn1/codec/native/decoder.py and the `asn1Spec is not None`
   (bare Python value + schema) branches of pyasn1/codec/{ber,cer,der}/encoder.py.
   The code modelled is the code as repaired by fixes F15 F16 F28n F41 F42 F43 (fixes/*.diff).
   Definitions only. *)
From PV Require Export Model.Types Model.Enc.
Local Open Scope N_scope.

(* ---------- trees of Python built-ins ---------- *)

(* a Python float is opaque except for the three values the REAL conversions treat exactly *)
Inductive pyfloat := FPInf | FNInf | FZero | FOpaque.

Inductive pyval :=
| PBool (b: bool)
| PInt (z: Z)
| PStr (s: list N)                  (* str, as its code points (only ASCII text is ever produced) *)
| PBytes (b: bytes)
| PFloat (f: pyfloat)
| PNone
| PList (l: list pyval)
| PDict (kvs: list (nat * pyval)).  (* (Ordered)dict in insertion order; key i = component name "f<i>",
                                       the i-th declared name of the SEQUENCE/SET/CHOICE it stands for *)

Definition pyfloat_eqb (a b: pyfloat) : bool :=
  match a, b with
  | FPInf, FPInf | FNInf, FNInf | FZero, FZero | FOpaque, FOpaque => true
  | _, _ => false end.

Fixpoint pyval_eqb (a b: pyval) {struct a} : bool :=
  match a, b with
  | PBool x, PBool y => Bool.eqb x y
  | PInt x, PInt y => Z.eqb x y
  | PStr x, PStr y | PBytes x, PBytes y => list_eqb N.eqb x y
  | PFloat x, PFloat y => pyfloat_eqb x y
  | PNone, PNone => true
  | PList x, PList y => list_eqb pyval_eqb x y
  | PDict x, PDict y =>
      (fix go (x y: list (nat * pyval)) : bool :=
         match x, y with
         | [], [] => true
         | (i, p) :: x', (j, q) :: y' => Nat.eqb i j && pyval_eqb p q && go x' y'
         | _, _ => false end) x y
  | _, _ => false
  end.

Fixpoint lookup_py (i: nat) (kvs: list (nat * pyval)) : option pyval :=
  match kvs with
  | [] => None
  | (k, p) :: r => if Nat.eqb k i then Some p else lookup_py i r
  end.

(* ---------- text forms ---------- *)

(* BitString.__str__ = asBinary(): one '0'/'1' per bit; no bits -> '' (F15 repaired) *)
Definition bit_char (b: bool) : N := if b then 49 else 48.
Definition bits_text (bs: list bool) : list N := map bit_char bs.

(* BitString.fromBinaryString / prettyIn of a plain binary string.  Text with any other character
   (named bits, 0x.., 'xx'B, and what int(s, 2) tolerates) is not modelled. *)
Fixpoint parse_bits (s: list N) : res (list bool) :=
  match s with
  | [] => Ok []
  | c :: r => do bs <- parse_bits r;
              if N.eqb c 48 then Ok (false :: bs)
              else if N.eqb c 49 then Ok (true :: bs)
              else Err EUnmodelled
  end.

(* ObjectIdentifier.prettyOut: '.'.join(str(arc)) *)
Fixpoint join_dot (parts: list (list N)) : list N :=
  match parts with
  | [] => []
  | [p] => p
  | p :: r => p ++ 46 :: join_dot r
  end.
Definition oid_text (arcs: list N) : list N := join_dot (map dec_N arcs).

(* value.split('.'): the first field and the fields after each dot *)
Fixpoint split_dot (s: list N) : list N * list (list N) :=
  match s with
  | [] => ([], [])
  | c :: r => let '(p, ps) := split_dot r in
              if N.eqb c 46 then ([], p :: ps) else (c :: p, ps)
  end.

Definition is_digit (c: N) : bool := N.leb 48 c && N.leb c 57.
Definition parse_dec (ds: list N) : N := fold_left (fun a d => 10 * a + (d - 48)) ds 0.

(* ObjectIdentifier.prettyIn of text: [int(x) for x in value.split('.') if x]; anything but
   digits and dots ('-' is refused by the library, blanks/underscores/signs are what int()
   tolerates) is not modelled *)
Definition parse_oid (s: list N) : res (list N) :=
  if forallb (fun c => is_digit c || N.eqb c 46) s then
    let '(p, ps) := split_dot s in
    Ok (map parse_dec (filter (fun f => match f with [] => false | _ => true end) (p :: ps)))
  else Err EUnmodelled.

(* Real.__float__: exact only for the infinities and zero; everything else is floating point *)
Definition float_of_real (r: real) : res pyfloat :=
  match r with
  | RPInf => Ok FPInf
  | RNInf => Ok FNInf
  | RBin m _ | RDec m _ => if Z.eqb m 0 then Ok FZero else Err EUnmodelled
  | RFloat => Err EUnmodelled
  end.

(* Real.prettyIn of a float: the infinities are kept, 0.0 becomes (0, 10, 0) *)
Definition real_of_float (f: pyfloat) : res real :=
  match f with
  | FPInf => Ok RPInf
  | FNInf => Ok RNInf
  | FZero => Ok (RDec 0 0)
  | FOpaque => Err EUnmodelled
  end.

(* ---------- native/encoder.py: value object -> built-ins ---------- *)

(* TYPE_MAP is keyed by typeId, so tags play no part; character and useful string types map to
   OctetStringEncoder (asOctets(): bytes), TextStringEncoder is reachable through TAG_MAP only.
   SEQUENCE/SET: one key per component that is a value - an OPTIONAL component never assigned is
   left out without being instantiated (F28n repaired), an unassigned DEFAULT component comes out
   as its default.  A value that does not fit the type is outside the model. *)
Fixpoint to_native (T: ty) (v: val) {struct T} : res pyval :=
  match T with
  | TImp _ x | TExp _ x => to_native x v
  | TBool => match v with VBool b => Ok (PBool b) | _ => Err EUnmodelled end
  | TInt | TEnum => match v with VInt z => Ok (PInt z) | _ => Err EUnmodelled end
  | TBits => match v with VBits bs => Ok (PStr (bits_text bs)) | _ => Err EUnmodelled end
  | TOcts => match v with VOcts b => Ok (PBytes b) | _ => Err EUnmodelled end
  | TStr _ => match v with
              | VOcts b => Ok (PBytes b)
              | VChars cs => Ok (PBytes (concat cs))
              | _ => Err EUnmodelled end
  | TNull => match v with VNull => Ok PNone | _ => Err EUnmodelled end
  | TOid => match v with VOid a => Ok (PStr (oid_text a)) | _ => Err EUnmodelled end
  | TReal => match v with VReal r => do f <- float_of_real r; Ok (PFloat f) | _ => Err EUnmodelled end
  | TAny => match v with VAny b | VOcts b => Ok (PBytes b) | _ => Err EUnmodelled end
  | TSeqOf t | TSetOf t =>
      match v with
      | VList xs =>
          do ps <- (fix go (xs: list val) : res (list pyval) :=
                      match xs with
                      | [] => Ok []
                      | x :: r => do p <- to_native t x; do ps <- go r; Ok (p :: ps)
                      end) xs;
          Ok (PList ps)
      | _ => Err EUnmodelled
      end
  | TChoice alts =>
      match v with
      | VChoice i x =>
          (fix go (alts: list ty) (k: nat) : res pyval :=
             match alts, k with
             | a :: _, O => do p <- to_native a x; Ok (PDict [(i, p)])
             | _ :: r, S k' => go r k'
             | [], _ => Err EUnmodelled
             end) alts i
      | _ => Err EUnmodelled
      end
  | TSeq fs | TSet fs =>
      match v with
      | VRec vs =>
          do kvs <- (fix go (i: nat) (fs: list (presence * ty)) (vs: list (option val)) : res (list (nat * pyval)) :=
                       match fs with
                       | [] => Ok []
                       | (p, ft) :: fs' =>
                           let ov := match vs with x :: _ => x | [] => None end in
                           let vs' := match vs with _ :: r => r | [] => [] end in
                           match ov, p with
                           | Some x, _ => do q <- to_native ft x; do rest <- go (S i) fs' vs'; Ok ((i, q) :: rest)
                           | None, Opt => go (S i) fs' vs'
                           | None, Def d => do q <- to_native ft d; do rest <- go (S i) fs' vs'; Ok ((i, q) :: rest)
                           | None, Req => Err EUnmodelled     (* not a value object *)
                           end
                       end) O fs vs;
          Ok (PDict kvs)
      | _ => Err EUnmodelled
      end
  end.

(* ---------- built-ins + schema -> value ---------- *)

(* asn1Spec.clone(pyObject) for the scalar types, on the Python types the native encoder produces
   (any other Python type: not modelled).  Octets given for a character string type are taken
   to be valid under the type's codec (text codecs are in the trusted base). *)
Definition scalar_of_py (T: ty) (p: pyval) : res val :=
  match T, p with
  | TBool, PBool b => Ok (VBool b)
  | (TInt | TEnum), PInt z => Ok (VInt z)
  | TBits, PStr s => do bs <- parse_bits s; Ok (VBits bs)
  | (TOcts | TStr _), PBytes b => Ok (VOcts b)
  | TNull, PNone => Ok VNull
  | TOid, PStr s => do a <- parse_oid s; Ok (VOid a)
  | TReal, PFloat f => do r <- real_of_float f; Ok (VReal r)
  | TAny, PBytes b => Ok (VAny b)
  | _, _ => Err EUnmodelled
  end.

(* One walk serves both consumers of a (schema, built-ins) pair:
   strict = false: native/decoder.py.  SEQUENCE/SET: `for field in asn1Value: if field in
     pyObject` (missing keys are skipped whatever the component's presence, other keys ignored;
     the container is a value even when nothing was assigned - F41 repaired); SEQUENCE OF: one
     element per list item ([] is an empty value - F41); CHOICE: the first key, in the
     mapping's own order, that names an alternative.
   strict = true: what the bare-value branches of the BER/CER/DER encoders read.  SEQUENCE/SET:
     an OPTIONAL name that is absent is skipped before the lookup (F16 repaired), any other
     absent name is `Component name not found` (PyAsn1Error); CHOICE: exactly one alternative
     name must be present (`names = [...]; len(names) != 1` -> PyAsn1Error). *)
Fixpoint from_py (strict: bool) (T: ty) (p: pyval) {struct T} : res val :=
  match T with
  | TImp _ x | TExp _ x => from_py strict x p
  | TBool | TInt | TEnum | TBits | TOcts | TStr _ | TNull | TOid | TReal | TAny => scalar_of_py T p
  | TSeqOf t | TSetOf t =>
      match p with
      | PList ps =>
          do xs <- (fix go (ps: list pyval) : res (list val) :=
                      match ps with
                      | [] => Ok []
                      | q :: r => do x <- from_py strict t q; do xs <- go r; Ok (x :: xs)
                      end) ps;
          Ok (VList xs)
      | _ => Err EUnmodelled
      end
  | TSeq fs | TSet fs =>
      match p with
      | PDict kvs =>
          do vs <- (fix go (i: nat) (fs: list (presence * ty)) : res (list (option val)) :=
                      match fs with
                      | [] => Ok []
                      | (pr, ft) :: fs' =>
                          match lookup_py i kvs with
                          | Some q => do x <- from_py strict ft q; do r <- go (S i) fs'; Ok (Some x :: r)
                          | None =>
                              match pr, strict with
                              | Opt, _ | _, false => do r <- go (S i) fs'; Ok (None :: r)
                              | _, true => Err EMalformed
                              end
                          end
                      end) O fs;
          Ok (VRec vs)
      | _ => Err EUnmodelled
      end
  | TChoice alts =>
      match p with
      | PDict kvs =>
          if strict then
            (* (index, converted component) of every alternative whose name is a key *)
            match (fix go (i: nat) (alts: list ty) : list (nat * res val) :=
                     match alts with
                     | [] => []
                     | a :: r => match lookup_py i kvs with
                                 | Some q => (i, from_py strict a q) :: go (S i) r
                                 | None => go (S i) r
                                 end
                     end) O alts with
            | [(k, r)] => do x <- r; Ok (VChoice k x)
            | _ => Err EMalformed
            end
          else
            (fix find (kvs: list (nat * pyval)) : res val :=
               match kvs with
               | [] => Err EUnmodelled        (* nothing chosen: a valueless CHOICE comes back *)
               | (k, q) :: rest =>
                   match (fix go (alts: list ty) (j: nat) : option (res val) :=
                            match alts, j with
                            | a :: _, O => Some (from_py strict a q)
                            | _ :: r, S j' => go r j'
                            | [], _ => None
                            end) alts k with
                   | Some r => do x <- r; Ok (VChoice k x)
                   | None => find rest
                   end
               end) kvs
      | _ => Err EUnmodelled
      end
  end.

(* pyasn1.codec.native.decoder.decode(pyObject, asn1Spec=T) *)
Definition of_native (T: ty) (p: pyval) : res val := from_py false T p.

(* {ber,cer,der}.encoder.encode(pyObject, asn1Spec=T, defMode=, maxChunkSize=).
   Every scalar is read with asn1Spec.clone(value) (octets are taken as they are); the DEFAULT test
   compares after that conversion (F42 repaired); string fragments are cut as for a value object
   (F43 repaired); dispatch, tags, SET ordering and the OPTIONAL/ifNotEmpty handling go by the
   schema exactly as they go by the value object's own type in the `asn1Spec is None` branch.
   Hence: read the tree as the encoder reads it, then the value-object encoder of Model/Enc.v. *)
Definition encode_py (c: codec) (defm: bool) (chunk: N) (T: ty) (p: pyval) : res bytes :=
  do v <- from_py true T p; encode c defm chunk T v.

(* the Python tree equivalent to a value object: what the native encoder makes of it *)
Definition pyval_of (T: ty) (v: val) : res pyval := to_native T v.

(* ---------- domains of the theorems (computable) ---------- *)

(* REAL goes through a Python float: only +-inf and zero are exact *)
Definition real_exact (r: real) : bool :=
  match r with
  | RPInf | RNInf => true
  | RBin m _ | RDec m _ => Z.eqb m 0
  | RFloat => false
  end.

(* v is a value object of type T (every mandatory component assigned), REALs exact *)
Fixpoint wf_native (T: ty) (v: val) {struct T} : bool :=
  match T with
  | TImp _ x | TExp _ x => wf_native x v
  | TBool => match v with VBool _ => true | _ => false end
  | TInt | TEnum => match v with VInt _ => true | _ => false end
  | TBits => match v with VBits _ => true | _ => false end
  | TOcts => match v with VOcts _ => true | _ => false end
  | TStr _ => match v with VOcts _ | VChars _ => true | _ => false end
  | TNull => match v with VNull => true | _ => false end
  | TOid => match v with VOid _ => true | _ => false end
  | TReal => match v with VReal r => real_exact r | _ => false end
  | TAny => match v with VAny _ | VOcts _ => true | _ => false end
  | TSeqOf t | TSetOf t => match v with VList xs => forallb (wf_native t) xs | _ => false end
  | TChoice alts =>
      match v with
      | VChoice i x =>
          (fix go (alts: list ty) (k: nat) : bool :=
             match alts, k with
             | a :: _, O => wf_native a x
             | _ :: r, S k' => go r k'
             | [], _ => false
             end) alts i
      | _ => false
      end
  | TSeq fs | TSet fs =>
      match v with
      | VRec vs =>
          (fix go (fs: list (presence * ty)) (vs: list (option val)) : bool :=
             match fs with
             | [] => true
             | (p, ft) :: fs' =>
                 let ov := match vs with x :: _ => x | [] => None end in
                 let vs' := match vs with _ :: r => r | [] => [] end in
                 (match ov, p with
                  | Some x, _ => wf_native ft x
                  | None, Opt => true
                  | None, Def d => wf_native ft d
                  | None, Req => false
                  end) && go fs' vs'
             end) fs vs
      | _ => false
      end
  end.

(* scalar types whose DEFAULT test the value-object encoder decides (Enc.val_py_eq) *)
Definition scalar_default_ty (T: ty) : bool :=
  match base_of T with
  | TBool | TInt | TEnum | TBits | TOcts | TStr _ | TNull | TOid => true
  | _ => false
  end.

(* the type: no ANY (quantifier of the bare-value path), DEFAULT only on the scalar types above,
   with a default that is a value of the component type *)
Fixpoint ok17_ty (T: ty) : bool :=
  match T with
  | TImp _ x | TExp _ x => ok17_ty x
  | TAny => false
  | TSeqOf t | TSetOf t => ok17_ty t
  | TChoice alts => forallb ok17_ty alts
  | TSeq fs | TSet fs =>
      forallb (fun f => ok17_ty (snd f)
                        && match fst f with
                           | Def d => scalar_default_ty (snd f) && wf_native (snd f) d
                           | _ => true end) fs
  | _ => true
  end.

Definition ok17 (T: ty) (v: val) : bool := ok17_ty T && wf_native T v.

(* ---------- what the correspondence harness compares ---------- *)

Definition nres_code {A} (eqb: A -> A -> bool) (model impl: res A) : N :=
  match model, impl with
  | Err EUnmodelled, _ => 2
  | Ok a, Ok b => if eqb a b then 0 else 1
  | Err e, Err e' => if err_eqb e e' then 0 else 1
  | _, _ => 1
  end.

Definition py_code (model impl: res pyval) : N := nres_code pyval_eqb model impl.
Definition nbytes_code (model impl: res bytes) : N := nres_code bytes_eqb model impl.

Fixpoint aval_has_bad (a: aval) : bool :=
  match a with
  | ABad => true
  | ARec fs => existsb (fun o => match o with Some x => aval_has_bad x | None => false end) fs
  | AList xs | ABag xs => existsb aval_has_bad xs
  | AChoice _ x => aval_has_bad x
  | _ => false
  end.
Definition aval_norm (a: aval) : aval := if aval_has_bad a then ABad else a.

(* the object the native decoder returned, as its abstract content against T *)
Definition natdec_code (T: ty) (model: res val) (impl: res aval) : N :=
  match model, impl with
  | Err EUnmodelled, _ => 2
  | Ok v, Ok a => if aval_eqb (aval_norm (abs T v)) (aval_norm a) then 0 else 1
  | Err e, Err e' => if err_eqb e e' then 0 else 1
  | _, _ => 1
  end.

(* several comparisons on one input: disagreement wins over declining *)
Definition codes_max (l: list N) : N :=
  if existsb (N.eqb 1) l then 1 else if existsb (fun c => negb (N.eqb c 0)) l then 2 else 0.

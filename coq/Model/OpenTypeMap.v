(* Type maps as live objects.  OpenType(name, typeMap) does not copy the caller's dict: it is "stored
   by reference and can be mutated later to register new mappings" (pyasn1/type/opentype.py), so the
   map the decoder's second pass consults is the caller's dict as it is AT DECODE TIME - whatever it
   held (nothing, typically) when the type was defined, and however many OpenType objects were made
   over it.  Definitions only. *)
From PV Require Export Model.OpenTypeDef.
Local Open Scope N_scope.

(* what the caller does to the dict after handing it over *)
Inductive mop :=
| MSet (g: val) (t: ty)       (* typeMap[g] = t : registers, or replaces *)
| MDel (g: val).              (* del typeMap[g] / typeMap.pop(g, None) *)

Fixpoint omap_remove (g: val) (m: omap) : omap :=
  match m with
  | [] => []
  | (k, t) :: r => if gov_eqb g k then omap_remove g r else (k, t) :: omap_remove g r
  end.

Definition map_step (m: omap) (o: mop) : omap :=
  match o with
  | MSet g t => (g, t) :: omap_remove g m
  | MDel g => omap_remove g m
  end.

(* the dict after the history *)
Definition map_now (m0: omap) (ops: list mop) : omap := fold_left map_step ops m0.

(* the content of an OpenType object made over the dict when [before] of the history had happened and
   looked at after the rest: the very same dict, so the moment of construction does not matter *)
Definition view_of (m0: omap) (before after: list mop) : omap := map_now (map_now m0 before) after.

(* decode(bytes, asn1Spec=T, decodeOpenTypes=dot, openTypes=override) with a record type defined over a
   dict holding m0, after the history ops *)
Definition dec_open_live (c: codec) (T: ty) (gi oi: nat) (m0: omap) (ops: list mop) (override: omap)
           (dot: bool) (b: bytes) : res (dval * bytes) :=
  dec_open_d c T gi oi (map_now m0 ops) override dot b.

(* pyasn1/type/constraint.py as it is coded (with fixes/F14.diff applied), the part of
   pyasn1/type/base.py that derives and compares constrained types (subtype / clone /
   isSuperTypeOf), and the value-producing operations of the scalar types in univ.py / char.py
   (every one of them ends in [self.clone(...)] i.e. in the constructor).
   Definitions only; proofs are in Proofs/Constraint*.v. *)
From PV Require Export Base.Bytes Model.Tag.
Local Open Scope Z_scope.

(* ---------------------------------------------------------------------------------------- *)
(* Values as a constraint sees them                                                          *)

(* The payload a scalar type hands to [subtypeSpec(value)] after prettyIn(), which is also how an
   ASN.1 scalar object found as a component of a SEQUENCE behaves under ==, <, len(), iter()
   and hash() (SimpleAsn1Type forwards all of these to its payload).
   Not modelled as a component: BIT STRING objects (their __lt__ compares lengths first);
   [SOid] is always the raw tuple (an OBJECT IDENTIFIER object is not a tuple for [%]). *)
Inductive sval :=
| SInt (z: Z)                 (* int: INTEGER, BOOLEAN, ENUMERATED *)
| SBytes (b: list N)          (* bytes: OCTET STRING, NULL *)
| SText (s: list N)           (* str as code points: character strings; also field names *)
| SOid (arcs: list N)         (* tuple of int: OBJECT IDENTIFIER *)
| SBits (len: N) (z: Z).      (* SizedInteger: an int carrying a bit length; BIT STRING *)

Inductive cval :=
| VS (s: sval)
| VNone                               (* Python None: what dict.get() gives for an absent component *)
| VMap (m: list (sval * sval)).       (* the bare dict built by isInconsistent: position -> element
                                         (SEQUENCE OF / SET OF) or name -> component (SEQUENCE / SET);
                                         absent components are not in the mapping *)

(* Python == together with hash(), i.e. the test behind [value in some_set].  SizedInteger is an
   int subclass that keeps int's __eq__ and __hash__, so the bit length does not take part. *)
Definition nlist_eqb : list N -> list N -> bool := list_eqb N.eqb.
Definition sval_eqb (a b: sval) : bool :=
  match a, b with
  | SInt x, SInt y | SInt x, SBits _ y | SBits _ x, SInt y | SBits _ x, SBits _ y => Z.eqb x y
  | SBytes x, SBytes y | SText x, SText y | SOid x, SOid y => nlist_eqb x y
  | _, _ => false
  end.
Definition sval_mem (s: sval) (vs: list sval) : bool := existsb (sval_eqb s) vs.

(* identity of observable payloads (used to compare outcomes, never by the modelled code) *)
Definition sval_same (a b: sval) : bool :=
  match a, b with
  | SInt x, SInt y => Z.eqb x y
  | SBytes x, SBytes y | SText x, SText y | SOid x, SOid y => nlist_eqb x y
  | SBits n x, SBits m y => N.eqb n m && Z.eqb x y
  | _, _ => false
  end.

Definition map_get (m: list (sval * sval)) (k: sval) : cval :=
  match find (fun kv => sval_eqb k (fst kv)) m with Some kv => VS (snd kv) | None => VNone end.

(* ---------------------------------------------------------------------------------------- *)
(* The public constraint classes                                                             *)

Inductive constr :=
| CSingle (vs: list sval)                      (* SingleValueConstraint( *values) *)
| CContained (pre: list constr) (plain: list sval) (post: list constr)
      (* ContainedSubtypeConstraint( *pre, *plain, *post): [pre] are the constraint operands that
         come before the first operand that is not a constraint object, [plain] all the operands
         that are not constraint objects, [post] the remaining constraint operands *)
| CRange (lo hi: Z)                            (* ValueRangeConstraint(lo, hi), lo <= hi *)
| CSize (lo hi: Z)                             (* ValueSizeConstraint(lo, hi), lo <= hi *)
| CAlpha (vs: list sval)                       (* PermittedAlphabetConstraint( *values) *)
| CPresent                                     (* ComponentPresentConstraint() *)
| CAbsent                                      (* ComponentAbsentConstraint() *)
| CWith (fields: list (sval * constr))         (* WithComponentsConstraint( *(field, constraint)) *)
| CInner (args: list (option (sval * sval) * constr))
      (* InnerTypeConstraint( *args): (None, c) is a bare constraint (single-type mode),
         (Some (idx, status), c) the tuple (idx, c, status) (multiple-type mode) *)
| CAnd (cs: list constr)                       (* ConstraintsIntersection( *cs) *)
| COr (cs: list constr)                        (* ConstraintsUnion( *cs) *)
| CExcl (cs: list constr).                     (* ConstraintsExclusion( *cs) *)

(* bool(constraint) = bool(self._values) *)
Definition nonnil {A} (l: list A) : bool := match l with [] => false | _ => true end.
Definition truthy (c: constr) : bool :=
  match c with
  | CSingle vs | CAlpha vs => nonnil vs
  | CContained pre plain post => nonnil pre || nonnil plain || nonnil post
  | CRange _ _ | CSize _ _ | CPresent | CAbsent => true
  | CWith fields => nonnil fields
  | CInner args => nonnil args
  | CAnd cs | COr cs | CExcl cs => nonnil cs
  end.

(* outcome of [constraint(value, idx)]: returned / ValueConstraintError / a built-in exception *)
Inductive verdict := Pass | Fail | Crash (k: crash).

Definition verdict_eqb (a b: verdict) : bool :=
  match a, b with
  | Pass, Pass | Fail, Fail => true
  | Crash x, Crash y => crash_eqb x y
  | _, _ => false
  end.

(* [value in self._set]: a dict is unhashable, None is hashable and equal to nothing *)
Definition in_set (x: cval) (vs: list sval) : verdict :=
  match x with
  | VS s => if sval_mem s vs then Pass else Fail
  | VNone => Fail
  | VMap _ => Crash TypeError
  end.

(* [value < start or value > stop]: only int-like payloads are ordered against an int *)
Definition as_int (x: cval) : option Z :=
  match x with VS (SInt z) | VS (SBits _ z) => Some z | _ => None end.
Definition range_test (lo hi: Z) (x: cval) : verdict :=
  match as_int x with
  | Some z => if (z <? lo) || (z >? hi) then Fail else Pass
  | None => Crash TypeError
  end.

(* len(value) *)
Definition size_of (x: cval) : option Z :=
  match x with
  | VS (SBytes l) | VS (SText l) | VS (SOid l) => Some (Z.of_nat (length l))
  | VS (SBits n _) => Some (Z.of_N n)
  | VMap m => Some (Z.of_nat (length m))
  | VS (SInt _) | VNone => None
  end.
Definition size_test (lo hi: Z) (x: cval) : verdict :=
  match size_of x with
  | Some n => if (n <? lo) || (n >? hi) then Fail else Pass
  | None => Crash TypeError
  end.

(* what [self._set.issuperset(value)] iterates over *)
Definition elements (x: cval) : option (list sval) :=
  match x with
  | VS (SBytes b) => Some (map (fun o => SInt (Z.of_N o)) b)
  | VS (SText s) => Some (map (fun ch => SText [ch]) s)
  | VS (SOid a) => Some (map (fun o => SInt (Z.of_N o)) a)
  | VMap m => Some (map fst m)
  | VS (SInt _) | VS (SBits _ _) | VNone => None
  end.
Definition alpha_test (vs: list sval) (x: cval) : verdict :=
  match elements x with
  | Some es => if forallb (fun e => sval_mem e vs) es then Pass else Fail
  | None => Crash TypeError
  end.

Definition ABSENT : sval := SText [65%N; 66%N; 83%N; 69%N; 78%N; 84%N].

(* AbstractConstraint.__call__ followed by the class's _testValue *)
Fixpoint ceval (c: constr) (idx: option sval) (x: cval) {struct c} : verdict :=
  if negb (truthy c) then Pass else
  match c with
  | CSingle vs => in_set x vs
  | CContained pre plain post =>
      (* for constraint in self._values: constraints are called; the first operand that is not
         a constraint evaluates [value not in self._set], and _set is never initialised *)
      (fix all (l: list constr) : verdict :=
         match l with
         | [] => match plain with [] => Pass | _ :: _ => Crash AttributeError end
         | c' :: r => match ceval c' idx x with Pass => all r | v => v end
         end) pre
  | CRange lo hi => range_test lo hi x
  | CSize lo hi => size_test lo hi x
  | CAlpha vs => alpha_test vs x
  | CPresent => match x with VNone => Fail | _ => Pass end
  | CAbsent =>
      match x with
      | VNone => Pass
      | VS (SOid a) =>
          (* the error message is built with ['...%r' % value]: a raw tuple is taken as the
             argument list, which only fits when it has exactly one element *)
          if Nat.eqb (length a) 1 then Fail else Crash TypeError
      | _ => Fail
      end
  | CWith fields =>
      match x with
      | VMap m =>
          (fix all (l: list (sval * constr)) : verdict :=
             match l with
             | [] => Pass
             | (f, c') :: r => match ceval c' None (map_get m f) with Pass => all r | v => v end
             end) fields
      | _ => Crash AttributeError            (* value.get *)
      end
  | CInner args =>
      (* _setValues: the last bare constraint wins; tuples fill a dict (later keys overwrite) *)
      let single :=
        (fix go (l: list (option (sval * sval) * constr)) (acc: option (bool * verdict)) :=
           match l with
           | [] => acc
           | (None, c') :: r => go r (Some (truthy c', ceval c' None x))
           | (Some _, _) :: r => go r acc
           end) args None in
      let multi_nonempty :=
        existsb (fun a => match fst a with Some _ => true | None => false end) args in
      let lookup (i: sval) :=
        (fix go (l: list (option (sval * sval) * constr)) (acc: option verdict) :=
           match l with
           | [] => acc
           | (Some (k, st), c') :: r =>
               go r (if sval_eqb i k
                     then Some (if sval_eqb st ABSENT then Fail else ceval c' None x)
                     else acc)
           | (None, _) :: r => go r acc
           end) args None in
      match single with
      | Some (true, v) => v
      | _ =>
          if multi_nonempty then
            match idx with
            | None => Fail
            | Some i => match lookup i with Some v => v | None => Fail end
            end
          else Pass
      end
  | CAnd cs =>
      (fix all (l: list constr) : verdict :=
         match l with
         | [] => Pass
         | c' :: r => match ceval c' idx x with Pass => all r | v => v end
         end) cs
  | COr cs =>
      (fix any (l: list constr) : verdict :=
         match l with
         | [] => Fail
         | c' :: r => match ceval c' idx x with Pass => Pass | Fail => any r | Crash k => Crash k end
         end) cs
  | CExcl cs =>
      (* rejects as soon as one operand accepts *)
      (fix none (l: list constr) : verdict :=
         match l with
         | [] => Pass
         | c' :: r => match ceval c' idx x with Pass => Fail | Fail => none r | Crash k => Crash k end
         end) cs
  end.

(* ---------------------------------------------------------------------------------------- *)
(* Subtype bookkeeping: __eq__ / __hash__ on _values, _valueMap, isSuperTypeOf                *)

(* a Python value occurring in some _values: a raw value or a tuple *)
Inductive shape := ShV (s: sval) | ShT (l: list shape).

Fixpoint shape_eqb (a b: shape) {struct a} : bool :=
  match a, b with
  | ShV x, ShV y => sval_eqb x y
  | ShT l, ShT m =>
      (fix go (l m: list shape) : bool :=
         match l, m with
         | [], [] => true
         | x :: l', y :: m' => shape_eqb x y && go l' m'
         | _, _ => false
         end) l m
  | _, _ => false
  end.

Definition shape_of_sval (s: sval) : shape :=
  match s with
  | SOid a => ShT (map (fun n => ShV (SInt (Z.of_N n))) a)
  | SBits _ z => ShV (SInt z)
  | _ => ShV s
  end.

Definition txt_present : sval :=   (* '<must be present>' *)
  SText [60;109;117;115;116;32;98;101;32;112;114;101;115;101;110;116;62]%N.
Definition txt_absent : sval :=    (* '<must be absent>' *)
  SText [60;109;117;115;116;32;98;101;32;97;98;115;101;110;116;62]%N.

(* self._values.  AbstractConstraint.__eq__ compares _values only, so a constraint nested in
   another one's _values compares like the tuple of its own _values: the class is ignored. *)
Fixpoint cvalues (c: constr) : list shape :=
  match c with
  | CSingle vs | CAlpha vs => map shape_of_sval vs
  | CContained pre plain post =>
      map (fun c' => ShT (cvalues c')) pre ++ map shape_of_sval plain
        ++ map (fun c' => ShT (cvalues c')) post
  | CRange lo hi | CSize lo hi => [ShV (SInt lo); ShV (SInt hi)]
  | CPresent => [ShV txt_present]
  | CAbsent => [ShV txt_absent]
  | CWith fields => map (fun fc => ShT [shape_of_sval (fst fc); ShT (cvalues (snd fc))]) fields
  | CInner args =>
      map (fun a => match fst a with
                    | None => ShT (cvalues (snd a))
                    | Some (k, st) => ShT [shape_of_sval k; ShT (cvalues (snd a)); shape_of_sval st]
                    end) args
  | CAnd cs | COr cs | CExcl cs => map (fun c' => ShT (cvalues c')) cs
  end.
Definition cshape (c: constr) : shape := ShT (cvalues c).

(* constraint == constraint *)
Definition constr_py_eq (a b: constr) : bool := shape_eqb (cshape a) (cshape b).

Definition class_id (c: constr) : Z :=
  match c with
  | CSingle _ => 1 | CContained _ _ _ => 2 | CRange _ _ => 3 | CSize _ _ => 4 | CAlpha _ => 5
  | CPresent => 6 | CAbsent => 7 | CWith _ => 8 | CInner _ => 9 | CAnd _ => 10 | COr _ => 11
  | CExcl _ => 12
  end.

(* what __hash__ hashes: (class name, _values), nested constraints contributing their own hash.
   Membership in a _valueMap needs equal hashes and ==; hashing is modelled as injective on
   this data (64-bit collisions are outside the model), and equal hash data implies ==. *)
Fixpoint hkey (c: constr) : shape :=
  ShT [ShV (SInt (class_id c));
       ShT (match c with
            | CSingle vs | CAlpha vs => map shape_of_sval vs
            | CContained pre plain post => map hkey pre ++ map shape_of_sval plain ++ map hkey post
            | CRange lo hi | CSize lo hi => [ShV (SInt lo); ShV (SInt hi)]
            | CPresent => [ShV txt_present]
            | CAbsent => [ShV txt_absent]
            | CWith fields => map (fun fc => ShT [shape_of_sval (fst fc); hkey (snd fc)]) fields
            | CInner args =>
                map (fun a => match fst a with
                              | None => hkey (snd a)
                              | Some (k, st) => ShT [shape_of_sval k; hkey (snd a); shape_of_sval st]
                              end) args
            | CAnd cs | COr cs | CExcl cs => map hkey cs
            end)].
Definition in_vmap (c: constr) (vm: list constr) : bool :=
  existsb (fun e => shape_eqb (hkey c) (hkey e)) vm.

(* AbstractConstraintSet._setValues: the _valueMap of a constraint built by its constructor
   (ConstraintsExclusion is not an AbstractConstraintSet and records nothing) *)
Fixpoint vmap_struct (c: constr) : list constr :=
  match c with
  | CAnd cs | COr cs =>
      (fix go (l: list constr) : list constr :=
         match l with
         | [] => []
         | o :: r => (if truthy o then o :: vmap_struct o else []) ++ go r
         end) cs
  | _ => []
  end.

(* A type's subtypeSpec: ConstraintsIntersection( *sp_ops), plus the _valueMap entries that do not
   follow from the operands but were recorded when the object was derived with [+]
   (operands are taken to be built by their constructors). *)
Record cspec := mkSpec { sp_ops: list constr; sp_hist: list constr }.
Definition sp_constr (s: cspec) : constr := CAnd (sp_ops s).
Definition sp_vmap (s: cspec) : list constr := vmap_struct (sp_constr s) ++ sp_hist s.
Definition spec_of (ops: list constr) : cspec := mkSpec ops [].

(* ConstraintsIntersection.__add__ as repaired by fixes/F14.diff: the sum is the flattened
   intersection, and it records the constraint it extends together with that one's _valueMap *)
Definition sp_add (s: cspec) (new: constr) : cspec :=
  mkSpec (sp_ops s ++ [new])
         (if truthy (sp_constr s) then sp_constr s :: sp_vmap s else []).
(* the same before the repair: nothing is recorded (finding F14) *)
Definition sp_add_unrepaired (s: cspec) (new: constr) : cspec :=
  mkSpec (sp_ops s ++ [new]) [].

(* AbstractConstraint.isSuperTypeOf(self, other):
   other is self or not self._values or other == self or self in other.getValueMap() *)
Definition spec_is_super (self other: cspec) : bool :=
  constr_py_eq (sp_constr other) (sp_constr self)
  || negb (truthy (sp_constr self))
  || in_vmap (sp_constr self) (sp_vmap other).

(* ---------------------------------------------------------------------------------------- *)
(* Scalar types: tag set + subtypeSpec; subtype(), clone(), the constructor                  *)

Record stype := mkSType { st_tags: tagset; st_spec: cspec }.

(* Asn1Type.isSuperTypeOf(self, other, matchTags, matchConstraints) *)
Definition type_is_super (matchTags matchConstraints: bool) (self other: stype) : bool :=
  negb matchTags
  || (is_super_tagset (st_tags self) (st_tags other)
      && (negb matchConstraints || spec_is_super (st_spec self) (st_spec other))).

(* SequenceOf/Sequence.setComponentByPosition(idx, value) with the default flags, a component
   type that is neither ANY nor an open type, strictConstraints = False *)
Definition assignable (declared given: stype) : bool := type_is_super true true declared given.

Inductive tagging := NoTag | ExplicitTag (t: tag) | ImplicitTag (t: tag).

(* T.subtype(subtypeSpec=new, implicitTag=.. | explicitTag=..) on the type level *)
Definition subtype_step (T: stype) (tg: tagging) (new: option constr) : res stype :=
  do ts <- match tg with
           | NoTag => Ok (st_tags T)
           | ExplicitTag t => tag_explicitly (st_tags T) t
           | ImplicitTag t => Ok (tag_implicitly (st_tags T) t)
           end;
  Ok (mkSType ts (match new with Some c => sp_add (st_spec T) c | None => st_spec T end)).

(* SimpleAsn1Type.__init__ on an already normalised payload: subtypeSpec(value) decides *)
Definition construct (T: stype) (x: sval) : res sval :=
  match ceval (sp_constr (st_spec T)) None (VS x) with
  | Pass => Ok x
  | Fail => Err EConstraint
  | Crash k => Err (ECrash k)
  end.

(* Every value-producing method of Integer, OctetString, the character strings, BitString and
   ObjectIdentifier computes a payload from the operands' payloads with a Python built-in and
   passes it to self.clone(), i.e. to the constructor of the same type.  [payload] = None where
   the model does not predict the built-in's result (ZeroDivisionError, float results, ...). *)
Definition produce (T: stype) (payload: option sval) : res sval :=
  match payload with Some v => construct T v | None => Err EUnmodelled end.

(* value.clone(newValue); value.clone(subtypeSpec=s) replaces the constraints;
   value.subtype(subtypeSpec=c, tags) adds to them: all of them re-run the constructor *)
Definition op_clone (T: stype) (v: sval) : res sval := construct T v.
Definition op_clone_spec (T: stype) (s: cspec) (v: sval) : res sval :=
  construct (mkSType (st_tags T) s) v.
Definition op_subtype (T: stype) (tg: tagging) (new: option constr) (v: sval) : res sval :=
  do T' <- subtype_step T tg new; construct T' v.

(* --- payload functions (Python built-ins on int / bytes / str / tuple / SizedInteger) --- *)

Inductive int_op := IAdd | ISub | IMul | IFloorDiv | IMod | IPow | IAnd | IOr | IXor | ILsh | IRsh.
Inductive int_unop := INeg | IPos | IAbs | IInvert.

Definition int_binop (op: int_op) (a b: Z) : option Z :=
  match op with
  | IAdd => Some (a + b) | ISub => Some (a - b) | IMul => Some (a * b)
  | IFloorDiv => if b =? 0 then None else Some (a / b)
  | IMod => if b =? 0 then None else Some (a mod b)
  | IPow => if b <? 0 then None else Some (a ^ b)
  | IAnd => Some (Z.land a b) | IOr => Some (Z.lor a b) | IXor => Some (Z.lxor a b)
  | ILsh => if b <? 0 then None else Some (Z.shiftl a b)
  | IRsh => if b <? 0 then None else Some (Z.shiftr a b)
  end.
Definition int_unary (op: int_unop) (a: Z) : Z :=
  match op with INeg => - a | IPos => a | IAbs => Z.abs a | IInvert => Z.lnot a end.

(* Integer.__op__(self, other) / __rop__ (reflected: operands swapped) *)
Definition op_int (T: stype) (op: int_op) (reflected: bool) (self other: Z) : res sval :=
  produce T (option_map SInt (if reflected then int_binop op other self else int_binop op self other)).
Definition op_int_unary (T: stype) (op: int_unop) (self: Z) : res sval :=
  construct T (SInt (int_unary op self)).

(* seq[start:stop:step] for step > 0 (None = omitted); other steps are not predicted *)
Definition clamp (len i: Z) : Z :=
  let i := if i <? 0 then i + len else i in
  if i <? 0 then 0 else if i >? len then len else i.
Fixpoint every {A} (fuel: nat) (i stop step: Z) (l: list A) : list A :=
  match fuel with
  | O => []
  | S f => if i <? stop
           then match nth_error l (Z.to_nat i) with
                | Some a => a :: every f (i + step) stop step l
                | None => []
                end
           else []
  end.
Definition py_slice {A} (start stop step: option Z) (l: list A) : option (list A) :=
  let len := Z.of_nat (length l) in
  let st := match step with Some s => s | None => 1 end in
  if st <=? 0 then None
  else Some (every (length l)
                   (match start with Some s => clamp len s | None => 0 end)
                   (match stop with Some s => clamp len s | None => len end) st l).

Fixpoint repeat_list {A} (n: nat) (l: list A) : list A :=
  match n with O => [] | S k => l ++ repeat_list k l end.

Inductive seq_op :=
| QConcat (other: list N) (reflected: bool)     (* self + other / other + self *)
| QRepeat (n: Z)                                (* self * n, n * self *)
| QSlice (start stop step: option Z).           (* self[start:stop:step] *)

Definition seq_payload (op: seq_op) (l: list N) : option (list N) :=
  match op with
  | QConcat o false => Some (l ++ o)
  | QConcat o true => Some (o ++ l)
  | QRepeat n => Some (repeat_list (Z.to_nat n) l)      (* n <= 0 gives the empty sequence *)
  | QSlice a b s => py_slice a b s l
  end.

(* OctetString / character strings / ObjectIdentifier: same operations on bytes / str / tuple
   (ObjectIdentifier has no __mul__; the harness does not ask for it) *)
Definition op_seq (T: stype) (op: seq_op) (self: sval) : res sval :=
  match self with
  | SBytes l => produce T (option_map SBytes (seq_payload op l))
  | SText l => produce T (option_map SText (seq_payload op l))
  | SOid l => produce T (option_map SOid (seq_payload op l))
  | _ => Err EUnmodelled
  end.

(* BitString: concatenation and shifts on SizedInteger (bits kept as length + number) *)
Inductive bits_op :=
| BConcat (olen: N) (oz: Z) (reflected: bool)
| BLsh (n: Z) | BRsh (n: Z).
Definition bits_payload (op: bits_op) (len: N) (z: Z) : option sval :=
  match op with
  | BConcat ol oz false => Some (SBits (len + ol) (Z.lor (Z.shiftl z (Z.of_N ol)) oz))
  | BConcat ol oz true => Some (SBits (ol + len) (Z.lor (Z.shiftl oz (Z.of_N len)) z))
  | BLsh n => if n <? 0 then None else Some (SBits (len + Z.to_N n) (Z.shiftl z n))
  | BRsh n => if n <? 0 then None
              else Some (SBits (Z.to_N (Z.max 0 (Z.of_N len - n))) (Z.shiftr z n))
  end.
Definition op_bits (T: stype) (op: bits_op) (self: sval) : res sval :=
  match self with
  | SBits len z => produce T (bits_payload op len z)
  | _ => Err EUnmodelled
  end.

(* comparing what the model predicts with what the implementation did *)
Definition outcome_eqb (a b: res sval) : bool :=
  match a, b with
  | Ok x, Ok y => sval_same x y
  | Err e, Err f => err_eqb e f
  | _, _ => false
  end.
Definition is_unmodelled (a: res sval) : bool :=
  match a with Err EUnmodelled => true | _ => false end.

(* ---- helpers for the correspondence files ---- *)

(* T, T.subtype(step1), T.subtype(step1).subtype(step2), ...; stops where a step is refused
   (tagExplicitly refuses the UNIVERSAL class) *)
Fixpoint derive_chain (T: stype) (steps: list (tagging * option constr)) : list stype :=
  T :: match steps with
       | [] => []
       | (tg, new) :: r =>
           match subtype_step T tg new with Ok T' => derive_chain T' r | Err _ => [] end
       end.
(* [Ti.isSuperTypeOf(Tj)] for two members of a chain *)
Definition chain_super (ts: list stype) (i j: nat) (expected: bool) : bool :=
  match nth_error ts i, nth_error ts j with
  | Some a, Some b => Bool.eqb (type_is_super true true a b) expected
  | _, _ => false
  end.
Definition chain_construct (ts: list stype) (i: nat) (x: sval) (expected: res sval) : bool :=
  match nth_error ts i with
  | Some T => outcome_eqb (construct T x) expected
  | None => false
  end.

(* ---------------------------------------------------------------------------------------- *)
(* SEQUENCE / SET values as isInconsistent shows them to the constraints                     *)

(* A component slot of a record value: never touched (noValue), instantiated as a schema object by
   a read (getComponentByName/Position, iteration, values(), and so by every encoder) but never
   assigned, or holding a value. *)
Inductive slot := Unset | ReadOnly | Assigned (v: sval).
Definition record := list (sval * slot).

(* reading every component: what any traversal of the record does to it *)
Definition read_all (r: record) : record :=
  map (fun ks => (fst ks, match snd ks with Unset => ReadOnly | s => s end)) r.

(* SequenceAndSetBase.isInconsistent as repaired by fixes/F14d.diff: only components that are
   values go into the mapping handed to subtypeSpec (the same test the encoders use to leave an
   OPTIONAL component out) *)
Definition mapping (r: record) : list (sval * sval) :=
  flat_map (fun ks => match snd ks with Assigned v => [(fst ks, v)] | _ => [] end) r.
(* before the repair: everything but noValue is "present"; the schema object's payload plays no
   part in the presence and size constraints this definition is used with *)
Definition mapping_unrepaired (r: record) : list (sval * sval) :=
  flat_map (fun ks => match snd ks with
                      | Assigned v => [(fst ks, v)]
                      | ReadOnly => [(fst ks, SBytes [])]
                      | Unset => []
                      end) r.

(* what an encoder does first with a record value: refuse it if its constraints reject it *)
Definition encoder_admits (spec: cspec) (r: record) : verdict :=
  ceval (sp_constr spec) None (VMap (mapping r)).
Definition encoder_admits_unrepaired (spec: cspec) (r: record) : verdict :=
  ceval (sp_constr spec) None (VMap (mapping_unrepaired r)).

(* pyasn1/codec/{ber,cer,der}/encoder.py as they are.  Definitions only.
   One encoder, parameterised by the codec's regenerated dispatch tables (Gen/Tables.v). *)
From PV Require Export Model.Types Gen.Tables.
Local Open Scope N_scope.

Inductive codec := BER | CER | DER.

(* the **options that matter: defMode, maxChunkSize, ifNotEmpty (set by CER/DER SEQUENCE/SET) *)
Record eopts := mkOpts { o_def: bool; o_chunk: N; o_ifne: bool }.

Definition enc_type_map (c: codec) := match c with BER => ber_enc_type_map | CER => cer_enc_type_map | DER => der_enc_type_map end.
Definition enc_tag_map (c: codec) := match c with BER => ber_enc_tag_map | CER => cer_enc_tag_map | DER => der_enc_tag_map end.
Definition enc_fixed (c: codec) := match c with BER => ber_enc_fixed | CER => cer_enc_fixed | DER => der_enc_fixed end.

(* SingleItemEncoder.__call__: fixedDefLengthMode / fixedChunkSize override the caller's options *)
Definition fix_opts (c: codec) (o: eopts) : eopts :=
  let '(fd, fc) := enc_fixed c in
  mkOpts (match fd with Some d => d | None => o_def o end)
         (match fc with Some k => k | None => o_chunk o end) (o_ifne o).

(* typeMap[typeId], else tagMap[base tag] *)
Definition tag_fallback_key (T: ty) : tkey :=
  match key_of T with KStr _ => KOcts | k => k end.
Definition concrete_encoder (c: codec) (T: ty) : res (enc_codec * enc_flags) :=
  match lookup3 (key_of T) (enc_type_map c) with
  | Some x => Ok x
  | None => match lookup3 (tag_fallback_key T) (enc_tag_map c) with
            | Some x => Ok x
            | None => Err EMalformed
            end
  end.

(* ---------- content octets of the simple types ---------- *)

Fixpoint be_bytes (k: nat) (n: N) : bytes :=
  match k with O => [] | S k' => be_bytes k' (n / 256) ++ [n mod 256] end.

Definition bit_length (z: Z) : Z := if Z.eqb z 0 then 0%Z else (Z.log2 z + 1)%Z.

(* compat/integer.py to_bytes(value, signed=True) *)
Definition twos_bytes (z: Z) : bytes :=
  let bits := if Z.ltb z 0 then bit_length (- z - 1) else bit_length z in
  let len := if Z.eqb (bits mod 8) 0 then (bits + 1)%Z else bits in
  let nb := (len / 8 + (if Z.eqb (len mod 8) 0 then 0 else 1))%Z in
  be_bytes (Z.to_nat nb) (Z.to_N (z mod 2 ^ (8 * nb))).

Definition enc_integer (compact_zero: bool) (z: Z) : bytes :=
  if Z.eqb z 0 then (if compact_zero then [] else [0]) else twos_bytes z.

Fixpoint bits_to_N (acc: N) (bs: list bool) : N :=
  match bs with [] => acc | b :: r => bits_to_N (2 * acc + (if b then 1 else 0)) r end.

(* pad count + left-aligned octets *)
Definition pad_of (len: nat) : nat := (8 - len mod 8) mod 8.
Definition bits_octets (bs: list bool) : bytes :=
  let padded := bs ++ repeat false (pad_of (length bs)) in
  be_bytes (length padded / 8) (bits_to_N 0 padded).
Definition enc_bits_prim (bs: list bool) : bytes := N.of_nat (pad_of (length bs)) :: bits_octets bs.

Fixpoint chunks {A} (fuel: nat) (k: nat) (l: list A) : list (list A) :=
  match fuel with
  | O => []
  | S f => match l with [] => [] | _ => firstn k l :: chunks f k (skipn k l) end
  end.

Definition oid_first (arcs: list N) : res (list N) :=
  match arcs with
  | first :: second :: rest =>
      if N.leb second 39 then
        (if N.eqb first 1 then Ok (second + 40 :: rest)
         else if N.eqb first 0 then Ok (second :: rest)
         else if N.eqb first 2 then Ok (second + 80 :: rest)
         else Err EMalformed)
      else if N.eqb first 2 then Ok (second + 80 :: rest)
      else Err EMalformed
  | _ => Err EMalformed
  end.
Definition enc_oid (arcs: list N) : res bytes :=
  do subs <- oid_first arcs; Ok (concat (map b128 subs)).

(* decimal text of an integer, as '%d' prints it *)
Fixpoint dec_digits (fuel: nat) (n: N) (acc: bytes) : bytes :=
  match fuel with
  | O => acc
  | S f => let acc' := (48 + n mod 10) :: acc in
           if N.ltb n 10 then acc' else dec_digits f (n / 10) acc'
  end.
Definition dec_N (n: N) : bytes := dec_digits (S (N.size_nat n)) n [].
Definition dec_Z (z: Z) : bytes := if Z.ltb z 0 then 45 :: dec_N (Z.abs_N z) else dec_N (Z.to_N z).

(* strip trailing zero bits: while m & 1 == 0: m >>= 1; e += 1 *)
Fixpoint strip2 (fuel: nat) (m: N) (e: Z) : N * Z :=
  match fuel with
  | O => (m, e)
  | S f => if N.eqb (N.land m 1) 0 then strip2 f (N.shiftr m 1) (e + 1)%Z else (m, e)
  end.

(* exponent octets: two's complement, fewest octets *)
Definition exp_octets (e: Z) : bytes :=
  if Z.eqb e 0 then [0] else if Z.eqb e (-1) then [255] else twos_bytes e.

Definition enc_real (r: real) : res bytes :=
  match r with
  | RPInf => Ok [64]
  | RNInf => Ok [65]
  | RFloat => Err EUnmodelled
  | RDec m e => if Z.eqb m 0 then Ok []
                else Ok ([3] ++ dec_Z m ++ [69] ++ (if Z.eqb e 0 then [43] else []) ++ dec_Z e)
  | RBin m e =>
      if Z.eqb m 0 then Ok [] else
      let neg := Z.ltb m 0 in
      let '(m', e') := strip2 (N.size_nat (Z.abs_N m)) (Z.abs_N m) e in
      let eo := exp_octets e' in
      let n := length eo in
      if Nat.ltb 255 n then Err EMalformed else
      let fo := 128 + (if neg then 64 else 0) in
      let '(fo', eo') := match n with
                         | 1%nat => (fo, eo) | 2%nat => (fo + 1, eo) | 3%nat => (fo + 2, eo)
                         | _ => (fo + 3, N.of_nat n :: eo) end in
      Ok ([fo'] ++ eo' ++ b256 m')
  end.

(* ---------- Python == on component values, as the DEFAULT test uses it ---------- *)
Definition val_py_eq (a b: val) : option bool :=
  match a, b with
  | VBool x, VBool y => Some (Bool.eqb x y)
  | VInt x, VInt y => Some (Z.eqb x y)
  | VBits x, VBits y => Some (list_eqb Bool.eqb x y)     (* BitString.__eq__: same integer and same length *)
  | VOcts x, VOcts y => Some (bytes_eqb x y)
  | VChars x, VChars y => Some (bytes_eqb (concat x) (concat y))
  | VChars x, VOcts y | VOcts y, VChars x => Some (bytes_eqb (concat x) y)
  | VNull, VNull => Some true
  | VOid x, VOid y => Some (list_eqb N.eqb x y)
  | _, _ => None      (* REAL (float comparison) and constructed defaults: not modelled *)
  end.

(* ---------- framing: AbstractItemEncoder.encode ---------- *)

Definition frame_one (t: tag) (is_cons: bool) (def_override: bool) (support_indef: bool) (sub: bytes) : res bytes :=
  do l <- enc_len (N.of_nat (length sub)) (negb def_override && support_indef);
  Ok (enc_tag t is_cons ++ l ++ sub ++ (if def_override then [] else [0; 0])).

Fixpoint frame_outer (ts: tagset) (is_cons: bool) (defm: bool) (support_indef: bool) (sub: bytes) : res bytes :=
  match ts with
  | [] => Ok sub
  | t :: r => do s' <- frame_one t is_cons defm support_indef sub;
              frame_outer r is_cons defm support_indef s'
  end.

Definition frame (ts: tagset) (content: bytes) (is_cons: bool) (o: eopts) (support_indef: bool) : res bytes :=
  match ts with
  | [] => Ok content
  | t0 :: r =>
      if (match content with [] => true | _ => false end) && is_cons && o_ifne o then Ok []
      else
        do s0 <- frame_one t0 is_cons (if is_cons then o_def o else true) support_indef content;
        frame_outer r is_cons (o_def o) support_indef s0
  end.

(* a string fragment: the base-tag-only type of the chunk (universal 4, or 3 for BIT STRING) *)
Definition frame_piece (tagnum: N) (content: bytes) : res bytes :=
  frame_one (utag false tagnum) false true true content.

(* stable sort by key, as sorted(key=...) *)
Fixpoint insert_by {A K} (ltb: K -> K -> bool) (key: A -> K) (x: A) (l: list A) : list A :=
  match l with
  | [] => [x]
  | y :: r => if ltb (key y) (key x) then y :: insert_by ltb key x r else x :: l     (* stable: x stays before its equals *)
  end.
Definition sort_by {A K} (ltb: K -> K -> bool) (key: A -> K) (l: list A) : list A :=
  fold_right (fun x acc => insert_by ltb key x acc) [] l.

(* bytes.ljust(maxLen, b'\x00') then tuple comparison of bytes *)
Fixpoint bytes_ltb (a b: bytes) : bool :=
  match a, b with
  | [], [] => false
  | [], _ :: _ => true
  | _ :: _, [] => false
  | x :: a', y :: b' => N.ltb x y || (N.eqb x y && bytes_ltb a' b')
  end.
Definition pad_to (n: nat) (b: bytes) : bytes := b ++ repeat 0 (n - length b).
Definition sort_setof (chunks: list bytes) : list bytes :=
  match chunks with
  | [] | [_] => chunks
  | _ => let m := fold_right (fun c acc => Nat.max (length c) acc) O chunks in
         sort_by bytes_ltb (pad_to m) chunks
  end.

Definition last_tag (ts: tagset) : tagset := match rev ts with t :: _ => [t] | [] => [] end.
Definition tagset_min (a b: tagset) : tagset := if tagset_ltb b a then b else a.

(* cer SetEncoder._smallestOuterTag: the outermost tag; an untagged CHOICE counts for the
   smallest outermost tag among its alternatives *)
Fixpoint smallest_outer (T: ty) : tagset :=
  match T with
  | TChoice alts =>
      (fix go (l: list ty) : tagset :=
         match l with
         | [] => []
         | [a] => smallest_outer a
         | a :: r => tagset_min (smallest_outer a) (go r)
         end) alts
  | _ => last_tag (tagset_of' T)
  end.

(* der SetEncoder._componentSortKey: the outermost tag of the alternative actually chosen *)
Fixpoint chosen_outer (T: ty) (v: val) {struct T} : tagset :=
  match T, v with
  | TChoice alts, VChoice i x =>
      (fix go (l: list ty) (k: nat) : tagset :=
         match l, k with
         | a :: _, O => chosen_outer a x
         | _ :: r, S k' => go r k'
         | [], _ => []
         end) alts i
  | _, _ => last_tag (tagset_of' T)
  end.

Definition set_sort_key (dynamic: bool) (T: ty) (v: val) : tagset :=
  if dynamic then chosen_outer T v else smallest_outer T.

(* a fresh SEQUENCE/SET object none of whose members is mandatory "is a value" from birth
   (SequenceAndSetBase.isValue), so the placeholder instantiated for an unassigned mandatory
   component of such a type is encoded as present and empty *)
Definition all_optional_container (T: ty) : bool :=
  match base_of T with
  | TSeq fs | TSet fs =>
      negb (match fs with [] => true | _ => false end)
      && forallb (fun f => match fst f with Req => false | _ => true end) fs
  | _ => false
  end.

Definition octets_of (v: val) : option bytes :=
  match v with VOcts b | VAny b => Some b | VChars cs => Some (concat cs) | _ => None end.

(* TimeEncoderMixIn.encodeValue's text transformation lives in Model/Time.v; here only the
   guards that decide acceptance of already-canonical strings are needed by the codec properties *)

Section Encoder.
  Variable c : codec.

  (* chunked OCTET STRING / character string content *)
  Definition enc_string_chunked (v: val) (k: nat) : res bytes :=
    match v with
    | VOcts b | VAny b =>
        fold_left (fun acc piece => do a <- acc; do p <- frame_piece 4 piece; Ok (a ++ p))
                  (chunks (S (length b)) k b) (Ok [])
    | VChars cs =>
        let b := concat cs in          (* segments are cut from the octets *)
        fold_left (fun acc piece => do a <- acc; do p <- frame_piece 4 piece; Ok (a ++ p))
                  (chunks (S (length b)) k b) (Ok [])
    | _ => Err EMalformed
    end.

  Definition enc_octets_like (o: eopts) (v: val) : res (bytes * bool) :=
    match octets_of v with
    | None => Err EMalformed
    | Some b =>
        if N.eqb (o_chunk o) 0 || Nat.leb (length b) (N.to_nat (o_chunk o)) then Ok (b, false)
        else do s <- enc_string_chunked v (N.to_nat (o_chunk o)); Ok (s, true)
    end.

  Definition enc_bits (o: eopts) (bs: list bool) : res (bytes * bool) :=
    let aligned_len := (length bs + pad_of (length bs))%nat in
    if N.eqb (o_chunk o) 0 || Nat.leb aligned_len (N.to_nat (o_chunk o) * 8) then Ok (enc_bits_prim bs, false)
    else
      do s <- fold_left (fun acc piece => do a <- acc; do p <- frame_piece 3 (enc_bits_prim piece); Ok (a ++ p))
                        (chunks (S (length bs)) (N.to_nat (o_chunk o) * 8) bs) (Ok []);
      Ok (s, true).

  (* GeneralizedTime / UTCTime under CER/DER: only canonical input is modelled here *)
  Definition time_guard (fl: enc_flags) (b: bytes) : res unit :=
    if existsb (fun x => N.eqb x 43 || N.eqb x 45) b then Err EMalformed
    else match rev b with
         | 90 :: _ =>
             if existsb (N.eqb 44) b then Err EMalformed
             else if existsb (N.eqb 46) b then Err EUnmodelled
             else if N.ltb (ef_min_len fl) (N.of_nat (length b)) && N.ltb (N.of_nat (length b)) (ef_max_len fl)
                  then Ok tt else Err EMalformed
         | _ => Err EMalformed
         end.

  (* SingleItemEncoder.__call__ + AbstractItemEncoder.encode around a given encodeValue *)
  Definition enc_with (encv: ty -> enc_codec -> enc_flags -> eopts -> val -> res (bytes * bool))
             (T: ty) (o0: eopts) (v: val) : res bytes :=
    let o := fix_opts c o0 in
    do ce <- concrete_encoder c T;
    let '(cd, fl) := ce in
    do ts <- tagset_of T;
    do cc <- encv T cd fl (mkOpts (o_def o) (o_chunk o) false) v;   (* ifNotEmpty is popped: this item only *)
    let '(content, is_cons) := cc in
    frame ts content is_cons o (ef_indef fl).

  (* encodeValue, by recursion on the type *)
  Fixpoint enc_content (T: ty) (cd: enc_codec) (fl: enc_flags) (o: eopts) (v: val) {struct T} : res (bytes * bool) :=
    match T with
    | TImp _ x | TExp _ x => enc_content x cd fl o v
    | TBool => match v, cd with
               | VBool b, EcBoolBer => Ok ([if b then 1 else 0], false)
               | VBool b, EcBoolCer => Ok ([if b then 255 else 0], false)
               | _, _ => Err EMalformed end
    | TInt | TEnum => match v, cd with
               | VInt z, EcInt => Ok (enc_integer (ef_compact_zero fl) z, false)
               | _, _ => Err EMalformed end
    | TBits => match v, cd with
               | VBits bs, EcBits => enc_bits o bs
               | VBits bs, EcBitsCer =>
                   (* X.690 9.2: the initial octet counts towards the segment's contents octets *)
                   enc_bits (if N.ltb 1 (o_chunk o) then mkOpts (o_def o) (o_chunk o - 1) (o_ifne o) else o) bs
               | _, _ => Err EMalformed
               end
    | TOcts => match cd with EcOcts => enc_octets_like o v | _ => Err EMalformed end
    | TStr _ => match cd with
                | EcOcts => enc_octets_like o v
                | EcGenTime | EcUtcTime =>
                    match octets_of v with
                    | Some b => do _ <- time_guard fl b; enc_octets_like (mkOpts (o_def o) 1000 (o_ifne o)) v
                    | None => Err EMalformed end
                | _ => Err EMalformed end
    | TNull => match v, cd with VNull, EcNull => Ok ([], false) | _, _ => Err EMalformed end
    | TOid => match v, cd with VOid a, EcOid => do b <- enc_oid a; Ok (b, false) | _, _ => Err EMalformed end
    | TReal => match v, cd with
               | VReal r, (EcRealBer | EcRealCer) => do b <- enc_real r; Ok (b, false)
               | _, _ => Err EMalformed end
    | TAny => match cd with
              | EcAny => match octets_of v with Some b => Ok (b, negb (o_def o)) | None => Err EMalformed end
              | _ => Err EMalformed end
    | TSeqOf t | TSetOf t =>
        match v with
        | VList xs =>
            do parts <- (fix go (xs: list val) : res (list bytes) :=
                           match xs with
                           | [] => Ok []
                           | x :: r => do p <- enc_with enc_content t o x; do ps <- go r; Ok (p :: ps)
                           end) xs;
            match cd with
            | EcSeqOfBer | EcSeqOfCer => Ok (concat parts, true)
            | EcSetOfCer => Ok (concat (sort_setof parts), true)
            | _ => Err EMalformed
            end
        | _ => Err EMalformed
        end
    | TChoice alts =>
        match v, cd with
        | VChoice i x, EcChoice =>
            (fix go (alts: list ty) (k: nat) : res (bytes * bool) :=
               match alts, k with
               | a :: _, O => do p <- enc_with enc_content a o x; Ok (p, true)
               | _ :: r, S k' => go r k'
               | [], _ => Err EMalformed
               end) alts i
        | _, _ => Err EMalformed
        end
    | TSeq fs | TSet fs =>
        match v with
        | VRec vs =>
            let omit := match cd with EcSeq => ef_omit_empty fl | EcSetCer | EcSetDer => true | _ => false end in
            (* (sort key, encoding) of every component that is encoded, in declaration order *)
            do parts <- (fix go (fs: list (presence * ty)) (vs: list (option val)) : res (list (tagset * bytes)) :=
               match fs with
               | [] => Ok []
               | (p, ft) :: fs' =>
                   let ov := match vs with x :: _ => x | [] => None end in
                   let vs' := match vs with _ :: r => r | [] => [] end in
                   let o' := if omit then mkOpts (o_def o) (o_chunk o) (match p with Opt => true | _ => false end) else o in
                   let emit (x: val) := do b <- enc_with enc_content ft o' x; do rest <- go fs' vs';
                                        Ok ((set_sort_key (match cd with EcSetDer => true | _ => false end) ft x, b) :: rest) in
                   match p, ov with
                   | Opt, None => go fs' vs'
                   | Def d, None => go fs' vs'
                   | Def d, Some x => match val_py_eq x d with
                                      | Some true => go fs' vs'
                                      | Some false => emit x
                                      | None => Err EUnmodelled end
                   | Req, None => if all_optional_container ft then emit (VRec []) else Err EMalformed
                   | _, Some x => emit x
                   end
               end) fs vs;
            match cd with
            | EcSeq => Ok (concat (map snd parts), true)
            | EcSetCer | EcSetDer => Ok (concat (map snd (sort_by tagset_ltb fst parts)), true)
            | _ => Err EMalformed
            end
        | _ => Err EMalformed
        end
    end.

  Definition enc := enc_with enc_content.

End Encoder.

(* encode(value, defMode=..., maxChunkSize=...) of each codec module *)
Definition encode (c: codec) (defm: bool) (chunk: N) (T: ty) (v: val) : res bytes :=
  enc c T (mkOpts defm chunk false) v.

(* Vocabulary of the regenerated dispatch tables (Gen/Tables.v).  Definitions only. *)
From PV Require Export Base.Bytes Model.Tag.
Local Open Scope N_scope.

(* one key per ASN.1 class known to the codecs; KStr n = the character/useful string type
   whose universal tag number is n *)
Inductive tkey := KBool | KInt | KBits | KOcts | KNull | KOid | KEnum | KReal
                | KSeq | KSeqOf | KSet | KSetOf | KChoice | KAny | KEoo | KStr (n: N).

Definition tkey_eqb (a b: tkey) : bool :=
  match a, b with
  | KBool, KBool | KInt, KInt | KBits, KBits | KOcts, KOcts | KNull, KNull | KOid, KOid
  | KEnum, KEnum | KReal, KReal | KSeq, KSeq | KSeqOf, KSeqOf | KSet, KSet | KSetOf, KSetOf
  | KChoice, KChoice | KAny, KAny | KEoo, KEoo => true
  | KStr x, KStr y => N.eqb x y
  | _, _ => false end.

(* encoder classes (nearest modelled ancestor in the MRO) *)
Inductive enc_codec := EcEoo | EcBoolBer | EcBoolCer | EcInt | EcBits | EcBitsCer | EcOcts | EcNull | EcOid
  | EcRealBer | EcRealCer | EcSeq | EcSeqOfBer | EcSeqOfCer | EcSetOfCer | EcSetCer | EcSetDer
  | EcChoice | EcAny | EcGenTime | EcUtcTime.

Record enc_flags := mkEncFlags {
  ef_indef: bool;            (* supportIndefLenMode *)
  ef_compact_zero: bool;     (* supportCompactZero *)
  ef_omit_empty: bool;       (* omitEmptyOptionals *)
  ef_bin_base: option N;     (* binEncBase *)
  ef_min_len: N; ef_max_len: N  (* TimeEncoderMixIn.MIN_LENGTH / MAX_LENGTH *)
}.

Inductive dec_codec := DcInt | DcBoolBer | DcBoolCer | DcBits | DcOcts | DcNull | DcOid | DcReal
  | DcSeqOrSeqOf | DcSetOrSetOf | DcSeq | DcSeqOf | DcSet | DcSetOf | DcChoice | DcAny | DcStr.

Record dec_flags := mkDecFlags {
  df_constructed: bool;      (* supportConstructedForm *)
  df_proto: option tkey      (* class of protoComponent *)
}.

Inductive exc_name := XPyAsn1Error | XValueConstraintError | XSubstrateUnderrunError | XEndOfStreamError
  | XUnsupportedSubstrateError | XPyAsn1UnicodeError | XPyAsn1UnicodeDecodeError | XPyAsn1UnicodeEncodeError.

Definition exc_eqb (a b: exc_name) : bool :=
  match a, b with
  | XPyAsn1Error, XPyAsn1Error | XValueConstraintError, XValueConstraintError
  | XSubstrateUnderrunError, XSubstrateUnderrunError | XEndOfStreamError, XEndOfStreamError
  | XUnsupportedSubstrateError, XUnsupportedSubstrateError | XPyAsn1UnicodeError, XPyAsn1UnicodeError
  | XPyAsn1UnicodeDecodeError, XPyAsn1UnicodeDecodeError
  | XPyAsn1UnicodeEncodeError, XPyAsn1UnicodeEncodeError => true
  | _, _ => false end.

Fixpoint assoc {A B} (eqb: A -> A -> bool) (k: A) (l: list (A * B)) : option B :=
  match l with [] => None | (a, b) :: r => if eqb k a then Some b else assoc eqb k r end.

Definition lookup3 {B C} (k: tkey) (l: list (tkey * B * C)) : option (B * C) :=
  assoc tkey_eqb k (map (fun x => (fst (fst x), (snd (fst x), snd x))) l).

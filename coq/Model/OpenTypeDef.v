(* Open types whose governing member is declared DEFAULT or OPTIONAL: what the second pass of
   ConstructedPayloadDecoderBase.valueDecoder / indefLenValueDecoder resolves by when the governing
   member is not in the encoding.  Extends Model/OpenType.v (whose second_pass declines unless the
   governing member was decoded).  Definitions only.

   governingValue = asn1Object.getComponentByName(namedType.openType.name) reads the member with
   instantiate=True:
     - a member that was decoded: its value;
     - a DEFAULT member left out of the encoding (every codec leaves it out when the value equals the
       default): the declared default value - the record *has* that value, X.680 25.5 - which the read
       also stores in the record;
     - an OPTIONAL member left out: a schema object; the dict lookup hashes it and
       Asn1Type/NoValue raises PyAsn1Error ('Attempted "__hash__" operation on ASN.1 schema object'). *)
From PV Require Export Model.OpenType.
Local Open Scope N_scope.

(* the value the open type is resolved by *)
Definition gov_value (fs: list (presence * ty)) (gi: nat) (vs: list (option val)) : res val :=
  match nth gi vs None with
  | Some g => Ok g
  | None =>
      match nth_error fs gi with
      | Some (Def d, _) => Ok d
      | Some (Opt, _) => Err EMalformed
      | _ => Err EUnmodelled               (* a mandatory member that was not decoded: the first pass refuses *)
      end
  end.

(* the second pass: the open member is looked at first (OPTIONAL and absent: nothing to do), then
   the governing value is read - explicit or defaulted - and the rest is Model/OpenType.second_pass
   on the record holding it *)
Definition second_pass_d (c: codec) (allow: bool) (T: ty) (fs: list (presence * ty)) (gi oi: nat)
           (dflt override: omap) (vs: list (option val)) : res (ty * list (option val)) :=
  match nth_error fs oi with
  | None => Ok (T, vs)
  | Some (p, ft) =>
      match nth oi vs None with
      | None => if is_opt p then Ok (T, vs) else Err EUnmodelled
      | Some _ =>
          do g <- gov_value fs gi vs;
          second_pass c allow T fs gi oi dflt override (set_nth gi (Some g) vs)
      end
  end.

(* decode(bytes, asn1Spec=T, decodeOpenTypes=dot, openTypes=override), as Model/OpenType.dec_open_after *)
Definition dec_open_after_d (c: codec) (T: ty) (gi oi: nat) (dflt override: omap) (dot: bool) (b: bytes)
           (first: res (dval * bytes)) : res (dval * bytes) :=
  do r <- first;
  let '(d, rest) := r in
  let resolve := dot || match override with [] => false | _ => true end in
  if negb resolve then Ok (d, rest) else
  match d, rec_fields T with
  | DV T0 (VRec vs), Some fs =>
      let allow := own_len_indef (length (tagset_of' T) - 1) b in
      do tv <- second_pass_d c allow T fs gi oi dflt override vs;
      Ok (DV (fst tv) (VRec (snd tv)), rest)
  | _, _ => Err EUnmodelled
  end.

Definition dec_open_d (c: codec) (T: ty) (gi oi: nat) (dflt override: omap) (dot: bool) (b: bytes)
  : res (dval * bytes) :=
  dec_open_after_d c T gi oi dflt override dot b (decode c (Some T) b).

(* the specification of the outcome, independent of the decoder: the type the open member is read
   against.  Resolved to the mapped type iff resolution is on and the governing value - explicit or
   defaulted - is in the map in force; no governing value, no resolution. *)
Definition effective_gov (pg: presence) (explicit: option val) : option val :=
  match explicit, pg with
  | Some g, _ => Some g
  | None, Def d => Some d
  | None, _ => None
  end.

Definition expected_type (pg: presence) (explicit: option val) (dflt override: omap) (dot: bool) : option ty :=
  if negb (dot || match override with [] => false | _ => true end) then None else
  match effective_gov pg explicit with
  | Some g => resolve_type override dflt g
  | None => None
  end.

(* The schema universe U, values, and abstract content.  Definitions only. *)
From PV Require Export Base.Bytes Model.Tag Model.TableTypes.
Local Open Scope N_scope.

(* REAL as pyasn1 holds it: +-inf, or (mantissa, base, exponent) with base 2 or 10.
   RFloat: a value that went through Python float (decimal decoding) - outside the model. *)
Inductive real := RPInf | RNInf | RBin (m e: Z) | RDec (m e: Z) | RFloat.

Inductive val :=
| VBool (b: bool)
| VInt (z: Z)                      (* INTEGER, ENUMERATED *)
| VBits (bs: list bool)
| VOcts (b: bytes)                 (* OCTET STRING; character/useful strings as octets *)
| VChars (cs: list bytes)          (* a character string as the list of its encoded characters *)
| VNull
| VOid (arcs: list N)
| VReal (r: real)
| VRec (fs: list (option val))     (* SEQUENCE / SET: one slot per declared component *)
| VList (xs: list val)             (* SEQUENCE OF / SET OF *)
| VChoice (i: nat) (v: val)
| VAny (b: bytes).

Inductive presence := Req | Opt | Def (d: val).

Inductive ty :=
| TBool | TInt | TEnum | TBits | TOcts | TNull | TOid | TReal
| TStr (n: N)                       (* character / useful string type with universal tag n *)
| TSeq (fs: list (presence * ty))
| TSet (fs: list (presence * ty))
| TSeqOf (t: ty)
| TSetOf (t: ty)
| TChoice (alts: list ty)
| TAny
| TImp (t: tag) (x: ty)
| TExp (t: tag) (x: ty).

(* strong induction principle for the nested type *)
Section ty_ind_strong.
  Variable P : ty -> Prop.
  Hypothesis HBool: P TBool. Hypothesis HInt: P TInt. Hypothesis HEnum: P TEnum.
  Hypothesis HBits: P TBits. Hypothesis HOcts: P TOcts. Hypothesis HNull: P TNull.
  Hypothesis HOid: P TOid. Hypothesis HReal: P TReal. Hypothesis HStr: forall n, P (TStr n).
  Hypothesis HSeq: forall fs, Forall (fun f => P (snd f)) fs -> P (TSeq fs).
  Hypothesis HSet: forall fs, Forall (fun f => P (snd f)) fs -> P (TSet fs).
  Hypothesis HSeqOf: forall t, P t -> P (TSeqOf t).
  Hypothesis HSetOf: forall t, P t -> P (TSetOf t).
  Hypothesis HChoice: forall alts, Forall P alts -> P (TChoice alts).
  Hypothesis HAny: P TAny.
  Hypothesis HImp: forall t x, P x -> P (TImp t x).
  Hypothesis HExp: forall t x, P x -> P (TExp t x).
  Fixpoint ty_ind' (T: ty) : P T :=
    match T with
    | TBool => HBool | TInt => HInt | TEnum => HEnum | TBits => HBits | TOcts => HOcts
    | TNull => HNull | TOid => HOid | TReal => HReal | TStr n => HStr n
    | TSeq fs => HSeq fs ((fix go (l: list (presence * ty)) : Forall (fun f => P (snd f)) l :=
                   match l with [] => Forall_nil _ | f :: r => Forall_cons f (ty_ind' (snd f)) (go r) end) fs)
    | TSet fs => HSet fs ((fix go (l: list (presence * ty)) : Forall (fun f => P (snd f)) l :=
                   match l with [] => Forall_nil _ | f :: r => Forall_cons f (ty_ind' (snd f)) (go r) end) fs)
    | TSeqOf t => HSeqOf t (ty_ind' t)
    | TSetOf t => HSetOf t (ty_ind' t)
    | TChoice alts => HChoice alts ((fix go (l: list ty) : Forall P l :=
                   match l with [] => Forall_nil _ | f :: r => Forall_cons f (ty_ind' f) (go r) end) alts)
    | TAny => HAny
    | TImp t x => HImp t x (ty_ind' x)
    | TExp t x => HExp t x (ty_ind' x)
    end.
End ty_ind_strong.

Definition utag (con: bool) (n: N) : tag := mkTag Univ con n.

(* the type with its tagging wrappers removed *)
Fixpoint base_of (T: ty) : ty :=
  match T with TImp _ x | TExp _ x => base_of x | _ => T end.

(* key of the base type in the codec tables *)
Definition key_of (T: ty) : tkey :=
  match base_of T with
  | TBool => KBool | TInt => KInt | TEnum => KEnum | TBits => KBits | TOcts => KOcts | TNull => KNull
  | TOid => KOid | TReal => KReal | TStr n => KStr n | TSeq _ => KSeq | TSet _ => KSet
  | TSeqOf _ => KSeqOf | TSetOf _ => KSetOf | TChoice _ => KChoice | TAny => KAny
  | TImp _ _ | TExp _ _ => KAny (* unreachable *)
  end.

(* tagSet of a type object: innermost first.  An error only for EXPLICIT UNIVERSAL. *)
Fixpoint tagset_of (T: ty) : res tagset :=
  match T with
  | TBool => Ok [utag false 1] | TInt => Ok [utag false 2] | TBits => Ok [utag false 3]
  | TOcts => Ok [utag false 4] | TNull => Ok [utag false 5] | TOid => Ok [utag false 6]
  | TReal => Ok [utag false 9] | TEnum => Ok [utag false 10] | TStr n => Ok [utag false n]
  | TSeq _ | TSeqOf _ => Ok [utag true 16]
  | TSet _ | TSetOf _ => Ok [utag true 17]
  | TChoice _ | TAny => Ok []
  | TImp t x => do ts <- tagset_of x; Ok (tag_implicitly ts t)
  | TExp t x => do ts <- tagset_of x; tag_explicitly ts t
  end.

Definition tagset_of' (T: ty) : tagset := match tagset_of T with Ok ts => ts | Err _ => [] end.

(* ---- abstract content: the equality every round-trip statement uses ---- *)

Inductive areal := AZero | APInf | ANInf | ABin (m e: Z) | ADec (m e: Z) | AFloat.

Inductive aval :=
| ABool (b: bool) | AInt (z: Z) | ABits (bs: list bool) | AOcts (b: bytes) | ANull
| AOid (arcs: list N) | AReal (r: areal)
| ARec (fs: list (option aval))
| AList (xs: list aval)             (* SEQUENCE OF: ordered *)
| ABag (xs: list aval)              (* SET OF: compared as a multiset *)
| AChoice (i: nat) (v: aval)
| AAny (b: bytes)
| ABad.                             (* value does not fit the type *)

(* strip factors of [b] from a non-zero mantissa: (m, e) -> (m / b^k, e + k), structurally on fuel *)
Fixpoint strip_factor (fuel: nat) (b: Z) (m e: Z) : Z * Z :=
  match fuel with
  | O => (m, e)
  | S f => if Z.eqb (Z.rem m b) 0 then strip_factor f b (Z.quot m b) (e + 1)%Z else (m, e)
  end.

Definition abs_real (r: real) : areal :=
  match r with
  | RPInf => APInf | RNInf => ANInf | RFloat => AFloat
  | RBin m e => if Z.eqb m 0 then AZero
                else let '(m', e') := strip_factor (Z.to_nat (Z.log2 (Z.abs m)) + 1) 2 m e in ABin m' e'
  | RDec m e => if Z.eqb m 0 then AZero
                else let '(m', e') := strip_factor (Z.to_nat (Z.log2 (Z.abs m)) + 1) 10 m e in ADec m' e'
  end.

Fixpoint abs (T: ty) (v: val) {struct T} : aval :=
  match T, v with
  | TBool, VBool b => ABool b
  | (TInt | TEnum), VInt z => AInt z
  | TBits, VBits bs => ABits bs
  | (TOcts | TStr _), VOcts b => AOcts b
  | TStr _, VChars cs => AOcts (concat cs)
  | TNull, VNull => ANull
  | TOid, VOid a => AOid a
  | TReal, VReal r => AReal (abs_real r)
  | (TSeq fs | TSet fs), VRec vs =>
      ARec ((fix go (fs: list (presence * ty)) (vs: list (option val)) : list (option aval) :=
               match fs, vs with
               | (p, ft) :: fs', ov :: vs' =>
                   (match ov, p with
                    | Some x, _ => Some (abs ft x)
                    | None, Def d => Some (abs ft d)
                    | None, _ => None
                    end) :: go fs' vs'
               | (p, ft) :: fs', [] =>
                   (match p with Def d => Some (abs ft d) | _ => None end) :: go fs' []
               | [], _ => []
               end) fs vs)
  | TSeqOf t, VList xs => AList (map (abs t) xs)
  | TSetOf t, VList xs => ABag (map (abs t) xs)
  | TChoice alts, VChoice i x =>
      (fix go (alts: list ty) (k: nat) : aval :=
         match alts, k with
         | a :: _, O => AChoice i (abs a x)
         | _ :: r, S k' => go r k'
         | [], _ => ABad
         end) alts i
  | TAny, VAny b => AAny b
  | TAny, VOcts b => AAny b
  | (TImp _ x | TExp _ x), _ => abs x v
  | _, _ => ABad
  end.

Definition areal_eqb (a b: areal) : bool :=
  match a, b with
  | AZero, AZero | APInf, APInf | ANInf, ANInf => true
  | ABin m e, ABin m' e' | ADec m e, ADec m' e' => Z.eqb m m' && Z.eqb e e'
  | _, _ => false end.

Definition opt_eqb {A} (eqb: A -> A -> bool) (a b: option A) : bool :=
  match a, b with None, None => true | Some x, Some y => eqb x y | _, _ => false end.

(* remove the first element equal to x; None if there is none *)
Definition remove_first {A} (eqbx: A -> bool) : list A -> option (list A) :=
  fix go (l: list A) : option (list A) :=
  match l with
  | [] => None
  | y :: r => if eqbx y then Some r
              else match go r with Some r' => Some (y :: r') | None => None end
  end.
Definition bag_eqb {A} (eqb: A -> A -> bool) : list A -> list A -> bool :=
  fix go (a b: list A) : bool :=
  match a with
  | [] => match b with [] => true | _ => false end
  | x :: a' => match remove_first (eqb x) b with Some b' => go a' b' | None => false end
  end.

Fixpoint aval_eqb (a b: aval) {struct a} : bool :=
  match a, b with
  | ABool x, ABool y => Bool.eqb x y
  | AInt x, AInt y => Z.eqb x y
  | ABits x, ABits y => list_eqb Bool.eqb x y
  | AOcts x, AOcts y | AAny x, AAny y => bytes_eqb x y
  | ANull, ANull => true
  | AOid x, AOid y => list_eqb N.eqb x y
  | AReal x, AReal y => areal_eqb x y
  | ARec x, ARec y => list_eqb (opt_eqb aval_eqb) x y
  | AList x, AList y => list_eqb aval_eqb x y
  | ABag x, ABag y => bag_eqb aval_eqb x y
  | AChoice i x, AChoice j y => Nat.eqb i j && aval_eqb x y
  | ABad, ABad => true
  | _, _ => false
  end.

(* Comparing a model outcome with the implementation's canonicalised outcome.  Definitions only. *)
From PV Require Export Model.Types.
Local Open Scope N_scope.

(* library errors compare by class; the model may say EMalformed where the implementation raises a
   more specific PyAsn1Error subclass only if the harness canonicalises both to EMalformed *)
Definition res_code {A} (eqb: A -> A -> bool) (model impl: res A) : N :=
  match model, impl with
  | Err EUnmodelled, _ => 2
  | Ok a, Ok b => if eqb a b then 0 else 1
  | Err e, Err e' => if err_eqb e e' then 0 else 1
  | _, _ => 1
  end.

Definition enc_code (model impl: res bytes) : N := res_code bytes_eqb model impl.

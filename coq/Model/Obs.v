(* Comparing a model outcome with the implementation's canonicalised outcome.  Definitions only. *)
From PV Require Export Model.Types.
Local Open Scope N_scope.

(* library errors compare by class; the model may say EMalformed where the implementation raises a
   more specific PyAsn1Error subclass only if the harness canonicalises both to EMalformed *)
Definition res_code {A} (eqb: A -> A -> bool) (model impl: res A) : N :=
  match model, impl with
  | Err EUnmodelled, _ => 2
  | Ok a, Ok b => if eqb a b then 0 else 1
  | Err e, Err e' => if err_eqb e e' then 0 else 1
  | _, _ => 1
  end.

Definition enc_code (model impl: res bytes) : N := res_code bytes_eqb model impl.

From PV Require Import Model.Proc Model.Enc Model.Dec.

(* implementation's decode outcome: abstract content of the returned object against the guiding
   type (computed by harness/universe.py absval) and the remainder *)
(* a value that does not fit its type anywhere inside is just "bad": both sides collapse it *)
Fixpoint has_bad (a: aval) : bool :=
  match a with
  | ABad => true
  | ARec fs => existsb (fun o => match o with Some x => has_bad x | None => false end) fs
  | AList xs | ABag xs => existsb has_bad xs
  | AChoice _ x => has_bad x
  | _ => false
  end.
Definition norm_bad (a: aval) : aval := if has_bad a then ABad else a.

Definition dec_code (T: ty) (model: res (dval * bytes)) (impl: res (aval * bytes)) : N :=
  match model, impl with
  | Err EUnmodelled, _ => 2
  | Ok (DV _ v, r), Ok (a, r') => if aval_eqb (norm_bad (abs T v)) (norm_bad a) && bytes_eqb r r' then 0 else 1
  | Ok (_, _), Ok _ => 1
  | Err e, Err e' => if err_eqb e e' then 0 else 1
  | _, _ => 1
  end.

(* what a streaming client observed: number of underrun reports, then how it ended *)
Inductive ioutcome := IStop (objs: list (aval * nat)) | IExhausted | IErr (e: err).

Fixpoint count_under {A} (l: list (out A)) : nat :=
  match l with OUnder :: r => S (count_under r) | _ => O end.
Fixpoint final_out {A} (l: list (out A)) : option (res A * nat) :=
  match l with [] => None | [ODone r p] => Some (r, p) | _ :: r => final_out r end.

Fixpoint objs_eqb (T: ty) (m: list (dval * nat)) (i: list (aval * nat)) : bool :=
  match m, i with
  | [], [] => true
  | (DV _ v, p) :: m', (a, q) :: i' =>
      aval_eqb (norm_bad (abs T v)) (norm_bad a) && Nat.eqb p q && objs_eqb T m' i'
  | _, _ => false
  end.

Definition drive_code (T: ty) (model: list (out (list (dval * nat)))) (n_under: nat) (impl: ioutcome) : N :=
  match final_out model, impl with
  | Some (Err EUnmodelled, _), _ => 2
  | Some (Ok objs, _), IStop iobjs =>
      if Nat.eqb (count_under model) n_under && objs_eqb T objs iobjs then 0 else 1
  | Some (Err e, _), IErr e' => if Nat.eqb (count_under model) n_under && err_eqb e e' then 0 else 1
  | None, IExhausted => if Nat.eqb (count_under model) n_under then 0 else 1
  | _, _ => 1
  end.

(* malformed inputs: library errors compare by the coarse class that matters to the properties
   (insufficient data vs anything else from the library); crashes compare by kind *)
Definition err_class (e: err) : N :=
  match e with
  | EUnderrun | EEndOfStream => 1
  | EMalformed | EConstraint | EUnicode | EUnsupported => 2
  | ECrash IndexError => 10 | ECrash AttributeError => 11 | ECrash TypeError => 12 | ECrash ValueError => 13
  | ECrash OverflowError => 14 | ECrash RecursionError => 15 | ECrash RuntimeError => 16 | ECrash KeyError => 17
  | EUnclean => 20 | EUnmodelled => 21 | EOutOfFuel => 22
  end.

Definition mal_code (T: ty) (model: res (dval * bytes)) (impl: res (aval * bytes)) : N :=
  match model, impl with
  | Err EUnmodelled, _ => 2
  | Ok (DV _ v, r), Ok (a, r') => if aval_eqb (norm_bad (abs T v)) (norm_bad a) && bytes_eqb r r' then 0 else 1
  | Ok (_, r), Ok (ABad, r') => 0
  | Err e, Err e' => if N.eqb (err_class e) (err_class e') then 0 else 1
  | _, _ => 1
  end.

(* pyasn1/codec/{ber,cer,der}/decoder.py as they are: SingleItemDecoder.__call__ and the payload
   decoders, as interaction trees (Model/Proc.v).  Definitions only.
   One decoder, parameterised by the codec's regenerated dispatch tables (Gen/Tables.v). *)
From PV Require Export Model.Types Model.Proc Model.Enc Gen.Tables.
Local Open Scope N_scope.

(* ---------- tag maps (pyasn1/type/tagmap.py, the tagMap properties of types) ---------- *)

Record tmap := mkTmap { tm_present: list (tagset * ty); tm_skip: list tagset; tm_default: option ty;
                        tm_postponed: bool (* NamedTypes.PostponedError: raises when used *) }.

Definition eoo_tagset : tagset := [utag false 0].

Definition tm_mem (ts: tagset) (l: list tagset) : bool := existsb (tagset_eqb ts) l.
Definition tm_find (ts: tagset) (l: list (tagset * ty)) : option ty := assoc tagset_eqb ts l.

(* TagMap.__contains__ *)
Definition tm_contains (m: tmap) (ts: tagset) : bool :=
  match tm_find ts (tm_present m) with
  | Some _ => true
  | None => match tm_default m with Some _ => negb (tm_mem ts (tm_skip m)) | None => false end
  end.
(* TagMap.__getitem__: None = KeyError; Err = 'Key in negative map' *)
Definition tm_get (m: tmap) (ts: tagset) : res (option ty) :=
  if tm_postponed m then Err EMalformed else
  match tm_find ts (tm_present m) with
  | Some t => Ok (Some t)
  | None => match tm_default m with
            | None => Ok None
            | Some d => if tm_mem ts (tm_skip m) then Err EMalformed else Ok (Some d)
            end
  end.

Definition is_any (T: ty) : bool := match base_of T with TAny => true | _ => false end.
Definition is_untagged_choice (T: ty) : bool :=
  match T with TChoice _ => true | _ => false end.

(* NamedTypes.__computeTagMaps(unique) over (child tag map, child type) pairs *)
Fixpoint combine_maps (unique: bool) (l: list (tmap * ty)) (acc: tmap) : tmap :=
  match l with
  | [] => acc
  | (m, T) :: r =>
      let dup := unique && existsb (fun kt => match tm_find (fst kt) (tm_present acc) with Some _ => true | None => false end) (tm_present m) in
      let pres := fold_left (fun p kt =>
                    (* dict assignment: a later duplicate overrides the earlier entry *)
                    filter (fun e => negb (tagset_eqb (fst e) (fst kt))) p ++ [(fst kt, T)])
                    (tm_present m) (tm_present acc) in
      let dflt_dup := match tm_default acc, tm_default m with Some _, Some _ => true | _, _ => false end in
      combine_maps unique r
        (mkTmap pres (tm_skip acc ++ tm_skip m)
                (match tm_default acc with Some d => Some d | None => tm_default m end)
                (tm_postponed acc || tm_postponed m || dup || dflt_dup))
  end.

Definition empty_tmap : tmap := mkTmap [] [] None false.

(* the tagMap property of a type object *)
Fixpoint tagmap_of (T: ty) : tmap :=
  match T with
  | TChoice alts =>
      combine_maps true ((fix go (l: list ty) : list (tmap * ty) :=
                            match l with [] => [] | a :: r => (tagmap_of a, a) :: go r end) alts) empty_tmap
  | TAny => mkTmap [([], T)] [eoo_tagset] (Some T) false     (* only the untagged ANY is a catch-all *)
  | _ => mkTmap [(tagset_of' T, T)] [] None false
  end.

Definition fields_tagmap (unique: bool) (fs: list ty) : tmap :=
  combine_maps unique (map (fun t => (tagmap_of t, t)) fs) empty_tmap.

(* NamedTypes.__computeTagToPosMap: first duplicate makes every lookup raise *)
Fixpoint tag_to_pos (fs: list ty) (i: nat) (acc: list (tagset * nat)) : option (list (tagset * nat)) :=
  match fs with
  | [] => Some acc
  | t :: r =>
      let m := tagmap_of t in
      if tm_postponed m then None else
      let keys := map fst (tm_present m) in
      if existsb (fun k => match assoc tagset_eqb k acc with Some _ => true | None => false end) keys then None
      else tag_to_pos r (S i) (acc ++ map (fun k => (k, i)) keys)
  end.
Definition position_by_type (fs: list ty) (ts: tagset) : res nat :=
  match tag_to_pos fs 0 [] with
  | None => Err EMalformed
  | Some m => match assoc tagset_eqb ts m with Some i => Ok i | None => Err EMalformed end
  end.

(* ---------- decoder configuration from the regenerated tables ---------- *)

Definition dec_type_map (c: codec) := match c with BER => ber_dec_type_map | CER => cer_dec_type_map | DER => der_dec_type_map end.
Definition dec_tag_map (c: codec) := match c with BER => ber_dec_tag_map | CER => cer_dec_tag_map | DER => der_dec_tag_map end.
Definition dec_single (c: codec) := match c with BER => ber_dec_single | CER => cer_dec_single | DER => der_dec_single end.
Definition support_indef (c: codec) : bool := fst (dec_single c).

(* the class (table key) whose universal tag this is, for lookup by tag set *)
Definition key_of_univ_tag (t: tag) : option tkey :=
  match tcls t with
  | Univ => let n := tnum t in
            if N.eqb n 1 then Some KBool else if N.eqb n 2 then Some KInt else if N.eqb n 3 then Some KBits
            else if N.eqb n 4 then Some KOcts else if N.eqb n 5 then Some KNull else if N.eqb n 6 then Some KOid
            else if N.eqb n 9 then Some KReal else if N.eqb n 10 then Some KEnum
            else if N.eqb n 16 then Some KSeq else if N.eqb n 17 then Some KSet
            else Some (KStr n)
  | _ => None
  end.

(* tagMap[tagSet] for a tag set consisting of one universal tag; untagged -> Choice entry *)
Definition by_tag (c: codec) (ts: tagset) : option (dec_codec * dec_flags) :=
  match ts with
  | [t] => match key_of_univ_tag t with Some k => lookup3 k (dec_tag_map c) | None => None end
  | [] => lookup3 KChoice (dec_tag_map c)
  | _ => None
  end.

(* typeMap[spec.typeId], else tagMap[base tag of the spec] *)
Definition by_type (c: codec) (T: ty) : option (dec_codec * dec_flags) :=
  match lookup3 (key_of T) (dec_type_map c) with
  | Some x => Some x
  | None => lookup3 (tag_fallback_key T) (dec_tag_map c)
  end.

(* ---------- decoded items ---------- *)

Inductive dval :=
| DV (T: ty) (v: val)     (* a value object together with its type (schema-given or guessed) *)
| DEoo                    (* eoo.endOfOctets *)
| DRaw (b: bytes)         (* what a substrateFun hands back *)
| DNoValue                (* base.noValue escaping as a result *)
| DNone.                  (* Python None escaping as a result *)

Inductive spec := SNone | STy (T: ty) | SMap (m: tmap).

(* the type object a schemaless decode builds: proto type under the explicit tags met on the wire *)
Fixpoint wrap_explicit (outer: tagset) (T: ty) : ty :=
  match outer with [] => T | t :: r => wrap_explicit r (TExp t T) end.
(* protoComponent.clone(value, tagSet=tagSet): the prototype under the tags met on the wire; the
   innermost wire tag replaces the prototype's own when they differ (ENUMERATED is decoded by the
   INTEGER decoder, whose prototype is an INTEGER) *)
Definition schemaless_ty (proto: ty) (ts: tagset) : ty :=
  match ts with
  | [] => proto
  | t0 :: outer =>
      wrap_explicit outer (match tagset_of' proto with
                           | [p0] => if tag_eqb p0 t0 then proto else TImp t0 proto
                           | _ => TImp t0 proto
                           end)
  end.

Definition proto_of_key (k: tkey) : option ty :=
  match k with
  | KBool => Some TBool | KInt => Some TInt | KBits => Some TBits | KOcts => Some TOcts | KNull => Some TNull
  | KOid => Some TOid | KEnum => Some TEnum | KReal => Some TReal | KStr n => Some (TStr n)
  | KAny => Some TAny | _ => None
  end.

(* effectiveTagSet of a decoded object *)
Fixpoint effective_tagset (fuel: nat) (T: ty) (v: val) : tagset :=
  match fuel with
  | O => []
  | S f => match T, v with
           | TChoice alts, VChoice i x => effective_tagset f (nth i alts TNull) x
           | _, _ => tagset_of' T
           end
  end.

(* ---------- content octets -> values ---------- *)

Definition from_bytes_signed (b: bytes) : Z :=
  match b with
  | [] => 0%Z
  | o :: _ => let n := Z.of_N (be_num 0 b) in
              if N.ltb o 128 then n else (n - 2 ^ (8 * Z.of_nat (length b)))%Z
  end.

Fixpoint N_to_bits (k: nat) (n: N) : list bool :=   (* k bits, most significant first *)
  match k with O => [] | S k' => N_to_bits k' (n / 2) ++ [N.odd n] end.
Definition octets_to_bits (b: bytes) : list bool := concat (map (N_to_bits 8) b).

(* fromOctetString(octets, padding): the first 8*len - padding bits; a negative bit length is a
   broken object (len() raises ValueError) *)
Definition bits_of_octets (b: bytes) (padding: N) : res (list bool) :=
  let total := (8 * length b)%nat in
  if Nat.ltb total (N.to_nat padding) then Err EMalformed       (* unused bits but no octets *)
  else Ok (firstn (total - N.to_nat padding) (octets_to_bits b)).

(* sub-identifiers of an OID content, as the loop in ObjectIdentifierPayloadDecoder reads them *)
Fixpoint oid_subids (fuel: nat) (b: bytes) : res (list N) :=
  match fuel with
  | O => Err EOutOfFuel
  | S f =>
      match b with
      | [] => Ok []
      | s :: r =>
          if N.ltb s 128 then do rest <- oid_subids f r; Ok (s :: rest)
          else if N.eqb s 128 then Err EMalformed
          else
            (* nextSubId = s; subId = 0; while nextSubId >= 128: subId = (subId << 7) + (next & 0x7f); next = chunk[index] *)
            (fix more (fuel2: nat) (acc: N) (next: N) (r: bytes) : res (list N) :=
               match fuel2 with
               | O => Err EOutOfFuel
               | S f2 =>
                   if N.leb 128 next then
                     match r with
                     | [] => Err EUnderrun
                     | n' :: r' => more f2 (N.shiftl acc 7 + N.land next 127) n' r'
                     end
                   else do rest <- oid_subids f r; Ok ((N.shiftl acc 7 + next) :: rest)
               end) (S (length r)) 0 s r
      end
  end.
Definition dec_oid (b: bytes) : res (list N) :=
  match b with
  | [] => Err EMalformed
  | _ => do subs <- oid_subids (S (length b)) b;
         match subs with
         | [] => Err (ECrash IndexError)
         | x :: r => if N.leb x 39 then Ok (0 :: x :: r)
                     else if N.leb x 79 then Ok (1 :: (x - 40) :: r)
                     else Ok (2 :: (x - 80) :: r)
         end
  end.

Definition dec_real (b: bytes) : res real :=
  match b with
  | [] => Ok (RDec 0 0)                       (* 0.0 *)
  | fo :: chunk =>
      if negb (N.eqb (N.land fo 128) 0) then
        match chunk with
        | [] => Err EMalformed
        | c0 :: crest =>
            let n0 := N.land fo 3 + 1 in
            let '(n, chunk1) := if N.eqb n0 4 then (c0, crest) else (n0, chunk) in
            let eo := firstn (N.to_nat n) chunk1 in
            let mo := skipn (N.to_nat n) chunk1 in
            match eo, mo with
            | [], _ | _, [] => Err EMalformed
            | _, _ =>
                let e := from_bytes_signed eo in
                let bb := N.land (N.shiftr fo 4) 3 in
                if N.ltb 2 bb then Err EMalformed else
                let e' := if N.eqb bb 1 then (e * 3)%Z else if N.eqb bb 2 then (e * 4)%Z else e in
                let p := Z.of_N (be_num 0 mo) in
                let p' := if negb (N.eqb (N.land fo 64) 0) then (- p)%Z else p in
                let sf := N.land (N.shiftr fo 2) 3 in
                Ok (RBin (p' * 2 ^ Z.of_N sf) e')
            end
        end
      else if negb (N.eqb (N.land fo 64) 0) then Ok (if N.eqb (N.land fo 1) 0 then RPInf else RNInf)
      else match chunk with
           | [] => Err EMalformed
           | _ => Err EUnmodelled          (* character forms go through int()/float() *)
           end
  end.

(* character strings: which octet strings the type's text codec accepts.  bytes.decode(codec) of
   CPython 3.12 with errors='strict', for the three Unicode codecs pyasn1/type/char.py names. *)

(* 'utf-8' (Objects/stringlib/codecs.h utf8_decode): exactly the well-formed sequences of RFC 3629 /
   Unicode table 3-7 - the range of the SECOND octet depends on the first (no overlong form E0 80..9F,
   F0 80..8F; no surrogate ED A0..BF; nothing above F4 8F BF BF); C0, C1, F5..FF never start a
   sequence; a sequence cut short by the end of the data is an error ('unexpected end of data') *)
Definition utf8_cont (x: N) : bool := (0x80 <=? x) && (x <=? 0xBF).
Fixpoint utf8_ok (b: bytes) : bool :=
  match b with
  | [] => true
  | x :: r =>
      if x <? 0x80 then utf8_ok r
      else if (0xC2 <=? x) && (x <=? 0xDF) then
        match r with c1 :: r1 => utf8_cont c1 && utf8_ok r1 | _ => false end
      else if (0xE0 <=? x) && (x <=? 0xEF) then
        match r with
        | c1 :: c2 :: r2 =>
            ((if x =? 0xE0 then 0xA0 else 0x80) <=? c1) && (c1 <=? (if x =? 0xED then 0x9F else 0xBF))
            && utf8_cont c2 && utf8_ok r2
        | _ => false
        end
      else if (0xF0 <=? x) && (x <=? 0xF4) then
        match r with
        | c1 :: c2 :: c3 :: r3 =>
            ((if x =? 0xF0 then 0x90 else 0x80) <=? c1) && (c1 <=? (if x =? 0xF4 then 0x8F else 0xBF))
            && utf8_cont c2 && utf8_cont c3 && utf8_ok r3
        | _ => false
        end
      else false
  end.

(* 'utf-16-be' (Objects/stringlib/codecs.h utf16_decode, byte order fixed: no BOM is interpreted,
   FE FF is U+FEFF): 16-bit units; a unit D800..DBFF must be followed by a unit DC00..DFFF
   ('illegal UTF-16 surrogate' / 'unexpected end of data'), a unit DC00..DFFF on its own is an error
   ('illegal encoding'), an odd octet at the end is an error ('truncated data') *)
Fixpoint utf16be_ok (b: bytes) : bool :=
  match b with
  | [] => true
  | [_] => false
  | h :: l :: r =>
      let u := h * 256 + l in
      if (0xD800 <=? u) && (u <=? 0xDBFF) then
        match r with
        | h2 :: l2 :: r2 => let u2 := h2 * 256 + l2 in (0xDC00 <=? u2) && (u2 <=? 0xDFFF) && utf16be_ok r2
        | _ => false
        end
      else if (0xDC00 <=? u) && (u <=? 0xDFFF) then false
      else utf16be_ok r
  end.

(* 'utf-32-be' (Objects/unicodeobject.c PyUnicode_DecodeUTF32Stateful, byte order fixed): 32-bit
   units, each below 110000 and outside D800..DFFF; 1-3 octets left over are 'truncated data' *)
Fixpoint utf32be_ok (b: bytes) : bool :=
  match b with
  | [] => true
  | b3 :: b2 :: b1 :: b0 :: r =>
      let u := ((b3 * 256 + b2) * 256 + b1) * 256 + b0 in
      (u <? 0x110000) && negb ((0xD800 <=? u) && (u <=? 0xDFFF)) && utf32be_ok r
  | _ => false
  end.

(* Some ok = the codec accepts / refuses (UnicodeDecodeError); None = no such character-string type.
   An all-ASCII UTF8String is answered without the checker (utf8_ok agrees: Proofs/Unicode.v utf8_ok_ascii) *)
Definition str_octets_ok (n: N) (b: bytes) : option bool :=
  let ascii := forallb (fun x => N.ltb x 128) b in
  if existsb (N.eqb n) [18; 19; 22; 26; 24; 23] then Some ascii            (* us-ascii types *)
  else if existsb (N.eqb n) [20; 21; 25; 27; 7] then Some true              (* iso-8859-1 types *)
  else if N.eqb n 12 then (if ascii then Some true else Some (utf8_ok b))    (* utf-8 *)
  else if N.eqb n 30 then Some (utf16be_ok b)                               (* utf-16-be *)
  else if N.eqb n 28 then Some (utf32be_ok b)                               (* utf-32-be *)
  else None.

(* asn1Spec.clone(value) / protoComponent.clone(value, tagSet=...) for a scalar *)
Definition create (sp: option ty) (proto: ty) (ts: tagset) (v: val) : proc dval :=
  let T := match sp with Some T => T | None => schemaless_ty proto ts end in
  match base_of T, v with
  | TStr n, VOcts b =>
      match str_octets_ok n b with
      | Some true => Ret (DV T v)
      | Some false => Raise EUnicode
      | None => Raise EUnmodelled
      end
  | TBool, VInt z => Ret (DV T (VBool (negb (Z.eqb z 0))))
  | _, _ => Ret (DV T v)
  end.

Definition tag0_simple (ts: tagset) : bool := match ts with t :: _ => negb (tcon t) | [] => false end.
Definition tag0_cons (ts: tagset) : bool := match ts with t :: _ => tcon t | [] => false end.

Definition read1 : proc N := let! b := readN 1 in Ret (hd 0 b).

Section Dec.
  Variable c : codec.
  (* the recursive entry point SingleItemDecoder.__call__(substrate, asn1Spec, tagSet, length, state,
     allowEoo=, substrateFun=):  spec, accumulated tag set, Some len = resume at stGetValueDecoder *)
  Variable rec : spec -> tagset -> option (option N) -> bool -> bool -> proc dval.
  Variable loopfuel : nat.

  (* readFromStream(substrate, n) for a length taken from the wire: a read longer than the whole
     input (loopfuel bounds its length) can never be satisfied, whatever its exact size; asking
     for loopfuel + 1 octets is then the same thing and keeps unary numbers small *)
  Definition read_len (n: N) : proc bytes :=
    if N.ltb index_max n then Raise EMalformed       (* read() refuses the size: 'Cannot read ... octets at once' *)
    else readN (N.to_nat (N.min n (N.of_nat (S loopfuel)))).

  Definition spec_ty (sp: spec) : option ty := match sp with STy T => Some T | _ => None end.

  (* --- simple payload decoders: valueDecoder(substrate, asn1Spec, tagSet, length) --- *)

  Definition dec_integer (sp: option ty) (proto: ty) (ts: tagset) (len: N) : proc dval :=
    if negb (tag0_simple ts) then Raise EMalformed else
    let! b := read_len len in create sp proto ts (VInt (from_bytes_signed b)).

  Definition dec_bool_cer (sp: option ty) (ts: tagset) (len: N) : proc dval :=
    if negb (N.eqb len 1) then Raise EMalformed else
    let! b := read_len len in
    match b with
    | [255] => create sp TBool ts (VInt 1)
    | [0] => create sp TBool ts (VInt 0)
    | _ => Raise EMalformed
    end.

  Definition dec_null (sp: option ty) (ts: tagset) (len: N) : proc dval :=
    if negb (tag0_simple ts) then Raise EMalformed else
    let! b := read_len len in
    match b with [] => create sp TNull ts VNull | _ => Raise EMalformed end.

  Definition dec_oid_v (sp: option ty) (ts: tagset) (len: N) : proc dval :=
    if negb (tag0_simple ts) then Raise EMalformed else
    let! b := read_len len in let! a := lift (dec_oid b) in create sp TOid ts (VOid a).

  Definition dec_real_v (sp: option ty) (ts: tagset) (len: N) : proc dval :=
    if negb (tag0_simple ts) then Raise EMalformed else
    let! b := read_len len in let! r := lift (dec_real b) in create sp TReal ts (VReal r).

  (* substrateCollector: readFromStream(substrate, length); length -1 reads whatever is there *)
  Definition collector (len: option N) : proc dval :=
    match len with
    | Some n => let! b := read_len n in Ret (DRaw b)
    | None => let! b := readall in Ret (DRaw b)
    end.

  (* one fragment of a constructed string: decodeFun(substrate, protoComponent, substrateFun=collector) *)
  Definition fragment (proto: ty) (allow_eoo: bool) : proc dval := rec (STy proto) [] None allow_eoo true.

  Fixpoint octets_loop (proto: ty) (sp: option ty) (ts: tagset) (len: N) (start: nat) (n: nat) (acc: bytes) : proc dval :=
       match n with
       | O => Raise EOutOfFuel
       | S n' =>
           let! p := tell in
           if N.ltb (N.of_nat (p - start)) len then
             let! f := fragment TOcts false in
             match f with
             | DRaw b => octets_loop proto sp ts len start n' (acc ++ b)
             | DV _ (VOcts b) => octets_loop proto sp ts len start n' (acc ++ b)       (* a value object: bytes + OctetString *)
             | _ => Raise (ECrash TypeError)
             end
           else create sp proto ts (VOcts acc)
       end.

  Definition dec_octets (proto: ty) (fl: dec_flags) (sp: option ty) (ts: tagset) (len: N) (sfun: bool) : proc dval :=
    (* the only substrateFun modelled is the fragment collector, which this decoder ignores *)
    if tag0_simple ts then let! b := read_len len in create sp proto ts (VOcts b) else
    if negb (df_constructed fl) then Raise EMalformed else
    let! start := tell in
    octets_loop proto sp ts len start loopfuel [].

  Fixpoint octets_indef_loop (proto: ty) (sp: option ty) (ts: tagset) (n: nat) (acc: bytes) : proc dval :=
       match n with
       | O => Raise EOutOfFuel
       | S n' =>
           let! f := fragment TOcts true in
           match f with
           | DEoo => create sp proto ts (VOcts acc)
           | DRaw b => octets_indef_loop proto sp ts n' (acc ++ b)
           | DV _ (VOcts b) => octets_indef_loop proto sp ts n' (acc ++ b)
           | _ => Raise (ECrash TypeError)
           end
       end.

  Definition dec_octets_indef (proto: ty) (sp: option ty) (ts: tagset) : proc dval :=
    octets_indef_loop proto sp ts loopfuel [].

  (* a fragment of a constructed BIT STRING is a BIT STRING itself, primitive or constructed:
     decodeFun(substrate, protoComponent), no collector *)
  Definition bits_fragment (allow_eoo: bool) : proc dval := rec (STy TBits) [] None allow_eoo false.

  Definition add_bits_fragment (acc: list bool) (f: dval) : proc (list bool) :=
    match f with
    | DV _ (VBits bs) => Ret (acc ++ bs)
    | _ => Raise (ECrash TypeError)
    end.

  Fixpoint bits_loop (sp: option ty) (ts: tagset) (len: N) (start: nat) (n: nat) (acc: list bool) : proc dval :=
       match n with
       | O => Raise EOutOfFuel
       | S n' =>
           let! p := tell in
           if N.ltb (N.of_nat (p - start)) len then
             let! f := bits_fragment false in let! acc' := add_bits_fragment acc f in bits_loop sp ts len start n' acc'
           else create sp TBits ts (VBits acc)
       end.

  Definition dec_bits (fl: dec_flags) (sp: option ty) (ts: tagset) (len: N) (sfun: bool) : proc dval :=
    if sfun then collector (Some len) else
    if tag0_simple ts then
      if N.eqb len 0 then Raise EMalformed else        (* 'Empty BIT STRING substrate': the initial octet is missing *)
      let! tb := read1 in
      if N.ltb 7 tb then Raise EMalformed else
      let! b := read_len (len - 1) in let! bs := lift (bits_of_octets b tb) in create sp TBits ts (VBits bs)
    else
    if negb (df_constructed fl) then Raise EMalformed else
    let! start := tell in
    bits_loop sp ts len start loopfuel [].

  Fixpoint bits_indef_loop (sp: option ty) (ts: tagset) (n: nat) (acc: list bool) : proc dval :=
       match n with
       | O => Raise EOutOfFuel
       | S n' =>
           let! f := bits_fragment true in
           match f with
           | DEoo => create sp TBits ts (VBits acc)
           | _ => let! acc' := add_bits_fragment acc f in bits_indef_loop sp ts n' acc'
           end
       end.

  Definition dec_bits_indef (sp: option ty) (ts: tagset) (sfun: bool) : proc dval :=
    if sfun then collector None else
    bits_indef_loop sp ts loopfuel [].

  (* --- ANY --- *)
  Definition dec_any (sp: option ty) (ts: tagset) (len: N) (sfun: bool) : proc dval :=
    let untagged := match sp with None => true | Some T => negb (tagset_eqb ts (tagset_of' T)) end in
    let! len' := (if untagged then (let! m := getmark in let! p := tell in SeekBack (p - m) (Ret (len + N.of_nat (p - m)))) else Ret len) in
    let! b := read_len len' in
    if sfun then Ret (DRaw b) else create sp TAny ts (VAny b).

  Fixpoint any_indef_loop (sp: option ty) (ts: tagset) (sfun tagged: bool) (n: nat) (acc: bytes) : proc dval :=
       match n with
       | O => Raise EOutOfFuel
       | S n' =>
           let! f := fragment TAny true in
           match f with
           | DEoo => let whole := acc ++ (if tagged then [] else [0; 0]) in   (* an untagged ANY holds the whole TLV *)
                     if sfun then Ret (DRaw whole) else create sp TAny ts (VAny whole)
           | DRaw b => any_indef_loop sp ts sfun tagged n' (acc ++ b)
           | DV _ (VAny b) => any_indef_loop sp ts sfun tagged n' (acc ++ b)
           | _ => Raise (ECrash TypeError)
           end
       end.

  Definition dec_any_indef (sp: option ty) (ts: tagset) (sfun: bool) : proc dval :=
    let tagged := match sp with None => false | Some T => tagset_eqb ts (tagset_of' T) end in
    let! header := (if tagged then Ret [] else (let! m := getmark in let! p := tell in SeekBack (p - m) (readN (p - m)))) in
    any_indef_loop sp ts sfun tagged loopfuel header.

  (* --- constructed types --- *)

  (* the run of OPTIONAL/DEFAULT members starting at idx plus the mandatory member that ends it
     (NamedTypes.__computeAmbiguousTypes) *)
  Fixpoint ambiguous_run (fs: list (presence * ty)) : list ty :=
    match fs with
    | [] => []
    | (Req, t) :: _ => [t]
    | (_, t) :: r => t :: ambiguous_run r
    end.

  Definition is_req (p: presence) : bool := match p with Req => true | _ => false end.

  Fixpoint set_nth {A} (n: nat) (x: A) (l: list A) : list A :=
    match l, n with
    | [], _ => []
    | _ :: r, O => x :: r
    | y :: r, S n' => y :: set_nth n' x r
    end.

  (* the component spec at position idx of a SEQUENCE; None = 'Excessive components' *)
  Definition seq_component_spec (fs: list (presence * ty)) (deterministic: bool) (idx: nat) : option spec :=
    match nth_error fs idx with
    | None => None
    | Some (p, t) =>
        if deterministic || is_req p then Some (STy t)
        else Some (SMap (fields_tagmap false (ambiguous_run (skipn idx fs))))
    end.

  (* after a component was decoded: the position it goes to *)
  Definition seq_position (fs: list (presence * ty)) (is_set deterministic: bool) (idx: nat) (T: ty) (v: val) : res nat :=
    if deterministic then Ok idx
    else let ets := effective_tagset (S loopfuel) T v in
      if is_set then position_by_type (map snd fs) ets
      else match nth_error fs idx with
           | Some (p, _) => if is_req p then Ok idx
                            else do k <- position_by_type (ambiguous_run (skipn idx fs)) ets; Ok (idx + k)%nat
           | None => Err (ECrash IndexError)
           end.

  Definition required_seen (fs: list (presence * ty)) (vs: list (option val)) : bool :=
    forallb (fun pv => match fst (fst pv), snd pv with Req, None => false | _, _ => true end) (combine fs vs).

  (* SEQUENCE / SET guided by a type; [len] = Some n definite, None indefinite *)
  Fixpoint record_loop (T: ty) (fs: list (presence * ty)) (is_set: bool) (len: option N) (start: nat) (n: nat) (idx: nat) (vs: list (option val)) (extra: nat) : proc dval :=
    let deterministic := negb is_set && forallb (fun f => is_req (fst f)) fs in
    let no_fields := match fs with [] => true | _ => false end in
       match n with
       | O => Raise EOutOfFuel
       | S n' =>
           let! p := tell in
           let continue_ := match len with Some l => N.ltb (N.of_nat (p - start)) l | None => true end in
           if negb continue_ then
             (if no_fields then Ret (DV T (VRec []))
              else if required_seen fs vs then Ret (DV T (VRec vs)) else Raise EMalformed)
           else
             (* component spec: none for a SEQUENCE without members, the unique tag map for SET *)
             let sp := if no_fields then (match len with
                                          | Some _ => Some SNone
                                          | None => Some SNone end)
                       else match len with
                            | None => if negb is_set && Nat.leb (length fs) idx then Some SNone   (* indefinite SEQUENCE: past the last member *)
                                      else if is_set then Some (SMap (fields_tagmap true (map snd fs)))
                                      else seq_component_spec fs deterministic idx
                            | Some _ => if is_set then Some (SMap (fields_tagmap true (map snd fs)))
                                        else seq_component_spec fs deterministic idx
                            end in
             match sp with
             | None => Raise EMalformed                      (* Excessive components *)
             | Some sp' =>
                 let! d := rec sp' [] None (match len with None => true | Some _ => false end) false in
                 match d with
                 | DEoo => (if no_fields then Ret (DV T (VRec []))
                            else if required_seen fs vs then Ret (DV T (VRec vs)) else Raise EMalformed)
                 | DV Tc vc =>
                     if no_fields then Raise EUnmodelled     (* schemaless members under a member-less spec *)
                     else if negb is_set && Nat.leb (length fs) idx then Raise EMalformed   (* Excessive components *)
                     else
                       let! i := lift (seq_position fs is_set deterministic idx Tc vc) in
                       if Nat.leb (length fs) i then Raise (ECrash IndexError)
                       else record_loop T fs is_set len start n' (S i) (set_nth i (Some vc) vs) extra
                 | DNoValue | DNone => Raise (ECrash AttributeError)
                 | DRaw b =>
                     (* a bare bytes object: no effectiveTagSet; where the position is known,
                        setComponentByPosition clones the member type around it *)
                     if no_fields then Raise EUnmodelled
                     else if deterministic || (negb is_set && match nth_error fs idx with Some (p, _) => is_req p | None => false end) then
                       match nth_error fs idx with
                       | Some (_, ft) => if is_any ft then record_loop T fs is_set len start n' (S idx) (set_nth idx (Some (VAny b)) vs) extra
                                         else Raise EUnmodelled
                       | None => Raise (ECrash IndexError)
                       end
                     else Raise (ECrash AttributeError)
                 end
             end
       end.

  Definition dec_record (T: ty) (fs: list (presence * ty)) (is_set: bool) (len: option N) : proc dval :=
    let deterministic := negb is_set && forallb (fun f => is_req (fst f)) fs in
    let no_fields := match fs with [] => true | _ => false end in
    let! start := tell in
    record_loop T fs is_set len start loopfuel 0%nat (map (fun _ => None) fs) 0%nat.

  (* SEQUENCE OF / SET OF guided by a type *)
  Fixpoint listof_loop (T: ty) (t: ty) (len: option N) (start: nat) (n: nat) (acc: list val) : proc dval :=
       match n with
       | O => Raise EOutOfFuel
       | S n' =>
           let! p := tell in
           let continue_ := match len with Some l => N.ltb (N.of_nat (p - start)) l | None => true end in
           if negb continue_ then Ret (DV T (VList acc))
           else
             let! d := rec (STy t) [] None (match len with None => true | Some _ => false end) false in
             match d with
             | DEoo => Ret (DV T (VList acc))
             | DV _ vc => listof_loop T t len start n' (acc ++ [vc])
             | DRaw b => if is_any t then listof_loop T t len start n' (acc ++ [VAny b]) else Raise EUnmodelled
             | _ => Raise (ECrash AttributeError)
             end
       end.

  Definition dec_listof (T: ty) (t: ty) (len: option N) : proc dval :=
    let! start := tell in
    listof_loop T t len start loopfuel [].

  (* _decodeComponentsSchemaless: guess SEQUENCE vs SEQUENCE OF from the members' tag sets *)
  Fixpoint schemaless_loop (is_set: bool) (ts: tagset) (len: option N) (start: nat) (n: nat) (acc: list (ty * val)) : proc dval :=
       let finish :=
         match acc with
         | [] => Ret (DV (schemaless_ty (if is_set then TSetOf TNull else TSeqOf TNull) ts) (VList []))
         | (T0, _) :: _ =>
             let same := forallb (fun tv => tagset_eqb (tagset_of' (fst tv)) (tagset_of' T0)) acc in
             (* the guessed container holds objects each carrying its own type: SEQUENCE (OF) as a
                record of the members' types (same octets either way); a SET OF whose members differ
                in shape as SET OF CHOICE of those shapes *)
             let rec_ty := map (fun tv => (Req, fst tv)) acc in
             let rec_v := VRec (map (fun tv => Some (snd tv)) acc) in
             let proto := if is_set then (if same then TSetOf (TChoice (map fst acc)) else TSet rec_ty) else TSeq rec_ty in
             let v := if is_set && same
                      then VList ((fix number (i: nat) (l: list (ty * val)) : list val :=
                                     match l with [] => [] | tv :: r => VChoice i (snd tv) :: number (S i) r end) O acc)
                      else rec_v in
             Ret (DV (schemaless_ty proto ts) v)
         end in
       match n with
       | O => Raise EOutOfFuel
       | S n' =>
           let! p := tell in
           let continue_ := match len with Some l => N.ltb (N.of_nat p) (N.of_nat start + l) | None => true end in
           if negb continue_ then finish
           else
             let! d := rec SNone [] None (match len with None => true | Some _ => false end) false in
             match d with
             | DEoo => finish
             | DV Tc vc => schemaless_loop is_set ts len start n' (acc ++ [(Tc, vc)])
             | _ => Raise (ECrash AttributeError)
             end
       end.

  Definition dec_schemaless (is_set: bool) (ts: tagset) (len: option N) : proc dval :=
    let! start := tell in
    schemaless_loop is_set ts len start loopfuel [].

  (* CHOICE guided by a type *)
  Definition choice_place (T: ty) (alts: list ty) (d: dval) : proc dval :=
    match d with
    | DV Tc vc =>
        let! i := lift (position_by_type alts (effective_tagset (S loopfuel) Tc vc)) in
        Ret (DV T (VChoice i vc))
    | _ => Raise (ECrash AttributeError)
    end.

  Fixpoint choice_loop (T: ty) (alts: list ty) (ts: tagset) (tagged: bool) (n: nat) (cur: option dval) : proc dval :=
    let m := fields_tagmap true alts in
    let place := choice_place T alts in
           match n with
           | O => Raise EOutOfFuel
           | S n' =>
               let! d := (if tagged then rec (SMap m) [] None true false else rec (SMap m) ts (Some None) false false) in
               match d with
               | DEoo => match cur with Some x => Ret x | None => Raise EMalformed end      (* 'No alternative of CHOICE' *)
               | _ => let! x := place d in if tagged then choice_loop T alts ts tagged n' (Some x) else Ret x
               end
           end.

  Definition dec_choice (T: ty) (alts: list ty) (ts: tagset) (len: option N) : proc dval :=
    let m := fields_tagmap true alts in
    let tagged := tagset_eqb (tagset_of' T) ts in
    let place := choice_place T alts in
    match len with
    | Some l =>
        let! d := (if tagged then rec (SMap m) [] None false false else rec (SMap m) ts (Some (Some l)) false false) in
        place d
    | None =>
        (* indefinite: the loop re-enters with allowEoo; untagged: one component, then stop *)
        choice_loop T alts ts tagged loopfuel None
    end.

  (* RawPayloadDecoder: an explicit tag, or whatever substrateFun wants *)
  Fixpoint raw_loop (sp: spec) (ts: tagset) (n: nat) (last: dval) : proc dval :=
           match n with
           | O => Raise EOutOfFuel
           | S n' =>
               let! d := rec sp ts None true false in
               match d with
               | DEoo => match last with DNoValue => Raise EMalformed | _ => Ret last end
               | _ => raw_loop sp ts n' d
               end
           end.

  Definition dec_raw (sp: spec) (ts: tagset) (len: option N) (sfun: bool) : proc dval :=
    if sfun then collector len else
    match len with
    | Some _ => rec sp ts None false false
    | None =>
        raw_loop sp ts loopfuel DNoValue
    end.

  (* concreteDecoder.valueDecoder / indefLenValueDecoder *)
  Definition dec_value (cd: dec_codec) (fl: dec_flags) (sp: option ty) (ts: tagset) (len: option N) (sfun: bool) : proc dval :=
    let proto_str := match sp with
                     | Some T => (match base_of T with TStr n => TStr n | _ => TOcts end)
                     | None => match df_proto fl with Some (KStr n) => TStr n | _ => TOcts end end in
    let unsupported_indef := Raise EMalformed in
    let constructed_guard (k: proc dval) := if negb (tag0_cons ts) then Raise EMalformed else k in
    match cd, len with
    | DcInt, Some l => dec_integer sp (match df_proto fl with Some KEnum => TEnum | _ => TInt end) ts l
    | DcBoolBer, Some l => dec_integer sp TBool ts l
    | DcBoolCer, Some l => dec_bool_cer sp ts l
    | DcNull, Some l => dec_null sp ts l
    | DcOid, Some l => dec_oid_v sp ts l
    | DcReal, Some l => dec_real_v sp ts l
    | (DcInt | DcBoolBer | DcBoolCer | DcNull | DcOid | DcReal), None => unsupported_indef
    | (DcOcts | DcStr), Some l => dec_octets proto_str fl sp ts l sfun
    | (DcOcts | DcStr), None => dec_octets_indef proto_str sp ts
    | DcBits, Some l => dec_bits fl sp ts l sfun
    | DcBits, None => dec_bits_indef sp ts sfun
    | DcAny, Some l => dec_any sp ts l sfun
    | DcAny, None => dec_any_indef sp ts sfun
    | DcChoice, _ =>
        match sp with
        | Some T => match base_of T with
                    | TChoice alts => if sfun then collector len else dec_choice T alts ts len
                    | _ => Raise EUnmodelled end
        | None => Raise EUnmodelled
        end
    | (DcSeq | DcSet | DcSeqOf | DcSetOf | DcSeqOrSeqOf | DcSetOrSetOf), _ =>
        constructed_guard (
        if sfun then collector len else
        match sp with
        | None => dec_schemaless (match cd with DcSet | DcSetOf | DcSetOrSetOf => true | _ => false end) ts len
        | Some T =>
            match base_of T with
            | TSeq fs => dec_record T fs false len
            | TSet fs => dec_record T fs true len
            | TSeqOf t | TSetOf t => dec_listof T t len
            | _ => Raise EUnmodelled
            end
        end)
    end.

  (* identifier octets, one read per octet *)
  Fixpoint long_tag (cl: tclass) (f: bool) (k: nat) (acc: N) : proc tag :=
         match k with
         | O => Raise EOutOfFuel
         | S k' => let! b := read1 in
                   let acc' := N.lor (N.shiftl acc 7) (N.land b 127) in
                   if N.eqb (N.land b 128) 0 then Ret (mkTag cl f acc') else long_tag cl f k' acc'
         end.

  Definition read_tag : proc tag :=
    let! o := read1 in
    let cl := cls_of_bits o in
    let f := negb (N.eqb (N.land o 32) 0) in
    let n := N.land o 31 in
    if N.eqb n 31 then
      long_tag cl f loopfuel 0
    else Ret (mkTag cl f n).

  Definition read_length : proc (option N) :=
    let! o := read1 in
    if N.ltb o 128 then Ret (Some o)
    else if N.eqb o 128 then
      (if support_indef c then Ret None else Raise EMalformed)
    else let! b := readN (N.to_nat (N.land o 127)) in Ret (Some (be_num 0 b)).

  (* stGetValueDecoder ... stDecodeValue / stTryAsExplicitTag / stErrorCondition *)
  Definition dispatch (sp: spec) (ts: tagset) (len: option N) (sfun: bool) : proc dval :=
    let try_explicit :=
      match ts with
      | t :: _ => if tcon t && negb (cls_eqb (tcls t) Univ) then Some (dec_raw sp ts len sfun) else None
      | [] => None
      end in
    let run_value (k: proc dval) : proc dval :=
      match len with
      | None => k
      | Some l => let! p0 := tell in let! v := k in let! p1 := tell in
                  if N.eqb (N.of_nat (p1 - p0)) l then Ret v else Raise EMalformed
      end in
    let fail := match try_explicit with Some k => run_value k | None => Raise EMalformed end in
    match sp with
    | SNone =>
        match by_tag c ts with
        | Some (cd, fl) => run_value (dec_value cd fl None ts len sfun)
        | None => match by_tag c (firstn 1 ts) with
                  | Some (cd, fl) => run_value (dec_value cd fl None ts len sfun)
                  | None => fail
                  end
        end
    | STy T =>
        if tagset_eqb ts (tagset_of' T) || tm_contains (tagmap_of T) ts then
          (if tm_postponed (tagmap_of T) then Raise EMalformed else
           match by_type c T with
           | Some (cd, fl) => run_value (dec_value cd fl (Some T) ts len sfun)
           | None => fail
           end)
        else fail
    | SMap m =>
        let! chosen := lift (tm_get m ts) in
        match chosen with
        | Some T => match by_type c T with
                    | Some (cd, fl) => run_value (dec_value cd fl (Some T) ts len sfun)
                    | None => fail
                    end
        | None => fail
        end
    end.

  Definition dec_body (sp: spec) (acc: tagset) (resume: option (option N)) (allow_eoo sfun: bool) : proc dval :=
    let main :=
      (* the mark (start of the element, from which an untagged ANY re-reads its header) is set when an
         element is begun, not on re-entry past its header (untagged CHOICE) *)
      match resume with
      | Some len => dispatch sp acc len sfun
      | None => Mark (let! t := read_tag in let! len := read_length in dispatch sp (t :: acc) len sfun)
      end in
    if allow_eoo && support_indef c then
      let! b := readN 2 in
      match b with
      | [0; 0] => Ret DEoo
      | _ => SeekBack 2 main
      end
    else main.

End Dec.

Fixpoint dec_call (c: codec) (fuel: nat) : spec -> tagset -> option (option N) -> bool -> bool -> proc dval :=
  match fuel with
  | O => fun _ _ _ _ _ => Raise EOutOfFuel
  | S f => dec_body c (dec_call c f) f
  end.

(* one item, as StreamingDecoder.__iter__ asks for it *)
Definition dec_item (c: codec) (fuel: nat) (sp: option ty) : proc dval :=
  dec_call c fuel (match sp with Some T => STy T | None => SNone end) [] None false false.

Fixpoint ty_depth (T: ty) : nat :=
  match T with
  | TSeq fs | TSet fs => S (fold_right (fun f acc => Nat.max (ty_depth (snd f)) acc) O fs)
  | TSeqOf t | TSetOf t => S (ty_depth t)
  | TChoice alts => S (fold_right (fun a acc => Nat.max (ty_depth a) acc) O alts)
  | TImp _ x | TExp _ x => S (ty_depth x)
  | _ => 1%nat
  end.

Definition dec_fuel (sp: option ty) (b: bytes) : nat :=
  (2 * length b + 2 * (match sp with Some T => ty_depth T | None => 0 end) + 6)%nat.

(* Decoder.__call__: one item from the complete input, then the unread tail *)
Definition decode (c: codec) (sp: option ty) (b: bytes) : res (dval * bytes) :=
  match run_complete (dec_item c (dec_fuel sp b) sp) b with
  | inl _ => Err EUnderrun                 (* 'Short substrate on input' *)
  | inr (Ok d, s) => Ok (d, avail s)
  | inr (Err e, _) => Err e
  end.

(* the same with the fuel chosen by the caller (the proc must not depend on the input) *)
Definition decode_with (c: codec) (fuel: nat) (sp: option ty) (b: bytes) : res (dval * bytes) :=
  match run_complete (dec_item c fuel sp) b with
  | inl _ => Err EUnderrun
  | inr (Ok d, s) => Ok (d, avail s)
  | inr (Err e, _) => Err e
  end.

(* StreamingDecoder.__iter__: one item, then isEndOfStream, and so on; each object is reported
   together with the stream position right after it *)
Definition item_pos (c: codec) (fuel: nat) (sp: option ty) : proc (dval * nat) :=
  let! d := dec_item c fuel sp in let! p := tell in Ret (d, p).

Fixpoint iter_loop {A} (n: nat) (item: proc A) : proc (list A) :=
  match n with
  | O => Ret []
  | S n' => pbind item (fun d => AtEOS (fun eos => if eos then Ret [d]
                                          else pbind (iter_loop n' item) (fun ds => Ret (d :: ds))))
  end.

Definition streaming (c: codec) (fuel: nat) (sp: option ty) : proc (list (dval * nat)) :=
  iter_loop fuel (item_pos c fuel sp).

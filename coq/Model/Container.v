(* pyasn1/type/univ.py container objects as they are (SequenceOfAndSetOfBase, SequenceAndSetBase,
   Set, Choice) at /repo HEAD (repairs F18b/c/e/f/g and the read-only encoders of d774dc2 included): the *concrete* state the code keeps and the
   public operations as step functions.  Definitions only; proofs are in Proofs/Container*.v.

   Element values are abstracted to INTEGER components: a slot holds a value object (CVal z), an
   instantiated schema placeholder (CSchema, e.g. what `s[len(s)]` leaves behind), or `noValue`. *)
From PV Require Export Base.Bytes Model.Tag.
From Coq Require Import Lia.
Local Open Scope nat_scope.

Inductive comp := CVal (z: Z) | CSchema.
Definition slot := option comp.          (* None = noValue *)

(* what the caller passes as a value *)
Inductive pyval :=
| PInt (z: Z)      (* a Python int, coerced by the component type *)
| PAsn (z: Z)      (* an INTEGER value object carrying the tags the position expects *)
| PBad             (* a Python object Integer.prettyIn refuses, e.g. 'x' *)
| PBadAsn.         (* a value object of a tag-incompatible type, e.g. OctetString('x') *)

Inductive key := KPos (i: Z) | KName (n: nat).

(* what an operation gives back *)
Inductive out :=
| ORet                              (* None / self / a string nobody compares *)
| OSlot (c: slot)
| OSlots (l: list slot)
| OBool (b: bool)
| ONat (n: nat)
| ONats (l: list nat)               (* component names, as positions in the declared order *)
| OItems (l: list (nat * slot))
| OBytes (b: bytes)
| ORaise (e: err).

Definition ELib := EMalformed.                  (* pyasn1.error.PyAsn1Error *)
Definition EIndex := ECrash IndexError.
Definition EKey := ECrash KeyError.
Definition EValue := ECrash ValueError.

Definition comp_eqb (a b: comp) : bool :=
  match a, b with CVal x, CVal y => Z.eqb x y | CSchema, CSchema => true | _, _ => false end.
Definition slot_eqb (a b: slot) : bool :=
  match a, b with None, None => true | Some x, Some y => comp_eqb x y | _, _ => false end.
Definition item_eqb (a b: nat * slot) : bool := Nat.eqb (fst a) (fst b) && slot_eqb (snd a) (snd b).
Definition out_eqb (a b: out) : bool :=
  match a, b with
  | ORet, ORet => true
  | OSlot x, OSlot y => slot_eqb x y
  | OSlots x, OSlots y => list_eqb slot_eqb x y
  | OBool x, OBool y => Bool.eqb x y
  | ONat x, ONat y => Nat.eqb x y
  | ONats x, ONats y => list_eqb Nat.eqb x y
  | OItems x, OItems y => list_eqb item_eqb x y
  | OBytes x, OBytes y => bytes_eqb x y
  | ORaise x, ORaise y => err_eqb x y
  | _, _ => false
  end.
Definition out_unmodelled (o: out) : bool :=
  match o with ORaise EUnmodelled => true | _ => false end.
Definition is_value (c: slot) : bool := match c with Some (CVal _) => true | _ => false end.
(* the error classes the property allows an ill-formed operation to raise *)
Definition lookup_or_library (e: err) : bool :=
  match e with ECrash IndexError | ECrash KeyError => true | _ => is_library e end.

(* ------------------------------------------------------------------------------------------ *)
(* DER of the INTEGER components (enough of the encoder to state "same encoding")             *)

Fixpoint be_octets (k: nat) (z: Z) (acc: bytes) : bytes :=
  match k with O => acc | S k' => be_octets k' (Z.div z 256) (Z.to_N (Z.modulo z 256) :: acc) end.
(* fewest octets of the two's complement form *)
Definition int_octets (z: Z) : nat :=
  let m := if Z.ltb z 0 then (- z - 1)%Z else z in
  if Z.eqb m 0 then 1 else S (Z.to_nat (Z.div (Z.log2 m + 1) 8)).
Definition int_content (z: Z) : bytes :=
  let k := int_octets z in
  be_octets k (if Z.ltb z 0 then (z + Z.pow 256 (Z.of_nat k))%Z else z) [].
Definition tlv (t: tag) (constructed: bool) (content: bytes) : res bytes :=
  match enc_len (N.of_nat (length content)) false with
  | Ok l => Ok (enc_tag t constructed ++ l ++ content)
  | Err e => Err e
  end.
Definition int_tlv (t: tag) (z: Z) : bytes :=
  match tlv t false (int_content z) with Ok b => b | Err _ => [] end.
Definition tag_integer := mkTag Univ false 2%N.
Definition tag_sequence := mkTag Univ true 16%N.
Definition tag_set := mkTag Univ true 17%N.

(* cer/encoder.py SetOfEncoder: sort by the encodings padded with zero octets to equal length *)
Fixpoint padded_leb (a b: bytes) : bool :=
  match a, b with
  | [], _ => true
  | x :: a', [] => N.eqb x 0 && padded_leb a' []
  | x :: a', y :: b' => N.ltb x y || (N.eqb x y && padded_leb a' b')
  end.
Fixpoint insert_by {A} (leb: A -> A -> bool) (x: A) (l: list A) : list A :=
  match l with [] => [x] | y :: r => if leb x y then x :: l else y :: insert_by leb x r end.
Definition sort_by {A} (leb: A -> A -> bool) (l: list A) : list A :=
  fold_right (insert_by leb) [] l.
Definition zsort (l: list Z) : list Z := sort_by Z.leb l.

Definition out_of_bytes (r: res bytes) : out :=
  match r with Ok b => OBytes b | Err e => ORaise e end.

(* ------------------------------------------------------------------------------------------ *)
(* SEQUENCE OF / SET OF: `_componentValues` is noValue or a dict index -> component.          *)
(* The dict is kept in insertion order, as CPython keeps it (index() and clone observe it).   *)

Definition dict := list (nat * comp).
Definition sstate := option dict.          (* None = noValue: a schema object *)

Fixpoint dget (k: nat) (d: dict) : option comp :=
  match d with [] => None | (k', v) :: r => if Nat.eqb k k' then Some v else dget k r end.
Fixpoint dset (k: nat) (v: comp) (d: dict) : dict :=
  match d with
  | [] => [(k, v)]
  | (k', v') :: r => if Nat.eqb k k' then (k, v) :: r else (k', v') :: dset k v r
  end.
Fixpoint dmax (d: dict) : nat :=
  match d with [] => 0 | (k, _) :: r => Nat.max k (dmax r) end.
Definition sdict (s: sstate) : dict := match s with None => [] | Some d => d end.
(* __len__: 0 if noValue or empty, else max(index)+1 *)
Definition slen (s: sstate) : nat :=
  match s with None | Some [] => 0 | Some d => S (dmax d) end.
Definition sget (s: sstate) (k: nat) : option comp := dget k (sdict s).
(* .components: values by ascending index (holes skipped) *)
Definition key_leb (a b: nat * comp) : bool := Nat.leb (fst a) (fst b).
Definition components (d: dict) : list comp := map snd (sort_by key_leb d).
Fixpoint enumerate_from {A} (i: nat) (l: list A) : list (nat * A) :=
  match l with [] => [] | x :: r => (i, x) :: enumerate_from (S i) r end.
Definition enumerate {A} (l: list A) : list (nat * A) := enumerate_from 0 l.

(* `if idx < 0: idx = len(self) + idx; if idx < 0: raise PyAsn1Error` *)
Definition norm_idx (i: Z) (len: nat) : option nat :=
  if Z.ltb i 0 then
    let j := (i + Z.of_nat len)%Z in if Z.ltb j 0 then None else Some (Z.to_nat j)
  else Some (Z.to_nat i).

(* value resolution of setComponentByPosition; ct = a componentType (INTEGER) is declared *)
Definition sof_resolve (ct: bool) (cur: option comp) (v: option pyval) : res comp :=
  match v with
  | None => if ct then Ok CSchema                     (* componentType.clone() *)
            else match cur with None => Err ELib      (* 'Component type not defined' *)
                 | Some _ => Err EUnmodelled end      (* stores noValue in the dict *)
  | Some (PInt z) => if ct then Ok (CVal z)
                     else match cur with Some _ => Ok (CVal z)   (* currentValue.clone(value=) *)
                          | None => Err ELib end
  | Some (PAsn z) => Ok (CVal z)
  | Some PBad => Err ELib
  | Some PBadAsn => if ct then Err ELib else Err EUnmodelled
  end.

Definition sof_set (ct: bool) (s: sstate) (i: Z) (v: option pyval) : res sstate :=
  match norm_idx i (slen s) with
  | None => Err ELib
  | Some k =>
      match sof_resolve ct (sget s k) v with
      | Ok c => Ok (Some (dset k c (sdict s)))
      | Err e => Err e
      end
  end.

(* getComponentByPosition(idx, instantiate=inst) with default=noValue *)
Definition sof_get (ct: bool) (s: sstate) (i: Z) (inst: bool) : res (sstate * slot) :=
  match norm_idx i (slen s) with
  | None => Err ELib
  | Some k =>
      match sget s k with
      | Some c => Ok (s, Some c)
      | None =>
          if inst then
            match sof_set ct s (Z.of_nat k) None with
            | Ok s' => Ok (s', sget s' k)
            | Err e => Err e
            end
          else Ok (s, None)
      end
  end.

(* successive positional assignments; stops at the first failure keeping what was stored *)
Fixpoint sof_set_many (ct: bool) (s: sstate) (k: nat) (vs: list pyval) : sstate * option err :=
  match vs with
  | [] => (s, None)
  | v :: r => match sof_set ct s (Z.of_nat k) (Some v) with
              | Ok s' => sof_set_many ct s' (S k) r
              | Err e => (s, Some e)
              end
  end.

Definition sof_append (ct: bool) (s: sstate) (v: pyval) : res sstate :=
  sof_set ct s (Z.of_nat (length (sdict s))) (Some v).       (* pos = len(dict), not len(self) *)

Fixpoint sof_extend (ct: bool) (s: sstate) (vs: list pyval) : sstate * option err :=
  match vs with
  | [] => (s, None)
  | v :: r => match sof_append ct s v with
              | Ok s' => sof_extend ct s' r
              | Err e => (s, Some e)
              end
  end.

(* reads idx = from, from+1, ... (n of them) with instantiate=True, as __iter__ does *)
Fixpoint sof_iter (ct: bool) (s: sstate) (from n: nat) (acc: list slot) : sstate * res (list slot) :=
  match n with
  | O => (s, Ok (rev acc))
  | S n' => match sof_get ct s (Z.of_nat from) true with
            | Ok (s', c) => sof_iter ct s' (S from) n' (c :: acc)
            | Err e => (s, Err e)
            end
  end.

(* `v in s`: the generator is consumed until an element equals v; a placeholder met on the way
   raises (NoValue.__eq__) *)
Fixpoint sof_in (ct: bool) (s: sstate) (from n: nat) (z: Z) : sstate * out :=
  match n with
  | O => (s, OBool false)
  | S n' => match sof_get ct s (Z.of_nat from) true with
            | Ok (s', Some (CVal z')) => if Z.eqb z' z then (s', OBool true) else sof_in ct s' (S from) n' z
            | Ok (s', _) => (s', ORaise ELib)
            | Err e => (s, ORaise e)
            end
  end.

Definition has_schema (l: list comp) : bool :=
  existsb (fun c => match c with CSchema => true | _ => false end) l.
Definition comp_z (c: comp) : Z := match c with CVal z => z | CSchema => 0%Z end.
Fixpoint count_z (z: Z) (l: list comp) : nat :=
  match l with [] => 0 | c :: r => (if Z.eqb (comp_z c) z then 1 else 0) + count_z z r end.
(* list.index over (index, value) pairs in dict order: first value equal to z *)
Fixpoint index_z (z: Z) (d: dict) : out :=
  match d with
  | [] => ORaise EValue
  | (k, CVal z') :: r => if Z.eqb z' z then ONat k else index_z z r
  | (_, CSchema) :: _ => ORaise EValue         (* PyAsn1Error turned into ValueError *)
  end.
(* list == list: False on different lengths without looking at the elements *)
Fixpoint eq_elems (l: list slot) (o: list Z) : out :=
  match l, o with
  | [], [] => OBool true
  | Some (CVal z) :: l', z' :: o' => if Z.eqb z z' then eq_elems l' o' else OBool false
  | _ :: _, _ :: _ => ORaise ELib
  | _, _ => OBool false
  end.
Definition eq_list (l: list slot) (o: list Z) : out :=
  if Nat.eqb (length l) (length o) then eq_elems l o else OBool false.

Definition sof_isvalue (s: sstate) : bool :=
  match s with
  | None => false
  | Some d => Nat.eqb (length d) (slen s) && forallb (fun kv => is_value (Some (snd kv))) d
  end.

(* encoder: `for idx, component in enumerate(value): chunk = encodeFun(component)`; a placeholder
   makes encodeFun raise after the holes before it were instantiated *)
Fixpoint sof_chunks (ct: bool) (s: sstate) (from n: nat) (acc: list bytes) : sstate * res (list bytes) :=
  match n with
  | O => (s, Ok (rev acc))
  | S n' => match sof_get ct s (Z.of_nat from) true with
            | Ok (s', Some (CVal z)) => sof_chunks ct s' (S from) n' (int_tlv tag_integer z :: acc)
            | Ok (s', _) => (s', Err ELib)
            | Err e => (s, Err e)
            end
  end.
(* isset: SET OF (DER sorts the element encodings) *)
Definition of_der (isset: bool) (chunks: list bytes) : res bytes :=
  let cs := if isset then (match chunks with _ :: _ :: _ => sort_by padded_leb chunks | _ => chunks end)
            else chunks in
  tlv (if isset then tag_set else tag_sequence) true (concat cs).

Inductive sop :=
| SSetItem (i: Z) (v: pyval)                    (* s[i] = v *)
| SSetPos (i: Z) (v: option pyval)              (* s.setComponentByPosition(i[, v]) *)
| SSetSlice (a b: nat) (vs: list pyval)         (* s[a:b] = vs *)
| SAppend (v: pyval)
| SExtend (vs: list pyval)
| SSort (reverse: bool)
| SReverse
| SClear
| SReset
| SClone (cloneValueFlag: bool)                 (* s = s.clone(cloneValueFlag=...) *)
| SLen
| SIter                                         (* list(iter(s)) *)
| SIn (z: Z)
| SGetItem (i: Z)
| SGetPos (i: Z) (inst: bool)                   (* s.getComponentByPosition(i, instantiate=inst) *)
| SGetSlice (a b: nat)
| SCount (z: Z)
| SIndex (z: Z)
| SPretty
| SEq (l: list Z)                               (* s == [..] *)
| SIsValue
| SEncode.                                      (* der.encode(s) *)

Definition to_index (e: err) : err := match e with EMalformed => EIndex | _ => e end.
Definition to_key (e: err) : err := match e with EMalformed => EKey | _ => e end.

(* range(len)[a:b] for 0 <= a, b: first index and how many *)
Definition slice_range (len a b: nat) : nat * nat :=
  let a' := Nat.min a len in let b' := Nat.min b len in (a', b' - a').

Definition sof_step (ct isset: bool) (s: sstate) (o: sop) : sstate * out :=
  match o with
  | SSetItem i v => match sof_set ct s i (Some v) with
                    | Ok s' => (s', ORet) | Err e => (s, ORaise (to_index e)) end
  | SSetPos i v => match sof_set ct s i v with
                   | Ok s' => (s', ORet) | Err e => (s, ORaise e) end
  | SSetSlice a b vs =>
      let '(start, n) := slice_range (slen s) a b in
      if Nat.eqb (slen s) 0 || negb (Nat.eqb n 0) then
        match sof_set_many ct s (if Nat.eqb (slen s) 0 then 0 else start) vs with
        | (s', None) => (s', ORet)
        | (s', Some e) => (s', ORaise (to_index e))
        end
      else (s, ORaise EIndex)                        (* indices[idx][0] on an empty tuple *)
  | SAppend v => match sof_append ct s v with
                 | Ok s' => (s', ORet) | Err e => (s, ORaise (to_index e)) end
  | SExtend vs => match sof_extend ct s vs with
                  | (s', None) => (Some (sdict s'), ORet)
                  | (s', Some e) => (s', ORaise (to_index e))
                  end
  | SSort reverse =>
      match s with
      | None => (s, ORaise ELib)
      | Some d =>
          let vals := map snd d in
          match vals with
          | _ :: _ :: _ =>
              if has_schema vals then (s, ORaise ELib)
              else let srt := zsort (map comp_z vals) in
                   (Some (enumerate (map CVal (if reverse then rev srt else srt))), ORet)
          | _ => (Some (enumerate vals), ORet)
          end
      end
  | SReverse =>
      match s with
      | None => (s, ORaise ELib)
      | Some d => (Some (enumerate (rev (components d))), ORet)
      end
  | SClear => (Some [], ORet)
  | SReset => (None, ORet)
  | SClone flag =>
      if flag then
        match s with
        | None => (None, ORet)
        | Some d => (Some (fold_left (fun acc kv => dset (fst kv) (snd kv) acc) d []), ORet)
        end
      else (None, ORet)
  | SLen => (s, ONat (slen s))
  | SIter => match sof_iter ct s 0 (slen s) [] with
             | (s', Ok l) => (s', OSlots l) | (s', Err e) => (s', ORaise e) end
  | SIn z => sof_in ct s 0 (slen s) z
  | SGetItem i => match sof_get ct s i true with
                  | Ok (s', c) => (s', OSlot c) | Err e => (s, ORaise (to_index e)) end
  | SGetPos i inst => match sof_get ct s i inst with
                      | Ok (s', c) => (s', OSlot c) | Err e => (s, ORaise e) end
  | SGetSlice a b =>
      let '(start, n) := slice_range (slen s) a b in
      match sof_iter ct s start n [] with
      | (s', Ok l) => (s', OSlots l) | (s', Err e) => (s', ORaise (to_index e)) end
  | SCount z =>
      match s with
      | None => (s, ORaise ELib)
      | Some d => if has_schema (map snd d) then (s, ORaise ELib) else (s, ONat (count_z z (map snd d)))
      end
  | SIndex z =>
      match s with
      | None => (s, ORaise ELib)
      | Some d => (s, index_z z d)
      end
  | SPretty => (s, ORet)
  | SEq l =>
      match s with
      | None => (s, ORaise ELib)
      | Some d => (s, eq_list (map Some (components d)) l)
      end
  | SIsValue => (s, OBool (sof_isvalue s))
  | SEncode =>
      match sof_chunks ct s 0 (slen s) [] with
      | (s', Ok cs) => (s', out_of_bytes (of_der isset cs))
      | (s', Err e) => (s', ORaise e)
      end
  end.

Definition sof_reader (o: sop) : bool :=
  match o with
  | SLen | SIter | SIn _ | SGetItem _ | SGetPos _ _ | SGetSlice _ _ | SCount _ | SIndex _
  | SPretty | SEq _ | SIsValue | SEncode => true
  | _ => false
  end.

Fixpoint sof_run (ct isset: bool) (s: sstate) (ops: list sop) : sstate * list out :=
  match ops with
  | [] => (s, [])
  | o :: r => let '(s', x) := sof_step ct isset s o in
              let '(s'', xs) := sof_run ct isset s' r in (s'', x :: xs)
  end.

Definition dict_eqb (a b: dict) : bool :=
  list_eqb (fun x y => Nat.eqb (fst x) (fst y) && comp_eqb (snd x) (snd y)) a b.
Definition sstate_eqb (a b: sstate) : bool :=
  match a, b with None, None => true | Some x, Some y => dict_eqb x y | _, _ => false end.

(* correspondence: the trace the implementation produced, step by step; index of the first
   disagreement (None = all agree).  A step the model declines to predict ends the comparison. *)
Fixpoint sof_first_bad (ct isset: bool) (s: sstate) (ops: list sop) (tr: list (out * sstate)) (i: nat)
  : option nat :=
  match ops, tr with
  | [], [] => None
  | o :: ops', (eo, es) :: tr' =>
      let '(s', x) := sof_step ct isset s o in
      if out_unmodelled x then None
      else if out_eqb x eo && sstate_eqb s' es then sof_first_bad ct isset s' ops' tr' (S i)
      else Some i
  | _, _ => Some i
  end.
Definition sof_check ct isset ops tr : bool :=
  match sof_first_bad ct isset None ops tr 0 with None => true | Some _ => false end.

(* ------------------------------------------------------------------------------------------ *)
(* SEQUENCE / SET with declared components: `_componentValues` is noValue, [] or a list of    *)
(* len(componentType) slots.                                                                  *)

Inductive fkind := FReq | FOpt | FDef (d: Z).
Definition field := (fkind * tag)%type.
Definition rcfg := list field.
Definition rstate := option (list slot).

(* Python sequence indexing (negative positions count from the end) *)
Definition pyidx (i: Z) (n: nat) : option nat :=
  if Z.ltb i 0 then
    (if Z.leb (- Z.of_nat n) i then Some (Z.to_nat (i + Z.of_nat n)) else None)
  else if Z.ltb i (Z.of_nat n) then Some (Z.to_nat i) else None.

Fixpoint set_nth {A} (k: nat) (x: A) (l: list A) : list A :=
  match l, k with
  | [], _ => []
  | _ :: r, O => x :: r
  | y :: r, S k' => y :: set_nth k' x r
  end.
Definition rslots (s: rstate) : list slot := match s with None => [] | Some l => l end.
Definition rslot_at (s: rstate) (i: Z) : slot :=
  match pyidx i (length (rslots s)) with Some k => nth k (rslots s) None | None => None end.
Definition kind_at (cfg: rcfg) (i: Z) : option fkind :=
  match pyidx i (length cfg) with Some k => option_map fst (nth_error cfg k) | None => None end.

Definition rec_resolve (fk: fkind) (v: option pyval) : res comp :=
  match v with
  | None => Ok (match fk with FDef d => CVal d | _ => CSchema end)   (* the declared type object *)
  | Some (PInt z) | Some (PAsn z) => Ok (CVal z)
  | Some PBad | Some PBadAsn => Err ELib
  end.

(* SequenceAndSetBase.setComponentByPosition; [rc] is the value resolution for the declared kind *)
Definition rec_store (cfg: rcfg) (s: rstate) (i: Z) (rc: fkind -> res comp) : res rstate :=
  let n := length cfg in
  let cvs0 := rslots s in
  match (match pyidx i (length cvs0) with
         | Some _ => Ok cvs0
         | None => if Z.ltb (Z.of_nat n) i then Err ELib    (* 'component index out of range' *)
                   else Ok (repeat None n)
         end) with
  | Err e => Err e
  | Ok cvs =>
      match kind_at cfg i with
      | None => Err ELib                                     (* 'Type position out of range' *)
      | Some fk =>
          match rc fk with
          | Err e => Err e
          | Ok c => match pyidx i (length cvs) with
                    | Some k => Ok (Some (set_nth k (Some c) cvs))
                    | None => Err ELib
                    end
          end
      end
  end.
Definition rec_set (cfg: rcfg) (s: rstate) (i: Z) (v: option pyval) : res rstate :=
  rec_store cfg s i (fun fk => rec_resolve fk v).

(* SequenceAndSetBase.getComponentByPosition; [setter] is the (virtual) setComponentByPosition *)
Definition gen_get {St} (slots: St -> rstate) (setter: St -> Z -> option pyval -> res St)
           (s: St) (i: Z) (inst: bool) : res (St * slot) :=
  let cur := rslot_at (slots s) i in
  if inst then
    match cur with
    | Some _ => Ok (s, cur)
    | None => match setter s i None with
              | Ok s' => Ok (s', rslot_at (slots s') i)
              | Err e => Err e
              end
    end
  else Ok (s, if is_value cur then cur else None).

Definition rec_get (cfg: rcfg) : rstate -> Z -> bool -> res (rstate * slot) :=
  gen_get (fun s => s) (rec_set cfg).

Definition pos_of_name (cfg: rcfg) (n: nat) : res Z :=
  if Nat.ltb n (length cfg) then Ok (Z.of_nat n) else Err ELib.      (* 'Name %s not found' *)

(* values(): self[idx] for every declared position, instantiating what is absent *)
Fixpoint gen_values {St} (get: St -> Z -> bool -> res (St * slot)) (s: St) (from n: nat) (acc: list slot)
  : St * res (list slot) :=
  match n with
  | O => (s, Ok (rev acc))
  | S n' => match get s (Z.of_nat from) true with
            | Ok (s', c) => gen_values get s' (S from) n' (c :: acc)
            | Err e => (s, Err (to_index e))
            end
  end.

Definition rec_isvalue (cfg: rcfg) (s: rstate) : bool :=
  match s with
  | None => false
  | Some l =>
      forallb (fun kf => match fst (snd kf) with
                         | FReq => negb (Nat.eqb (length l) 0) && is_value (nth (fst kf) l None)
                         | _ => true end)
              (enumerate cfg)
  end.

(* SequenceEncoder._components (ber/encoder.py): an OPTIONAL or DEFAULT component is asked for with
   getComponentByPosition(idx, default=None, instantiate=False), so the encoder leaves those slots as
   they are; a required component is read as value[idx], which instantiates a placeholder *)
Definition enc_read {St} (get: St -> Z -> bool -> res (St * slot)) (s: St) (from: nat) (fk: fkind)
  : res (St * slot) :=
  match fk with
  | FReq => match get s (Z.of_nat from) true with Ok r => Ok r | Err e => Err (to_index e) end
  | _ => get s (Z.of_nat from) false
  end.

(* components the encoder keeps: OPTIONAL/DEFAULT without a value and DEFAULT equal to the default are left out *)
Definition enc_keep (fk: fkind) (c: slot) : bool :=
  match fk, c with
  | FOpt, Some (CVal _) => true
  | FOpt, _ => false
  | FDef d, Some (CVal z) => negb (Z.eqb z d)
  | FDef _, _ => false
  | FReq, _ => true
  end.
Definition enc_slot (t: tag) (c: slot) : res bytes :=
  match c with Some (CVal z) => Ok (int_tlv t z) | _ => Err ELib end.

(* SequenceEncoder: the components come from a generator, so a required placeholder raises before
   later positions are looked at *)
Fixpoint seq_chunks {St} (get: St -> Z -> bool -> res (St * slot)) (s: St) (from: nat) (fs: list field)
         (acc: list bytes) : St * res (list bytes) :=
  match fs with
  | [] => (s, Ok (rev acc))
  | (fk, t) :: r =>
      match enc_read get s from fk with
      | Err e => (s, Err e)
      | Ok (s', c) =>
          if enc_keep fk c then
            match enc_slot t c with
            | Ok b => seq_chunks get s' (S from) r (b :: acc)
            | Err e => (s', Err e)
            end
          else seq_chunks get s' (S from) r acc
      end
  end.
(* SetEncoder: every component is collected first (same reads) ... *)
Fixpoint enc_collect {St} (get: St -> Z -> bool -> res (St * slot)) (s: St) (from: nat) (fs: list field)
         (acc: list slot) : St * res (list slot) :=
  match fs with
  | [] => (s, Ok (rev acc))
  | (fk, _) :: r =>
      match enc_read get s from fk with
      | Err e => (s, Err e)
      | Ok (s', c) => enc_collect get s' (S from) r (c :: acc)
      end
  end.
(* ... then sorted by the tag the encoding starts with, and encoded *)
Definition tag_leb (a b: tag) : bool := negb (tag_ltb b a).
Fixpoint collect_errs (l: list (res bytes)) (acc: list bytes) : res (list bytes) :=
  match l with
  | [] => Ok (rev acc)
  | Ok b :: r => collect_errs r (b :: acc)
  | Err e :: _ => Err e
  end.
Definition set_chunks (cfg: rcfg) (vals: list slot) : res (list bytes) :=
  let kept := filter (fun fc => enc_keep (fst (fst fc)) (snd fc)) (combine cfg vals) in
  let sorted := sort_by (fun x y => tag_leb (snd (fst x)) (snd (fst y))) kept in
  collect_errs (map (fun fc => enc_slot (snd (fst fc)) (snd fc)) sorted) [].

Inductive rop :=
| RSetItem (k: key) (v: pyval)                   (* r[k] = v *)
| RSetPos (i: Z) (v: option pyval)               (* setComponentByPosition(i[, v]) *)
| RSetName (n: nat) (v: option pyval)            (* setComponentByName *)
| RSetType (t: nat) (v: option pyval)            (* Set/Choice.setComponentByType *)
| RClear
| RReset
| RClone (cloneValueFlag: bool)
| RLen
| RIter                                          (* list(iter(r)) *)
| RKeys
| RIn (n: nat)                                   (* name in r *)
| RGetItem (k: key)
| RGetPos (i: Z) (inst: bool)
| RGetName (n: nat) (inst: bool)
| RGetType (t: nat) (inst: bool)
| RValues
| RItems
| RPretty
| REq (l: list Z)                                (* r == [..]   (CHOICE: c == l[0]) *)
| RIsValue
| REncode
| RGetComponent                                  (* Choice.getComponent() *)
| RGetName0.                                     (* Choice.getName() *)

Definition names (cfg: rcfg) : list nat := seq 0 (length cfg).

Definition lift_set {St} (r: res St) (s: St) (conv: err -> err) : St * out :=
  match r with Ok s' => (s', ORet) | Err e => (s, ORaise (conv e)) end.
Definition lift_get {St} (r: res (St * slot)) (s: St) (conv: err -> err) : St * out :=
  match r with Ok (s', c) => (s', OSlot c) | Err e => (s, ORaise (conv e)) end.
Definition with_pos {St} (p: res Z) (s: St) (conv: err -> err) (f: Z -> St * out) : St * out :=
  match p with Ok i => f i | Err e => (s, ORaise (conv e)) end.
Definition noconv (e: err) : err := e.

Definition rec_clone (cfg: rcfg) (s: rstate) : rstate :=
  (* a new object ([]), then setComponentByPosition(idx, component) for every slot that is not noValue *)
  fold_left (fun acc kc =>
               match snd kc with
               | None => acc
               | Some c => match rec_store cfg acc (Z.of_nat (fst kc)) (fun _ => Ok c) with
                           | Ok acc' => acc' | Err _ => acc end
               end)
            (enumerate (rslots s)) (Some []).

Definition rec_step (cfg: rcfg) (isset: bool) (s: rstate) (o: rop) : rstate * out :=
  let by_type_ok := isset in
  match o with
  | RSetItem (KPos i) v => lift_set (rec_set cfg s i (Some v)) s to_index
  | RSetItem (KName n) v =>
      with_pos (pos_of_name cfg n) s to_key (fun i => lift_set (rec_set cfg s i (Some v)) s to_key)
  | RSetPos i v => lift_set (rec_set cfg s i v) s noconv
  | RSetName n v =>
      with_pos (pos_of_name cfg n) s noconv (fun i => lift_set (rec_set cfg s i v) s noconv)
  | RSetType t v =>
      if by_type_ok then
        with_pos (pos_of_name cfg t) s noconv (fun i => lift_set (rec_set cfg s i v) s noconv)
      else (s, ORaise (ECrash AttributeError))
  | RClear => (Some [], ORet)
  | RReset => (None, ORet)
  | RClone flag => if flag then (rec_clone cfg s, ORet) else (Some [], ORet)
  | RLen => match s with None => (s, ORaise ELib) | Some l => (s, ONat (length l)) end
  | RIter | RKeys => (s, ONats (names cfg))
  | RIn n => (s, OBool (Nat.ltb n (length cfg)))
  | RGetItem (KPos i) => lift_get (rec_get cfg s i true) s to_index
  | RGetItem (KName n) =>
      with_pos (pos_of_name cfg n) s to_key (fun i => lift_get (rec_get cfg s i true) s to_key)
  | RGetPos i inst => lift_get (rec_get cfg s i inst) s noconv
  | RGetName n inst =>
      with_pos (pos_of_name cfg n) s noconv (fun i => lift_get (rec_get cfg s i inst) s noconv)
  | RGetType t inst =>
      if by_type_ok then
        with_pos (pos_of_name cfg t) s noconv (fun i => lift_get (rec_get cfg s i inst) s noconv)
      else (s, ORaise (ECrash AttributeError))
  | RValues => match gen_values (rec_get cfg) s 0 (length cfg) [] with
               | (s', Ok l) => (s', OSlots l) | (s', Err e) => (s', ORaise e) end
  | RItems => match gen_values (rec_get cfg) s 0 (length cfg) [] with
              | (s', Ok l) => (s', OItems (combine (names cfg) l)) | (s', Err e) => (s', ORaise e) end
  | RPretty => match s with None => (s, ORaise ELib) | Some _ => (s, ORet) end
  | REq l => match s with None => (s, ORaise ELib) | Some sl => (s, eq_list sl l) end
  | RIsValue => (s, OBool (rec_isvalue cfg s))
  | REncode =>
      if isset then
        match enc_collect (rec_get cfg) s 0 cfg [] with
        | (s', Ok vals) =>
            (s', out_of_bytes (match set_chunks cfg vals with
                               | Ok cs => tlv tag_set true (concat cs) | Err e => Err e end))
        | (s', Err e) => (s', ORaise e)
        end
      else
        match seq_chunks (rec_get cfg) s 0 cfg [] with
        | (s', Ok cs) => (s', out_of_bytes (tlv tag_sequence true (concat cs)))
        | (s', Err e) => (s', ORaise e)
        end
  | RGetComponent | RGetName0 => (s, ORaise EUnmodelled)
  end.

Definition rec_reader (o: rop) : bool :=
  match o with
  | RLen | RIter | RKeys | RIn _ | RGetItem _ | RGetPos _ _ | RGetName _ _ | RGetType _ _
  | RValues | RItems | RPretty | REq _ | RIsValue | REncode | RGetComponent | RGetName0 => true
  | _ => false
  end.

Fixpoint rec_run (cfg: rcfg) (isset: bool) (s: rstate) (ops: list rop) : rstate * list out :=
  match ops with
  | [] => (s, [])
  | o :: r => let '(s', x) := rec_step cfg isset s o in
              let '(s'', xs) := rec_run cfg isset s' r in (s'', x :: xs)
  end.

Definition rstate_eqb (a b: rstate) : bool :=
  match a, b with None, None => true | Some x, Some y => list_eqb slot_eqb x y | _, _ => false end.

Fixpoint rec_first_bad (cfg: rcfg) (isset: bool) (s: rstate) (ops: list rop)
         (tr: list (out * rstate)) (i: nat) : option nat :=
  match ops, tr with
  | [], [] => None
  | o :: ops', (eo, es) :: tr' =>
      let '(s', x) := rec_step cfg isset s o in
      if out_unmodelled x then None
      else if out_eqb x eo && rstate_eqb s' es then rec_first_bad cfg isset s' ops' tr' (S i)
      else Some i
  | _, _ => Some i
  end.
Definition rec_check cfg isset ops tr : bool :=
  match rec_first_bad cfg isset (Some []) ops tr 0 with None => true | Some _ => false end.

(* ------------------------------------------------------------------------------------------ *)
(* CHOICE: a Set plus `_currentIdx`.  setComponentByPosition re-selects and drops the previous *)
(* alternative; getComponentByPosition of a non-selected alternative goes through the          *)
(* inherited getter, whose instantiation calls the CHOICE setter: the read re-selects (F18a).  *)

Record cstate := mkC { c_cur: option nat; c_cv: rstate }.

Definition ch_set (cfg: rcfg) (s: cstate) (i: Z) (v: option pyval) : res cstate :=
  match rec_set cfg (c_cv s) i v with
  | Err e => Err e
  | Ok cv' =>
      match pyidx i (length (rslots cv')) with      (* F18g: negative positions are normalised *)
      | None => Err ELib
      | Some k =>
          let cv'' := match c_cur s with
                      | Some old => if Nat.eqb old k then cv'
                                    else Some (set_nth old None (rslots cv'))
                      | None => cv'
                      end in
          Ok (mkC (Some k) cv'')
      end
  end.

Definition ch_get (cfg: rcfg) (s: cstate) (i: Z) (inst: bool) : res (cstate * slot) :=
  match c_cur s with
  | Some k => if Z.eqb (Z.of_nat k) i then Ok (s, nth k (rslots (c_cv s)) None)
              else gen_get c_cv (ch_set cfg) s i inst
  | None => gen_get c_cv (ch_set cfg) s i inst
  end.

Definition ch_current (s: cstate) : slot :=
  match c_cur s with Some k => nth k (rslots (c_cv s)) None | None => None end.
Definition ch_isvalue (s: cstate) : bool := is_value (ch_current s).

Definition ch_step (cfg: rcfg) (s: cstate) (o: rop) : cstate * out :=
  match o with
  | RSetItem (KPos i) v => lift_set (ch_set cfg s i (Some v)) s to_index
  | RSetItem (KName n) v =>
      with_pos (pos_of_name cfg n) s to_key (fun i => lift_set (ch_set cfg s i (Some v)) s to_key)
  | RSetPos i v => lift_set (ch_set cfg s i v) s noconv
  | RSetName n v | RSetType n v =>
      with_pos (pos_of_name cfg n) s noconv (fun i => lift_set (ch_set cfg s i v) s noconv)
  | RClear => (mkC None (Some []), ORet)
  | RReset => (mkC None None, ORet)                                   (* F18e *)
  | RClone flag =>
      if flag then
        match c_cur s, ch_current s with
        | Some k, Some c => (mkC (Some k) (Some (set_nth k (Some c) (repeat None (length cfg)))), ORet)
        | _, _ => (mkC None (Some []), ORet)
        end
      else (mkC None (Some []), ORet)
  | RLen => (s, ONat (match c_cur s with Some _ => 1 | None => 0 end))
  | RIter | RKeys => (s, ONats (match c_cur s with Some k => [k] | None => [] end))   (* F18c *)
  | RIn n => (s, OBool (match c_cur s with Some k => Nat.eqb k n | None => false end))
  | RGetItem (KPos i) => lift_get (ch_get cfg s i true) s to_index
  | RGetItem (KName n) =>
      with_pos (pos_of_name cfg n) s to_key (fun i => lift_get (ch_get cfg s i true) s to_key)
  | RGetPos i inst => lift_get (ch_get cfg s i inst) s noconv
  | RGetName n inst | RGetType n inst =>
      with_pos (pos_of_name cfg n) s noconv (fun i => lift_get (ch_get cfg s i inst) s noconv)
  | RValues => (s, OSlots (match c_cur s with Some _ => [ch_current s] | None => [] end))
  | RItems => (s, OItems (match c_cur s with Some k => [(k, ch_current s)] | None => [] end))
  | RPretty => match c_cv s with None => (s, ORaise ELib) | Some _ => (s, ORet) end
  | REq l =>
      match c_cv s with
      | None => (s, ORaise ELib)                      (* bool(noValue) *)
      | Some [] => (s, OBool false)                   (* NotImplemented -> identity *)
      | Some _ => match ch_current s, l with
                  | Some (CVal z), z' :: _ => (s, OBool (Z.eqb z z'))
                  | _, _ => (s, ORaise ELib)
                  end
      end
  | RIsValue => (s, OBool (ch_isvalue s))
  | REncode =>
      match c_cur s with
      | None => (s, ORaise ELib)
      | Some k => (s, out_of_bytes (enc_slot (snd (nth k cfg (FReq, tag_integer))) (ch_current s)))
      end
  | RGetComponent => match c_cur s with None => (s, ORaise ELib) | Some _ => (s, OSlot (ch_current s)) end
  | RGetName0 => match c_cur s with None => (s, ORaise ELib) | Some k => (s, ONat k) end
  end.

Fixpoint ch_run (cfg: rcfg) (s: cstate) (ops: list rop) : cstate * list out :=
  match ops with
  | [] => (s, [])
  | o :: r => let '(s', x) := ch_step cfg s o in
              let '(s'', xs) := ch_run cfg s' r in (s'', x :: xs)
  end.

Definition ch_init := mkC None (Some []).
Definition cstate_eqb (a b: cstate) : bool :=
  (match c_cur a, c_cur b with None, None => true | Some x, Some y => Nat.eqb x y | _, _ => false end)
  && rstate_eqb (c_cv a) (c_cv b).

Fixpoint ch_first_bad (cfg: rcfg) (s: cstate) (ops: list rop) (tr: list (out * cstate)) (i: nat)
  : option nat :=
  match ops, tr with
  | [], [] => None
  | o :: ops', (eo, es) :: tr' =>
      let '(s', x) := ch_step cfg s o in
      if out_unmodelled x then None
      else if out_eqb x eo && cstate_eqb s' es then ch_first_bad cfg s' ops' tr' (S i)
      else Some i
  | _, _ => Some i
  end.
Definition ch_check cfg ops tr : bool :=
  match ch_first_bad cfg ch_init ops tr 0 with None => true | Some _ => false end.

(* how many alternatives hold anything at all (value or placeholder) *)
Definition ch_occupied (s: cstate) : nat :=
  length (filter (fun c => match c with Some _ => true | None => false end) (rslots (c_cv s))).

(* ------------------------------------------------------------------------------------------ *)
(* a scalar object: None = valueless (schema).  Arithmetic, conversion and comparison all go   *)
(* through `_value`, which is then the noValue sentinel whose every operation raises           *)
Definition scalar := option Z.
Definition scalar_unop {A} (x: scalar) (f: Z -> A) : res A :=
  match x with Some z => Ok (f z) | None => Err ELib end.
Definition scalar_binop {A} (x y: scalar) (f: Z -> Z -> A) : res A :=
  match x, y with Some a, Some b => Ok (f a b) | _, _ => Err ELib end.
Definition scalar_cmp (x y: scalar) (f: Z -> Z -> bool) : res bool := scalar_binop x y f.

(* Open types (ANY DEFINED BY): the wrapping done by the SEQUENCE/SET encoders of
   pyasn1/codec/{ber,cer}/encoder.py and the second pass of
   ConstructedPayloadDecoderBase.valueDecoder / indefLenValueDecoder (pyasn1/codec/ber/decoder.py),
   on top of the codec model (Model/Enc.v, Model/Dec.v).  Definitions only.

   The encoders are modelled as repaired by fixes/F50.diff (a component is left unwrapped only
   when it already is a value of the wrapping type) and fixes/F51.diff (the CER/DER SET encoder
   hands the element wrapper to an open SET OF/SEQUENCE OF member). *)
From PV Require Export Model.Types Model.Proc Model.Enc Model.Dec Model.Obs.
Local Open Scope N_scope.

(* ---------- type maps: governing value -> type ---------- *)

(* dict lookup by a governing INTEGER/ENUMERATED/OBJECT IDENTIFIER value (hash and == of the value) *)
Definition gov_eqb (a b: val) : bool :=
  match a, b with
  | VInt x, VInt y => Z.eqb x y
  | VOid x, VOid y => list_eqb N.eqb x y
  | _, _ => false
  end.

Definition omap := list (val * ty).

Fixpoint omap_find (g: val) (m: omap) : option ty :=
  match m with
  | [] => None
  | (k, t) :: r => if gov_eqb g k then Some t else omap_find g r
  end.

(* try: openTypes[governingValue]  except KeyError: namedType.openType[governingValue] *)
Definition resolve_type (override dflt: omap) (g: val) : option ty :=
  match omap_find g override with
  | Some t => Some t
  | None => omap_find g dflt
  end.

(* ---------- the open record ---------- *)

Definition rec_fields (T: ty) : option (list (presence * ty)) :=
  match base_of T with TSeq fs | TSet fs => Some fs | _ => None end.

(* the element type of an open SET OF / SEQUENCE OF member *)
Definition list_elem (ft: ty) : option ty :=
  match base_of ft with TSeqOf t | TSetOf t => Some t | _ => None end.

(* the wrapping type: the member itself, or its element type *)
Definition wrap_type (ft: ty) : ty := match list_elem ft with Some t => t | None => ft end.

(* holdsOpenTypeBlob(wrapType, component): the component is a value of the wrapping type already
   (same typeId - ANY - and same tag set), so it is encoded as it is *)
Definition holds_blob (wrapT innerT: ty) : bool :=
  is_any innerT && tagset_eqb (tagset_of' wrapT) (tagset_of' innerT).

Definition omit_flag (cd: enc_codec) (fl: enc_flags) : bool :=
  match cd with EcSeq => ef_omit_empty fl | EcSetCer | EcSetDer => true | _ => false end.
Definition sorts_members (cd: enc_codec) : bool :=
  match cd with EcSetCer | EcSetDer => true | _ => false end.
Definition is_opt (p: presence) : bool := match p with Opt => true | _ => false end.

(* the options the encode call of a record member gets (ifNotEmpty follows OPTIONAL under CER/DER) *)
Definition member_opts (c: codec) (defm: bool) (chunk: N) (T: ty) (p: presence) : res eopts :=
  let o := fix_opts c (mkOpts defm chunk false) in
  do ce <- concrete_encoder c T;
  Ok (mkOpts (o_def o) (o_chunk o) (omit_flag (fst ce) (snd ce) && is_opt p)).
(* the options an element of a SET OF / SEQUENCE OF member gets (ifNotEmpty concerns the list only) *)
Definition elem_opts (c: codec) (defm: bool) (chunk: N) : eopts :=
  let o := fix_opts c (mkOpts defm chunk false) in mkOpts (o_def o) (o_chunk o) false.

(* chunk = encodeFun(component, **options); wrapped unless it is a blob already: the value of the
   (possibly tagged) ANY that carries it *)
Definition wrap_inner (c: codec) (o: eopts) (wrapT: ty) (inner: ty * val) : res val :=
  let '(Ti, xi) := inner in
  if holds_blob wrapT Ti then Ok xi
  else do chunk <- enc c Ti o xi; Ok (VAny chunk).

Fixpoint wrap_inners (c: codec) (o: eopts) (wrapT: ty) (inners: list (ty * val)) : res (list val) :=
  match inners with
  | [] => Ok []
  | i :: r => do x <- wrap_inner c o wrapT i; do xs <- wrap_inners c o wrapT r; Ok (x :: xs)
  end.

(* the value of the open member as the record encoder sees it after wrapping *)
Definition open_member (c: codec) (defm: bool) (chunk: N) (T: ty) (p: presence) (ft: ty)
           (inners: list (ty * val)) : res val :=
  if negb (is_any (wrap_type ft)) then Err EUnmodelled else
  match list_elem ft with
  | Some t => do xs <- wrap_inners c (elem_opts c defm chunk) t inners; Ok (VList xs)
  | None =>
      match inners with
      | [i] => do o <- member_opts c defm chunk T p; wrap_inner c o ft i
      | _ => Err EUnmodelled
      end
  end.

(* sorted(comps, key=...) is stable *)
Fixpoint ins_stable {A K} (ltb: K -> K -> bool) (key: A -> K) (x: A) (l: list A) : list A :=
  match l with
  | [] => [x]
  | y :: r => if ltb (key x) (key y) then x :: l else y :: ins_stable ltb key x r
  end.
Definition sort_stable {A K} (ltb: K -> K -> bool) (key: A -> K) (l: list A) : list A :=
  fold_left (fun acc x => ins_stable ltb key x acc) l [].

(* cer/der SetEncoder.encodeValue for a record with a scalar open member: the members are ordered by
   the tag of the component *value* - for the open member that is the typed inner value, not the ANY
   it is wrapped into - then encoded and, for the open member, wrapped *)
Section SortedSet.
  Variable c : codec.
  Variable dyn : bool.
  Variable o : eopts.            (* the record's own options, fixed modes applied *)
  Variable oi : nat.
  Variable open_part : option (tagset * bytes).

  Fixpoint set_parts (i: nat) (fs: list (presence * ty)) (vs: list (option val)) : res (list (tagset * bytes)) :=
    match fs with
    | [] => Ok []
    | (p, ft) :: fs' =>
        let ov := match vs with x :: _ => x | [] => None end in
        let vs' := match vs with _ :: r => r | [] => [] end in
        if Nat.eqb i oi then
          match open_part with
          | None => set_parts (S i) fs' vs'
          | Some kb => do rest <- set_parts (S i) fs' vs'; Ok (kb :: rest)
          end
        else
          let emit (x: val) :=
            do b <- enc c ft (mkOpts (o_def o) (o_chunk o) (is_opt p)) x;
            do rest <- set_parts (S i) fs' vs';
            Ok ((set_sort_key dyn ft x, b) :: rest) in
          match p, ov with
          | Opt, None => set_parts (S i) fs' vs'
          | Def _, None => set_parts (S i) fs' vs'
          | Def d, Some x => match val_py_eq x d with
                             | Some true => set_parts (S i) fs' vs'
                             | Some false => emit x
                             | None => Err EUnmodelled end
          | Req, None => Err EUnmodelled
          | _, Some x => emit x
          end
    end.
End SortedSet.

Definition enc_sorted_set (c: codec) (defm: bool) (chunk: N) (T: ty) (fs: list (presence * ty)) (oi: nat)
           (vs: list (option val)) (p: presence) (ft: ty) (inner: option (ty * val)) : res bytes :=
  let o := fix_opts c (mkOpts defm chunk false) in
  do ce <- concrete_encoder c T;
  let '(cd, fl) := ce in
  let dyn := match cd with EcSetDer => true | _ => false end in
  do ts <- tagset_of T;
  do part <- match inner with
             | None => Ok None
             | Some (Ti, xi) =>
                 do mo <- member_opts c defm chunk T p;
                 do w <- wrap_inner c mo ft (Ti, xi);
                 do b <- enc c ft mo w;
                 Ok (Some (set_sort_key dyn Ti xi, b))
             end;
  do parts <- set_parts c dyn o oi part 0 fs vs;
  frame ts (concat (map snd (sort_stable tagset_ltb fst parts))) true o (ef_indef fl).

(* encode(record) where member [oi] holds typed inner value(s) ([present] = false: OPTIONAL member
   left out).  Every record but a CER/DER SET with a scalar open member goes through the plain record
   encoder with the member's value replaced by the wrapped one. *)
Definition enc_open (c: codec) (defm: bool) (chunk: N) (T: ty) (oi: nat) (v: val)
           (present: bool) (inners: list (ty * val)) : res bytes :=
  match rec_fields T, v with
  | Some fs, VRec vs =>
      match nth_error fs oi with
      | None => Err EUnmodelled
      | Some (p, ft) =>
          if negb present then encode c defm chunk T (VRec (set_nth oi None vs)) else
          do ce <- concrete_encoder c T;
          if sorts_members (fst ce) && match list_elem ft with None => true | Some _ => false end then
            match inners with
            | [i] => if negb (is_any ft) then Err EUnmodelled
                     else enc_sorted_set c defm chunk T fs oi vs p ft (Some i)
            | _ => Err EUnmodelled
            end
          else
            do m <- open_member c defm chunk T p ft inners;
            encode c defm chunk T (VRec (set_nth oi (Some m) vs))
      end
  | _, _ => Err EUnmodelled
  end.

(* ---------- decoding ---------- *)

(* decodeFun(stream, asn1Spec=openType, allowEoo=...) on the octets of the ANY: one item of a fresh stream *)
Definition decode_eoo (c: codec) (allow: bool) (sp: option ty) (b: bytes) : res (dval * bytes) :=
  match run_complete (dec_call c (dec_fuel sp b) (match sp with Some T => STy T | None => SNone end) [] None allow false) b with
  | inl _ => Err EUnderrun
  | inr (Ok d, s) => Ok (d, avail s)
  | inr (Err e, _) => Err e
  end.

(* is the length of the record's own TLV (below [n] explicit tags) the indefinite form?  That is what
   sends the record to indefLenValueDecoder, whose second pass passes allowEoo=True *)
Fixpoint own_len_indef (n: nat) (b: bytes) : bool :=
  match dec_ident b with
  | None => false
  | Some (_, r) =>
      match dec_len r with
      | None => false
      | Some (l, r') => match n with
                        | O => match l with None => true | Some _ => false end
                        | S n' => own_len_indef n' r'
                        end
      end
  end.

(* the type a resolved record is read against: member [oi] now has the mapped type *)
Fixpoint retype_list (ft E: ty) : ty :=
  match ft with
  | TImp t x => TImp t (retype_list x E)
  | TExp t x => TExp t (retype_list x E)
  | TSeqOf _ => TSeqOf E
  | TSetOf _ => TSetOf E
  | _ => ft
  end.
Definition set_field (fs: list (presence * ty)) (oi: nat) (X: ty) : list (presence * ty) :=
  match nth_error fs oi with Some (p, _) => set_nth oi (p, X) fs | None => fs end.
Fixpoint subst_field (T: ty) (oi: nat) (X: ty) : ty :=
  match T with
  | TImp t x => TImp t (subst_field x oi X)
  | TExp t x => TExp t (subst_field x oi X)
  | TSeq fs => TSeq (set_field fs oi X)
  | TSet fs => TSet (set_field fs oi X)
  | _ => T
  end.

(* for pos, containerElement in enumerate(containerValue): containerValue[pos] = decode(element octets) *)
Fixpoint resolve_elems (c: codec) (allow: bool) (E: ty) (xs: list val) : res (list val) :=
  match xs with
  | [] => Ok []
  | x :: r =>
      match octets_of x with
      | None => Err EUnmodelled
      | Some b =>
          do d <- decode_eoo c allow (Some E) b;
          match fst d with
          | DV _ w => do r' <- resolve_elems c allow E r; Ok (w :: r')
          | _ => Err EUnmodelled          (* an end-of-octets object stored as an element *)
          end
      end
  end.

(* the second pass over a decoded record *)
Definition second_pass (c: codec) (allow: bool) (T: ty) (fs: list (presence * ty)) (gi oi: nat)
           (dflt override: omap) (vs: list (option val)) : res (ty * list (option val)) :=
  match nth_error fs oi with
  | None => Ok (T, vs)                         (* no open member *)
  | Some (p, ft) =>
      match nth oi vs None with
      | None => if is_opt p then Ok (T, vs)     (* namedType.isOptional and not isValue: continue *)
                else Err EUnmodelled
      | Some fv =>
          match nth gi vs None with
          | None => Err EUnmodelled             (* governing member not decoded *)
          | Some g =>
              match resolve_type override dflt g with
              | None => Ok (T, vs)              (* failed to resolve: the raw ANY stays *)
              | Some E =>
                  match list_elem ft, fv with
                  | Some _, VList xs =>
                      do ws <- resolve_elems c allow E xs;
                      Ok (subst_field T oi (retype_list ft E), set_nth oi (Some (VList ws)) vs)
                  | Some _, _ => Err EUnmodelled
                  | None, _ =>
                      match octets_of fv with
                      | None => Err EUnmodelled
                      | Some b =>
                          do d <- decode_eoo c allow (Some E) b;
                          match fst d with
                          | DV _ w => Ok (subst_field T oi E, set_nth oi (Some w) vs)
                          | DEoo => Ok (T, vs)  (* indefinite mode: the loop breaks before the assignment *)
                          | _ => Err EUnmodelled
                          end
                      end
                  end
              end
          end
      end
  end.

(* decode(bytes, asn1Spec=T, decodeOpenTypes=dot, openTypes=override).
   The first pass is the plain decode; the second pass runs when a caller map is given or
   decodeOpenTypes is set.  (In the implementation it runs inside the record's payload decoder; for
   a record that is the whole input nothing of the first pass can fail after it.) *)
Definition dec_open_after (c: codec) (T: ty) (gi oi: nat) (dflt override: omap) (dot: bool) (b: bytes)
           (first: res (dval * bytes)) : res (dval * bytes) :=
  do r <- first;
  let '(d, rest) := r in
  let resolve := dot || match override with [] => false | _ => true end in
  if negb resolve then Ok (d, rest) else
  match d, rec_fields T with
  | DV T0 (VRec vs), Some fs =>
      let allow := own_len_indef (length (tagset_of' T) - 1) b in
      do tv <- second_pass c allow T fs gi oi dflt override vs;
      Ok (DV (fst tv) (VRec (snd tv)), rest)
  | _, _ => Err EUnmodelled
  end.

Definition dec_open (c: codec) (T: ty) (gi oi: nat) (dflt override: omap) (dot: bool) (b: bytes)
  : res (dval * bytes) :=
  dec_open_after c T gi oi dflt override dot b (decode c (Some T) b).

(* ---------- comparing with the implementation ---------- *)

(* the record as the harness read it back (abstract content against the type the model names) *)
Definition open_code (model: res (dval * bytes)) (impl: res (aval * bytes)) : N :=
  match model, impl with
  | Err EUnmodelled, _ => 2
  | Ok (DV T v, r), Ok (a, r') => if aval_eqb (norm_bad (abs T v)) (norm_bad a) && bytes_eqb r r' then 0 else 1
  | Ok (_, _), Ok _ => 1
  | Err e, Err e' => if err_eqb e e' then 0 else 1
  | _, _ => 1
  end.

(* several outcome codes of one case: a disagreement wins over a decline *)
Definition worst (l: list N) : N :=
  if existsb (N.eqb 1) l then 1 else if existsb (N.eqb 2) l then 2 else 0.

(* ---------- computable class predicates of the findings that show through ---------- *)

(* no two leading zero octets: a complete encoding of a value of the universe never starts with the
   end-of-octets marker *)
Definition no_eoo_prefix (b: bytes) : bool :=
  match b with x :: y :: _ => negb (N.eqb x 0 && N.eqb y 0) | _ => false end.

(* F50 (repaired by fixes/F50.diff): the encoder as it was - tag sets alone decided "already a blob" *)
Definition holds_blob_F50 (wrapT innerT: ty) : bool :=
  tagset_eqb (tagset_of' wrapT) (tagset_of' innerT).
Definition f50_class (wrapT innerT: ty) : bool :=
  holds_blob_F50 wrapT innerT && negb (holds_blob wrapT innerT).

(* F01 (open; harness/codec.py f01_applies) at the top of an inner type: two or more tags over a type
   whose encoder does not support the indefinite form *)
Definition f01_top (T: ty) : bool :=
  Nat.leb 2 (length (tagset_of' T))
  && match base_of T with TBool | TInt | TEnum | TNull | TOid | TReal => true | _ => false end.

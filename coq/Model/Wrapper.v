(* pyasn1/codec/streaming.py: CachingStreamWrapper (the seek-back wrapper put around
   non-seekable streams), asSeekableStream, and the abstract seekable stream the decoders
   are written against.  Definitions only; proofs are in Proofs/Wrapper*.v.

   Two variants of the wrapper are modelled, both statement by statement:
     Cur  the class as it is in the repository: when the markedPosition setter drops the
          cache, numbering restarts (tell() = cache.tell(), _markedPosition = 0)   [finding F06]
     Fix  the class as repaired by fixes/F06.diff: the number of dropped octets is kept in
          _offset and added by tell()/seek(), so positions stay absolute.
   io.BytesIO is modelled exactly for the calls the wrapper makes (read past the end returns
   fewer octets and leaves the position alone; write happens at the current position, padding
   with zero octets if that lies beyond the end; BytesIO(initial) starts at 0; seek(SEEK_SET)
   refuses negative positions; a relative seek below 0 stops at 0).
   The raw stream is a blocking non-seekable reader: read(n) delivers min(n, what is left). *)
From PV Require Export Base.Bytes.
From Coq Require Import Arith.

(* ---------- io.BytesIO ---------- *)
Record bio := mkBio { bbuf: bytes; bpos: nat }.

Definition bio_read (n: nat) (b: bio) : bytes * bio :=
  let r := firstn n (skipn (bpos b) (bbuf b)) in (r, mkBio (bbuf b) (bpos b + length r)).
Definition bio_read_all (b: bio) : bytes * bio :=
  let r := skipn (bpos b) (bbuf b) in (r, mkBio (bbuf b) (bpos b + length r)).
Definition bio_write (d: bytes) (b: bio) : bio :=
  match d with
  | [] => b
  | _ => mkBio (firstn (bpos b) (bbuf b) ++ repn (bpos b - length (bbuf b)) 0%N
                ++ d ++ skipn (bpos b + length d) (bbuf b))
               (bpos b + length d)
  end.
Definition bio_seek_cur_back (d: nat) (b: bio) : bio := mkBio (bbuf b) (bpos b - d).
Definition bio_seek_set (p: nat) (b: bio) : bio := mkBio (bbuf b) p.

(* ---------- operations and what they answer ---------- *)
Inductive op :=
| ORead (n: nat)          (* read(n), n >= 0 *)
| OReadAll                (* read() / read(-1) *)
| OPeek (n: nat)          (* peek(n) *)
| OSeekSet (p: nat)       (* seek(p, os.SEEK_SET) *)
| OSeekCurBack (d: nat)   (* seek(-d, os.SEEK_CUR) *)
| OTell
| OSetMark (v: nat)       (* markedPosition = v *)
| OGetMark.

Inductive out :=
| OBytes (b: bytes) | ONum (n: nat) | ONone
| OErr          (* ValueError: negative seek *)
| ONoData       (* read()/peek() answered None: a non-blocking raw stream had nothing yet *)
| OTypeError.   (* BytesIO.write(None): finding F05 *)

(* ---------- the wrapper ---------- *)
Inductive variant := Cur | Fix.

Record wstate := mkW {
  raw_rest: bytes;   (* what the raw stream has not delivered yet *)
  wcache: bio;       (* self._cache *)
  woff: nat;         (* self._offset (Fix only; Cur never looks at it) *)
  wmark: nat         (* self._markedPosition *)
}.

Definition w_init (b: bytes) : wstate := mkW b (mkBio [] 0) 0 0.
Definition with_cache (w: wstate) (c: bio) : wstate := mkW (raw_rest w) c (woff w) (wmark w).

(* read(n):  read_from_cache = cache.read(n); n -= len(..); if not n: return ..;
             read_from_raw = raw.read(n); cache.write(read_from_raw); return both *)
Definition w_read (n: nat) (w: wstate) : wstate * bytes :=
  let (c, b1) := bio_read n (wcache w) in
  let n' := n - length c in
  match n' with
  | O => (with_cache w b1, c)
  | _ => let r := firstn n' (raw_rest w) in
         (mkW (skipn n' (raw_rest w)) (bio_write r b1) (woff w) (wmark w), c ++ r)
  end.
(* read(-1): no early return *)
Definition w_read_all (w: wstate) : wstate * bytes :=
  let (c, b1) := bio_read_all (wcache w) in
  let r := raw_rest w in
  (mkW [] (bio_write r b1) (woff w) (wmark w), c ++ r).
(* peek(n): result = self.read(n); cache.seek(-len(result), SEEK_CUR) *)
Definition w_peek (n: nat) (w: wstate) : wstate * bytes :=
  let (w1, r) := w_read n w in (with_cache w1 (bio_seek_cur_back (length r) (wcache w1)), r).

Definition w_base (v: variant) (w: wstate) : nat := match v with Cur => 0 | Fix => woff w end.

Definition w_set_mark (v: variant) (bufsize: nat) (val: nat) (w: wstate) : wstate :=
  let p := bpos (wcache w) in
  if Nat.ltb bufsize p then
    (* self._cache = io.BytesIO(self._cache.read()) *)
    let c' := mkBio (fst (bio_read_all (wcache w))) 0 in
    match v with
    | Cur => mkW (raw_rest w) c' (woff w) 0
    | Fix => mkW (raw_rest w) c' (woff w + p) val
    end
  else mkW (raw_rest w) (wcache w) (woff w) val.

(* the unrepaired setter on its own, as asked for by the finding's documentation *)
Definition set_mark_old := w_set_mark Cur.

Definition wstep (v: variant) (bufsize: nat) (w: wstate) (o: op) : wstate * out :=
  match o with
  | ORead n => let (w', r) := w_read n w in (w', OBytes r)
  | OReadAll => let (w', r) := w_read_all w in (w', OBytes r)
  | OPeek n => let (w', r) := w_peek n w in (w', OBytes r)
  | OSeekSet p =>
      if Nat.ltb p (w_base v w) then (w, OErr)
      else (with_cache w (bio_seek_set (p - w_base v w) (wcache w)), ONum p)
  | OSeekCurBack d =>
      let c := bio_seek_cur_back d (wcache w) in (with_cache w c, ONum (w_base v w + bpos c))
  | OTell => (w, ONum (w_base v w + bpos (wcache w)))
  | OSetMark val => (w_set_mark v bufsize val w, ONone)
  | OGetMark => (w, ONum (wmark w))
  end.

(* ---------- the abstract seekable stream (io.BytesIO, a file opened 'rb', ...) ---------- *)
Record sstate := mkS { sall: bytes; spos: nat; smark: nat }.
Definition s_init (b: bytes) : sstate := mkS b 0 0.

Definition sstep (s: sstate) (o: op) : sstate * out :=
  match o with
  | ORead n => let r := firstn n (skipn (spos s) (sall s)) in
               (mkS (sall s) (spos s + length r) (smark s), OBytes r)
  | OReadAll => let r := skipn (spos s) (sall s) in
                (mkS (sall s) (spos s + length r) (smark s), OBytes r)
  | OPeek n => (s, OBytes (firstn n (skipn (spos s) (sall s))))
  | OSeekSet p => (mkS (sall s) p (smark s), ONum p)
  | OSeekCurBack d => (mkS (sall s) (spos s - d) (smark s), ONum (spos s - d))
  | OTell => (s, ONum (spos s))
  | OSetMark v => (mkS (sall s) (spos s) v, ONone)
  | OGetMark => (s, ONum (smark s))
  end.

(* ---------- running a history ---------- *)
Fixpoint run {S} (step: S -> op -> S * out) (st: S) (ops: list op) : S * list out :=
  match ops with
  | [] => (st, [])
  | o :: r => let (st1, x) := step st o in
              let (st2, xs) := run step st1 r in (st2, x :: xs)
  end.
Definition outputs {S} (r: S * list out) : list out := snd r.

(* what the wrapper's own docstring allows: "The client is not supposed to ever seek before
   this position" (the mark); "value should be the same as the current position"; "not safe
   for seeking forward".  Decided on the abstract stream. *)
Definition op_okb (s: sstate) (o: op) : bool :=
  match o with
  | OSeekSet p => Nat.leb (smark s) p && Nat.leb p (spos s)
  | OSeekCurBack d => Nat.leb (smark s + d) (spos s)
  | OSetMark v => Nat.eqb v (spos s)
  | _ => true
  end.
Fixpoint permittedb (s: sstate) (ops: list op) : bool :=
  match ops with
  | [] => true
  | o :: r => op_okb s o && permittedb (fst (sstep s o)) r
  end.
Definition permitted (s: sstate) (ops: list op) : Prop := permittedb s ops = true.

(* class predicate of finding F06: some mark is set further than bufsize into the cache.
   [nodropb] is its negation for a wrapper that has not dropped anything yet (then the cache
   position is the absolute position). *)
Fixpoint nodropb (bufsize: nat) (s: sstate) (ops: list op) : bool :=
  match ops with
  | [] => true
  | o :: r => (match o with OSetMark _ => Nat.leb (spos s) bufsize | _ => true end)
              && nodropb bufsize (fst (sstep s o)) r
  end.

(* the abstraction relation: all = dropped ++ cache ++ raw_rest, pos = |dropped| + cpos, ... *)
Definition related (w: wstate) (s: sstate) : Prop :=
  exists dropped,
    sall s = dropped ++ bbuf (wcache w) ++ raw_rest w
    /\ length dropped = woff w
    /\ spos s = woff w + bpos (wcache w)
    /\ bpos (wcache w) <= length (bbuf (wcache w))
    /\ smark s = wmark w
    /\ woff w <= wmark w.

(* ---------- a client that chooses its next call from the answers so far ---------- *)
Definition client := list out -> option op.
Fixpoint run_client {S} (step: S -> op -> S * out) (c: client) (fuel: nat) (st: S) (hist: list out)
  : list out :=
  match fuel with
  | O => hist
  | S f => match c hist with
           | None => hist
           | Some o => let (st', x) := step st o in run_client step c f st' (hist ++ [x])
           end
  end.
Fixpoint client_permittedb (c: client) (fuel: nat) (s: sstate) (hist: list out) : bool :=
  match fuel with
  | O => true
  | S f => match c hist with
           | None => true
           | Some o => op_okb s o &&
                       (let (s', x) := sstep s o in client_permittedb c f s' (hist ++ [x]))
           end
  end.

(* ---------- asSeekableStream ---------- *)
Inductive substrate :=
| SBytes (b: bytes)                  (* bytes *)
| SBytesIO (b: bytes) (pos: nat)     (* an io.BytesIO instance: returned as it is *)
| SOctetString (b: bytes)            (* univ.OctetString and subclasses (univ.Any ...): asOctets() *)
| SSeekable (b: bytes) (pos: nat)    (* any other object whose seekable() is true: returned as it is *)
| SNonSeekable (rest: bytes)         (* seekable() false: wrapped *)
| SOther.                            (* no seekable attribute: UnsupportedSubstrateError *)

Inductive stream := StSeek (s: sstate) | StWrap (w: wstate).

Definition as_seekable (x: substrate) : res stream :=
  match x with
  | SBytesIO b p => Ok (StSeek (mkS b p 0))
  | SBytes b => Ok (StSeek (s_init b))
  | SOctetString b => Ok (StSeek (s_init b))
  | SSeekable b p => Ok (StSeek (mkS b p 0))
  | SNonSeekable r => Ok (StWrap (w_init r))
  | SOther => Err EUnsupported
  end.

Definition stream_step (v: variant) (bufsize: nat) (st: stream) (o: op) : stream * out :=
  match st with
  | StSeek s => let (s', x) := sstep s o in (StSeek s', x)
  | StWrap w => let (w', x) := wstep v bufsize w o in (StWrap w', x)
  end.

(* octets the substrate will deliver from where it stands *)
Definition substrate_bytes (x: substrate) : option bytes :=
  match x with
  | SBytes b | SOctetString b | SNonSeekable b => Some b
  | SBytesIO b p | SSeekable b p => match p with O => Some b | _ => None end
  | SOther => None
  end.

(* ---------- the wrapper over ANY raw stream ----------
   The raw stream is an arbitrary deterministic machine [rread]: read(n) (Some n, n > 0) or
   read(-1) (None) answers Some octets - as few as it likes, [] meaning end of data - or None
   ("no data yet", a non-blocking stream).  The reference is a seekable stream that keeps
   everything delivered so far and asks the same source for more exactly when a read goes beyond
   it ([fstep]; harness twin: SeekPackets).  [f05] says whether fixes/F05.diff is applied. *)
Section AnyRaw.
  Variable R : Type.
  Variable rread : option nat -> R -> option bytes * R.

  (* [gw] is a wrapper state whose raw_rest is unused (kept []) *)
  Record gwstate := mkGW { graw: R; gw: wstate }.
  Definition gw_init (r: R) : gwstate := mkGW r (w_init []).

  Definition g_after_none (f05: bool) (c: bytes) : out :=
    if f05 then match c with [] => ONoData | _ => OBytes c end else OTypeError.

  Definition g_read (f05: bool) (n: nat) (g: gwstate) : gwstate * out :=
    let w := gw g in
    let (c, b1) := bio_read n (wcache w) in
    match n - length c with
    | O => (mkGW (graw g) (with_cache w b1), OBytes c)
    | S k => let (m, r') := rread (Some (S k)) (graw g) in
             match m with
             | Some d => (mkGW r' (with_cache w (bio_write d b1)), OBytes (c ++ d))
             | None => (mkGW r' (with_cache w b1), g_after_none f05 c)
             end
    end.
  Definition g_read_all (f05: bool) (g: gwstate) : gwstate * out :=
    let w := gw g in
    let (c, b1) := bio_read_all (wcache w) in
    let (m, r') := rread None (graw g) in
    match m with
    | Some d => (mkGW r' (with_cache w (bio_write d b1)), OBytes (c ++ d))
    | None => (mkGW r' (with_cache w b1), g_after_none f05 c)
    end.
  (* peek: result = self.read(n); [if result:] cache.seek(-len(result), SEEK_CUR) *)
  Definition g_peek (f05: bool) (n: nat) (g: gwstate) : gwstate * out :=
    let (g1, x) := g_read f05 n g in
    match x with
    | OBytes r => (mkGW (graw g1) (with_cache (gw g1) (bio_seek_cur_back (length r) (wcache (gw g1)))), x)
    | _ => (g1, x)
    end.
  Definition gwstep (f05: bool) (v: variant) (bufsize: nat) (g: gwstate) (o: op) : gwstate * out :=
    match o with
    | ORead n => g_read f05 n g
    | OReadAll => g_read_all f05 g
    | OPeek n => g_peek f05 n g
    | _ => let (w', x) := wstep v bufsize (gw g) o in (mkGW (graw g) w', x)
    end.

  (* the seekable reference: [sall (fs f)] is what has been delivered so far *)
  Record fstate := mkF { fraw: R; fs: sstate }.
  Definition f_init (r: R) : fstate := mkF r (s_init []).
  Definition f_read (n: nat) (f: fstate) : fstate * out :=
    let s := fs f in
    let c := firstn n (skipn (spos s) (sall s)) in
    match n - length c with
    | O => (mkF (fraw f) (mkS (sall s) (spos s + length c) (smark s)), OBytes c)
    | S k => let (m, r') := rread (Some (S k)) (fraw f) in
             match m with
             | Some d => (mkF r' (mkS (sall s ++ d) (spos s + length c + length d) (smark s)), OBytes (c ++ d))
             | None => (mkF r' (mkS (sall s) (spos s + length c) (smark s)),
                        match c with [] => ONoData | _ => OBytes c end)
             end
    end.
  Definition f_read_all (f: fstate) : fstate * out :=
    let s := fs f in
    let c := skipn (spos s) (sall s) in
    let (m, r') := rread None (fraw f) in
    match m with
    | Some d => (mkF r' (mkS (sall s ++ d) (spos s + length c + length d) (smark s)), OBytes (c ++ d))
    | None => (mkF r' (mkS (sall s) (spos s + length c) (smark s)),
               match c with [] => ONoData | _ => OBytes c end)
    end.
  Definition f_peek (n: nat) (f: fstate) : fstate * out :=
    let (f1, x) := f_read n f in
    match x with
    | OBytes r => (mkF (fraw f1) (mkS (sall (fs f1)) (spos (fs f1) - length r) (smark (fs f1))), x)
    | _ => (f1, x)
    end.
  Definition fstep (f: fstate) (o: op) : fstate * out :=
    match o with
    | ORead n => f_read n f
    | OReadAll => f_read_all f
    | OPeek n => f_peek n f
    | _ => let (s', x) := sstep (fs f) o in (mkF (fraw f) s', x)
    end.

  Fixpoint gpermittedb (f: fstate) (ops: list op) : bool :=
    match ops with
    | [] => true
    | o :: r => op_okb (fs f) o && gpermittedb (fst (fstep f o)) r
    end.

  Definition grelated (g: gwstate) (f: fstate) : Prop :=
    related (gw g) (fs f) /\ raw_rest (gw g) = [] /\ graw g = fraw f.
End AnyRaw.
Arguments mkGW {R}. Arguments graw {R}. Arguments gw {R}. Arguments gw_init {R}.
Arguments mkF {R}. Arguments fraw {R}. Arguments fs {R}. Arguments f_init {R}.
Arguments gwstep {R}. Arguments fstep {R}. Arguments gpermittedb {R}. Arguments grelated {R}.
Arguments g_read {R}. Arguments g_read_all {R}. Arguments g_peek {R}.
Arguments f_read {R}. Arguments f_read_all {R}. Arguments f_peek {R}.

(* a concrete family of raw streams for the harness: data arriving in packets (a read never
   crosses the end of the packet it starts in), call i answering None when the i-th flag is set
   and data is still to come (harness twin: RawPackets) *)
Record praw := mkPraw { pkts: list bytes; pflags: list bool }.
Definition pread (n: option nat) (r: praw) : option bytes * praw :=
  let flag := hd false (pflags r) in
  let fl := tl (pflags r) in
  match pkts r with
  | [] => (Some [], mkPraw [] fl)
  | pk :: rest =>
      let zero := match n with Some O => true | _ => false end in
      if flag && negb zero then (None, mkPraw (pkts r) fl)
      else let k := match n with None => length pk | Some k => Nat.min k (length pk) end in
           (Some (firstn k pk), mkPraw (if Nat.ltb k (length pk) then skipn k pk :: rest else rest) fl)
  end.

(* ---------- vocabulary of the correspondence harness (numbers written in N) ---------- *)
Definition rd (n: N) := ORead (N.to_nat n).
Definition pk (n: N) := OPeek (N.to_nat n).
Definition sks (n: N) := OSeekSet (N.to_nat n).
Definition skb (n: N) := OSeekCurBack (N.to_nat n).
Definition smk (n: N) := OSetMark (N.to_nat n).

Inductive eout := EBytes (b: bytes) | ENum (n: N) | ENone | EErr | ENoData | ETypeError.
Definition out_matches (o: out) (e: eout) : bool :=
  match o, e with
  | OBytes a, EBytes b => bytes_eqb a b
  | ONum a, ENum b => N.eqb (N.of_nat a) b
  | ONone, ENone => true
  | OErr, EErr => true
  | ONoData, ENoData => true
  | OTypeError, ETypeError => true
  | _, _ => false
  end.
Fixpoint outs_match (os: list out) (es: list eout) : bool :=
  match os, es with
  | [], [] => true
  | o :: os', e :: es' => out_matches o e && outs_match os' es'
  | _, _ => false
  end.
Definition wrapper_matches (v: variant) (bufsize: N) (data: bytes) (ops: list op) (es: list eout) : bool :=
  outs_match (outputs (run (wstep v (N.to_nat bufsize)) (w_init data) ops)) es.
Definition seekable_matches (data: bytes) (ops: list op) (es: list eout) : bool :=
  outs_match (outputs (run sstep (s_init data) ops)) es.

(* packets given by their sizes (N) over the data *)
Fixpoint cut (sizes: list N) (b: bytes) : list bytes :=
  match sizes with
  | [] => match b with [] => [] | _ => [b] end
  | k :: r => match b with [] => [] | _ => firstn (N.to_nat k) b :: cut r (skipn (N.to_nat k) b) end
  end.
Definition gwrapper_matches (f05: bool) (v: variant) (bufsize: N) (r: praw) (ops: list op) (es: list eout) : bool :=
  outs_match (outputs (run (gwstep pread f05 v (N.to_nat bufsize)) (gw_init r) ops)) es.
Definition fseekable_matches (r: praw) (ops: list op) (es: list eout) : bool :=
  outs_match (outputs (run (fstep pread) (f_init r) ops)) es.

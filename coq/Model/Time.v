(* pyasn1/type/useful.py (TimeMixIn.fromDateTime / asDateTime, GeneralizedTime, UTCTime) and
   pyasn1/codec/cer/encoder.py (TimeEncoderMixIn.encodeValue; DER inherits it), as the code is
   after fixes F11 (offset text) and F26 (year padding).  Text is a list of character codes.
   Definitions only; proofs are in Proofs/Time*.v.

   Modelled, not verified (DESIGN.md section 4): `int()` on ASCII text and
   `datetime.strptime` with the two fixed formats the code uses.  Where CPython's behaviour is
   outside the modelled shapes the functions return [Err EUnmodelled]. *)
From PV Require Export Base.Bytes Model.TableTypes.
From PV Require Import Spec.X680Time.   (* only for the name of the two time types *)
Local Open Scope N_scope.

Definition text := list N.
Definition tkind := timetype.
Notation GenT := GeneralizedTime.
Notation UtcT := UTCTime.

(* a datetime.datetime: fields as Python keeps them; [off] = utcoffset() in whole minutes,
   None for a naive datetime *)
Record dt := mkDT { yr: N; mo: N; dy: N; hh: N; mi: N; ss: N; us: N; off: option Z }.

Definition optZ_eqb (a b: option Z) : bool :=
  match a, b with None, None => true | Some x, Some y => Z.eqb x y | _, _ => false end.
Definition dt_eqb (a b: dt) : bool :=
  N.eqb (yr a) (yr b) && N.eqb (mo a) (mo b) && N.eqb (dy a) (dy b) && N.eqb (hh a) (hh b)
  && N.eqb (mi a) (mi b) && N.eqb (ss a) (ss b) && N.eqb (us a) (us b) && optZ_eqb (off a) (off b).
Definition res_eqb {A} (eqb: A -> A -> bool) (a b: res A) : bool :=
  match a, b with Ok x, Ok y => eqb x y | Err e, Err f => err_eqb e f | _, _ => false end.
Definition is_unmodelled {A} (r: res A) : bool :=
  match r with Err EUnmodelled => true | _ => false end.

(* ---- calendar facts datetime.datetime enforces ---- *)
Definition is_leap (y: N) : bool :=
  N.eqb (y mod 4) 0 && (negb (N.eqb (y mod 100) 0) || N.eqb (y mod 400) 0).
Definition dim (y m: N) : N :=
  match m with
  | 1 | 3 | 5 | 7 | 8 | 10 | 12 => 31
  | 4 | 6 | 9 | 11 => 30
  | 2 => if is_leap y then 29 else 28
  | _ => 0
  end.
Definition valid_date (y m d: N) : bool :=
  (1 <=? y) && (y <=? 9999) && (1 <=? m) && (m <=? 12) && (1 <=? d) && (d <=? dim y m).
(* what the datetime type guarantees of any object handed to fromDateTime;
   utcoffset() is strictly between -24h and +24h *)
Definition valid_dt (d: dt) : bool :=
  valid_date (yr d) (mo d) (dy d) && (hh d <? 24) && (mi d <? 60) && (ss d <? 60) && (us d <? 1000000)
  && match off d with None => true | Some z => Z.ltb (-1440) z && Z.ltb z 1440 end.

(* ---- characters and text primitives ---- *)
Definition has (c: N) (l: text) : bool := existsb (N.eqb c) l.        (* c in text *)
Definition is_digit (c: N) : bool := (48 <=? c) && (c <=? 57).
Definition all_digits (l: text) : bool := forallb is_digit l.
(* str.partition(c): text before the first c, text after it; (l, []) when absent *)
Fixpoint split_at (c: N) (l: text) : text * text :=
  match l with
  | [] => ([], [])
  | x :: r => if N.eqb x c then ([], r) else let (a, b) := split_at c r in (x :: a, b)
  end.
Definition num (l: text) : N := fold_left (fun a c => a * 10 + (c - 48)) l 0.

(* int(s) for an ASCII str: all digits -> the number; a character that can never be part of a
   decimal literal -> ValueError; whitespace, sign or underscore present -> not modelled *)
Inductive pyint_r := IntOk (n: N) | IntValueError | IntUnmodelled.
Definition int_special (c: N) : bool :=
  ((9 <=? c) && (c <=? 13)) || ((28 <=? c) && (c <=? 32)) || (c =? 43) || (c =? 45) || (c =? 95).
Definition pyint (l: text) : pyint_r :=
  match l with
  | [] => IntValueError
  | _ => if all_digits l then IntOk (num l)
         else if existsb int_special l then IntUnmodelled else IntValueError
  end.

(* '%.2d' % n, '%.4d' % n, '%d' % n for the ranges a valid datetime produces *)
Definition dg (n: N) : N := 48 + n mod 10.
Definition d2 (n: N) : text := [dg (n / 10); dg n].
Definition d4 (n: N) : text := [dg (n / 1000); dg (n / 100); dg (n / 10); dg n].
Definition dec3 (n: N) : text :=
  if n <? 10 then [dg n] else if n <? 100 then d2 n else [dg (n / 100); dg (n / 10); dg n].

Definition year_digits (k: tkind) : nat := match k with GenT => 4%nat | UtcT => 2%nat end.

(* ---- fromDateTime (after F11, F26) ---- *)
Definition zone_text (o: option Z) : text :=
  match o with
  | None => [90]                                  (* utcoffset() is None: falsy *)
  | Some z =>
      if Z.eqb z 0 then [90]                      (* timedelta(0) is falsy *)
      else let m := Z.to_N (Z.abs z) in
           (if Z.ltb z 0 then 45 else 43) :: d2 (m / 60) ++ d2 (m mod 60)
  end.
Definition from_dt (k: tkind) (d: dt) : text :=
  (match k with GenT => d4 (yr d) | UtcT => d2 (yr d mod 100) end)
  ++ d2 (mo d) ++ d2 (dy d) ++ d2 (hh d) ++ d2 (mi d) ++ d2 (ss d)
  ++ (match k with GenT => 46 :: dec3 (us d / 1000) | UtcT => [] end)   (* '.%d' % (microsecond // 1000) *)
  ++ zone_text (off d).

(* fromDateTime's offset text BEFORE fix F11, kept only to state what was wrong (finding F11):
   seconds = dt.utcoffset().seconds  (the seconds field of a normalised timedelta: 0..86399,
   never negative, so '-' is never written);  '%.2d%.2d' % (seconds // 3600, seconds % 3600) *)
Definition pct2 (n: N) : text :=
  if n <? 100 then d2 n
  else if n <? 1000 then [dg (n / 100); dg (n / 10); dg n]
  else d4 n.
Definition zone_text_unfixed (o: option Z) : text :=
  match o with
  | None => [90]
  | Some z =>
      if Z.eqb z 0 then [90]
      else let seconds := Z.to_N ((z * 60) mod 86400) in
           43 :: pct2 (seconds / 3600) ++ pct2 (seconds mod 3600)
  end.
Definition from_dt_unfixed (k: tkind) (d: dt) : text :=
  (match k with GenT => d4 (yr d) | UtcT => d2 (yr d mod 100) end)
  ++ d2 (mo d) ++ d2 (dy d) ++ d2 (hh d) ++ d2 (mi d) ++ d2 (ss d)
  ++ (match k with GenT => 46 :: dec3 (us d / 1000) | UtcT => [] end)
  ++ zone_text_unfixed (off d).
(* the class of offsets on which the unfixed text was right *)
Definition f11_free (o: option Z) : bool :=
  match o with None => true | Some z => Z.eqb z 0 || (Z.ltb 0 z && Z.eqb (z mod 60) 0) end.

(* ---- datetime.strptime(text, '%Y%m%d%H%M%S' | '%y%m%d%H%M%S') ----
   The format compiles to \d\d\d\d (or \d\d) followed by five groups that take two characters
   or, failing that, one (%d also a space and a digit); the whole text must be consumed.
   Hence: shorter than 1 character per group or longer than 2 -> ValueError; a character that
   is neither digit nor space -> ValueError; exactly two digits per group -> the fields, checked
   by the datetime constructor; anything else (one-digit groups) is not modelled.
   ValueError is caught by asDateTime and becomes PyAsn1Error. *)
Definition strptime (k: tkind) (t: text) : res (N * N * N * N * N * N) :=
  let yd := year_digits k in
  let n := length t in
  if Nat.ltb n (yd + 5) || Nat.ltb (yd + 10) n then Err EMalformed
  else if negb (forallb (fun c => is_digit c || (c =? 32)) t) then Err EMalformed
  else if Nat.eqb n (yd + 10) && all_digits t then
    let y0 := num (firstn yd t) in
    let y := match k with GenT => y0 | UtcT => if y0 <? 69 then 2000 + y0 else 1900 + y0 end in
    let r := skipn yd t in
    let f (i: nat) := num (firstn 2 (skipn i r)) in
    if valid_date y (f 0%nat) (f 2%nat) && (f 4%nat <? 24) && (f 6%nat <? 60) && (f 8%nat <? 60)
    then Ok (y, f 0%nat, f 2%nat, f 4%nat, f 6%nat, f 8%nat)
    else Err EMalformed
  else Err EUnmodelled.

(* ---- asDateTime ---- *)
Definition parse_zone (k: tkind) (t: text) : res (option Z * text) :=
  if N.eqb (last t 0) 90 then Ok (Some 0%Z, removelast t)           (* TimeMixIn.UTC *)
  else if has 45 t || has 43 t then
    let neg := negb (has 43 t) in
    let (body, tz) := if has 43 t then split_at 43 t else split_at 45 t in
    let tz := match k with
              | GenT => if Nat.eqb (length tz) 2 then tz ++ [48; 48] else tz    (* _shortTZ *)
              | UtcT => tz end in
    if negb (Nat.eqb (length tz) 4) then Err EMalformed
    else match pyint (firstn 2 tz) with
         | IntValueError => Err EMalformed
         | IntUnmodelled => Err EUnmodelled
         | IntOk h =>
             match pyint (skipn 2 tz) with
             | IntValueError => Err EMalformed
             | IntUnmodelled => Err EUnmodelled
             | IntOk m => let z := Z.of_N (h * 60 + m) in
                          Ok (Some (if neg then (- z)%Z else z), body)
             end
         end
  else Ok (None, t).

Definition parse_fraction (t: text) : res (N * text) :=
  if has 46 t || has 44 t then
    let (body, ms) := if has 46 t then split_at 46 t else split_at 44 t in
    match pyint ms with
    | IntOk n => Ok (n * 1000, body)
    | IntValueError => Err EMalformed
    | IntUnmodelled => Err EUnmodelled
    end
  else Ok (0, t).

Definition pad_time (k: tkind) (t: text) : text :=
  let yd := year_digits k in
  match k with
  | GenT => if Nat.eqb (length t) (yd + 6) then t ++ [48; 48; 48; 48]      (* _optionalMinutes *)
            else if Nat.eqb (length t) (yd + 8) then t ++ [48; 48] else t
  | UtcT => if Nat.eqb (length t) (yd + 8) then t ++ [48; 48] else t
  end.

Definition as_dt (k: tkind) (t: text) : res dt :=
  do zt <- parse_zone k t;
  let (z, body) := zt in
  do mt <- parse_fraction body;
  let (ms, body2) := mt in
  do f <- strptime k (pad_time k body2);
  let '(y, m, d, h, mn, s) := f in
  if 999999 <? ms then Err (ECrash ValueError)          (* dt.replace(microsecond=...) *)
  else Ok (mkDT y m d h mn s ms z).

(* what the round trip is expected to return: the same fields; a naive datetime comes back
   as UTC; UTCTime keeps whole seconds only *)
Definition norm_dt (k: tkind) (d: dt) : dt :=
  mkDT (yr d) (mo d) (dy d) (hh d) (mi d) (ss d)
       (match k with GenT => us d | UtcT => 0 end)
       (match off d with None => Some 0%Z | o => o end).

(* precision and year window of the property, per type.  UTCTime carries two year digits;
   strptime's %y reads 69..99 as 19xx and 00..68 as 20xx, so 1969..2068 is the representable range *)
Definition in_domain (k: tkind) (d: dt) : bool :=
  match k with
  | GenT => N.eqb (us d mod 1000) 0
  | UtcT => N.eqb (us d) 0 && (1969 <=? yr d) && (yr d <=? 2068)
  end.

(* the instant of a datetime, in microseconds since 0001-01-01T00:00:00 UTC (naive = UTC) *)
Definition days_before_year (y: N) : N := 365 * (y - 1) + (y - 1) / 4 - (y - 1) / 100 + (y - 1) / 400.
Fixpoint days_before_month_n (y: N) (m: nat) : N :=
  match m with O => 0 | S m' => days_before_month_n y m' + dim y (N.of_nat m) end.
Definition dt_instant (d: dt) : Z :=
  let days := days_before_year (yr d) + days_before_month_n (yr d) (N.to_nat (mo d) - 1) + (dy d - 1) in
  let secs := ((days * 24 + hh d) * 60 + mi d) * 60 + ss d in
  (Z.of_N (secs * 1000000 + us d) - 60000000 * match off d with Some z => z | None => 0 end)%Z.
Definition dt_offset (d: dt) : Z := match off d with Some z => z | None => 0%Z end.

(* ---- TimeEncoderMixIn.encodeValue, on the tuple of character codes ---- *)

(* the while loop: walk left from searchIndex to the nearest '.', deleting every '0' met.
   [rl] = numbers[0..searchIndex] reversed; result = (numbers before that '.', reversed;
   the surviving characters after it) *)
Fixpoint scan_back (rl acc: text) : option (text * text) :=
  match rl with
  | [] => None
  | c :: r => if c =? 46 then Some (r, acc)
              else if c =? 48 then scan_back r acc
              else scan_back r (c :: acc)
  end.

Definition trim (s: text) : text :=
  let d := length (fst (split_at 46 s)) in                      (* numbers.index(DOT_CHAR) *)
  let i0 := Nat.min (d + 4) (length s - 1) in                   (* searchIndex *)
  match scan_back (rev (firstn (S i0) s)) [] with
  | None => s
  | Some (rbefore, kept) =>
      let after := kept ++ skipn (S i0) s in
      match after with
      | c :: _ => if c =? 90 then rev rbefore ++ after           (* drop hanging dot *)
                  else rev rbefore ++ 46 :: after
      | [] => rev rbefore ++ [46]
      end
  end.

Definition time_enc_body (min_len max_len: N) (s: text) : res text :=
  if has 43 s || has 45 s then Err EMalformed
  else if negb (last s 0 =? 90) then Err EMalformed
  else if has 44 s then Err EMalformed
  else let s' := if has 46 s then trim s else s in
       let n := N.of_nat (length s') in
       if (min_len <? n) && (n <? max_len) then Ok s' else Err EMalformed.

Definition time_enc (min_len max_len: N) (s: text) : res text :=
  match s with
  | [] => Err (ECrash IndexError)                                (* numbers[-1] *)
  | _ => time_enc_body min_len max_len s
  end.

(* the value is not in UTC as far as the encoder can tell: a sign somewhere, or no final Z *)
Definition non_utc (s: text) : bool := has 43 s || has 45 s || negb (last s 0 =? 90).

(* MIN_LENGTH / MAX_LENGTH as found in the regenerated codec table *)
Definition time_limits (tbl: list (tkey * enc_codec * enc_flags)) (k: tkind) : option (N * N) :=
  match lookup3 (KStr (match k with GenT => 24 | UtcT => 23 end)) tbl with
  | Some (_, f) => Some (ef_min_len f, ef_max_len f)
  | None => None
  end.
Definition time_enc_tbl tbl (k: tkind) (s: text) : res text :=
  match time_limits tbl k with
  | Some (a, b) => time_enc a b s
  | None => Err EUnmodelled
  end.

(* ---- class predicates of the findings on the trimming loop (argument: the fraction digits) ---- *)

(* F12: a '0' among the first four characters after the dot that is followed by a non-zero digit
   is deleted although it is significant.  [zeros_only_trailing 4 frac] = no such zero. *)
Fixpoint zeros_only_trailing (n: nat) (l: text) : bool :=
  match n, l with
  | O, _ => true
  | _, [] => true
  | S n', c :: r => if c =? 48 then forallb (N.eqb 48) r else zeros_only_trailing n' r
  end.
(* F27: the loop never looks beyond four characters after the dot, so a trailing zero of a
   longer fraction survives.  [no_far_trailing_zero frac] = not that case. *)
Definition no_far_trailing_zero (l: text) : bool :=
  Nat.leb (length l) 4 || negb (last l 0 =? 48).

(* the fraction digits of a string ending in Z: what lies between the first '.' and the Z *)
Definition frac_of (s: text) : text := removelast (snd (split_at 46 s)).

(* what the loop makes of the fraction digits *)
Definition squeeze (l: text) : text := filter (fun c => negb (c =? 48)) (firstn 4 l) ++ skipn 4 l.

(* C14 - Constraints mean what set theory says and cannot be bypassed.
   Only statements closed by [exact]; proofs live in Proofs/Constraint*.v, the evaluator as coded
   in Model/Constraint.v, the set-theoretic reading in Spec/SetTheory.v. *)
From PV Require Import Model.Constraint Spec.SetTheory
  Proofs.ConstraintInd Proofs.ConstraintDenote Proofs.ConstraintSubtype Proofs.ConstraintInitializer.
Local Open Scope Z_scope.

(* A well-formed constraint expression of any depth, applied to a value it is applicable to,
   admits exactly the values in its set-theoretic denotation ... *)
Theorem C14_denotation : forall c idx x,
  wf c = true -> typed c idx x = true -> (ceval c idx x = Pass <-> denote c idx x).
Proof. exact ceval_iff_denote. Qed.
Print Assumptions C14_denotation.

(* ... rejects every other value with ValueConstraintError ... *)
Theorem C14_rejection : forall c idx x,
  wf c = true -> typed c idx x = true -> ~ denote c idx x -> ceval c idx x = Fail.
Proof. exact ceval_rejects_cleanly. Qed.
Print Assumptions C14_rejection.

(* ... and never raises a built-in exception. *)
Theorem C14_no_crash : forall c idx x k,
  wf c = true -> typed c idx x = true -> ceval c idx x <> Crash k.
Proof. exact ceval_no_crash. Qed.
Print Assumptions C14_no_crash.

Example C14_denotation_nonvacuous :
  let c := CAnd [COr [CRange 0 10; CSingle [SInt 20; SInt 30]];
                 CExcl [CSingle [SInt 5]; CRange 7 8];
                 CContained [CRange (-100) 100] [] []] in
  wf c = true
  /\ typed c None (VS (SInt 5)) = true /\ ceval c None (VS (SInt 5)) = Fail
  /\ typed c None (VS (SInt 6)) = true /\ ceval c None (VS (SInt 6)) = Pass
  /\ ceval c None (VS (SInt 30)) = Pass /\ ceval c None (VS (SInt 8)) = Fail
  /\ (let w := CWith [(SText [97%N], CAnd [CPresent; CSize 1 2]); (SText [98%N], CAbsent)] in
      let r := VMap [(SText [97%N], SBytes [1%N; 2%N])] in
      wf w = true /\ typed w None r = true /\ ceval w None r = Pass
      /\ ceval w None (VMap [(SText [97%N], SBytes [1%N; 2%N; 3%N])]) = Fail
      /\ ceval w None (VMap [(SText [97%N], SBytes [1%N]); (SText [98%N], SInt 0)]) = Fail)
  /\ (let a := CAnd [CAlpha [SText [97%N]; SText [98%N]]; CSize 1 3] in
      wf a = true /\ typed a None (VS (SText [97%N; 98%N])) = true
      /\ ceval a None (VS (SText [97%N; 98%N])) = Pass
      /\ ceval a None (VS (SText [97%N; 99%N])) = Fail
      /\ ceval a None (VS (SText [97%N; 97%N; 97%N; 97%N])) = Fail).
Proof. vm_compute. repeat split. Qed.

(* A type derived by adding constraints (any number of subtype() steps, any tagging) admits a
   subset of its parent's values ... *)
Theorem C14_subset : forall parent child,
  derives_any parent child -> forall x, admits child x -> admits parent x.
Proof. exact derived_subset. Qed.
Print Assumptions C14_subset.

(* ... also as far as the evaluator itself goes (no applicability hypothesis) ... *)
Theorem C14_subset_evaluated : forall s new idx x,
  ceval (sp_constr (sp_add s new)) idx x = Pass -> ceval (sp_constr s) idx x = Pass.
Proof. exact step_accepts_subset. Qed.
Print Assumptions C14_subset_evaluated.

(* ... and (code as repaired by fixes/F14.diff) is recognised by every ancestor as its subtype,
   with and without explicit tags, so that its values can be assigned where the ancestor is
   expected. *)
Theorem C14_recognised : forall parent child,
  derives parent child -> type_is_super true true parent child = true.
Proof. exact derived_recognised. Qed.
Print Assumptions C14_recognised.

Theorem C14_assignable : forall parent child, derives parent child -> assignable parent child = true.
Proof. exact derived_assignable. Qed.
Print Assumptions C14_assignable.

(* Finding F14: ConstraintsIntersection.__add__ as it was before the repair flattens the operands
   and records nothing, and a constrained parent does not recognise its own derivation. *)
Theorem C14_recognised_unrepaired_refuted :
  exists p new, truthy (sp_constr p) = true /\ wf new = true
                /\ spec_is_super p (sp_add_unrepaired p new) = false
                /\ spec_is_super p (sp_add p new) = true.
Proof. exact unrepaired_not_recognised. Qed.
Print Assumptions C14_recognised_unrepaired_refuted.

Example C14_derivation_nonvacuous :
  let T0 := mkSType [mkTag Univ false 2] (spec_of [CRange 0 100]) in
  let T1 := mkSType [mkTag Univ false 2] (sp_add (st_spec T0) (CRange 10 50)) in
  let T2 := mkSType [mkTag Univ false 2; mkTag Ctx true 3]
                    (sp_add (st_spec T1) (CSingle [SInt 20; SInt 30])) in
  subtype_step T0 NoTag (Some (CRange 10 50)) = Ok T1
  /\ subtype_step T1 (ExplicitTag (mkTag Ctx false 3)) (Some (CSingle [SInt 20; SInt 30])) = Ok T2
  /\ derives T0 T2
  /\ type_is_super true true T0 T2 = true /\ type_is_super true true T1 T2 = true
  /\ type_is_super true true T2 T0 = false
  /\ construct T2 (SInt 20) = Ok (SInt 20) /\ construct T2 (SInt 40) = Err EConstraint
  /\ construct T0 (SInt 40) = Ok (SInt 40).
Proof.
  intros T0 T1 T2.
  assert (H1: subtype_step T0 NoTag (Some (CRange 10 50)) = Ok T1) by reflexivity.
  assert (H2: subtype_step T1 (ExplicitTag (mkTag Ctx false 3)) (Some (CSingle [SInt 20; SInt 30]))
              = Ok T2) by reflexivity.
  split; [exact H1|]. split; [exact H2|]. split.
  - eapply derives_step; [eapply derives_step; [apply derives_refl|left; reflexivity|exact H1]
                         |right; eexists; reflexivity|exact H2].
  - vm_compute. repeat split.
Qed.

(* No value-producing operation of the scalar types gets round the constraints: clone, subtype,
   arithmetic, slicing, concatenation, repetition, shifts all end in the constructor of the result
   type, so they return an error or a value that type's constraints accepted (for subtype: also
   the parent's). *)
Theorem C14_no_bypass :
  (forall T v, checked_by T (op_clone T v))
  /\ (forall T s v, checked_by (mkSType (st_tags T) s) (op_clone_spec T s v))
  /\ (forall T tg new v,
        match subtype_step T tg new with
        | Ok T' => checked_by T' (op_subtype T tg new v) /\ checked_by T (op_subtype T tg new v)
        | Err _ => exists e, op_subtype T tg new v = Err e
        end)
  /\ (forall T op refl a b, checked_by T (op_int T op refl a b))
  /\ (forall T op a, checked_by T (op_int_unary T op a))
  /\ (forall T op s, checked_by T (op_seq T op s))
  /\ (forall T op s, checked_by T (op_bits T op s)).
Proof. exact operations_checked. Qed.
Print Assumptions C14_no_bypass.

Theorem C14_no_bypass_denotation : forall T payload v,
  wf (sp_constr (st_spec T)) = true -> typed (sp_constr (st_spec T)) None (VS v) = true ->
  produce T payload = Ok v -> admits T (VS v).
Proof. exact produced_in_denotation. Qed.
Print Assumptions C14_no_bypass_denotation.

Example C14_no_bypass_nonvacuous :
  let T := mkSType [mkTag Univ false 2] (spec_of [CRange 0 10]) in
  let S := mkSType [mkTag Univ false 4] (spec_of [CSize 1 3]) in
  op_int T IAdd false 7 3 = Ok (SInt 10) /\ op_int T IAdd false 7 4 = Err EConstraint
  /\ op_int T ISub true 7 3 = Err EConstraint /\ op_int_unary T INeg 1 = Err EConstraint
  /\ op_int T IFloorDiv false 7 0 = Err EUnmodelled
  /\ op_seq S (QConcat [3%N] false) (SBytes [1%N; 2%N]) = Ok (SBytes [1%N; 2%N; 3%N])
  /\ op_seq S (QConcat [3%N; 4%N] true) (SBytes [1%N; 2%N]) = Err EConstraint
  /\ op_seq S (QSlice (Some 1) (Some (-1)) None) (SBytes [1%N; 2%N; 3%N]) = Ok (SBytes [2%N])
  /\ op_seq S (QSlice (Some 2) (Some 1) None) (SBytes [1%N; 2%N; 3%N]) = Err EConstraint
  /\ op_seq S (QRepeat 2) (SBytes [1%N; 2%N]) = Err EConstraint
  /\ op_bits S (BLsh 2) (SBits 1 1) = Ok (SBits 3 4) /\ op_bits S (BLsh 3) (SBits 1 1) = Err EConstraint.
Proof. vm_compute. repeat split. Qed.

(* Encoders refuse constructed values that violate their constraints, and (code as repaired by
   fixes/F14d.diff) reading the value beforehand does not change that verdict. *)
Theorem C14_encoder_verdict_stable : forall spec r,
  encoder_admits spec (read_all r) = encoder_admits spec r.
Proof. exact encoder_verdict_stable. Qed.
Print Assumptions C14_encoder_verdict_stable.

(* Finding F14d: before the repair, isInconsistent took a component that had been read but never
   assigned for a present one: a refused record is accepted after a read. *)
Theorem C14_read_bypass_unrepaired_refuted :
  exists spec r,
    encoder_admits_unrepaired spec r = Fail
    /\ encoder_admits_unrepaired spec (read_all r) = Pass
    /\ encoder_admits spec (read_all r) = Fail.
Proof. exact unrepaired_read_bypasses. Qed.
Print Assumptions C14_read_bypass_unrepaired_refuted.

(* Where the implementation leaves the denotation (each one replayed on the implementation by
   harness/props/c14.py):
   - an empty operand / value list means "no constraint" to pyasn1 and the empty set to set theory
     (outside [wf]; not an expression ASN.1 can write); *)
Theorem C14_empty_list_refuted :
  ceval (COr []) None (VS (SInt 5)) = Pass /\ ~ denote (COr []) None (VS (SInt 5))
  /\ ceval (CSingle []) None (VS (SInt 5)) = Pass /\ ~ denote (CSingle []) None (VS (SInt 5)).
Proof. exact empty_list_is_no_constraint. Qed.
Print Assumptions C14_empty_list_refuted.

(* - finding F14c: ContainedSubtypeConstraint with a plain value among its operands; *)
Theorem C14_contained_plain_refuted :
  exists c x, wf c = true /\ denote c None x /\ ceval c None x = Crash AttributeError.
Proof. exact contained_plain_value_crashes. Qed.
Print Assumptions C14_contained_plain_refuted.

(* - finding F14b: a value range applied to a payload that is not an int (REAL's tuple). *)
Theorem C14_range_on_tuple_refuted :
  ceval (CRange 0 10) None (VS (SOid [1%N; 3%N])) = Crash TypeError.
Proof. exact range_on_tuple_crashes. Qed.
Print Assumptions C14_range_on_tuple_refuted.

(* no bypass through a value object used as initializer: whatever type produced the payload, the
   receiving type's constructor checks it, so the result lies in the receiving type's denotation *)
Theorem C14_initializer_object_checked : forall S T v x,
  construct S v = Ok x -> checked_by T (op_clone T x) /\ checked_by T (construct T x).
Proof. exact initializer_object_checked. Qed.
Print Assumptions C14_initializer_object_checked.

Theorem C14_initializer_object_in_denotation : forall S T v x y,
  construct S v = Ok x -> op_clone T x = Ok y ->
  wf (sp_constr (st_spec T)) = true -> typed (sp_constr (st_spec T)) None (VS y) = true ->
  admits T (VS y).
Proof. exact initializer_object_in_denotation. Qed.
Print Assumptions C14_initializer_object_in_denotation.

(* why a shortcut "skip the check when isSuperTypeOf holds" would be a bypass: isSuperTypeOf is not
   inclusion of value sets *)
Theorem C14_is_super_is_not_inclusion :
  (exists P Q v,
     spec_is_super (st_spec P) (st_spec Q) = true
     /\ construct Q v = Ok v /\ construct P v = Err EConstraint)
  /\ (exists P Q v,
        spec_is_super (st_spec P) (st_spec Q) = true /\ spec_is_super (st_spec Q) (st_spec P) = true
        /\ construct Q v = Ok v /\ construct P v = Err EConstraint).
Proof. exact is_super_is_not_inclusion. Qed.
Print Assumptions C14_is_super_is_not_inclusion.

(* C05 - streaming decoder output is independent of the data arrival schedule.  Statements only. *)
From PV Require Import Base.Bytes Model.Proc Model.Types Model.Enc Model.Dec Proofs.ProcSim Proofs.ProcSched Proofs.DecStream
     Model.TableTypes Gen.Tables Proofs.RoundTrip1 Proofs.RoundTrip2 Proofs.StreamStage2 Proofs.RoundTrip3b Proofs.RoundTripModesC Proofs.RoundTripModes
     Proofs.StreamClean Proofs.StreamStage3.
Local Open Scope nat_scope.

(* Generic: any decoder that touches its input only through all-or-nothing, re-tryable reads,
   tell/seek-back/mark and the end-of-stream test yields, under every well-formed arrival schedule
   that eventually signals the end, exactly what the complete input yields - after some number of
   underrun reports, and nothing else *)
Theorem C05_sched_indep : forall (A: Type) (sched: list envev) (p: proc A) (s: stream) r sF,
  clean_sched p -> wf_sched (closed s) sched -> (closed s || has_close sched = true)%bool ->
  resume p (complete s sched) = inr (r, sF) ->
  exists j, drive sched p s = repeat OUnder j ++ [ODone r (pos sF)].
Proof. intros A sched p s r sF Hc Hw Hcl H. exact (sched_indep_closed_sched sched p s r sF Hc Hw Hcl H). Qed.
Print Assumptions C05_sched_indep.

(* underrun is reported only while bytes are actually missing *)
Theorem C05_underrun_only_when_missing : forall (A: Type) (p: proc A) s q s',
  clean_sched p -> resume p s = inl (q, s') ->
  (exists n k, q = ReadN n k /\ length (avail s') < n)
  \/ (exists k, q = AtEOS k /\ length (avail s') = 0 /\ closed s' = false).
Proof. intros A p s q s' Hc H. exact (underrun_only_when_missing_sched p Hc s q s' H). Qed.
Print Assumptions C05_underrun_only_when_missing.

(* The model of StreamingDecoder.__iter__ for any codec, fuel and guiding type: whenever the run on
   the complete input never reaches the one primitive that reads "whatever is there" (ReadAll,
   reachable only through malformed string fragments), every schedule gives the complete run's
   objects, positions and error *)
Theorem C05_streaming_decoder : forall c fuel sp sched s r sF,
  wf_sched (closed s) sched -> (closed s || has_close sched = true)%bool ->
  resume (guard_ra EUnclean (streaming c fuel sp)) (complete s sched) = inr (r, sF) -> r <> Err EUnclean ->
  exists j, drive sched (streaming c fuel sp) s = repeat OUnder j ++ [ODone r (pos sF)].
Proof. exact streaming_sched_indep. Qed.
Print Assumptions C05_streaming_decoder.

Example C05_nonvacuous :
  drive [Arrive [2%N]; Poll; Arrive [1%N]; Arrive [5%N; 2%N; 1%N]; Arrive [7%N]; Close]
        (streaming BER 20 (Some TInt)) (mkStream [] 0 false 0)
  = [OUnder; OUnder; OUnder; OUnder; OUnder; OUnder;
     ODone (Ok [(DV TInt (VInt 5), 3); (DV TInt (VInt 7), 6)]) 6].
Proof. vm_compute. reflexivity. Qed.

(* Unconditional, for every input: any stage-2 type (simple types, SEQUENCE OF, SET OF, SEQUENCE of mandatory
   components, any tagging, any depth), any value, ANY arrival schedule that delivers the encoding followed
   by anything - any partition into chunks, any empty polls, no end-of-stream needed: the retry loop
   reports underrun some number of times and then yields exactly the object one-shot decoding yields,
   at exactly the end of the encoding *)
Theorem C05_stage2_any_schedule : forall T v b,
  stage2_ty T = true -> stage2_val T v = true ->
  encode BER true 0 T v = Ok b -> (N.of_nat (length b) <= index_max)%N ->
  exists v', abs T v' = abs T v /\
    forall fuel tl sched, length b + ty_depth T <= fuel ->
    wf_sched false sched -> arrivals sched = b ++ tl ->
    decode_with BER fuel (Some T) (b ++ tl) = Ok (DV T v', tl)
    /\ exists j, drive sched (dec_item BER fuel (Some T)) (mkStream [] 0 false 0)
                 = repeat OUnder j ++ [ODone (Ok (DV T v')) (length b)].
Proof. exact c05_stage2_sched. Qed.
Print Assumptions C05_stage2_any_schedule.

Example C05_stage2_any_schedule_nonvacuous :
  let sched := [Arrive (firstn 7 stage2_example_enc); Poll; Arrive (skipn 7 (firstn 30 stage2_example_enc));
                Arrive (skipn 30 stage2_example_enc ++ [9%N; 9%N])] in
  wf_sched false sched /\ arrivals sched = stage2_example_enc ++ [9%N; 9%N]
  /\ drive sched (dec_item BER 60 (Some stage2_example_ty)) (mkStream [] 0 false 0)
     = repeat OUnder 4 ++ [ODone (Ok (DV stage2_example_ty stage2_example_val)) 50].
Proof. exact c05_example. Qed.

(* The whole universe, definite mode, encoder BER/DER, any decoder: ANY arrival schedule gives the
   one-shot result *)
Theorem C05_stage3_any_schedule : forall ce cd T v b,
  enc_ok ce -> stage3_ty false ce T = true -> stage3_val ce cd T v = true ->
  encode ce true 0 T v = Ok b -> (N.of_nat (length b) <= index_max)%N ->
  exists v', abs T v' = abs T v /\
    forall fuel tl sched, (length b + ty_depth T <= fuel)%nat ->
    wf_sched false sched -> arrivals sched = b ++ tl ->
    decode_with cd fuel (Some T) (b ++ tl) = Ok (DV T v', tl)
    /\ exists j, drive sched (dec_item cd fuel (Some T)) (mkStream [] 0 false 0)
                 = repeat OUnder j ++ [ODone (Ok (DV T v')) (length b)].
Proof. exact c05_stage3_sched. Qed.
Print Assumptions C05_stage3_any_schedule.

(* Indefinite-length mode: chunk boundaries may fall anywhere, also inside an end-of-octets marker *)
Theorem C05_indefinite_any_schedule : forall cd chunk T v b,
  dec_ok cd -> stage2_ty T = true -> RoundTripModes.no_f01 T = true -> modes_val BER cd T v = true ->
  encode BER false chunk T v = Ok b -> (N.of_nat (length b) <= index_max)%N ->
  exists v', abs T v' = abs T v /\
    forall fuel tl sched, (length b + ty_depth T <= fuel)%nat ->
    wf_sched false sched -> arrivals sched = b ++ tl ->
    decode_with cd fuel (Some T) (b ++ tl) = Ok (DV T v', tl)
    /\ exists j, drive sched (dec_item cd fuel (Some T)) (mkStream [] 0 false 0)
                 = repeat OUnder j ++ [ODone (Ok (DV T v')) (length b)].
Proof. exact c05_indefinite. Qed.
Print Assumptions C05_indefinite_any_schedule.

(* C17 - Native-Python codec round trip and Python-value encoding equivalence.  Statements only.

   Model: Model/Native.v = pyasn1/codec/native/{encoder,decoder}.py and the bare-value
   (`asn1Spec is not None`) branches of the BER/CER/DER encoders, as repaired by fixes F15 (empty
   BIT STRING came out as '0'), F16 (absent OPTIONAL key raised), F28n (an absent OPTIONAL member
   whose own members are all optional came out as {}), F41 ([] / nothing assigned decoded to a
   schema object), F42 (DEFAULT test compared the raw Python value), F43 (string fragments carried
   the schema's tags).  Clauses outside every theorem (DESIGN section 8): a REAL other than +-inf
   and zero goes through a Python float - [real_exact] leaves it out and the model answers
   EUnmodelled for it (C17_real_unmodelled), never an error; character-string octets are taken
   to be valid under the type's text codec.  [ok17] additionally leaves out ANY (the property's own
   quantifier) and DEFAULT members of constructed or REAL type, for which the value-object
   encoder model (Enc.val_py_eq) itself declines. *)
From PV Require Import Model.Native Proofs.NativeText Proofs.NativeRoundTrip Proofs.NativeEquiv.
Local Open Scope N_scope.

(* value object -> native encoder -> built-ins -> native decoder under the same type: a value
   with the same abstract content.  Every type of the universe (ANY included), empty bit strings,
   absent OPTIONALs, unassigned DEFAULTs, every CHOICE alternative, any nesting. *)
Theorem C17_native_roundtrip : forall T v, wf_native T v = true ->
  exists p v', to_native T v = Ok p /\ of_native T p = Ok v' /\ abs T v' = abs T v.
Proof. exact native_roundtrip. Qed.
Print Assumptions C17_native_roundtrip.

(* the same tree, read by the bare-value branch of the BER, CER or DER encoder under the type, gives
   the octets of the value object - definite or indefinite, any chunk size *)
Theorem C17_pyvalue_equiv : forall (c: codec) (defMode: bool) (maxChunkSize: N) T v p,
  ok17 T v = true -> pyval_of T v = Ok p ->
  encode_py c defMode maxChunkSize T p = encode c defMode maxChunkSize T v.
Proof. exact pyvalue_equiv. Qed.
Print Assumptions C17_pyvalue_equiv.

(* in the form the property is worded: one statement for the three codecs *)
Theorem C17_pyvalue_equiv_ber_cer_der : forall T v p, ok17 T v = true -> pyval_of T v = Ok p ->
  encode_py BER true 0 T p = encode BER true 0 T v
  /\ encode_py CER true 0 T p = encode CER true 0 T v
  /\ encode_py DER true 0 T p = encode DER true 0 T v.
Proof. exact pyvalue_equiv_three. Qed.
Print Assumptions C17_pyvalue_equiv_ber_cer_der.

(* what both consumers of the tree read back is one canonical form of the value *)
Theorem C17_builtins_read_back : forall T strict v, wf_native T v = true ->
  exists p, to_native T v = Ok p /\ from_py strict T p = Ok (canon T v).
Proof. exact native_builtins_roundtrip. Qed.
Print Assumptions C17_builtins_read_back.

(* an OPTIONAL member whose name is simply not a key of the mapping is skipped by the encoders
   (F16 repaired) as by the decoder *)
Theorem C17_absent_optional_key : forall strict ft fs kvs i, lookup_py i kvs = None ->
  from_fields strict kvs i ((Opt, ft) :: fs) = (do r <- from_fields strict kvs (S i) fs; Ok (None :: r)).
Proof. exact absent_optional_key. Qed.
Print Assumptions C17_absent_optional_key.

(* the text forms on the way: '0'/'1' text and dotted decimal text read back exactly *)
Theorem C17_bit_text_roundtrip : forall bs, parse_bits (bits_text bs) = Ok bs.
Proof. exact parse_bits_text. Qed.
Print Assumptions C17_bit_text_roundtrip.

Theorem C17_oid_text_roundtrip : forall arcs, parse_oid (oid_text arcs) = Ok arcs.
Proof. exact parse_oid_text. Qed.
Print Assumptions C17_oid_text_roundtrip.

(* floating point is declined by the model, not refuted *)
Theorem C17_real_unmodelled : forall m e, Z.eqb m 0 = false ->
  to_native TReal (VReal (RBin m e)) = Err EUnmodelled.
Proof. exact inexact_real_unmodelled. Qed.
Print Assumptions C17_real_unmodelled.

(* non-vacuity: a SEQUENCE with an empty BIT STRING, an absent OPTIONAL, an unassigned DEFAULT, a
   tagged CHOICE and a SET OF is in both domains; its tree, its DER octets *)
Definition c17_T : ty :=
  TSeq [(Req, TBits); (Opt, TInt); (Def (VOid [1; 3; 6]), TOid);
        (Req, TExp (mkTag Ctx false 1) (TChoice [TNull; TStr 12]));
        (Req, TSetOf (TImp (mkTag Ctx false 2) TBool))].
Definition c17_v : val :=
  VRec [Some (VBits []); None; None; Some (VChoice 1 (VChars [[97]; [195; 169]])); Some (VList [VBool true])].
Definition c17_p : pyval :=
  PDict [(0%nat, PStr []); (2%nat, PStr [49; 46; 51; 46; 54]);
         (3%nat, PDict [(1%nat, PBytes [97; 195; 169])]); (4%nat, PList [PBool true])].

Example C17_nonvacuous :
  wf_native c17_T c17_v = true /\ ok17 c17_T c17_v = true
  /\ to_native c17_T c17_v = Ok c17_p
  /\ of_native c17_T c17_p
     = Ok (VRec [Some (VBits []); None; Some (VOid [1; 3; 6]); Some (VChoice 1 (VOcts [97; 195; 169]));
                 Some (VList [VBool true])])
  /\ encode_py DER true 0 c17_T c17_p = Ok [48; 15; 3; 1; 0; 161; 5; 12; 3; 97; 195; 169; 49; 3; 130; 1; 255]
  /\ encode DER true 0 c17_T c17_v = Ok [48; 15; 3; 1; 0; 161; 5; 12; 3; 97; 195; 169; 49; 3; 130; 1; 255].
Proof. vm_compute. repeat split; reflexivity. Qed.
Print Assumptions C17_nonvacuous.

(* C07 - decoding consumes exactly one encoding and preserves what follows.  Statements only. *)
From PV Require Import Base.Bytes Model.Proc Model.Types Model.TableTypes Model.Enc Model.Dec Gen.Tables
     Proofs.ProcSim Proofs.DecStream Proofs.TagsetShape Proofs.RoundTrip1 Proofs.RoundTrip2 Proofs.StreamStage2 Proofs.RoundTrip3b Proofs.RoundTrip3e
     Proofs.RoundTripModesC Proofs.RoundTripModes Proofs.StreamClean Proofs.StreamStage3.
Local Open Scope nat_scope.

(* Generic: a decoder that never looks at the end of its input returns the same value whatever
   follows, stops at the same position and leaves the following bytes untouched *)
Theorem C07_exact : forall (A: Type) (p: proc A) e t a s',
  clean p -> resume p (mkStream e 0 true 0) = inr (Ok a, s') ->
  exists s'', resume p (mkStream (e ++ t) 0 true 0) = inr (Ok a, s'')
              /\ pos s'' = pos s' /\ avail s'' = avail s' ++ t.
Proof. intros A p e t a s' Hc. exact (exact_consumption_tail p e t a s' Hc). Qed.
Print Assumptions C07_exact.

(* The model of the decoders, any codec, fuel and guiding type: whenever decoding e never touches a
   primitive that observes the end of the input, decoding e ++ t gives the same value and the
   remainder of e followed by t, unchanged *)
Theorem C07_decoder_exact : forall c fuel sp e t d s',
  resume (guard EUnclean (dec_item c fuel sp)) (mkStream e 0 true 0) = inr (Ok d, s') ->
  decode_with c fuel sp e = Ok (d, avail s')
  /\ decode_with c fuel sp (e ++ t) = Ok (d, avail s' ++ t).
Proof. exact decoder_exact. Qed.
Print Assumptions C07_decoder_exact.

Example C07_nonvacuous :
  decode_with BER 30 (Some (TSeqOf TInt)) [48%N; 128%N; 2%N; 1%N; 5%N; 0%N; 0%N] = Ok (DV (TSeqOf TInt) (VList [VInt 5]), [])
  /\ decode_with BER 30 (Some (TSeqOf TInt)) ([48%N; 128%N; 2%N; 1%N; 5%N; 0%N; 0%N] ++ [0%N; 0%N; 7%N])
     = Ok (DV (TSeqOf TInt) (VList [VInt 5]), [0%N; 0%N; 7%N]).
Proof. split; vm_compute; reflexivity. Qed.

(* Stage 1, unconditional on cleanliness: for every simple-typed value under any stack of tags, encoded
   by the BER or DER encoder (definite lengths), and ANY following octets t, one-shot decoding by any
   of the three decoders returns a value of the same abstract content together with exactly t *)
Theorem C07_tail_preserved_stage1 : forall ce cd T v b tl,
  enc_ok ce -> wf_tags T = true -> stage1_val ce cd T v = true ->
  encode ce true 0 T v = Ok b -> (N.of_nat (length b) <= index_max)%N ->
  exists v', decode cd (Some T) (b ++ tl) = Ok (DV T v', tl) /\ abs T v' = abs T v.
Proof. exact roundtrip_stage1. Qed.
Print Assumptions C07_tail_preserved_stage1.

(* the same for the recursive stage-2 types (SEQUENCE OF / SET OF / SEQUENCE of mandatory components /
   tagging, to any depth), BER *)
Theorem C07_tail_preserved_stage2 : forall T v b tl,
  stage2_ty T = true -> stage2_val T v = true ->
  encode BER true 0 T v = Ok b -> (N.of_nat (length b) <= index_max)%N ->
  exists v', decode BER (Some T) (b ++ tl) = Ok (DV T v', tl) /\ abs T v' = abs T v.
Proof. exact roundtrip_stage2. Qed.
Print Assumptions C07_tail_preserved_stage2.

(* Second half of the property, unconditional, for every input: a stream holding any number of stage-2
   encodings back to back; the streaming decoder yields one object per encoding, the i-th with the
   abstract value of the i-th value, and the position after it is exactly the end of the i-th
   encoding - one-shot, and under ANY arrival schedule that ends with end-of-stream *)
Theorem C07_stage2_stream_of_encodings : forall T vs bs fuel,
  stage2_ty T = true -> enc_all T vs bs -> bs <> [] ->
  length bs <= fuel -> (forall b, In b bs -> length b + ty_depth T <= fuel) ->
  exists ds, Forall2 (same_abs T) vs ds
    /\ length ds = length bs
    /\ (forall i, i < length bs -> nth i (ends 0 bs) 0 = length (concat (firstn (S i) bs)))
    /\ (exists sF, run_complete (streaming BER fuel (Some T)) (concat bs) = inr (Ok (combine ds (ends 0 bs)), sF)
                   /\ pos sF = length (concat bs))
    /\ forall sched, wf_sched false sched -> has_close sched = true -> arrivals sched = concat bs ->
       exists j, drive sched (streaming BER fuel (Some T)) (mkStream [] 0 false 0)
                 = repeat OUnder j ++ [ODone (Ok (combine ds (ends 0 bs))) (length (concat bs))].
Proof. exact c07_stage2_stream. Qed.
Print Assumptions C07_stage2_stream_of_encodings.

(* First half of the property over the whole universe (every type constructor, definite mode): for
   every valid encoding e written by the BER or DER encoder and ARBITRARY following bytes t, one-shot
   decoding of e ++ t by any decoder returns the value of e together with t unchanged *)
Theorem C07_tail_preserved_stage3 : forall ce cd T v b tl,
  enc_ok ce -> stage3_ty false ce T = true -> stage3_val ce cd T v = true ->
  encode ce true 0 T v = Ok b -> (N.of_nat (length b) <= index_max)%N ->
  exists v', decode cd (Some T) (b ++ tl) = Ok (DV T v', tl) /\ abs T v' = abs T v.
Proof. exact roundtrip_stage3. Qed.
Print Assumptions C07_tail_preserved_stage3.

(* streams of encodings over the whole universe (definite mode) and in indefinite-length mode: n
   objects, the i-th position is the end of the i-th encoding, one-shot and under any schedule (c07_concl) *)
Theorem C07_stage3_stream_of_encodings : forall ce cd T vs bs fuel,
  enc_ok ce -> stage3_ty false ce T = true -> enc3_all ce cd T vs bs -> bs <> [] ->
  (length bs <= fuel)%nat -> (forall b, In b bs -> (length b + ty_depth T <= fuel)%nat) ->
  exists ds, Forall2 (same_rel eq T) vs ds /\ c07_concl cd fuel (Some T) bs ds.
Proof. exact c07_stage3_stream. Qed.
Print Assumptions C07_stage3_stream_of_encodings.

Theorem C07_indefinite_stream_of_encodings : forall cd chunk T vs bs fuel,
  dec_ok cd -> stage2_ty T = true -> RoundTripModes.no_f01 T = true -> encm_all BER cd false chunk T vs bs -> bs <> [] ->
  (length bs <= fuel)%nat -> (forall b, In b bs -> (length b + ty_depth T <= fuel)%nat) ->
  exists ds, Forall2 (same_rel eq T) vs ds /\ c07_concl cd fuel (Some T) bs ds.
Proof. exact c07_indefinite. Qed.
Print Assumptions C07_indefinite_stream_of_encodings.

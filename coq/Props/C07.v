(* C07 - decoding consumes exactly one encoding and preserves what follows.  Statements only. *)
From PV Require Import Base.Bytes Model.Proc Model.Types Model.TableTypes Model.Enc Model.Dec Gen.Tables
     Proofs.ProcSim Proofs.DecStream Proofs.TagsetShape Proofs.RoundTrip1 Proofs.RoundTrip2.
Local Open Scope nat_scope.

(* Generic: a decoder that never looks at the end of its input returns the same value whatever
   follows, stops at the same position and leaves the following bytes untouched *)
Theorem C07_exact : forall (A: Type) (p: proc A) e t a s',
  clean p -> resume p (mkStream e 0 true 0) = inr (Ok a, s') ->
  exists s'', resume p (mkStream (e ++ t) 0 true 0) = inr (Ok a, s'')
              /\ pos s'' = pos s' /\ avail s'' = avail s' ++ t.
Proof. intros A p e t a s' Hc. exact (exact_consumption_tail p e t a s' Hc). Qed.
Print Assumptions C07_exact.

(* The model of the decoders, any codec, fuel and guiding type: whenever decoding e never touches a
   primitive that observes the end of the input, decoding e ++ t gives the same value and the
   remainder of e followed by t, unchanged *)
Theorem C07_decoder_exact : forall c fuel sp e t d s',
  resume (guard EUnclean (dec_item c fuel sp)) (mkStream e 0 true 0) = inr (Ok d, s') ->
  decode_with c fuel sp e = Ok (d, avail s')
  /\ decode_with c fuel sp (e ++ t) = Ok (d, avail s' ++ t).
Proof. exact decoder_exact. Qed.
Print Assumptions C07_decoder_exact.

Example C07_nonvacuous :
  decode_with BER 30 (Some (TSeqOf TInt)) [48%N; 128%N; 2%N; 1%N; 5%N; 0%N; 0%N] = Ok (DV (TSeqOf TInt) (VList [VInt 5]), [])
  /\ decode_with BER 30 (Some (TSeqOf TInt)) ([48%N; 128%N; 2%N; 1%N; 5%N; 0%N; 0%N] ++ [0%N; 0%N; 7%N])
     = Ok (DV (TSeqOf TInt) (VList [VInt 5]), [0%N; 0%N; 7%N]).
Proof. split; vm_compute; reflexivity. Qed.

(* Stage 1, unconditional on cleanliness: for every simple-typed value under any stack of tags, encoded
   by the BER or DER encoder (definite lengths), and ANY following octets t, one-shot decoding by any
   of the three decoders returns a value of the same abstract content together with exactly t *)
Theorem C07_tail_preserved_stage1 : forall ce cd T v b tl,
  enc_ok ce -> wf_tags T = true -> stage1_val ce cd T v = true ->
  encode ce true 0 T v = Ok b -> (N.of_nat (length b) <= index_max)%N ->
  exists v', decode cd (Some T) (b ++ tl) = Ok (DV T v', tl) /\ abs T v' = abs T v.
Proof. exact roundtrip_stage1. Qed.
Print Assumptions C07_tail_preserved_stage1.

(* the same for the recursive stage-2 types (SEQUENCE OF / SET OF / SEQUENCE of mandatory components /
   tagging, to any depth), BER *)
Theorem C07_tail_preserved_stage2 : forall T v b tl,
  stage2_ty T = true -> stage2_val T v = true ->
  encode BER true 0 T v = Ok b -> (N.of_nat (length b) <= index_max)%N ->
  exists v', decode BER (Some T) (b ++ tl) = Ok (DV T v', tl) /\ abs T v' = abs T v.
Proof. exact roundtrip_stage2. Qed.
Print Assumptions C07_tail_preserved_stage2.

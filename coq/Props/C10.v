(* C10 - whatever a decoder accepts is a well-formed, re-encodable value of the type.
   Statements only.  Full statement (kept visible; decided per input by the harness and the
   correspondence, proved so far only in the parts below):
     forall c T b v r, decode c (Some T) b = Ok (DV T v, r) ->
       wf_val T v = true /\ exists e v', encode c .. T v = Ok e /\ decode c (Some T) e = Ok (DV T v', []) /\ abs T v' = abs T v. *)
From PV Require Import Base.Bytes Model.Types Model.Proc Model.Enc Model.Dec Proofs.DecSound.
Local Open Scope N_scope.

(* Every value a SEQUENCE/SET decoder returns - for any input, any length form, any way its members
   are decoded ([rec] is arbitrary) - has all its mandatory members present *)
Theorem C10_partial_mandatory_present : forall rec fuel T fs is_set len s d s',
  resume (dec_record rec fuel T fs is_set len) s = inr (Ok d, s') ->
  exists vs, d = DV T (VRec vs) /\ (fs = [] \/ required_seen fs vs = true).
Proof. exact dec_record_complete. Qed.
Print Assumptions C10_partial_mandatory_present.

(* A definite-length element is accepted only if its value decoder consumed exactly the announced
   number of octets *)
Theorem C10_partial_length_respected : forall (k: proc dval) (l: N) s v s',
  resume (let! p0 := tell in let! v := k in let! p1 := tell in
          if N.eqb (N.of_nat (p1 - p0)) l then Ret v else Raise EMalformed) s = inr (Ok v, s') ->
  exists s1, resume k s = inr (Ok v, s1) /\ N.of_nat (pos s1 - pos s) = l /\ s' = s1.
Proof. exact run_value_exact. Qed.
Print Assumptions C10_partial_length_respected.

Example C10_nonvacuous :
  decode BER (Some (TSeq [(Req, TInt); (Opt, TOcts)])) [48; 3; 2; 1; 5] = Ok (DV (TSeq [(Req, TInt); (Opt, TOcts)]) (VRec [Some (VInt 5); None]), [])
  /\ decode BER (Some (TSeq [(Req, TInt); (Opt, TOcts)])) [48; 3; 4; 1; 5] = Err EMalformed.
Proof. split; vm_compute; reflexivity. Qed.

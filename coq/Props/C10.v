(* C10 - whatever a decoder accepts is a well-formed, re-encodable value of the type.
   Statements only.  Full statement (kept visible; decided per input by the harness and the
   correspondence, proved so far only in the parts below):
     forall c T b v r, decode c (Some T) b = Ok (DV T v, r) ->
       wf_val T v = true /\ exists e v', encode c .. T v = Ok e /\ decode c (Some T) e = Ok (DV T v', []) /\ abs T v' = abs T v. *)
From PV Require Import Base.Bytes Model.Types Model.TableTypes Model.Proc Model.Enc Model.Dec Gen.Tables Proofs.DecSound
     Proofs.DerReference Proofs.AcceptedWellFormed Proofs.AcceptedReencodable Proofs.AcceptedLength.
Local Open Scope N_scope.

(* Every value a SEQUENCE/SET decoder returns - for any input, any length form, any way its members
   are decoded ([rec] is arbitrary) - has all its mandatory members present *)
Theorem C10_partial_mandatory_present : forall rec fuel T fs is_set len s d s',
  resume (dec_record rec fuel T fs is_set len) s = inr (Ok d, s') ->
  exists vs, d = DV T (VRec vs) /\ (fs = [] \/ required_seen fs vs = true).
Proof. exact dec_record_complete. Qed.
Print Assumptions C10_partial_mandatory_present.

(* A definite-length element is accepted only if its value decoder consumed exactly the announced
   number of octets *)
Theorem C10_partial_length_respected : forall (k: proc dval) (l: N) s v s',
  resume (let! p0 := tell in let! v := k in let! p1 := tell in
          if N.eqb (N.of_nat (p1 - p0)) l then Ret v else Raise EMalformed) s = inr (Ok v, s') ->
  exists s1, resume k s = inr (Ok v, s1) /\ N.of_nat (pos s1 - pos s) = l /\ s' = s1.
Proof. exact run_value_exact. Qed.
Print Assumptions C10_partial_length_respected.

Example C10_nonvacuous :
  decode BER (Some (TSeq [(Req, TInt); (Opt, TOcts)])) [48; 3; 2; 1; 5] = Ok (DV (TSeq [(Req, TInt); (Opt, TOcts)]) (VRec [Some (VInt 5); None]), [])
  /\ decode BER (Some (TSeq [(Req, TInt); (Opt, TOcts)])) [48; 3; 4; 1; 5] = Err EMalformed.
Proof. split; vm_compute; reflexivity. Qed.

(* For EVERY byte string b whatsoever (valid, damaged, random), every codec, every fuel and every
   guiding type: if the decoder returns, what it returns is a value of exactly the guiding type, and the
   remainder is a suffix of the input *)
Theorem C10_accepted_is_of_the_type : forall c fuel T b d tl,
  decode_with c fuel (Some T) b = Ok (d, tl) ->
  exists v, d = DV T v /\ (AcceptedWellFormed.frag T = true -> val_of T v = true) /\ exists used, b = used ++ tl.
Proof. exact accepted_is_well_formed_gen. Qed.
Print Assumptions C10_accepted_is_of_the_type.

(* ... and that value is complete and well-typed at every level (val_of: right constructor everywhere,
   one slot per declared component with every mandatory one present, CHOICE names an existing
   alternative and holds a value of it, list elements of the element type, OID arcs the encoder takes).
   frag: every type of the universe - SET, CHOICE, OPTIONAL/DEFAULT, ANY, any tagging - except an
   untagged CHOICE reaching an untagged ANY used as a SET member / CHOICE alternative / OPTIONAL-run member *)
Theorem C10_accepted_is_well_formed : forall c fuel T b d tl,
  AcceptedWellFormed.frag T = true -> decode_with c fuel (Some T) b = Ok (d, tl) ->
  exists v, d = DV T v /\ val_of T v = true /\ exists used, b = used ++ tl.
Proof. exact accepted_is_well_formed. Qed.
Print Assumptions C10_accepted_is_well_formed.

(* ... and the same codec's encoder accepts it (enc_ty: no EXPLICIT UNIVERSAL tag, no time type under
   CER/DER - see C10_refuted_time below -, scalar non-REAL DEFAULTs; reals_fit / esize < max_len: the
   exponent and the total length fit what length octets can express) *)
Theorem C10_accepted_is_reencodable : forall c fuel T b d tl,
  AcceptedWellFormed.frag T = true -> enc_ty c T = true ->
  decode_with c fuel (Some T) b = Ok (d, tl) ->
  exists v, d = DV T v /\ val_of T v = true
            /\ (reals_fit v = true -> N.of_nat (esize T v) < max_len -> exists b', encode c true 0 T v = Ok b').
Proof. exact accepted_is_reencodable. Qed.
Print Assumptions C10_accepted_is_reencodable.

(* every well-formed value is encodable, in every mode of every codec *)
Theorem C10_wellformed_is_encodable : forall c defm chunk T v,
  enc_ty c T = true -> val_of T v = true -> reals_fit v = true ->
  N.of_nat (esize T v) < max_len ->
  exists b', encode c defm chunk T v = Ok b' /\ (length b' <= esize T v)%nat.
Proof. exact wellformed_is_encodable. Qed.
Print Assumptions C10_wellformed_is_encodable.

(* the consumed length is what the length octets said *)
Theorem C10_length_respected : forall c fuel sp b d tl,
  decode_with c fuel sp b = Ok (d, tl) ->
  exists t r ol r2, dec_ident b = Some (t, r) /\ dec_len r = Some (ol, r2)
    /\ (ol = None -> support_indef c = true)
    /\ forall l, ol = Some l -> l <> 0 -> exists content, r2 = content ++ tl /\ N.of_nat (length content) = l.
Proof. exact accepted_length_respected. Qed.
Print Assumptions C10_length_respected.

(* was finding F55: an empty indefinite-length tagged CHOICE is now refused *)
Example C10_valueless_choice_refused :
  decode BER (Some (TExp (mkTag Ctx false 0) (TChoice [TInt; TOcts]))) [160; 128; 0; 0] = Err EMalformed.
Proof. vm_compute. reflexivity. Qed.

(* ---------- character strings: what the Unicode string types accept ---------- *)
From PV Require Import Proofs.Unicode Spec.Unicode.

(* For EVERY input, codec, fuel and guiding type whose base is UTF8String (under any stack of tags,
   primitive or segmented): an accepted value holds exactly the UTF-8 encoding (Spec/Unicode.v, written
   from the Unicode Standard / RFC 3629) of a sequence of Unicode scalar values - no overlong form,
   no surrogate, nothing above U+10FFFF, no truncated sequence *)
Theorem C10_accepted_utf8_is_unicode : forall c fuel T b d tl,
  base_of T = TStr 12 -> decode_with c fuel (Some T) b = Ok (d, tl) ->
  exists bs cps, d = DV T (VOcts bs) /\ Forall scalar cps /\ utf8_enc cps = bs.
Proof. exact accepted_utf8_is_unicode. Qed.
Print Assumptions C10_accepted_utf8_is_unicode.

(* BMPString ('utf-16-be': surrogate pairs are accepted, as Python does) and UniversalString
   ('utf-32-be'); octets: every element of the value is below 256 *)
Theorem C10_accepted_bmp_is_unicode : forall c fuel T b d tl,
  base_of T = TStr 30 -> decode_with c fuel (Some T) b = Ok (d, tl) ->
  exists bs, d = DV T (VOcts bs) /\ (octets bs -> exists cps, Forall scalar cps /\ utf16be_enc cps = bs).
Proof. exact accepted_bmp_is_unicode. Qed.
Print Assumptions C10_accepted_bmp_is_unicode.

Theorem C10_accepted_universal_is_unicode : forall c fuel T b d tl,
  base_of T = TStr 28 -> decode_with c fuel (Some T) b = Ok (d, tl) ->
  exists bs, d = DV T (VOcts bs) /\ (octets bs -> exists cps, Forall scalar cps /\ utf32be_enc cps = bs).
Proof. exact accepted_universal_is_unicode. Qed.
Print Assumptions C10_accepted_universal_is_unicode.

(* the three checkers of the model are exactly the reference: accepted iff the image of scalar values *)
Theorem C10_unicode_checkers_exact : forall b,
  (utf8_ok b = true <-> exists cps, Forall scalar cps /\ utf8_enc cps = b)
  /\ (octets b -> (utf16be_ok b = true <-> exists cps, Forall scalar cps /\ utf16be_enc cps = b))
  /\ (octets b -> (utf32be_ok b = true <-> exists cps, Forall scalar cps /\ utf32be_enc cps = b)).
Proof. exact (fun b => conj (utf8_ok_iff b) (conj (utf16be_ok_iff b) (utf32be_ok_iff b))). Qed.
Print Assumptions C10_unicode_checkers_exact.

(* the model declines (EUnmodelled) for no character-string type the library has *)
Theorem C10_string_types_all_modelled : forall n b,
  In n [12; 18; 19; 20; 21; 22; 23; 24; 25; 26; 27; 28; 30; 7] -> str_octets_ok n b <> None.
Proof. exact str_octets_ok_total. Qed.
Print Assumptions C10_string_types_all_modelled.

Example C10_unicode_nonvacuous :
  decode BER (Some (TStr 12)) [12; 9; 0xC3; 0xA9; 0xE4; 0xB8; 0xAD; 0xF0; 0x9F; 0x98; 0x80]
    = Ok (DV (TStr 12) (VOcts (utf8_enc [0xE9; 0x4E2D; 0x1F600])), [])
  /\ decode BER (Some (TStr 12)) [12; 2; 0xC0; 0x80] = Err EUnicode
  /\ decode BER (Some (TStr 30)) [30; 2; 0xDE; 0x00] = Err EUnicode
  /\ decode BER (Some (TStr 28)) [28; 4; 0; 0x11; 0; 0] = Err EUnicode.
Proof. repeat split; vm_compute; reflexivity. Qed.

(* C15 - DER/CER decoders enforce the canonical restrictions they implement, everywhere.
   Statements only. *)
From PV Require Import Base.Bytes Model.Types Model.TableTypes Model.Proc Model.Enc Model.Dec Proofs.TableFacts Proofs.Strict.
Local Open Scope N_scope.

(* On the tables regenerated from /repo on this run: whichever way the DER decoder picks a value
   decoder - by tag (no guiding type) or by type id (guiding type) - every string type gets one that
   forbids the constructed form, indefinite lengths are unsupported, and DER and CER both use the
   strict BOOLEAN decoder, by tag and by type id *)
Theorem C15_strict_tables :
  strings_primitive_only (dec_tag_map DER) = true /\ strings_primitive_only (dec_type_map DER) = true
  /\ support_indef DER = false
  /\ strict_bool (dec_tag_map DER) = true /\ strict_bool (dec_type_map DER) = true
  /\ strict_bool (dec_tag_map CER) = true /\ strict_bool (dec_type_map CER) = true.
Proof. exact strict_tables_facts. Qed.
Print Assumptions C15_strict_tables.

(* what those table entries mean in the decoder, at whatever depth the element is met:
   a length octet 0x80 is refused when indefinite lengths are unsupported *)
Theorem C15_indefinite_refused : forall c s,
  support_indef c = false -> length (avail s) <> 0%nat -> hd 0 (avail s) = 128 ->
  exists s', resume (read_length c) s = inr (Err EMalformed, s').
Proof. exact indefinite_refused. Qed.
Print Assumptions C15_indefinite_refused.

(* a constructed OCTET/character string is refused by a decoder that forbids the constructed form *)
Theorem C15_constructed_string_refused : forall rec fuel proto fl sp ts len sfun,
  df_constructed fl = false -> tag0_simple ts = false ->
  dec_octets rec fuel proto fl sp ts len sfun = Raise EMalformed.
Proof. exact constructed_octets_refused. Qed.
Print Assumptions C15_constructed_string_refused.

Theorem C15_constructed_bits_refused : forall rec fuel fl sp ts len,
  df_constructed fl = false -> tag0_simple ts = false -> len <> 0 ->
  dec_bits rec fuel fl sp ts len false = Raise EMalformed.
Proof. exact constructed_bits_refused. Qed.
Print Assumptions C15_constructed_bits_refused.

(* the strict BOOLEAN decoder accepts exactly one octet, 00 or FF *)
Theorem C15_boolean_strict : forall fuel sp ts (o: N) s s' d,
  avail s = [o] ++ avail s' ->
  resume (dec_bool_cer fuel sp ts 1) s = inr (Ok d, s') -> o = 0 \/ o = 255.
Proof. exact boolean_strict. Qed.
Print Assumptions C15_boolean_strict.

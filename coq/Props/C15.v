(* C15 - DER/CER decoders enforce the canonical restrictions they implement, everywhere.
   Statements only. *)
From PV Require Import Base.Bytes Model.Types Model.TableTypes Model.Proc Model.Enc Model.Dec Spec.X690 Proofs.TableFacts Proofs.Strict
     Proofs.StrictGlobal.
Local Open Scope N_scope.

(* On the tables regenerated from /repo on this run: whichever way the DER decoder picks a value
   decoder - by tag (no guiding type) or by type id (guiding type) - every string type gets one that
   forbids the constructed form, indefinite lengths are unsupported, and DER and CER both use the
   strict BOOLEAN decoder, by tag and by type id *)
Theorem C15_strict_tables :
  strings_primitive_only (dec_tag_map DER) = true /\ strings_primitive_only (dec_type_map DER) = true
  /\ support_indef DER = false
  /\ strict_bool (dec_tag_map DER) = true /\ strict_bool (dec_type_map DER) = true
  /\ strict_bool (dec_tag_map CER) = true /\ strict_bool (dec_type_map CER) = true.
Proof. exact strict_tables_facts. Qed.
Print Assumptions C15_strict_tables.

(* what those table entries mean in the decoder, at whatever depth the element is met:
   a length octet 0x80 is refused when indefinite lengths are unsupported *)
Theorem C15_indefinite_refused : forall c s,
  support_indef c = false -> length (avail s) <> 0%nat -> hd 0 (avail s) = 128 ->
  exists s', resume (read_length c) s = inr (Err EMalformed, s').
Proof. exact indefinite_refused. Qed.
Print Assumptions C15_indefinite_refused.

(* a constructed OCTET/character string is refused by a decoder that forbids the constructed form *)
Theorem C15_constructed_string_refused : forall rec fuel proto fl sp ts len sfun,
  df_constructed fl = false -> tag0_simple ts = false ->
  dec_octets rec fuel proto fl sp ts len sfun = Raise EMalformed.
Proof. exact constructed_octets_refused. Qed.
Print Assumptions C15_constructed_string_refused.

Theorem C15_constructed_bits_refused : forall rec fuel fl sp ts len,
  df_constructed fl = false -> tag0_simple ts = false -> len <> 0 ->
  dec_bits rec fuel fl sp ts len false = Raise EMalformed.
Proof. exact constructed_bits_refused. Qed.
Print Assumptions C15_constructed_bits_refused.

(* the strict BOOLEAN decoder accepts exactly one octet, 00 or FF *)
Theorem C15_boolean_strict : forall fuel sp ts (o: N) s s' d,
  avail s = [o] ++ avail s' ->
  resume (dec_bool_cer fuel sp ts 1) s = inr (Ok d, s') -> o = 0 \/ o = 255.
Proof. exact boolean_strict. Qed.
Print Assumptions C15_boolean_strict.

(* GLOBAL, for every input (any octet string at all, not only rewritten encodings): if the DER decoder
   accepts b without a guiding type, then what it consumed is one complete TLV tree - as parsed by the
   independent X.690 parser - in which, at EVERY depth and under ANY tagging, no length is indefinite,
   no string type (UNIVERSAL 3, 4, 7, 12, 18-28, 30) and no BOOLEAN is constructed, and every BOOLEAN
   has contents 00 or FF *)
Theorem C15_der_accepts_only_der_shape : forall b d tl n rest, wf_bytes b = true ->
  decode DER None b = Ok (d, tl) -> X690.parse b = Some (n, rest) ->
  rest = tl /\ der_shape n = true.
Proof. exact der_accepts_parsed_der_shape. Qed.
Print Assumptions C15_der_accepts_only_der_shape.

(* the same with a guiding type (any type without CHOICE/ANY; IMPLICITly tagged strings and BOOLEANs are
   recognised through the type): gshape T n is the type-directed shape, definite n says no length
   anywhere in the tree is indefinite *)
Theorem C15_der_accepts_only_der_shape_guided : forall T b d tl n rest, wf_bytes b = true -> plain T = true ->
  decode DER (Some T) b = Ok (d, tl) -> X690.parse b = Some (n, rest) ->
  rest = tl /\ gshape T n = true /\ definite n = true.
Proof. exact der_accepts_parsed_gshape. Qed.
Print Assumptions C15_der_accepts_only_der_shape_guided.

(* no indefinite length anywhere, for every guiding type without ANY (CHOICE, SET, OPTIONAL included) and none *)
Theorem C15_der_accepts_only_definite : forall sp b d tl, wf_bytes b = true -> guide_ok sp ->
  decode DER sp b = Ok (d, tl) ->
  exists used n q, b = used ++ tl /\ D (guide sp) [] used n q /\ definite n = true
                   /\ X690.parse b = (if q then None else Some (n, tl)).
Proof. exact der_accepts_definite. Qed.
Print Assumptions C15_der_accepts_only_definite.

(* CER and DER, at any depth, under any tagging, with or without a guiding type: whenever the dispatch
   reaches a BOOLEAN element and succeeds, it consumed exactly one octet and that octet is 00 or FF *)
Theorem C15_boolean_strict_everywhere : forall c rec lf sp ts len sfun s d s',
  c = CER \/ c = DER -> boolean_element c sp ts ->
  resume (dispatch c rec lf sp ts len sfun) s = inr (Ok d, s') ->
  len = Some 1 /\ exists o, took s s' [o] /\ (o = 0 \/ o = 255).
Proof. exact boolean_strict_everywhere. Qed.
Print Assumptions C15_boolean_strict_everywhere.

(* CER on the parse tree (indefinite lengths included) for guiding types without strings/CHOICE/ANY *)
Theorem C15_cer_accepts_only_strict_boolean : forall T b d tl n rest, wf_bytes b = true -> cplain T = true ->
  decode CER (Some T) b = Ok (d, tl) -> X690.parse b = Some (n, rest) ->
  rest = tl /\ cok n [T] 1 (node_tag n) = true.
Proof. exact cer_accepts_parsed_boolean_strict. Qed.
Print Assumptions C15_cer_accepts_only_strict_boolean.

(* observation recorded by the proof (outside the three restrictions the property names): the CER/DER
   BOOLEAN decoder does not test the primitive/constructed bit, so 21 01 FF is accepted by DER and CER
   and refused by BER; the independent parser cannot even parse it (FF is not a TLV) *)
Example C15_constructed_boolean_observation :
  decode DER None [33; 1; 255] = Ok (DV TBool (VBool true), [])
  /\ decode BER None [33; 1; 255] = Err EMalformed
  /\ X690.parse [33; 1; 255] = None.
Proof. vm_compute. repeat split. Qed.

(* C08 - malformed input fails cleanly: only library errors, always terminates.  Statements only. *)
From PV Require Import Base.Bytes Model.Proc Model.Types Model.Enc Model.Dec Proofs.ProcSim Proofs.Total.
Local Open Scope nat_scope.

(* Termination is by construction (every model function is structurally recursive on the type or on
   explicit fuel).  What is stated: on a closed stream the decoder model always finishes - it never
   waits - for every codec, fuel, guiding type and byte string whatsoever, provided the run never
   touches ReadAll (guarded) *)
Theorem C08_always_finishes : forall c fuel sp (b: bytes),
  exists r s', resume (guard EUnclean (dec_item c fuel sp)) (mkStream b 0 true 0) = inr (r, s').
Proof. exact decoder_finishes. Qed.
Print Assumptions C08_always_finishes.

(* every read either gets all the octets it asked for or ends the run: the number of octets consumed
   never exceeds the input, so the position reported with the result is within the input *)
Theorem C08_position_bounded : forall (A: Type) (p: proc A) b r s',
  clean p -> resume p (mkStream b 0 true 0) = inr (r, s') -> pos s' <= length b.
Proof. exact run_position_bounded. Qed.
Print Assumptions C08_position_bounded.

(* the errors the model can return are library errors except for the crash kinds it predicts;
   the crash-free claim itself is decided per input by the correspondence (evidence: crash count) *)
Example C08_nonvacuous :
  decode_with BER 20 None [35%N; 2%N; 3%N; 0%N] = Err EMalformed
  /\ decode_with BER 20 (Some TInt) [2%N; 132%N; 255%N; 255%N; 255%N; 255%N] = Err EEndOfStream
  /\ is_library EMalformed = true /\ is_library EEndOfStream = true.
Proof. repeat split; vm_compute; reflexivity. Qed.

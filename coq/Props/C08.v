(* C08 - malformed input fails cleanly: only library errors, always terminates.  Statements only. *)
From PV Require Import Base.Bytes Model.Proc Model.Types Model.Enc Model.Dec Model.Obs Proofs.ProcSim Proofs.Total
     Proofs.NeverCrashes Proofs.NeverStarves Proofs.FailsCleanly.
Local Open Scope nat_scope.

(* Termination is by construction (every model function is structurally recursive on the type or on
   explicit fuel).  What is stated: on a closed stream the decoder model always finishes - it never
   waits - for every codec, fuel, guiding type and byte string whatsoever, provided the run never
   touches ReadAll (guarded) *)
Theorem C08_always_finishes : forall c fuel sp (b: bytes),
  exists r s', resume (guard EUnclean (dec_item c fuel sp)) (mkStream b 0 true 0) = inr (r, s').
Proof. exact decoder_finishes. Qed.
Print Assumptions C08_always_finishes.

(* every read either gets all the octets it asked for or ends the run: the number of octets consumed
   never exceeds the input, so the position reported with the result is within the input *)
Theorem C08_position_bounded : forall (A: Type) (p: proc A) b r s',
  clean p -> resume p (mkStream b 0 true 0) = inr (r, s') -> pos s' <= length b.
Proof. exact run_position_bounded. Qed.
Print Assumptions C08_position_bounded.

(* the errors the model can return are library errors except for the crash kinds it predicts;
   the crash-free claim itself is decided per input by the correspondence (evidence: crash count) *)
Example C08_nonvacuous :
  decode_with BER 20 None [35%N; 2%N; 3%N; 0%N] = Err EMalformed
  /\ decode_with BER 20 (Some TInt) [2%N; 132%N; 255%N; 255%N; 255%N; 255%N] = Err EEndOfStream
  /\ is_library EMalformed = true /\ is_library EEndOfStream = true.
Proof. repeat split; vm_compute; reflexivity. Qed.

(* THE property on the model, for EVERY byte string, every decoder, with or without a guiding type (no
   well-formedness of the guiding type is needed): the outcome is a value object (never noValue, None
   or a bare octets object) with a strictly shorter remainder, or a LIBRARY error.  In the model a
   built-in exception of the implementation is the explicit outcome Err (ECrash k) at every place where
   the Python code performs an unguarded partial operation, non-termination is Err EOutOfFuel.  Neither
   is reachable.  (EUnmodelled: the model declines - decimal REAL (every text codec is covered: C10_string_types_all_modelled); the
   harness counts those cases separately and decides them on the implementation alone.) *)
Theorem C08_fails_cleanly : forall c sp b,
  match decode c sp b with
  | Ok (d, tl) => is_value d /\ length tl < length b
  | Err e => is_library e = true \/ e = EUnmodelled
  end.
Proof. exact FAILS_CLEANLY. Qed.
Print Assumptions C08_fails_cleanly.

(* no built-in exception: every crash site of the model is unreachable, whatever the fuel *)
Theorem C08_never_crashes : forall c fuel sp b r, decode_with c fuel sp b = r ->
  match r with Err (ECrash _) => False | _ => True end.
Proof. exact NO_CRASH. Qed.
Print Assumptions C08_never_crashes.

(* always terminates: the decoder's own fuel never runs out, and any fuel of at least twice the
   input length plus twice the depth of the guiding type suffices - every loop iteration consumes input *)
Theorem C08_never_starves : forall c sp b, decode c sp b <> Err EOutOfFuel.
Proof. exact NO_STARVATION. Qed.
Print Assumptions C08_never_starves.

Theorem C08_fuel_bound : forall c fuel sp b, 2 * length b + 2 * odepth sp <= fuel ->
  decode_with c fuel sp b <> Err EOutOfFuel.
Proof. exact decode_with_never_starves. Qed.
Print Assumptions C08_fuel_bound.

(* C18 - open types (ANY DEFINED BY) resolve by governing value and round-trip.  Statements only.

   Model/OpenType.v: enc_open = the SEQUENCE/SET encoders' open-type wrapping (as repaired by
   fixes/F50.diff, fixes/F51.diff); dec_open = decode followed by the decoder's second pass.
   The codec round trip itself is a premise here ([roundtrips c defMode chunk T], the statement of the
   round-trip properties C01/C02 for one type); F01 is the class where that premise is false. *)
From PV Require Import Base.Bytes Model.Types Model.Enc Model.Dec Model.OpenType Proofs.OpenType Proofs.OpenTypeWitness.
From PV Require Import Model.OpenTypeDef Proofs.OpenTypeDef.
From PV Require Import Model.OpenTypeMap Proofs.OpenTypeMap.
From PV Require Import Model.TableTypes Gen.Tables Proofs.RoundTrip1 Proofs.RoundTrip3b Proofs.RoundTrip3e Proofs.RoundTripModesC Proofs.RoundTripModes Proofs.RoundTripModes3 Proofs.OpenTypeRT.
Local Open Scope N_scope.

(* ---- with resolution off, or an unmapped governing value, the member holds exactly the complete
        encoding of the inner value (for a mandatory member: encode c defMode chunk Ti xi; for an
        OPTIONAL one under CER/DER the encoding made with the member's own options) ---- *)
Theorem C18_raw_is_complete_encoding :
  forall c defm ck T fs gi oi p ft pg gT vs g Ti xi ce dflt override dot wire,
  rec_fields T = Some fs -> nth_error fs oi = Some (p, ft) -> nth_error fs gi = Some (pg, gT) ->
  is_any ft = true -> not_def p -> not_def pg -> gi <> oi -> (oi < length vs)%nat ->
  nth gi vs None = Some g -> gov_ok gT g = true ->
  concrete_encoder c T = Ok ce -> sorts_members (fst ce) = false -> holds_blob ft Ti = false ->
  roundtrips c defm ck T ->
  enc_open c defm ck T oi (VRec vs) true [(Ti, xi)] = Ok wire ->
  ((dot = false /\ override = []) \/ resolve_type override dflt g = None) ->
  exists mo chunk vs' fv,
    member_opts c defm ck T p = Ok mo /\ enc c Ti mo xi = Ok chunk /\
    (is_opt p = false -> encode c defm ck Ti xi = Ok chunk) /\
    dec_open c T gi oi dflt override dot wire = Ok (DV T (VRec vs'), []) /\
    nth oi vs' None = Some fv /\ octets_of fv = Some chunk.
Proof. exact raw_is_complete_encoding. Qed.
Print Assumptions C18_raw_is_complete_encoding.

(* ---- with resolution on and the governing value mapped to Ti, the member comes back as the inner
        value decoded as Ti ---- *)
Theorem C18_resolved :
  forall c defm ck T fs gi oi p ft pg gT vs g Ti xi ce dflt override dot wire chunk,
  rec_fields T = Some fs -> nth_error fs oi = Some (p, ft) -> nth_error fs gi = Some (pg, gT) ->
  is_any ft = true -> not_def p -> is_opt p = false -> not_def pg -> gi <> oi -> (oi < length vs)%nat ->
  nth gi vs None = Some g -> gov_ok gT g = true ->
  concrete_encoder c T = Ok ce -> sorts_members (fst ce) = false -> holds_blob ft Ti = false ->
  roundtrips c defm ck T -> roundtrips c defm ck Ti ->
  enc_open c defm ck T oi (VRec vs) true [(Ti, xi)] = Ok wire ->
  encode c defm ck Ti xi = Ok chunk -> no_eoo_prefix chunk = true ->
  (dot = true \/ override <> []) -> resolve_type override dflt g = Some Ti ->
  exists w vs',
    dec_open c T gi oi dflt override dot wire
      = Ok (DV (subst_field T oi Ti) (VRec (set_nth oi (Some w) vs')), []) /\
    aval_eqb (abs Ti w) (abs Ti xi) = true.
Proof. exact resolved. Qed.
Print Assumptions C18_resolved.

(* ---- a caller-supplied map entry wins over the default map, whatever that says, and switches
        resolution on even without decodeOpenTypes ---- *)
Theorem C18_override_wins :
  forall c defm ck T fs gi oi p ft pg gT vs g Ti xi ce dflt override dot wire chunk,
  rec_fields T = Some fs -> nth_error fs oi = Some (p, ft) -> nth_error fs gi = Some (pg, gT) ->
  is_any ft = true -> not_def p -> is_opt p = false -> not_def pg -> gi <> oi -> (oi < length vs)%nat ->
  nth gi vs None = Some g -> gov_ok gT g = true ->
  concrete_encoder c T = Ok ce -> sorts_members (fst ce) = false -> holds_blob ft Ti = false ->
  roundtrips c defm ck T -> roundtrips c defm ck Ti ->
  enc_open c defm ck T oi (VRec vs) true [(Ti, xi)] = Ok wire ->
  encode c defm ck Ti xi = Ok chunk -> no_eoo_prefix chunk = true ->
  omap_find g override = Some Ti ->
  exists w vs',
    dec_open c T gi oi dflt override dot wire
      = Ok (DV (subst_field T oi Ti) (VRec (set_nth oi (Some w) vs')), []) /\
    aval_eqb (abs Ti w) (abs Ti xi) = true.
Proof. exact override_wins_resolved. Qed.
Print Assumptions C18_override_wins.

Theorem C18_override_lookup : forall override dflt g E,
  omap_find g override = Some E -> resolve_type override dflt g = Some E.
Proof. exact override_wins. Qed.
Print Assumptions C18_override_lookup.

(* ---- the same on the wire: any bytes whose plain decoding reads like the record with the wrapped
        chunk in the open member (this covers CER/DER SETs, whose members enc_open re-orders, and
        OPTIONAL members) ---- *)
Theorem C18_raw_on_wire :
  forall c T fs gi oi p ft gT pg,
  rec_fields T = Some fs -> nth_error fs oi = Some (p, ft) -> nth_error fs gi = Some (pg, gT) ->
  is_any ft = true -> not_def p -> not_def pg ->
  forall vs g chunk, nth gi vs None = Some g -> gov_ok gT g = true -> gi <> oi -> (oi < length vs)%nat ->
  forall dflt override dot wire v',
  decode c (Some T) wire = Ok (DV T v', []) ->
  aval_eqb (abs T v') (abs T (VRec (set_nth oi (Some (VAny chunk)) vs))) = true ->
  resolve_type override dflt g = None ->
  exists vs' fv, dec_open c T gi oi dflt override dot wire = Ok (DV T (VRec vs'), [])
                 /\ nth oi vs' None = Some fv /\ octets_of fv = Some chunk.
Proof. exact raw_when_unmapped. Qed.
Print Assumptions C18_raw_on_wire.

Theorem C18_resolved_on_wire :
  forall c T fs gi oi p ft gT pg,
  rec_fields T = Some fs -> nth_error fs oi = Some (p, ft) -> nth_error fs gi = Some (pg, gT) ->
  is_any ft = true -> not_def p -> not_def pg ->
  forall vs g chunk, nth gi vs None = Some g -> gov_ok gT g = true -> gi <> oi -> (oi < length vs)%nat ->
  forall dflt override dot wire v',
  decode c (Some T) wire = Ok (DV T v', []) ->
  aval_eqb (abs T v') (abs T (VRec (set_nth oi (Some (VAny chunk)) vs))) = true ->
  forall E w, (dot = true \/ override <> []) -> resolve_type override dflt g = Some E ->
  no_eoo_prefix chunk = true -> decode c (Some E) chunk = Ok (DV E w, []) ->
  exists vs', dec_open c T gi oi dflt override dot wire
              = Ok (DV (subst_field T oi E) (VRec (set_nth oi (Some w) vs')), [])
              /\ v' = VRec vs'.
Proof. exact resolved_when_mapped. Qed.
Print Assumptions C18_resolved_on_wire.

(* ---- SEQUENCE OF / SET OF ANY members: every element ---- *)
Theorem C18_raw_list :
  forall c defm ck T fs gi oi p ft t pg gT vs g inners dflt override dot wire,
  rec_fields T = Some fs -> nth_error fs oi = Some (p, ft) -> nth_error fs gi = Some (pg, gT) ->
  list_elem ft = Some t -> is_any t = true -> not_def p -> not_def pg -> gi <> oi -> (oi < length vs)%nat ->
  nth gi vs None = Some g -> gov_ok gT g = true ->
  Forall (fun i => holds_blob t (fst i) = false) inners ->
  roundtrips c defm ck T ->
  enc_open c defm ck T oi (VRec vs) true inners = Ok wire ->
  ((dot = false /\ override = []) \/ resolve_type override dflt g = None) ->
  exists vs' ys,
    dec_open c T gi oi dflt override dot wire = Ok (DV T (VRec vs'), []) /\
    nth oi vs' None = Some (VList ys) /\ length ys = length inners /\
    Forall (fun y => exists Ti xi ch, In (Ti, xi) inners /\ encode c defm ck Ti xi = Ok ch /\ octets_of y = Some ch) ys.
Proof. exact raw_list_is_complete_encodings. Qed.
Print Assumptions C18_raw_list.

Theorem C18_resolved_list :
  forall c defm ck T fs gi oi p ft t pg gT vs g E xs dflt override dot wire,
  rec_fields T = Some fs -> nth_error fs oi = Some (p, ft) -> nth_error fs gi = Some (pg, gT) ->
  list_elem ft = Some t -> is_any t = true -> not_def p -> not_def pg -> gi <> oi -> (oi < length vs)%nat ->
  nth gi vs None = Some g -> gov_ok gT g = true ->
  holds_blob t E = false ->
  roundtrips c defm ck T -> roundtrips c defm ck E ->
  enc_open c defm ck T oi (VRec vs) true (map (fun x => (E, x)) xs) = Ok wire ->
  (forall x ch, In x xs -> encode c defm ck E x = Ok ch -> no_eoo_prefix ch = true) ->
  (dot = true \/ override <> []) -> resolve_type override dflt g = Some E ->
  exists vs' ws,
    dec_open c T gi oi dflt override dot wire
      = Ok (DV (subst_field T oi (retype_list ft E)) (VRec (set_nth oi (Some (VList ws)) vs')), []) /\
    length ws = length xs /\
    Forall (fun w => exists x, In x xs /\ aval_eqb (abs E w) (abs E x) = true) ws.
Proof. exact resolved_list_elements. Qed.
Print Assumptions C18_resolved_list.

(* ---- allowEoo, which the indefinite-length second pass sets, is immaterial for octets that do not
        start with the end-of-octets marker ---- *)
Theorem C18_allow_eoo_immaterial : forall c allow sp b,
  no_eoo_prefix b = true -> decode_eoo c allow sp b = decode c sp b.
Proof. exact decode_eoo_any. Qed.
Print Assumptions C18_allow_eoo_immaterial.

(* ---- refuted classes ---- *)

(* F01 (open, pinned by the suite): [1] EXPLICIT INTEGER as the inner type in indefinite mode - the
   round-trip premise is false ... *)
Theorem C18_roundtrip_premise_refuted_F01 : ~ roundtrips BER false 0 (TExp (mkTag Ctx true 1) TInt).
Proof. exact f01_inner_roundtrip_fails. Qed.
Print Assumptions C18_roundtrip_premise_refuted_F01.

(* ... and the property fails: the record ends at the stray 00 00, two octets are left over *)
Theorem C18_resolved_refuted_F01 :
  exists wire, enc_open BER false 0 T1 1 (VRec [Some (VInt 5); None]) true [(Tx, VInt 5)] = Ok wire
  /\ f01_top Tx = true
  /\ (exists d, dec_open BER T1 0 1 m7 [] true wire = Ok (d, [0;0]))
  /\ (exists vs', dec_open BER T1 0 1 m7 [] false wire = Ok (DV T1 (VRec vs'), [0;0])
                 /\ nth 1 vs' None = Some (VAny [161;3;2;1;5])
                 /\ encode BER false 0 Tx (VInt 5) = Ok [161;3;2;1;5;0;0]).
Proof. exact f01_open_record. Qed.
Print Assumptions C18_resolved_refuted_F01.

(* F50, the encoder before fixes/F50.diff: a typed value carrying the tags of the wrapping ANY was
   emitted unwrapped - the member holds the contents octets only and resolution fails *)
Theorem C18_unwrapped_refuted_F50 :
  f50_class (TExp (mkTag Ctx true 3) TAny) Ti50 = true
  /\ encode BER true 0 Ti50 (VInt 5) = Ok [131;1;5]
  /\ encode BER true 0 T50_unwrapped (VRec [Some (VInt 6); Some (VInt 5)]) = Ok [48;6;2;1;6;131;1;5]
  /\ dec_open BER T50 0 1 [(VInt 6, Ti50)] [] false [48;6;2;1;6;131;1;5]
     = Ok (DV T50 (VRec [Some (VInt 6); Some (VAny [5])]), [])
  /\ dec_open BER T50 0 1 [(VInt 6, Ti50)] [] true [48;6;2;1;6;131;1;5] = Err EEndOfStream.
Proof. exact f50_unrepaired_refuted. Qed.
Print Assumptions C18_unwrapped_refuted_F50.

(* F51, the CER/DER SET encoder before fixes/F51.diff: elements of an open SEQUENCE OF [3] ANY member
   were emitted unwrapped - the record cannot be decoded *)
Theorem C18_unwrapped_refuted_F51 :
  encode DER true 0 T51_unwrapped (VRec [Some (VInt 2); Some (VList [VOcts [97]])]) = Ok [49;8;2;1;2;48;3;4;1;97]
  /\ dec_open DER T51 0 1 [(VInt 2, TOcts)] [] false [49;8;2;1;2;48;3;4;1;97] = Err EMalformed.
Proof. exact f51_unrepaired_refuted. Qed.
Print Assumptions C18_unwrapped_refuted_F51.

(* ---- non-vacuity ---- *)

Example C18_example_integer_keyed :
  enc_open BER true 0 T1 1 (VRec [Some (VInt 1); None]) true [(TInt, VInt 12)] = Ok [48;6;2;1;1;2;1;12]
  /\ encode BER true 0 TInt (VInt 12) = Ok [2;1;12]
  /\ dec_open BER T1 0 1 m1 [] true [48;6;2;1;1;2;1;12]
     = Ok (DV (TSeq [(Req, TInt); (Req, TInt)]) (VRec [Some (VInt 1); Some (VInt 12)]), [])
  /\ dec_open BER T1 0 1 m1 [] false [48;6;2;1;1;2;1;12]
     = Ok (DV T1 (VRec [Some (VInt 1); Some (VAny [2;1;12])]), []).
Proof. exact ex_int_keyed. Qed.
Print Assumptions C18_example_integer_keyed.

Example C18_example_unmapped :
  resolve_type [] m1 (VInt 3) = None
  /\ dec_open BER T1 0 1 m1 [] true [48;6;2;1;3;2;1;12]
     = Ok (DV T1 (VRec [Some (VInt 3); Some (VAny [2;1;12])]), []).
Proof. exact ex_unmapped. Qed.
Print Assumptions C18_example_unmapped.

Example C18_example_override :
  resolve_type [(VInt 1, TOcts)] m1 (VInt 1) = Some TOcts
  /\ enc_open BER true 0 T1 1 (VRec [Some (VInt 1); None]) true [(TOcts, VOcts [12])] = Ok [48;6;2;1;1;4;1;12]
  /\ dec_open BER T1 0 1 m1 [(VInt 1, TOcts)] false [48;6;2;1;1;4;1;12]
     = Ok (DV (TSeq [(Req, TInt); (Req, TOcts)]) (VRec [Some (VInt 1); Some (VOcts [12])]), []).
Proof. exact ex_override. Qed.
Print Assumptions C18_example_override.

Example C18_example_oid_keyed_explicit_constructed_cer :
  enc_open CER true 0 T2 0 (VRec [None; Some (VOid [1;3;6;1;2])]) true [(Tin2, VRec [Some (VInt 5); Some (VBool true)])] = Ok wire2
  /\ encode CER true 0 Tin2 (VRec [Some (VInt 5); Some (VBool true)]) = Ok [48;128;2;1;5;1;1;255;0;0]
  /\ dec_open CER T2 1 0 m2 [] true wire2
     = Ok (DV (TSeq [(Req, Tin2); (Req, TOid)]) (VRec [Some (VRec [Some (VInt 5); Some (VBool true)]); Some (VOid [1;3;6;1;2])]), [])
  /\ dec_open CER T2 1 0 m2 [] false wire2
     = Ok (DV T2 (VRec [Some (VAny [48;128;2;1;5;1;1;255;0;0]); Some (VOid [1;3;6;1;2])]), []).
Proof. exact ex_oid_keyed_cer. Qed.
Print Assumptions C18_example_oid_keyed_explicit_constructed_cer.

Example C18_example_set_of_implicit_der :
  enc_open DER true 0 T5 1 (VRec [Some (VInt 1); None]) true [(TInt, VInt 256); (TInt, VInt 1)]
    = Ok [48;16;2;1;1;49;11;131;3;2;1;1;131;4;2;2;1;0]
  /\ dec_open DER T5 0 1 m1 [] true [48;16;2;1;1;49;11;131;3;2;1;1;131;4;2;2;1;0]
     = Ok (DV (TSeq [(Req, TInt); (Req, TSetOf TInt)]) (VRec [Some (VInt 1); Some (VList [VInt 1; VInt 256])]), []).
Proof. exact ex_set_of_der. Qed.
Print Assumptions C18_example_set_of_implicit_der.

Example C18_example_sorted_set_der :
  enc_open DER true 0 T6 1 (VRec [Some (VInt 1); None]) true [(TBool, VBool true)] = Ok [49;8;163;3;1;1;255;2;1;1]
  /\ encode DER true 0 T6 (VRec [Some (VInt 1); Some (VAny [1;1;255])]) = Ok [49;8;2;1;1;163;3;1;1;255]
  /\ dec_open DER T6 0 1 [(VInt 1, TBool)] [] true [49;8;163;3;1;1;255;2;1;1]
     = Ok (DV (TSet [(Req, TInt); (Req, TBool)]) (VRec [Some (VInt 1); Some (VBool true)]), []).
Proof. exact ex_sorted_set_der. Qed.
Print Assumptions C18_example_sorted_set_der.

Example C18_example_premises_hold :
  rec_fields T1 = Some [(Req, TInt); (Req, TAny)] /\ is_any TAny = true /\ gov_ok TInt (VInt 1) = true
  /\ holds_blob TAny TInt = false /\ no_eoo_prefix [2;1;12] = true
  /\ (exists ce, concrete_encoder BER T1 = Ok ce /\ sorts_members (fst ce) = false).
Proof. exact ex_premises. Qed.
Print Assumptions C18_example_premises_hold.

Example C18_example_repaired_F50_F51 :
  (enc_open BER true 0 T50 1 (VRec [Some (VInt 6); None]) true [(Ti50, VInt 5)] = Ok [48;8;2;1;6;163;3;131;1;5]
   /\ dec_open BER T50 0 1 [(VInt 6, Ti50)] [] true [48;8;2;1;6;163;3;131;1;5]
      = Ok (DV (TSeq [(Req, TInt); (Req, Ti50)]) (VRec [Some (VInt 6); Some (VInt 5)]), []))
  /\ (enc_open DER true 0 T51 1 (VRec [Some (VInt 2); None]) true [(TOcts, VOcts [97])] = Ok [49;10;2;1;2;48;5;163;3;4;1;97]
      /\ dec_open DER T51 0 1 [(VInt 2, TOcts)] [] true [49;10;2;1;2;48;5;163;3;4;1;97]
         = Ok (DV (TSet [(Req, TInt); (Req, TSeqOf TOcts)]) (VRec [Some (VInt 2); Some (VList [VOcts [97]])]), [])).
Proof. split; [exact (conj (proj1 (proj2 f50_repaired)) (proj1 (proj2 (proj2 f50_repaired)))) | exact f51_repaired]. Qed.
Print Assumptions C18_example_repaired_F50_F51.

(* ---- governing member declared DEFAULT or OPTIONAL (Model/OpenTypeDef.v: dec_open_d, the decoder the
        harness compares with).  The theorems above speak of a governing member that was decoded; there
        the extended second pass is the same function ---- *)
Theorem C18_governing_present_unchanged : forall c allow T fs gi oi dflt override vs g,
  nth gi vs None = Some g ->
  second_pass_d c allow T fs gi oi dflt override vs = second_pass c allow T fs gi oi dflt override vs.
Proof. exact second_pass_d_present. Qed.
Print Assumptions C18_governing_present_unchanged.

(* a DEFAULT governing member whose value equals the default is not in the encoding (no codec emits it):
   the open member is resolved exactly as in the record that holds the default explicitly *)
Theorem C18_defaulted_governing_as_explicit : forall c allow T fs gi oi dflt override vs p ft fv d gT,
  nth_error fs oi = Some (p, ft) -> nth oi vs None = Some fv ->
  nth_error fs gi = Some (Def d, gT) -> nth gi vs None = None ->
  second_pass_d c allow T fs gi oi dflt override vs
  = second_pass c allow T fs gi oi dflt override (set_nth gi (Some d) vs).
Proof. exact second_pass_d_defaulted. Qed.
Print Assumptions C18_defaulted_governing_as_explicit.

(* the value the decoder resolves by is the governing value of the specification (explicit, else the default) *)
Theorem C18_governing_value_is_effective : forall fs gi vs pg gT g,
  nth_error fs gi = Some (pg, gT) -> gov_value fs gi vs = Ok g -> effective_gov pg (nth gi vs None) = Some g.
Proof. exact gov_value_is_effective. Qed.
Print Assumptions C18_governing_value_is_effective.

(* an OPTIONAL governing member left out: there is no governing value; the decoder raises once resolution is on *)
Theorem C18_no_governing_value : forall c allow T fs gi oi dflt override vs p ft fv gT,
  nth_error fs oi = Some (p, ft) -> nth oi vs None = Some fv ->
  nth_error fs gi = Some (Opt, gT) -> nth gi vs None = None ->
  second_pass_d c allow T fs gi oi dflt override vs = Err EMalformed.
Proof. exact second_pass_d_no_governing_value. Qed.
Print Assumptions C18_no_governing_value.

Example C18_example_defaulted_governing :
  enc_open BER true 0 TD1 1 (VRec [Some (VInt 1); None]) true [(Pt, pt)] = Ok [48;8;48;6;2;1;3;2;1;252]
  /\ enc_open BER true 0 TD1 1 (VRec [None; None]) true [(Pt, pt)] = Ok [48;8;48;6;2;1;3;2;1;252]
  /\ expected_type (Def (VInt 1)) None md [] true = Some Pt
  /\ dec_open_d BER TD1 0 1 md [] true [48;8;48;6;2;1;3;2;1;252]
     = Ok (DV (TSeq [(Def (VInt 1), TInt); (Req, Pt)]) (VRec [Some (VInt 1); Some pt]), [])
  /\ dec_open_d BER TD1 0 1 md [] false [48;8;48;6;2;1;3;2;1;252]
     = Ok (DV TD1 (VRec [None; Some (VAny [48;6;2;1;3;2;1;252])]), []).
Proof. exact ex_defaulted_ber. Qed.
Print Assumptions C18_example_defaulted_governing.

Example C18_example_defaulted_governing_set_of_der :
  enc_open DER true 0 TD2 1 (VRec [Some (VInt 1); None]) true [(Pt, pt)] = Ok [49;12;49;10;163;8;48;6;2;1;3;2;1;252]
  /\ dec_open_d DER TD2 0 1 md [] true [49;12;49;10;163;8;48;6;2;1;3;2;1;252]
     = Ok (DV (TSet [(Def (VInt 1), TInt); (Req, TSetOf Pt)]) (VRec [Some (VInt 1); Some (VList [pt])]), []).
Proof. exact ex_defaulted_set_of_der. Qed.
Print Assumptions C18_example_defaulted_governing_set_of_der.

(* ---- the declared type map is the caller's dict itself, consulted as it is at decode time
        (Model/OpenTypeMap.v: map_now m0 history; the harness hands the decoder model that map) ---- *)

(* whatever the dict held when the type was defined - nothing, in the usual schema module - a value
   registered afterwards resolves, and one removed afterwards does not *)
Theorem C18_registered_later_resolves : forall m0 ops g t, gov_eqb g g = true ->
  resolve_type [] (map_now m0 (ops ++ [MSet g t])) g = Some t.
Proof. exact registered_later_resolves. Qed.
Print Assumptions C18_registered_later_resolves.

Theorem C18_removed_later_unmapped : forall m0 ops g,
  resolve_type [] (map_now m0 (ops ++ [MDel g])) g = None.
Proof. exact removed_later_unmapped. Qed.
Print Assumptions C18_removed_later_unmapped.

(* a write concerns its own key only *)
Theorem C18_write_leaves_other_keys : forall m g t g', gov_eqb g' g = false ->
  omap_find g' (map_step m (MSet g t)) = omap_find g' m /\ omap_find g' (map_step m (MDel g)) = omap_find g' m.
Proof. intros m g t g' H. split; [exact (find_after_set_other m g t g' H) | exact (find_after_del_other m g g' H)]. Qed.
Print Assumptions C18_write_leaves_other_keys.

(* OpenType objects made over one dict at different moments show the same content *)
Theorem C18_views_agree : forall m0 h1 h2 h1' h2', h1 ++ h2 = h1' ++ h2' -> view_of m0 h1 h2 = view_of m0 h1' h2'.
Proof. exact views_agree. Qed.
Print Assumptions C18_views_agree.

Example C18_example_defined_empty_then_filled :
  dec_open_live BER TL1 0 1 [] [MSet (VInt 3) Pt] [] true [48;11;2;1;3;48;6;2;1;3;2;1;252]
    = Ok (DV (TSeq [(Req, TInt); (Req, Pt)]) (VRec [Some (VInt 3); Some pt]), [])
  /\ dec_open_live BER TL1 0 1 [] [] [] true [48;11;2;1;3;48;6;2;1;3;2;1;252]
    = Ok (DV TL1 (VRec [Some (VInt 3); Some (VAny [48;6;2;1;3;2;1;252])]), [])
  /\ dec_open_live DER TL2 0 1 [] [MSet (VInt 5) TNull; MSet (VInt 3) Pt] [] true [49;15;2;1;3;49;10;163;8;48;6;2;1;3;2;1;252]
    = Ok (DV (TSet [(Req, TInt); (Req, TSetOf Pt)]) (VRec [Some (VInt 3); Some (VList [pt])]), []).
Proof. exact ex_defined_empty_then_filled. Qed.
Print Assumptions C18_example_defined_empty_then_filled.

Example C18_example_replaced_and_removed :
  dec_open_live BER TL1 0 1 [(VInt 3, TOcts)] [MSet (VInt 3) Pt] [] true [48;11;2;1;3;48;6;2;1;3;2;1;252]
    = Ok (DV (TSeq [(Req, TInt); (Req, Pt)]) (VRec [Some (VInt 3); Some pt]), [])
  /\ dec_open_live BER TL1 0 1 [(VInt 3, Pt)] [MDel (VInt 3)] [] true [48;11;2;1;3;48;6;2;1;3;2;1;252]
    = Ok (DV TL1 (VRec [Some (VInt 3); Some (VAny [48;6;2;1;3;2;1;252])]), []).
Proof. exact ex_replaced_and_removed. Qed.
Print Assumptions C18_example_replaced_and_removed.

(* ---- unconditional: the record round trip is no longer a premise ---- *)

(* For every record type of the universe holding an open member (a tagged or untagged ANY governed by an
   INTEGER/OID member), every governing value, every mapped inner type of the universe and every inner
   value, every mode (mode_ok: definite with any decoder, or any stable mode with the BER/CER decoders):
   encoding the record with the typed inner value and decoding it with resolution on (or a caller's
   override map) returns - read against the type whose open member has the mapped type - the record
   that was sent with the typed inner value in the open member.  hole_val: the other members are
   values of the universe; inner_kept: finding F24 does not swallow an empty inner value of an OPTIONAL
   open member under CER/DER; inner_definite / anys_ok / no_f01: the conditions of the indefinite-mode
   round trip. *)
Theorem C18_open_resolved_record : forall (ce cd : codec) (d : bool) (k : N) (srt : bool),
  mode_ok ce cd d k ->
  forall (T : ty) (fs : list (presence * ty)) (gi oi : nat) (p : presence) (ft : ty) (pg : presence) (gT : ty),
  RoundTrip3b.stage3_ty srt ce T = true ->
  (d = false -> RoundTripModes.no_f01 T = true) ->
  rec_fields T = Some fs ->
  nth_error fs oi = Some (p, ft) ->
  nth_error fs gi = Some (pg, gT) ->
  is_any ft = true ->
  OpenType.not_def p -> OpenType.not_def pg -> gi <> oi ->
  keeps_order ce T \/ ce = DER ->
  forall (vs : list (option val)) (g : val),
  hole_val ce cd d T oi vs = true ->
  nth gi vs None = Some g ->
  OpenType.gov_ok gT g = true ->
  forall (Ti : ty) (xi : val),
  RoundTrip3b.stage3_ty srt ce Ti = true ->
  RoundTrip3b.stage3_val ce cd Ti xi = true ->
  holds_blob ft Ti = false ->
  inner_kept ce p Ti xi ->
  (d = false -> inner_definite ce d k Ti xi) ->
  forall wire : bytes,
  enc_open ce d k T oi (VRec vs) true [(Ti, xi)] = Ok wire ->
  (N.of_nat (length wire) <= index_max)%N ->
  (d = false -> RoundTripModes.no_f01 Ti = true) ->
  (d = false -> RoundTripModes3.anys_ok Ti xi = true) ->
  forall (dflt : omap) (override : list (val * ty)) (dot : bool),
  dot = true \/ override <> [] ->
  resolve_type override dflt g = Some Ti ->
  exists rv : val,
    dec_open cd T gi oi dflt override dot wire = Ok (DV (subst_field T oi Ti) rv, []) /\
    RoundTrip3e.aeq (abs (subst_field T oi Ti) rv) (abs (subst_field T oi Ti) (VRec (set_nth oi (Some xi) vs))) /\
    (srt = false -> abs (subst_field T oi Ti) rv = abs (subst_field T oi Ti) (VRec (set_nth oi (Some xi) vs))).
Proof. exact open_resolved_record. Qed.
Print Assumptions C18_open_resolved_record.

(* with resolution off and no override, or an unmapped governing value: the member holds exactly the
   complete encoding of the inner value, and everything else in the record is as it was sent *)
Theorem C18_open_raw : forall (ce cd : codec) (d : bool) (k : N) (srt : bool),
  mode_ok ce cd d k ->
  forall (T : ty) (fs : list (presence * ty)) (gi oi : nat) (p : presence) (ft : ty) (pg : presence) (gT : ty),
  RoundTrip3b.stage3_ty srt ce T = true ->
  (d = false -> RoundTripModes.no_f01 T = true) ->
  rec_fields T = Some fs ->
  nth_error fs oi = Some (p, ft) ->
  nth_error fs gi = Some (pg, gT) ->
  is_any ft = true ->
  OpenType.not_def p -> OpenType.not_def pg -> gi <> oi ->
  keeps_order ce T \/ ce = DER ->
  forall (vs : list (option val)) (g : val),
  hole_val ce cd d T oi vs = true ->
  nth gi vs None = Some g ->
  OpenType.gov_ok gT g = true ->
  forall (Ti : ty) (xi : val),
  RoundTrip3b.stage3_ty srt ce Ti = true ->
  RoundTrip3b.stage3_val ce cd Ti xi = true ->
  holds_blob ft Ti = false ->
  inner_kept ce p Ti xi ->
  (d = false -> inner_definite ce d k Ti xi) ->
  forall wire : bytes,
  enc_open ce d k T oi (VRec vs) true [(Ti, xi)] = Ok wire ->
  (N.of_nat (length wire) <= index_max)%N ->
  forall (dflt : omap) (override : list (val * ty)) (dot : bool),
  dot = false /\ override = [] \/ resolve_type override dflt g = None ->
  exists (chunk : bytes) (vs' : list (option val)) (fv : val),
    encode ce d k Ti xi = Ok chunk /\
    dec_open cd T gi oi dflt override dot wire = Ok (DV T (VRec vs'), []) /\
    nth oi vs' None = Some fv /\
    octets_of fv = Some chunk /\
    RoundTrip3e.aeq (abs T (VRec vs')) (abs T (VRec (set_nth oi (Some (VAny chunk)) vs))) /\
    (srt = false -> abs T (VRec vs') = abs T (VRec (set_nth oi (Some (VAny chunk)) vs))).
Proof. exact open_raw. Qed.
Print Assumptions C18_open_raw.

(* non-vacuity: Proofs/OpenTypeRT.v, Examples open_resolved_record_nonvacuous_A .. F (DER->BER with an OID key, untagged
   ANY under BER with a caller's override, CER->BER, a SET OF ANY inside a DER SET, a defaulted governing member, a sorted DER SET) *)

(* C11 - Decoding result does not depend on the kind of input object.
   Only statements closed by [exact]; proofs live in Proofs/Wrapper.v and Proofs/WrapperAnyRaw.v,
   the model in Model/Wrapper.v.

   The seek-back wrapper is modelled statement by statement in the variants that exist:
     [wstep Cur]  CachingStreamWrapper as it stands in the repository.  Finding F06: numbering
                  restarts when the cache is dropped.  F06 is OPEN: the repair makes one assertion
                  of the existing suite fail (testMarkedPositionResets pins markedPosition == 0).
     [wstep Fix]  the class as repaired by fixes/F06.diff (dropped octets kept as an offset).
     [gwstep f05 v]  either of them over an arbitrary raw stream; f05 = fixes/F05.diff applied
                  (None from the raw stream), f05 = false is the class without it (finding F05).
   What speaks about the code in the repository today: C11_wrapper_refines_current_partial (the
   refinement outside F06's class) and C11_refuted_renumber_old (failure inside it); the theorems
   about [Fix] show that fixes/F06.diff is a complete repair.  On every run the harness replays the
   witness of C11_refuted_renumber_old on the real class to learn which variant it is, and compares
   the real class with that variant of the model on every generated history.
   [bufsize] stands for io.DEFAULT_BUFFER_SIZE; every theorem holds for every value of it. *)
From PV Require Import Base.Bytes Model.Wrapper Proofs.Wrapper Proofs.WrapperAnyRaw.

(* The seek-back wrapper behaves, for every history of reads, peeks, marks set at the current
   position, tells and backward seeks not before the mark, like a seekable stream over the same
   octets.  No exclusion: cache drops included. *)
Theorem C11_wrapper_refines : forall bufsize ops w0 s0,
  related w0 s0 -> permitted s0 ops ->
  outputs (run (wstep Fix bufsize) w0 ops) = outputs (run sstep s0 ops).
Proof. exact wrapper_refines. Qed.
Print Assumptions C11_wrapper_refines.

(* ... in particular from the freshly constructed wrapper *)
Theorem C11_wrapper_refines_init : forall bufsize b ops,
  permitted (s_init b) ops ->
  outputs (run (wstep Fix bufsize) (w_init b) ops) = outputs (run sstep (s_init b) ops).
Proof. exact wrapper_refines_init. Qed.
Print Assumptions C11_wrapper_refines_init.

(* non-vacuity: a permitted history with a cache drop in the middle (bufsize 2), a seek back to
   the mark and a peek across the cache/raw boundary; both sides computed *)
Example C11_wrapper_refines_nonvacuous :
  let b := [10; 11; 12; 13; 14; 15; 16; 17; 18; 19]%N in
  let ops := [ORead 3; OTell; OSetMark 3; OGetMark; ORead 2; OSeekSet 3; OPeek 4; OSeekCurBack 0;
              ORead 1; OTell; OSetMark 4; ORead 3; OSeekCurBack 2; OTell; OReadAll; ORead 1] in
  related (w_init b) (s_init b)
  /\ permittedb (s_init b) ops = true
  /\ nodropb 2 (s_init b) ops = false
  /\ woff (fst (run (wstep Fix 2) (w_init b) ops)) = 3
  /\ outputs (run (wstep Fix 2) (w_init b) ops)
     = [OBytes [10; 11; 12]; ONum 3; ONone; ONum 3; OBytes [13; 14]; ONum 3; OBytes [13; 14; 15; 16];
        ONum 3; OBytes [13]; ONum 4; ONone; OBytes [14; 15; 16]; ONum 5; ONum 5;
        OBytes [15; 16; 17; 18; 19]; OBytes []]%N.
Proof. split; [exact (related_init _)|]. repeat split. Qed.

(* The class as it stands: the same refinement for every permitted history in which no mark is
   set further than bufsize into the cache, i.e. outside the class of finding F06. *)
Theorem C11_wrapper_refines_current_partial : forall bufsize ops w0 s0,
  related w0 s0 -> woff w0 = 0 -> permitted s0 ops -> nodropb bufsize s0 ops = true ->
  outputs (run (wstep Cur bufsize) w0 ops) = outputs (run sstep s0 ops).
Proof. exact wrapper_cur_refines_nodrop. Qed.
Print Assumptions C11_wrapper_refines_current_partial.

Example C11_wrapper_refines_current_nonvacuous :
  let b := [10; 11; 12; 13; 14; 15; 16; 17; 18; 19]%N in
  let ops := [ORead 3; OSetMark 3; ORead 2; OSeekSet 3; OPeek 4; OTell; OReadAll] in
  permittedb (s_init b) ops = true /\ nodropb 8 (s_init b) ops = true
  /\ outputs (run (wstep Cur 8) (w_init b) ops)
     = [OBytes [10; 11; 12]; ONone; OBytes [13; 14]; ONum 3; OBytes [13; 14; 15; 16]; ONum 3;
        OBytes [13; 14; 15; 16; 17; 18; 19]]%N.
Proof. repeat split. Qed.

(* Finding F06, in Coq: inside the excluded class the class as it stands does NOT refine a
   seekable stream.  read(BUF+1); markedPosition = tell(); tell()  answers 0 where a seekable
   stream answers BUF+1.  The harness replays exactly this history on the real class. *)
Theorem C11_refuted_renumber_old :
  exists bufsize b ops,
    permitted (s_init b) ops
    /\ nodropb bufsize (s_init b) ops = false
    /\ outputs (run (wstep Cur bufsize) (w_init b) ops) <> outputs (run sstep (s_init b) ops)
    /\ outputs (run (wstep Cur bufsize) (w_init b) ops) = [OBytes (repn (S bufsize) 7%N); ONone; ONum 0]
    /\ outputs (run sstep (s_init b) ops) = [OBytes (repn (S bufsize) 7%N); ONone; ONum (S bufsize)].
Proof. exact refuted_renumber_old. Qed.
Print Assumptions C11_refuted_renumber_old.

(* the same three calls for every buffer size (hence for the real 8192), old and repaired *)
Theorem C11_refuted_renumber_old_any_bufsize : forall bufsize,
  permitted (s_init (f06_data bufsize)) (f06_ops bufsize)
  /\ nth 2 (outputs (run (wstep Cur bufsize) (w_init (f06_data bufsize)) (f06_ops bufsize))) ONone = ONum 0
  /\ nth 2 (outputs (run sstep (s_init (f06_data bufsize)) (f06_ops bufsize))) ONone = ONum (S bufsize)
  /\ nth 2 (outputs (run (wstep Fix bufsize) (w_init (f06_data bufsize)) (f06_ops bufsize))) ONone = ONum (S bufsize).
Proof. exact refuted_renumber_old_any. Qed.
Print Assumptions C11_refuted_renumber_old_any_bufsize.

(* Any client that picks its next call from the answers received so far (a decoder is such a
   client) and stays within the permitted calls obtains the same answers, hence makes the same
   calls and computes the same result, from the wrapper as from a seekable stream. *)
Theorem C11_client_refines : forall bufsize (c: client) fuel w s hist,
  related w s -> client_permittedb c fuel s hist = true ->
  run_client (wstep Fix bufsize) c fuel w hist = run_client sstep c fuel s hist.
Proof. exact client_refines. Qed.
Print Assumptions C11_client_refines.

(* The same for ANY raw stream - one that delivers fewer octets than asked (sockets, pipes), one
   that answers None when it has nothing yet (non-blocking), in any deterministic pattern [rread]:
   the wrapper (with fixes/F05.diff and fixes/F06.diff) answers every permitted history exactly as
   the seekable stream that keeps everything delivered so far and draws on the same source. *)
Theorem C11_wrapper_refines_any_raw :
  forall (R: Type) (rread: option nat -> R -> option bytes * R) bufsize ops g f,
  grelated g f -> gpermittedb rread f ops = true ->
  outputs (run (gwstep rread true Fix bufsize) g ops) = outputs (run (fstep rread) f ops).
Proof. exact wrapper_refines_any_raw. Qed.
Print Assumptions C11_wrapper_refines_any_raw.

(* non-vacuity: packets of 2, 3 and 5 octets, the second and fifth call answered None, bufsize 2 *)
Example C11_wrapper_refines_any_raw_nonvacuous :
  let r := mkPraw (cut [2; 3; 5]%N [10; 11; 12; 13; 14; 15; 16; 17; 18; 19]%N) [false; true; false; false; true] in
  let ops := [ORead 3; ORead 3; ORead 3; OTell; OSetMark 5; ORead 4; OSeekSet 5; OPeek 9; ORead 2; OTell; OGetMark] in
  grelated (gw_init r) (f_init r)
  /\ gpermittedb pread (f_init r) ops = true
  /\ woff (gw (fst (run (gwstep pread true Fix 2) (gw_init r) ops))) = 5
  /\ outputs (run (gwstep pread true Fix 2) (gw_init r) ops)
     = [OBytes [10; 11]; ONoData; OBytes [12; 13; 14]; ONum 5; ONone; OBytes [15; 16; 17; 18];
        ONum 5; OBytes [15; 16; 17; 18]; OBytes [15; 16]; ONum 7; ONum 5]%N.
Proof. split; [exact (grelated_init _ _)|]. repeat split. Qed.

(* Finding F05, in Coq: without fixes/F05.diff a None from the raw stream ends in TypeError
   (BytesIO.write(None)) where the reference and the repaired class report "no data yet" and
   deliver the octets on the next call. *)
Theorem C11_refuted_none_old :
  let r := mkPraw [[1; 2; 3]%N] [true; false] in
  outputs (run (gwstep pread false Fix 8) (gw_init r) [ORead 2; ORead 2])
    = [OTypeError; OBytes [1; 2]%N]
  /\ outputs (run (fstep pread) (f_init r) [ORead 2; ORead 2]) = [ONoData; OBytes [1; 2]%N]
  /\ outputs (run (gwstep pread true Fix 8) (gw_init r) [ORead 2; ORead 2]) = [ONoData; OBytes [1; 2]%N].
Proof. exact refuted_none_old. Qed.
Print Assumptions C11_refuted_none_old.

(* asSeekableStream, as coded: bytes, BytesIO, OctetString/Any and seekable objects all become
   the seekable stream over their octets, non-seekable objects are wrapped, anything else is
   refused with UnsupportedSubstrateError *)
Theorem C11_kinds_normalise : forall b,
  as_seekable (SBytes b) = Ok (StSeek (s_init b))
  /\ as_seekable (SBytesIO b 0) = Ok (StSeek (s_init b))
  /\ as_seekable (SOctetString b) = Ok (StSeek (s_init b))
  /\ as_seekable (SSeekable b 0) = Ok (StSeek (s_init b))
  /\ as_seekable (SNonSeekable b) = Ok (StWrap (w_init b))
  /\ as_seekable SOther = Err EUnsupported.
Proof. exact kinds_normalise. Qed.
Print Assumptions C11_kinds_normalise.

(* Kinds agree, for every permitted client.  PARTIAL with respect to the property text:
   (1) that pyasn1's decoders are permitted clients (never seek before the mark, set the mark
       only at tell()) is observed by the harness on every decoded input, not proved here -
       the decoder is not modelled in this file;
   (2) files, gzip and zip readers are taken to behave as [sstep] (constructor SSeekable); the
       harness compares them with io.BytesIO on every case;
   (3) raw streams that deliver fewer octets than asked before their end, or None, are outside
       the model (their decoding is compared by the harness through StreamingDecoder only). *)
Theorem C11_kinds_agree_partial : forall bufsize (c: client) fuel (k1 k2: substrate) b st1 st2,
  substrate_bytes k1 = Some b -> substrate_bytes k2 = Some b ->
  as_seekable k1 = Ok st1 -> as_seekable k2 = Ok st2 ->
  client_permittedb c fuel (s_init b) [] = true ->
  run_client (stream_step Fix bufsize) c fuel st1 [] = run_client (stream_step Fix bufsize) c fuel st2 [].
Proof. exact kinds_agree. Qed.
Print Assumptions C11_kinds_agree_partial.

(* non-vacuity: a client that reads a length octet, marks, reads that many octets, seeks back to
   the mark and reads them again, from bytes and from a wrapped non-seekable stream *)
Example C11_kinds_agree_nonvacuous :
  let b := [3; 21; 22; 23; 99]%N in
  let c : client := fun h =>
    match h with
    | [] => Some (ORead 1)
    | [OBytes [n]] => Some OTell
    | [_; ONum p] => Some (OSetMark p)
    | [OBytes [n]; _; _] => Some (ORead (N.to_nat n))
    | [_; _; _; _] => Some OGetMark
    | [_; _; _; _; ONum m] => Some (OSeekSet m)
    | [OBytes [n]; _; _; _; _; _] => Some (OPeek (N.to_nat n))
    | _ => None
    end in
  client_permittedb c 20 (s_init b) [] = true
  /\ (exists st1 st2, as_seekable (SBytes b) = Ok st1 /\ as_seekable (SNonSeekable b) = Ok st2
      /\ run_client (stream_step Fix 2) c 20 st1 [] = run_client (stream_step Fix 2) c 20 st2 []
      /\ run_client (stream_step Fix 2) c 20 st2 []
         = [OBytes [3]; ONum 1; ONone; OBytes [21; 22; 23]; ONum 1; ONum 1; OBytes [21; 22; 23]]%N).
Proof. split; [reflexivity|]. eexists; eexists. repeat split. Qed.

(* C03 - encoder output equals the X.690 encoding computed by an independent reference.
   Statements only. *)
From PV Require Import Base.Bytes Model.Tag Spec.X690 Proofs.SpecOctets.
Local Open Scope N_scope.

(* the reference's identifier octets (positional base-128 digits, X.690 8.1.2) are the octets the
   model of pyasn1's encodeTag writes (shifts and masks), for every class, form and number *)
Theorem C03_ident_octets : forall (c: tclass) (pc: bool) (n: N),
  ident c pc n = enc_tag (mkTag c pc n) false.
Proof. exact ident_is_enc_tag. Qed.
Print Assumptions C03_ident_octets.

(* the reference's definite length octets (8.1.3, fewest octets) are what encodeLength writes *)
Theorem C03_length_octets : forall (n: N) (l: bytes),
  enc_len n false = Ok l -> length_octets n = l.
Proof. exact length_octets_is_enc_len. Qed.
Print Assumptions C03_length_octets.

(* C03 - encoder output equals the X.690 encoding computed by an independent reference.
   Statements only. *)
From PV Require Import Base.Bytes Model.Tag Model.Types Model.TableTypes Model.Enc Spec.X690 Gen.Tables
     Proofs.SpecOctets Proofs.TagsetShape Proofs.RoundTrip1 Proofs.DerReference
     Proofs.ReaderSound Proofs.ReaderModel Proofs.ReaderCer Proofs.ReaderBer Proofs.ReaderBerDeep
     Proofs.DerReference2 Proofs.CerReferenceDeep Proofs.CerComplete Proofs.CerCanonicalDeep.
Local Open Scope N_scope.

(* the reference's identifier octets (positional base-128 digits, X.690 8.1.2) are the octets the
   model of pyasn1's encodeTag writes (shifts and masks), for every class, form and number *)
Theorem C03_ident_octets : forall (c: tclass) (pc: bool) (n: N),
  ident c pc n = enc_tag (mkTag c pc n) false.
Proof. exact ident_is_enc_tag. Qed.
Print Assumptions C03_ident_octets.

(* the reference's definite length octets (8.1.3, fewest octets) are what encodeLength writes *)
Theorem C03_length_octets : forall (n: N) (l: bytes),
  enc_len n false = Ok l -> length_octets n = l.
Proof. exact length_octets_is_enc_len. Qed.
Print Assumptions C03_length_octets.

(* For every input: the DER encoder's output is byte-identical to the distinguished encoding computed
   by the independent X.690 reference (Spec/X690.v), for every simple type (BOOLEAN, INTEGER, ENUMERATED,
   BIT STRING, OCTET STRING, NULL, OBJECT IDENTIFIER, binary/infinite/zero REAL, every character and
   useful string type) under ANY stack of IMPLICIT/EXPLICIT tags, UNIVERSAL class included *)
Theorem C03_der_is_reference_simple : forall T v b,
  der_ref_val T v = true -> encode DER true 0 T v = Ok b -> X690.der T v = Some b.
Proof. exact der_is_reference_simple. Qed.
Print Assumptions C03_der_is_reference_simple.

(* ... and recursively: SEQUENCE (mandatory, OPTIONAL and DEFAULT components) and SEQUENCE OF nested to
   any depth over such types, under any tags.  Exclusions are exactly: SET, SET OF, CHOICE, ANY (not yet
   proved), decimal REAL (the reference has none), a present-but-empty OPTIONAL constructed component
   (finding F24: the encoder leaves it out, X.690 does not) *)
Theorem C03_der_is_reference_deep : forall T v b,
  der_ref_deep T v = true -> encode DER true 0 T v = Ok b -> X690.der T v = Some b.
Proof. exact der_is_reference_deep. Qed.
Print Assumptions C03_der_is_reference_deep.

(* both directions: on the fragment, the encoder succeeds with b exactly when the reference says b
   (lengths below 256^126, the limit of the length octets themselves) *)
Theorem C03_der_encoder_is_reference_deep : forall T v b,
  der_exact_deep T v = true -> N.of_nat (length b) < max_len ->
  (encode DER true 0 T v = Ok b <-> X690.der T v = Some b).
Proof. exact der_encoder_is_reference_deep. Qed.
Print Assumptions C03_der_encoder_is_reference_deep.

(* the encoder refuses only what the reference refuses (or what cannot be framed at all) *)
Theorem C03_der_refusal_is_reference : forall T v e,
  der_exact_val T v = true -> encode DER true 0 T v = Err e ->
  X690.der T v = None \/ exists b, X690.der T v = Some b /\ max_len <= N.of_nat (length b).
Proof. exact der_refusal_is_reference. Qed.
Print Assumptions C03_der_refusal_is_reference.

Example C03_der_is_reference_nonvacuous :
  let T := TExp (mkTag Ctx false 40) (TImp (mkTag Appl false 5) (TExp (mkTag Priv false 1000) TInt)) in
  let v := VInt (-129)%Z in
  TagsetShape.wf_tags T = true /\ RoundTrip1.stage1_val DER DER T v = true /\ der_exact_val T v = true /\
  encode DER true 0 T v = Ok [191; 40; 6; 101; 4; 2; 2; 255; 127] /\
  der T v = Some [191; 40; 6; 101; 4; 2; 2; 255; 127].
Proof. exact der_is_reference_witness_int. Qed.

(* F24 seen from the theorem's side: why OPTIONAL constructed components are outside the fragment *)
Example C03_refuted_empty_optional_constructed_F24 :
  exists T v b b', encode DER true 0 T v = Ok b /\ X690.der T v = Some b' /\ b <> b'.
Proof.
  exists (TSeq [(Opt, TSeqOf TInt)]), (VRec [Some (VList [])]), [48; 0], [48; 2; 48; 0].
  vm_compute. repeat split; discriminate.
Qed.

(* Second half of the property, for every input: every BER encoder output, in every mode (definite or
   indefinite, any chunk size), read by the independent X.690 reader guided by the same type, denotes
   the same abstract value - simple types under any tags, and SEQUENCE / SEQUENCE OF nesting to any
   depth.  unamb: consecutive OPTIONAL/DEFAULT components have distinct tags (X.680 25.6); indef_ok:
   outside finding F01, and no component whose encoding starts with a 00 octet sits directly inside an
   indefinite-length wrapper (it would read as end-of-contents) *)
Theorem C03_ber_output_reads_deep : forall T v defMode chunk b,
  der_ref_deep T v = true -> unamb T = true -> (defMode = false -> indef_ok T = true) ->
  encode BER defMode chunk T v = Ok b -> N.of_nat (length b) < max_len ->
  X690.read T b = Some (abs T v, []).
Proof. exact ber_output_reads_deep. Qed.
Print Assumptions C03_ber_output_reads_deep.

Theorem C03_der_output_reads_deep : forall T v b,
  der_ref_deep T v = true -> unamb T = true -> encode DER true 0 T v = Ok b -> N.of_nat (length b) < max_len ->
  X690.read T b = Some (abs T v, []).
Proof. exact der_encoder_output_reads. Qed.
Print Assumptions C03_der_output_reads_deep.

(* CER: the encoder's output IS the reference's canonical CER encoding (whatever options the caller
   passes), it reads back to the same abstract value, and it meets the canonical-form rules
   (indefinite length exactly for constructed encodings, full 1000-octet segments and a last non-empty
   one, FF for TRUE); cer_tags_ok: no UNIVERSAL string tag number is put on a non-string by IMPLICIT tagging
   (the untyped shape check recognises strings by their universal tag) *)
Theorem C03_cer_is_reference_simple : forall T v d k b,
  der_ref_val T v = true -> ReaderModel.no_f01 T = true -> encode CER d k T v = Ok b -> X690.cer T v = Some b.
Proof. exact cer_is_reference_simple. Qed.
Print Assumptions C03_cer_is_reference_simple.

Theorem C03_cer_output_reads_simple : forall T v defMode chunk b,
  der_ref_val T v = true -> ReaderModel.no_f01 T = true -> eoc_safe T = true ->
  encode CER defMode chunk T v = Ok b -> N.of_nat (length b) < max_len ->
  X690.read T b = Some (abs T v, []).
Proof. exact cer_output_reads_simple. Qed.
Print Assumptions C03_cer_output_reads_simple.

Theorem C03_cer_output_canonical : forall T v d k b,
  der_ref_val T v = true -> ReaderModel.no_f01 T = true -> eoc_safe T = true -> cer_tags_ok T = true ->
  encode CER d k T v = Ok b -> cer_canonical b = true.
Proof. exact cer_output_canonical. Qed.
Print Assumptions C03_cer_output_canonical.

(* F01 seen from the theorem's side *)
Example C03_refuted_F01 :
  exists T v b b', encode CER true 0 T v = Ok b /\ X690.cer T v = Some b' /\ b <> b'.
Proof.
  exists (TExp (mkTag Ctx false 1) TInt), (VInt 5), [161; 3; 2; 1; 5; 0; 0], [161; 128; 2; 1; 5; 0; 0].
  vm_compute. repeat split; discriminate.
Qed.

(* THE WHOLE UNIVERSE, for every input: the DER encoder's output is byte-identical to the independent
   reference for every type constructor - SET OF (sorted), SET (by tag), CHOICE, ANY, OPTIONAL/DEFAULT -
   in both directions.  der_all: well-kinded values, no IMPLICIT tag directly on CHOICE/ANY, outside
   finding F24, DEFAULTs of simple type, SET keys distinct, an ANY inside a SET OF is one complete TLV,
   REAL not in decimal form *)
Theorem C03_der_is_reference_all : forall T v b,
  der_all T v = true -> encode DER true 0 T v = Ok b -> X690.der T v = Some b.
Proof. exact der_is_reference_all. Qed.
Print Assumptions C03_der_is_reference_all.

Theorem C03_der_encoder_is_reference_all : forall T v b,
  der_exact_all T v = true -> N.of_nat (length b) < DerReference.max_len ->
  (encode DER true 0 T v = Ok b <-> X690.der T v = Some b).
Proof. exact der_encoder_is_reference_all. Qed.
Print Assumptions C03_der_encoder_is_reference_all.

(* the CER encoder over containers, CHOICE and ANY included, whatever options the caller passes *)
Theorem C03_cer_is_reference_all : forall T v d k b,
  cer_all T v = true -> encode CER d k T v = Ok b -> X690.cer T v = Some b.
Proof. exact cer_is_reference_all. Qed.
Print Assumptions C03_cer_is_reference_all.

(* ... and the other direction: wherever the reference assigns a canonical CER encoding (of a length that
   definite length octets can express), the CER encoder - whatever options the caller passes - succeeds
   with exactly these octets.  cer_exact_all = cer_all (outside F01/F24, as above) && all_extra (as for DER:
   a REAL exponent of at most 255 octets, no UTCTime/GeneralizedTime text the encoder vets, DEFAULT
   comparisons the model can make) *)
Theorem C03_cer_is_reference_all_complete : forall T v d k b,
  cer_exact_all T v = true -> X690.cer T v = Some b -> N.of_nat (length b) < DerReference.max_len ->
  encode CER d k T v = Ok b.
Proof. exact cer_is_reference_all_complete. Qed.
Print Assumptions C03_cer_is_reference_all_complete.

Theorem C03_cer_encoder_is_reference_all : forall T v d k b,
  cer_exact_all T v = true -> N.of_nat (length b) < DerReference.max_len ->
  (encode CER d k T v = Ok b <-> X690.cer T v = Some b).
Proof. exact cer_encoder_is_reference_all. Qed.
Print Assumptions C03_cer_encoder_is_reference_all.

(* the encoder refuses only what the reference refuses (or what cannot be framed at all) *)
Theorem C03_cer_refusal_is_reference_all : forall T v d k e,
  cer_exact_all T v = true -> encode CER d k T v = Err e ->
  X690.cer T v = None \/ exists b, X690.cer T v = Some b /\ DerReference.max_len <= N.of_nat (length b).
Proof. exact cer_refusal_is_reference_all. Qed.
Print Assumptions C03_cer_refusal_is_reference_all.

Example C03_cer_complete_nonvacuous :
  let T := TSet [(Req, TChoice [TOcts; TBool]); (Opt, TSetOf (TSeqOf TInt)); (Req, TExp (mkTag Ctx false 3) TAny)] in
  let v := VRec [Some (VChoice 0 (VOcts [9])); Some (VList [VList [VInt 2]; VList []]); Some (VAny [5; 0])] in
  let b := [49; 128; 4; 1; 9; 49; 128; 48; 128; 0; 0; 48; 128; 2; 1; 2; 0; 0; 0; 0; 163; 128; 5; 0; 0; 0; 0; 0] in
  cer_exact_all T v = true /\ X690.cer T v = Some b /\ encode CER true 5 T v = Ok b.
Proof. vm_compute. repeat split. Qed.

(* both sides refuse an OBJECT IDENTIFIER 1.40 inside a SEQUENCE OF *)
Example C03_cer_refusal_nonvacuous :
  let T := TSeqOf TOid in let v := VList [VOid [1;2;3]; VOid [1;40;3]] in
  cer_exact_all T v = true /\ encode CER true 0 T v = Err EMalformed /\ X690.cer T v = None.
Proof. exact cer_refusal_witness. Qed.

(* The canonical-form rules over containers, CHOICE and ANY (outside F01/F24): every CER encoder output
   satisfies cer_canonical.  The check is untyped, hence shape_dom (computable, on the type): no UNIVERSAL
   string tag number put by IMPLICIT tagging on a non-string, no member beginning with the octet 00 inside
   an indefinite-length encoding; and anys_ok (on the value): the octets of every ANY, which are written as
   they are, are themselves a canonical TLV not beginning with 00 (vacuous for types without ANY) *)
Theorem C03_cer_output_canonical_all : forall T v d k b,
  cer_all T v = true -> shape_dom T = true -> anys_ok T v ->
  encode CER d k T v = Ok b -> cer_canonical b = true.
Proof. exact cer_output_canonical_all. Qed.
Print Assumptions C03_cer_output_canonical_all.

Theorem C03_cer_output_canonical_any_free : forall T v d k b,
  cer_all T v = true -> shape_dom T = true -> any_free T = true ->
  encode CER d k T v = Ok b -> cer_canonical b = true.
Proof. exact cer_output_canonical_any_free. Qed.
Print Assumptions C03_cer_output_canonical_any_free.

(* a SEQUENCE OF segmented strings under tags and a SET OF SEQUENCE; the universe witness with three ANYs *)
Example C03_cer_output_canonical_nonvacuous :
  let T := TSeq [(Req, TSeqOf (TImp (mkTag Ctx false 2) TOcts)); (Opt, TSetOf (TSeq [(Req, TInt); (Opt, TBits)]))] in
  let v := VRec [Some (VList [VOcts (repeat 65 (25 * 100)%nat); VOcts []]);
                 Some (VList [VRec [Some (VInt 2); None]; VRec [Some (VInt 1); Some (VBits [true])]])] in
  cer_all T v = true /\ shape_dom T = true /\ any_free T = true /\
  exists b, encode CER false 0 T v = Ok b /\ cer_canonical b = true.
Proof. exact cer_output_canonical_any_free_witness. Qed.

(* why anys_ok: an ANY holding a definite-length constructed TLV makes the output non-canonical *)
Example C03_cer_canonical_needs_anys_ok :
  let T := TSeq [(Req, TAny)] in let v := VRec [Some (VAny [48; 0])] in
  cer_all T v = true /\ shape_dom T = true /\ cer_canonical [48; 0] = false /\
  exists b, encode CER true 0 T v = Ok b /\ X690.cer T v = Some b /\ cer_canonical b = false.
Proof. exact cer_canonical_needs_anys_ok. Qed.

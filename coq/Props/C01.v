(* C01 - BER encode/decode round trip under every encoder mode.  Statements only. *)
From PV Require Import Base.Bytes Model.Tag Model.TableTypes Model.Types Model.Enc Model.Dec Gen.Tables
     Proofs.TagOctets Proofs.TagsetShape Proofs.RoundTrip1 Proofs.RoundTrip2.
Local Open Scope N_scope.

(* the framing octets invert *)
Theorem C01_header_roundtrip : forall (t: tag) (c: bool) (n: N) (l r: bytes),
  enc_len n false = Ok l ->
  dec_ident (enc_tag t c ++ l ++ r) = Some (mkTag (tcls t) (tcon t || c) (tnum t), l ++ r)
  /\ dec_len (l ++ r) = Some (Some n, r).
Proof. intros t c n l r H. split; [apply dec_enc_tag | exact (dec_enc_len n l r H)]. Qed.
Print Assumptions C01_header_roundtrip.

(* Stage 1 of the round trip, for every input: any simple type (BOOLEAN, INTEGER, ENUMERATED,
   BIT STRING, OCTET STRING, NULL, OBJECT IDENTIFIER, REAL with binary or infinite value, character
   and useful strings whose octets the type's text codec accepts) under ANY stack of IMPLICIT and
   EXPLICIT tags of any class and number; definite-length, unsegmented encoder mode; anything may
   follow the encoding.  The BER decoder returns a value with the same abstract content (abs) and
   exactly the trailing octets.  The only size hypothesis is the one the implementation has too
   (lengths up to sys.maxsize, regenerated as index_max). *)
Theorem C01_roundtrip_stage1 : forall T v b tl,
  wf_tags T = true -> stage1_val BER BER T v = true ->
  encode BER true 0 T v = Ok b -> N.of_nat (length b) <= index_max ->
  exists v', decode BER (Some T) (b ++ tl) = Ok (DV T v', tl) /\ abs T v' = abs T v.
Proof. exact ber_roundtrip_stage1. Qed.
Print Assumptions C01_roundtrip_stage1.

(* the hypotheses are met by a non-trivial case: [3] EXPLICIT [APPLICATION 1000] IMPLICIT INTEGER, -129 *)
Example C01_roundtrip_stage1_nonvacuous :
  let T := TExp (mkTag Ctx false 3) (TImp (mkTag Appl false 1000) TInt) in
  wf_tags T = true /\ stage1_val BER BER T (VInt (-129)) = true
  /\ encode BER true 0 T (VInt (-129)) = Ok [163; 6; 95; 135; 104; 2; 255; 127]
  /\ N.of_nat 8 <= index_max.
Proof. vm_compute. repeat split; try reflexivity; discriminate. Qed.

(* Stage 2, recursive, for every input: types built to ANY nesting depth from the simple types,
   SEQUENCE OF, SET OF, SEQUENCE with mandatory components (the empty SEQUENCE included) and IMPLICIT /
   EXPLICIT tagging of any of these with any non-universal tag; every value of such a type; anything
   may follow.  Definite-length, unsegmented BER.  Not yet covered by a theorem: OPTIONAL/DEFAULT
   components, SET, CHOICE, ANY, the indefinite and segmented modes (correspondence check only). *)
Theorem C01_roundtrip_stage2 : forall T v b tl,
  stage2_ty T = true -> stage2_val T v = true ->
  encode BER true 0 T v = Ok b -> N.of_nat (length b) <= index_max ->
  exists v', decode BER (Some T) (b ++ tl) = Ok (DV T v', tl) /\ abs T v' = abs T v.
Proof. exact roundtrip_stage2. Qed.
Print Assumptions C01_roundtrip_stage2.

(* the same for every fuel that covers the encoding and the nesting depth: the model's fuel is not
   what makes the theorem true *)
Theorem C01_roundtrip_stage2_any_fuel : forall T v b tl fuel,
  stage2_ty T = true -> stage2_val T v = true ->
  encode BER true 0 T v = Ok b -> N.of_nat (length b) <= index_max ->
  (length b + ty_depth T <= fuel)%nat ->
  exists v', decode_with BER fuel (Some T) (b ++ tl) = Ok (DV T v', tl) /\ abs T v' = abs T v.
Proof. exact roundtrip_stage2_fuel. Qed.
Print Assumptions C01_roundtrip_stage2_any_fuel.

Example C01_roundtrip_stage2_nonvacuous :
  stage2_ty stage2_example_ty = true /\ stage2_val stage2_example_ty stage2_example_val = true
  /\ encode BER true 0 stage2_example_ty stage2_example_val
     = Ok [103; 48; 48; 46; 160; 9; 48; 7; 2; 1; 5; 2; 2; 255; 127; 161; 17;
           48; 8; 1; 1; 1; 4; 3; 1; 2; 3; 48; 5; 1; 1; 0; 4; 0; 255; 135;
           104; 10; 48; 8; 48; 4; 5; 0; 5; 0; 48; 0; 48; 0]
  /\ N.of_nat 50 <= index_max.
Proof. exact roundtrip_stage2_nonvacuous. Qed.

(* C01 - BER encode/decode round trip under every encoder mode.  Statements only. *)
From PV Require Import Base.Bytes Model.Tag Proofs.TagOctets.
Local Open Scope N_scope.

(* placeholder until the staged round-trip theorems land: the framing octets invert *)
Theorem C01_header_roundtrip : forall (t: tag) (c: bool) (n: N) (l r: bytes),
  enc_len n false = Ok l ->
  dec_ident (enc_tag t c ++ l ++ r) = Some (mkTag (tcls t) (tcon t || c) (tnum t), l ++ r)
  /\ dec_len (l ++ r) = Some (Some n, r).
Proof. intros t c n l r H. split; [apply dec_enc_tag | exact (dec_enc_len n l r H)]. Qed.
Print Assumptions C01_header_roundtrip.

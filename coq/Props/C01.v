(* C01 - BER encode/decode round trip under every encoder mode.  Statements only. *)
From PV Require Import Base.Bytes Model.Tag Model.TableTypes Model.Types Model.Enc Model.Dec Gen.Tables
     Proofs.TagOctets Proofs.TagsetShape Proofs.RoundTrip1 Proofs.RoundTrip2 Proofs.RoundTrip3b Proofs.RoundTrip3e Proofs.RoundTrip3f
     Proofs.RoundTripModesC Proofs.RoundTripModes Proofs.RoundTripModes3.
Local Open Scope N_scope.

(* the framing octets invert *)
Theorem C01_header_roundtrip : forall (t: tag) (c: bool) (n: N) (l r: bytes),
  enc_len n false = Ok l ->
  dec_ident (enc_tag t c ++ l ++ r) = Some (mkTag (tcls t) (tcon t || c) (tnum t), l ++ r)
  /\ dec_len (l ++ r) = Some (Some n, r).
Proof. intros t c n l r H. split; [apply dec_enc_tag | exact (dec_enc_len n l r H)]. Qed.
Print Assumptions C01_header_roundtrip.

(* Stage 1 of the round trip, for every input: any simple type (BOOLEAN, INTEGER, ENUMERATED,
   BIT STRING, OCTET STRING, NULL, OBJECT IDENTIFIER, REAL with binary or infinite value, character
   and useful strings whose octets the type's text codec accepts) under ANY stack of IMPLICIT and
   EXPLICIT tags of any class and number; definite-length, unsegmented encoder mode; anything may
   follow the encoding.  The BER decoder returns a value with the same abstract content (abs) and
   exactly the trailing octets.  The only size hypothesis is the one the implementation has too
   (lengths up to sys.maxsize, regenerated as index_max). *)
Theorem C01_roundtrip_stage1 : forall T v b tl,
  wf_tags T = true -> stage1_val BER BER T v = true ->
  encode BER true 0 T v = Ok b -> N.of_nat (length b) <= index_max ->
  exists v', decode BER (Some T) (b ++ tl) = Ok (DV T v', tl) /\ abs T v' = abs T v.
Proof. exact ber_roundtrip_stage1. Qed.
Print Assumptions C01_roundtrip_stage1.

(* the hypotheses are met by a non-trivial case: [3] EXPLICIT [APPLICATION 1000] IMPLICIT INTEGER, -129 *)
Example C01_roundtrip_stage1_nonvacuous :
  let T := TExp (mkTag Ctx false 3) (TImp (mkTag Appl false 1000) TInt) in
  wf_tags T = true /\ stage1_val BER BER T (VInt (-129)) = true
  /\ encode BER true 0 T (VInt (-129)) = Ok [163; 6; 95; 135; 104; 2; 255; 127]
  /\ N.of_nat 8 <= index_max.
Proof. vm_compute. repeat split; try reflexivity; discriminate. Qed.

(* Stage 2, recursive, for every input: types built to ANY nesting depth from the simple types,
   SEQUENCE OF, SET OF, SEQUENCE with mandatory components (the empty SEQUENCE included) and IMPLICIT /
   EXPLICIT tagging of any of these with any non-universal tag; every value of such a type; anything
   may follow.  Definite-length, unsegmented BER.  Not yet covered by a theorem: OPTIONAL/DEFAULT
   components, SET, CHOICE, ANY, the indefinite and segmented modes (correspondence check only). *)
Theorem C01_roundtrip_stage2 : forall T v b tl,
  stage2_ty T = true -> stage2_val T v = true ->
  encode BER true 0 T v = Ok b -> N.of_nat (length b) <= index_max ->
  exists v', decode BER (Some T) (b ++ tl) = Ok (DV T v', tl) /\ abs T v' = abs T v.
Proof. exact roundtrip_stage2. Qed.
Print Assumptions C01_roundtrip_stage2.

(* the same for every fuel that covers the encoding and the nesting depth: the model's fuel is not
   what makes the theorem true *)
Theorem C01_roundtrip_stage2_any_fuel : forall T v b tl fuel,
  stage2_ty T = true -> stage2_val T v = true ->
  encode BER true 0 T v = Ok b -> N.of_nat (length b) <= index_max ->
  (length b + ty_depth T <= fuel)%nat ->
  exists v', decode_with BER fuel (Some T) (b ++ tl) = Ok (DV T v', tl) /\ abs T v' = abs T v.
Proof. exact roundtrip_stage2_fuel. Qed.
Print Assumptions C01_roundtrip_stage2_any_fuel.

Example C01_roundtrip_stage2_nonvacuous :
  stage2_ty stage2_example_ty = true /\ stage2_val stage2_example_ty stage2_example_val = true
  /\ encode BER true 0 stage2_example_ty stage2_example_val
     = Ok [103; 48; 48; 46; 160; 9; 48; 7; 2; 1; 5; 2; 2; 255; 127; 161; 17;
           48; 8; 1; 1; 1; 4; 3; 1; 2; 3; 48; 5; 1; 1; 0; 4; 0; 255; 135;
           104; 10; 48; 8; 48; 4; 5; 0; 5; 0; 48; 0; 48; 0]
  /\ N.of_nat 50 <= index_max.
Proof. exact roundtrip_stage2_nonvacuous. Qed.

(* Stage 3: THE WHOLE UNIVERSE in definite-length mode, for every input.  stage3_ty is the type language
   with no constructor left out - simple types, SEQUENCE OF, SET OF, SEQUENCE and SET with mandatory,
   OPTIONAL and DEFAULT components, CHOICE, ANY, IMPLICIT/EXPLICIT tagging, nested to any depth - under
   exactly the well-formedness the decoder needs (the harness generator's wf): sibling tag sets in SET,
   CHOICE and runs of OPTIONAL components are suffix-free (keys_ok / seq_wf), IMPLICIT not directly on
   CHOICE/ANY, untagged ANY only where the library supports it.  stage3_val: shape of the value, and a
   present OPTIONAL component does not encode to nothing under CER/DER (finding F24).  Encoder BER or DER,
   decoder BER, CER or DER, anything may follow. *)
Theorem C01_roundtrip_stage3 : forall ce cd T v b tl,
  enc_ok ce -> stage3_ty false ce T = true -> stage3_val ce cd T v = true ->
  encode ce true 0 T v = Ok b -> N.of_nat (length b) <= index_max ->
  exists v', decode cd (Some T) (b ++ tl) = Ok (DV T v', tl) /\ abs T v' = abs T v.
Proof. exact roundtrip_stage3. Qed.
Print Assumptions C01_roundtrip_stage3.

Example C01_roundtrip_stage3_nonvacuous :
  stage3_ty false BER stage3_example_ty = true
  /\ stage3_val BER BER stage3_example_ty stage3_example_val = true
  /\ encode BER true 0 stage3_example_ty stage3_example_val
     = Ok [105; 40; 48; 38; 4; 2; 7; 8; 160; 3; 255; 255; 255; 49; 19; 161; 3; 1; 2; 3; 1; 1; 1; 163; 9; 48; 7; 5; 0;
           160; 3; 2; 1; 5; 49; 6; 2; 1; 9; 1; 1; 0]
  /\ N.of_nat 42 <= index_max.
Proof. exact roundtrip_stage3_nonvacuous. Qed.

(* "under every encoder mode", for every input: segmented strings (any chunk size, definite or
   indefinite outer form), and the indefinite-length mode for the recursive stage-2 fragment; the
   excluded class no_f01 is exactly finding F01 (an EXPLICIT tag directly over BOOLEAN / INTEGER /
   ENUMERATED / NULL / OBJECT IDENTIFIER / REAL in indefinite mode) *)
Theorem C01_roundtrip_segmented_strings : forall cd d chunk T v b tl,
  dec_ok cd -> wf_tags T = true -> string_ty T = true -> stage1_val BER cd T v = true ->
  encode BER d chunk T v = Ok b -> N.of_nat (length b) <= index_max ->
  exists v', decode cd (Some T) (b ++ tl) = Ok (DV T v', tl) /\ abs T v' = abs T v.
Proof. exact roundtrip_segmented_strings. Qed.
Print Assumptions C01_roundtrip_segmented_strings.

Theorem C01_roundtrip_segmented_stage2 : forall cd chunk T v b tl,
  dec_ok cd -> stage2_ty T = true -> modes_val BER cd T v = true ->
  encode BER true chunk T v = Ok b -> N.of_nat (length b) <= index_max ->
  exists v', decode cd (Some T) (b ++ tl) = Ok (DV T v', tl) /\ abs T v' = abs T v.
Proof. exact roundtrip_segmented_stage2. Qed.
Print Assumptions C01_roundtrip_segmented_stage2.

Theorem C01_roundtrip_indefinite : forall cd chunk T v b tl,
  dec_ok cd -> stage2_ty T = true -> RoundTripModes.no_f01 T = true -> modes_val BER cd T v = true ->
  encode BER false chunk T v = Ok b -> N.of_nat (length b) <= index_max ->
  exists v', decode cd (Some T) (b ++ tl) = Ok (DV T v', tl) /\ abs T v' = abs T v.
Proof. exact roundtrip_indefinite. Qed.
Print Assumptions C01_roundtrip_indefinite.

(* F01 seen from the theorem's side: the excluded class does not round-trip *)
Example C01_refuted_F01 :
  exists T v b, encode BER false 0 T v = Ok b /\ decode BER (Some T) b <> Ok (DV T v, []).
Proof.
  exists (TExp (mkTag Ctx false 1) TInt), (VInt 5), [161; 3; 2; 1; 5; 0; 0].
  split; vm_compute; [reflexivity|discriminate].
Qed.

(* EVERY TYPE x EVERY MODE, for every input: the stage-3 universe (every type constructor) in
   definite, indefinite and segmented mode of the BER encoder, the CER encoder and the DER encoder
   (stable ce d k: the options are ones the codec does not override), decoders BER and CER (DER refuses
   indefinite lengths and segmented strings).  Excluded, in indefinite mode only: finding F01 (no_f01),
   and a tagged ANY whose payload is not a sequence of complete definite-length TLVs (anys_ok: such a
   payload cannot be delimited once lengths are indefinite) *)
Theorem C01_roundtrip_every_mode_every_type : forall ce cd d k T v b tl,
  stable ce d k -> dec_ok cd ->
  stage3_ty false ce T = true -> (d = false -> RoundTripModes.no_f01 T = true) ->
  stage3_val ce cd T v = true -> (d = false -> anys_ok T v = true) ->
  encode ce d k T v = Ok b -> N.of_nat (length b) <= index_max ->
  exists v', decode cd (Some T) (b ++ tl) = Ok (DV T v', tl) /\ abs T v' = abs T v.
Proof. exact roundtrip_modes3. Qed.
Print Assumptions C01_roundtrip_every_mode_every_type.

Theorem C01_roundtrip_indefinite_stage3 : forall cd chunk T v b tl,
  dec_ok cd -> stage3_ty false BER T = true -> RoundTripModes.no_f01 T = true ->
  stage3_val BER cd T v = true -> anys_ok T v = true ->
  encode BER false chunk T v = Ok b -> N.of_nat (length b) <= index_max ->
  exists v', decode cd (Some T) (b ++ tl) = Ok (DV T v', tl) /\ abs T v' = abs T v.
Proof. exact roundtrip_indefinite_stage3. Qed.
Print Assumptions C01_roundtrip_indefinite_stage3.

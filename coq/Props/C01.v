(* C01 - BER encode/decode round trip under every encoder mode.  Statements only. *)
From PV Require Import Base.Bytes Model.Tag Model.TableTypes Model.Types Model.Enc Model.Dec Gen.Tables
     Proofs.TagOctets Proofs.TagsetShape Proofs.RoundTrip1.
Local Open Scope N_scope.

(* the framing octets invert *)
Theorem C01_header_roundtrip : forall (t: tag) (c: bool) (n: N) (l r: bytes),
  enc_len n false = Ok l ->
  dec_ident (enc_tag t c ++ l ++ r) = Some (mkTag (tcls t) (tcon t || c) (tnum t), l ++ r)
  /\ dec_len (l ++ r) = Some (Some n, r).
Proof. intros t c n l r H. split; [apply dec_enc_tag | exact (dec_enc_len n l r H)]. Qed.
Print Assumptions C01_header_roundtrip.

(* Stage 1 of the round trip, for every input: any simple type (BOOLEAN, INTEGER, ENUMERATED,
   BIT STRING, OCTET STRING, NULL, OBJECT IDENTIFIER, REAL with binary or infinite value, character
   and useful strings whose octets the type's text codec accepts) under ANY stack of IMPLICIT and
   EXPLICIT tags of any class and number; definite-length, unsegmented encoder mode; anything may
   follow the encoding.  The BER decoder returns a value with the same abstract content (abs) and
   exactly the trailing octets.  The only size hypothesis is the one the implementation has too
   (lengths up to sys.maxsize, regenerated as index_max). *)
Theorem C01_roundtrip_stage1 : forall T v b tl,
  wf_tags T = true -> stage1_val BER BER T v = true ->
  encode BER true 0 T v = Ok b -> N.of_nat (length b) <= index_max ->
  exists v', decode BER (Some T) (b ++ tl) = Ok (DV T v', tl) /\ abs T v' = abs T v.
Proof. exact ber_roundtrip_stage1. Qed.
Print Assumptions C01_roundtrip_stage1.

(* the hypotheses are met by a non-trivial case: [3] EXPLICIT [APPLICATION 1000] IMPLICIT INTEGER, -129 *)
Example C01_roundtrip_stage1_nonvacuous :
  let T := TExp (mkTag Ctx false 3) (TImp (mkTag Appl false 1000) TInt) in
  wf_tags T = true /\ stage1_val BER BER T (VInt (-129)) = true
  /\ encode BER true 0 T (VInt (-129)) = Ok [163; 6; 95; 135; 104; 2; 255; 127]
  /\ N.of_nat 8 <= index_max.
Proof. vm_compute. repeat split; try reflexivity; discriminate. Qed.

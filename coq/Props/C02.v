(* C02 - DER and CER round trip; canonical output accepted by every wider decoder.  Statements only. *)
From PV Require Import Base.Bytes Model.Types Model.TableTypes Model.Enc Model.Dec Proofs.TableFacts.
Local Open Scope N_scope.

(* On the regenerated dispatch tables: every DER decoder entry is the CER entry or differs from
   it only by forbidding the constructed form, and the CER table differs from the BER table only in
   the BOOLEAN codec; so the stricter decoders only ever add rejections (evaluated on Gen/Tables.v
   as regenerated from /repo on this run) *)
Theorem C02_tables_refine :
  tables_refine (dec_tag_map DER) (dec_tag_map CER) = true
  /\ tables_refine (dec_type_map DER) (dec_type_map CER) = true
  /\ tables_refine (dec_tag_map CER) (dec_tag_map BER) = true
  /\ tables_refine (dec_type_map CER) (dec_type_map BER) = true.
Proof. exact tables_refine_facts. Qed.
Print Assumptions C02_tables_refine.

(* the encoder's fixed modes: CER always indefinite with 1000-octet segments, DER always definite, unsegmented *)
Theorem C02_fixed_modes :
  enc_fixed CER = (Some false, Some 1000) /\ enc_fixed DER = (Some true, Some 0) /\ enc_fixed BER = (None, None).
Proof. exact fixed_modes_facts. Qed.
Print Assumptions C02_fixed_modes.

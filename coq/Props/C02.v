(* C02 - DER and CER round trip; canonical output accepted by every wider decoder.  Statements only. *)
From PV Require Import Base.Bytes Model.Tag Model.Types Model.TableTypes Model.Enc Model.Dec Gen.Tables
     Proofs.TableFacts Proofs.TagsetShape Proofs.RoundTrip1 Proofs.RoundTrip2 Proofs.RoundTrip3b Proofs.RoundTrip3e Proofs.RoundTrip3f
     Proofs.RoundTripModesC Proofs.RoundTripModes Proofs.RoundTripModes3.
Local Open Scope N_scope.

(* On the regenerated dispatch tables: every DER decoder entry is the CER entry or differs from
   it only by forbidding the constructed form, and the CER table differs from the BER table only in
   the BOOLEAN codec; so the stricter decoders only ever add rejections (evaluated on Gen/Tables.v
   as regenerated from /repo on this run) *)
Theorem C02_tables_refine :
  tables_refine (dec_tag_map DER) (dec_tag_map CER) = true
  /\ tables_refine (dec_type_map DER) (dec_type_map CER) = true
  /\ tables_refine (dec_tag_map CER) (dec_tag_map BER) = true
  /\ tables_refine (dec_type_map CER) (dec_type_map BER) = true.
Proof. exact tables_refine_facts. Qed.
Print Assumptions C02_tables_refine.

(* the encoder's fixed modes: CER always indefinite with 1000-octet segments, DER always definite, unsegmented *)
Theorem C02_fixed_modes :
  enc_fixed CER = (Some false, Some 1000) /\ enc_fixed DER = (Some true, Some 0) /\ enc_fixed BER = (None, None).
Proof. exact fixed_modes_facts. Qed.
Print Assumptions C02_fixed_modes.

(* Stage 1, for every input: the DER encoding of any simple-typed value under any stack of tags is
   accepted by the DER, the CER and the BER decoder alike, each returning a value with the same
   abstract content and exactly the trailing octets *)
Theorem C02_der_accepted_stage1 : forall cd T v b tl,
  wf_tags T = true -> stage1_val DER cd T v = true ->
  encode DER true 0 T v = Ok b -> N.of_nat (length b) <= index_max ->
  exists v', decode cd (Some T) (b ++ tl) = Ok (DV T v', tl) /\ abs T v' = abs T v.
Proof. exact der_accepted_stage1. Qed.
Print Assumptions C02_der_accepted_stage1.

Example C02_der_accepted_stage1_nonvacuous :
  let T := TImp (mkTag Priv false 31) TBool in
  wf_tags T = true /\ stage1_val DER CER T (VBool true) = true /\ stage1_val DER BER T (VBool true) = true
  /\ stage1_val DER DER T (VBool true) = true
  /\ encode DER true 0 T (VBool true) = Ok [223; 31; 1; 255].
Proof. vm_compute. repeat split. Qed.

(* The whole universe, for every input: the DER encoding of any value of any stage-3 type (every type
   constructor, see Props/C01.v) is accepted by the DER, the CER and the BER decoder alike with the same
   abstract content; SET OF is compared as a multiset (aval_eqb), since the DER encoder sorts it *)
Theorem C02_der_accepted_stage3 : forall cd T v b tl,
  stage3_ty true DER T = true -> stage3_val DER cd T v = true -> agoodb (abs T v) = true ->
  encode DER true 0 T v = Ok b -> N.of_nat (length b) <= index_max ->
  exists v', decode cd (Some T) (b ++ tl) = Ok (DV T v', tl) /\ aval_eqb (abs T v) (abs T v') = true.
Proof. intros cd T v b tl. apply roundtrip_stage3_eqb. right; reflexivity. Qed.
Print Assumptions C02_der_accepted_stage3.

(* without SET OF the abstract content is equal on the nose *)
Theorem C02_der_accepted_stage3_eq : forall cd T v b tl,
  stage3_ty false DER T = true -> stage3_val DER cd T v = true ->
  encode DER true 0 T v = Ok b -> N.of_nat (length b) <= index_max ->
  exists v', decode cd (Some T) (b ++ tl) = Ok (DV T v', tl) /\ abs T v' = abs T v.
Proof. intros cd T v b tl. apply roundtrip_stage3. right; reflexivity. Qed.
Print Assumptions C02_der_accepted_stage3_eq.

(* The CER encoder (always indefinite, 1000-octet segments, sorted SET OF), whatever options the caller
   passes, read by the CER and by the BER decoder, for the recursive stage-2 fragment outside F01 *)
Theorem C02_cer_roundtrip : forall cd d k T v b tl,
  dec_ok cd -> stage2_ty T = true -> RoundTripModes.no_f01 T = true -> modes_val CER cd T v = true ->
  encode CER d k T v = Ok b -> N.of_nat (length b) <= index_max ->
  exists v', decode cd (Some T) (b ++ tl) = Ok (DV T v', tl) /\ aval_eqb (abs T v') (abs T v) = true.
Proof. exact roundtrip_cer_encoder_setof. Qed.
Print Assumptions C02_cer_roundtrip.

Theorem C02_cer_roundtrip_eq : forall cd d k T v b tl,
  dec_ok cd -> stage2_ty T = true -> RoundTripModes.no_f01 T = true -> RoundTripModes.no_setof T = true -> modes_val CER cd T v = true ->
  encode CER d k T v = Ok b -> N.of_nat (length b) <= index_max ->
  exists v', decode cd (Some T) (b ++ tl) = Ok (DV T v', tl) /\ abs T v' = abs T v.
Proof. exact roundtrip_cer_encoder. Qed.
Print Assumptions C02_cer_roundtrip_eq.

(* F24 seen from the theorem's side: a present, empty OPTIONAL constructed component is dropped by DER *)
Example C02_refuted_F24 :
  exists T v b v', encode DER true 0 T v = Ok b /\ decode DER (Some T) b = Ok (DV T v', []) /\ abs T v' <> abs T v.
Proof.
  exists (TSeq [(Opt, TSeqOf TInt); (Req, TNull)]), (VRec [Some (VList []); Some VNull]), [48; 2; 5; 0], (VRec [None; Some VNull]).
  split; [vm_compute; reflexivity|]. split; [vm_compute; reflexivity|]. vm_compute. discriminate.
Qed.

(* CER round trip over the whole universe, SET OF included (compared as a multiset), decoders CER and BER *)
Theorem C02_cer_roundtrip_stage3 : forall cd d k T v b tl,
  dec_ok cd -> stage3_ty true CER T = true -> RoundTripModes.no_f01 T = true ->
  stage3_val CER cd T v = true -> anys_ok T v = true ->
  encode CER d k T v = Ok b -> N.of_nat (length b) <= index_max ->
  exists v', decode cd (Some T) (b ++ tl) = Ok (DV T v', tl) /\ aeq (abs T v') (abs T v)
             /\ (agoodb (abs T v) = true -> aval_eqb (abs T v) (abs T v') = true).
Proof. exact roundtrip_cer_encoder_stage3_setof. Qed.
Print Assumptions C02_cer_roundtrip_stage3.

(* C09 - every valid BER form of a value decodes to that value.  Statements only.
   Full statement:
     forall T v b, X690.read T b = Some (abs T v, []) ->
       exists v', decode BER (Some T) b = Ok (DV T v', []) /\ abs T v' = abs T v.
   Proved (C09_all_forms, at the end of this file) for the whole type universe, with three
   side conditions each of which marks a real disagreement between library and X.690 reader. *)
From PV Require Import Base.Bytes Model.Tag Model.Types Model.TableTypes Model.Dec Spec.X690 Gen.Tables
     Proofs.TagOctets Proofs.BerForms Proofs.BerAllForms2.
Local Open Scope N_scope.

(* identifier octets of every class, form and number are read back (short and long form) *)
Theorem C09_identifier : forall (t: tag) (c: bool) (r: bytes),
  dec_ident (enc_tag t c ++ r) = Some (mkTag (tcls t) (tcon t || c) (tnum t), r).
Proof. exact dec_enc_tag. Qed.
Print Assumptions C09_identifier.

(* long-form lengths with any number of superfluous leading zero octets are accepted *)
Theorem C09_partial_overlong_length : forall (k: nat) (n: N) (r: bytes),
  n <> 0 -> (k + length (b256 n) <= 126)%nat ->
  dec_len ((128 + N.of_nat (k + length (b256 n))) :: repeat 0 k ++ b256 n ++ r) = Some (Some n, r).
Proof. exact overlong_length. Qed.
Print Assumptions C09_partial_overlong_length.

(* any non-zero octet is TRUE *)
Theorem C09_partial_any_nonzero_true : forall (o: N), o < 256 ->
  negb (Z.eqb (from_bytes_signed [o]) 0) = negb (N.eqb o 0).
Proof. exact any_nonzero_is_true. Qed.
Print Assumptions C09_partial_any_nonzero_true.

Example C09_nonvacuous :
  decode BER (Some (TSeqOf TOcts)) [48; 128; 36; 131; 0; 0; 12; 4; 1; 97; 36; 128; 4; 0; 0; 0; 4; 1; 98; 0; 0]
  = Ok (DV (TSeqOf TOcts) (VList [VOcts [97; 98]]), []).
Proof. vm_compute. reflexivity. Qed.

(* THE property, for every input.  BER(T, v) is defined independently of the library: b is a valid BER
   encoding of a value with abstract content a (followed by tl) iff the X.690 reference reader
   (Spec/X690.v: parse then interp) says so.  Whatever the reader accepts - any mix of short, long and
   over-long length forms, definite or indefinite length at each constructed level, primitive or
   arbitrarily (also nested) segmented strings, any non-zero TRUE, SET members in any order, DEFAULT
   and OPTIONAL components present or absent - the library's BER decoder accepts, with the same
   abstract value and the same remainder.  frag: every simple type, the character string types the
   model covers, SEQUENCE OF, SET OF, SEQUENCE and SET with mandatory/OPTIONAL/DEFAULT components
   (distinct tags as X.680 requires), CHOICE (nested, tagged or not), ANY (untagged where the guiding
   spec is the type itself, or under EXPLICIT tags), IMPLICIT/EXPLICIT tagging, to any depth.
   The three side conditions are the places where library and reader genuinely differ: a binary REAL
   without mantissa octets (the reader is lax), octets above 7F in an ASCII-repertoire string type (the
   library checks the repertoire, X.690 does not), and a node tagged UNIVERSAL 0 inside an ANY (the
   library reserves that tag for end-of-contents).  A third one - a definite-length constructed
   BIT STRING with no segments, 23 00 - was a defect of the library (finding F54), found by this
   proof, repaired, and the condition removed. *)
Theorem C09_all_forms : forall T b a tl,
  frag T = true -> wf_bytes b = true -> N.of_nat (length b) <= index_max ->
  X690.read T b = Some (a, tl) ->
  (forall n r, parse b = Some (n, r) ->
     real_mantissas_present T n = true /\ ascii_strings_ascii T n = true /\ any_without_tag_zero T n = true) ->
  exists v, decode BER (Some T) b = Ok (DV T v, tl) /\ abs T v = a.
Proof. exact ber_all_forms. Qed.
Print Assumptions C09_all_forms.

(* no side condition at all for types without REAL and ASCII-repertoire strings *)
Theorem C09_all_forms_unconditional : forall T b a tl,
  frag T = true -> side_keys T None = [] -> wf_bytes b = true -> N.of_nat (length b) <= index_max ->
  X690.read T b = Some (a, tl) ->
  exists v, decode BER (Some T) b = Ok (DV T v, tl) /\ abs T v = a.
Proof. exact ber_all_forms_unconditional. Qed.
Print Assumptions C09_all_forms_unconditional.

(* non-vacuity: Proofs/BerAllForms2.v, Example ber_all_forms_nonvacuous - one input mixing indefinite and
   definite lengths, long-form and over-long lengths, a long-form tag number, a nested segmented BIT STRING
   under an IMPLICIT tag, OPTIONAL/DEFAULT absent, SET out of order, TRUE as 07, a binary REAL, nested
   CHOICEs, an untagged ANY holding an indefinite-length SEQUENCE, trailing octets *)
Check ber_all_forms_nonvacuous.

(* the empty bit string in constructed form, no segments at all or empty nested ones (was finding F54) *)
Example C09_empty_constructed_bit_string :
  decode BER (Some TBits) [35; 0] = Ok (DV TBits (VBits []), [])
  /\ decode BER (Some TBits) [35; 128; 0; 0] = Ok (DV TBits (VBits []), []).
Proof. vm_compute. split; reflexivity. Qed.

(* C09 - every valid BER form of a value decodes to that value.  Statements only.
   Full statement (kept visible; decided per input by evaluating both sides, not yet proved):
     forall T v b, X690.read T b = Some (abs T v, []) ->
       exists v', decode BER (Some T) b = Ok (DV T v', []) /\ abs T v' = abs T v.
   Proved so far: the choice points of the framing layer. *)
From PV Require Import Base.Bytes Model.Tag Model.Types Model.Dec Proofs.TagOctets Proofs.BerForms.
Local Open Scope N_scope.

(* identifier octets of every class, form and number are read back (short and long form) *)
Theorem C09_identifier : forall (t: tag) (c: bool) (r: bytes),
  dec_ident (enc_tag t c ++ r) = Some (mkTag (tcls t) (tcon t || c) (tnum t), r).
Proof. exact dec_enc_tag. Qed.
Print Assumptions C09_identifier.

(* long-form lengths with any number of superfluous leading zero octets are accepted *)
Theorem C09_partial_overlong_length : forall (k: nat) (n: N) (r: bytes),
  n <> 0 -> (k + length (b256 n) <= 126)%nat ->
  dec_len ((128 + N.of_nat (k + length (b256 n))) :: repeat 0 k ++ b256 n ++ r) = Some (Some n, r).
Proof. exact overlong_length. Qed.
Print Assumptions C09_partial_overlong_length.

(* any non-zero octet is TRUE *)
Theorem C09_partial_any_nonzero_true : forall (o: N), o < 256 ->
  negb (Z.eqb (from_bytes_signed [o]) 0) = negb (N.eqb o 0).
Proof. exact any_nonzero_is_true. Qed.
Print Assumptions C09_partial_any_nonzero_true.

Example C09_nonvacuous :
  decode BER (Some (TSeqOf TOcts)) [48; 128; 36; 131; 0; 0; 12; 4; 1; 97; 36; 128; 4; 0; 0; 0; 4; 1; 98; 0; 0]
  = Ok (DV (TSeqOf TOcts) (VList [VOcts [97; 98]]), []).
Proof. vm_compute. reflexivity. Qed.

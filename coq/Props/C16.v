(* C16 - self-describing encodings decode faithfully without a schema.  Statements only.
   Full statement (kept visible; decided per input by the harness and the correspondence):
     forall T v e, no_implicit_no_any T -> encode DER true 0 T v = Ok e ->
       exists T' w, decode BER None e = Ok (DV T' w, []) /\ encode DER true 0 T' w = Ok e /\ leaves T' w = leaves T v. *)
From PV Require Import Base.Bytes Model.Tag Model.Types Model.Enc Model.Dec Proofs.Schemaless.
Local Open Scope N_scope.

(* the type object built for a scalar decoded without a schema carries exactly the tags met on the
   wire - so re-encoding it writes the same identifier octets, under any stack of EXPLICIT tags *)
Theorem C16_partial_wire_tags_kept : forall proto p0 t0 outer,
  tagset_of proto = Ok [p0] -> forallb non_universal outer = true ->
  exists ts, tagset_of (schemaless_ty proto (t0 :: outer)) = Ok ts /\ tagset_eqb ts (t0 :: outer) = true.
Proof. exact schemaless_ty_tags. Qed.
Print Assumptions C16_partial_wire_tags_kept.

Example C16_nonvacuous :
  decode BER None [48; 0] = Ok (DV (TSeqOf TNull) (VList []), [])
  /\ (match decode BER None [164; 8; 48; 6; 2; 1; 5; 4; 1; 97] with
      | Ok (DV T v, []) => encode DER true 0 T v
      | _ => Err EMalformed end) = Ok [164; 8; 48; 6; 2; 1; 5; 4; 1; 97].
Proof. split; vm_compute; reflexivity. Qed.

(* C16 - self-describing encodings decode faithfully without a schema.  Statements only.
   Full statement (kept visible; decided per input by the harness and the correspondence):
     forall T v e, no_implicit_no_any T -> encode DER true 0 T v = Ok e ->
       exists T' w, decode BER None e = Ok (DV T' w, []) /\ encode DER true 0 T' w = Ok e /\ leaves T' w = leaves T v. *)
From PV Require Import Base.Bytes Model.Tag Model.Types Model.TableTypes Model.Enc Model.Dec Gen.Tables
     Proofs.Schemaless Proofs.TagsetShape Proofs.RoundTrip1 Proofs.SchemalessRT Proofs.SchemalessRT2 Proofs.RoundTripModesC Proofs.RoundTripModes Proofs.SchemalessRT3 Proofs.SchemalessRT4.
Local Open Scope N_scope.

(* the type object built for a scalar decoded without a schema carries exactly the tags met on the
   wire - so re-encoding it writes the same identifier octets, under any stack of EXPLICIT tags *)
Theorem C16_partial_wire_tags_kept : forall proto p0 t0 outer,
  tagset_of proto = Ok [p0] -> forallb non_universal outer = true ->
  exists ts, tagset_of (schemaless_ty proto (t0 :: outer)) = Ok ts /\ tagset_eqb ts (t0 :: outer) = true.
Proof. exact schemaless_ty_tags. Qed.
Print Assumptions C16_partial_wire_tags_kept.

Example C16_nonvacuous :
  decode BER None [48; 0] = Ok (DV (TSeqOf TNull) (VList []), [])
  /\ (match decode BER None [164; 8; 48; 6; 2; 1; 5; 4; 1; 97] with
      | Ok (DV T v, []) => encode DER true 0 T v
      | _ => Err EMalformed end) = Ok [164; 8; 48; 6; 2; 1; 5; 4; 1; 97].
Proof. split; vm_compute; reflexivity. Qed.

(* For every input: a simple type with its own UNIVERSAL tag under zero or more EXPLICIT tags of any
   non-universal class and number (no IMPLICIT tag: such a value is not self-describing), every value,
   encoded by the BER or DER encoder and decoded WITHOUT a guiding type by any of the three decoders:
   the result has exactly the tags that were on the wire, the base type the universal tag denotes
   (ENUMERATED comes back as an INTEGER object carrying the ENUMERATED tag: sl_proto), the same
   abstract content, and the trailing octets are untouched *)
Theorem C16_schemaless_roundtrip_stage1 : forall ce cd T v b tl,
  enc_ok ce -> univ_explicit T = true -> stage1_val ce cd T v = true ->
  encode ce true 0 T v = Ok b -> N.of_nat (length b) <= index_max ->
  exists T0 v', decode cd None (b ++ tl) = Ok (DV T0 v', tl)
    /\ T0 = sl_ty T
    /\ tagset_of T0 = tagset_of T
    /\ base_of T0 = sl_proto (base_of T)
    /\ abs T0 v' = abs T v.
Proof. exact schemaless_roundtrip_stage1_codecs. Qed.
Print Assumptions C16_schemaless_roundtrip_stage1.

Example C16_schemaless_roundtrip_stage1_nonvacuous :
  let T := TExp (mkTag Appl false 2) (TExp (mkTag Ctx true 1) TEnum) in
  let v := VInt (-300) in
  let b := [98; 6; 161; 4; 10; 2; 254; 212] in
  univ_explicit T = true /\ stage1_val BER BER T v = true /\ encode BER true 0 T v = Ok b
  /\ N.of_nat (length b) <= index_max
  /\ decode BER None (b ++ [7; 7])
     = Ok (DV (TExp (mkTag Appl true 2) (TExp (mkTag Ctx true 1) (TImp (utag false 10) TInt))) v, [7; 7])
  /\ sl_ty T = TExp (mkTag Appl true 2) (TExp (mkTag Ctx true 1) (TImp (utag false 10) TInt)).
Proof. exact schemaless_roundtrip_stage1_nonvacuous. Qed.

(* Containers, for every input: types built from the self-describing simple types, SEQUENCE OF, SEQUENCE
   (and SET OF / SET under the BER encoder: aset) with mandatory components, EXPLICIT non-universal tags,
   nested to any depth, decoded WITHOUT a guiding type: the guessed type has the same tags, the same
   skeleton (tag set of every container, tag set and abstract content of every leaf), the same leaves in
   order, and re-encoding the result with DER reproduces the DER encoding of the original *)
Theorem C16_schemaless_roundtrip_containers : forall ce cd aset T v b tl,
  enc_ok ce -> (aset = true -> ce = BER) ->
  sl_frag aset T = true -> sl_val ce cd T v = true ->
  encode ce true 0 T v = Ok b -> N.of_nat (length b) <= index_max ->
  exists T0 v0, decode cd None (b ++ tl) = Ok (DV T0 v0, tl)
    /\ tagset_of T0 = tagset_of T
    /\ skel T0 v0 = skel T v
    /\ leaves T0 v0 = leaves T v
    /\ encode DER true 0 T0 v0 = encode DER true 0 T v.
Proof. exact schemaless_roundtrip_containers. Qed.
Print Assumptions C16_schemaless_roundtrip_containers.

(* ... in EVERY mode of the BER encoder (definite, indefinite, segmented strings), SET OF and SET included,
   read without a guiding type by the BER and CER decoders; outside finding F01 in indefinite mode *)
Theorem C16_schemaless_roundtrip_every_mode : forall cd d chunk T v b tl,
  dec_ok cd -> sl_frag true T = true -> (d = false -> RoundTripModes.no_f01 T = true) -> sl_val BER cd T v = true ->
  encode BER d chunk T v = Ok b -> N.of_nat (length b) <= index_max ->
  exists T0 v0, decode cd None (b ++ tl) = Ok (DV T0 v0, tl)
    /\ tagset_of T0 = tagset_of T
    /\ skel T0 v0 = skel T v
    /\ leaves T0 v0 = leaves T v
    /\ encode DER true 0 T0 v0 = encode DER true 0 T v.
Proof. exact schemaless_roundtrip_ber_modes. Qed.
Print Assumptions C16_schemaless_roundtrip_every_mode.

(* the CER encoder, whatever options the caller passes *)
Theorem C16_schemaless_roundtrip_cer : forall cd d k T v b tl,
  dec_ok cd -> sl_frag false T = true -> RoundTripModes.no_f01 T = true -> sl_val CER cd T v = true ->
  encode CER d k T v = Ok b -> N.of_nat (length b) <= index_max ->
  exists T0 v0, decode cd None (b ++ tl) = Ok (DV T0 v0, tl)
    /\ tagset_of T0 = tagset_of T
    /\ skel T0 v0 = skel T v
    /\ leaves T0 v0 = leaves T v
    /\ encode DER true 0 T0 v0 = encode DER true 0 T v.
Proof. exact schemaless_roundtrip_cer_encoder. Qed.
Print Assumptions C16_schemaless_roundtrip_cer.

(* types with OPTIONAL components some of which are absent: without a schema they are simply not there;
   the conclusion holds against the type and value pruned of them (prune) *)
Theorem C16_schemaless_roundtrip_optional : forall cd d chunk T v b tl,
  dec_ok cd -> prunable T v = true -> sl_frag true (fst (prune T v)) = true ->
  (d = false -> RoundTripModes.no_f01 (fst (prune T v)) = true) ->
  sl_val BER cd (fst (prune T v)) (snd (prune T v)) = true ->
  encode BER d chunk T v = Ok b -> N.of_nat (length b) <= index_max ->
  exists T0 v0, decode cd None (b ++ tl) = Ok (DV T0 v0, tl)
    /\ tagset_of T0 = tagset_of T
    /\ skel T0 v0 = skel T v
    /\ leaves T0 v0 = leaves T v
    /\ encode DER true 0 T0 v0 = encode DER true 0 (fst (prune T v)) (snd (prune T v)).
Proof. exact schemaless_roundtrip_optional. Qed.
Print Assumptions C16_schemaless_roundtrip_optional.

(* types that also contain untagged CHOICE members / elements and DEFAULT (and OPTIONAL) components: the
   wire carries the chosen alternative under its own tags and no trace of a component that is absent or
   equal to its default, so the comparison is against the value pruned to what is on the wire (cprune:
   the chosen alternative in place of the CHOICE, the components present each mandatory, a SEQUENCE OF
   as the SEQUENCE of its pruned elements; cprune_enc: every encoder writes for the pruned value what it
   writes for the original).  BER encoder in every mode: tags, skeleton and leaves of the pruned value,
   and the DER re-encoding is the DER encoding of the ORIGINAL value *)
Theorem C16_schemaless_roundtrip_choice_default : forall cd d chunk T v b tl,
  dec_ok cd -> cprunable BER d chunk T v = true -> cprunable DER true 0 T v = true ->
  sl_frag true (fst (cprune T v)) = true -> (d = false -> RoundTripModes.no_f01 (fst (cprune T v)) = true) ->
  sl_val BER cd (fst (cprune T v)) (snd (cprune T v)) = true ->
  encode BER d chunk T v = Ok b -> N.of_nat (length b) <= index_max ->
  exists T0 v0, decode cd None (b ++ tl) = Ok (DV T0 v0, tl)
    /\ tagset_of T0 = tagset_of (fst (cprune T v))
    /\ skel T0 v0 = skel (fst (cprune T v)) (snd (cprune T v))
    /\ leaves T0 v0 = leaves (fst (cprune T v)) (snd (cprune T v))
    /\ encode DER true 0 T0 v0 = encode DER true 0 T v.
Proof. exact schemaless_roundtrip_choice_default. Qed.
Print Assumptions C16_schemaless_roundtrip_choice_default.

(* the same for the CER encoder (it sorts SET OF / SET members: skeleton up to the order under such nodes,
   leaves a permutation; a CHOICE directly inside a SET is outside cprunable CER, see cer_set_choice_differs) *)
Theorem C16_schemaless_roundtrip_choice_default_cer : forall cd d k T v b tl,
  dec_ok cd -> cprunable CER false 1000 T v = true -> cprunable DER true 0 T v = true ->
  sl_frag true (fst (cprune T v)) = true -> RoundTripModes.no_f01 (fst (cprune T v)) = true ->
  sl_val CER cd (fst (cprune T v)) (snd (cprune T v)) = true ->
  encode CER d k T v = Ok b -> N.of_nat (length b) <= index_max ->
  exists T0 v0, decode cd None (b ++ tl) = Ok (DV T0 v0, tl)
    /\ tagset_of T0 = tagset_of (fst (cprune T v))
    /\ sk_sim (skel (fst (cprune T v)) (snd (cprune T v))) (skel T0 v0)
    /\ Permutation.Permutation (leaves (fst (cprune T v)) (snd (cprune T v))) (leaves T0 v0)
    /\ encode DER true 0 T0 v0 = encode DER true 0 T v.
Proof. exact schemaless_roundtrip_choice_default_cer. Qed.
Print Assumptions C16_schemaless_roundtrip_choice_default_cer.

(* and the header statement itself for these types: a DER encoding, decoded without a guiding type by any
   of the three decoders and re-encoded with DER, is reproduced octet for octet *)
Theorem C16_schemaless_der_reencode_choice_default : forall cd T v e tl,
  cprunable DER true 0 T v = true ->
  sl_frag true (fst (cprune T v)) = true -> sl_val DER cd (fst (cprune T v)) (snd (cprune T v)) = true ->
  encode DER true 0 T v = Ok e -> N.of_nat (length e) <= index_max ->
  exists T0 v0, decode cd None (e ++ tl) = Ok (DV T0 v0, tl)
    /\ encode DER true 0 T0 v0 = Ok e
    /\ tagset_of T0 = tagset_of (fst (cprune T v))
    /\ sk_sim (skel (fst (cprune T v)) (snd (cprune T v))) (skel T0 v0)
    /\ Permutation.Permutation (leaves (fst (cprune T v)) (snd (cprune T v))) (leaves T0 v0).
Proof. exact schemaless_der_reencode_choice_default. Qed.
Print Assumptions C16_schemaless_der_reencode_choice_default.

(* SEQUENCE { CHOICE { INTEGER, OCTET STRING, [3] OCTET STRING }, [0] INTEGER DEFAULT 7, OCTET STRING DEFAULT '01'H,
   SEQUENCE OF CHOICE { NULL, SEQUENCE { INTEGER OPTIONAL, CHOICE { BOOLEAN, UTF8String } } },
   SET { CHOICE { INTEGER, OCTET STRING }, REAL OPTIONAL, BOOLEAN } }, indefinite lengths, 2-octet segments *)
Example C16_schemaless_roundtrip_choice_default_nonvacuous :
  cprunable BER false 2 ex4_ty ex4_val = true /\ cprunable DER true 0 ex4_ty ex4_val = true
  /\ cprune ex4_ty ex4_val
     = (TSeq [ (Req, TExp (mkTag Ctx false 3) TOcts); (Req, TOcts);
               (Req, TSeq [(Req, TNull); (Req, TSeq [(Req, TStr 12)])]);
               (Req, TSet [(Req, TOcts); (Req, TBool)]) ],
        VRec [ Some (VOcts [5; 6; 7]); Some (VOcts [2]);
               Some (VRec [Some VNull; Some (VRec [Some (VOcts [104])])]);
               Some (VRec [Some (VOcts [9]); Some (VBool false)]) ])
  /\ sl_frag true (fst (cprune ex4_ty ex4_val)) = true /\ RoundTripModes.no_f01 (fst (cprune ex4_ty ex4_val)) = true
  /\ sl_val BER CER (fst (cprune ex4_ty ex4_val)) (snd (cprune ex4_ty ex4_val)) = true
  /\ exists b, encode BER false 2 ex4_ty ex4_val = Ok b /\ N.of_nat (length b) <= index_max
       /\ exists T0 v0, decode CER None (b ++ [1]) = Ok (DV T0 v0, [1])
            /\ length (leaves T0 v0) = 6%nat
            /\ encode DER true 0 T0 v0 = encode DER true 0 ex4_ty ex4_val
            /\ encode DER true 0 ex4_ty ex4_val
               = Ok [48; 27; 163; 5; 4; 3; 5; 6; 7; 4; 1; 2; 48; 7; 5; 0; 48; 3; 12; 1; 104; 49; 6; 1; 1; 0; 4; 1; 9].
Proof. exact schemaless_roundtrip_choice_default_nonvacuous. Qed.

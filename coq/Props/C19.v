(* C19 - Container objects refine their Python prototypes under any operation history.
   Only statements closed by [exact]; proofs live in Proofs/Container*.v; the model of the code
   is Model/Container.v (the code at /repo HEAD: repairs F18b/c/e/f/g committed, encoders read-only for
   unassigned OPTIONAL/DEFAULT components), the prototypes are Spec/ListSpec.v.

   Reading guide.  [conc]/[rabs]/[cabs] read a concrete state as a prototype state.  A history is
   well-formed ([*_wf_hist]) when every operation is, in the prototype state it meets, a list-style /
   name-, position- or tag-addressed operation within the documented range.  Where the full
   statement is false of the faithful model, the full statement is kept in a comment, the proved
   theorem is named [_partial] and carries the exclusion as a computable predicate, and a
   [_refuted] theorem exhibits the witness (each replayed on the implementation by the harness). *)
From PV Require Import Spec.ListSpec Proofs.ContainerBase Proofs.ContainerSeqOf
                       Proofs.ContainerChoice Proofs.ContainerRecord Proofs.ContainerSortKey.
Local Open Scope nat_scope.

(* ------------------------------------------------------------------------------------------ *)
(* SEQUENCE OF / SET OF refine the Python list                                                *)

(* after any well-formed history: same state, same results at every step, same content, length,
   value-vs-schema status and DER encoding (iteration, membership, count, index, ==, slices are
   operations of the history: their results are in [outs]) *)
Theorem C19_refines_seqof : forall ct isset ops, l_wf_hist ct isset None ops = true ->
  let '(s, outs) := sof_run ct isset None ops in
  let '(a, outs') := l_run isset None ops in
  s = conc a /\ outs = outs' /\ sof_observe ct isset s = l_observe isset a.
Proof. exact sof_refines. Qed.
Print Assumptions C19_refines_seqof.

(* one step from any list-like state (what the induction uses) *)
Theorem C19_refines_seqof_step : forall ct isset a o, l_wf ct a o = true ->
  sof_step ct isset (conc a) o = (conc (fst (l_step isset a o)), snd (l_step isset a o)).
Proof. exact sof_sim_step. Qed.
Print Assumptions C19_refines_seqof_step.

(* the prototype's sort really sorts *)
Theorem C19_spec_sort_sorts : forall l, Sorted.LocallySorted Z.le (zsort l) /\ Permutation.Permutation l (zsort l).
Proof. exact (fun l => conj (zsort_sorted l) (zsort_perm l)). Qed.
Print Assumptions C19_spec_sort_sorts.

(* sort(key=..., reverse=...): the prototype is Python's list.sort, stable in both directions (Proofs/ContainerSortKey.v:
   [py_sorted]); members that tie under the key keep their relative order, also with reverse=True *)
Theorem C19_sort_key_stable : forall (A: Type) (key: A -> Z) (r: bool) (k: Z) (l: list A),
  tied key k (py_sorted key r l) = tied key k l /\ Permutation.Permutation l (py_sorted key r l) /\
  ordered key Z.le (py_sorted key false l) /\ ordered key Z.ge (py_sorted key true l).
Proof. exact (fun A key r k l => conj (py_sorted_stable key r k l) (conj (py_sorted_perm key r l) (py_sorted_ordered key l))). Qed.
Print Assumptions C19_sort_key_stable.

(* histories that also sort by key=int(x) % m, in either direction, refine the list driven by list.sort *)
Theorem C19_refines_seqof_sortkey : forall ct isset ops a, lk_wf_hist ct isset a ops = true ->
  sofk_run ct isset (conc a) ops = (conc (fst (lk_run isset a ops)), snd (lk_run isset a ops)).
Proof. exact sofk_refines. Qed.
Print Assumptions C19_refines_seqof_sortkey.

(* sorting ascending and reversing afterwards is another function: it reverses the ties *)
Theorem C19_sort_then_reverse_differs :
  exists (key: Z -> Z) l, py_sorted key true l <> rev (py_sorted key false l) /\
                          py_sorted key true l = [5; 12; 11; 21; 41]%Z.
Proof. exact sort_then_reverse_differs. Qed.
Print Assumptions C19_sort_then_reverse_differs.

(* FULL STATEMENT (false today):  forall a o, sof_reader o = true -> fst (sof_step ct isset (conc a) o) = conc a.
   Proved outside the class of finding F18d (a position at or past the end read with instantiation). *)
Theorem C19_reads_inert_seqof_partial : forall ct isset a o, sof_reader o = true -> f18d ct a o = false ->
  fst (sof_step ct isset (conc a) o) = conc a.
Proof. exact sof_reads_inert_partial. Qed.
Print Assumptions C19_reads_inert_seqof_partial.

Theorem C19_reads_inert_refuted_seqof :
  exists a o, sof_reader o = true /\ l_wf true a o = false /\
              fst (sof_step true false (conc a) o) <> conc a /\
              o_len (sof_observe true false (fst (sof_step true false (conc a) o))) = 6.
Proof. exact sof_reads_inert_refuted. Qed.
Print Assumptions C19_reads_inert_refuted_seqof.

(* FULL STATEMENT (false today):  forall a o, l_ill ct a o = true -> state unchanged /\ a lookup or library error.
   Proved outside F18d (an assignment beyond the end is accepted and leaves holes). *)
Theorem C19_illformed_inert_seqof_partial : forall ct isset a o, l_ill ct a o = true -> f18d ct a o = false ->
  fst (sof_step ct isset (conc a) o) = conc a /\
  exists e, snd (sof_step ct isset (conc a) o) = ORaise e /\ lookup_or_library e = true.
Proof. exact sof_illformed_inert_partial. Qed.
Print Assumptions C19_illformed_inert_seqof_partial.

Theorem C19_illformed_inert_refuted_seqof :
  exists a o, l_ill true a o = true /\ snd (sof_step true false (conc a) o) = ORet /\
              fst (sof_step true false (conc a) o) = Some [(0, CVal 1%Z); (7, CVal 9%Z)].
Proof. exact sof_illformed_inert_refuted. Qed.
Print Assumptions C19_illformed_inert_refuted_seqof.

(* ------------------------------------------------------------------------------------------ *)
(* SEQUENCE / SET refine the finite map name -> value                                         *)

(* FULL STATEMENT would also cover len(), prettyPrint(), == on a record with absent members and
   getComponentBy*(instantiate=False) of a DEFAULT component equal to its default; these are not
   functions of the content in the code ([r_wf] leaves them out; len() is finding F18h).
   Results are compared up to "an instantiated placeholder is an absent member" ([out_abs]). *)
Theorem C19_refines_record_partial : forall cfg isset ops, has_req cfg = true ->
  r_wf_hist cfg isset (r_init cfg) ops = true ->
  let '(s, outs) := rec_run cfg isset (Some []) ops in
  let '(a, outs') := r_run cfg isset (r_init cfg) ops in
  rabs cfg s = a /\ map out_abs outs = outs' /\
  rec_isvalue cfg s = r_isvalue cfg a /\
  (r_isvalue cfg a = true -> snd (rec_step cfg isset s REncode) = out_of_bytes (r_der cfg isset a)).
Proof. exact rec_refines. Qed.
Print Assumptions C19_refines_record_partial.

Theorem C19_len_refuted_record :
  exists cfg s s', rinv cfg s /\ s' = fst (rec_step cfg false s (RGetItem (KName 1))) /\
                   rabs cfg s = rabs cfg s' /\
                   snd (rec_step cfg false s RLen) = ONat 0 /\ snd (rec_step cfg false s' RLen) = ONat 2 /\
                   snd (r_step cfg false (rabs cfg s) RLen) = ONat 2.
Proof. exact rec_len_not_abstract. Qed.
Print Assumptions C19_len_refuted_record.

(* every read, well-formed or not, leaves the content of a SEQUENCE/SET alone (no exclusion) *)
Theorem C19_reads_inert_record : forall cfg isset s o, rinv cfg s -> rec_reader o = true ->
  rinv cfg (fst (rec_step cfg isset s o)) /\ rabs cfg (fst (rec_step cfg isset s o)) = rabs cfg s.
Proof. exact rec_reads_inert. Qed.
Print Assumptions C19_reads_inert_record.

(* unknown name, position outside [-N, N), refused value: a lookup or library error, nothing changes *)
Theorem C19_illformed_inert_record : forall cfg isset s o, rinv cfg s -> r_ill cfg o = true ->
  r_in_api isset o = true ->
  fst (rec_step cfg isset s o) = s /\
  exists e, snd (rec_step cfg isset s o) = ORaise e /\ lookup_or_library e = true.
Proof. exact rec_illformed_inert. Qed.
Print Assumptions C19_illformed_inert_record.

(* ------------------------------------------------------------------------------------------ *)
(* CHOICE refines option (alternative, value)                                                 *)

(* at most one alternative holds anything, after ANY history (no well-formedness asked) *)
Theorem C19_choice_single : forall cfg ops, ch_occupied (fst (ch_run cfg ch_init ops)) <= 1.
Proof. exact choice_single. Qed.
Print Assumptions C19_choice_single.

(* FULL STATEMENT (false today) has [c_wf] without its first conjunct [negb (f18a ..)]: reading an
   alternative other than the selected one, with the default instantiate=True, while the selected
   one holds a value, must not change the object.  The code re-selects and drops the value (F18a). *)
Theorem C19_refines_choice_partial : forall cfg ops, no_def cfg = true -> c_wf_hist cfg None ops = true ->
  let '(s, outs) := ch_run cfg ch_init ops in
  let '(a, outs') := c_run cfg None ops in
  cabs s = a /\ map out_abs outs = outs' /\ ch_occupied s <= 1.
Proof. exact ch_refines. Qed.
Print Assumptions C19_refines_choice_partial.

Theorem C19_reads_inert_choice_partial : forall cfg s o, no_def cfg = true -> cinv cfg s ->
  rec_reader o = true -> c_wf cfg (cabs s) o = true ->
  match cabs s with Some (_, Some _) => cabs (fst (ch_step cfg s o)) = cabs s | _ => True end.
Proof. exact ch_reads_inert_partial. Qed.
Print Assumptions C19_reads_inert_choice_partial.

Theorem C19_reads_inert_refuted_choice :
  exists ops o, rec_reader o = true /\
    cabs (fst (ch_run cfg3 ch_init ops)) = Some (1, Some 5%Z) /\
    cabs (fst (ch_step cfg3 (fst (ch_run cfg3 ch_init ops)) o)) = Some (2, None) /\
    f18a cfg3 (cabs (fst (ch_run cfg3 ch_init ops))) o = true.
Proof. exact ch_reads_inert_refuted. Qed.
Print Assumptions C19_reads_inert_refuted_choice.

Theorem C19_illformed_inert_choice : forall cfg s o, cinv cfg s -> r_ill cfg o = true ->
  fst (ch_step cfg s o) = s /\
  exists e, snd (ch_step cfg s o) = ORaise e /\ lookup_or_library e = true.
Proof. exact ch_illformed_inert. Qed.
Print Assumptions C19_illformed_inert_choice.

(* ------------------------------------------------------------------------------------------ *)
(* valueless scalars: arithmetic, conversion and comparison raise the library's error *)
Theorem C19_schema_scalar_raises : forall (A: Type) (f: Z -> A) (g: Z -> Z -> A) (y: scalar),
  scalar_unop None f = Err ELib /\ scalar_binop None y g = Err ELib /\ scalar_binop y None g = Err ELib.
Proof. exact (@scalar_valueless_raises). Qed.
Print Assumptions C19_schema_scalar_raises.

(* ------------------------------------------------------------------------------------------ *)
(* non-vacuity: concrete well-formed histories satisfy the hypotheses and end where they should *)

Example C19_seqof_nonvacuous :
  l_wf_hist true false None ex_h1 = true /\
  fst (sof_run true false None ex_h1) = Some [(0, CVal 5%Z); (1, CVal 6%Z); (2, CVal 1%Z)] /\
  last (snd (sof_run true false None ex_h1)) ORet =
    OBytes [48%N; 9%N; 2%N; 1%N; 5%N; 2%N; 1%N; 6%N; 2%N; 1%N; 1%N] /\
  l_ill true (Some [1%Z]) (SGetItem (-2)) = true /\ f18d true (Some [1%Z]) (SGetItem (-2)) = false.
Proof. repeat split. Qed.

Example C19_record_nonvacuous :
  has_req cfg4 = true /\ r_wf_hist cfg4 false (r_init cfg4) ex_h2 = true /\
  fst (r_run cfg4 false (r_init cfg4) ex_h2) = [Some 1%Z; None; Some 7%Z; Some 2%Z] /\
  fst (rec_run cfg4 false (Some []) ex_h2) = Some [Some (CVal 1%Z); Some CSchema; Some (CVal 7%Z); Some (CVal 2%Z)] /\
  last (snd (rec_run cfg4 false (Some []) ex_h2)) ORet = OBytes [48%N; 6%N; 2%N; 1%N; 1%N; 130%N; 1%N; 2%N] /\
  r_ill cfg4 (RGetItem (KName 9)) = true /\ r_in_api false (RGetItem (KName 9)) = true.
Proof. repeat split. Qed.

Example C19_choice_nonvacuous :
  no_def cfg3 = true /\ c_wf_hist cfg3 None ex_h3 = true /\
  fst (c_run cfg3 None ex_h3) = Some (2, Some 6%Z) /\
  c_cv (fst (ch_run cfg3 ch_init ex_h3)) = Some [None; None; Some (CVal 6%Z)] /\
  last (snd (ch_run cfg3 ch_init ex_h3)) ORet = OBytes [129%N; 1%N; 6%N] /\
  cinv cfg3 ch_init /\ r_ill cfg3 (RSetItem (KPos 3) (PInt 1)) = true.
Proof. repeat split. Qed.

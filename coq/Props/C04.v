(* C04 - DER/CER bytes depend only on the abstract value, not on how it was built.
   Only statements closed by [exact]; proofs in Proofs/ContainerCodecSort.v (on the encoder model
   Model/Enc.v) and Proofs/ContainerCodec.v (on the container model Model/Container.v).

   What is proved.  (1) In the encoder model the only places where the order of the members could
   show are the two canonical sorts; both are invariant under permutation of their input provided
   members that the sort key cannot separate are identical (true of real members: TLV encodings are
   prefix-free, sibling tags of a SET are distinct); without that proviso the stable sort keeps the
   input order ([_refuted] witnesses).  A value of the encoder model (VRec: one slot per declared
   component) has no assignment order left in it, so "any order of assigning components" is a
   statement about the container objects: (2) in the container model the DER of an object is a
   function of its abstract content for every state reachable by a well-formed history - insertion
   order, explicit or implicit DEFAULT, clone, interleaved reads are all histories.
   PARTIAL: re-encoding a decoded DER/CER encoding (der (decode e) = e) and "decoded from any BER
   form" are checked on the implementation by the harness only; the theorem over Model/Dec.v is not
   attempted here.  SET OF members added in another order are covered by (1) on the encoder model;
   (2) for SET OF compares histories reaching the same list. *)
From Coq Require Import Sorting.Permutation.
From PV Require Import Spec.ListSpec Model.Types Model.TableTypes Model.Enc Proofs.ContainerCodecDefs Proofs.ContainerCodecSort Proofs.ContainerCodec
     Proofs.DerAbsFunction.
Local Open Scope nat_scope.

(* ---- (1) the encoder model ---- *)

Theorem C04_sort_setof_perm : forall l1 l2, Permutation l1 l2 -> pad_distinct l1 -> sort_setof l1 = sort_setof l2.
Proof. exact sort_setof_perm. Qed.
Print Assumptions C04_sort_setof_perm.

(* FULL STATEMENT (false): forall l1 l2, Permutation l1 l2 -> concat (sort_setof l1) = concat (sort_setof l2) *)
Theorem C04_sort_setof_perm_refuted :
  exists l1 l2, Permutation l1 l2 /\ concat (sort_setof l1) <> concat (sort_setof l2).
Proof. exact sort_setof_perm_refuted. Qed.
Print Assumptions C04_sort_setof_perm_refuted.

(* SET OF contents octets under CER/DER do not depend on the order the members were added in *)
Theorem C04_setof_order : forall c t fl o xs ys ps, Permutation xs ys -> elems_encode c t o xs ps -> pad_distinct ps ->
  enc_content c (TSetOf t) EcSetOfCer fl o (VList xs) = enc_content c (TSetOf t) EcSetOfCer fl o (VList ys).
Proof. exact setof_order. Qed.
Print Assumptions C04_setof_order.

Theorem C04_setof_order_encode : forall c d k t xs ys ps fl,
  concrete_encoder c (TSetOf t) = Ok (EcSetOfCer, fl) -> Permutation xs ys ->
  let o := fix_opts c (mkOpts d k false) in
  elems_encode c t (mkOpts (o_def o) (o_chunk o) false) xs ps -> pad_distinct ps ->
  encode c d k (TSetOf t) (VList xs) = encode c d k (TSetOf t) (VList ys).
Proof. exact setof_order_encode. Qed.
Print Assumptions C04_setof_order_encode.

(* table fact on the regenerated Gen/Tables.v: CER and DER send SET OF to the sorting encoder *)
Theorem C04_tables_setof_sorted : forall t,
  (exists fl, concrete_encoder CER (TSetOf t) = Ok (EcSetOfCer, fl)) /\
  (exists fl, concrete_encoder DER (TSetOf t) = Ok (EcSetOfCer, fl)).
Proof. exact cer_der_setof_sorted. Qed.
Print Assumptions C04_tables_setof_sorted.

(* SET: ordering the (tag, encoding) pairs of the members by tag does not depend on the order they are listed in *)
Theorem C04_set_order : forall p1 p2 : list (tagset * bytes), Permutation p1 p2 -> tags_distinct p1 ->
  Enc.sort_by tagset_ltb fst p1 = Enc.sort_by tagset_ltb fst p2.
Proof. exact sort_set_perm. Qed.
Print Assumptions C04_set_order.

Theorem C04_set_order_refuted :
  exists p1 p2 : list (tagset * bytes), Permutation p1 p2 /\
    concat (map snd (Enc.sort_by tagset_ltb fst p1)) <> concat (map snd (Enc.sort_by tagset_ltb fst p2)).
Proof. exact sort_set_perm_refuted. Qed.
Print Assumptions C04_set_order_refuted.

(* ---- (2) the container model ---- *)

(* two well-formed histories reaching the same list leave the same object: same content, len, isValue, DER *)
Theorem C04_factor_seqof : forall ct isset ops1 ops2,
  l_wf_hist ct isset None ops1 = true -> l_wf_hist ct isset None ops2 = true ->
  fst (l_run isset None ops1) = fst (l_run isset None ops2) ->
  fst (sof_run ct isset None ops1) = fst (sof_run ct isset None ops2) /\
  sof_observe ct isset (fst (sof_run ct isset None ops1)) = sof_observe ct isset (fst (sof_run ct isset None ops2)).
Proof. exact factor_seqof. Qed.
Print Assumptions C04_factor_seqof.

(* SEQUENCE OF / SET OF states without holes or placeholders, whatever order the positions were first assigned
   in (the dict keeps insertion order: s[2] = c; s[1] = b; s[0] = a is another dict than the ascending twin):
   the encoder and iteration go by ascending position, so DER and iteration are functions of the lookup only,
   and encoding leaves the state alone *)
Theorem C04_seqof_assignment_order : forall ct isset (d1 d2: dict) (val: nat -> Z) n,
  slen (Some d1) = n -> slen (Some d2) = n ->
  (forall k, k < n -> dget k d1 = Some (CVal (val k))) ->
  (forall k, k < n -> dget k d2 = Some (CVal (val k))) ->
  snd (sof_step ct isset (Some d1) SEncode) = snd (sof_step ct isset (Some d2) SEncode) /\
  fst (sof_step ct isset (Some d1) SEncode) = Some d1 /\
  snd (sof_step ct isset (Some d1) SIter) = OSlots (map (fun k => Some (CVal (val k))) (seq 0 n)).
Proof. exact seqof_assignment_order. Qed.
Print Assumptions C04_seqof_assignment_order.

(* assignment is a lookup update, so any order of assigning every position ends in such a state *)
Theorem C04_assignment_is_update : forall k k' v (d: dict),
  dget k (dset k' v d) = if Nat.eqb k k' then Some v else dget k d.
Proof. exact dget_dset. Qed.
Print Assumptions C04_assignment_is_update.

Example C04_seqof_assignment_order_nonvacuous :
  let h1 := [SSetItem 2 (PInt 30); SSetItem 1 (PInt 20); SSetItem 0 (PInt 10)] in
  let h2 := [SSetItem 0 (PInt 10); SSetItem 1 (PInt 20); SSetItem 2 (PInt 30)] in
  fst (sof_run true false None h1) = Some [(2, CVal 30%Z); (1, CVal 20%Z); (0, CVal 10%Z)] /\
  fst (sof_run true false None h2) = Some [(0, CVal 10%Z); (1, CVal 20%Z); (2, CVal 30%Z)] /\
  snd (sof_step true false (fst (sof_run true false None h1)) SEncode) =
  snd (sof_step true false (fst (sof_run true false None h2)) SEncode) /\
  snd (sof_step true false (fst (sof_run true false None h1)) SEncode) = OBytes [48; 9; 2; 1; 10; 2; 1; 20; 2; 1; 30]%N.
Proof. exact seqof_assignment_order_example. Qed.

(* SEQUENCE / SET: same abstract content (DEFAULT explicit or left out, any assignment order, clone, reads
   in between) -> same value/schema status and the same DER.  [_partial]: the histories are the well-formed
   ones of C19 (len(), prettyPrint() and == with absent members are not part of them) *)
Theorem C04_factor_record_partial : forall cfg isset ops1 ops2, has_req cfg = true ->
  r_wf_hist cfg isset (r_init cfg) ops1 = true -> r_wf_hist cfg isset (r_init cfg) ops2 = true ->
  fst (r_run cfg isset (r_init cfg) ops1) = fst (r_run cfg isset (r_init cfg) ops2) ->
  let s1 := fst (rec_run cfg isset (Some []) ops1) in
  let s2 := fst (rec_run cfg isset (Some []) ops2) in
  rec_isvalue cfg s1 = rec_isvalue cfg s2 /\
  (rec_isvalue cfg s1 = true -> snd (rec_step cfg isset s1 REncode) = snd (rec_step cfg isset s2 REncode)).
Proof. exact factor_record. Qed.
Print Assumptions C04_factor_record_partial.

(* [_partial]: histories outside the class of finding F18a (c_wf) *)
Theorem C04_factor_choice_partial : forall cfg ops1 ops2, no_def cfg = true ->
  c_wf_hist cfg None ops1 = true -> c_wf_hist cfg None ops2 = true ->
  fst (c_run cfg None ops1) = fst (c_run cfg None ops2) ->
  match fst (c_run cfg None ops1) with Some (_, Some _) => True | _ => False end ->
  snd (ch_step cfg (fst (ch_run cfg ch_init ops1)) REncode) = snd (ch_step cfg (fst (ch_run cfg ch_init ops2)) REncode).
Proof. exact factor_choice. Qed.
Print Assumptions C04_factor_choice_partial.

(* any read (encode, iterate, print, compare, getComponentBy*, with or without instantiation) leaves the DER of a
   SEQUENCE/SET value as it was: no exclusion *)
Theorem C04_reads_preserve_der : forall cfg isset s o, has_req cfg = true -> rinv cfg s ->
  rec_reader o = true -> r_isvalue cfg (rabs cfg s) = true ->
  snd (rec_step cfg isset (fst (rec_step cfg isset s o)) REncode) = snd (rec_step cfg isset s REncode).
Proof. exact reads_preserve_der_record. Qed.
Print Assumptions C04_reads_preserve_der.

(* non-vacuity: two different histories (other order, DEFAULT explicit vs left out, a clone, reads) meet
   the hypotheses and yield the same octets *)
Example C04_nonvacuous :
  r_wf_hist cfg4 false (r_init cfg4) C04_ha = true /\ r_wf_hist cfg4 false (r_init cfg4) C04_hb = true /\
  fst (r_run cfg4 false (r_init cfg4) C04_ha) = fst (r_run cfg4 false (r_init cfg4) C04_hb) /\
  fst (rec_run cfg4 false (Some []) C04_ha) <> fst (rec_run cfg4 false (Some []) C04_hb) /\
  snd (rec_step cfg4 false (fst (rec_run cfg4 false (Some []) C04_ha)) REncode) =
    OBytes [48; 6; 2; 1; 1; 130; 1; 2]%N /\
  pad_distinct [[2; 1; 5]; [2; 1; 0]; [2; 2; 1; 0]]%N /\
  sort_setof [[2; 1; 5]; [2; 1; 0]; [2; 2; 1; 0]]%N = [[2; 1; 0]; [2; 1; 5]; [2; 2; 1; 0]]%N.
Proof.
  repeat split; try reflexivity.
  - vm_compute. discriminate.
  - intros a b Ha Hb E. cbn [In] in Ha, Hb.
    destruct Ha as [<-|[<-|[<-|[]]]]; destruct Hb as [<-|[<-|[<-|[]]]]; try reflexivity; vm_compute in E; discriminate.
Qed.

(* ---- (3) the codec-level statement, for every input ---- *)

(* DER bytes are a function of the abstract value: for EVERY type of the universe (any tag stack,
   SEQUENCE, SET, SEQUENCE OF, SET OF, CHOICE, ANY, to any depth) and any two values of it with the same
   abstract content - SET OF members in another order, a DEFAULT given explicitly or left out, text
   or octets, another REAL representation of the same number - the DER encodings are byte-identical.
   c04_val: the value fits the type, decimal REALs are normalised (as the library's constructor does),
   an untagged ANY inside a SET OF is one complete TLV *)
Theorem C04_der_is_a_function_of_the_abstract_value : forall T v1 v2 b1 b2 d k,
  c04_ty all_ty T = true -> c04_val T v1 = true -> c04_val T v2 = true ->
  aval_eqb (abs T v1) (abs T v2) = true ->
  encode DER d k T v1 = Ok b1 -> encode DER d k T v2 = Ok b2 -> b1 = b2.
Proof. exact der_abs_function. Qed.
Print Assumptions C04_der_is_a_function_of_the_abstract_value.

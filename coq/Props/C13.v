(* C13 - Tags on the wire are exactly the type's tags.
   Only statements closed by [exact]; proofs live in Proofs/. *)
From PV Require Import Base.Bytes Model.Tag Model.Types Model.TableTypes Model.Enc Model.Dec Gen.Tables
     Model.Obs Proofs.TagOctets Proofs.TagAlgebra Proofs.Spine Proofs.TagsetShape Proofs.DecFrame Proofs.RoundTrip1 Proofs.TagReject Proofs.RoundTrip3a Proofs.RoundTrip3b Proofs.RoundTrip3e Proofs.TagReject2.
Local Open Scope N_scope.

(* identifier octets round trip for every class, form and number (no bound on the number) *)
Theorem C13_tag_octets : forall (t: tag) (c: bool) (r: bytes),
  dec_ident (enc_tag t c ++ r) = Some (mkTag (tcls t) (tcon t || c) (tnum t), r).
Proof. exact dec_enc_tag. Qed.
Print Assumptions C13_tag_octets.

(* X.690 8.1.2.4: in the long form every octet but the last has bit 8 set, and the first
   subsequent octet is not 0x80 (numbers are encoded in the fewest octets) *)
Theorem C13_long_form_shape : forall n, cont_then_last (b128 n) = true.
Proof. exact b128_shape. Qed.
Print Assumptions C13_long_form_shape.

Theorem C13_long_form_minimal : forall n, 128 <= n -> exists d rest, b128 n = d :: rest /\ d <> 128.
Proof. exact b128_minimal. Qed.
Print Assumptions C13_long_form_minimal.

(* length octets of any size read back exactly *)
Theorem C13_length_octets : forall (n: N) (l r: bytes),
  enc_len n false = Ok l -> dec_len (l ++ r) = Some (Some n, r).
Proof. exact dec_enc_len. Qed.
Print Assumptions C13_length_octets.

(* implicit tagging replaces only the outermost tag and keeps its form *)
Theorem C13_implicit : forall ts last t,
  tag_implicitly (ts ++ [last]) t = ts ++ [mkTag (tcls t) (tcon last) (tnum t)].
Proof. exact tag_implicitly_spec. Qed.
Print Assumptions C13_implicit.

(* explicit tagging adds one constructed tag and refuses the UNIVERSAL class *)
Theorem C13_explicit : forall ts t,
  match tag_explicitly ts t with
  | Ok ts' => tcls t <> Univ /\ ts' = ts ++ [mkTag (tcls t) true (tnum t)]
  | Err e => tcls t = Univ /\ e = EMalformed
  end.
Proof. exact tag_explicitly_spec. Qed.
Print Assumptions C13_explicit.

(* The encoder's framing, whatever the mode: reading the headers of the result from the outside in
   gives the type's tags from outermost to innermost, the constructed bit being that of the tag
   (set for explicit wrappers) or-ed with "the contents are constructed" *)
Theorem C13_spine : forall ts content is_cons o si b,
  frame ts content is_cons o si = Ok b -> b <> [] ->
  spine (length ts) b = map (wire_tag is_cons) (rev ts).
Proof. exact frame_spine. Qed.
Print Assumptions C13_spine.

Example C13_nonvacuous :
  enc_tag (mkTag Priv false 16384) true = [255; 129; 128; 0]
  /\ dec_ident [255; 129; 128; 0; 7] = Some (mkTag Priv true 16384, [7])
  /\ enc_len 65536 false = Ok [131; 1; 0; 0].
Proof. repeat split. Qed.

(* "decoding with that type accepts the encoding", stage 1, for every input: any simple base type under
   any stack of IMPLICIT/EXPLICIT taggings with any class and any number; BER or DER encoder, any
   of the three decoders *)
Theorem C13_accepts_own_stage1 : forall ce cd T v b tl,
  enc_ok ce -> wf_tags T = true -> stage1_val ce cd T v = true ->
  encode ce true 0 T v = Ok b -> N.of_nat (length b) <= index_max ->
  exists v', decode cd (Some T) (b ++ tl) = Ok (DV T v', tl) /\ abs T v' = abs T v.
Proof. exact roundtrip_stage1. Qed.
Print Assumptions C13_accepts_own_stage1.

(* "decoding with a type whose tags differ in class or number at any level rejects it", for every
   input: T any simple type under any stack of taggings, any value the encoder accepts, T' any
   simple type under any taggings whose tag set has the same number of tags and differs somewhere in
   class or number (or has more tags); every decoder refuses with a library error, whatever follows *)
Theorem C13_mismatch_rejected_stage1 : forall ce cd T T' v b tl,
  enc_ok ce -> wf_tags T = true -> wf_tags T' = true -> prim_base T = true -> prim_base T' = true ->
  stage1_val ce cd T v = true -> encode ce true 0 T v = Ok b -> N.of_nat (length b) <= index_max ->
  tags_differ (tagset_of' T) (tagset_of' T') = true ->
  exists e, decode cd (Some T') (b ++ tl) = Err e /\ is_library e = true.
Proof. exact tag_mismatch_rejected_stage1. Qed.
Print Assumptions C13_mismatch_rejected_stage1.

(* tags_differ covers exactly what the property names: same number of tags and a difference, or more tags *)
Theorem C13_tags_differ_same_length : forall ts ts', length ts = length ts' ->
  tagset_eqb ts ts' = false -> tags_differ ts ts' = true.
Proof. exact tags_differ_same_length. Qed.
Print Assumptions C13_tags_differ_same_length.
Theorem C13_tags_differ_longer : forall ts ts', (length ts < length ts')%nat -> tags_differ ts ts' = true.
Proof. exact tags_differ_longer. Qed.
Print Assumptions C13_tags_differ_longer.

(* with a scalar guiding type (BOOLEAN INTEGER ENUMERATED NULL OID REAL), or with the DER decoder and any
   simple guiding type, ANY difference of the tag sets is refused *)
Theorem C13_mismatch_rejected_scalar : forall ce cd T T' v b tl,
  enc_ok ce -> wf_tags T = true -> prim_base T = true -> scalar_base T' = true ->
  encode ce true 0 T v = Ok b ->
  tagset_eqb (tagset_of' T) (tagset_of' T') = false ->
  decode cd (Some T') (b ++ tl) = Err EMalformed.
Proof. exact tag_mismatch_rejected_scalar. Qed.
Print Assumptions C13_mismatch_rejected_scalar.
Theorem C13_mismatch_rejected_der : forall ce T T' v b tl,
  enc_ok ce -> wf_tags T = true -> prim_base T = true -> prim_base T' = true ->
  encode ce true 0 T v = Ok b ->
  tagset_eqb (tagset_of' T) (tagset_of' T') = false ->
  decode DER (Some T') (b ++ tl) = Err EMalformed.
Proof. exact tag_mismatch_rejected_der. Qed.
Print Assumptions C13_mismatch_rejected_der.

(* The case the condition leaves out is genuinely ambiguous in BER: a0 04 04 02 07 08 is both
   [0] EXPLICIT OCTET STRING (primitive inside) and [0] IMPLICIT OCTET STRING in constructed form
   with one segment; the BER and CER decoders accept it under either type, DER refuses the second *)
Example C13_ambiguous_encoding_witness :
  encode BER true 0 (TExp (mkTag Ctx false 0) TOcts) (VOcts [7; 8]) = Ok [160; 4; 4; 2; 7; 8]
  /\ decode BER (Some (TImp (mkTag Ctx false 0) TOcts)) [160; 4; 4; 2; 7; 8]
     = Ok (DV (TImp (mkTag Ctx false 0) TOcts) (VOcts [7; 8]), [])
  /\ decode DER (Some (TImp (mkTag Ctx false 0) TOcts)) [160; 4; 4; 2; 7; 8] = Err EMalformed.
Proof. vm_compute. repeat split. Qed.

(* acceptance with the own type, over the whole universe: every base type (constructed ones included)
   under every stack of taggings *)
Theorem C13_accepts_own_stage3 : forall ce cd T v b tl,
  enc_ok ce -> stage3_ty false ce T = true -> stage3_val ce cd T v = true ->
  encode ce true 0 T v = Ok b -> N.of_nat (length b) <= index_max ->
  exists v', decode cd (Some T) (b ++ tl) = Ok (DV T v', tl) /\ abs T v' = abs T v.
Proof. exact roundtrip_stage3. Qed.
Print Assumptions C13_accepts_own_stage3.

(* Rejection over the whole universe, for every input: T any type with a tag set of its own (constructed
   base types included), ANY value the encoder accepts, T' any type with good keys (an untagged CHOICE is
   refused iff every alternative differs).  tags_differ_u is the exact condition: no key of T' is a
   suffix of T's tags, and - when T is a constructed type under a non-universal tag, which the decoder
   may enter as if it were an EXPLICIT wrapper - T's tags are not a suffix of the key either.  It covers
   what the property names: the same number of tags with a difference in class or number somewhere
   (same_length_differs), and longer tag sets when T cannot be entered. *)
Theorem C13_mismatch_rejected_universe : forall ce cd T T' v b tl,
  enc_ok ce -> wf_tags T = true -> plain_top T = true ->
  encode ce true 0 T v = Ok b ->
  keys_ok (ckeys T') = true ->
  tags_differ_u T T' = true ->
  exists e, decode cd (Some T') (b ++ tl) = Err e /\ is_library e = true.
Proof. exact tag_mismatch_rejected_universe. Qed.
Print Assumptions C13_mismatch_rejected_universe.

Theorem C13_mismatch_rejected_stage3 : forall srt srt' ce ce' cd T T' v b tl,
  enc_ok ce -> stage3_ty srt ce T = true -> plain_top T = true ->
  encode ce true 0 T v = Ok b ->
  stage3_ty srt' ce' T' = true -> T' <> TAny ->
  Forall (fun k => length k = length (tagset_of' T) /\ tagset_eqb (tagset_of' T) k = false) (ckeys T') ->
  exists e, decode cd (Some T') (b ++ tl) = Err e /\ is_library e = true.
Proof. exact tag_mismatch_rejected_stage3. Qed.
Print Assumptions C13_mismatch_rejected_stage3.

(* C20 - Time values convert to and from datetime without changing the instant.
   Only statements closed by [exact]; proofs live in Proofs/Time*.v; the model (Model/Time.v)
   is the code after fixes F11 (offset text of fromDateTime) and F26 (year padding);
   Spec/X680Time.v is the independent X.680 reading.  Text = list of character codes
   (46 '.', 44 ',', 43 '+', 45 '-', 90 'Z', 48 '0'). *)
From PV Require Import Base.Bytes Spec.X680Time Model.Time Gen.Tables.
From PV Require Import Proofs.TimeRoundTrip Proofs.TimeEnc Proofs.TimeWitness.
Local Open Scope N_scope.

(* ------------------------------------------------------------------------------------------
   1. fromDateTime / asDateTime.
   [valid_dt]  = what datetime.datetime guarantees (year 1..9999, real calendar day, offset
                 strictly within +-24h); fields are otherwise unbounded in the statement.
   [in_domain] = the precision the property names: whole milliseconds for GeneralizedTime;
                 whole seconds for UTCTime and a year in 1969..2068, the window in which two
                 year digits are read back as the same year (see C20_utctime_window).
   No restriction on the offset: any whole number of minutes. *)

Theorem C20_roundtrip : forall k d, valid_dt d = true -> in_domain k d = true ->
  exists d', as_dt k (from_dt k d) = Ok d'
             /\ dt_instant d' = dt_instant d /\ dt_offset d' = dt_offset d
             /\ off d' = Some (dt_offset d).
Proof. exact roundtrip. Qed.
Print Assumptions C20_roundtrip.

(* the same, field by field: what comes back is the datetime itself, naive taken as UTC *)
Theorem C20_roundtrip_fields : forall k d, valid_dt d = true -> in_domain k d = true ->
  as_dt k (from_dt k d) = Ok (norm_dt k d).
Proof. exact as_dt_from_dt. Qed.
Print Assumptions C20_roundtrip_fields.

Example C20_roundtrip_nonvacuous :
  let d := mkDT 2016 2 29 23 59 59 999000 (Some (-330)%Z) in
  valid_dt d = true /\ in_domain GenT d = true
  /\ from_dt GenT d = [50;48;49;54;48;50;50;57;50;51;53;57;53;57;46;57;57;57;45;48;53;51;48]
  /\ as_dt GenT (from_dt GenT d) = Ok d
  /\ in_domain UtcT (mkDT 2049 12 31 23 59 59 0 (Some 840%Z)) = true
  /\ from_dt UtcT (mkDT 2049 12 31 23 59 59 0 None) = [52;57;49;50;51;49;50;51;53;57;53;57;90].
Proof. repeat split. Qed.

(* The statement is in its full form [roundtrip_full from_dt]; it is the code BEFORE fix F11
   that does not satisfy it (finding F11; offsets other than none / zero / positive whole hours): *)
Theorem C20_roundtrip_full : roundtrip_full from_dt.
Proof. exact roundtrip_full_holds. Qed.
Print Assumptions C20_roundtrip_full.

Theorem C20_roundtrip_refuted_unfixed_F11 : ~ roundtrip_full from_dt_unfixed.
Proof. exact roundtrip_unfixed_refuted. Qed.
Print Assumptions C20_roundtrip_refuted_unfixed_F11.

(* negative offset: '-01:00' was written '+2300'; offset and instant both change *)
Theorem C20_roundtrip_refuted_unfixed_negative :
  exists d d', valid_dt d = true /\ in_domain GenT d = true
    /\ as_dt GenT (from_dt_unfixed GenT d) = Ok d' /\ off d' <> Some (dt_offset d)
    /\ dt_instant d' <> dt_instant d.
Proof. exact roundtrip_unfixed_refuted_negative. Qed.
Print Assumptions C20_roundtrip_refuted_unfixed_negative.

(* offset not a whole number of hours: '+01:30' was written '+011800' and is refused *)
Theorem C20_roundtrip_refuted_unfixed_half_hour :
  valid_dt w_half = true /\ in_domain UtcT (mkDT 2017 7 11 0 1 2 0 (Some 90%Z)) = true
  /\ f11_free (off w_half) = false
  /\ from_dt_unfixed GenT w_half = [50;48;49;55;48;55;49;49;48;48;48;49;48;50;46;51;43;48;49;49;56;48;48]
  /\ as_dt GenT (from_dt_unfixed GenT w_half) = Err EMalformed
  /\ as_dt UtcT (from_dt_unfixed UtcT (mkDT 2017 7 11 0 1 2 0 (Some 90%Z))) = Err EMalformed.
Proof. exact unfixed_half_hour_offset. Qed.
Print Assumptions C20_roundtrip_refuted_unfixed_half_hour.

(* why UTCTime is claimed on 1969..2068 only: 1950 comes back as 2050 *)
Theorem C20_utctime_window :
  exists d d', valid_dt d = true /\ us d = 0 /\ yr d = 1950
    /\ as_dt UtcT (from_dt UtcT d) = Ok d' /\ yr d' = 2050.
Proof. exact utctime_outside_window. Qed.
Print Assumptions C20_utctime_window.

(* ------------------------------------------------------------------------------------------
   2. CER / DER TimeEncoderMixIn.encodeValue = [time_enc MIN_LENGTH MAX_LENGTH], for any limits.
   Full statement: [canonical_full] = every accepted string that X.680 gives an instant to comes
   out canonical and denoting the same instant.  It is FALSE of the code (F12 pinned by
   tests/codec/cer/test_encoder.py testWithSubsecondsWithZeros, F27 same loop): *)

Theorem C20_canonical_refuted : ~ canonical_full.
Proof. exact canonical_full_refuted. Qed.
Print Assumptions C20_canonical_refuted.

(* F12: a significant zero among the first four characters after the dot is deleted *)
Theorem C20_canonical_refuted_F12 :
  time_enc 12 20 w_f12 = Ok w_f12_out            (* '20170801120112.099Z' -> '20170801120112.99Z' *)
  /\ zeros_only_trailing 4 (frac_of w_f12) = false
  /\ canonical w_f12_out = true
  /\ exists i, instant GenT w_f12 = Some i /\ instant GenT w_f12_out <> Some i.
Proof. exact f12_witness. Qed.
Print Assumptions C20_canonical_refuted_F12.

(* F27: a trailing zero beyond the fourth character after the dot survives *)
Theorem C20_canonical_refuted_F27 :
  time_enc 12 20 w_f27 = Ok w_f27                 (* '201708011201.12340Z' emitted as it is *)
  /\ no_far_trailing_zero (frac_of w_f27) = false
  /\ canonical w_f27 = false
  /\ instant GenT w_f27 <> None.
Proof. exact f27_witness. Qed.
Print Assumptions C20_canonical_refuted_F27.

(* What is proved: [canonical_full] with exactly the two finding classes excluded, each only
   from the conclusion it breaks.  [frac_of s] = the digits between the first '.' and the Z.
   Missing with respect to the full statement: fractions with a zero among the first four
   digits that is followed by a non-zero digit (same instant, F12); fractions longer than four
   digits that end in '0' (canonical, F27). *)
Theorem C20_canonical_partial : forall a b tt s s' i,
  time_enc a b s = Ok s' -> instant tt s = Some i ->
  (has 46 s = true -> no_far_trailing_zero (frac_of s) = true -> canonical s' = true)
  /\ (has 46 s = true -> zeros_only_trailing 4 (frac_of s) = true -> instant tt s' = Some i)
  /\ (has 46 s = false -> s' = s /\ canonical s' = true).
Proof. exact accepted_canonical_same_instant. Qed.
Print Assumptions C20_canonical_partial.

(* the same for every string  digits '.' digits 'Z', whether or not X.680 gives it an instant *)
Theorem C20_canonical_digits_partial : forall a b pre frac s',
  all_digits pre = true -> all_digits frac = true ->
  time_enc a b (pre ++ 46 :: frac ++ [90]) = Ok s' ->
  no_far_trailing_zero frac = true -> canonical s' = true.
Proof. exact canonical_output. Qed.
Print Assumptions C20_canonical_digits_partial.

Theorem C20_same_instant_digits_partial : forall a b tt pre frac s' i,
  all_digits pre = true -> all_digits frac = true ->
  time_enc a b (pre ++ 46 :: frac ++ [90]) = Ok s' ->
  zeros_only_trailing 4 frac = true ->
  instant tt (pre ++ 46 :: frac ++ [90]) = Some i -> instant tt s' = Some i.
Proof. exact same_instant. Qed.
Print Assumptions C20_same_instant_digits_partial.

Example C20_canonical_nonvacuous :
  (* '20170801120112.5900Z' -> '20170801120112.59Z', same instant; '2017080112.5Z' = 12:30 *)
  let s := [50;48;49;55;48;56;48;49;49;50;48;49;49;50;46;53;57;48;48;90] in
  let s' := [50;48;49;55;48;56;48;49;49;50;48;49;49;50;46;53;57;90] in
  time_enc 12 20 s = Ok s' /\ has 46 s = true
  /\ no_far_trailing_zero (frac_of s) = true /\ zeros_only_trailing 4 (frac_of s) = true
  /\ canonical s' = true /\ canonical s = false
  /\ instant GenT s <> None /\ instant GenT s = instant GenT s'
  /\ instant GenT [50;48;49;55;48;56;48;49;49;50;46;53;90]
     = instant GenT [50;48;49;55;48;56;48;49;49;50;51;48;90]
  /\ time_enc 12 20 [50;48;49;55;48;56;48;49;49;50;48;49;49;50;46;48;48;48;90]
     = Ok [50;48;49;55;48;56;48;49;49;50;48;49;49;50;90].
Proof. repeat split; vm_compute; try reflexivity; discriminate. Qed.

(* ------------------------------------------------------------------------------------------
   3. Values that are not in UTC are refused: a '+' or '-' anywhere, or no final 'Z'
      (the empty string escapes as IndexError from numbers[-1] rather than as a library error). *)
Theorem C20_refuses_non_utc : forall a b s, non_utc s = true ->
  time_enc a b s = Err (match s with [] => ECrash IndexError | _ => EMalformed end).
Proof. exact refuses_non_utc. Qed.
Print Assumptions C20_refuses_non_utc.

(* ... in particular with the limits found in the regenerated CER and DER tables *)
Theorem C20_refuses_non_utc_tables : forall tbl k s, In tbl time_tables -> non_utc s = true ->
  time_enc_tbl tbl k s = Err (match s with [] => ECrash IndexError | _ => EMalformed end).
Proof. exact tables_refuse_non_utc. Qed.
Print Assumptions C20_refuses_non_utc_tables.

Theorem C20_table_limits :
  time_limits cer_enc_tag_map GenT = Some (12, 20) /\ time_limits cer_enc_tag_map UtcT = Some (10, 14)
  /\ time_limits der_enc_tag_map GenT = Some (12, 20) /\ time_limits der_enc_tag_map UtcT = Some (10, 14)
  /\ time_limits cer_enc_type_map GenT = Some (12, 20) /\ time_limits cer_enc_type_map UtcT = Some (10, 14)
  /\ time_limits der_enc_type_map GenT = Some (12, 20) /\ time_limits der_enc_type_map UtcT = Some (10, 14).
Proof. exact table_limits. Qed.
Print Assumptions C20_table_limits.

Example C20_refuses_nonvacuous :
  (* '20150501120112.1+0200', '20150501120112.1' (local), '150501120112-0100' *)
  non_utc [50;48;49;53;48;53;48;49;49;50;48;49;49;50;46;49;43;48;50;48;48] = true
  /\ time_enc_tbl cer_enc_tag_map GenT [50;48;49;53;48;53;48;49;49;50;48;49;49;50;46;49;43;48;50;48;48] = Err EMalformed
  /\ time_enc_tbl der_enc_tag_map GenT [50;48;49;53;48;53;48;49;49;50;48;49;49;50;46;49] = Err EMalformed
  /\ time_enc_tbl der_enc_tag_map UtcT [49;53;48;53;48;49;49;50;48;49;49;50;45;48;49;48;48] = Err EMalformed
  /\ time_enc_tbl cer_enc_tag_map UtcT [57;57;48;56;48;49;49;50;48;49;49;50;90] = Ok [57;57;48;56;48;49;49;50;48;49;49;50;90].
Proof. repeat split. Qed.

(* ------------------------------------------------------------------------------------------
   Recorded, not claimed by C20: fromDateTime writes 5 ms as '.5' (pinned by
   tests/type/test_useful.py) and asDateTime reads it back as 5 ms, so the round trip holds,
   but X.680 reads that text as half a second. *)
Theorem C20_millisecond_convention_note :
  let d := mkDT 2017 7 11 0 1 2 5000 (Some 0%Z) in
  from_dt GenT d = [50;48;49;55;48;55;49;49;48;48;48;49;48;50;46;53;90]
  /\ instant GenT (from_dt GenT d)
     = instant GenT [50;48;49;55;48;55;49;49;48;48;48;49;48;50;46;53;48;48;90].
Proof. exact millisecond_convention. Qed.
Print Assumptions C20_millisecond_convention_note.

(* C12 - Codec calls are pure: no effect on schemas, inputs, configuration or each other.
   Only statements closed by [exact]; proofs in Proofs/ContainerCodec.v.

   What the model can say.  (i) Encoding is an operation (REncode / SEncode) of the container model
   (Model/Container.v: the encoder's reads - since upstream fix d774dc2 OPTIONAL/DEFAULT slots are asked for
   without instantiation, only an unset REQUIRED slot is instantiated): it leaves abstract content, later
   encodings and comparisons as they were.  (ii) k suspended streaming decoders are independent step machines:
   under any interleaving each ends where it ends alone.  (iii) The model's codec functions are Gallina functions:
   determinism and independence of any earlier call are intrinsic.
   PARTIAL (carried by the harness only, on sampled schedules): threads, debug logging, the module-level
   singletons, aliasing between a decoded result and the guiding type object. *)
From PV Require Import Spec.ListSpec Model.Proc Model.Enc Model.Dec Proofs.ContainerCodecDefs Proofs.ContainerCodec.
Local Open Scope nat_scope.

(* SEQUENCE / SET *)
Theorem C12_encode_preserves_record : forall cfg isset s, has_req cfg = true -> rinv cfg s ->
  let s' := fst (rec_step cfg isset s REncode) in
  rinv cfg s' /\ rabs cfg s' = rabs cfg s /\ rec_isvalue cfg s' = rec_isvalue cfg s /\
  (r_isvalue cfg (rabs cfg s) = true -> snd (rec_step cfg isset s' REncode) = snd (rec_step cfg isset s REncode)) /\
  (forall l, all_explicit cfg (rabs cfg s) = true -> snd (rec_step cfg isset s' (REq l)) = snd (rec_step cfg isset s (REq l))).
Proof. exact encode_preserves_record. Qed.
Print Assumptions C12_encode_preserves_record.

(* SEQUENCE OF / SET OF value objects (list-like states): encoding changes nothing at all, and neither does any
   read outside the class of F18d *)
Theorem C12_encode_preserves_seqof : forall ct isset a o, is_some a = true ->
  fst (sof_step ct isset (conc a) SEncode) = conc a /\
  (sof_reader o = true -> f18d ct a o = false ->
   snd (sof_step ct isset (fst (sof_step ct isset (conc a) o)) SEncode) = snd (sof_step ct isset (conc a) SEncode)).
Proof. exact encode_preserves_seqof. Qed.
Print Assumptions C12_encode_preserves_seqof.

(* CHOICE: the state is untouched, whatever it is *)
Theorem C12_encode_preserves_choice : forall cfg s, fst (ch_step cfg s REncode) = s.
Proof. exact encode_preserves_choice. Qed.
Print Assumptions C12_encode_preserves_choice.

(* k independent machines under an arbitrary interleaving w of (machine, event) moves *)
Theorem C12_interleave : forall (St Ev: Type) (step: St -> Ev -> St) (w: list (nat * Ev)) (ss: list St) i s,
  nth_error ss i = Some s ->
  nth_error (prun step ss w) i = Some (fold_left step (proj i w) s).
Proof. exact (@interleave). Qed.
Print Assumptions C12_interleave.

(* ... instantiated with suspended decoders: state = continuation and stream (or the result), a move = an
   environment event (data arrives, end of input, empty poll) followed by resumption *)
Theorem C12_interleave_decoders : forall (A: Type) (w: list (nat * envev)) (ds: list (dstate A)) i d,
  nth_error ds i = Some d ->
  nth_error (prun dstep ds w) i = Some (fold_left dstep (proj i w) d).
Proof. exact (@interleave_decoders). Qed.
Print Assumptions C12_interleave_decoders.

Theorem C12_deterministic : forall c1 c2 d1 d2 k1 k2 T1 T2 v1 v2 b1 b2,
  c1 = c2 -> d1 = d2 -> k1 = k2 -> T1 = T2 -> v1 = v2 -> b1 = b2 ->
  encode c1 d1 k1 T1 v1 = encode c2 d2 k2 T2 v2 /\ decode c1 (Some T1) b1 = decode c2 (Some T2) b2.
Proof. exact model_deterministic. Qed.
Print Assumptions C12_deterministic.

(* non-vacuity: three decoders of two-octet items fed in an interleaving; an encode in the middle of a history *)
Example C12_nonvacuous :
  let d0 : dstate bytes := resume C12_two (mkStream [] 0 false 0) in
  prun dstep [d0; d0; d0] C12_w =
    [inr (Ok [5; 6]%N, mkStream [5; 6]%N 2 false 0); inr (Ok [7; 8]%N, mkStream [7; 8]%N 2 false 0);
     inr (Ok [1; 2]%N, mkStream [1; 2; 3]%N 2 false 0)] /\
  proj 0 C12_w = [Arrive [5]%N; Arrive [6]%N] /\
  has_req cfg4 = true /\ rinv cfg4 (Some []) /\
  fst (rec_step cfg4 false (Some []) REncode) = Some [Some CSchema; None; None; None].
Proof. repeat split; try reflexivity. left; reflexivity. intros k d _; destruct k; discriminate. Qed.

(* C06 - truncated input is reported as insufficient data at every cut point.  Statements only. *)
From PV Require Import Base.Bytes Model.Proc Model.Types Model.Enc Model.Dec Proofs.ProcSim Proofs.DecStream Proofs.TableFacts
     Model.TableTypes Gen.Tables Proofs.RoundTrip1 Proofs.RoundTrip2 Proofs.StreamStage2 Proofs.RoundTrip3b Proofs.RoundTripModesC Proofs.RoundTripModes
     Proofs.StreamClean Proofs.StreamStage3.
Local Open Scope nat_scope.

(* Generic: a decoder that never looks at the end of its input, and that decodes e completely,
   treats every proper prefix of e on a closed stream as the end-of-stream error (never a value,
   never "malformed"), and on a still-open stream suspends on an underrun *)
Theorem C06_prefix_closed : forall (A: Type) (p: proc A) e k q a s',
  clean p -> k < length e -> q <= k ->
  resume p (mkStream e q true 0) = inr (Ok a, s') -> k < pos s' ->
  exists s1, resume p (mkStream (firstn k e) q true 0) = inr (Err EEndOfStream, s1).
Proof. intros A p e k q a s' Hc. exact (prefix_closed_eos p Hc e k q a s'). Qed.
Print Assumptions C06_prefix_closed.

Theorem C06_prefix_open : forall (A: Type) (p: proc A) e k q a s',
  clean p -> k < length e -> q <= k ->
  resume p (mkStream e q true 0) = inr (Ok a, s') -> k < pos s' ->
  exists p' s1, resume p (mkStream (firstn k e) q false 0) = inl (p', s1).
Proof. intros A p e k q a s' Hc. exact (prefix_insufficient_open p Hc e k q a s'). Qed.
Print Assumptions C06_prefix_open.

(* The model of the decoders, any codec, fuel and guiding type: if the complete run on e never
   touches a primitive that observes the end of the input and consumes more than k octets, the run
   on e[:k] is the end-of-stream error (one-shot decoding of bytes: the insufficient-data error,
   of which EndOfStreamError is a subclass) *)
Theorem C06_decoder_prefix : forall c fuel sp e k d s',
  k < length e ->
  resume (guard EUnclean (dec_item c fuel sp)) (mkStream e 0 true 0) = inr (Ok d, s') -> k < pos s' ->
  decode_with c fuel sp (firstn k e) = Err EEndOfStream
  /\ exists p' s1, resume (dec_item c fuel sp) (mkStream (firstn k e) 0 false 0) = inl (p', s1).
Proof. exact decoder_prefix. Qed.
Print Assumptions C06_decoder_prefix.

(* the library's exception lattice, regenerated from /repo: the end-of-stream error is an
   insufficient-data error, which is a library error *)
Theorem C06_error_lattice :
  exc_sub XEndOfStreamError XSubstrateUnderrunError = true
  /\ exc_sub XSubstrateUnderrunError XPyAsn1Error = true.
Proof. exact error_lattice_facts. Qed.
Print Assumptions C06_error_lattice.

Example C06_nonvacuous :
  decode_with BER 20 (Some TInt) [2%N; 2%N; 1%N; 5%N] = Ok (DV TInt (VInt 261), [])
  /\ decode_with BER 20 (Some TInt) [2%N; 2%N; 1%N] = Err EEndOfStream.
Proof. split; vm_compute; reflexivity. Qed.

(* Unconditional, for every input: every strict prefix of the encoding of any stage-2 value is reported as
   insufficient data - end-of-stream on a closed input, a suspension asking for more octets than are
   there on an open one - at EVERY cut point *)
Theorem C06_stage2_every_cut : forall T v b fuel k,
  stage2_ty T = true -> stage2_val T v = true ->
  encode BER true 0 T v = Ok b -> (N.of_nat (length b) <= index_max)%N ->
  (length b + ty_depth T <= fuel)%nat -> (k < length b)%nat ->
  decode_with BER fuel (Some T) (firstn k b) = Err EEndOfStream
  /\ exists n kont s1, resume (dec_item BER fuel (Some T)) (mkStream (firstn k b) 0 false 0) = inl (ReadN n kont, s1)
                       /\ (length (avail s1) < n)%nat.
Proof. exact c06_stage2_prefix. Qed.
Print Assumptions C06_stage2_every_cut.

Example C06_stage2_every_cut_nonvacuous :
  forallb (fun k => match decode_with BER 60 (Some stage2_example_ty) (firstn k stage2_example_enc) with
                    | Err EEndOfStream => true | _ => false end
                    && match resume (dec_item BER 60 (Some stage2_example_ty)) (mkStream (firstn k stage2_example_enc) 0 false 0) with
                       | inl (ReadN _ _, _) => true | _ => false end) (seq 0 50) = true.
Proof. exact c06_example. Qed.

(* The general fact behind all instances: EVERY run of the item decoder that consumes an encoding - any
   codec, any fuel, any guiding type or none, any flags - is a run that never looks at the end of the
   input; hence every round-trip theorem yields the truncation theorem for free *)
Theorem C06_every_consuming_run_is_clean : forall c f sp acc rs ae sfun bs v, bs <> [] ->
  DecFrame.consumes (dec_call c f sp acc rs ae sfun) bs v -> consumes_clean (dec_call c f sp acc rs ae sfun) bs v.
Proof. exact consumes_clean_dec_call. Qed.
Print Assumptions C06_every_consuming_run_is_clean.

(* The whole universe (every type constructor), definite mode, encoder BER or DER, decoder BER/CER/DER:
   every strict prefix, at every cut point, is insufficient data *)
Theorem C06_stage3_every_cut : forall ce cd srt T v b fuel k,
  enc_ok ce -> stage3_ty srt ce T = true -> stage3_val ce cd T v = true ->
  encode ce true 0 T v = Ok b -> (N.of_nat (length b) <= index_max)%N ->
  (length b + ty_depth T <= fuel)%nat -> (k < length b)%nat ->
  decode_with cd fuel (Some T) (firstn k b) = Err EEndOfStream
  /\ exists n kont s1, resume (dec_item cd fuel (Some T)) (mkStream (firstn k b) 0 false 0) = inl (ReadN n kont, s1)
                       /\ (length (avail s1) < n)%nat.
Proof. exact c06_stage3. Qed.
Print Assumptions C06_stage3_every_cut.

(* Indefinite-length mode (where the decoder looks ahead for 00 00 at every step) and the CER encoder:
   every cut point, including those inside an end-of-octets marker *)
Theorem C06_indefinite_every_cut : forall cd chunk T v b fuel k,
  dec_ok cd -> stage2_ty T = true -> RoundTripModes.no_f01 T = true -> modes_val BER cd T v = true ->
  encode BER false chunk T v = Ok b -> (N.of_nat (length b) <= index_max)%N ->
  (length b + ty_depth T <= fuel)%nat -> (k < length b)%nat ->
  decode_with cd fuel (Some T) (firstn k b) = Err EEndOfStream
  /\ exists n kont s1, resume (dec_item cd fuel (Some T)) (mkStream (firstn k b) 0 false 0) = inl (ReadN n kont, s1)
                       /\ (length (avail s1) < n)%nat.
Proof. exact c06_indefinite. Qed.
Print Assumptions C06_indefinite_every_cut.

Theorem C06_cer_every_cut : forall cd d k0 T v b fuel k,
  dec_ok cd -> stage2_ty T = true -> RoundTripModes.no_f01 T = true -> modes_val CER cd T v = true ->
  encode CER d k0 T v = Ok b -> (N.of_nat (length b) <= index_max)%N ->
  (length b + ty_depth T <= fuel)%nat -> (k < length b)%nat ->
  decode_with cd fuel (Some T) (firstn k b) = Err EEndOfStream
  /\ exists n kont s1, resume (dec_item cd fuel (Some T)) (mkStream (firstn k b) 0 false 0) = inl (ReadN n kont, s1)
                       /\ (length (avail s1) < n)%nat.
Proof. exact c06_cer_encoder. Qed.
Print Assumptions C06_cer_every_cut.

(* The set a constraint expression stands for, written as plain set theory.
   Independent of the evaluator in Model/Constraint.v: from that file only the *syntax* of
   constraints and values is used (constr, sval, cval); no test function of the model occurs.
   Equality of values here is Leibniz equality.

   Meaning taken for each class (the class docstrings of pyasn1/type/constraint.py, which for
   the element sets follow X.680 clause 51):
     SingleValueConstraint(v1..vn)         { v1, .., vn }
     ValueRangeConstraint(lo, hi)          { z integer | lo <= z <= hi }
     ValueSizeConstraint(lo, hi)           { x | lo <= size x <= hi }   size = number of octets,
                                           characters, bits, arcs, elements
     PermittedAlphabetConstraint(a1..an)   { strings all of whose characters are among a1..an }
     ComponentPresentConstraint()          everything but "absent"
     ComponentAbsentConstraint()           { absent }
     WithComponentsConstraint((f, c)..)    { records r | for every listed field f: r.f is in [c] }
     ConstraintsIntersection(c1..cn)       [c1] intersected with .. [cn]
     ConstraintsUnion(c1..cn)              [c1] united with .. [cn]
     ConstraintsExclusion(c1..cn)          complement of ([c1] united with .. [cn]): the docstring
                                           says "succeeds when the value does *not* satisfy the
                                           operand constraint"; with several operands: none of them
     ContainedSubtypeConstraint(cs, vs)    "present in the set of permitted values and also
                                           satisfies included constraints": all of cs, and
                                           (when plain values are given) one of vs
     InnerTypeConstraint                   single-type form: [c]; multiple-type form: the entry
                                           listed for the position, which must not be ABSENT
   An operand list is never empty in an expression ASN.1 can write; pyasn1 reads an empty list
   as "no constraint" (that is what the default subtypeSpec is), set theory reads an empty union
   or an empty value list as the empty set: [wf] keeps to non-empty lists, and
   Props/C14.v states the difference as a theorem. *)
From PV Require Import Model.Constraint.
Local Open Scope Z_scope.

Definition sval_eq_dec (a b: sval) : {a = b} + {a <> b}.
Proof. repeat decide equality. Defined.

Inductive has_size : cval -> Z -> Prop :=
| size_octets b : has_size (VS (SBytes b)) (Z.of_nat (length b))
| size_chars s : has_size (VS (SText s)) (Z.of_nat (length s))
| size_arcs a : has_size (VS (SOid a)) (Z.of_nat (length a))
| size_bits n z : has_size (VS (SBits n z)) (Z.of_N n)
| size_elements m : has_size (VMap m) (Z.of_nat (length m)).

(* the characters (octets, arcs) a string value is made of *)
Inductive made_of : cval -> list sval -> Prop :=
| chars_of_text s : made_of (VS (SText s)) (map (fun ch => SText [ch]) s)
| octets_of_bytes b : made_of (VS (SBytes b)) (map (fun o => SInt (Z.of_N o)) b)
| arcs_of_oid a : made_of (VS (SOid a)) (map (fun o => SInt (Z.of_N o)) a).

(* the component of record [m] called [f]; VNone when absent *)
Definition component (m: list (sval * sval)) (f: sval) : cval :=
  match find (fun kv => if sval_eq_dec f (fst kv) then true else false) m with
  | Some kv => VS (snd kv)
  | None => VNone
  end.

Definition status_absent : sval := SText [65%N; 66%N; 83%N; 69%N; 78%N; 84%N].

Fixpoint denote (c: constr) (idx: option sval) (x: cval) {struct c} : Prop :=
  match c with
  | CSingle vs => exists s, x = VS s /\ In s vs
  | CContained pre plain post =>
      (fix all (l: list constr) : Prop :=
         match l with [] => True | c' :: r => denote c' idx x /\ all r end) pre
      /\ (fix all (l: list constr) : Prop :=
            match l with [] => True | c' :: r => denote c' idx x /\ all r end) post
      /\ (plain = [] \/ exists s, x = VS s /\ In s plain)
  | CRange lo hi => exists z, x = VS (SInt z) /\ lo <= z <= hi
  | CSize lo hi => exists n, has_size x n /\ lo <= n <= hi
  | CAlpha vs => exists es, made_of x es /\ forall e, In e es -> In e vs
  | CPresent => x <> VNone
  | CAbsent => x = VNone
  | CWith fields =>
      exists m, x = VMap m /\
        (fix all (l: list (sval * constr)) : Prop :=
           match l with
           | [] => True
           | (f, c') :: r => denote c' None (component m f) /\ all r
           end) fields
  | CInner args =>
      match (fix go (l: list (option (sval * sval) * constr)) (acc: option Prop) : option Prop :=
               match l with
               | [] => acc
               | (None, c') :: r => go r (Some (denote c' None x))
               | (Some _, _) :: r => go r acc
               end) args None with
      | Some P => P                                      (* single-type form: the last one given *)
      | None =>
          match idx with
          | None => False
          | Some i =>
              (fix go (l: list (option (sval * sval) * constr)) (acc: Prop) : Prop :=
                 match l with
                 | [] => acc
                 | (Some (k, st), c') :: r =>
                     go r (if sval_eq_dec i k then st <> status_absent /\ denote c' None x else acc)
                 | (None, _) :: r => go r acc
                 end) args False
          end
      end
  | CAnd cs =>
      (fix all (l: list constr) : Prop :=
         match l with [] => True | c' :: r => denote c' idx x /\ all r end) cs
  | COr cs =>
      (fix any (l: list constr) : Prop :=
         match l with [] => False | c' :: r => denote c' idx x \/ any r end) cs
  | CExcl cs =>
      (fix none (l: list constr) : Prop :=
         match l with [] => True | c' :: r => ~ denote c' idx x /\ none r end) cs
  end.

(* ---- the expressions and applications the property speaks about ---- *)

Definition nonbits (s: sval) : bool := match s with SBits _ _ => false | _ => true end.

(* well-formed expression: no empty operand or value list, ranges not reversed (the constructors
   refuse those), listed constants and field names are not bit strings *)
Fixpoint wf (c: constr) : bool :=
  match c with
  | CSingle vs | CAlpha vs => nonnil vs && forallb nonbits vs
  | CContained pre plain post =>
      (nonnil pre || nonnil plain || nonnil post) && forallb nonbits plain
      && (nonnil plain || negb (nonnil post))     (* [post] only exists after a plain value *)
      && (fix all (l: list constr) : bool :=
            match l with [] => true | c' :: r => wf c' && all r end) pre
      && (fix all (l: list constr) : bool :=
            match l with [] => true | c' :: r => wf c' && all r end) post
  | CRange lo hi | CSize lo hi => lo <=? hi
  | CPresent | CAbsent => true
  | CWith fields =>
      nonnil fields
      && (fix all (l: list (sval * constr)) : bool :=
            match l with [] => true | (f, c') :: r => nonbits f && wf c' && all r end) fields
  | CInner args =>
      nonnil args
      && (fix all (l: list (option (sval * sval) * constr)) : bool :=
            match l with
            | [] => true
            | (None, c') :: r => wf c' && all r
            | (Some (k, _), c') :: r => nonbits k && wf c' && all r
            end) args
  | CAnd cs | COr cs | CExcl cs =>
      nonnil cs
      && (fix all (l: list constr) : bool :=
            match l with [] => true | c' :: r => wf c' && all r end) cs
  end.

Definition opt_nonbits (i: option sval) : bool :=
  match i with Some s => nonbits s | None => true end.

(* the constraint is applicable to the value (X.680 table 9 / the "can be applied to" notes of
   the class docstrings): single values to scalars, ranges to integers, sizes to things that have
   a size, alphabets to strings, WITH COMPONENTS to records whose listed fields again fit, a
   contained subtype without the plain-value operands; a bit string only meets size constraints.
   Every operand has to be applicable, also those a lazy evaluation would not reach. *)
Fixpoint typed (c: constr) (idx: option sval) (x: cval) {struct c} : bool :=
  match c with
  | CSingle _ => match x with VS (SBits _ _) | VMap _ => false | _ => true end
  | CContained pre plain post =>
      match plain with [] => true | _ :: _ => false end
      && (fix all (l: list constr) : bool :=
            match l with [] => true | c' :: r => typed c' idx x && all r end) pre
      && (fix all (l: list constr) : bool :=
            match l with [] => true | c' :: r => typed c' idx x && all r end) post
  | CRange _ _ => match x with VS (SInt _) => true | _ => false end
  | CSize _ _ => match x with VS (SInt _) | VNone => false | _ => true end
  | CAlpha _ => match x with VS (SBytes _) | VS (SText _) | VS (SOid _) => true | _ => false end
  | CPresent => true
  | CAbsent => match x with VS (SOid _) => false | _ => true end   (* presence is about components *)
  | CWith fields =>
      match x with
      | VMap m =>
          forallb (fun kv => nonbits (fst kv)) m
          && (fix all (l: list (sval * constr)) : bool :=
                match l with
                | [] => true
                | (f, c') :: r => typed c' None (component m f) && all r
                end) fields
      | _ => false
      end
  | CInner args =>
      opt_nonbits idx
      && (fix all (l: list (option (sval * sval) * constr)) : bool :=
            match l with [] => true | (_, c') :: r => typed c' None x && all r end) args
  | CAnd cs | COr cs | CExcl cs =>
      (fix all (l: list constr) : bool :=
         match l with [] => true | c' :: r => typed c' idx x && all r end) cs
  end.

(* ---- derivation of types by adding constraints ---- *)

(* child is obtained from parent by zero or more subtype() steps, each adding a constraint
   and / or an explicit tag (implicit tagging replaces the tag: a different question) *)
Inductive derives : stype -> stype -> Prop :=
| derives_refl T : derives T T
| derives_step T T1 T2 tg new :
    derives T T1 ->
    (tg = NoTag \/ exists t, tg = ExplicitTag t) ->
    subtype_step T1 tg new = Ok T2 ->
    derives T T2.

(* the same with any tagging: what the subset statement needs *)
Inductive derives_any : stype -> stype -> Prop :=
| derives_any_refl T : derives_any T T
| derives_any_step T T1 T2 tg new :
    derives_any T T1 -> subtype_step T1 tg new = Ok T2 -> derives_any T T2.

Definition admits (T: stype) (x: cval) : Prop := denote (sp_constr (st_spec T)) None x.

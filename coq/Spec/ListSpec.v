(* The Python prototypes the container objects are meant to duck-type, as trivially simple
   specifications: a plain list (SEQUENCE OF / SET OF), a plain finite map from the declared
   names to values (SEQUENCE / SET), an optional (alternative, value) pair (CHOICE).
   They speak the operation and outcome vocabulary of Model/Container.v and use its DER of an
   INTEGER component, nothing else of it.  Definitions only. *)
From PV Require Export Base.Bytes Model.Tag Model.Container.
Local Open Scope nat_scope.

Definition pv_z (v: pyval) : option Z :=
  match v with PInt z | PAsn z => Some z | _ => None end.
Fixpoint pvs_z (vs: list pyval) : option (list Z) :=
  match vs with
  | [] => Some []
  | v :: r => match pv_z v, pvs_z r with Some z, Some zs => Some (z :: zs) | _, _ => None end
  end.
Definition vslot (z: Z) : slot := Some (CVal z).
Definition oslot (z: option Z) : slot := option_map CVal z.

(* ------------------------------------------------------------------------------------------ *)
(* a Python list; None = the object is not a value yet (a schema object)                      *)

Definition lspec := option (list Z).
Definition lst (a: lspec) : list Z := match a with None => [] | Some l => l end.

Fixpoint index_of (z: Z) (l: list Z) (i: nat) : option nat :=
  match l with [] => None | x :: r => if Z.eqb x z then Some i else index_of z r (S i) end.
Definition count_of (z: Z) (l: list Z) : nat := length (filter (fun x => Z.eqb x z) l).
Definition l_der (isset: bool) (l: list Z) : res bytes := of_der isset (map (int_tlv tag_integer) l).

Definition l_step (isset: bool) (a: lspec) (o: sop) : lspec * out :=
  let l := lst a in
  let n := length l in
  match o with
  | SSetItem i v | SSetPos i (Some v) =>
      match pv_z v, norm_idx i n with
      | Some z, Some k => (Some (if Nat.ltb k n then set_nth k z l else l ++ [z]), ORet)   (* l[k] = z, or append at k = len *)
      | _, _ => (a, ORet)
      end
  | SSetPos _ None => (a, ORet)
  | SSetSlice lo hi vs =>                                              (* l[lo:hi] = vs *)
      match pvs_z vs with
      | Some zs => (Some (firstn lo l ++ zs ++ skipn (Nat.max lo (Nat.min hi n)) l), ORet)
      | None => (a, ORet)
      end
  | SAppend v => match pv_z v with Some z => (Some (l ++ [z]), ORet) | None => (a, ORet) end
  | SExtend vs => match pvs_z vs with Some zs => (Some (l ++ zs), ORet) | None => (a, ORet) end
  | SSort reverse => (Some (if reverse then rev (zsort l) else zsort l), ORet)
  | SReverse => (Some (rev l), ORet)
  | SClear => (Some [], ORet)
  | SReset => (None, ORet)
  | SClone flag => (if flag then a else None, ORet)
  | SLen => (a, ONat n)
  | SIter => (a, OSlots (map vslot l))
  | SIn z => (a, OBool (existsb (fun x => Z.eqb x z) l))
  | SGetItem i | SGetPos i _ =>
      (a, OSlot (match norm_idx i n with Some k => oslot (nth_error l k) | None => None end))
  | SGetSlice lo hi => (a, OSlots (map vslot (firstn (Nat.min hi n - Nat.min lo n) (skipn (Nat.min lo n) l))))
  | SCount z => (a, ONat (count_of z l))
  | SIndex z => (a, match index_of z l 0 with Some i => ONat i | None => ORaise EValue end)
  | SPretty => (a, ORet)
  | SEq l' => (a, OBool (list_eqb Z.eqb l l'))
  | SIsValue => (a, OBool (match a with Some _ => true | None => false end))
  | SEncode => (a, out_of_bytes (l_der isset l))
  end.

Fixpoint l_run (isset: bool) (a: lspec) (ops: list sop) : lspec * list out :=
  match ops with
  | [] => (a, [])
  | o :: r => let '(a', x) := l_step isset a o in
              let '(a'', xs) := l_run isset a' r in (a'', x :: xs)
  end.

(* can the container take v at a position that does (not) hold a component yet;
   ct = a component type is declared *)
Definition val_ok (ct existing: bool) (v: pyval) : bool :=
  match v with PAsn _ => true | PInt _ => ct || existing | _ => false end.
Definition is_some {A} (o: option A) : bool := match o with Some _ => true | None => false end.

(* well-formed list-style operation in prototype state a *)
Definition l_wf (ct: bool) (a: lspec) (o: sop) : bool :=
  let n := length (lst a) in
  match o with
  | SSetItem i v | SSetPos i (Some v) =>
      match norm_idx i n with
      | Some k => Nat.leb k n && val_ok ct (Nat.ltb k n) v
      | None => false
      end
  | SSetPos _ None => false
  | SSetSlice lo hi vs =>
      (* replacing a non-empty slice by as many values, or filling an empty object *)
      negb (Nat.eqb (length vs) 0) &&
      (if Nat.eqb n 0 then forallb (val_ok ct false) vs
       else Nat.ltb lo (Nat.min hi n) && Nat.eqb (lo + length vs) (Nat.min hi n) && forallb (val_ok ct true) vs)
  | SAppend v => val_ok ct false v
  | SExtend vs => forallb (val_ok ct false) vs
  | SSort _ | SReverse | SCount _ | SIndex _ | SEq _ | SEncode => is_some a
  | SGetItem i => match norm_idx i n with Some k => Nat.ltb k n | None => false end
  | SGetPos i inst => match norm_idx i n with Some k => Nat.ltb k n || negb inst | None => false end
  | _ => true
  end.

Fixpoint l_wf_hist (ct isset: bool) (a: lspec) (ops: list sop) : bool :=
  match ops with
  | [] => true
  | o :: r => l_wf ct a o && l_wf_hist ct isset (fst (l_step isset a o)) r
  end.

(* the class of finding F18d: a position at or past the end is read with instantiation (a
   placeholder is appended, holes are created), or assigned beyond the end (holes) *)
Definition f18d (ct: bool) (a: lspec) (o: sop) : bool :=
  let n := length (lst a) in
  match o with
  | SGetItem i | SGetPos i true => ct && match norm_idx i n with Some k => Nat.leb n k | None => false end
  | SSetItem i _ | SSetPos i _ => match norm_idx i n with Some k => Nat.ltb n k | None => false end
  | _ => false
  end.

(* ill-formed: position outside the documented range, a value the component type refuses,
   or a value operation on an object that is not a value *)
Definition l_ill (ct: bool) (a: lspec) (o: sop) : bool :=
  let n := length (lst a) in
  match o with
  | SSetItem i v | SSetPos i (Some v) =>
      match norm_idx i n with
      | Some k => Nat.ltb n k || negb (val_ok ct (Nat.ltb k n) v) && match v with PBadAsn => ct | _ => true end
      | None => true
      end
  | SAppend v => negb (val_ok ct false v) && match v with PBadAsn => ct | _ => true end
  | SGetItem i | SGetPos i true => match norm_idx i n with Some k => Nat.leb n k | None => true end
  | SGetPos i false => match norm_idx i n with Some _ => false | None => true end
  | SSort _ | SReverse | SCount _ | SEq _ => negb (is_some a)
  | _ => false
  end.

(* ------------------------------------------------------------------------------------------ *)
(* a finite map from the declared names (positions) to values; DEFAULT components are present *)
(* with their default from the start, as X.680 reads an absent DEFAULT component              *)

Definition rspec := list (option Z).
Definition default_of (fk: fkind) : option Z := match fk with FDef d => Some d | _ => None end.
Definition r_init (cfg: rcfg) : rspec := map (fun f => default_of (fst f)) cfg.

(* declared position addressed by an operation: unknown names and positions outside
   [-N, N) address nothing *)
Definition r_addr (cfg: rcfg) (o: rop) : option nat :=
  let byname n := if Nat.ltb n (length cfg) then Some n else None in
  match o with
  | RSetItem (KPos i) _ | RSetPos i _ | RGetItem (KPos i) | RGetPos i _ => pyidx i (length cfg)
  | RSetItem (KName n) _ | RSetName n _ | RSetType n _ | RGetItem (KName n) | RGetName n _ | RGetType n _ => byname n
  | _ => None
  end.
Definition r_setval (o: rop) : option (option pyval) :=
  match o with
  | RSetItem _ v => Some (Some v)
  | RSetPos _ v | RSetName _ v | RSetType _ v => Some v
  | _ => None
  end.
Definition r_inst (o: rop) : bool :=
  match o with RGetPos _ i | RGetName _ i | RGetType _ i => i | _ => true end.
Definition kind_of (cfg: rcfg) (k: nat) : fkind := fst (nth k cfg (FReq, tag_integer)).

Definition r_isvalue (cfg: rcfg) (a: rspec) : bool :=
  forallb (fun kf => match fst (snd kf) with FReq => is_some (nth (fst kf) a None) | _ => true end) (enumerate cfg).
Definition r_keep (fk: fkind) (v: option Z) : bool :=
  match fk, v with
  | _, None => false
  | FDef d, Some z => negb (Z.eqb z d)
  | _, Some _ => true
  end.
Definition r_chunks (cfg: rcfg) (isset: bool) (a: rspec) : list bytes :=
  let kept := filter (fun fv => r_keep (fst (fst fv)) (snd fv)) (combine cfg a) in
  let ordered := if isset then sort_by (fun x y => tag_leb (snd (fst x)) (snd (fst y))) kept else kept in
  map (fun fv => int_tlv (snd (fst fv)) (match snd fv with Some z => z | None => 0%Z end)) ordered.
Definition r_der (cfg: rcfg) (isset: bool) (a: rspec) : res bytes :=
  tlv (if isset then tag_set else tag_sequence) true (concat (r_chunks cfg isset a)).

Definition r_step (cfg: rcfg) (isset: bool) (a: rspec) (o: rop) : rspec * out :=
  match o with
  | RSetItem _ _ | RSetPos _ _ | RSetName _ _ | RSetType _ _ =>
      match r_addr cfg o, r_setval o with
      | Some k, Some (Some v) => match pv_z v with Some z => (set_nth k (Some z) a, ORet) | None => (a, ORet) end
      | Some k, Some None => (set_nth k (default_of (kind_of cfg k)) a, ORet)     (* the member is dropped *)
      | _, _ => (a, ORet)
      end
  | RClear | RReset => (r_init cfg, ORet)
  | RClone flag => (if flag then a else r_init cfg, ORet)
  | RLen => (a, ONat (length cfg))
  | RIter | RKeys => (a, ONats (names cfg))
  | RIn n => (a, OBool (Nat.ltb n (length cfg)))
  | RGetItem _ | RGetPos _ _ | RGetName _ _ | RGetType _ _ =>
      (a, OSlot (match r_addr cfg o with Some k => oslot (nth k a None) | None => None end))
  | RValues => (a, OSlots (map oslot a))
  | RItems => (a, OItems (combine (names cfg) (map oslot a)))
  | RPretty => (a, ORet)
  | REq l => (a, OBool (list_eqb Z.eqb (map (fun v => match v with Some z => z | None => 0%Z end) a) l))
  | RIsValue => (a, OBool (r_isvalue cfg a))
  | REncode => (a, out_of_bytes (r_der cfg isset a))
  | RGetComponent | RGetName0 => (a, ORet)
  end.

Fixpoint r_run (cfg: rcfg) (isset: bool) (a: rspec) (ops: list rop) : rspec * list out :=
  match ops with
  | [] => (a, [])
  | o :: r => let '(a', x) := r_step cfg isset a o in
              let '(a'', xs) := r_run cfg isset a' r in (a'', x :: xs)
  end.

Definition all_explicit (cfg: rcfg) (a: rspec) : bool :=
  forallb (fun fv => r_keep (fst (fst fv)) (snd fv)) (combine cfg a).

Definition r_wf (cfg: rcfg) (isset: bool) (a: rspec) (o: rop) : bool :=
  match o with
  | RSetItem _ _ | RSetPos _ _ | RSetName _ _ =>
      is_some (r_addr cfg o) &&
      match r_setval o with Some (Some v) => is_some (pv_z v) | Some None => true | None => false end
  | RSetType _ _ =>
      isset && is_some (r_addr cfg o) &&
      match r_setval o with Some (Some v) => is_some (pv_z v) | Some None => true | None => false end
  | RGetItem _ => is_some (r_addr cfg o)
  | RGetPos _ inst | RGetName _ inst =>
      match r_addr cfg o with
      | Some k => inst || negb (match kind_of cfg k, nth k a None with
                                | FDef d, Some z => Z.eqb z d | _, _ => false end)
      | None => match o with RGetPos _ false => true | _ => false end
      end
  | RGetType _ inst =>
      isset && match r_addr cfg o with
               | Some k => inst || negb (match kind_of cfg k, nth k a None with
                                         | FDef d, Some z => Z.eqb z d | _, _ => false end)
               | None => false
               end
  | RLen | RPretty | RGetComponent | RGetName0 => false          (* RLen: finding F18h *)
  | REq _ => all_explicit cfg a
  | REncode => r_isvalue cfg a
  | _ => true
  end.

Fixpoint r_wf_hist (cfg: rcfg) (isset: bool) (a: rspec) (ops: list rop) : bool :=
  match ops with
  | [] => true
  | o :: r => r_wf cfg isset a o && r_wf_hist cfg isset (fst (r_step cfg isset a o)) r
  end.

(* unknown name / position outside the declared range / a value the component type refuses *)
Definition r_ill (cfg: rcfg) (o: rop) : bool :=
  match o with
  | RSetItem _ _ | RSetPos _ _ | RSetName _ _ | RSetType _ _ =>
      negb (is_some (r_addr cfg o)) ||
      match r_setval o with Some (Some v) => negb (is_some (pv_z v)) | _ => false end
  | RGetItem _ | RGetPos _ true | RGetName _ _ | RGetType _ _ => negb (is_some (r_addr cfg o))
  | _ => false
  end.

(* ------------------------------------------------------------------------------------------ *)
(* CHOICE: at most one (alternative, value); the value may still be missing                   *)

Definition cspec := option (nat * option Z).

Definition c_step (cfg: rcfg) (a: cspec) (o: rop) : cspec * out :=
  let cur := match a with Some (_, v) => oslot v | None => None end in
  match o with
  | RSetItem _ _ | RSetPos _ _ | RSetName _ _ | RSetType _ _ =>
      match r_addr cfg o, r_setval o with
      | Some k, Some (Some v) => match pv_z v with Some z => (Some (k, Some z), ORet) | None => (a, ORet) end
      | Some k, Some None => (Some (k, None), ORet)
      | _, _ => (a, ORet)
      end
  | RClear | RReset => (None, ORet)
  | RClone flag => (if flag then a else None, ORet)
  | RLen => (a, ONat (match a with Some _ => 1 | None => 0 end))
  | RIter | RKeys => (a, ONats (match a with Some (k, _) => [k] | None => [] end))
  | RIn n => (a, OBool (match a with Some (k, _) => Nat.eqb k n | None => false end))
  | RGetItem _ | RGetPos _ _ | RGetName _ _ | RGetType _ _ =>
      match r_addr cfg o with
      | None => (a, OSlot None)
      | Some k =>
          match a with
          | Some (k', v) => if Nat.eqb k' k then (a, OSlot (oslot v))
                            else if r_inst o && negb (is_some v)
                                 then (Some (k, None), OSlot None)   (* instantiated: now selected; nothing is lost *)
                            else (a, OSlot None)                     (* a value is held: a read does not drop it *)
          | None => if r_inst o then (Some (k, None), OSlot None) else (a, OSlot None)
          end
      end
  | RValues => (a, OSlots (match a with Some _ => [cur] | None => [] end))
  | RItems => (a, OItems (match a with Some (k, _) => [(k, cur)] | None => [] end))
  | RPretty => (a, ORet)
  | REq l => (a, OBool (match a, l with Some (_, Some z), z' :: _ => Z.eqb z z' | _, _ => false end))
  | RIsValue => (a, OBool (match a with Some (_, Some _) => true | _ => false end))
  | REncode => (a, match a with
                   | Some (k, Some z) => OBytes (int_tlv (snd (nth k cfg (FReq, tag_integer))) z)
                   | _ => ORaise ELib end)
  | RGetComponent => (a, match a with Some _ => OSlot cur | None => ORaise ELib end)
  | RGetName0 => (a, match a with Some (k, _) => ONat k | None => ORaise ELib end)
  end.

Fixpoint c_run (cfg: rcfg) (a: cspec) (ops: list rop) : cspec * list out :=
  match ops with
  | [] => (a, [])
  | o :: r => let '(a', x) := c_step cfg a o in
              let '(a'', xs) := c_run cfg a' r in (a'', x :: xs)
  end.

(* the class of finding F18a: an alternative other than the selected one is read with
   instantiation while the selected one holds a value *)
Definition f18a (cfg: rcfg) (a: cspec) (o: rop) : bool :=
  match o with
  | RGetItem _ | RGetPos _ _ | RGetName _ _ | RGetType _ _ =>
      r_inst o && match r_addr cfg o, a with
                  | Some k, Some (k', Some _) => negb (Nat.eqb k' k)
                  | _, _ => false
                  end
  | _ => false
  end.

Definition c_wf (cfg: rcfg) (a: cspec) (o: rop) : bool :=
  negb (f18a cfg a o) &&
  match o with
  | RSetItem _ _ | RSetPos _ _ | RSetName _ _ | RSetType _ _ =>
      is_some (r_addr cfg o) &&
      match r_setval o with Some (Some v) => is_some (pv_z v) | Some None => true | None => false end
  | RGetItem _ | RGetName _ _ | RGetType _ _ => is_some (r_addr cfg o)
  | RGetPos _ inst => is_some (r_addr cfg o) || negb inst
  | RPretty => false
  | REq l => match a, l with Some (_, Some _), _ :: _ => true | _, _ => false end
  | REncode => match a with Some (_, Some _) => true | _ => false end
  | RGetComponent | RGetName0 => is_some a
  | _ => true
  end.

Fixpoint c_wf_hist (cfg: rcfg) (a: cspec) (ops: list rop) : bool :=
  match ops with
  | [] => true
  | o :: r => c_wf cfg a o && c_wf_hist cfg (fst (c_step cfg a o)) r
  end.

(* placeholders are absent members: outcomes are compared up to this *)
Definition slot_abs (c: slot) : slot := match c with Some CSchema => None | _ => c end.
Definition out_abs (o: out) : out :=
  match o with
  | OSlot c => OSlot (slot_abs c)
  | OSlots l => OSlots (map slot_abs l)
  | OItems l => OItems (map (fun kc => (fst kc, slot_abs (snd kc))) l)
  | _ => o
  end.

(* ------------------------------------------------------------------------------------------ *)
(* how a concrete state is read as a prototype state                                          *)

(* SEQUENCE OF: the dict a list becomes (keys 0..n-1 in order, every component a value) *)
Definition dense (l: list Z) : dict := enumerate (map CVal l).
Definition conc (a: lspec) : sstate := option_map dense a.

(* SEQUENCE / SET: the value a declared component holds; an absent DEFAULT reads as its default *)
Definition slot_val (fk: fkind) (c: slot) : option Z :=
  match c with Some (CVal z) => Some z | _ => default_of fk end.
Definition rabs (cfg: rcfg) (s: rstate) : rspec :=
  map (fun kf => slot_val (fst (snd kf)) (nth (fst kf) (rslots s) None)) (enumerate cfg).
(* what the code maintains: no slots, or one per declared component; a DEFAULT slot never holds a placeholder *)
Definition rinv (cfg: rcfg) (s: rstate) : Prop :=
  (rslots s = [] \/ length (rslots s) = length cfg) /\
  forall k d, kind_of cfg k = FDef d -> nth k (rslots s) None <> Some CSchema.
Definition has_req (cfg: rcfg) : bool := existsb (fun f => match fst f with FReq => true | _ => false end) cfg.

(* CHOICE *)
Definition cabs (s: cstate) : cspec :=
  match c_cur s with
  | None => None
  | Some k => Some (k, match nth k (rslots (c_cv s)) None with Some (CVal z) => Some z | _ => None end)
  end.
Definition cinv (cfg: rcfg) (s: cstate) : Prop :=
  match c_cur s with
  | None => rslots (c_cv s) = []
  | Some k => k < length cfg /\ length (rslots (c_cv s)) = length cfg /\
              nth k (rslots (c_cv s)) None <> None /\
              forall j, j <> k -> nth j (rslots (c_cv s)) None = None
  end.

(* ------------------------------------------------------------------------------------------ *)
(* what the property compares after every step                                                *)

Record obs := mkObs {
  o_content : option (list slot);     (* abstract content, in iteration order; None = not a value object *)
  o_len : nat;
  o_isvalue : bool;
  o_der : out                         (* what der.encode gives *)
}.
Definition sof_observe (ct isset: bool) (s: sstate) : obs :=
  mkObs (option_map (fun d => map Some (components d)) s) (slen s) (sof_isvalue s)
        (snd (sof_step ct isset s SEncode)).
Definition l_observe (isset: bool) (a: lspec) : obs :=
  mkObs (option_map (map vslot) a) (length (lst a)) (is_some a) (out_of_bytes (l_der isset (lst a))).

(* X.680 allows no DEFAULT on the alternatives of a CHOICE *)
Definition no_def (cfg: rcfg) : bool :=
  forallb (fun f => match fst f with FDef _ => false | _ => true end) cfg.

(* ------------------------------------------------------------------------------------------ *)
(* ties to the harness *)

(* the harness drives a plain Python list / dict / tuple in parallel with the real object; on the
   well-formed prefix of every history that Python prototype must be this specification *)
Definition lspec_eqb (a b: lspec) : bool :=
  match a, b with None, None => true | Some x, Some y => list_eqb Z.eqb x y | _, _ => false end.
Definition oz_eqb (a b: option Z) : bool :=
  match a, b with None, None => true | Some x, Some y => Z.eqb x y | _, _ => false end.
Definition rspec_eqb (a b: rspec) : bool := list_eqb oz_eqb a b.
Definition cspec_eqb (a b: cspec) : bool :=
  match a, b with
  | None, None => true
  | Some (k, v), Some (k', v') => Nat.eqb k k' && oz_eqb v v'
  | _, _ => false
  end.

Fixpoint l_spec_check (ct isset: bool) (a: lspec) (ops: list sop) (tr: list (option (lspec * out))) : bool :=
  match ops, tr with
  | o :: ops', e :: tr' =>
      if l_wf ct a o then
        match e with
        | Some (a', x) => let '(a1, y) := l_step isset a o in
                          lspec_eqb a1 a' && out_eqb y x && l_spec_check ct isset a1 ops' tr'
        | None => false
        end
      else true
  | _, _ => true
  end.
Fixpoint r_spec_check (cfg: rcfg) (isset: bool) (a: rspec) (ops: list rop) (tr: list (option (rspec * out))) : bool :=
  match ops, tr with
  | o :: ops', e :: tr' =>
      if r_wf cfg isset a o then
        match e with
        | Some (a', x) => let '(a1, y) := r_step cfg isset a o in
                          rspec_eqb a1 a' && out_eqb y x && r_spec_check cfg isset a1 ops' tr'
        | None => false
        end
      else true
  | _, _ => true
  end.
Fixpoint c_spec_check (cfg: rcfg) (a: cspec) (ops: list rop) (tr: list (option (cspec * out))) : bool :=
  match ops, tr with
  | o :: ops', e :: tr' =>
      if c_wf cfg a o then
        match e with
        | Some (a', x) => let '(a1, y) := c_step cfg a o in
                          cspec_eqb a1 a' && out_eqb y x && c_spec_check cfg a1 ops' tr'
        | None => false
        end
      else true
  | _, _ => true
  end.
(* how many leading operations are well-formed (reported as coverage of the theorems' hypothesis) *)
Fixpoint l_wf_prefix (ct isset: bool) (a: lspec) (ops: list sop) : nat :=
  match ops with
  | o :: r => if l_wf ct a o then S (l_wf_prefix ct isset (fst (l_step isset a o)) r) else 0
  | [] => 0
  end.

(* operations of the public API of the kind of object (Sequence has no *ByType methods) *)
Definition r_in_api (isset: bool) (o: rop) : bool :=
  match o with RSetType _ _ | RGetType _ _ => isset | RGetComponent | RGetName0 => false | _ => true end.

(* example data used by the non-vacuity examples and the refutation witnesses *)
Definition cfg3 : rcfg :=
  [(FReq, mkTag Univ false 2%N); (FReq, mkTag Ctx false 0%N); (FReq, mkTag Ctx false 1%N)].
Definition cfg4 : rcfg :=
  [(FReq, mkTag Univ false 2%N); (FOpt, mkTag Ctx false 0%N); (FDef 7, mkTag Ctx false 1%N); (FReq, mkTag Ctx false 2%N)].
Definition ex_h1 : list sop :=
  [SAppend (PInt 3); SExtend [PInt 1; PAsn 2]; SSetItem (-1) (PInt 7); SSort false; SReverse;
   SGetItem 0; SSetSlice 0 2 [PInt 5; PInt 6]; SClone true; SIn 6; SEncode].
Definition ex_h2 : list rop :=
  [RSetItem (KName 0) (PInt 1); RGetItem (KName 1); RSetPos (-1) (Some (PAsn 2)); RIsValue; RValues;
   RSetName 2 (Some (PInt 9)); RClone true; RSetName 2 None; REncode].
Definition ex_h3 : list rop :=
  [RGetItem (KName 0); RGetItem (KName 2); RSetItem (KName 1) (PInt 5); RGetItem (KPos (-2)); RGetPos 2 false;
   RLen; RSetPos 2 (Some (PAsn 6)); RClone true; REncode].

(* ------------------------------------------------------------------------------------------ *)
(* C12: k independent step machines stepped in an arbitrary interleaving                       *)

Section Interleaving.
  Context {St Ev: Type} (step: St -> Ev -> St).
  (* one move of the product machine: machine i takes event e, all others stay as they are *)
  Definition pstep (ss: list St) (ie: nat * Ev) : list St :=
    match nth_error ss (fst ie) with
    | Some s => set_nth (fst ie) (step s (snd ie)) ss
    | None => ss
    end.
  Definition prun (ss: list St) (w: list (nat * Ev)) : list St := fold_left pstep w ss.
  (* the events machine i receives, in order *)
  Definition proj (i: nat) (w: list (nat * Ev)) : list Ev :=
    map snd (filter (fun ie => Nat.eqb (fst ie) i) w).
End Interleaving.

(* An independent reference for ITU-T X.690, written from the text of the standard and sharing no
   code with the model of pyasn1 (Model/Enc.v, Model/Dec.v): only the vocabulary of types, values
   and abstract content (Model/Types.v) is common.

   - [der T v]      the distinguished encoding (X.690 clauses 8, 10, 11) as a function;
   - [parse b]      any BER byte string as a tree of TLVs (8.1: identifier, length in any form,
                    definite or indefinite, contents);
   - [interp T n]   the abstract value a TLV tree denotes for a type, accepting every choice the
                    basic rules leave open (segmented strings, any non-zero TRUE, SET in any order,
                    DEFAULT present or absent);
   - [read T b]     parse + interp;  [cer_canonical] the CER-specific shape rules (clause 9).
   Definitions only. *)
From PV Require Export Model.Types.
From Coq Require Import Lia.
Local Open Scope N_scope.

(* ---------- 8.1.2 identifier octets ---------- *)

Definition class_no (c: tclass) : N := match c with Univ => 0 | Appl => 1 | Ctx => 2 | Priv => 3 end.

(* digits of n in base b, most significant first (at least one digit) *)
Fixpoint digits (fuel: nat) (b n: N) : list N :=
  match fuel with
  | O => [n]
  | S f => if N.ltb n b then [n] else digits f b (n / b) ++ [n mod b]
  end.
Definition digits_of (b n: N) : list N := digits (N.size_nat n) b n.

(* all octets but the last carry bit 8 *)
Fixpoint mark_continuation (ds: list N) : bytes :=
  match ds with [] => [] | [d] => [d] | d :: r => (128 + d) :: mark_continuation r end.

Definition ident (c: tclass) (constructed: bool) (num: N) : bytes :=
  let lead := 64 * class_no c + (if constructed then 32 else 0) in
  if N.ltb num 31 then [lead + num] else (lead + 31) :: mark_continuation (digits_of 128 num).

(* ---------- 8.1.3 / 10.1 length octets (definite, fewest octets) ---------- *)
Definition length_octets (n: N) : bytes :=
  if N.ltb n 128 then [n] else let ds := digits_of 256 n in (128 + N.of_nat (length ds)) :: ds.

Definition tlv (c: tclass) (constructed: bool) (num: N) (contents: bytes) : bytes :=
  ident c constructed num ++ length_octets (N.of_nat (length contents)) ++ contents.

(* ---------- contents octets ---------- *)

(* 8.3: two's complement in the fewest octets: the least k >= 1 with -2^(8k-1) <= z < 2^(8k-1) *)
Fixpoint int_octets_count (fuel: nat) (k: nat) (z: Z) : nat :=
  match fuel with
  | O => k
  | S f => let half := (2 ^ (8 * Z.of_nat k - 1))%Z in
           if (Z.leb (- half) z && Z.ltb z half)%bool then k else int_octets_count f (S k) z
  end.
Fixpoint octets_of_N (k: nat) (n: N) : bytes :=      (* exactly k octets, big endian *)
  match k with O => [] | S k' => octets_of_N k' (n / 256) ++ [n mod 256] end.
Definition int_contents (z: Z) : bytes :=
  let k := int_octets_count (S (Z.to_nat (Z.log2 (Z.abs z + 1)))) 1 z in
  octets_of_N k (Z.to_N (z mod 2 ^ (8 * Z.of_nat k))).

(* 8.6 / 11.2: initial octet = number of unused bits, which are zero *)
Fixpoint bits_value (bs: list bool) : N :=
  match bs with [] => 0 | b :: r => (if b then 2 ^ N.of_nat (length r) else 0) + bits_value r end.
Definition bitstring_contents (bs: list bool) : bytes :=
  let n := length bs in
  let unused := ((8 - n mod 8) mod 8)%nat in
  N.of_nat unused :: octets_of_N ((n + unused) / 8) (bits_value bs * 2 ^ N.of_nat unused).

(* 8.19 *)
Definition subid_octets (n: N) : bytes := mark_continuation (digits_of 128 n).
Definition oid_contents (arcs: list N) : option bytes :=
  match arcs with
  | a1 :: a2 :: rest =>
      if (N.leb a1 2 && (N.eqb a1 2 || N.leb a2 39))%bool
      then Some (concat (map subid_octets (40 * a1 + a2 :: rest)))
      else None
  | _ => None
  end.

(* 8.5 / 11.3: base 2, odd mantissa, scaling factor 0, exponent in the fewest octets *)
Fixpoint make_odd (fuel: nat) (m: N) (e: Z) : N * Z :=
  match fuel with
  | O => (m, e)
  | S f => if N.eqb (m mod 2) 0 then make_odd f (m / 2) (e + 1)%Z else (m, e)
  end.
Definition real_contents (r: real) : option bytes :=
  match r with
  | RPInf => Some [64]
  | RNInf => Some [65]
  | RBin m e =>
      if Z.eqb m 0 then Some [] else
      let '(m', e') := make_odd (N.size_nat (Z.abs_N m)) (Z.abs_N m) e in
      let eo := int_contents e' in
      let first := 128 + (if Z.ltb m 0 then 64 else 0) in
      let head := match length eo with
                  | 1%nat => [first] | 2%nat => [first + 1] | 3%nat => [first + 2]
                  | n => [first + 3; N.of_nat n] end in
      Some (head ++ eo ++ digits_of 256 m')
  | RDec m e => if Z.eqb m 0 then Some [] else None     (* decimal forms: outside the reference *)
  | RFloat => None
  end.

(* ---------- the distinguished encoding ---------- *)

(* 8.1.2 read back: class, P/C, number and the rest (used to re-tag, 8.14.3, and by the parser) *)
Definition class_of_no (n: N) : tclass := if N.eqb n 0 then Univ else if N.eqb n 1 then Appl else if N.eqb n 2 then Ctx else Priv.
Fixpoint long_number (fuel: nat) (acc: N) (b: bytes) {struct fuel} : option (N * bytes) :=
  match fuel, b with
  | S f, o :: r => if N.ltb o 128 then Some (acc * 128 + o, r) else long_number f (acc * 128 + (o - 128)) r
  | _, _ => None
  end.
Definition split_ident (b: bytes) : option (tclass * bool * N * bytes) :=
  match b with
  | [] => None
  | o :: r =>
      let c := class_of_no (o / 64) in
      let pc := N.eqb ((o / 32) mod 2) 1 in
      let low := o mod 32 in
      if N.eqb low 31 then
        match long_number (length r) 0 r with
        | Some (n, r') => Some (c, pc, n, r')
        | None => None
        end
      else Some (c, pc, low, r)
  end.

(* 8.14.3 IMPLICIT: the identifier of the underlying encoding is replaced, its P/C bit kept *)
Definition retag (t: tag) (e: bytes) : option bytes :=
  match split_ident e with
  | Some (_, pc, _, rest) => Some (ident (tcls t) pc (tnum t) ++ rest)
  | None => None
  end.

(* X.680 8.6 canonical order of tags: class, then number *)
Definition tag_key (e: bytes) : N * N :=
  match split_ident e with Some (c, _, n, _) => (class_no c, n) | None => (0, 0) end.
Definition key_ltb (a b: N * N) : bool := N.ltb (fst a) (fst b) || (N.eqb (fst a) (fst b) && N.ltb (snd a) (snd b)).

(* 11.6: ascending order of encodings compared as octet strings, the shorter padded with 0 octets *)
Fixpoint lex_ltb (a b: bytes) : bool :=
  match a, b with
  | x :: a', y :: b' => N.ltb x y || (N.eqb x y && lex_ltb a' b')
  | [], _ :: _ => true
  | _, [] => false
  end.
Definition zero_pad (n: nat) (b: bytes) : bytes := b ++ repeat 0 (n - length b).
Definition octets_ltb (a b: bytes) : bool :=
  let n := Nat.max (length a) (length b) in lex_ltb (zero_pad n a) (zero_pad n b).

Definition insert_sorted {A} (ltb: A -> A -> bool) : A -> list A -> list A :=
  fix ins (x: A) (l: list A) : list A :=
  match l with [] => [x] | y :: r => if ltb x y then x :: l else y :: ins x r end.
Definition sort_with {A} (ltb: A -> A -> bool) (l: list A) : list A := fold_right (insert_sorted ltb) [] l.

Definition opt_bind {A B} (o: option A) (f: A -> option B) : option B := match o with Some a => f a | None => None end.
Fixpoint opt_all {A} (l: list (option A)) : option (list A) :=
  match l with [] => Some [] | Some a :: r => opt_bind (opt_all r) (fun r' => Some (a :: r')) | None :: _ => None end.

(* DEFAULT (11.5): a component equal to its default value is not encoded - equality of abstract values *)
Definition is_default (ft: ty) (x d: val) : bool := aval_eqb (abs ft x) (abs ft d).

Definition string_octets (v: val) : option bytes :=
  match v with VOcts b => Some b | VChars cs => Some (concat cs) | _ => None end.

(* clause 9 (CER) differs from clause 10 (DER) in three places: constructed encodings use the
   indefinite form; strings longer than 1000 octets are cut into 1000-octet primitive segments;
   an untagged CHOICE inside a SET is placed by the smallest tag of its type (9.3) rather than by
   the tag of the alternative chosen (10.3) *)
Definition ctlv (cer: bool) (c: tclass) (num: N) (contents: bytes) : bytes :=
  if cer then ident c true num ++ [128] ++ contents ++ [0; 0] else tlv c true num contents.

Fixpoint segs1000 (fuel: nat) (b: bytes) : list bytes :=
  match fuel with
  | O => []
  | S f => match b with [] => [] | _ => firstn 1000 b :: segs1000 f (skipn 1000 b) end
  end.
Definition string_tlv (cer: bool) (num: N) (b: bytes) : bytes :=
  if (cer && Nat.ltb 1000 (length b))%bool
  then ctlv true Univ num (concat (map (tlv Univ false 4) (segs1000 (S (length b)) b)))
  else tlv Univ false num b.
(* 8.6.4 / 9.2: BIT STRING segments of 1000 octets: 999 octets of bits each after the initial octet *)
Fixpoint segs (fuel: nat) (k: nat) (b: bytes) : list bytes :=
  match fuel with
  | O => []
  | S f => match b with [] => [] | _ => firstn k b :: segs f k (skipn k b) end
  end.
Definition bitstring_tlv (cer: bool) (bs: list bool) : bytes :=
  let c := bitstring_contents bs in
  if (cer && Nat.ltb 1000 (length c))%bool then
    let unused := hd 0 c in
    let body := tl c in
    (* every segment has 1000 contents octets (initial octet + 999), only the last has unused bits *)
    ctlv true Univ 3 (concat ((fix go (l: list bytes) : list bytes :=
                                 match l with
                                 | [] => []
                                 | [p] => [tlv Univ false 3 (unused :: p)]
                                 | p :: r => tlv Univ false 3 (0 :: p) :: go r
                                 end) (segs (S (length body)) 999 body)))
  else tlv Univ false 3 c.

(* the smallest tag an encoding of the type can start with (X.690 9.3) *)
Fixpoint min_first_tag (T: ty) : N * N :=
  match T with
  | TChoice alts =>
      (fix go (l: list ty) : N * N :=
         match l with
         | [] => (0, 0)
         | [a] => min_first_tag a
         | a :: r => let x := min_first_tag a in let y := go r in if key_ltb y x then y else x
         end) alts
  | TImp t _ | TExp t _ => (class_no (tcls t), tnum t)
  | TBool => (0, 1) | TInt => (0, 2) | TBits => (0, 3) | TOcts => (0, 4) | TNull => (0, 5) | TOid => (0, 6)
  | TReal => (0, 9) | TEnum => (0, 10) | TStr n => (0, n) | TSeq _ | TSeqOf _ => (0, 16) | TSet _ | TSetOf _ => (0, 17)
  | TAny => (0, 0)
  end.

Fixpoint canon (cer: bool) (T: ty) (v: val) {struct T} : option bytes :=
  match T, v with
  | TBool, VBool b => Some (tlv Univ false 1 [if b then 255 else 0])
  | TInt, VInt z => Some (tlv Univ false 2 (int_contents z))
  | TEnum, VInt z => Some (tlv Univ false 10 (int_contents z))
  | TBits, VBits bs => Some (bitstring_tlv cer bs)
  | TOcts, VOcts b => Some (string_tlv cer 4 b)
  | TNull, VNull => Some (tlv Univ false 5 [])
  | TOid, VOid a => opt_bind (oid_contents a) (fun c => Some (tlv Univ false 6 c))
  | TReal, VReal r => opt_bind (real_contents r) (fun c => Some (tlv Univ false 9 c))
  | TStr n, _ => opt_bind (string_octets v) (fun b => Some (string_tlv cer n b))
  | TAny, VAny b => Some b
  | TSeqOf t, VList xs =>
      opt_bind (opt_all ((fix go (xs: list val) := match xs with [] => [] | x :: r => canon cer t x :: go r end) xs))
               (fun es => Some (ctlv cer Univ 16 (concat es)))
  | TSetOf t, VList xs =>
      opt_bind (opt_all ((fix go (xs: list val) := match xs with [] => [] | x :: r => canon cer t x :: go r end) xs))
               (fun es => Some (ctlv cer Univ 17 (concat (sort_with octets_ltb es))))
  | TSeq fs, VRec vs =>
      opt_bind ((fix go (fs: list (presence * ty)) (vs: list (option val)) : option (list bytes) :=
                   match fs with
                   | [] => Some []
                   | (p, ft) :: fs' =>
                       let ov := match vs with x :: _ => x | [] => None end in
                       let vs' := match vs with _ :: r => r | [] => [] end in
                       match p, ov with
                       | Req, None => None
                       | Opt, None | Def _, None => go fs' vs'
                       | Def d, Some x => if is_default ft x d then go fs' vs'
                                          else opt_bind (canon cer ft x) (fun e => opt_bind (go fs' vs') (fun r => Some (e :: r)))
                       | _, Some x => opt_bind (canon cer ft x) (fun e => opt_bind (go fs' vs') (fun r => Some (e :: r)))
                       end
                   end) fs vs)
               (fun es => Some (ctlv cer Univ 16 (concat es)))
  | TSet fs, VRec vs =>
      (* (ordering key, encoding) of every component present *)
      opt_bind ((fix go (fs: list (presence * ty)) (vs: list (option val)) : option (list ((N * N) * bytes)) :=
                   match fs with
                   | [] => Some []
                   | (p, ft) :: fs' =>
                       let ov := match vs with x :: _ => x | [] => None end in
                       let vs' := match vs with _ :: r => r | [] => [] end in
                       let emit (x: val) :=
                         opt_bind (canon cer ft x) (fun e =>
                         opt_bind (go fs' vs') (fun r =>
                           (* 10.3 actual tag of the encoding; 9.3 smallest tag of the type *)
                           Some (((if cer then min_first_tag ft else tag_key e), e) :: r))) in
                       match p, ov with
                       | Req, None => None
                       | Opt, None | Def _, None => go fs' vs'
                       | Def d, Some x => if is_default ft x d then go fs' vs' else emit x
                       | _, Some x => emit x
                       end
                   end) fs vs)
               (fun es => Some (ctlv cer Univ 17 (concat (map snd (sort_with (fun a b => key_ltb (fst a) (fst b)) es)))))
  | TChoice alts, VChoice i x =>
      (fix go (alts: list ty) (k: nat) : option bytes :=
         match alts, k with
         | a :: _, O => canon cer a x
         | _ :: r, S k' => go r k'
         | [], _ => None
         end) alts i
  | TImp t x, _ => opt_bind (canon cer x v) (retag t)
  | TExp t x, _ => match tcls t with
                   | Univ => None
                   | _ => opt_bind (canon cer x v) (fun e => Some (ctlv cer (tcls t) (tnum t) e))
                   end
  | _, _ => None
  end.

Definition der := canon false.
Definition cer := canon true.

(* ---------- reading any BER encoding ---------- *)

(* a TLV as the basic rules structure it; [raw] is the complete encoding of the node *)
Inductive node :=
| Prim (c: tclass) (num: N) (contents: bytes) (raw: bytes)
| Cons (c: tclass) (num: N) (indefinite: bool) (children: list node) (raw: bytes).

Definition node_raw (n: node) : bytes := match n with Prim _ _ _ r | Cons _ _ _ _ r => r end.
Definition node_tag (n: node) : tclass * N := match n with Prim c k _ _ | Cons c k _ _ _ => (c, k) end.

Fixpoint octets_value (acc: N) (b: bytes) : N := match b with [] => acc | o :: r => octets_value (acc * 256 + o) r end.

(* 8.1.3: Some (Some n) definite, Some None indefinite *)
Definition split_length (b: bytes) : option (option N * bytes) :=
  match b with
  | [] => None
  | o :: r =>
      if N.ltb o 128 then Some (Some o, r)
      else if N.eqb o 128 then Some (None, r)
      else if N.eqb o 255 then None                      (* 8.1.3.5 c: reserved *)
      else let k := N.to_nat (o - 128) in
           if Nat.ltb (length r) k then None else Some (Some (octets_value 0 (firstn k r)), skipn k r)
  end.

Definition take (n: nat) (b: bytes) : bytes := firstn n b.

(* one TLV from the front of b; fuel bounds the nesting depth and the number of siblings *)
Fixpoint parse_one (fuel: nat) (b: bytes) : option (node * bytes) :=
  match fuel with
  | O => None
  | S f =>
      match split_ident b with
      | None => None
      | Some (c, pc, num, r1) =>
          match split_length r1 with
          | None => None
          | Some (Some n, r2) =>
              let n' := N.to_nat n in
              if Nat.ltb (length r2) n' then None else
              let contents := firstn n' r2 in
              let rest := skipn n' r2 in
              let raw := firstn (length b - length rest) b in
              if pc then
                match (fix many (k: nat) (cs: bytes) : option (list node) :=
                         match k with
                         | O => None
                         | S k' => match cs with
                                   | [] => Some []
                                   | _ => match parse_one f cs with
                                          | Some (nd, cs') => match many k' cs' with Some l => Some (nd :: l) | None => None end
                                          | None => None
                                          end
                                   end
                         end) (S (length contents)) contents with
                | Some kids => Some (Cons c num false kids raw, rest)
                | None => None
                end
              else Some (Prim c num contents raw, rest)
          | Some (None, r2) =>
              if negb pc then None else                  (* 8.1.3.2: indefinite only for constructed *)
              match (fix many (k: nat) (cs: bytes) : option (list node * bytes) :=
                       match k with
                       | O => None
                       | S k' => match cs with
                                 | 0 :: 0 :: cs' => Some ([], cs')       (* 8.1.5 end-of-contents *)
                                 | _ => match parse_one f cs with
                                        | Some (nd, cs') => match many k' cs' with Some (l, r) => Some (nd :: l, r) | None => None end
                                        | None => None
                                        end
                                 end
                       end) (S (length r2)) r2 with
              | Some (kids, rest) => Some (Cons c num true kids (firstn (length b - length rest) b), rest)
              | None => None
              end
          end
      end
  end.

Definition parse (b: bytes) : option (node * bytes) := parse_one (S (length b)) b.

(* --- interpretation of a TLV tree against a type --- *)

Definition tag_pair_eqb (a b: tclass * N) : bool := N.eqb (class_no (fst a)) (class_no (fst b)) && N.eqb (snd a) (snd b).

(* the tags an encoding of T can begin with; None = any (open type) *)
Fixpoint first_tags (T: ty) : option (list (tclass * N)) :=
  match T with
  | TBool => Some [(Univ, 1)] | TInt => Some [(Univ, 2)] | TBits => Some [(Univ, 3)] | TOcts => Some [(Univ, 4)]
  | TNull => Some [(Univ, 5)] | TOid => Some [(Univ, 6)] | TReal => Some [(Univ, 9)] | TEnum => Some [(Univ, 10)]
  | TStr n => Some [(Univ, n)]
  | TSeq _ | TSeqOf _ => Some [(Univ, 16)]
  | TSet _ | TSetOf _ => Some [(Univ, 17)]
  | TChoice alts =>
      (fix go (alts: list ty) : option (list (tclass * N)) :=
         match alts with
         | [] => Some []
         | a :: r => match first_tags a, go r with Some x, Some y => Some (x ++ y) | _, _ => None end
         end) alts
  | TAny => None
  | TImp t _ | TExp t _ => Some [(tcls t, tnum t)]
  end.
Definition may_start (T: ty) (tg: tclass * N) : bool :=
  match first_tags T with None => true | Some l => existsb (tag_pair_eqb tg) l end.

Definition signed_value (b: bytes) : Z :=
  match b with
  | [] => 0%Z
  | o :: _ => if N.ltb o 128 then Z.of_N (octets_value 0 b)
              else (Z.of_N (octets_value 0 b) - 2 ^ (8 * Z.of_nat (length b)))%Z
  end.

Fixpoint bits_of_N (k: nat) (n: N) : list bool := match k with O => [] | S k' => bits_of_N k' (n / 2) ++ [N.eqb (n mod 2) 1] end.
Definition bits_of_octets_spec (b: bytes) : list bool := concat (map (bits_of_N 8) b).

(* 8.7.3 / 8.23.6: a constructed string is a sequence of OCTET STRING segments, themselves
   primitive or constructed *)
Fixpoint segments (fuel: nat) (n: node) : option bytes :=
  match fuel with
  | O => None
  | S f => match n with
           | Prim Univ 4 c _ => Some c
           | Cons Univ 4 _ kids _ =>
               opt_bind (opt_all (map (segments f) kids)) (fun l => Some (concat l))
           | _ => None
           end
  end.

(* 8.6.4: BIT STRING segments; only the last may have unused bits *)
Fixpoint bit_segments (fuel: nat) (n: node) : option (list (list bool * N)) :=
  match fuel with
  | O => None
  | S f => match n with
           | Prim Univ 3 (u :: c) _ => if N.ltb 7 u then None else Some [(bits_of_octets_spec c, u)]
           | Cons Univ 3 _ kids _ => opt_bind (opt_all (map (bit_segments f) kids)) (fun l => Some (concat l))
           | _ => None
           end
  end.
Fixpoint join_bit_segments (l: list (list bool * N)) : option (list bool) :=
  match l with
  | [] => Some []
  | [(bs, u)] => if Nat.ltb (length bs) (N.to_nat u) then None else Some (firstn (length bs - N.to_nat u) bs)
  | (bs, u) :: r => if N.eqb u 0 then opt_bind (join_bit_segments r) (fun x => Some (bs ++ x)) else None
  end.

Fixpoint subids (fuel: nat) (acc: N) (fresh: bool) (b: bytes) {struct fuel} : option (list N) :=
  match fuel, b with
  | _, [] => if fresh then Some [] else None
  | S f, o :: r =>
      if (fresh && N.eqb o 128)%bool then None              (* 8.19.2: no leading 0x80 *)
      else if N.ltb o 128 then opt_bind (subids f 0 true r) (fun l => Some ((acc * 128 + o) :: l))
      else subids f (acc * 128 + (o - 128)) false r
  | O, _ => None
  end.
Definition oid_value (c: bytes) : option (list N) :=
  match subids (S (length c)) 0 true c with
  | Some (x :: rest) => if N.ltb x 40 then Some (0 :: x :: rest)
                        else if N.ltb x 80 then Some (1 :: (x - 40) :: rest)
                        else Some (2 :: (x - 80) :: rest)
  | _ => None
  end.

(* 8.5: binary encodings only (any base, any scaling factor, any exponent form) *)
Definition real_value (c: bytes) : option areal :=
  match c with
  | [] => Some AZero
  | [64] => Some APInf
  | [65] => Some ANInf
  | fo :: r =>
      if N.ltb fo 128 then None else
      let neg := N.eqb ((fo / 64) mod 2) 1 in
      let base_bits := (fo / 16) mod 4 in
      let sf := (fo / 4) mod 4 in
      let ef := fo mod 4 in
      let '(elen, r1) := if N.eqb ef 3 then (match r with l :: _ => N.to_nat l | [] => O end, tl r) else (S (N.to_nat ef), r) in
      if (Nat.eqb elen 0 || Nat.ltb (length r1) elen)%bool then None else
      let e := signed_value (firstn elen r1) in
      let m := Z.of_N (octets_value 0 (skipn elen r1)) in
      if N.eqb base_bits 3 then None else
      let e2 := (if N.eqb base_bits 0 then e else if N.eqb base_bits 1 then 3 * e else 4 * e)%Z in
      let mant := ((if neg then -1 else 1) * m * 2 ^ Z.of_N sf)%Z in
      Some (abs_real (RBin mant e2))
  end.

Definition same_tag (expect: tclass * N) (n: node) : bool := tag_pair_eqb expect (node_tag n).

Definition find_field {A} (pred: A -> bool) : list A -> option nat :=
  fix go (l: list A) : option nat :=
  match l with [] => None | x :: r => if pred x then Some O else match go r with Some i => Some (S i) | None => None end end.

Fixpoint set_slot {A} (i: nat) (x: A) (l: list (option A)) : list (option A) :=
  match l, i with [], _ => [] | _ :: r, O => Some x :: r | y :: r, S i' => y :: set_slot i' x r end.

(* [expect]: the identifier this node must carry (changed by IMPLICIT tagging above it) *)
Fixpoint interp (T: ty) (expect: option (tclass * N)) (n: node) {struct T} : option aval :=
  let own (u: N) := match expect with Some e => e | None => (Univ, u) end in
  let fuel := S (length (node_raw n)) in
  match T with
  | TBool => match n with
             | Prim _ _ [o] _ => if same_tag (own 1) n then Some (ABool (negb (N.eqb o 0))) else None
             | _ => None end
  | TInt => match n with
            | Prim _ _ (o :: c) _ => if same_tag (own 2) n then Some (AInt (signed_value (o :: c))) else None
            | _ => None end
  | TEnum => match n with
             | Prim _ _ (o :: c) _ => if same_tag (own 10) n then Some (AInt (signed_value (o :: c))) else None
             | _ => None end
  | TNull => match n with Prim _ _ [] _ => if same_tag (own 5) n then Some ANull else None | _ => None end
  | TOid => match n with
            | Prim _ _ c _ => if same_tag (own 6) n then opt_bind (oid_value c) (fun a => Some (AOid a)) else None
            | _ => None end
  | TReal => match n with
             | Prim _ _ c _ => if same_tag (own 9) n then opt_bind (real_value c) (fun r => Some (AReal r)) else None
             | _ => None end
  | TBits =>
      if negb (same_tag (own 3) n) then None else
      let as_univ := match n with Prim _ _ c r => Prim Univ 3 c r | Cons _ _ i k r => Cons Univ 3 i k r end in
      opt_bind (bit_segments fuel as_univ) (fun l => opt_bind (join_bit_segments l) (fun bs => Some (ABits bs)))
  | TOcts =>
      if negb (same_tag (own 4) n) then None else
      let as_univ := match n with Prim _ _ c r => Prim Univ 4 c r | Cons _ _ i k r => Cons Univ 4 i k r end in
      opt_bind (segments fuel as_univ) (fun b => Some (AOcts b))
  | TStr u =>
      if negb (same_tag (own u) n) then None else
      let as_univ := match n with Prim _ _ c r => Prim Univ 4 c r | Cons _ _ i k r => Cons Univ 4 i k r end in
      opt_bind (segments fuel as_univ) (fun b => Some (AOcts b))
  | TAny => match expect with None => Some (AAny (node_raw n)) | Some _ => None end
  | TSeqOf t =>
      match n with
      | Cons _ _ _ kids _ =>
          if negb (same_tag (own 16) n) then None else
          opt_bind (opt_all ((fix go (l: list node) := match l with [] => [] | k :: r => interp t None k :: go r end) kids))
                   (fun l => Some (AList l))
      | _ => None end
  | TSetOf t =>
      match n with
      | Cons _ _ _ kids _ =>
          if negb (same_tag (own 17) n) then None else
          opt_bind (opt_all ((fix go (l: list node) := match l with [] => [] | k :: r => interp t None k :: go r end) kids))
                   (fun l => Some (ABag l))
      | _ => None end
  | TSeq fs =>
      match n with
      | Cons _ _ _ kids _ =>
          if negb (same_tag (own 16) n) then None else
          (* components in order; OPTIONAL/DEFAULT ones may be missing *)
          opt_bind ((fix go (fs: list (presence * ty)) (kids: list node) {struct fs} : option (list (option aval)) :=
                       match fs with
                       | [] => match kids with [] => Some [] | _ => None end
                       | (p, ft) :: fs' =>
                           let absent := match p with
                                         | Req => None
                                         | Opt => opt_bind (go fs' kids) (fun r => Some (None :: r))
                                         | Def d => opt_bind (go fs' kids) (fun r => Some (Some (abs ft d) :: r))
                                         end in
                           match kids with
                           | k :: kids' =>
                               if may_start ft (node_tag k) then
                                 match interp ft None k with
                                 | Some a => opt_bind (go fs' kids') (fun r => Some (Some a :: r))
                                 | None => None
                                 end
                               else absent
                           | [] => absent
                           end
                       end) fs kids)
                   (fun l => Some (ARec l))
      | _ => None end
  | TSet fs =>
      match n with
      | Cons _ _ _ kids _ =>
          if negb (same_tag (own 17) n) then None else
          (* any order: each member goes to the one component whose tag it carries, once *)
          let start : option (list (option aval)) := Some (map (fun _ => None) fs) in
          let placed :=
            (fix place (kids: list node) (acc: option (list (option aval))) : option (list (option aval)) :=
               match kids with
               | [] => acc
               | k :: kids' =>
                   place kids'
                     (opt_bind acc (fun slots =>
                        (fix pick (fs: list (presence * ty)) (i: nat) : option (list (option aval)) :=
                           match fs with
                           | [] => None
                           | (p, ft) :: fs' =>
                               if may_start ft (node_tag k) then
                                 match nth_error slots i with
                                 | Some None => opt_bind (interp ft None k) (fun a => Some (set_slot i a slots))
                                 | _ => None
                                 end
                               else pick fs' (S i)
                           end) fs O))
               end) kids start in
          opt_bind placed (fun slots =>
            opt_bind (opt_all (map (fun ps => match fst ps, snd ps with
                                              | _, Some a => Some (Some a)
                                              | (Opt, _), None => Some None
                                              | (Def d, ft), None => Some (Some (abs ft d))
                                              | (Req, _), None => None
                                              end) (combine fs slots)))
                     (fun l => Some (ARec l)))
      | _ => None end
  | TChoice alts =>
      match expect with
      | Some _ => None
      | None =>
          (fix go (alts: list ty) (i: nat) : option aval :=
             match alts with
             | [] => None
             | a :: r => if may_start a (node_tag n)
                         then opt_bind (interp a None n) (fun x => Some (AChoice i x))
                         else go r (S i)
             end) alts O
      end
  | TImp t x => match expect with
                | Some e => interp x (Some e) n            (* an outer IMPLICIT tag already replaced this one *)
                | None => interp x (Some (tcls t, tnum t)) n
                end
  | TExp t x =>
      match n with
      | Cons _ _ _ [k] _ =>
          if same_tag (match expect with Some e => e | None => (tcls t, tnum t) end) n then interp x None k else None
      | _ => None end
  end.

Definition read (T: ty) (b: bytes) : option (aval * bytes) :=
  match parse b with
  | Some (n, rest) => opt_bind (interp T None n) (fun a => Some (a, rest))
  | None => None
  end.

(* ---------- clause 9: what makes an encoding canonical (CER) ---------- *)

(* indefinite length exactly for constructed encodings; string segments of 1000 octets, the last
   one shorter and non-empty, strings of at most 1000 octets primitive; FF for TRUE is checked
   where the type is known (cer_bool) *)
Fixpoint cer_segments (kids: list node) : bool :=
  match kids with
  | [] => false
  | [Prim _ _ c _] => Nat.leb 1 (length c) && Nat.leb (length c) 1000
  | Prim _ _ c _ :: r => Nat.eqb (length c) 1000 && cer_segments r
  | _ => false
  end.

Definition string_number (num: N) : bool :=
  N.eqb num 3 || N.eqb num 4 || N.eqb num 7 || N.eqb num 12 || (N.leb 18 num && N.leb num 30).

Fixpoint cer_shape (fuel: nat) (n: node) : bool :=
  match fuel with
  | O => false
  | S f =>
      match n with
      | Prim cl num c _ =>
          (* 9.2: a primitive string never exceeds 1000 contents octets (recognisable here, without the
             type, only when it carries its own universal tag); other primitives have no such limit *)
          if N.eqb (class_no cl) 0 && string_number num then Nat.leb (length c) 1000 else true
      | Cons cl num indef kids _ =>
          indef && forallb (cer_shape f) kids
          (* a constructed string is a run of full 1000-octet primitive segments and a last, non-empty one *)
          && (if N.eqb (class_no cl) 0 && string_number num then cer_segments kids else true)
      end
  end.

Definition cer_canonical (b: bytes) : bool :=
  match parse b with
  | Some (n, []) => cer_shape (S (length b)) n
  | _ => false
  end.

(* An independent reference for the three Unicode encoding forms pyasn1's character-string types
   use (UTF8String: 'utf-8', BMPString: 'utf-16-be', UniversalString: 'utf-32-be'), written from
   the Unicode Standard (chapter 3, D76 / D90-D92, table 3-6) and RFC 3629 / RFC 2781.  It shares
   no code with the checkers in Model/Dec.v: here are only the ENCODERS, from Unicode scalar
   values to octets; a byte string is well-formed in a form iff it is the image of some sequence of
   scalar values.  Definitions and three samples only. *)
From PV Require Export Base.Bytes.
Local Open Scope N_scope.

(* D76: a Unicode scalar value is a code point (0 .. 10FFFF) that is not a surrogate (D800 .. DFFF) *)
Definition scalar (c: N) : Prop := c < 0x110000 /\ ~ (0xD800 <= c <= 0xDFFF).

Definition scalarb (c: N) : bool := (c <? 0x110000) && negb ((0xD800 <=? c) && (c <=? 0xDFFF)).

(* ---------- UTF-8 (D92, table 3-6; RFC 3629 section 3) ---------- *)

Definition utf8_enc1 (c: N) : bytes :=
  if c <? 0x80 then [c]                                                        (* 0xxxxxxx *)
  else if c <? 0x800 then [0xC0 + c / 64; 0x80 + c mod 64]                     (* 110xxxxx 10xxxxxx *)
  else if c <? 0x10000 then
    [0xE0 + c / 4096; 0x80 + (c / 64) mod 64; 0x80 + c mod 64]                 (* 1110xxxx 10xxxxxx 10xxxxxx *)
  else [0xF0 + c / 262144; 0x80 + (c / 4096) mod 64; 0x80 + (c / 64) mod 64; 0x80 + c mod 64].
                                                                               (* 11110xxx 10xxxxxx 10xxxxxx 10xxxxxx *)
Definition utf8_enc (cps: list N) : bytes := flat_map utf8_enc1 cps.

(* ---------- UTF-16, big-endian (D91; RFC 2781 section 2.1) ---------- *)

(* one 16-bit code unit, most significant octet first *)
Definition be16 (u: N) : bytes := [u / 256; u mod 256].

Definition utf16be_enc1 (c: N) : bytes :=
  if c <? 0x10000 then be16 c
  else let c' := c - 0x10000 in                                  (* 20 bits *)
       be16 (0xD800 + c' / 1024) ++ be16 (0xDC00 + c' mod 1024). (* high (lead) then low (trail) surrogate *)

Definition utf16be_enc (cps: list N) : bytes := flat_map utf16be_enc1 cps.

(* ---------- UTF-32, big-endian (D90) ---------- *)

Definition utf32be_enc1 (c: N) : bytes :=
  [c / 16777216; (c / 65536) mod 256; (c / 256) mod 256; c mod 256].

Definition utf32be_enc (cps: list N) : bytes := flat_map utf32be_enc1 cps.

(* "é中😀" = U+00E9 U+4E2D U+1F600 *)
Example utf8_sample : utf8_enc [0xE9; 0x4E2D; 0x1F600] = [0xC3; 0xA9; 0xE4; 0xB8; 0xAD; 0xF0; 0x9F; 0x98; 0x80].
Proof. reflexivity. Qed.
Example utf16be_sample : utf16be_enc [0xE9; 0x4E2D; 0x1F600] = [0x00; 0xE9; 0x4E; 0x2D; 0xD8; 0x3D; 0xDE; 0x00].
Proof. reflexivity. Qed.
Example utf32be_sample : utf32be_enc [0xE9; 0x4E2D; 0x1F600] = [0; 0; 0; 0xE9; 0; 0; 0x4E; 0x2D; 0; 1; 0xF6; 0].
Proof. reflexivity. Qed.

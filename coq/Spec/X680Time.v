(* Rec. ITU-T X.680 (08/2015) clause 46 (GeneralizedTime) and clause 47 (UTCTime): what
   instant a time string denotes.  Written from the standard, not from pyasn1; imports nothing
   from Model/.  Definitions only.

   46.2  GeneralizedTime is one of
     a) a calendar date YYYYMMDD followed by a time of day HH[MM[SS]] "to any of the precisions
        defined in ISO 8601", optionally followed by a decimal point *or comma* and one or more
        digits - a decimal fraction of the LAST element present (hour, minute or second):
        local time;
     b) a) followed by "Z": UTC;
     c) a) followed by a time differential +hh[mm] / -hh[mm]: local time, which is ahead of
        (+) or behind (-) UTC by that much, so UTC = local - differential.
   47.3  UTCTime is YYMMDDhhmm[ss] followed by "Z" or by +hhmm / -hhmm.  There is no fraction,
     no local form and no short differential.  The century of YY is not fixed by X.680; the
     window used here is the one of RFC 5280 4.1.2.5.1 (YY >= 50 -> 19YY, else 20YY).  No theorem
     depends on that choice other than through leap years.

   An instant is a rational number of seconds since 0001-01-01T00:00:00 (proleptic Gregorian
   calendar), kept in lowest terms so that equal instants are Leibniz-equal, tagged with
   whether it is a local time (no relation to UTC known). *)
From Coq Require Export QArith.
From PV Require Export Base.Bytes.
Local Open Scope N_scope.

Inductive timetype := GeneralizedTime | UTCTime.

Definition is_dig (c: N) : bool := (48 <=? c) && (c <=? 57).
Definition digval (c: N) : N := c - 48.

(* a maximal run of leading digits, and what follows it *)
Fixpoint span_digits (l: list N) : list N * list N :=
  match l with
  | c :: r => if is_dig c then let (a, b) := span_digits r in (c :: a, b) else ([], l)
  | [] => ([], [])
  end.

Fixpoint number_from (acc: N) (l: list N) : N :=
  match l with [] => acc | c :: r => number_from (acc * 10 + digval c) r end.
(* the number written by a non-empty all-digit string *)
Definition number (l: list N) : option N :=
  match l with [] => None | _ => if forallb is_dig l then Some (number_from 0 l) else None end.

(* 0.d1 d2 d3 ... as a rational *)
Fixpoint fracval (l: list N) : Q :=
  match l with [] => 0%Q | c :: r => ((inject_Z (Z.of_N (digval c)) + fracval r) / 10)%Q end.

(* ---- calendar ---- *)
Definition leap (y: Z) : bool :=
  (Z.eqb (y mod 4) 0 && negb (Z.eqb (y mod 100) 0) || Z.eqb (y mod 400) 0)%Z.
Definition month_lengths (y: Z) : list Z :=
  [31; if leap y then 29 else 28; 31; 30; 31; 30; 31; 31; 30; 31; 30; 31]%Z.
Definition sumZ (l: list Z) : Z := fold_right Z.add 0%Z l.
(* days from 0001-01-01 to y-m-d *)
Definition days_of (y m d: Z) : Z :=
  (365 * (y - 1) + (y - 1) / 4 - (y - 1) / 100 + (y - 1) / 400
   + sumZ (firstn (Z.to_nat (m - 1)) (month_lengths y)) + (d - 1))%Z.
Definition date_ok (y m d: Z) : bool :=
  (Z.leb 1 m && Z.leb m 12 && Z.leb 1 d && Z.leb d (nth (Z.to_nat (m - 1)) (month_lengths y) 0))%Z.

(* ---- the three parts of a time string ---- *)

(* time zone designator: (what precedes it, None = local | Some minutes east of UTC) *)
Definition differential (tt: timetype) (d: list N) : option Z :=
  let hhmm := match tt, length d with
              | GeneralizedTime, 2%nat => Some (d ++ [48; 48])
              | _, 4%nat => Some d
              | _, _ => None end in
  match hhmm with
  | Some x => match number (firstn 2 x), number (skipn 2 x) with
              | Some h, Some m => if (h <=? 23) && (m <=? 59) then Some (Z.of_N (h * 60 + m)) else None
              | _, _ => None end
  | None => None end.

Fixpoint find_sign (l: list N) : option (list N * bool * list N) :=   (* before, is-minus, after *)
  match l with
  | [] => None
  | c :: r => if c =? 43 then Some ([], false, r) else if c =? 45 then Some ([], true, r)
              else match find_sign r with Some (a, s, b) => Some (c :: a, s, b) | None => None end
  end.

Definition split_zone (tt: timetype) (s: list N) : option (list N * option Z) :=
  match rev s with
  | 90 :: rb => Some (rev rb, Some 0%Z)
  | _ => match find_sign s with
         | Some (body, minus, d) =>
             match differential tt d with
             | Some m => Some (body, Some (if minus then (- m)%Z else m))
             | None => None end
         | None => match tt with GeneralizedTime => Some (s, None) | UTCTime => None end
         end
  end.

(* date-time digits and the fraction digits (None = no fraction written) *)
Definition split_fraction (body: list N) : option (list N * option (list N)) :=
  let (main, rest) := span_digits body in
  match rest with
  | [] => Some (main, None)
  | sep :: f => if ((sep =? 46) || (sep =? 44)) && negb (Nat.eqb (length f) 0) && forallb is_dig f
                then Some (main, Some f) else None
  end.

Definition num2 (l: list N) (i: nat) : Z := Z.of_N (number_from 0 (firstn 2 (skipn i l))).

(* seconds since the epoch of the date-time digits, and the length in seconds of their last element *)
Definition date_time (tt: timetype) (main: list N) : option (Z * Z) :=
  let '(y, rest) := match tt with
                    | GeneralizedTime => (Z.of_N (number_from 0 (firstn 4 main)), skipn 4 main)
                    | UTCTime => let yy := Z.of_N (number_from 0 (firstn 2 main)) in
                                 ((if Z.ltb yy 50 then 2000 + yy else 1900 + yy)%Z, skipn 2 main)
                    end in
  let n := length rest in
  let mo := num2 rest 0 in let d := num2 rest 2 in let h := num2 rest 4 in
  let mi := if Nat.leb 8 n then num2 rest 6 else 0%Z in
  let s := if Nat.leb 10 n then num2 rest 8 else 0%Z in
  let len_ok := match tt with
                | GeneralizedTime => Nat.eqb n 6 || Nat.eqb n 8 || Nat.eqb n 10
                | UTCTime => Nat.eqb n 8 || Nat.eqb n 10 end in
  if len_ok && forallb is_dig main && date_ok y mo d && Z.leb h 23 && Z.leb mi 59 && Z.leb s 59
  then Some ((((days_of y mo d * 24 + h) * 60 + mi) * 60 + s)%Z,
             if Nat.eqb n 6 then 3600%Z else if Nat.eqb n 8 then 60%Z else 1%Z)
  else None.

(* (is-local-time, seconds since 0001-01-01T00:00:00 [UTC unless local]) *)
Definition instant (tt: timetype) (s: list N) : option (bool * Q) :=
  match split_zone tt s with
  | None => None
  | Some (body, z) =>
      match split_fraction body with
      | None => None
      | Some (main, fr) =>
          match date_time tt main, tt, fr with
          | Some _, UTCTime, Some _ => None
          | Some (secs, unit), _, _ =>
              let f := match fr with Some d => fracval d | None => 0%Q end in
              let zs := match z with Some m => inject_Z (60 * m) | None => 0%Q end in
              Some (match z with None => true | Some _ => false end,
                    Qred (inject_Z secs + inject_Z unit * f - zs)%Q)
          | None, _, _ => None
          end
      end
  end.

(* The restrictions X.690 11.7 / 11.8 put on CER and DER that the property names: UTC
   designator Z, decimal point (never comma), the fraction - if any - non-empty, made of
   digits, without trailing zeros; nothing but digits elsewhere. *)
Definition canonical (s: list N) : bool :=
  match rev s with
  | 90 :: rb =>
      let (main, rest) := span_digits (rev rb) in
      match rest with
      | [] => true
      | 46 :: f => negb (Nat.eqb (length f) 0) && forallb is_dig f && negb (last f 0 =? 48)
      | _ => false
      end
  | _ => false
  end.

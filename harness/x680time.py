"""Independent reading of ASN.1 time strings per Rec. ITU-T X.680 clauses 46 and 47.

Written from the standard; imports nothing from pyasn1 and shares no code with the Coq model.
`instant(kind, s)` -> None (not in the grammar) or (is_local, Fraction seconds since
0001-01-01T00:00:00 of the proleptic Gregorian calendar; UTC unless is_local).

GeneralizedTime (46.2): YYYYMMDDHH[MM[SS]] [(.|,)digits+] [Z | (+|-)hh[mm]]; the fraction is a
fraction of the last element written; a differential means local = UTC + differential.
UTCTime (47.3): YYMMDDhhmm[ss] (Z | (+|-)hhmm); century per RFC 5280 (YY >= 50 -> 19YY).
"""
import re
from fractions import Fraction

_G = re.compile(r'\A([0-9]{4})([0-9]{2})([0-9]{2})([0-9]{2})(?:([0-9]{2})([0-9]{2})?)?'
                r'(?:[.,]([0-9]+))?(Z|[+-][0-9]{2}(?:[0-9]{2})?)?\Z')
_U = re.compile(r'\A([0-9]{2})([0-9]{2})([0-9]{2})([0-9]{2})([0-9]{2})([0-9]{2})?(Z|[+-][0-9]{4})\Z')


def is_leap(y):
    return y % 4 == 0 and (y % 100 != 0 or y % 400 == 0)


def month_len(y, m):
    if m == 2:
        return 29 if is_leap(y) else 28
    return 30 if m in (4, 6, 9, 11) else 31


def days_since_epoch(y, m, d):
    """days from 0001-01-01 to y-m-d (y may be 0 or negative: floor division)"""
    p = y - 1
    n = 365 * p + p // 4 - p // 100 + p // 400
    for k in range(1, m):
        n += month_len(y, k)
    return n + d - 1


def _zone(z):
    if z is None:
        return True, None
    if z == 'Z':
        return True, 0
    h = int(z[1:3]); m = int(z[3:5]) if len(z) == 5 else 0
    if h > 23 or m > 59:
        return False, None
    v = h * 60 + m
    return True, (-v if z[0] == '-' else v)


def instant(kind, s):
    if kind == 'G':
        mt = _G.match(s)
        if not mt:
            return None
        Y, M, D, h, mi, se, fr, z = mt.groups()
        y = int(Y)
    else:
        mt = _U.match(s)
        if not mt:
            return None
        Y, M, D, h, mi, se, z = mt.groups()
        fr = None
        y = int(Y); y += 2000 if y < 50 else 1900
    ok, off = _zone(z)
    if not ok:
        return None
    m, d, H = int(M), int(D), int(h)
    MI = int(mi) if mi is not None else 0
    S = int(se) if se is not None else 0
    if not (1 <= m <= 12 and 1 <= d <= month_len(y, m) and H <= 23 and MI <= 59 and S <= 59):
        return None
    unit = 3600 if mi is None else (60 if se is None else 1)
    t = Fraction(((days_since_epoch(y, m, d) * 24 + H) * 60 + MI) * 60 + S)
    if fr is not None:
        t += unit * Fraction(int(fr), 10 ** len(fr))
    if off is not None:
        t -= 60 * off
    return (off is None, t)


_C = re.compile(r'\A[0-9]+(?:\.[0-9]*[1-9])?Z\Z')


def canonical(s):
    """UTC designator Z, dot as decimal mark, fraction (if any) non-empty without trailing zeros."""
    return bool(_C.match(s))


def self_test():
    import datetime
    for (y, m, d) in [(1, 1, 1), (4, 2, 29), (1900, 3, 1), (2000, 2, 29), (2017, 8, 1), (9999, 12, 31)]:
        assert days_since_epoch(y, m, d) == datetime.date(y, m, d).toordinal() - 1
    assert instant('G', '2017080112.5Z') == instant('G', '201708011230Z')
    assert instant('G', '201708011201,50+0100') == instant('G', '20170801110130.0Z')
    assert instant('G', '20170801120112') == (True, instant('G', '20170801120112Z')[1])
    assert instant('U', '1708011201') is None and instant('U', '1708011201.5Z') is None
    assert instant('U', '170801120100-0130') == instant('G', '201708011331Z')
    assert instant('U', '500101000000Z') == instant('G', '19500101000000Z')
    assert canonical('20170801120112.59Z') and not canonical('20170801120112.590Z')
    assert not canonical('20170801120112.Z') and not canonical('20170801120112,5Z')
